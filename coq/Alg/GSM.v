(* Executable model of stockpyl's guaranteed-service-model code (gsm_helpers.py, gsm_serial.py, gsm_tree.py).
   No proofs here (see GSM_proofs.v).  Committed service times (CSTs), processing times and external
   CSTs are naturals; stage costs are an ARBITRARY table  c k tau  of exact rationals
   (in the Python code c_k(tau) = h_k * z_k * sigma_k * sqrt(tau); the harness passes the table of
   the implementation's floats, so no square root is needed here).
   float('inf') is modelled by [None : eQ];  BIG_INT (= "no external outbound CST") by [None : option nat]. *)
From SV Require Export Base.Qx.

(* ---------- extended rationals: None = +infinity ---------- *)
Definition eQ := option Q.
Definition eadd (a b : eQ) : eQ := match a, b with Some x, Some y => Some (x + y) | _, _ => None end.
Definition eltb (a b : eQ) : bool :=        (* a < b, with inf < inf false *)
  match a, b with Some x, Some y => qltb x y | Some _, None => true | None, _ => false end.
Fixpoint esum (l : list eQ) : eQ := match l with [] => Some 0 | x :: r => eadd x (esum r) end.
Definition eobs (a : eQ) : option (Z * Z) := option_map qobs a.

Definition lmax (d : nat) (l : list nat) : nat := fold_right Nat.max d l.
Definition ctab_fun (ctab : list (list Q)) (k tau : nat) : Q := nth tau (nth k ctab []) 0.
Definition nth_fun {A} (l : list A) (d : A) : nat -> A := fun i => nth i l d.

(* ============================================================================================ *)
(* (a) gsm_helpers: inbound CST, net lead time, feasibility, safety-stock cost of a CST vector     *)
(* ============================================================================================ *)
Section Net.
Variable preds : nat -> list nat.                 (* predecessor indices of a node *)
Variables (T ein : nat -> nat) (eout : nat -> option nat) (c : nat -> nat -> Q).

(* gsm_helpers.inbound_cst:  SI_k = max(external_inbound_cst_k, max_{i in preds} cst_i) *)
Definition inbound_cst (S : nat -> nat) (k : nat) : nat := lmax (ein k) (map S (preds k)).
(* gsm_helpers.net_lead_time: SI_k + T_k - S_k (may be negative) *)
Definition net_lead_time (S : nat -> nat) (k : nat) : Z :=
  (Z.of_nat (inbound_cst S k) + Z.of_nat (T k) - Z.of_nat (S k))%Z.
Definition le_eout (s k : nat) : bool := match eout k with None => true | Some e => Nat.leb s e end.
Definition node_feasible (S : nat -> nat) (k : nat) : bool :=
  Z.leb 0 (net_lead_time S k) && le_eout (S k) k.
Definition feasible (nodes : list nat) (S : nat -> nat) : bool := forallb (node_feasible S) nodes.
(* gsm_helpers.solution_cost_from_cst; None = ValueError (math.sqrt of a negative net lead time) *)
Definition solution_cost (nodes : list nat) (S : nat -> nat) : option Q :=
  if forallb (fun k => Z.leb 0 (net_lead_time S k)) nodes
  then Some (qsum (map (fun k => c k (Z.to_nat (net_lead_time S k))) nodes)) else None.

(* gsm_tree._longest_paths (max replenishment times): M_k = T_k + max(ein_k, max_{p in preds k} M_p),
   computed by [r] rounds of relaxation over the nodes 0..n-1 (exact after as many rounds as the longest path) *)
Fixpoint replen_tab (n r : nat) : list nat :=
  match r with
  | O => repeat 0%nat n
  | S r' => let prev := replen_tab n r' in
            map (fun k => (T k + lmax (ein k) (map (fun p => nth p prev 0%nat) (preds k)))%nat) (seq 0 n)
  end.
End Net.

Definition preds_of_edges (edges : list (nat * nat)) (k : nat) : list nat :=
  map fst (filter (fun e => Nat.eqb (snd e) k) edges).
Definition succs_of_edges (edges : list (nat * nat)) (k : nat) : list nat :=
  map snd (filter (fun e => Nat.eqb (fst e) k) edges).

(* gsm_tree._net_demand, variances only (the standard deviation is the square root, taken in Python):
   own variance plus the net variances of all successors; [r] rounds over nodes 0..n-1 *)
Fixpoint net_var_tab (edges : list (nat * nat)) (var : nat -> Q) (n r : nat) : list Q :=
  match r with
  | O => map var (seq 0 n)
  | S r' => let prev := net_var_tab edges var n r' in
            map (fun k => var k + qsum (map (fun j => nth j prev 0) (succs_of_edges edges k))) (seq 0 n)
  end.

(* ============================================================================================ *)
(* (b) gsm_serial._cst_dp_serial.  Stages 1..N, stage k+1 is upstream of k, demand at stage 1.    *)
(* ============================================================================================ *)
Section Serial.
Variables (N : nat) (T : nat -> nat) (ein eout : nat) (c : nat -> nat -> Q).

(* max_replenishment_time of stage k:  ein + T_N + ... + T_k *)
Definition sM (k : nat) : nat := fold_right Nat.add ein (map T (seq k (S N - k))).

(* inner loop "for S in range(lo, lo+len): if cost < min_cost" — strict <, first minimiser wins *)
Fixpoint sargmin (f : nat -> Q) (lo len : nat) (bv : Q) (bk : nat) : Q * nat :=
  match len with
  | O => (bv, bk)
  | S l => if qltb (f lo) bv then sargmin f (S lo) l (f lo) lo else sargmin f (S lo) l bv bk
  end.

(* theta[k][SI], best_S[k][SI]; [prev] is the table of stage k-1 *)
Definition stage (k : nat) (prev : list (Q * nat)) (SI : nat) : Q * nat :=
  if Nat.eqb k 1 then (c 1%nat (SI + T 1%nat - eout)%nat, Nat.min eout (SI + T 1%nat))   (* max(0, SI+T-eout) = truncated subtraction *)
  else let f := fun S => c k (SI + T k - S)%nat + fst (nth S prev (0, 0%nat)) in
       sargmin f 1 (SI + T k) (f 0%nat) 0%nat.

(* table of stage k for SI = 0 .. M_k - T_k  (for k = N the Python code only fills SI = ein, which is the last entry) *)
Fixpoint stbl (k : nat) : list (Q * nat) :=
  match k with
  | O => []
  | S k' => map (stage k (stbl k')) (seq 0 (sM k - T k + 1))
  end.

(* backtracking: [S_k; S_{k-1}; ...; S_1] given the inbound CST of stage k *)
Fixpoint sback (k SI : nat) : list nat :=
  match k with
  | O => []
  | S k' => let s := snd (nth SI (stbl k) (0, 0%nat)) in s :: sback k' s
  end.

Definition serial_cost : Q := fst (nth ein (stbl N) (0, 0%nat)).
Definition serial_cst : list nat := rev (sback N ein).      (* [S_1; ...; S_N] *)
End Serial.

(* the serial system as a network for the gsm_helpers functions of part (a): stage k+1 is the only
   predecessor of stage k; external inbound CST at stage N, external outbound CST at stage 1 *)
Definition serial_preds (N k : nat) : list nat := if Nat.ltb k N then [S k] else [].
Definition serial_ein (N ein k : nat) : nat := if Nat.eqb k N then ein else 0%nat.
Definition serial_eout (eout k : nat) : option nat := if Nat.eqb k 1 then Some eout else None.

(* entry point with list arguments: Tl = [T_1..T_N], ctab = [c_1; ...; c_N] *)
Definition gsm_serial_run (Tl : list nat) (ein eout : nat) (ctab : list (list Q)) : list nat * Q :=
  let N := length Tl in
  let T := fun k => nth (k - 1) Tl 0%nat in
  let c := fun k => ctab_fun ctab (k - 1) in
  (serial_cst N T ein eout c, serial_cost N T ein eout c).

(* ============================================================================================ *)
(* (c) gsm_tree._cst_dp_tree on a correctly labelled tree with nodes 0..n-1.                       *)
(*     par k  = larger_adjacent_node of k (k < n-1),  dn k = larger_adjacent_node_is_downstream.    *)
(* ============================================================================================ *)
Definition adjl := list (nat * nat).                 (* best_cst_adjacent: node index -> CST *)
Definition entry := (eQ * adjl)%type.
Definition tbl := list (list entry).
Definition dflt : entry := (None, []).
Definition tget (tb : tbl) (i x : nat) : entry := nth x (nth i tb []) dflt.
Definition tval (tb : tbl) (i x : nat) : eQ := fst (tget tb i x).
Definition adj_get (a : adjl) (key : nat) : option nat :=
  option_map snd (find (fun e => Nat.eqb (fst e) key) a).     (* None = KeyError *)

(* helpers.min_of_dict on {x: f x for x in range(lo, hi+1)}: min(d, key=d.get) = first minimiser *)
Fixpoint argmin_from (f : nat -> eQ) (lo len : nat) (bv : eQ) (bk : nat) : eQ * nat :=
  match len with
  | O => (bv, bk)
  | S l => if eltb (f lo) bv then argmin_from f (S lo) l (f lo) lo else argmin_from f (S lo) l bv bk
  end.
Definition min_of_range (f : nat -> eQ) (lo hi : nat) : eQ * nat := argmin_from f (S lo) (hi - lo) (f lo) lo.

(* "min_c = inf; for x in range(lo, lo+len): v, adj = f x; if v < min_c: min_c = v; best = {k: x} + adj" *)
Fixpoint scan (f : nat -> entry) (k lo len : nat) (acc : entry) : entry :=
  match len with
  | O => acc
  | S l => let va := f lo in
           if eltb (fst va) (fst acc) then scan f k (S lo) l (fst va, (k, lo) :: snd va)
           else scan f k (S lo) l acc
  end.

Section Tree.
Variables (n : nat) (par : nat -> nat) (dn : nat -> bool).
Variables (T ein : nat -> nat) (eout : nat -> option nat) (M : nat -> nat) (MM : nat) (c : nat -> nat -> Q).

(* neighbours with a smaller index: predecessors (kids_up) and successors (kids_dn) of k *)
Definition kids_up (k : nat) : list nat := filter (fun i => Nat.eqb (par i) k && dn i) (seq 0 k).
Definition kids_dn (k : nat) : list nat := filter (fun i => Nat.eqb (par i) k && negb (dn i)) (seq 0 k).
(* all predecessors of k in the relabelled tree *)
Definition rpreds (k : nat) : list nat :=
  kids_up k ++ (if Nat.ltb k (n - 1) && negb (dn k) then [par k] else []).
Definition is_out (k : nat) : bool := Nat.ltb k (n - 1) && dn k.      (* theta_out is computed for k *)

(* _calculate_c *)
Definition calc_c (tb : tbl) (k S SI : nat) : entry :=
  let ups := map (fun i => let r := min_of_range (tval tb i) 0 SI in (fst r, (i, snd r))) (kids_up k) in
  let dns := map (fun j => let r := min_of_range (tval tb j) S MM in (fst r, (j, snd r))) (kids_dn k) in
  (eadd (Some (c k (SI + T k - S)%nat)) (eadd (esum (map fst ups)) (esum (map fst dns))),
   map snd ups ++ map snd dns).

Definition le_eo (s k : nat) : bool := match eout k with None => true | Some e => Nat.leb s e end.
Definition min_eo (s k : nat) : nat := match eout k with None => s | Some e => Nat.min s e end.

(* _calculate_theta_out *)
Definition theta_out_entry (tb : tbl) (k S : nat) : entry :=
  if le_eo S k then
    let lS := min_eo S k in
    let lo := Nat.max (ein k) (lS - T k) in
    let hi := (M k - T k)%nat in
    scan (fun SI => calc_c tb k lS SI) k lo (hi + 1 - lo) dflt
  else dflt.

(* _calculate_theta_in *)
Definition theta_in_entry (tb : tbl) (k SI : nat) : entry :=
  let lSI := Nat.max SI (ein k) in
  let hi := min_eo (lSI + T k) k in
  scan (fun S => calc_c tb k S lSI) k 0 (hi + 1) dflt.

(* one iteration of the main loop: theta_out[k][0..MM] or theta_in[k][0..MM] incl. the flat extension *)
Definition node_row (tb : tbl) (k : nat) : list entry :=
  if is_out k then
    let base := map (theta_out_entry tb k) (seq 0 (M k + 1)) in
    base ++ repeat (nth (M k) base dflt) (MM - M k)
  else
    let w := (M k - T k)%nat in
    let base := map (theta_in_entry tb k) (seq 0 (w + 1)) in
    base ++ repeat (nth w base dflt) (MM - w).

Fixpoint build (k : nat) : tbl :=
  match k with O => [] | S k' => let tb := build k' in tb ++ [node_row tb k'] end.

(* backtracking. [res] = (opt_cst, opt_in_cst) of the nodes cnt .. n-1 (head = node cnt). None = KeyError *)
Fixpoint back (tb : tbl) (best_SI cnt : nat) (res : list (nat * nat)) : option (list (nat * nat)) :=
  match cnt with
  | O => Some res
  | S k =>
    if Nat.eqb k (n - 1) then
      match adj_get (snd (tget tb k best_SI)) k with
      | Some s => back tb best_SI k ((min_eo s k, best_SI) :: res)
      | None => None
      end
    else
      let pk := par k in
      let sp := nth (pk - S k) res (0%nat, 0%nat) in
      let keyp := if is_out pk then fst sp else snd sp in
      if dn k then
        match adj_get (snd (tget tb pk keyp)) k with
        | Some s => match adj_get (snd (tget tb k s)) k with
                    | Some si => back tb best_SI k ((min_eo s k, si) :: res)
                    | None => None end
        | None => None
        end
      else
        match adj_get (snd (tget tb pk keyp)) k with
        | Some si => match adj_get (snd (tget tb k si)) k with
                     | Some s => back tb best_SI k ((min_eo s k, si) :: res)
                     | None => None end
        | None => None
        end
  end.

Definition tree_tb : tbl := build n.
Definition tree_root_min : eQ * nat :=
  min_of_range (tval tree_tb (n - 1)) 0 (M (n - 1) - T (n - 1)).
Definition tree_cost : eQ := fst tree_root_min.
Definition tree_sol : option (list (nat * nat)) := back tree_tb (snd tree_root_min) n [].
End Tree.

(* preprocess_tree + _cst_dp_tree on the relabelled tree given by lists (node i at position i):
   returns (opt_cst, opt_in_cst) per node, the optimal cost, and the max replenishment times *)
Definition gsm_tree_run (parl : list nat) (dnl : list bool) (Tl einl : list nat) (eoutl : list (option nat))
                        (ctab : list (list Q)) : option (list (nat * nat)) * eQ * list nat :=
  let n := length Tl in
  let par := nth_fun parl 0%nat in let dn := nth_fun dnl false in
  let T := nth_fun Tl 0%nat in let ein := nth_fun einl 0%nat in let eout := nth_fun eoutl None in
  let Ml := replen_tab (rpreds n par dn) T ein n (2 * n) in
  let M := nth_fun Ml 0%nat in
  let MM := lmax 0%nat Ml in
  let c := ctab_fun ctab in
  (tree_sol n par dn T ein eout M MM c, tree_cost n par dn T ein eout M MM c, Ml).

(* ============================================================================================ *)
(* (d) gsm_tree.is_correctly_labeled / relabel_nodes / _find_larger_adjacent_nodes                  *)
(*     ids = node indices in tree.nodes order; edges = (predecessor, successor) pairs in the order   *)
(*     they were added (so that successor / predecessor lists come out in the network's order).      *)
(* ============================================================================================ *)
Section Relabel.
Variables (ids : list nat) (edges : list (nat * nat)).

(* SupplyChainNode.neighbor_indices: successors, then predecessors *)
Definition nbrs (i : nat) : list nat := succs_of_edges edges i ++ preds_of_edges edges i.
Definition lminl (l : list nat) : nat := fold_right Nat.min (hd 0%nat l) l.
Definition lmaxl (l : list nat) : nat := fold_right Nat.max 0%nat l.

Definition is_correctly_labeled : bool :=
  let mn := lminl ids in let mx := lmaxl ids in let n := length ids in
  (* set(ind) == set(range(min, min + len)) *)
  forallb (fun i => Nat.leb mn i && Nat.ltb i (mn + n)) ids && Nat.eqb (length (nodup Nat.eq_dec ids)) n &&
  (* every node but the largest has exactly one larger-indexed neighbour *)
  forallb (fun k => if Nat.ltb k mx
                    then Nat.eqb (length (nodup Nat.eq_dec (filter (fun j => Nat.ltb k j) (nbrs k)))) 1
                    else true) ids.

(* the labelling loop: in round k the first (in tree.nodes order) unlabelled node with <= 1 unlabelled neighbours gets k *)
Fixpoint relabel_loop (rounds k : nat) (lab : list (nat * nat)) : list (nat * nat) :=
  match rounds with
  | O => lab
  | S r =>
    let is_lab := fun i => existsb (fun e => Nat.eqb (fst e) i) lab in
    match find (fun i => negb (is_lab i) && Nat.leb (length (filter (fun j => negb (is_lab j)) (nbrs i))) 1) ids with
    | Some i => relabel_loop r (S k) ((i, k) :: lab)
    | None => relabel_loop r (S k) lab
    end
  end.

(* new_labels (old index -> new index), start_index = 0 *)
Definition new_labels (force : bool) : list (nat * nat) :=
  if is_correctly_labeled && negb force then map (fun i => (i, i)) ids
  else relabel_loop (length ids) 0 [].

(* the relabelled tree in the DP's input form: for each new position p (new label - min new label):
   (original label, position of the larger adjacent node, larger_adjacent_node_is_downstream) *)
Definition relabel_rooted (force : bool) : list (nat * nat * bool) :=
  let nl := new_labels force in
  let lab := fun i => match adj_get nl i with Some x => x | None => 0%nat end in
  let mn := lminl (map snd nl) in
  map (fun p =>
         match find (fun e => Nat.eqb (snd e) (mn + p)) nl with
         | Some (i, _) =>
             match find (fun j => Nat.ltb (lab i) (lab j)) (nbrs i) with
             | Some j => (i, (lab j - mn)%nat, existsb (Nat.eqb j) (succs_of_edges edges i))
             | None => (i, 0%nat, false)
             end
         | None => (0%nat, 0%nat, false)
         end) (seq 0 (length ids)).
End Relabel.
