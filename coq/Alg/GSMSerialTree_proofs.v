(* On a serial system the serial DP (gsm_serial) and the tree DP (gsm_tree) report the same optimal cost:
   corollary of the optimality / cost-consistency theorems of both, after identifying the two encodings of the
   serial network (stages 1..N with N upstream  /  tree nodes 0..N-1 with par k = k+1, dn k = false). *)
From SV Require Import Base.Qx Alg.GSM Alg.GSM_proofs Alg.GSMTree_proofs.

Lemma filter_all_false {A} (f : A -> bool) l : (forall x, f x = false) -> filter f l = [].
Proof. intros H. induction l as [|x l IH]; cbn [filter]; [reflexivity|]. rewrite H. exact IH. Qed.
Lemma forallb_map_comp {A B} (f : B -> bool) (g : A -> B) l : forallb f (map g l) = forallb (fun x => f (g x)) l.
Proof. induction l as [|x l IH]; cbn [map forallb]; [reflexivity|]. rewrite IH. reflexivity. Qed.
Lemma forallb_ext_in {A} (f g : A -> bool) l : (forall x, In x l -> f x = g x) -> forallb f l = forallb g l.
Proof. induction l as [|x l IH]; intros H; cbn [forallb]; [reflexivity|]. rewrite (H x (or_introl eq_refl)), IH; [reflexivity|].
  intros y Hy. apply H. right. exact Hy. Qed.

Section SerialTree.
Variables (N : nat) (T : nat -> nat) (ein eout : nat) (c : nat -> nat -> Q).
Hypothesis HN : (1 <= N)%nat.
Hypothesis Hmono : forall k a b, (a <= b)%nat -> c k a <= c k b.

(* the serial system as a correctly labelled tree *)
Definition st_par : nat -> nat := fun k => S k.
Definition st_dn : nat -> bool := fun _ => false.
Definition st_T : nat -> nat := fun k => T (S k).
Definition st_ein : nat -> nat := fun k => if Nat.eqb k (N - 1) then ein else 0%nat.
Definition st_eout : nat -> option nat := fun k => if Nat.eqb k 0 then Some eout else None.
Definition st_c : nat -> nat -> Q := fun k => c (S k).
Notation tpr := (rpreds N st_par st_dn).
Notation spr := (serial_preds N).
Notation sei := (serial_ein N ein).
Notation seo := (serial_eout eout).

Lemma st_Hpar : forall i, (i < N - 1)%nat -> (i < st_par i <= N - 1)%nat.
Proof. intros i Hi. unfold st_par. lia. Qed.

Lemma tpr_eq k : tpr k = if Nat.ltb k (N - 1) then [S k] else [].
Proof.
  unfold rpreds, kids_up. rewrite filter_all_false by (intros x; unfold st_dn; apply andb_false_r).
  cbn [app]. unfold st_dn, st_par. cbn [negb]. rewrite andb_true_r. reflexivity.
Qed.

Section Vec.
Variables (s St : nat -> nat).
Hypothesis Hs : forall k, (k < N)%nat -> St k = s (S k).

Lemma inb_eq k : (k < N)%nat -> inbound_cst tpr st_ein St k = inbound_cst spr sei s (S k).
Proof.
  intros Hk. unfold inbound_cst. rewrite tpr_eq. unfold serial_preds, st_ein, serial_ein.
  destruct (Nat.ltb_spec k (N - 1)) as [H1|H1].
  - replace (Nat.ltb (S k) N) with true by (symmetry; apply Nat.ltb_lt; lia).
    replace (Nat.eqb k (N - 1)) with false by (symmetry; apply Nat.eqb_neq; lia).
    replace (Nat.eqb (S k) N) with false by (symmetry; apply Nat.eqb_neq; lia).
    cbn [map lmax fold_right]. rewrite Hs by lia. reflexivity.
  - replace (Nat.ltb (S k) N) with false by (symmetry; apply Nat.ltb_ge; lia).
    replace (Nat.eqb k (N - 1)) with true by (symmetry; apply Nat.eqb_eq; lia).
    replace (Nat.eqb (S k) N) with true by (symmetry; apply Nat.eqb_eq; lia).
    reflexivity.
Qed.

Lemma nlt_eq k : (k < N)%nat -> net_lead_time tpr st_T st_ein St k = net_lead_time spr T sei s (S k).
Proof. intros Hk. unfold net_lead_time. rewrite inb_eq by exact Hk. rewrite Hs by exact Hk. reflexivity. Qed.

Lemma feasible_eq : feasible tpr st_T st_ein st_eout (seq 0 N) St = feasible spr T sei seo (seq 1 N) s.
Proof.
  unfold feasible. rewrite <- (seq_shift N 0), forallb_map_comp. apply forallb_ext_in.
  intros k Hk. apply in_seq in Hk. unfold node_feasible. rewrite nlt_eq by lia. f_equal.
  unfold le_eout, st_eout, serial_eout. rewrite Hs by lia. destruct k as [|k']; reflexivity.
Qed.

Lemma solution_cost_eq : solution_cost tpr st_T st_ein st_c (seq 0 N) St = solution_cost spr T sei c (seq 1 N) s.
Proof.
  unfold solution_cost. rewrite <- (seq_shift N 0), forallb_map_comp, map_map.
  rewrite (forallb_ext_in (fun k => Z.leb 0 (net_lead_time tpr st_T st_ein St k)) (fun x => Z.leb 0 (net_lead_time spr T sei s (S x))) (seq 0 N))
    by (intros k Hk; apply in_seq in Hk; rewrite nlt_eq by lia; reflexivity).
  destruct (forallb _ _); [|reflexivity]. f_equal. f_equal.
  apply map_ext_in. intros k Hk. apply in_seq in Hk. rewrite nlt_eq by lia. reflexivity.
Qed.
End Vec.

Notation Ml := (replen_tab tpr st_T st_ein N (2 * N)).

Theorem serial_equals_tree :
  exists q, tree_cost N st_par st_dn st_T st_ein st_eout (nth_fun Ml 0%nat) (lmax 0%nat Ml) st_c = Some q /\
            q == serial_cost N T ein eout c.
Proof.
  (* the tree DP's own solution, seen as a serial vector *)
  destruct (tree_dp_cost_consistent N st_par st_dn st_T st_ein st_eout st_c HN st_Hpar
              (fun k a b _ Hab => Hmono (S k) a b Hab)) as (R & q & v & ER & Eq & Ev & Hv).
  destruct (tree_dp_feasible N st_par st_dn st_T st_ein st_eout st_c HN st_Hpar) as (R' & ER' & _ & HfR).
  rewrite ER in ER'. injection ER' as <-.
  exists q. split; [exact Eq|].
  set (St := RSt R) in *. set (s := fun j => St (j - 1)%nat).
  assert (Hs : forall k, (k < N)%nat -> St k = s (S k)) by (intros k _; unfold s; f_equal; lia).
  rewrite (feasible_eq s St Hs) in HfR. rewrite (solution_cost_eq s St Hs) in Ev.
  destruct (serial_dp_optimal N T ein eout c HN s (Hmono 1%nat) HfR) as (v1 & Ev1 & Hle1).
  rewrite Ev in Ev1. injection Ev1 as <-.
  (* the serial DP's own solution, seen as a tree vector *)
  pose proof (serial_dp_feasible N T ein eout c HN) as Hfs.
  destruct (serial_dp_cost_consistent N T ein eout c HN) as (v2 & Ev2 & Hv2).
  set (so := sopt N T ein eout c) in *. set (St2 := fun k => so (S k)).
  assert (Hs2 : forall k, (k < N)%nat -> St2 k = so (S k)) by (intros; reflexivity).
  unfold serial_feasible in Hfs. rewrite <- (feasible_eq so St2 Hs2) in Hfs. rewrite <- (solution_cost_eq so St2 Hs2) in Ev2.
  destruct (tree_dp_optimal N st_par st_dn st_T st_ein st_eout st_c HN st_Hpar St2 Hfs) as (q2 & v3 & Eq2 & Ev3 & Hle2).
  rewrite Eq in Eq2. injection Eq2 as <-. rewrite Ev2 in Ev3. injection Ev3 as <-.
  lra.
Qed.
End SerialTree.
