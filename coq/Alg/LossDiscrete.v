(* Hand-written executable model (exact rationals) of the pmf-dict branches of stockpyl.loss_functions.discrete_loss /
   discrete_second_loss and of their generic (distribution-object) branches; dicts, list comprehensions and numpy sums
   are outside the translator's subset.  A pmf dict is the list of its (value, probability) items (Alg/NVDiscrete.pmf).
   No proofs here: see Alg/LossDiscrete_proofs.v. *)
From SV Require Import Base.Qx Alg.NVDiscrete.
Open Scope Q_scope.

(* discrete_loss(x, pmf=...):  n = sum((y - x) pmf[y] for y >= x),  n_bar = sum((x - y) pmf[y] for y <= x) *)
Definition dl_n (x : Z) (l : pmf) : Q := nvd_n x l.
Definition dl_nbar (x : Z) (l : pmf) : Q := nvd_nbar x l.
Definition discrete_loss_pmf (x : Z) (l : pmf) : Q * Q := (dl_n x l, dl_nbar x l).

(* discrete_second_loss(x, pmf=...):  n2 = 0.5 sum((y-x)(y-x-1) pmf[y] for y >= x),  n2_bar = 0.5 sum((x-y)(x+1-y) pmf[y] for y <= x) *)
Definition d2_n (x : Z) (l : pmf) : Q :=
  (1 # 2) * qsum (map (fun e => if (x <=? fst e)%Z then inject_Z ((fst e - x) * (fst e - x - 1)) * snd e else 0) l).
Definition d2_nbar (x : Z) (l : pmf) : Q :=
  (1 # 2) * qsum (map (fun e => if (fst e <=? x)%Z then inject_Z ((x - fst e) * (x + 1 - fst e)) * snd e else 0) l).
Definition discrete_second_loss_pmf (x : Z) (l : pmf) : Q * Q := (d2_n x l, d2_nbar x l).

(* generic branches (distribution object with cdf F and mean E, variance V), x a natural number:
     discrete_loss:         n_bar  = sum(F(y) for y in range(x)),            n  = n_bar - x + E
     discrete_second_loss:  n2_bar = sum((x - y) F(y) for y in range(x)),    n2 = 0.5 ((x-E)^2 + (x-E) + V) - n2_bar *)
Definition cdf_of (l : pmf) (y : Z) : Q := qsum (map (fun e => if (fst e <=? y)%Z then snd e else 0) l).
Definition gen_nbar (F : Z -> Q) (x : nat) : Q := qsum_range (fun y => F (Z.of_nat y)) 0 x.
Definition gen_n (F : Z -> Q) (E : Q) (x : nat) : Q := gen_nbar F x - qnat x + E.
Definition gen2_nbar (F : Z -> Q) (x : nat) : Q := qsum_range (fun y => (qnat x - qnat y) * F (Z.of_nat y)) 0 x.
Definition gen2_n (F : Z -> Q) (E V : Q) (x : nat) : Q := (1 # 2) * ((qnat x - E) * (qnat x - E) + (qnat x - E) + V) - gen2_nbar F x.

(* moments of a pmf *)
Definition pmass (l : pmf) : Q := qsum (map snd l).
Definition pmean (l : pmf) : Q := qsum (map (fun e => inject_Z (fst e) * snd e) l).
Definition pmom2 (l : pmf) : Q := qsum (map (fun e => inject_Z (fst e) * inject_Z (fst e) * snd e) l).
