(* All proofs about Alg/Helpers.v (property C20), split by topic:
     Helpers_conv_proofs    direct convolution, convolve_many, sum-of-discrete-uniforms pmf
     Helpers_search_proofs  find_nearest (sorted / unsorted), min_of_dict
     Helpers_dict_proofs    math.isclose, dict_match (symmetry, tolerance / presence semantics), dict key equality
     Helpers_norm_proofs    ensure_* normalisers, sort_dict_by_keys, change_dict_key, is_integer, rounding, compare_unhashable_lists
     Helpers_nested_proofs  sort_nested_dict_by_keys
     Helpers_build_proofs   build_node_data_dict *)
From SV Require Export Alg.Helpers_conv_proofs Alg.Helpers_search_proofs Alg.Helpers_dict_proofs Alg.Helpers_norm_proofs Alg.Helpers_nested_proofs Alg.Helpers_build_proofs.
