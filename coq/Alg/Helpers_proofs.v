(* All proofs about Alg/Helpers.v (property C20), split by topic:
     Helpers_conv_proofs    direct convolution, convolve_many, sum-of-discrete-uniforms pmf
     Helpers_search_proofs  find_nearest (sorted / unsorted), min_of_dict
     Helpers_dict_proofs    math.isclose, dict_match (symmetry, tolerance / presence semantics), dict key equality
     Helpers_norm_proofs    ensure_* normalisers, sorters, change_dict_key, is_integer, rounding, compare_unhashable_lists *)
From SV Require Export Alg.Helpers_conv_proofs Alg.Helpers_search_proofs Alg.Helpers_dict_proofs Alg.Helpers_norm_proofs.
