(* Model of stockpyl.optimization.golden_section_search over a record of operations, so that the SAME term
   runs at R (Coq reals; theorems in Golden_proofs.v) and at PrimFloat (binary64; compared bit for bit
   with Python).  Executable; no proofs here.  Mirrors optimization.py line by line:

     invphi = (sqrt 5 - 1)/2; invphi2 = (3 - sqrt 5)/2; (a, b) = (min(a,b), max(a,b)); h = b - a
     if h <= tol: x = (a+b)/2; return (x, f x)
     n = ceil(log(tol/h)/log(invphi))              -- the log is not modelled: n is an INPUT
     c = a + invphi2*h; d = a + invphi*h; yc = f c; yd = f d
     repeat n-1 times: if yc < yd then (b,d,yd,h,c,yc) := (d,c,yc,invphi*h,a+invphi2*h,f c)
                                  else (a,c,yc,h,d,yd) := (c,d,yd,invphi*h,a+invphi*h,f d)
     x = (a+d)/2 if yc < yd else (c+b)/2; return (x, f x)                                              *)
From Coq Require Export Reals Floats ZArith List Bool.
Import ListNotations.

Record Ops := mkOps {
  T : Type;
  c1 : T; c2 : T; c3 : T; c5 : T;
  oadd : T -> T -> T; osub : T -> T -> T; omul : T -> T -> T; odiv : T -> T -> T;
  oabs : T -> T; osqrt : T -> T;
  oltb : T -> T -> bool; oleb : T -> T -> bool }.

Section Golden.
Variable Op : Ops.
Notation T := (T Op).

Definition invphi : T := odiv Op (osub Op (osqrt Op (c5 Op)) (c1 Op)) (c2 Op).
Definition invphi2 : T := odiv Op (osub Op (c3 Op) (osqrt Op (c5 Op))) (c2 Op).
Definition omin (a b : T) : T := if oltb Op b a then b else a.      (* Python min(a, b) *)
Definition omax (a b : T) : T := if oltb Op a b then b else a.      (* Python max(a, b) *)

Record gstate := mkG { ga : T; gb : T; gc : T; gd : T; gyc : T; gyd : T; gh : T }.

Definition ginit (f : T -> T) (a b : T) : gstate :=
  let h := osub Op b a in
  let c := oadd Op a (omul Op invphi2 h) in
  let d := oadd Op a (omul Op invphi h) in
  mkG a b c d (f c) (f d) h.

Definition gstep (f : T -> T) (s : gstate) : gstate :=
  if oltb Op (gyc s) (gyd s) then
    let h := omul Op invphi (gh s) in
    let c := oadd Op (ga s) (omul Op invphi2 h) in
    mkG (ga s) (gd s) c (gc s) (f c) (gyc s) h
  else
    let h := omul Op invphi (gh s) in
    let d := oadd Op (gc s) (omul Op invphi h) in
    mkG (gc s) (gb s) (gd s) d (gyd s) (f d) h.

Fixpoint giter (f : T -> T) (k : nat) (s : gstate) : gstate :=
  match k with O => s | S k' => giter f k' (gstep f s) end.

(* the final bracket and its midpoint *)
Definition gfinal_lo (s : gstate) : T := if oltb Op (gyc s) (gyd s) then ga s else gc s.
Definition gfinal_hi (s : gstate) : T := if oltb Op (gyc s) (gyd s) then gd s else gb s.
Definition gmid (s : gstate) : T := odiv Op (oadd Op (gfinal_lo s) (gfinal_hi s)) (c2 Op).

(* golden_section_search(f, a0, b0, tol) with n given *)
Definition golden (f : T -> T) (a0 b0 tol : T) (n : nat) : T * T :=
  let a := omin a0 b0 in let b := omax a0 b0 in
  let h := osub Op b a in
  if oleb Op h tol then let x := odiv Op (oadd Op a b) (c2 Op) in (x, f x)
  else let s := giter f (n - 1) (ginit f a b) in
       let x := gmid s in (x, f x).
End Golden.

(* ---- the two instances ---------------------------------------------------------------------------- *)
Definition ROps : Ops :=
  mkOps R 1%R 2%R 3%R 5%R Rplus Rminus Rmult Rdiv Rabs R_sqrt.sqrt
        (fun x y => if Rlt_dec x y then true else false)
        (fun x y => if Rle_dec x y then true else false).

Definition FOps : Ops :=
  mkOps float 1%float 2%float 3%float 5%float PrimFloat.add PrimFloat.sub PrimFloat.mul PrimFloat.div
        PrimFloat.abs PrimFloat.sqrt PrimFloat.ltb PrimFloat.leb.

(* ---- one-variable functions used in the correspondence: expression trees over the ops --------------- *)
Inductive fexpr (A : Type) : Type :=
| FX | FC (c : A)
| FAdd (a b : fexpr A) | FSub (a b : fexpr A) | FMul (a b : fexpr A) | FDiv (a b : fexpr A)
| FAbs (a : fexpr A).
Arguments FX {A}. Arguments FC {A} c. Arguments FAdd {A} a b. Arguments FSub {A} a b.
Arguments FMul {A} a b. Arguments FDiv {A} a b. Arguments FAbs {A} a.

Fixpoint feval (O : Ops) (e : fexpr (T O)) (x : T O) : T O :=
  match e with
  | FX => x
  | FC c => c
  | FAdd a b => oadd O (feval O a x) (feval O b x)
  | FSub a b => osub O (feval O a x) (feval O b x)
  | FMul a b => omul O (feval O a x) (feval O b x)
  | FDiv a b => odiv O (feval O a x) (feval O b x)
  | FAbs a => oabs O (feval O a x)
  end.

(* observable form of a binary64 value: (kind, sign, mantissa, exponent), value = (-1)^sign * mantissa * 2^exponent;
   kind 0 = zero, 1 = infinity, 2 = nan, 3 = finite *)
Definition fobs (x : float) : Z * bool * Z * Z :=
  match Prim2SF x with
  | S754_zero s => (0%Z, s, 0%Z, 0%Z)
  | S754_infinity s => (1%Z, s, 0%Z, 0%Z)
  | S754_nan => (2%Z, false, 0%Z, 0%Z)
  | S754_finite s m e => (3%Z, s, Zpos m, e)
  end.
