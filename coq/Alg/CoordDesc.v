(* Model of stockpyl.meio_general.meio_by_coordinate_descent, polymorphic in the number type (run at Q in the
   correspondence, theorems at R in CoordDesc_proofs.v) and parameterised by the line search:
     ls k g lo hi = result (x, y) of the k-th call golden_section_search(g, lo, hi, tol=line_search_tol).
   Executable; no proofs here.  Mirrors the Python:

     current = {n: initial[opt_group[n]]};  current_cost = obj(current)
     while not done:
        for g in group_list:  (x, y) = golden(Sn |-> obj(current with every node of g set to Sn), lo[min g], hi[min g])
                              current[n] = x for n in g;  best_cost = y
        if best_cost >= current_cost - tol: done  else: current_cost = best_cost
     return (current, best_cost)

   The while loop gets explicit fuel (None = fuel exhausted; every theorem is about a Some result).
   Search-range / initial-solution defaults (0, 3*lead time*total mean demand, total mean demand) are resolved
   by the caller: [lo], [hi], [start] are total functions of the node index. *)
From SV Require Export Alg.Enum.

Section CD.
Context {T : Type}.
Variables (tsub : T -> T -> T) (tleb : T -> T -> bool).
Variables (nodes : list nat) (f : list T -> T).
Variable ls : nat -> (T -> T) -> T -> T -> T * T.
Variables (lo hi : nat -> T).

(* S = current.copy(); for n in g: S[n] = x *)
Definition set_group (g : list nat) (x : T) (cur : list T) : list T :=
  map (fun nv => if mem (fst nv) g then x else snd nv) (combine nodes cur).

Definition slice (g : list nat) (cur : list T) : T -> T := fun sn => f (set_group g sn cur).

(* one pass over the groups; k = index of the next line-search call; bc = best_cost so far *)
Fixpoint sweep (gl : list (list nat)) (k : nat) (cur : list T) (bc : T) : list T * T * nat :=
  match gl with
  | [] => (cur, bc, k)
  | g :: r =>
      let xy := ls k (slice g cur) (lo (list_min g)) (hi (list_min g)) in
      sweep r (S k) (set_group g (fst xy) cur) (snd xy)
  end.

Fixpoint cd_loop (fuel : nat) (gl : list (list nat)) (tol : T) (k : nat) (cur : list T) (cc : T)
  : option (list T * T) :=
  match fuel with
  | O => None
  | S fu =>
      let r := sweep gl k cur cc in
      let cur' := fst (fst r) in let bc := snd (fst r) in
      if tleb (tsub cc tol) bc                                  (* best_cost >= current_cost - tol *)
      then Some (cur', bc)
      else cd_loop fu gl tol (snd r) cur' bc
  end.

Definition cd_start (groups : option (list (list nat))) (start : nat -> T) : list T :=
  map (fun n => start (opt_group groups n)) nodes.

Definition cd (fuel : nat) (groups : option (list (list nat))) (start : nat -> T) (tol : T) : option (list T * T) :=
  let cur0 := cd_start groups start in
  cd_loop fuel (group_list nodes groups) tol 0 cur0 (f cur0).
End CD.

(* instance used in the correspondence: exact rationals, line-search points taken from the implementation's log *)
Definition assoc_fn (l : list (nat * Q)) : nat -> Q := assoc_q l.
Definition cd_Q (nodes : list nat) (e : oexpr) (xs : list Q) (lo hi : list (nat * Q)) (fuel : nat)
    (groups : option (list (list nat))) (start : list (nat * Q)) (tol : Q) : option (list Q * Q) :=
  cd Qminus qleb nodes (oeval e) (fun k g _ _ => let x := nth k xs 0 in (x, g x))
     (assoc_fn lo) (assoc_fn hi) fuel groups (assoc_fn start) tol.
