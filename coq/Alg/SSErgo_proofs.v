(* Expected-value ergodic theorem for the (s,S) chain of Alg/SS.v:
     | (1/T) sum_{t<T} E_mu[cost of period t]  -  gcost s S |  <=  ergB s S / T
   for every n = S-s >= 1, every pmf (p_l >= 0, sum 1, p_0 < 1), every G, K, every initial distribution mu, every T >= 1.
   Part 1: generic lemma for finite stochastic matrices over Q ("Poisson equation => Cesaro bound").
   Part 2: the bias vector of the (s,S) chain solves the Poisson equation (uses SS_proofs.phi_top).
   Part 3: the theorems about the list model of SSErgo.v. *)
From SV Require Import Base.Qx Alg.SS Alg.SS_proofs.
From SV Require Import Alg.SSErgo.

(* ---------- small facts ---------- *)
Lemma qnat_S T : qnat (S T) == qnat T + 1.
Proof. unfold qnat. rewrite Nat2Z.inj_succ. unfold Z.succ. rewrite inject_Z_plus. reflexivity. Qed.
Lemma qnat_pos T : (1 <= T)%nat -> 0 < qnat T.
Proof. intro H. unfold qnat. change 0 with (inject_Z 0). rewrite <- Zlt_Qlt. lia. Qed.

Lemma qsum_range_swap (F : nat -> nat -> Q) n k :
  qsum_range (fun j => qsum_range (fun i => F i j) 0 n) 0 k == qsum_range (fun i => qsum_range (fun j => F i j) 0 k) 0 n.
Proof. induction k as [|k IH].
  - cbn [qsum_range]. rewrite qsum_range_zero; [lra|]. intros i _. cbn [qsum_range]. lra.
  - rewrite qsum_range_last, IH. cbn [Nat.add].
    rewrite (qsum_range_ext (fun i => qsum_range (fun j => F i j) 0 (S k)) (fun i => qsum_range (fun j => F i j) 0 k + F i k)).
    2:{ intros i _. rewrite qsum_range_last. cbn [Nat.add]. lra. }
    rewrite qsum_range_add. lra. Qed.

Lemma qsum_range_scale_r c f lo n : qsum_range (fun i => f i * c) lo n == qsum_range f lo n * c.
Proof. rewrite (qsum_range_ext _ (fun i => c * f i)); [rewrite qsum_range_scale; lra | intros; lra]. Qed.

Lemma qmaxabs_ge f : forall k i, (i < k)%nat -> Qabs (f i) <= qmaxabs f k.
Proof. induction k as [|k IH]; intros i Hi; [lia|]. cbn [qmaxabs].
  destruct (Nat.eq_dec i k) as [->|Hne].
  - destruct (qmax_spec (Qabs (f k)) (qmaxabs f k)) as [[H E]|[H E]]; rewrite E; lra.
  - specialize (IH i ltac:(lia)). destruct (qmax_spec (Qabs (f k)) (qmaxabs f k)) as [[H E]|[H E]]; rewrite E; lra. Qed.
Lemma qmaxabs_nonneg f k : 0 <= qmaxabs f k.
Proof. destruct k as [|k]; cbn [qmaxabs]; [lra|]. pose proof (Qabs_nonneg (f k)).
  destruct (qmax_spec (Qabs (f k)) (qmaxabs f k)) as [[H1 E]|[H1 E]]; rewrite E; lra. Qed.
Lemma qmaxabs_bounds f k i : (i < k)%nat -> - qmaxabs f k <= f i /\ f i <= qmaxabs f k.
Proof. intro Hi. apply Qabs_Qle_condition. apply qmaxabs_ge. exact Hi. Qed.

(* ================= Part 1: finite stochastic matrices ================= *)
Section Generic.
Variable n : nat.
Variable P : nat -> nat -> Q.

Notation stepf := (stepf n P).
Notation distf := (distf n P).
Notation dotn := (dotn n).
Notation Pf := (Pf n P).
Notation probf := (probf n).

Lemma dotn_ext a a' b b' : (forall i, (i < n)%nat -> a i == a' i) -> (forall i, (i < n)%nat -> b i == b' i) -> dotn a b == dotn a' b'.
Proof. intros Ha Hb. unfold dotn. apply qsum_range_ext. intros i Hi. rewrite (Ha i), (Hb i) by lia. lra. Qed.
Lemma stepf_ext mu mu' : (forall i, (i < n)%nat -> mu i == mu' i) -> forall j, stepf mu j == stepf mu' j.
Proof. intros H j. unfold stepf. apply qsum_range_ext. intros i Hi. rewrite (H i) by lia. lra. Qed.

(* (mu P) . f = mu . (P f) *)
Lemma dot_step mu f : dotn (stepf mu) f == dotn mu (Pf f).
Proof. unfold dotn, stepf, Pf.
  rewrite (qsum_range_ext (fun j => qsum_range (fun i => mu i * P i j) 0 n * f j) (fun j => qsum_range (fun i => mu i * P i j * f j) 0 n)).
  2:{ intros j _. rewrite qsum_range_scale_r. lra. }
  rewrite (qsum_range_swap (fun i j => mu i * P i j * f j) n n).
  apply qsum_range_ext. intros i _. rewrite <- qsum_range_scale. apply qsum_range_ext. intros j _. lra. Qed.

Hypothesis P_nonneg : forall i j, (i < n)%nat -> (j < n)%nat -> 0 <= P i j.
Hypothesis P_rows : forall i, (i < n)%nat -> qsum_range (P i) 0 n == 1.

(* a stochastic matrix maps probability vectors to probability vectors *)
Lemma step_prob mu : probf mu -> probf (stepf mu).
Proof. intros [Hnn H1]. split.
  - intros j Hj. unfold stepf. apply qsum_range_nonneg. intros i Hi. apply Qmult_le_0_compat; [apply Hnn; lia | apply P_nonneg; lia].
  - assert (E : qsum_range (stepf mu) 0 n == dotn (stepf mu) (fun _ => 1)).
    { unfold dotn. apply qsum_range_ext. intros; lra. }
    rewrite E, dot_step. unfold dotn. rewrite <- H1. apply qsum_range_ext. intros i Hi. unfold Pf.
    rewrite (qsum_range_ext (fun j => P i j * 1) (P i)) by (intros; lra). rewrite P_rows by lia. lra. Qed.
Lemma dist_prob mu : probf mu -> forall t, probf (distf mu t).
Proof. intros H t. induction t as [|t IH]; [exact H | cbn [distf]; apply step_prob; exact IH]. Qed.

(* |mu . h| <= H for a probability vector *)
Lemma dot_bound mu (h : nat -> Q) H : probf mu -> (forall i, (i < n)%nat -> - H <= h i /\ h i <= H) ->
  - H <= dotn mu h /\ dotn mu h <= H.
Proof. intros [Hnn H1] Hh.
  assert (U : dotn mu h <= qsum_range (fun i => H * mu i) 0 n).
  { unfold dotn. apply qsum_range_le. intros i Hi. pose proof (Hnn i ltac:(lia)). destruct (Hh i ltac:(lia)). nra. }
  assert (L : qsum_range (fun i => (- H) * mu i) 0 n <= dotn mu h).
  { unfold dotn. apply qsum_range_le. intros i Hi. pose proof (Hnn i ltac:(lia)). destruct (Hh i ltac:(lia)). nra. }
  rewrite qsum_range_scale, H1 in U, L. split; lra. Qed.

Variable c h : nat -> Q.
Variable g : Q.
Hypothesis poisson : forall i, (i < n)%nat -> c i - g == h i - Pf h i.

Lemma one_step mu : probf mu -> dotn mu c == g + dotn mu h - dotn (stepf mu) h.
Proof. intros [Hnn H1]. rewrite dot_step. unfold dotn.
  rewrite (qsum_range_ext (fun i => mu i * c i) (fun i => g * mu i + (mu i * h i + (-1) * (mu i * Pf h i)))).
  2:{ intros i Hi. pose proof (poisson i ltac:(lia)) as E. setoid_replace (c i) with (g + h i - Pf h i) by lra. ring. }
  rewrite !qsum_range_add, !qsum_range_scale, H1. lra. Qed.

(* the exact telescoped identity *)
Theorem poisson_total mu : probf mu -> forall T,
  qsum_range (fun t => dotn (distf mu t) c) 0 T == qnat T * g + dotn mu h - dotn (distf mu T) h.
Proof. intros Hmu T. induction T as [|T IH].
  - cbn [qsum_range distf]. change (qnat 0) with 0. lra.
  - rewrite qsum_range_last, IH, qnat_S. cbn [Nat.add distf]. rewrite (one_step (distf mu T) (dist_prob mu Hmu T)). lra. Qed.

Theorem poisson_total_bound mu H : probf mu -> (forall i, (i < n)%nat -> - H <= h i /\ h i <= H) -> forall T,
  Qabs (qsum_range (fun t => dotn (distf mu t) c) 0 T - qnat T * g) <= 2 * H.
Proof. intros Hmu Hh T. apply Qabs_Qle_condition. rewrite (poisson_total mu Hmu T).
  destruct (dot_bound mu h H Hmu Hh). destruct (dot_bound (distf mu T) h H (dist_prob mu Hmu T) Hh). split; lra. Qed.

(* "Poisson equation => |Cesaro average - g| <= 2 max|h| / T" *)
Theorem poisson_cesaro mu H : probf mu -> (forall i, (i < n)%nat -> - H <= h i /\ h i <= H) -> forall T, (1 <= T)%nat ->
  Qabs (qsum_range (fun t => dotn (distf mu t) c) 0 T / qnat T - g) <= 2 * H / qnat T.
Proof. intros Hmu Hh T HT. pose proof (qnat_pos T HT) as HTp.
  pose proof (poisson_total_bound mu H Hmu Hh T) as B. apply Qabs_Qle_condition in B. destruct B as [B1 B2].
  set (tot := qsum_range (fun t => dotn (distf mu t) c) 0 T) in *.
  apply Qabs_Qle_condition.
  assert (E1 : (tot / qnat T) * qnat T == tot) by (field; lra).
  assert (E2 : (2 * H / qnat T) * qnat T == 2 * H) by (field; lra).
  set (x := tot / qnat T) in *. set (b := 2 * H / qnat T) in *. split; nra. Qed.
End Generic.

(* ================= Part 2: the bias vector of the (s,S) chain ================= *)
Section Chain.
Variable pmf : list Q.
Variable G : Z -> Q.
Variable K : Q.
Hypothesis p_nonneg : forall l, 0 <= pf pmf l.
Hypothesis p_sum1 : qsum pmf == 1.
Hypothesis p0_lt1 : pf pmf 0 < 1.
Notation trans := (trans pmf).
Notation tailp := (tailp pmf).
Notation gcost := (gcost pmf G K).

Lemma bias_at_phi g s U : bias_at pmf G K g s U = phi pmf G K g s U.
Proof. reflexivity. Qed.

(* (P f)_i = sum_{l < n-i} p_l f(i+l) + P(D >= n-i) f(0) *)
Lemma Pf_trans n (f : nat -> Q) i : (i < n)%nat ->
  Pf n (trans n) f i == qsum_range (fun l => pf pmf l * f (i + l)%nat) 0 (n - i) + tailp (n - i) * f 0%nat.
Proof. intro Hi. unfold Pf, SS.trans.
  rewrite (qsum_range_ext _ (fun j => (if Nat.leb i j then pf pmf (j - i) else 0) * f j + tailp (n - i) * ((if Nat.eqb j 0 then 1 else 0) * f j))).
  2:{ intros j _. destruct (Nat.eqb j 0); ring. }
  rewrite qsum_range_add, qsum_range_scale, (ind0_sum f n ltac:(lia)).
  assert (A : qsum_range (fun j => (if Nat.leb i j then pf pmf (j - i) else 0) * f j) 0 n == qsum_range (fun l => pf pmf l * f (i + l)%nat) 0 (n - i)); [|lra].
  replace n with (i + (n - i))%nat at 1 by lia. rewrite qsum_range_split. rewrite qsum_range_zero.
  2:{ intros j Hj. replace (Nat.leb i j) with false by (symmetry; apply Nat.leb_gt; lia). lra. }
  cbn [Nat.add]. rewrite <- (qsum_range_unshift (fun l => pf pmf l * f (i + l)%nat) (n - i) i).
  rewrite Qplus_0_l. apply qsum_range_ext. intros j Hj.
  replace (Nat.leb i j) with true by (symmetry; apply Nat.leb_le; lia). replace (i + (j - i))%nat with j by lia. lra. Qed.

Lemma bias_0 s S : (s < S)%Z -> bias pmf G K s S 0 == 0.
Proof. intro Hs. unfold bias, bias_at. replace (S - Z.of_nat 0)%Z with S by lia.
  pose proof (c_times_M pmf G K p0_lt1 p_nonneg s S Hs) as E. unfold wG in E. unfold wGm. lra. Qed.

(* the Poisson equation:  cstate_i - g = h_i - (P h)_i  for every state i *)
Theorem ss_poisson s S : (s < S)%Z -> let n := Z.to_nat (S - s) in forall i, (i < n)%nat ->
  cstate pmf G K n S i - gcost s S == bias pmf G K s S i - Pf n (trans n) (bias pmf G K s S) i.
Proof. intros Hs n i Hi. rewrite (Pf_trans n _ i Hi), (bias_0 s S Hs).
  unfold bias at 1. rewrite bias_at_phi.
  pose proof (phi_top pmf G K p0_lt1 p_sum1 (gcost s S) s (S - Z.of_nat i) ltac:(unfold n in Hi; lia)) as E. cbv zeta in E.
  replace (Z.to_nat (S - Z.of_nat i - s)) with (n - i)%nat in E by (unfold n; lia).
  rewrite E. unfold cstate.
  rewrite (qsum_range_ext (fun l => pf pmf l * bias pmf G K s S (i + l)) (fun l => pf pmf l * phi pmf G K (gcost s S) s (S - Z.of_nat i - Z.of_nat l))).
  2:{ intros l _. unfold bias. rewrite bias_at_phi. replace (S - Z.of_nat (i + l))%Z with (S - Z.of_nat i - Z.of_nat l)%Z by lia. lra. }
  ring. Qed.

(* ================= Part 3: the list model ================= *)
Notation step := (step pmf).
Notation dist := (dist pmf).
Definition vec (v : list Q) : nat -> Q := fun i => nth i v 0.

Lemma nth_map_seq (f : nat -> Q) n j : (j < n)%nat -> nth j (map f (seq 0 n)) 0 = f j.
Proof. intro Hj. rewrite (nth_indep _ 0 (f 0%nat)) by (rewrite map_length, seq_length; exact Hj).
  rewrite map_nth, seq_nth by exact Hj. reflexivity. Qed.
Lemma nth_map_seq_out (f : nat -> Q) n j : (n <= j)%nat -> nth j (map f (seq 0 n)) 0 = 0.
Proof. intro Hj. apply nth_overflow. rewrite map_length, seq_length. exact Hj. Qed.

Lemma step_length n mu : length (step n mu) = n.
Proof. unfold SSErgo.step. rewrite map_length, seq_length. reflexivity. Qed.
Lemma step_vec n mu j : (j < n)%nat -> vec (step n mu) j == stepf n (trans n) (vec mu) j.
Proof. intro Hj. unfold vec, SSErgo.step. rewrite nth_map_seq by exact Hj. rewrite Qred_correct. unfold stepf. lra. Qed.
Lemma dist_length n mu t : length mu = n -> length (dist n mu t) = n.
Proof. intro H. destruct t; cbn [SSErgo.dist]; [exact H | apply step_length]. Qed.
Lemma dist_vec n mu : forall t j, (j < n)%nat -> vec (dist n mu t) j == distf n (trans n) (vec mu) t j.
Proof. induction t as [|t IH]; intros j Hj; cbn [SSErgo.dist distf]; [lra|].
  rewrite step_vec by exact Hj. apply stepf_ext. exact IH. Qed.

Lemma is_dist_probf n mu : is_dist n mu -> probf n (vec mu).
Proof. intros (Hl & Hnn & H1). split; [intros i _; apply Hnn|].
  rewrite <- H1, qsum_as_range, Hl. unfold vec. lra. Qed.

Lemma trans_nn n i j : (i < n)%nat -> (j < n)%nat -> 0 <= trans n i j.
Proof. intros _ _. apply trans_nonneg. exact p_nonneg. Qed.
Lemma trans_rows n i : (i < n)%nat -> qsum_range (trans n i) 0 n == 1.
Proof. apply trans_row_sum. exact p_sum1. Qed.

(* mu P^t is a probability vector for every t *)
Theorem dist_is_dist n mu t : is_dist n mu -> is_dist n (dist n mu t).
Proof. intro Hd. pose proof (dist_prob n (trans n) (trans_nn n) (trans_rows n) (vec mu) (is_dist_probf n mu Hd) t) as [Hnn H1].
  destruct Hd as (Hl & Hnn0 & _).
  split; [apply dist_length; exact Hl|]. split.
  - intro i. destruct (Nat.lt_ge_cases i n) as [Hi|Hi].
    + change (0 <= vec (dist n mu t) i). rewrite dist_vec by exact Hi. apply Hnn. exact Hi.
    + rewrite nth_overflow; [lra | rewrite dist_length by exact Hl; exact Hi].
  - rewrite qsum_as_range, dist_length by exact Hl. rewrite <- H1. apply qsum_range_ext. intros i Hi. apply (dist_vec n mu t i). lia. Qed.

Lemma ecost_dotn n S mu t : ecost pmf G K n S mu t == dotn n (distf n (trans n) (vec mu) t) (cstate pmf G K n S).
Proof. unfold ecost, dotn. apply qsum_range_ext. intros i Hi. rewrite <- (dist_vec n mu t i) by lia. unfold vec. lra. Qed.
Lemma totcost_dotn n S mu T : totcost pmf G K n S mu T == qsum_range (fun t => dotn n (distf n (trans n) (vec mu) t) (cstate pmf G K n S)) 0 T.
Proof. unfold totcost. apply qsum_range_ext. intros t _. apply ecost_dotn. Qed.

Notation doth := (doth pmf G K).

(* exact identity: total expected cost over T periods = T g + mu.h - (mu P^T).h *)
Theorem ss_total_cost_identity s S mu T : (s < S)%Z -> let n := Z.to_nat (S - s) in is_dist n mu ->
  totcost pmf G K n S mu T == qnat T * gcost s S + doth s S mu - doth s S (dist n mu T).
Proof. intros Hs n Hd. rewrite totcost_dotn.
  rewrite (poisson_total n (trans n) (trans_nn n) (trans_rows n) (cstate pmf G K n S) (bias pmf G K s S) (gcost s S)
             (ss_poisson s S Hs) (vec mu) (is_dist_probf n mu Hd) T).
  assert (E : dotn n (distf n (trans n) (vec mu) T) (bias pmf G K s S) == doth s S (dist n mu T)).
  { unfold dotn, doth. fold n. apply qsum_range_ext. intros i Hi. rewrite <- (dist_vec n mu T i) by lia. unfold vec. lra. }
  rewrite E. unfold dotn, doth, vec. fold n. lra. Qed.

Lemma bias_bounds s S i : (i < Z.to_nat (S - s))%nat ->
  - (ergB pmf G K s S / 2) <= bias pmf G K s S i /\ bias pmf G K s S i <= ergB pmf G K s S / 2.
Proof. intro Hi. unfold ergB. pose proof (qmaxabs_bounds (bias pmf G K s S) _ i Hi) as [A B].
  setoid_replace (2 * qmaxabs (bias pmf G K s S) (Z.to_nat (S - s)) / 2) with (qmaxabs (bias pmf G K s S) (Z.to_nat (S - s))) by field.
  split; assumption. Qed.

Theorem ss_total_cost_bound s S mu T : (s < S)%Z -> let n := Z.to_nat (S - s) in is_dist n mu ->
  Qabs (totcost pmf G K n S mu T - qnat T * gcost s S) <= ergB pmf G K s S.
Proof. intros Hs n Hd. rewrite totcost_dotn.
  pose proof (poisson_total_bound n (trans n) (trans_nn n) (trans_rows n) (cstate pmf G K n S) (bias pmf G K s S) (gcost s S)
             (ss_poisson s S Hs) (vec mu) (ergB pmf G K s S / 2) (is_dist_probf n mu Hd) (bias_bounds s S) T) as B.
  setoid_replace (2 * (ergB pmf G K s S / 2)) with (ergB pmf G K s S) in B by field. exact B. Qed.

(* THE THEOREM: the Cesaro average of the expected period costs is within ergB/T of the reported cost *)
Theorem ss_ergodic s S mu T : (s < S)%Z -> let n := Z.to_nat (S - s) in is_dist n mu -> (1 <= T)%nat ->
  Qabs (avgcost pmf G K n S mu T - gcost s S) <= ergB pmf G K s S / qnat T.
Proof. intros Hs n Hd HT. unfold avgcost. rewrite totcost_dotn.
  pose proof (poisson_cesaro n (trans n) (trans_nn n) (trans_rows n) (cstate pmf G K n S) (bias pmf G K s S) (gcost s S)
             (ss_poisson s S Hs) (vec mu) (ergB pmf G K s S / 2) (is_dist_probf n mu Hd) (bias_bounds s S) T HT) as B.
  setoid_replace (2 * (ergB pmf G K s S / 2) / qnat T) with (ergB pmf G K s S / qnat T) in B by (field; pose proof (qnat_pos T HT); lra).
  exact B. Qed.

Lemma ergB_nonneg s S : 0 <= ergB pmf G K s S.
Proof. unfold ergB. pose proof (qmaxabs_nonneg (bias pmf G K s S) (Z.to_nat (S - s))). lra. Qed.

(* ---- point-mass starts ---- *)
Lemma unitv_is_dist n i : (i < n)%nat -> is_dist n (unitv n i).
Proof. intro Hi. unfold unitv. split; [rewrite map_length, seq_length; reflexivity|]. split.
  - intro j. destruct (Nat.lt_ge_cases j n) as [Hj|Hj].
    + rewrite nth_map_seq by exact Hj. destruct (Nat.eqb j i); lra.
    + rewrite nth_map_seq_out by exact Hj. lra.
  - rewrite qsum_as_range, map_length, seq_length.
    rewrite (qsum_range_ext _ (fun j => (if Nat.eqb j i then 1 else 0))).
    2:{ intros j Hj. rewrite nth_map_seq by lia. lra. }
    replace n with (i + S (n - S i))%nat by lia. rewrite qsum_range_split, qsum_range_first. cbn [Nat.add].
    rewrite Nat.eqb_refl. rewrite !qsum_range_zero; [lra| |].
    + intros j Hj. replace (Nat.eqb j i) with false by (symmetry; apply Nat.eqb_neq; lia). lra.
    + intros j Hj. replace (Nat.eqb j i) with false by (symmetry; apply Nat.eqb_neq; lia). lra. Qed.

Theorem ss_ergodic_from_state s S i T : (s < S)%Z -> let n := Z.to_nat (S - s) in (i < n)%nat -> (1 <= T)%nat ->
  Qabs (avgcost pmf G K n S (unitv n i) T - gcost s S) <= ergB pmf G K s S / qnat T.
Proof. intros Hs n Hi HT. apply ss_ergodic; [exact Hs | apply unitv_is_dist; exact Hi | exact HT]. Qed.

(* ---- stationary start: every period costs exactly g ---- *)
Lemma pilist_vec n i : (i < n)%nat -> vec (pilist pmf n) i = pi_ pmf n i.
Proof. intro Hi. unfold vec, pilist. apply nth_map_seq. exact Hi. Qed.
Lemma pilist_is_dist n : (1 <= n)%nat -> is_dist n (pilist pmf n).
Proof. intro Hn. unfold pilist. split; [rewrite map_length, seq_length; reflexivity|]. split.
  - intro j. destruct (Nat.lt_ge_cases j n) as [Hj|Hj].
    + rewrite nth_map_seq by exact Hj. apply (pi_nonneg pmf p0_lt1 p_nonneg n j Hn).
    + rewrite nth_map_seq_out by exact Hj. lra.
  - rewrite qsum_as_range, map_length, seq_length. rewrite <- (pi_sum1 pmf p0_lt1 p_nonneg n Hn).
    apply qsum_range_ext. intros j Hj. rewrite nth_map_seq by lia. lra. Qed.
Lemma pi_dist_fixed n : forall t j, (j < n)%nat -> distf n (trans n) (vec (pilist pmf n)) t j == pi_ pmf n j.
Proof. induction t as [|t IH]; intros j Hj; cbn [distf]; [rewrite pilist_vec by exact Hj; lra|].
  rewrite (stepf_ext n (trans n) _ (pi_ pmf n) IH j). unfold stepf.
  apply (pi_invariant pmf p0_lt1 p_nonneg p_sum1 n j Hj). Qed.
Theorem ss_stationary_start s S : (s < S)%Z -> let n := Z.to_nat (S - s) in
  (forall t, ecost pmf G K n S (pilist pmf n) t == gcost s S) /\
  (forall T, (1 <= T)%nat -> avgcost pmf G K n S (pilist pmf n) T == gcost s S).
Proof. intros Hs n.
  assert (A : forall t, ecost pmf G K n S (pilist pmf n) t == gcost s S).
  { intro t. rewrite ecost_dotn. rewrite (cost_is_stationary_cost pmf G K p0_lt1 p_nonneg p_sum1 s S Hs). fold n.
    unfold dotn, cstate. apply qsum_range_ext. intros i Hi. rewrite (pi_dist_fixed n t i) by lia. lra. }
  split; [exact A|]. intros T HT. unfold avgcost, totcost. pose proof (qnat_pos T HT) as HTp.
  rewrite (qsum_range_ext _ (fun _ => gcost s S * 1)) by (intros t _; rewrite A; lra).
  rewrite qsum_range_scale.
  assert (E : qsum_range (fun _ => 1) 0 T == qnat T).
  { clear HT HTp. induction T as [|T IH]; [cbn [qsum_range]; change (qnat 0) with 0; lra|]. rewrite qsum_range_last, IH, qnat_S. lra. }
  rewrite E. field. lra. Qed.

(* ---- the other accounting convention: K charged when the order is placed ---- *)
Lemma ecost_split n S mu t : ecost pmf G K n S mu t == gpart pmf G n S mu t + K * ordprob pmf n mu t.
Proof. unfold ecost, gpart, ordprob, cstate. rewrite <- qsum_range_scale, <- qsum_range_add.
  apply qsum_range_ext. intros i _. ring. Qed.
Lemma ordprob_01 n mu t : is_dist n mu -> 0 <= ordprob pmf n mu t /\ ordprob pmf n mu t <= 1.
Proof. intro Hd. destruct (dist_is_dist n mu t Hd) as (Hl & Hnn & H1). unfold ordprob.
  rewrite qsum_as_range, Hl in H1. split.
  - apply qsum_range_nonneg. intros i _. apply Qmult_le_0_compat; [apply Hnn | apply tailp_nonneg; exact p_nonneg].
  - rewrite <- H1. apply qsum_range_le. intros i _. pose proof (Hnn i). pose proof (tailp_nonneg pmf p_nonneg (n - i)).
    assert (tailp (n - i) <= 1).
    { rewrite (tail_compl pmf p_sum1). assert (0 <= Fm pmf (n - i)); [|lra]. unfold Fm. apply qsum_range_nonneg. intros; apply p_nonneg. }
    nra. Qed.
Lemma totcost_ord_shift n S o0 mu T :
  totcost_ord pmf G K n S o0 mu (Datatypes.S T) == totcost pmf G K n S mu (Datatypes.S T) + K * o0 - K * ordprob pmf n mu T.
Proof. induction T as [|T IH].
  - unfold totcost_ord, totcost. cbn [qsum_range]. rewrite ecost_split. unfold ecost_ord. lra.
  - unfold totcost_ord, totcost in *. rewrite (qsum_range_last _ 0 (Datatypes.S T)), IH.
    rewrite (qsum_range_last (ecost pmf G K n S mu) 0 (Datatypes.S T)). cbn [Nat.add].
    rewrite (ecost_split n S mu (Datatypes.S T)). unfold ecost_ord. lra. Qed.

Theorem ss_ergodic_ord s S o0 mu T : (s < S)%Z -> let n := Z.to_nat (S - s) in is_dist n mu -> 0 <= o0 <= 1 -> (1 <= T)%nat ->
  Qabs (avgcost_ord pmf G K n S o0 mu T - gcost s S) <= (ergB pmf G K s S + Qabs K) / qnat T.
Proof. intros Hs n Hd Ho HT. pose proof (qnat_pos T HT) as HTp.
  destruct T as [|T]; [lia|].
  pose proof (ss_total_cost_bound s S mu (Datatypes.S T) Hs Hd) as B. fold n in B. apply Qabs_Qle_condition in B. destruct B as [B1 B2].
  pose proof (totcost_ord_shift n S o0 mu T) as E.
  pose proof (ordprob_01 n mu T Hd) as [O1 O2].
  assert (HK : - Qabs K <= K * o0 - K * ordprob pmf n mu T /\ K * o0 - K * ordprob pmf n mu T <= Qabs K).
  { set (d := o0 - ordprob pmf n mu T). assert (Hd1 : -1 <= d /\ d <= 1) by (unfold d; lra).
    setoid_replace (K * o0 - K * ordprob pmf n mu T) with (K * d) by (unfold d; ring).
    apply (Qabs_case K); intro HKs; nra. }
  unfold avgcost_ord. set (tot := totcost_ord pmf G K n S o0 mu (Datatypes.S T)) in *.
  set (Tq := qnat (Datatypes.S T)) in *. apply Qabs_Qle_condition.
  assert (E1 : (tot / Tq) * Tq == tot) by (field; lra).
  assert (E2 : ((ergB pmf G K s S + Qabs K) / Tq) * Tq == ergB pmf G K s S + Qabs K) by (field; lra).
  set (x := tot / Tq) in *. set (b := (ergB pmf G K s S + Qabs K) / Tq) in *.
  set (tc := totcost pmf G K n S mu (Datatypes.S T)) in *. set (g := gcost s S) in *.
  set (kk := K * o0 - K * ordprob pmf n mu T) in *. destruct HK as [HK1 HK2].
  assert (E3 : tot == tc + kk) by (unfold kk; lra).
  split; nra. Qed.

(* started with inventory position x0 <= S before the first ordering decision *)
Theorem ss_ergodic_from_position s S x0 T : (s < S)%Z -> (x0 <= S)%Z -> (1 <= T)%nat -> let n := Z.to_nat (S - s) in
  Qabs (avgcost_ord pmf G K n S (start_o0 s x0) (start_mu s S x0) T - gcost s S) <= (ergB pmf G K s S + Qabs K) / qnat T.
Proof. intros Hs Hx HT n. apply ss_ergodic_ord; [exact Hs| | |exact HT].
  - unfold start_mu. apply unitv_is_dist. destruct (Z.leb_spec x0 s); lia.
  - unfold start_o0. destruct (x0 <=? s)%Z; lra. Qed.
End Chain.

(* at the custom-pmf entry point *)
Theorem ss_entry_ergodic h p K pmf s S q mu T :
  (forall l, 0 <= pf pmf l) -> qsum pmf == 1 -> pf pmf 0 < 1 ->
  s_s_cost_discrete h p K pmf s S = Ok q -> let n := Z.to_nat (S - s) in is_dist n mu -> (1 <= T)%nat ->
  Qabs (avgcost pmf (Gdisc h p pmf) K n S mu T - q) <= ergB pmf (Gdisc h p pmf) K s S / qnat T.
Proof. intros Hnn H1 H0 H n Hd HT. destruct (cost_entry _ _ _ _ _ _ _ H) as (Hs & _ & _ & _ & _ & ->).
  exact (ss_ergodic pmf (Gdisc h p pmf) K Hnn H1 H0 s S mu T Hs Hd HT). Qed.

(* ---- the chain can be periodic: demand identically 1, n = 3: the distribution cycles for ever (no convergence),
        which is why the theorem is about Cesaro averages ---- *)
Lemma periodic_cycle k :
  dist [0; 1] 3 [1; 0; 0] (3 * k) = [1; 0; 0] /\ dist [0; 1] 3 [1; 0; 0] (3 * k + 1) = [0; 1; 0] /\
  dist [0; 1] 3 [1; 0; 0] (3 * k + 2) = [0; 0; 1].
Proof. induction k as [|k (A & B & C)]; [vm_compute; auto|].
  replace (3 * S k + 2)%nat with (S (S (S (3 * k + 2)))) by lia.
  replace (3 * S k + 1)%nat with (S (S (3 * k + 2))) by lia.
  replace (3 * S k)%nat with (S (3 * k + 2)) by lia.
  cbn [dist]. rewrite C. vm_compute. auto. Qed.
Theorem periodic_no_convergence : forall t0, exists t t', (t0 <= t)%nat /\ (t0 <= t')%nat /\
  nth 0 (dist [0; 1] 3 [1; 0; 0] t) 0 == 1 /\ nth 0 (dist [0; 1] 3 [1; 0; 0] t') 0 == 0.
Proof. intro t0. exists (3 * t0)%nat, (3 * t0 + 1)%nat. destruct (periodic_cycle t0) as (A & B & _).
  rewrite A, B. cbn [nth]. repeat split; try lia; lra. Qed.
