(* Model of stockpyl/helpers.py (property C20). Executable; no proofs here (see Helpers_proofs.v).
   Python values are a small sum type [pv]; dict keys are the hashable atoms [pkey] (None | int | float | str,
   with Python's numeric cross-equality 1 == 1.0); a dict is an association list in INSERTION order with
   pairwise-distinct keys.  Exceptions are [Err <kind>].  Floats are exact rationals.
   ensure_list_for_time_periods is [ensure_list_tp] of Alg/WW.v (re-exported, not duplicated). *)
From Coq Require Import String Ascii Qround.
From SV Require Export Base.Qx Alg.WW.
Import ListNotations.
Local Open Scope Q_scope.

(* ------------------------------------------------------------------------------------------------ *)
(* results / exceptions *)
Inductive err := ValueError | TypeError | KeyError | AttributeError.
Inductive res (A : Type) := Ok (a : A) | Err (e : err).
Arguments Ok {A} a. Arguments Err {A} e.
Definition bind {A B} (r : res A) (f : A -> res B) : res B := match r with Ok a => f a | Err e => Err e end.
Definition rmap {A B} (f : A -> B) (r : res A) : res B := match r with Ok a => Ok (f a) | Err e => Err e end.
Fixpoint mapM {A B} (f : A -> res B) (l : list A) : res (list B) :=
  match l with [] => Ok [] | x :: r => bind (f x) (fun y => bind (mapM f r) (fun ys => Ok (y :: ys))) end.

(* ------------------------------------------------------------------------------------------------ *)
(* Python values *)
Inductive pkey := KNone | KInt (z : Z) | KNum (q : Q) | KStr (s : string).
Inductive pv := PNone | PInt (z : Z) | PNum (q : Q) | PStr (s : string) | PList (l : list pv) | PDict (d : list (pkey * pv)).

Definition key_num (k : pkey) : option Q :=
  match k with KInt z => Some (inject_Z z) | KNum q => Some q | _ => None end.
(* Python == on hashable atoms (1 == 1.0) *)
Definition key_eqb (a b : pkey) : bool :=
  match a, b with
  | KNone, KNone => true
  | KStr s, KStr t => String.eqb s t
  | _, _ => match key_num a, key_num b with Some x, Some y => qeqb x y | _, _ => false end
  end.
Definition pv_of_key (k : pkey) : pv :=
  match k with KNone => PNone | KInt z => PInt z | KNum q => PNum q | KStr s => PStr s end.

(* dicts: insertion-ordered association lists *)
Section Dict.
Context {V : Type}.
Definition dict := list (pkey * V).
Fixpoint dget (d : dict) (k : pkey) : option V :=
  match d with [] => None | (k', v) :: r => if key_eqb k k' then Some v else dget r k end.
Definition dmem (d : dict) (k : pkey) : bool := match dget d k with Some _ => true | None => false end.
(* d[k] = v : an existing (==) key keeps its position and its key object, a new key goes to the end *)
Fixpoint dset (d : dict) (k : pkey) (v : V) : dict :=
  match d with [] => [(k, v)] | (k', v') :: r => if key_eqb k k' then (k', v) :: r else (k', v') :: dset r k v end.
Fixpoint dpop (d : dict) (k : pkey) : option (V * dict) :=
  match d with
  | [] => None
  | (k', v) :: r => if key_eqb k k' then Some (v, r)
                    else match dpop r k with Some (w, r') => Some (w, (k', v) :: r') | None => None end
  end.
Definition dkeys (d : dict) : list pkey := map fst d.
Definition dvals (d : dict) : list V := map snd d.
(* dict built by successive assignments *)
Definition dict_of (l : list (pkey * V)) : dict := fold_left (fun acc kv => dset acc (fst kv) (snd kv)) l [].
End Dict.
Arguments dict V : clear implicits.

(* Python == on values (lists element-wise in order, dicts regardless of order) *)
Fixpoint pv_eqb (a b : pv) : bool :=
  match a, b with
  | PNone, PNone => true
  | PInt x, PInt y => Z.eqb x y
  | PInt x, PNum q => qeqb (inject_Z x) q
  | PNum q, PInt x => qeqb q (inject_Z x)
  | PNum p, PNum q => qeqb p q
  | PStr s, PStr t => String.eqb s t
  | PList l, PList m =>
      (fix go (l m : list pv) : bool :=
         match l, m with [], [] => true | x :: l', y :: m' => pv_eqb x y && go l' m' | _, _ => false end) l m
  | PDict d, PDict e =>
      Nat.eqb (length d) (length e) &&
      (fix go (d : list (pkey * pv)) : bool :=
         match d with
         | [] => true
         | (k, v) :: d' =>
             (fix find (e : list (pkey * pv)) : bool :=
                match e with [] => false | (k', v') :: e' => if key_eqb k k' then pv_eqb v v' else find e' end) e
             && go d'
         end) d
  | _, _ => false
  end.

(* ------------------------------------------------------------------------------------------------ *)
(* small numerics *)
Definition qabs (x : Q) : Q := if qleb 0 x then x else - x.
Fixpoint qpow (x : Q) (n : nat) : Q := match n with O => 1 | S n' => x * qpow x n' end.
Fixpoint binom (n k : nat) : Z :=
  match n, k with
  | _, O => 1
  | O, S _ => 0
  | S n', S k' => binom n' k' + binom n' k
  end%Z.
Fixpoint zfact (n : nat) : Z := match n with O => 1 | S n' => Z.of_nat n * zfact n' end%Z.
Definition is_int_q (q : Q) : bool := Pos.eqb (Qden (Qred q)) 1.

(* ------------------------------------------------------------------------------------------------ *)
(* min_of_dict: min(d, key=d.get) keeps the FIRST key attaining the minimum; empty dict -> ValueError *)
Fixpoint min_first {K} (l : list (K * Q)) (bk : K) (bv : Q) : Q * K :=
  match l with [] => (bv, bk) | (k, v) :: r => if qltb v bv then min_first r k v else min_first r bk bv end.
Definition min_of_dict {K} (d : list (K * Q)) : res (Q * K) :=
  match d with [] => Err ValueError | (k, v) :: r => Ok (min_first r k v) end.

(* nearest_dict_value: the default argument of .get is evaluated eagerly, so an empty dict raises ValueError
   and a non-numeric key raises TypeError even when key_to_search is present *)
Definition nearest_dict_value {V} (x : Q) (d : dict V) : res V :=
  match mapM (fun kv => match key_num (fst kv) with Some q => Ok (qabs (q - x), snd kv) | None => Err TypeError end) d with
  | Err e => Err e
  | Ok [] => Err ValueError
  | Ok ((dist, v) :: r) =>
      let nearest := snd (min_first (map (fun dv => (snd dv, fst dv)) r) v dist) in
      match dget d (KNum x) with Some w => Ok w | None => Ok nearest end
  end.

(* ------------------------------------------------------------------------------------------------ *)
(* dict_match.  math.isclose(a, b, rel_tol, abs_tol) for finite a, b (CPython's formula) *)
Definition isclose (rel abs a b : Q) : bool :=
  qeqb a b || qleb (qabs (b - a)) (qabs (rel * b)) || qleb (qabs (b - a)) (qabs (rel * a)) || qleb (qabs (b - a)) abs.
Definition dict_match {K} (keqb : K -> K -> bool) (d1 d2 : list (K * Q)) (require_presence : bool) (rel abs : Q) : res bool :=
  let get (d : list (K * Q)) k := option_map snd (find (fun kv => keqb k (fst kv)) d) in
  (* isclose raises ValueError for a negative tolerance, and it is called at least once unless both dicts are empty *)
  if (qltb rel 0 || qltb abs 0) && negb (match d1, d2 with [], [] => true | _, _ => false end) then Err ValueError else
  Ok (forallb (fun kv => match get d2 (fst kv) with
                         | Some w => isclose rel abs (snd kv) w
                         | None => isclose rel abs (snd kv) 0 && negb require_presence end) d1
      && forallb (fun kv => match get d1 (fst kv) with
                            | Some _ => true
                            | None => isclose rel abs (snd kv) 0 && negb require_presence end) d2).

(* ------------------------------------------------------------------------------------------------ *)
(* find_nearest *)
(* np.searchsorted(a, v, side='left') on a sorted array = number of entries < v *)
Fixpoint searchsorted_left (a : list Q) (v : Q) : nat :=
  match a with [] => O | x :: r => if qltb x v then S (searchsorted_left r v) else O end.
Definition fn_sorted (a : list Q) (v : Q) : nat :=
  let idx := searchsorted_left a v in
  if (Nat.ltb 0 idx && (Nat.eqb idx (length a) || qltb (qabs (v - nth (idx - 1) a 0)) (qabs (v - nth idx a 0))))%bool
  then (idx - 1)%nat else idx.
(* ndarray.argmin: first index of the minimum *)
Fixpoint argmin_aux (l : list Q) (i bi : nat) (bv : Q) : nat :=
  match l with [] => bi | x :: r => if qltb x bv then argmin_aux r (S i) i x else argmin_aux r (S i) bi bv end.
Definition argmin_first (l : list Q) : option nat :=
  match l with [] => None | x :: r => Some (argmin_aux r 1 0 x) end.
Definition fn_unsorted (a : list Q) (v : Q) : res nat :=
  match argmin_first (map (fun x => qabs (x - v)) a) with Some i => Ok i | None => Err ValueError end.
Definition find_nearest (a values : list Q) (sorted : bool) (index : list (Q * Z)) : res (list Z) :=
  mapM (fun v => match find (fun kv => qeqb v (fst kv)) index with
                 | Some kv => Ok (snd kv)
                 | None => if sorted then Ok (Z.of_nat (fn_sorted a v)) else rmap Z.of_nat (fn_unsorted a v)
                 end) values.

(* ------------------------------------------------------------------------------------------------ *)
(* convolution *)
Fixpoint padd (a b : list Q) : list Q :=
  match a, b with
  | [], _ => b
  | _, [] => a
  | x :: a', y :: b' => (x + y) :: padd a' b'
  end.
Definition pscale (c : Q) (a : list Q) : list Q := map (Qmult c) a.
(* direct (schoolbook) convolution: (x :: a') * b = x*b + X * (a' * b) *)
Fixpoint conv (a b : list Q) : list Q :=
  match a with
  | [] => []
  | x :: a' => match a' with [] => pscale x b | _ => padd (pscale x b) (0 :: conv a' b) end
  end.
Definition conv_all (arrays : list (list Q)) : list Q := fold_left conv arrays [1].
(* convolve_many: every array non-empty (documented); exact result then the negative-rounding clean-up
   (ROUNDING_TOL = 1e-10): < -tol -> ValueError, in [-tol, 0) -> 0 *)
Definition rounding_tol : Q := 1 # 10000000000.
Definition convolve_many (arrays : list (list Q)) : option (res (list Q)) :=
  if existsb (fun a => match a with [] => true | _ => false end) arrays then None (* outside the documented domain *)
  else let c := conv_all arrays in
       Some (if existsb (fun x => qltb x (- rounding_tol)) c then Err ValueError
             else Ok (map (fun x => if qltb x 0 then 0 else x) c)).

(* ------------------------------------------------------------------------------------------------ *)
(* sum_of_discrete_uniforms_pmf: the iterative dict algorithm; new_sum_pmf is a defaultdict(float) *)
Fixpoint zd_add (d : list (Z * Q)) (k : Z) (v : Q) : list (Z * Q) :=
  match d with
  | [] => [(k, 0 + v)]
  | (k', w) :: r => if Z.eqb k k' then (k', w + v) :: r else (k', w) :: zd_add r k v
  end.
Fixpoint zd_get (d : list (Z * Q)) (k : Z) : Q :=
  match d with [] => 0 | (k', w) :: r => if Z.eqb k k' then w else zd_get r k end.
Definition zrange (lo hi : Z) : list Z := map (fun i => (lo + Z.of_nat i)%Z) (seq 0 (Z.to_nat (hi - lo + 1))).
Definition du_pmf (lo hi : Z) : list (Z * Q) := map (fun i => (i, 1 / inject_Z (hi - lo + 1))) (zrange lo hi).
Definition du_step (U P : list (Z * Q)) : list (Z * Q) :=
  fold_left (fun acc pe => fold_left (fun acc de => zd_add acc (fst pe + fst de)%Z (snd pe * snd de)) U acc) P [].
Fixpoint du_iter (n : nat) (U P : list (Z * Q)) : list (Z * Q) :=
  match n with O => P | S n' => du_iter n' U (du_step U P) end.
Definition du_sum_pmf (n : nat) (lo hi : Z) : list (Z * Q) := du_iter n (du_pmf lo hi) [(0%Z, 1)].

Definition is_integer (x : pv) : bool :=
  match x with PInt _ => true | PNum q => is_int_q q | _ => false end.
Definition is_iterable (x : pv) : bool := match x with PList _ | PDict _ => true | _ => false end.

(* n as passed by the caller: not is_integer -> ValueError; an integer-valued float passes the check and then
   range(n) raises TypeError; a negative int gives range(n) = empty *)
Definition sum_of_discrete_uniforms_pmf (n : pv) (lo hi : Z) : res (list (Z * Q)) :=
  if negb (is_integer n) then Err ValueError else
  match n with PInt z => Ok (du_sum_pmf (Z.to_nat z) lo hi) | _ => Err TypeError end.

(* Irwin-Hall cdf: the alternating-sum closed form [ih_formula]; the code returns 0 / 1 outside the support (0, n) first *)
Definition ih_formula (x : Q) (n : nat) : Q :=
  qsum (map (fun k => (if Nat.even k then 1 else -1) * inject_Z (binom n k) * qpow (x - qnat k) n)
            (seq 0 (Z.to_nat (Qfloor x + 1)))) / inject_Z (zfact n).
Definition irwin_hall_cdf (x : Q) (n : nat) : Q :=
  if qleb x 0 then 0 else if qleb (qnat n) x then 1 else ih_formula x n.
Definition scu_cdf (n : nat) (lo hi x : Q) : Q :=
  if qltb x (qnat n * lo) then 0 else if qltb (qnat n * hi) x then 1
  else irwin_hall_cdf ((x - qnat n * lo) / (hi - lo)) n.

(* ------------------------------------------------------------------------------------------------ *)
(* list / dict normalisers *)
Definition zrepeat {A} (x : A) (n : Z) : list A := repeat x (Z.to_nat n).
Definition zlen {A} (l : list A) : Z := Z.of_nat (length l).

Definition ensure_list_for_nodes (x : pv) (num_nodes : Z) (default : pv) : res (list pv) :=
  match x with
  | PNone => Ok (zrepeat default num_nodes)
  | PList l => if Z.eqb (zlen l) num_nodes then Ok l else Err ValueError
  | PDict d => if Z.eqb (zlen d) num_nodes then Ok (map pv_of_key (dkeys d)) else Err ValueError   (* list(dict) = keys *)
  | _ => Ok (zrepeat x num_nodes)
  end.

Definition ensure_dict_for_nodes (x : pv) (node_indices : list pkey) (default : pv) : res (dict pv) :=
  match x with
  | PDict d => Ok d
  | PNone => Ok (dict_of (map (fun n => (n, default)) node_indices))
  | PList l => if Nat.eqb (length l) (length node_indices) then Ok (dict_of (combine node_indices l)) else Err ValueError
  | _ => Ok (dict_of (map (fun n => (n, x)) node_indices))
  end.

(* build_node_data_dict: attribute names are str keys; result: node -> (attribute -> value) *)
Definition set_attr (data : dict (dict pv)) (n : pkey) (a : pkey) (v : pv) : dict (dict pv) :=
  match dget data n with Some inner => dset data n (dset inner a v) | None => data end.
Definition attr_is_listlike (a : pkey) (v : pv) : bool :=
  match v with
  | PList l => negb (key_eqb a (KStr "demand_list"%string) || key_eqb a (KStr "probabilities"%string)) || existsb is_iterable l
  | _ => false
  end.
Definition build_node_data_dict (attribute_dict : dict pv) (node_order : list pkey) (default_values : dict pv)
  : res (dict (dict pv)) :=
  let dflt a := match dget default_values a with Some v => v | None => PNone end in
  fold_left (fun (acc : res (dict (dict pv))) (av : pkey * pv) =>
    bind acc (fun data =>
      let a := fst av in
      match snd av with
      | PNone => Ok (fold_left (fun dd n => set_attr dd n a (dflt a)) node_order data)
      | PDict ad => Ok (fold_left (fun dd n => set_attr dd n a (match dget ad n with Some v => v | None => dflt a end)) node_order data)
      | PList l =>
          if attr_is_listlike a (PList l) then
            if Nat.eqb (length l) (length node_order)
            then Ok (fold_left (fun dd nv => set_attr dd (fst nv) a (snd nv)) (combine node_order l) data)
            else Err ValueError
          else Ok (fold_left (fun dd n => set_attr dd n a (PList l)) node_order data)
      | v => Ok (fold_left (fun dd n => set_attr dd n a v) node_order data)
      end))
    attribute_dict (Ok (dict_of (map (fun n => (n, [])) node_order))).

(* ------------------------------------------------------------------------------------------------ *)
(* sorters *)
Definition key_is_num (k : pkey) : bool := match k with KInt _ | KNum _ => true | _ => false end.
Definition key_is_str (k : pkey) : bool := match k with KStr _ => true | _ => false end.
Definition key_is_none (k : pkey) : bool := match k with KNone => true | _ => false end.
(* < between two keys of the same kind *)
Definition key_ltb (a b : pkey) : bool :=
  match a, b with
  | KStr s, KStr t => String.ltb s t
  | _, _ => match key_num a, key_num b with Some x, Some y => qltb x y | _, _ => false end
  end.
Section Sort.
Context {A : Type} (lt : A -> A -> bool).
Fixpoint insert_sorted (x : A) (l : list A) : list A :=
  match l with [] => [x] | y :: r => if lt x y then x :: l else y :: insert_sorted x r end.
Definition isort (l : list A) : list A := fold_left (fun acc x => insert_sorted x acc) l [].
End Sort.

(* sorted() raises TypeError iff keys of different kinds (number / str) have to be compared *)
Definition sort_dict_by_keys (d : dict pv) (ascending return_values : bool) : res (list pv) :=
  let nn := filter (fun kv => negb (key_is_none (fst kv))) d in
  if existsb (fun kv => key_is_num (fst kv)) nn && existsb (fun kv => key_is_str (fst kv)) nn then Err TypeError else
  let s := isort (fun x y => key_ltb (fst x) (fst y)) nn in
  let s := if ascending then s else rev s in
  let all := match dget d KNone with
             | Some v => if ascending then (KNone, v) :: s else s ++ [(KNone, v)]
             | None => s end in
  Ok (map (fun kv => if return_values then snd kv else pv_of_key (fst kv)) all).

(* sort_nested_dict_by_keys: items ((key1, key2), value) sorted with key = tuple((k is not None, 0 if k is None else k));
   None sorts before everything and is never compared with < against a str or a number *)
Definition nkey_same_kind (a b : pkey) : bool :=
  key_is_none a || key_is_none b || Bool.eqb (key_is_num a) (key_is_num b).
Definition nkey_ltb (a b : pkey) : bool :=
  match a, b with
  | KNone, KNone => false
  | KNone, _ => true
  | _, KNone => false
  | _, _ => key_ltb a b
  end.
Definition pair_ltb (x y : pkey * pkey) : bool :=
  if key_eqb (fst x) (fst y) then nkey_ltb (snd x) (snd y) else nkey_ltb (fst x) (fst y).
(* tuple comparison: the first position where the components differ (==) is compared with <; TypeError if a number meets a str *)
Definition pair_cmp_raises (x y : pkey * pkey) : bool :=
  if key_eqb (fst x) (fst y)
  then if key_eqb (snd x) (snd y) then false else negb (nkey_same_kind (snd x) (snd y))
  else negb (nkey_same_kind (fst x) (fst y)).
Definition flatten_nested (d : dict pv) : res (list ((pkey * pkey) * pv)) :=
  rmap (@concat _) (mapM (fun kv => match snd kv with
                                    | PDict inner => Ok (map (fun kv2 => ((fst kv, fst kv2), snd kv2)) inner)
                                    | _ => Err AttributeError end) d).
Definition sort_nested_dict_by_keys (d : dict pv) (ascending return_values : bool) : res (list pv) :=
  bind (flatten_nested d) (fun fl =>
    if existsb (fun x => existsb (fun y => pair_cmp_raises (fst x) (fst y)) fl) fl then Err TypeError else
    let s := isort (fun x y => pair_ltb (fst x) (fst y)) fl in
    let s := if ascending then s else rev s in
    Ok (map (fun kv => if return_values then snd kv
                       else PList [pv_of_key (fst (fst kv)); pv_of_key (snd (fst kv))]) s)).

(* ------------------------------------------------------------------------------------------------ *)
(* key rewriters *)
(* change_dict_key works in place: the model returns the new state of the dict *)
Definition change_dict_key (d : dict pv) (old_key new_key : pkey) : res (dict pv) :=
  match dpop d old_key with None => Err KeyError | Some (v, d') => Ok (dset d' new_key v) end.

(* numeric strings, grammar  [+-]? digit* ('.' digit* )?  with at least one digit (no exponent, blanks, '_', inf, nan) *)
Inductive numclass := NotNumeric | NumInt (z : Z) | NumFrac (q : Q).
Definition digit_of (c : ascii) : option Z :=
  let n := nat_of_ascii c in if (Nat.leb 48 n && Nat.leb n 57)%bool then Some (Z.of_nat (n - 48)) else None.
(* digits: returns (value, number of digits, rest) *)
Fixpoint read_digits (s : string) (acc : Z) (cnt : nat) : Z * nat * string :=
  match s with
  | EmptyString => (acc, cnt, s)
  | String c r => match digit_of c with Some dg => read_digits r (acc * 10 + dg)%Z (S cnt) | None => (acc, cnt, s) end
  end.
Definition classify_numstr (s : string) : numclass :=
  let '(neg, body) := match s with
                      | String "-"%char r => (true, r)
                      | String "+"%char r => (false, r)
                      | _ => (false, s) end in
  let '(ip, ni, rest) := read_digits body 0%Z 0%nat in
  let sgn (q : Q) := if neg then - q else q in
  match rest with
  | EmptyString => if Nat.eqb ni 0 then NotNumeric else NumInt (if neg then - ip else ip)%Z
  | String "."%char r =>
      let '(fp, nf, rest2) := read_digits r 0%Z 0%nat in
      match rest2 with
      | EmptyString =>
          if Nat.eqb (ni + nf) 0 then NotNumeric else
          let q := inject_Z ip + inject_Z fp / inject_Z (10 ^ Z.of_nat nf) in
          if is_int_q q then NumInt (Qfloor (sgn q)) else NumFrac (sgn q)
      | _ => NotNumeric
      end
  | _ => NotNumeric
  end.
(* new_key = float(old_key); if it is an integer: int(new_key) *)
Definition numeric_new_key (k : pkey) : res pkey :=
  match k with
  | KStr s => match classify_numstr s with
              | NotNumeric => Ok k
              | NumInt z => Ok (KInt z)
              | NumFrac q => Ok (KNum q)
              end
  | _ => Ok k
  end.
Fixpoint replace_numeric_pv (v : pv) : res pv :=
  match v with
  | PDict d =>
      rmap PDict
      ((fix go (d : list (pkey * pv)) (acc : dict pv) : res (dict pv) :=
          match d with
          | [] => Ok acc
          | (k, w) :: r => bind (replace_numeric_pv w) (fun w' => bind (numeric_new_key k) (fun k' => go r (dset acc k' w')))
          end) d [])
  | _ => Ok v
  end.
Definition replace_dict_numeric_string_keys (d : dict pv) : res (dict pv) :=
  match replace_numeric_pv (PDict d) with Ok (PDict d') => Ok d' | Ok _ => Ok [] | Err e => Err e end.

Definition null_new_key (k : pkey) : pkey := if key_eqb k (KStr "null"%string) then KNone else k.
Fixpoint replace_null_pv (v : pv) : pv :=
  match v with
  | PDict d =>
      PDict ((fix go (d : list (pkey * pv)) (acc : dict pv) : dict pv :=
                match d with [] => acc | (k, w) :: r => go r (dset acc (null_new_key k) (replace_null_pv w)) end) d [])
  | _ => v
  end.
Definition replace_dict_null_keys (d : dict pv) : dict pv :=
  match replace_null_pv (PDict d) with PDict d' => d' | _ => [] end.

(* round_dict_values: math.ceil / math.floor / round (= round-half-to-EVEN) ; other round_type: plain copy *)
Definition round_half_even (q : Q) : Z :=
  let f := Qfloor q in let r := q - inject_Z f in
  if qltb r (1 # 2) then f else if qltb (1 # 2) r then (f + 1)%Z else if Z.even f then f else (f + 1)%Z.
Inductive round_type := RUp | RDown | RNearest | ROther.
Definition round_value (rt : round_type) (v : pv) : res pv :=
  match rt with
  | ROther => Ok v
  | _ => match v with
         | PInt z => Ok (PInt z)
         | PNum q => Ok (PInt (match rt with RUp => Qceiling q | RDown => Qfloor q | _ => round_half_even q end))
         | _ => Err TypeError
         end
  end.
Definition round_dict_values (d : dict pv) (rt : round_type) : res (dict pv) :=
  mapM (fun kv => rmap (fun v => (fst kv, v)) (round_value rt (snd kv))) d.

(* compare_unhashable_lists *)
Section CUL.
Context {A : Type} (eqb : A -> A -> bool).
Fixpoint remove_first (x : A) (l : list A) : option (list A) :=
  match l with
  | [] => None
  | y :: r => if eqb y x then Some r else match remove_first x r with Some r' => Some (y :: r') | None => None end
  end.
Fixpoint remove_all (l1 l2 : list A) : option (list A) :=
  match l2 with [] => Some l1 | x :: r => match remove_first x l1 with Some l1' => remove_all l1' r | None => None end end.
Definition compare_unhashable_lists (l1 l2 : list A) : bool :=
  if negb (Nat.eqb (length l1) (length l2)) then false else
  match remove_all l1 l2 with Some [] => true | _ => false end.
End CUL.

(* ------------------------------------------------------------------------------------------------ *)
(* observable forms (rationals as reduced numerator/denominator pairs) for the correspondence harness *)
Inductive ov := ONone | OInt (z : Z) | ONum (n d : Z) | OStr (s : string) | OList (l : list ov) | ODict (d : list (ov * ov)).
Definition obs_q (q : Q) : ov := let nd := qobs q in ONum (fst nd) (snd nd).
Definition obs_key (k : pkey) : ov :=
  match k with KNone => ONone | KInt z => OInt z | KNum q => obs_q q | KStr s => OStr s end.
Fixpoint obs_pv (v : pv) : ov :=
  match v with
  | PNone => ONone | PInt z => OInt z | PNum q => obs_q q | PStr s => OStr s
  | PList l => OList (map obs_pv l)
  | PDict d => ODict (map (fun kv => (obs_key (fst kv), obs_pv (snd kv))) d)
  end.
Definition obs_dict (d : dict pv) : ov := obs_pv (PDict d).
Definition obs_ddict (d : dict (dict pv)) : ov := ODict (map (fun kv => (obs_key (fst kv), obs_dict (snd kv))) d).
