(* Model of local_to_echelon_base_stock_levels / echelon_to_local_base_stock_levels (supply_chain_network.py).
   Executable; proofs in Levels_proofs.v.  The level dictionaries are functions nat -> Q on the node indices; the
   functions below give the dictionary entry for one key ([None] = the Python code raises / does not terminate:
   the while-loops follow get_one_successor / get_one_predecessor, modelled with fuel = number of nodes + 1). *)
From SV Require Export Net.Graph.
Local Open Scope nat_scope.

(* node.get_one_successor() / get_one_predecessor(): the first entry of the list *)
Definition one_succ (w : net) (i : nat) : option nat := match succs_of w i with [] => None | k :: _ => Some k end.
Definition one_pred (w : net) (i : nat) : option nat := match preds_of w i with [] => None | k :: _ => Some k end.
(* k = step(i); while k is not None: visit k; k = step(k) *)
Fixpoint walk (step : nat -> option nat) (fuel : nat) (i : nat) : option (list nat) :=
  match fuel with
  | O => None
  | S f => match step i with None => Some [] | Some k => option_map (cons k) (walk step f k) end
  end.
Definition fuel_of (w : net) : nat := S (length (nodes w)).

(* S_echelon[i] = S_local[i] + sum of S_local over the chain of first successors *)
Definition l2e_at (w : net) (Sl : nat -> Q) (i : nat) : option Q :=
  option_map (fun ch => (Sl i + qsum (map Sl ch))%Q) (walk (one_succ w) (fuel_of w) i).

(* node_list = [sink_nodes[0], its first predecessor, ...] *)
Definition node_list (w : net) : option (list nat) :=
  match sink_nodes w with
  | [] => None                                                   (* IndexError *)
  | s :: _ => option_map (cons (nid s)) (walk (one_pred w) (fuel_of w) (nid s))
  end.
Fixpoint suffix_from (i : nat) (l : list nat) : option (list nat) :=
  match l with [] => None | x :: r => if x =? i then Some l else suffix_from i r end.
(* S_minus[i] = min of S_echelon over node_list[j:], j the position of i *)
Definition s_minus (Se : nat -> Q) (nl : list nat) (i : nat) : option Q :=
  match suffix_from i nl with
  | Some (x :: r) => Some (fold_left qmin (map Se r) (Se x))
  | _ => None                                                    (* KeyError *)
  end.
Definition e2l_at (w : net) (Se : nat -> Q) (i : nat) : option Q :=
  match node_list w with
  | None => None
  | Some nl =>
      if length nl <? length (nodes w) then None                 (* IndexError: node_list[i] *)
      else
        let nl := firstn (length (nodes w)) nl in
        match s_minus Se nl i, one_succ w i with
        | Some a, None => Some a
        | Some a, Some k => match s_minus Se nl k with Some c => Some (a - c)%Q | None => None end
        | None, _ => None
        end
  end.
(* a returned dictionary, read back as a function *)
Definition dict_of (f : nat -> option Q) (i : nat) : Q := match f i with Some q => q | None => 0%Q end.
Definition assoc_q (l : list (nat * Q)) (i : nat) : Q :=
  match find (fun p => fst p =? i) l with Some p => snd p | None => 0%Q end.
(* the two conversions and the round trip as the harness observes them *)
Definition obs_levels (w : net) (Sl : list (nat * Q)) :=
  let e := l2e_at w (assoc_q Sl) in
  (map (fun i => (i, option_map qobs (e i))) (ids w),
   map (fun i => (i, option_map qobs (e2l_at w (dict_of e) i))) (ids w)).
