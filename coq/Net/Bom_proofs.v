(* Proofs about Net/Bom.v: the bill-of-materials views are mutually coherent and coherent with the product BOMs. *)
From SV Require Import Net.Graph Net.Graph_proofs Net.Bom.
Local Open Scope nat_scope.

Lemma memz_In x l : memz x l = true <-> In x l.
Proof. unfold memz. rewrite existsb_exists. split.
  - intros [y [Hy E]]. apply Z.eqb_eq in E. subst. exact Hy.
  - intros H. exists x. split; [exact H | apply Z.eqb_refl]. Qed.
Lemma dedupz_In l x : In x (dedupz l) <-> In x l.
Proof. induction l as [|y r IH]; [tauto|]. cbn [dedupz]. destruct (memz y r) eqn:M; cbn [In]; rewrite IH.
  - apply memz_In in M. split; [tauto|]. intros [H|H]; [subst; exact M|exact H].
  - tauto. Qed.
Lemma opt_eqb_eq a b : opt_eqb a b = true <-> a = b.
Proof. destruct a as [x|], b as [y|]; cbn; try (split; [discriminate|congruence]); try tauto.
  rewrite Nat.eqb_eq. split; congruence. Qed.
Lemma dedupo_In l x : In x (dedupo l) <-> In x l.
Proof. induction l as [|y r IH]; [tauto|]. cbn [dedupo]. destruct (existsb (opt_eqb y) r) eqn:M; cbn [In]; rewrite IH.
  - apply existsb_exists in M. destruct M as [z [Hz E]]. apply opt_eqb_eq in E. subst z.
    split; [tauto|]. intros [H|H]; [subst; exact Hz|exact H].
  - tauto. Qed.
Lemma qltb_lt a b : qltb a b = true <-> (a < b)%Q.
Proof. destruct (qltb_spec a b) as [[H E]|[H E]]; rewrite E; split; intros; try congruence; try lra. Qed.

(* (1) the network BOM follows the product BOM, or is 1 everywhere when the two nodes have no BOM relation *)
Theorem nbom_rule w n p : bom_found w n p = false -> forall p1 p2, nbom w n p1 p p2 = 1%Q.
Proof. intros H p1 p2. unfold nbom. rewrite H. reflexivity. Qed.
Theorem nbom_is_bom w n p : bom_found w n p = true -> forall p1 p2, nbom w n p1 p p2 = bom_get (bom w) p1 p2.
Proof. intros H p1 p2. unfold nbom. rewrite H. reflexivity. Qed.
(* what "BOM relation" means: some product of the node has a positive BOM entry for a product offered by the predecessor *)
Theorem bom_found_spec w n p : bom_found w n p = true <->
  exists p1 rm q, In p1 (prods n) /\ In rm (pred_prods w n p) /\ In (p1, rm, q) (bom w) /\ (0 < q)%Q /\
                  in_products_by_index w rm = true.
Proof. unfold bom_found, raw_material_indices. rewrite existsb_exists. split.
  - intros [p1 [H1 H2]]. apply existsb_exists in H2. destruct H2 as [rm [H2 H3]]. apply memz_In in H3.
    apply in_map_iff in H2. destruct H2 as [[[a c] q] [E H2]]. cbn in E. subst c. apply filter_In in H2. destruct H2 as [H2 H4].
    cbn [fst snd] in H4. apply andb_true_iff in H4. destruct H4 as [H4 H5]. apply andb_true_iff in H4. destruct H4 as [H4 H6].
    apply Z.eqb_eq in H4. subst a. apply qltb_lt in H6. exists p1, rm, q. auto.
  - intros [p1 [rm [q [H1 [H2 [H3 [H4 H5]]]]]]]. exists p1. split; [exact H1|]. apply existsb_exists. exists rm.
    split; [|apply memz_In; exact H2]. apply in_map_iff. exists (p1, rm, q). split; [reflexivity|]. apply filter_In.
    split; [exact H3|]. cbn [fst snd]. rewrite Z.eqb_refl, H5. apply qltb_lt in H4. rewrite H4. reflexivity. Qed.
(* the rule as stated in the property: no positive BOM entry between any products of the two nodes => NBOM = 1 for all pairs *)
Theorem nbom_no_relation w n p :
  (forall p1 rm q, In p1 (prods n) -> In rm (pred_prods w n p) -> In (p1, rm, q) (bom w) -> ~ (0 < q)%Q) ->
  forall p1 p2, nbom w n p1 p p2 = 1%Q.
Proof. intros H. apply nbom_rule. destruct (bom_found w n p) eqn:F; [|reflexivity]. exfalso.
  apply bom_found_spec in F. destruct F as [p1 [rm [q [H1 [H2 [H3 [H4 _]]]]]]]. exact (H p1 rm q H1 H2 H3 H4). Qed.

(* (2) supplier / raw-material pairs = positive entries of the network BOM (resp. of the product BOM) *)
Theorem pairs_nbom_spec w n p1 p rm : In (p, rm) (pairs_nbom w n p1) <->
  In p (preds_ext n) /\ In rm (pred_prods w n p) /\ (0 < nbom w n p1 p rm)%Q.
Proof. unfold pairs_nbom. rewrite in_flat_map. split.
  - intros [p' [H1 H2]]. apply in_map_iff in H2. destruct H2 as [rm' [E H2]]. inversion E; subst. apply filter_In in H2.
    destruct H2 as [H2 H3]. apply qltb_lt in H3. auto.
  - intros [H1 [H2 H3]]. exists p. split; [exact H1|]. apply in_map_iff. exists rm. split; [reflexivity|]. apply filter_In.
    split; [exact H2|apply qltb_lt; exact H3]. Qed.
Theorem pairs_bom_spec w n p1 p rm : In (p, rm) (pairs_bom w n p1) <->
  In p (preds_ext n) /\ In rm (pred_prods w n p) /\ (0 < bom_get (bom w) p1 rm)%Q.
Proof. unfold pairs_bom. rewrite in_flat_map. split.
  - intros [p' [H1 H2]]. apply in_map_iff in H2. destruct H2 as [rm' [E H2]]. inversion E; subst. apply filter_In in H2.
    destruct H2 as [H2 H3]. apply qltb_lt in H3. auto.
  - intros [H1 [H2 H3]]. exists p. split; [exact H1|]. apply in_map_iff. exists rm. split; [reflexivity|]. apply filter_In.
    split; [exact H2|apply qltb_lt; exact H3]. Qed.
Lemma pairs_all_spec nb w n pr : In pr (pairs_all nb w n) <-> exists p1, In p1 (prods n) /\ In pr (pairs nb w n p1).
Proof. unfold pairs_all. apply in_flat_map. Qed.

(* (3) raw materials by product <-> some supplier with a positive entry *)
Theorem rms_by_product_spec nb w n p1 rm : In rm (rms_by_product nb w n p1) <-> exists p, In (p, rm) (pairs nb w n p1).
Proof. unfold rms_by_product. rewrite dedupz_In, in_map_iff. split.
  - intros [[p r] [E H]]. cbn in E. subst. eauto.
  - intros [p H]. exists (p, rm). auto. Qed.
Theorem rms_all_spec nb w n rm : In rm (rms_all nb w n) <-> exists p, In (p, rm) (pairs_all nb w n).
Proof. unfold rms_all. rewrite dedupz_In, in_map_iff. split.
  - intros [[p r] [E H]]. cbn in E. subst. eauto.
  - intros [p H]. exists (p, rm). auto. Qed.
Theorem rms_all_union nb w n rm : In rm (rms_all nb w n) <-> exists p1, In p1 (prods n) /\ In rm (rms_by_product nb w n p1).
Proof. rewrite rms_all_spec. split.
  - intros [p H]. apply pairs_all_spec in H. destruct H as [p1 [H1 H2]]. exists p1. split; [exact H1|].
    apply rms_by_product_spec. eauto.
  - intros [p1 [H1 H2]]. apply rms_by_product_spec in H2. destruct H2 as [p H2]. exists p. apply pairs_all_spec. eauto. Qed.
Theorem suppliers_by_product_spec nb w n p1 p : In p (suppliers_by_product nb w n p1) <-> exists rm, In (p, rm) (pairs nb w n p1).
Proof. unfold suppliers_by_product. rewrite dedupo_In, in_map_iff. split.
  - intros [[p' r] [E H]]. cbn in E. subst. eauto.
  - intros [rm H]. exists (p, rm). auto. Qed.

(* (4) suppliers by raw material: defined exactly for the raw materials of the node *)
Theorem suppliers_by_rm_defined nb w n rm : (exists L, suppliers_by_rm nb w n rm = Some L) <-> In rm (rms_all nb w n).
Proof. unfold suppliers_by_rm. destruct (memz rm (rms_all nb w n)) eqn:M.
  - apply memz_In in M. split; eauto.
  - split; [intros [L H]; discriminate|]. intros H. apply memz_In in H. congruence. Qed.
Theorem suppliers_by_rm_spec nb w n rm L : suppliers_by_rm nb w n rm = Some L ->
  forall p, In p L <-> In (p, rm) (pairs_all nb w n).
Proof. unfold suppliers_by_rm. destruct (memz rm (rms_all nb w n)); [|discriminate]. intros H. inversion H; subst. clear H.
  intros p. rewrite dedupo_In, in_map_iff. split.
  - intros [[p' r] [E H]]. cbn in E. subst. apply filter_In in H. destruct H as [H1 H2]. cbn in H2. apply Z.eqb_eq in H2. subst. exact H1.
  - intros H. exists (p, rm). split; [reflexivity|]. apply filter_In. split; [exact H|]. cbn. apply Z.eqb_refl. Qed.

(* (5) products by raw material is the converse of raw materials by product *)
Theorem products_by_rm_spec w n rm L : products_by_rm true w n rm = Some L ->
  forall p1, In p1 L <-> In p1 (prods n) /\ In rm (rms_by_product true w n p1).
Proof. unfold products_by_rm. destruct (suppliers_by_rm true w n rm) as [sup|] eqn:S; [|discriminate].
  intros H. inversion H; subst. clear H. intros p1. rewrite filter_In. apply and_iff_ctx. intros Hp1.
  rewrite existsb_exists, rms_by_product_spec. cbn [pairs]. split.
  - intros [p [H1 H2]]. apply andb_true_iff in H2. destruct H2 as [H2 H3]. apply memz_In in H2. apply qltb_lt in H3.
    exists p. apply pairs_nbom_spec. split; [|auto].
    apply (suppliers_by_rm_spec _ _ _ _ _ S) in H1. apply pairs_all_spec in H1. destruct H1 as [p1' [_ H1]]. cbn [pairs] in H1.
    apply pairs_nbom_spec in H1. tauto.
  - intros [p H]. pose proof H as H'. apply pairs_nbom_spec in H. destruct H as [H1 [H2 H3]]. exists p. split.
    + apply (suppliers_by_rm_spec _ _ _ _ _ S). apply pairs_all_spec. exists p1. auto.
    + apply andb_true_iff. split; [apply memz_In; exact H2|apply qltb_lt; exact H3]. Qed.
Theorem products_by_rm_defined nb w n rm : (exists L, products_by_rm nb w n rm = Some L) <-> In rm (rms_all nb w n).
Proof. unfold products_by_rm. destruct nb.
  - rewrite <- suppliers_by_rm_defined. destruct (suppliers_by_rm true w n rm); split; eauto; intros [L H]; discriminate.
  - destruct (memz rm (rms_all false w n)) eqn:M; [apply memz_In in M; split; eauto|].
    split; [intros [L H]; discriminate|]. intros H. apply memz_In in H. congruence. Qed.

(* (6) customers by product: the successors that list this node as supplier of that product; plus the external customer *)
Theorem customers_by_product_spec nb w n p c : In (Some c) (customers_by_product nb w n p) <->
  In c (succs n) /\ exists cn, find_node w c = Some cn /\ In (Some (nid n), p) (pairs_all nb w cn).
Proof. unfold customers_by_product. rewrite in_app_iff. split.
  - intros [H|H]; [|destruct (dem n); [destruct H as [H|[]]; discriminate|destruct H]].
    apply in_map_iff in H. destruct H as [c' [E H]]. inversion E; subst. apply filter_In in H. destruct H as [H1 H2].
    split; [exact H1|]. destruct (find_node w c) as [cn|]; [|discriminate]. exists cn. split; [reflexivity|].
    apply andb_true_iff in H2. destruct H2 as [_ H2]. destruct (suppliers_by_rm nb w cn p) as [sup|] eqn:S; [|discriminate].
    apply existsb_exists in H2. destruct H2 as [x [Hx E2]]. apply opt_eqb_eq in E2. subst x.
    apply (suppliers_by_rm_spec _ _ _ _ _ S). exact Hx.
  - intros [H1 [cn [F H2]]]. left. apply in_map_iff. exists c. split; [reflexivity|]. apply filter_In. split; [exact H1|].
    rewrite F. assert (R : In p (rms_all nb w cn)) by (apply rms_all_spec; eauto).
    apply andb_true_iff. split; [apply memz_In; exact R|].
    destruct (proj2 (suppliers_by_rm_defined nb w cn p) R) as [L S]. rewrite S. apply existsb_exists. exists (Some (nid n)).
    split; [apply (suppliers_by_rm_spec _ _ _ _ _ S); exact H2|apply opt_eqb_eq; reflexivity]. Qed.
Theorem customers_external nb w n p : In None (customers_by_product nb w n p) <-> dem n = true.
Proof. unfold customers_by_product. rewrite in_app_iff. split.
  - intros [H|H]; [apply in_map_iff in H; destruct H as [c [E _]]; discriminate|]. destruct (dem n); [reflexivity|destruct H].
  - intros H. right. rewrite H. left. reflexivity. Qed.

(* ---------------------------------------------------------------------------------------------------------- *)
(* product side of the index look-ups, for every operation list: every product of every node (and its external-
   supplier dummy, and every network-level product) is in network.products, so products_by_index finds it; no node
   is without a product *)
Definition PInv (w : net) : Prop :=
  (forall n p, In n (nodes w) -> In p (prods n) -> In p (nprods w)) /\
  (forall n, In n (nodes w) -> In (ext_dummy_idx (nid n)) (nprods w)) /\
  (forall p, In p (nlocal w) -> In p (nprods w)) /\
  (forall n, In n (nodes w) -> prods n <> []).

Lemma add_if_new_In acc p x : In x (add_if_new acc p) <-> In x acc \/ x = p.
Proof. unfold add_if_new. destruct (memz p acc) eqn:M.
  - apply memz_In in M. split; [tauto|]. intros [H|H]; [exact H|subst; exact M].
  - rewrite in_app_iff. cbn. intuition. Qed.
Lemma fold_add_if_new_In l : forall acc x, In x (fold_left add_if_new l acc) <-> In x acc \/ In x l.
Proof. induction l as [|p r IH]; intros acc x; cbn [fold_left In]; [tauto|]. rewrite IH, add_if_new_In. intuition. Qed.
Definition collect (l : list node) (acc : list Z) : list Z :=
  fold_left (fun acc n => add_if_new (fold_left add_if_new (prods n) acc) (ext_dummy_idx (nid n))) l acc.
Lemma collect_In l : forall acc x, In x (collect l acc) <->
  In x acc \/ exists n, In n l /\ (In x (prods n) \/ x = ext_dummy_idx (nid n)).
Proof. unfold collect. induction l as [|m r IH]; intros acc x; cbn [fold_left In].
  - split; [tauto|]. intros [H|[n [[] _]]]. exact H.
  - rewrite IH, add_if_new_In, fold_add_if_new_In. split.
    + intros [[[H|H]|H]|[n [H1 H2]]]; [left; exact H|right; exists m; tauto|right; exists m; tauto|right; exists n; tauto].
    + intros [H|[n [[H1|H1] H2]]]; [tauto|subst; tauto|right; exists n; tauto]. Qed.

Lemma existsb_memz_prods l p : existsb (fun n => memz p (prods n)) l = true <-> exists n, In n l /\ In p (prods n).
Proof. rewrite existsb_exists. split; intros [n [H1 H2]]; exists n; (split; [exact H1|]); apply memz_In; exact H2. Qed.
Lemma nprods_rebuild w x : In x (nprods (rebuild w)) <->
  (In x (nprods w) \/ exists n, In n (nodes w) /\ (In x (prods n) \/ x = ext_dummy_idx (nid n))) /\
  (In x (nlocal w) \/ (exists n, In n (nodes w) /\ In x (prods n)) \/ exists n, In n (nodes w) /\ x = ext_dummy_idx (nid n)).
Proof. unfold rebuild. cbn [nprods]. rewrite filter_In. fold (collect (nodes w) (nprods w)). rewrite collect_In.
  apply and_iff_compat_l. rewrite !orb_true_iff. rewrite existsb_memz_prods, existsb_exists.
  split.
  - intros [[H|H]|[n [H1 H2]]]; [left; apply memz_In; exact H|tauto|]. right. right. exists n. split; [exact H1|].
    apply Z.eqb_eq. exact H2.
  - intros [H|[H|[n [H1 H2]]]]; [left; left; apply memz_In; exact H|tauto|]. right. exists n. split; [exact H1|].
    apply Z.eqb_eq. exact H2. Qed.

(* rebuild establishes the membership parts *)
Lemma PInv_rebuild w : (forall p, In p (nlocal w) -> In p (nprods w)) -> (forall n, In n (nodes w) -> prods n <> []) ->
  PInv (rebuild w).
Proof. intros HL HN. split; [|split; [|split]].
  - intros n p Hn Hp. apply nprods_rebuild. cbn [nodes rebuild] in Hn. split; [right|right; left]; exists n; tauto.
  - intros n Hn. apply nprods_rebuild. cbn [nodes rebuild] in Hn. split; [right|right; right]; exists n; tauto.
  - intros p Hp. cbn [nlocal rebuild] in Hp. apply nprods_rebuild. split; [left; apply HL; exact Hp|left; exact Hp].
  - exact HN. Qed.

Lemma prods_nonempty_map_node l i g : (forall n, prods n <> [] -> prods (g n) <> []) ->
  (forall n, In n l -> prods n <> []) -> forall n, In n (map_node i g l) -> prods n <> [].
Proof. intros Hg H n Hn. unfold map_node in Hn. apply in_map_iff in Hn. destruct Hn as [m [E Hm]]. subst.
  destruct (nid m =? i); [apply Hg|]; apply H; exact Hm. Qed.
Lemma prods_of_attrs l1 l2 : map attrs l1 = map attrs l2 -> (forall n, In n l2 -> prods n <> []) -> forall n, In n l1 -> prods n <> [].
Proof. intros E H n Hn. assert (Ha : In (attrs n) (map attrs l2)) by (rewrite <- E; apply in_map; exact Hn).
  apply in_map_iff in Ha. destruct Ha as [m [Em Hm]]. unfold attrs in Em. injection Em as E1 E2 E3 E4. rewrite <- E2. apply H. exact Hm. Qed.

Lemma dummy_idx_neg i : (dummy_idx i < 0)%Z.
Proof. unfold dummy_idx. destruct (0 <? i) eqn:E; [apply Nat.ltb_lt in E|]; lia. Qed.

Lemma PInv_link w a b e d : PInv w ->
  (forall p, In p (nlocal (link w a b e d)) -> In p (nprods (link w a b e d))) /\
  (forall n, In n (nodes (link w a b e d)) -> prods n <> []).
Proof. intros [_ [_ [H3 H4]]]. unfold link. destruct (has_node w b); cbn [nodes nlocal nprods set_nodes]; (split; [exact H3|]).
  - apply prods_nonempty_map_node; [auto|]. apply prods_nonempty_map_node; [auto|exact H4].
  - intros n Hn. apply in_app_or in Hn. destruct Hn as [Hn|[Hn|[]]]; [|subst; cbn; discriminate].
    revert n Hn. apply prods_nonempty_map_node; [auto|exact H4]. Qed.
Lemma PInv_link_pred w a b e d : PInv w ->
  (forall p, In p (nlocal (link_pred w a b e d)) -> In p (nprods (link_pred w a b e d))) /\
  (forall n, In n (nodes (link_pred w a b e d)) -> prods n <> []).
Proof. intros [_ [_ [H3 H4]]]. unfold link_pred. destruct (has_node w b); cbn [nodes nlocal nprods set_nodes]; (split; [exact H3|]).
  - apply prods_nonempty_map_node; [auto|]. apply prods_nonempty_map_node; [auto|exact H4].
  - intros n Hn. apply in_app_or in Hn. destruct Hn as [Hn|[Hn|[]]]; [|subst; cbn; discriminate].
    revert n Hn. apply prods_nonempty_map_node; [auto|exact H4]. Qed.

Lemma PInv_add_edge w a b w' : PInv w -> add_edge w a b = Ok w' -> PInv w'.
Proof. intros HP. unfold add_edge. destruct (mem_edge _ _); [intros H; inversion H; subst; exact HP|].
  destruct (negb (has_node w a)); [discriminate|]. destruct (negb (has_node w b)); [discriminate|].
  intros H. inversion H; subst. destruct (PInv_link w a b false false HP). apply PInv_rebuild; assumption. Qed.
Lemma PInv_add_edges l : forall w w', PInv w -> add_edges w l = Ok w' -> PInv w'.
Proof. induction l as [|[a b] r IH]; intros w w' HP H; cbn in H; [inversion H; subst; exact HP|].
  destruct (add_edge w a b) as [w1|] eqn:E; [|discriminate]. eapply IH; [|exact H]. eapply PInv_add_edge; eauto. Qed.

Lemma unlink_preds_rest L : forall w i w1, unlink_preds w L i = Ok w1 -> same_rest w w1.
Proof. induction L as [|s L IH]; intros w i w1 H; cbn in H; [inversion H; subst; apply same_rest_refl|].
  unfold unlink_pred in H. destruct (find_node w s) as [n|]; [|discriminate]. destruct (remove1 i (preds n)) as [l'|]; [|discriminate].
  eapply same_rest_trans; [|eapply IH; exact H]. unfold same_rest. cbn [nodes set_nodes nprods nlocal bom pnet].
  repeat split. apply attrs_map_node. reflexivity. Qed.
Lemma unlink_succs_rest L : forall w i w1, unlink_succs w L i = Ok w1 -> same_rest w w1.
Proof. induction L as [|s L IH]; intros w i w1 H; cbn in H; [inversion H; subst; apply same_rest_refl|].
  unfold unlink_succ in H. destruct (find_node w s) as [n|]; [|discriminate]. destruct (remove1 i (succs n)) as [l'|]; [|discriminate].
  eapply same_rest_trans; [|eapply IH; exact H]. unfold same_rest. cbn [nodes set_nodes nprods nlocal bom pnet].
  repeat split. apply attrs_map_node. reflexivity. Qed.

Lemma PInv_apply_op w o w' : PInv w -> apply_op w o = Ok w' -> PInv w'.
Proof. intros HP. pose proof HP as [H1 [H2 [H3 H4]]]. destruct o; cbn [apply_op].
  - unfold add_node. destruct (has_node w i); intros H; inversion H; subst; [exact HP|]. apply PInv_rebuild; cbn [nodes nlocal nprods set_nodes]; [exact H3|].
    intros n Hn. apply in_app_or in Hn. destruct Hn as [Hn|[Hn|[]]]; [auto|subst; cbn; discriminate].
  - apply PInv_add_edge. exact HP.
  - apply PInv_add_edges. exact HP.
  - unfold add_successor. destruct (has_node w a); [|discriminate]. intros H. inversion H; subst.
    destruct (PInv_link w a b e d HP). apply PInv_rebuild; assumption.
  - unfold add_predecessor. destruct (has_node w a); [|discriminate]. intros H. inversion H; subst.
    destruct (PInv_link_pred w a b e d HP). apply PInv_rebuild; assumption.
  - unfold remove_node. destruct (negb (has_node w i)); [intros H; inversion H; subst; exact HP|].
    destruct (unlink_preds w (succs_of w i) i) as [w1|] eqn:E1; [|discriminate].
    destruct (unlink_succs w1 (preds_of w1 i) i) as [w2|] eqn:E2; [|discriminate]. intros H. inversion H; subst.
    apply unlink_preds_rest in E1. apply unlink_succs_rest in E2. pose proof (same_rest_trans _ _ _ E1 E2) as [R1 [R2 [_ [_ R5]]]].
    apply PInv_rebuild; cbn [nodes nlocal nprods set_nodes].
    + rewrite R1, R2. exact H3.
    + intros n Hn. unfold drop_node in Hn. apply filter_In in Hn. destruct Hn as [Hn _]. revert n Hn.
      apply (prods_of_attrs _ _ R5). exact H4.
  - unfold node_add_product. destruct (find_node w n) as [nd|] eqn:F; [|discriminate].
    destruct (memz (Z.of_nat p) (prods nd)); intros H; inversion H; subst; apply PInv_rebuild; cbn [nodes nlocal nprods set_nodes add_pnet]; try exact H3; try exact H4.
    apply prods_nonempty_map_node; [|exact H4]. intros m _. cbn [prods set_prods]. intros Hc.
    assert (Hin : In (Z.of_nat p) (removez (dummy_idx n) (prods nd ++ [Z.of_nat p]))).
    { unfold removez. apply filter_In. split; [apply in_or_app; right; left; reflexivity|].
      pose proof (dummy_idx_neg n). destruct (Z.eqb_spec (Z.of_nat p) (dummy_idx n)); [lia|reflexivity]. }
    rewrite Hc in Hin. destruct Hin.
  - unfold node_remove_product. destruct (find_node w n) as [nd|]; [|discriminate].
    destruct (memz (Z.of_nat p) (prods nd)); intros H; inversion H; subst; [|exact HP].
    apply PInv_rebuild; cbn [nodes nlocal nprods set_nodes]; [exact H3|].
    apply prods_nonempty_map_node; [|exact H4]. intros m _. cbn [prods set_prods].
    destruct (removez (Z.of_nat p) (prods nd)); cbn; discriminate.
  - unfold net_add_product. cbn [nlocal add_pnet]. destruct (memz (Z.of_nat p) (nlocal w)); intros H; inversion H; subst.
    + exact HP.
    + apply PInv_rebuild; cbn [nodes nlocal nprods add_pnet]; [|exact H4]. intros q Hq. apply add_if_new_In.
      apply in_app_or in Hq. destruct Hq as [Hq|[Hq|[]]]; [left; apply H3; exact Hq|right; symmetry; exact Hq].
  - unfold net_remove_product. destruct (negb (in_products_by_index w (Z.of_nat p))); [discriminate|].
    destruct (memz (Z.of_nat p) (nlocal w)); intros H; inversion H; subst; [|exact HP].
    apply PInv_rebuild; cbn [nodes nlocal nprods]; [|exact H4]. intros q Hq. unfold removez in Hq. apply filter_In in Hq. apply H3. tauto.
  - unfold set_bom. destruct (_ && _); [discriminate|]. intros H. inversion H; subst.
    destruct (memz (Z.of_nat p) (pnet w)); [apply PInv_rebuild; cbn [nodes nlocal nprods]; assumption|exact HP].
  - unfold reindex. destruct (omap (reindex_node m) (nodes w)) as [l|] eqn:E; [|discriminate]. intros H. inversion H; subst.
    apply omap_reindex in E. destruct E as [E _]. subst l. apply PInv_rebuild; cbn [nodes nlocal nprods set_nodes]; [exact H3|].
    intros n Hn. apply in_map_iff in Hn. destruct Hn as [n0 [En Hn0]]. subst n. cbn [rn prods]. intros Hc.
    apply map_eq_nil in Hc. exact (H4 n0 Hn0 Hc). Qed.

Lemma PInv_empty : PInv empty_net.
Proof. repeat split; cbn; intros; contradiction. Qed.
Theorem PInv_run ops : forall w w', PInv w -> run ops w = Ok w' -> PInv w'.
Proof. induction ops as [|o r IH]; intros w w' HP H; [inversion H; subst; exact HP|].
  rewrite run_cons in H. destruct (apply_op w o) as [w1|] eqn:E; [|discriminate]. eapply IH; [|exact H]. eapply PInv_apply_op; eauto. Qed.

(* final statement used by Props/C18.v *)
Theorem products_lookup_final ops w : run ops empty_net = Ok w ->
  forall n, In n (nodes w) ->
    prods n <> [] /\
    (forall p, In p (prods n) -> In p (nprods w) /\ in_products_by_index w p = true) /\
    in_products_by_index w (ext_dummy_idx (nid n)) = true /\
    (forall p, In p (nlocal w) -> In p (nprods w)).
Proof. intros H n Hn. destruct (PInv_run ops empty_net w PInv_empty H) as [H1 [H2 [H3 H4]]].
  split; [apply H4; exact Hn|]. split; [|split; [|exact H3]].
  - intros p Hp. split; [eapply H1; eauto|]. unfold in_products_by_index. apply orb_true_iff. left. apply memz_In. eapply H1; eauto.
  - unfold in_products_by_index. apply orb_true_iff. left. apply memz_In. apply H2. exact Hn. Qed.
