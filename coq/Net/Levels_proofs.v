(* Proofs about Net/Levels.v: on every serial system, echelon_to_local (local_to_echelon S) = S for S >= 0. *)
From SV Require Import Net.Graph Net.Graph_proofs Net.Builders Net.Builders_proofs Net.Levels.
Local Open Scope nat_scope.

Lemma next_cons x r a : next (x :: r) a = match r with [] => None | y :: _ => if x =? a then Some y else next r a end.
Proof. destruct r; reflexivity. Qed.
Lemma prev_cons x r a : prev (x :: r) a = match r with [] => None | y :: _ => if y =? a then Some x else prev r a end.
Proof. destruct r; reflexivity. Qed.
Lemma next_cons_neq x r a : x <> a -> next (x :: r) a = next r a.
Proof. intros H. destruct r as [|y r']; [reflexivity|]. rewrite next_cons2. destruct (Nat.eqb_spec x a); [contradiction|reflexivity]. Qed.
Lemma next_mid pre a b post : NoDup (pre ++ a :: b :: post) -> next (pre ++ a :: b :: post) a = Some b.
Proof. induction pre as [|x pre' IH]; intros H; cbn [app].
  - rewrite next_cons2, Nat.eqb_refl. reflexivity.
  - cbn [app] in H. inversion H; subst. rewrite next_cons_neq; [apply IH; assumption|].
    intros ->. apply H2. apply in_or_app. right. left. reflexivity. Qed.
Lemma next_end pre a : NoDup (pre ++ [a]) -> next (pre ++ [a]) a = None.
Proof. induction pre as [|x pre' IH]; intros H; cbn [app]; [reflexivity|].
  cbn [app] in H. inversion H; subst. rewrite next_cons_neq; [apply IH; assumption|].
  intros ->. apply H2. apply in_or_app. right. left. reflexivity. Qed.
Lemma prev_mid pre a b post : NoDup (pre ++ a :: b :: post) -> prev (pre ++ a :: b :: post) b = Some a.
Proof. induction pre as [|x pre' IH]; intros H; cbn [app].
  - rewrite prev_cons2, Nat.eqb_refl. reflexivity.
  - cbn [app] in H. inversion H; subst. specialize (IH H3). destruct pre' as [|y pre'']; cbn [app] in *.
    + rewrite prev_cons2. destruct (Nat.eqb_spec a b) as [Ex|Ex]; [|exact IH]. subst. exfalso.
      inversion H3; subst. apply H4. left. reflexivity.
    + rewrite prev_cons2. destruct (Nat.eqb_spec y b) as [Ex|Ex]; [|exact IH]. subst. exfalso.
      inversion H3; subst. apply H4. apply in_or_app. right. right. left. reflexivity. Qed.

Lemma fold_qmin_least l a : (forall y, In y l -> (a <= y)%Q) -> fold_left qmin l a = a.
Proof. induction l as [|y r IH]; intros H; [reflexivity|]. cbn [fold_left].
  assert (E : qmin a y = a). { unfold qmin. assert (Hy : (a <= y)%Q) by (apply H; left; reflexivity).
    apply Qle_bool_iff in Hy. rewrite Hy. reflexivity. }
  rewrite E. apply IH. intros z Hz. apply H. right. exact Hz. Qed.
Lemma suffix_from_app l1 a l2 : ~ In a l1 -> suffix_from a (l1 ++ a :: l2) = Some (a :: l2).
Proof. induction l1 as [|x r IH]; intros H; cbn [app suffix_from]; [rewrite Nat.eqb_refl; reflexivity|].
  destruct (Nat.eqb_spec x a); [subst; exfalso; apply H; left; reflexivity|]. apply IH. intros Hc. apply H. right. exact Hc. Qed.
Lemma filter_first {A} (p : A -> bool) l1 x l2 : (forall y, In y l1 -> p y = false) -> p x = true ->
  filter p (l1 ++ x :: l2) = x :: filter p l2.
Proof. intros H Hx. rewrite filter_app, (filter_nil p l1 H). cbn. rewrite Hx. reflexivity. Qed.

Section Serial.
Variables (w : net) (sys : list nat) (Sl : nat -> Q).
Hypothesis HI : Inv w.
Hypothesis Hids : ids w = sys.
Hypothesis Hs : forall j, succs_of w j = match next sys j with Some k => [k] | None => [] end.
Hypothesis Hp : forall j, preds_of w j = match prev sys j with Some k => [k] | None => [] end.
Hypothesis ND : NoDup sys.
Hypothesis NE : sys <> [].
Hypothesis Hnn : forall i, In i sys -> (0 <= Sl i)%Q.

Lemma one_succ_next j : one_succ w j = next sys j.
Proof. unfold one_succ. rewrite Hs. destruct (next sys j); reflexivity. Qed.
Lemma one_pred_prev j : one_pred w j = prev sys j.
Proof. unfold one_pred. rewrite Hp. destruct (prev sys j); reflexivity. Qed.

Lemma walk_down post : forall pre a fuel, sys = pre ++ a :: post -> length post < fuel ->
  walk (one_succ w) fuel a = Some post.
Proof. induction post as [|b post' IH]; intros pre a fuel E HL; (destruct fuel as [|f]; [cbn in HL; lia|]); cbn [walk]; rewrite one_succ_next.
  - rewrite E, next_end by (rewrite <- E; exact ND). reflexivity.
  - rewrite E at 1. rewrite next_mid by (rewrite <- E; exact ND).
    rewrite (IH (pre ++ [a]) b f); [reflexivity|rewrite <- app_assoc; exact E|cbn in HL; lia]. Qed.
Lemma walk_up pre : forall a post fuel, sys = pre ++ a :: post -> length pre < fuel ->
  walk (one_pred w) fuel a = Some (rev pre).
Proof. induction pre as [|c pre' IH] using rev_ind; intros a post fuel E HL; (destruct fuel as [|f]; [cbn in HL; lia|]); cbn [walk]; rewrite one_pred_prev.
  - rewrite E. cbn [app]. rewrite prev_notin; [reflexivity|]. cbn [tl]. rewrite E in ND. cbn [app] in ND. inversion ND. assumption.
  - rewrite <- app_assoc in E. cbn [app] in E. rewrite E at 1. rewrite prev_mid by (rewrite <- E; exact ND).
    rewrite (IH c (a :: post) f); [rewrite rev_app_distr; reflexivity|exact E|rewrite app_length in HL; cbn in HL; lia]. Qed.

Lemma fuel_len : fuel_of w = S (length sys).
Proof. unfold fuel_of. rewrite <- Hids. unfold ids. rewrite map_length. reflexivity. Qed.

Lemma l2e_eq pre a post : sys = pre ++ a :: post -> l2e_at w Sl a = Some (Sl a + qsum (map Sl post))%Q.
Proof. intros E. unfold l2e_at. rewrite (walk_down post pre a); [reflexivity|exact E|].
  rewrite fuel_len, E, app_length. cbn. lia. Qed.
Definition Se := dict_of (l2e_at w Sl).
Lemma Se_eq pre a post : sys = pre ++ a :: post -> Se a = (Sl a + qsum (map Sl post))%Q.
Proof. intros E. unfold Se, dict_of. rewrite (l2e_eq pre a post E). reflexivity. Qed.

Lemma Se_mono pre a post x : sys = pre ++ a :: post -> In x pre -> (Se a <= Se x)%Q.
Proof. intros E Hx. apply in_split in Hx. destruct Hx as [p1 [p2 Hx]]. subst pre.
  rewrite (Se_eq _ _ _ E). rewrite <- app_assoc in E. cbn [app] in E. rewrite (Se_eq _ _ _ E).
  rewrite map_app, qsum_app. cbn [map qsum].
  assert (H1 : (0 <= Sl x)%Q). { apply Hnn. rewrite E. apply in_or_app. right. left. reflexivity. }
  assert (H2 : (0 <= qsum (map Sl p2))%Q).
  { apply qsum_nonneg. apply Forall_forall. intros q Hq. apply in_map_iff in Hq. destruct Hq as [y [Ey Hy]]. subst q.
    apply Hnn. rewrite E. apply in_or_app. right. right. apply in_or_app. left. exact Hy. }
  lra. Qed.

Lemma sink_first : exists s rest, sink_nodes w = s :: rest /\ nid s = last sys 0.
Proof. pose proof (app_removelast_last 0 NE) as E.
  assert (Hm : map nid (nodes w) = removelast sys ++ [last sys 0]) by (rewrite <- E; exact Hids).
  apply map_eq_app in Hm. destruct Hm as [l1 [l2 [En [E1 E2]]]].
  destruct l2 as [|x [|y l2']]; try discriminate. cbn in E2. injection E2 as Ex.
  exists x, []. split; [|exact Ex]. unfold sink_nodes. rewrite En.
  assert (Hsn : forall n, In n (nodes w) -> succs n = match next sys (nid n) with Some k => [k] | None => [] end).
  { intros n Hn. destruct (node_lookup w n HI Hn) as [_ L]. rewrite L. apply Hs. }
  rewrite filter_first; [reflexivity| |].
  - intros y Hy. rewrite Hsn by (rewrite En; apply in_or_app; left; exact Hy).
    assert (Hyin : In (nid y) (removelast sys)) by (rewrite <- E1; apply in_map; exact Hy).
    destruct (next sys (nid y)) eqn:N; [reflexivity|]. exfalso.
    apply (next_none sys (nid y) 0 ND) in N; [|rewrite E; apply in_or_app; left; exact Hyin].
    rewrite E in ND. apply NoDup_remove_2 in ND. rewrite app_nil_r in ND. apply ND. rewrite <- N. exact Hyin.
  - rewrite Hsn by (rewrite En; apply in_or_app; right; left; reflexivity). rewrite Ex.
    assert (N : next sys (last sys 0) = None).
    { apply (next_none sys _ 0 ND); [apply last_In; exact NE|reflexivity]. }
    rewrite N. reflexivity. Qed.

Lemma node_list_eq : node_list w = Some (rev sys).
Proof. destruct sink_first as [s [rest [E1 E2]]]. unfold node_list. rewrite E1, E2.
  pose proof (app_removelast_last 0 NE) as E.
  rewrite (walk_up (removelast sys) (last sys 0) []); [|exact E|].
  - cbn [option_map]. rewrite E at 3. rewrite rev_app_distr. reflexivity.
  - rewrite fuel_len. rewrite E at 2. rewrite app_length. cbn. lia. Qed.

Lemma s_minus_eq pre a post : sys = pre ++ a :: post -> s_minus Se (rev sys) a = Some (Se a).
Proof. intros E. unfold s_minus. rewrite E at 1. rewrite rev_app_distr. cbn [rev]. rewrite <- app_assoc. cbn [app].
  rewrite suffix_from_app.
  - rewrite fold_qmin_least; [reflexivity|]. intros y Hy. apply in_map_iff in Hy. destruct Hy as [x [Ex Hx]]. subst y.
    apply (Se_mono pre a post x E). apply in_rev. exact Hx.
  - rewrite <- in_rev. intros Hc. rewrite E in ND. apply NoDup_remove_2 in ND. apply ND. apply in_or_app. right. exact Hc. Qed.

Theorem levels_inverse_at a : In a sys -> exists q, e2l_at w Se a = Some q /\ (q == Sl a)%Q.
Proof. intros Ha. apply in_split in Ha. destruct Ha as [pre [post E]].
  unfold e2l_at. rewrite node_list_eq. rewrite rev_length.
  assert (HL : length (nodes w) = length sys) by (rewrite <- Hids; unfold ids; rewrite map_length; reflexivity).
  assert (F : firstn (length sys) (rev sys) = rev sys) by (rewrite <- (rev_length sys) at 1; apply firstn_all).
  rewrite HL, Nat.ltb_irrefl. cbv zeta. rewrite F.
  rewrite (s_minus_eq pre a post E), one_succ_next. destruct post as [|b post'].
  - assert (N : next sys a = None) by (rewrite E; apply next_end; rewrite <- E; exact ND). rewrite N.
    eexists. split; [reflexivity|]. rewrite (Se_eq _ _ _ E). cbn [map qsum]. lra.
  - assert (N : next sys a = Some b) by (rewrite E; apply next_mid; rewrite <- E; exact ND). rewrite N.
    assert (E' : sys = (pre ++ [a]) ++ b :: post') by (rewrite <- app_assoc; exact E).
    rewrite (s_minus_eq _ _ _ E'). eexists. split; [reflexivity|].
    rewrite (Se_eq _ _ _ E), (Se_eq _ _ _ E'). cbn [map qsum]. lra. Qed.
(* and the echelon levels are the documented suffix sums *)
Theorem echelon_is_suffix_sum pre a post : sys = pre ++ a :: post ->
  l2e_at w Sl a = Some (Sl a + qsum (map Sl post))%Q.
Proof. exact (l2e_eq pre a post). Qed.
End Serial.

(* instantiated on the network returned by the serial_system builder, any length and labelling *)
Theorem levels_inverse sys lists A b Sl : NoDup sys -> sys <> [] ->
  serial_system sys lists A = BOk b -> (forall i, In i sys -> (0 <= Sl i)%Q) ->
  forall a, In a sys -> exists q, e2l_at (bn b) (dict_of (l2e_at (bn b) Sl)) a = Some q /\ (q == Sl a)%Q.
Proof. intros ND NE E Hnn a Ha. destruct (serial_spec sys lists A b ND NE E) as [HI [I1 [S1 [P1 _]]]].
  exact (levels_inverse_at (bn b) sys Sl HI I1 S1 P1 ND NE Hnn a Ha). Qed.
Theorem levels_echelon_sum sys lists A b Sl pre a post : NoDup sys -> sys <> [] ->
  serial_system sys lists A = BOk b -> sys = pre ++ a :: post ->
  l2e_at (bn b) Sl a = Some (Sl a + qsum (map Sl post))%Q.
Proof. intros ND NE E Es. destruct (serial_spec sys lists A b ND NE E) as [HI [I1 [S1 [P1 _]]]].
  exact (echelon_is_suffix_sum (bn b) sys Sl I1 S1 ND pre a post Es). Qed.

(* without non-negativity the round trip is not the identity: local levels (-1, 2) on the serial system 0 -> 1 *)
Theorem levels_negative_counterexample : exists sys b Sl a,
  serial_system sys None no_args = BOk b /\ In a sys /\
  exists q, e2l_at (bn b) (dict_of (l2e_at (bn b) Sl)) a = Some q /\ ~ (q == Sl a)%Q.
Proof. exists [0; 1]. eexists. exists (assoc_q [(0, (-1) # 1); (1, 2 # 1)]), 0.
  split; [vm_compute; reflexivity|]. split; [left; reflexivity|].
  eexists. split; [vm_compute; reflexivity|]. intros H. vm_compute in H. discriminate. Qed.
