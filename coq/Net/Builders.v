(* Model of the builder functions of supply_chain_network.py (network_from_edges, single_stage_system,
   serial_system, owmr_system, mwor_system) and of helpers.build_node_data_dict.  Executable; proofs in
   Builders_proofs.v.

   Keyword arguments are modelled by their SHAPE: None, singleton, list (entries may be None), dict (entries may
   be None).  Four attributes are carried:
     hc  local_holding_cost   (stands for every attribute that is copied unconditionally from the data dict)
     so  stockout_cost        (copied, then overwritten with 0 at the non-sink nodes of a serial system)
     ds  demand_source        (true = a DemandSource whose type is set, false = DemandSource() with type None)
     dt  demand_type          (a tag; any non-None entry gives the constructed DemandSource a type)
   supply_type is not an input: network_from_edges never reads the keyword, it sets 'U' exactly at the nodes without
   predecessors ([ext] of the node), whatever the caller passes. *)
From SV Require Export Net.Graph.
Local Open Scope nat_scope.

Inductive arg (V : Type) :=
| ANone
| AScalar (v : V)
| AList (l : list (option V))
| ADict (d : list (nat * option V)).
Arguments ANone {V}. Arguments AScalar {V} v. Arguments AList {V} l. Arguments ADict {V} d.

(* is_iterable(kwargs.get(a)) *)
Definition iterable {V} (a : arg V) : bool := match a with AList _ | ADict _ => true | _ => false end.
(* build_node_data_dict raises ValueError for a list whose length differs from node_order_in_lists *)
Definition arg_ok {V} (a : arg V) (order : list nat) : bool :=
  match a with AList l => length l =? length order | _ => true end.
Definition join {V} (o : option (option V)) : option V := match o with Some x => x | None => None end.
(* data_dict[n][a]; for a list the assignments run over k = 0.. so the last slot of a repeated index wins *)
Definition data {V} (a : arg V) (order : list nat) (n : nat) : option V :=
  match a with
  | ANone => None
  | AScalar v => Some v
  | AList l => join (option_map snd (find (fun p => fst p =? n) (rev (combine order l))))
  | ADict d => join (option_map snd (find (fun p => fst p =? n) d))
  end.

Record bargs := mkArgs { a_hc : arg nat; a_so : arg nat; a_ds : arg bool; a_dt : arg nat }.
Definition no_args : bargs := mkArgs ANone ANone ANone ANone.
(* the built network: structure + the two copied attributes per node (in node order) *)
Record bnet := mkB { bn : net; b_hc : list (nat * option nat); b_so : list (nat * option nat) }.
Inductive bres := BOk (b : bnet) | BErr (e : err).

Fixpoint insert_sorted (x : nat) (l : list nat) : list nat :=
  match l with [] => [x] | y :: r => if x <=? y then x :: l else y :: insert_sorted x r end.
Definition sort_nat (l : list nat) : list nat := fold_right insert_sorted [] l.
Definition same_set (l1 l2 : list nat) : bool :=
  forallb (fun x => memn x l2) l1 && forallb (fun x => memn x l1) l2.

Definition endpoints (es : list (nat * nat)) : list nat := flat_map (fun e => [fst e; snd e]) es.
(* node indices in order of creation *)
Definition nfe_ids (es : list (nat * nat)) (order : option (list nat)) : list nat :=
  match es with
  | [] => [match order with Some (i :: _) => i | _ => 0 end]
  | _ => add_new [] (endpoints es)
  end.
(* network.add_successor(source, sink) for every edge, in order (NOT add_edge: a repeated edge is added twice) *)
Definition link_all (es : list (nat * nat)) (w : net) : net :=
  fold_left (fun w e => link w (fst e) (snd e) false false) es w.

Definition is_some {V} (o : option V) : bool := match o with Some _ => true | None => false end.
(* has the node a demand source with a type after network_from_edges? *)
Definition demand_rule (A : bargs) (order : list nat) (n : node) : bool :=
  let dds := data (a_ds A) order (nid n) in
  let ddt := data (a_dt A) order (nid n) in
  if is_nil (succs n) || (iterable (a_ds A) && is_some dds) || (iterable (a_dt A) && is_some ddt)
  then match dds with Some b => b | None => is_some ddt end
  else false.
Definition finish_node (A : bargs) (order : list nat) (n : node) : node :=
  mkNode (nid n) (preds n) (succs n) (prods n) (is_nil (preds n)) (demand_rule A order n).

Definition network_from_edges (es : list (nat * nat)) (order : option (list nat)) (A : bargs) : bres :=
  let idl := nfe_ids es order in
  let w0 := set_nodes empty_net (map (fun i => fresh_node i false false) idl) in
  let ord := match order with None => sort_nat idl | Some o => o end in
  if negb (same_set ord idl) then BErr EValue else
  let w1 := link_all es w0 in
  if negb (arg_ok (a_hc A) ord && arg_ok (a_so A) ord && arg_ok (a_ds A) ord && arg_ok (a_dt A) ord) then BErr EValue else
  let w2 := rebuild (set_nodes w1 (map (finish_node A ord) (nodes w1))) in
  BOk (mkB w2 (map (fun i => (i, data (a_hc A) ord i)) (ids w2)) (map (fun i => (i, data (a_so A) ord i)) (ids w2))).

Definition single_stage_system (index : nat) (A : bargs) : bres := network_from_edges [] (Some [index]) A.

(* node.demand_source = DemandSource() at the nodes selected by [wipe] *)
Definition wipe_demand (wipe : nat -> bool) (w : net) : net :=
  set_nodes w (map (fun n => if wipe (nid n) then mkNode (nid n) (preds n) (succs n) (prods n) (ext n) false else n) (nodes w)).
Fixpoint chain_edges (sys : list nat) : list (nat * nat) :=
  match sys with a :: ((b :: _) as r) => (a, b) :: chain_edges r | _ => [] end.

(* the three system builders raise ValueError when node_order_in_lists is given and is not the node set of the system *)
Definition guard_lists (lists : option (list nat)) (sys : list nat) : bool :=
  match lists with Some l => same_set l sys | None => true end.

(* serial_system(len(sys), node_order_in_system=sys, node_order_in_lists=lists, **A) *)
Definition serial_system (sys : list nat) (lists : option (list nat)) (A : bargs) : bres :=
  if negb (guard_lists lists sys) then BErr EValue else
  let ord := match lists with Some l => l | None => sys end in
  match network_from_edges (chain_edges sys) (Some ord) A with
  | BErr e => BErr e
  | BOk b =>
      let sink := last sys 0 in
      BOk (mkB (wipe_demand (fun i => negb (i =? sink)) (bn b)) (b_hc b)
               (map (fun p => if fst p =? sink then p else (fst p, Some 0)) (b_so b)))
  end.
(* owmr_system(len(sys) - 1, node_order_in_system=sys, ...): sys = warehouse :: retailers *)
Definition owmr_system (sys : list nat) (lists : option (list nat)) (A : bargs) : bres :=
  if negb (guard_lists lists sys) then BErr EValue else
  let ord := match lists with Some l => l | None => sys end in
  let wh := hd 0 sys in
  match network_from_edges (map (fun r => (wh, r)) (tl sys)) (Some ord) A with
  | BErr e => BErr e
  | BOk b => BOk (mkB (wipe_demand (fun i => i =? wh) (bn b)) (b_hc b) (b_so b))
  end.
(* mwor_system(len(sys) - 1, node_order_in_system=sys, ...): sys = warehouses ++ [retailer] *)
Definition mwor_system (sys : list nat) (lists : option (list nat)) (A : bargs) : bres :=
  if negb (guard_lists lists sys) then BErr EValue else
  let ord := match lists with Some l => l | None => sys end in
  let ret := last sys 0 in
  match network_from_edges (map (fun x => (x, ret)) (removelast sys)) (Some ord) A with
  | BErr e => BErr e
  | BOk b => BOk (mkB (wipe_demand (fun i => memn i (removelast sys)) (bn b)) (b_hc b) (b_so b))
  end.

(* observation for the correspondence check *)
Definition obs_b (r : bres) :=
  match r with
  | BErr e => inr e
  | BOk b => inl (map (fun n => (nid n, preds n, succs n, prods n, (ext n, dem n))) (nodes (bn b)), nprods (bn b), (b_hc b, b_so b))
  end.

(* ---- specification vocabulary used by the theorems ------------------------------------------------------ *)
(* heads of the arcs leaving j / tails of the arcs entering j, in the order of the edge list *)
Definition out_of (es : list (nat * nat)) (j : nat) : list nat := map snd (filter (fun e => fst e =? j) es).
Definition in_of (es : list (nat * nat)) (j : nat) : list nat := map fst (filter (fun e => snd e =? j) es).
(* the node order used for list arguments *)
Definition the_order (es : list (nat * nat)) (order : option (list nat)) : list nat :=
  match order with None => sort_nat (nfe_ids es order) | Some o => o end.
(* successor / predecessor of a in a sequence without repetitions *)
Fixpoint next (sys : list nat) (a : nat) : option nat :=
  match sys with x :: ((y :: _) as r) => if x =? a then Some y else next r a | _ => None end.
Fixpoint prev (sys : list nat) (a : nat) : option nat :=
  match sys with x :: ((y :: _) as r) => if y =? a then Some x else prev r a | _ => None end.
(* demand decided by the arguments for a node that is entitled to demand: a given DemandSource wins, else any demand_type *)
Definition demand_at (A : bargs) (ord : list nat) (i : nat) : bool :=
  match data (a_ds A) ord i with Some b => b | None => is_some (data (a_dt A) ord i) end.
(* node_order_in_lists, when given, lists exactly the nodes of the system *)
Definition lists_ok (lists : option (list nat)) (sys : list nat) : Prop :=
  match lists with Some l => forall x, In x l <-> In x sys | None => True end.
