(* Proofs about Net/Builders.v: the builders produce exactly the documented arcs and attribute placement. *)
From SV Require Import Net.Graph Net.Graph_proofs Net.Builders.
Local Open Scope nat_scope.

(* ---------------------------------------------------------------------------------------------------------- *)
(* build_node_data_dict: the documented mapping of argument shapes to nodes *)
Lemma data_none {V} order n : @data V ANone order n = None. Proof. reflexivity. Qed.
Lemma data_scalar {V} (v : V) order n : data (AScalar v) order n = Some v. Proof. reflexivity. Qed.
Lemma data_dict_in {V} (d : list (nat * option V)) order n v :
  NoDup (map fst d) -> In (n, v) d -> data (ADict d) order n = v.
Proof. cbn [data]. induction d as [|[k x] r IH]; intros H Hin; [destruct Hin|]. cbn [find fst].
  inversion H; subst. destruct Hin as [Hin|Hin].
  - inversion Hin; subst. rewrite Nat.eqb_refl. reflexivity.
  - destruct (Nat.eqb_spec k n) as [E|E]; [|auto]. subst. exfalso. apply H2. change n with (fst (n, v)). apply in_map. exact Hin. Qed.
Lemma data_dict_missing {V} (d : list (nat * option V)) order n : ~ In n (map fst d) -> data (ADict d) order n = None.
Proof. cbn [data]. induction d as [|[k x] r IH]; intros H; [reflexivity|]. cbn [find fst].
  destruct (Nat.eqb_spec k n) as [E|E]; [subst; exfalso; apply H; left; reflexivity|]. apply IH. intros H1. apply H. right. exact H1. Qed.

Lemma find_app_last {A} (p : A -> bool) l x : p x = true -> (forall y, In y l -> p y = false) -> find p (l ++ [x]) = Some x.
Proof. intros Hx. induction l as [|y r IH]; intros H; cbn; [rewrite Hx; reflexivity|].
  rewrite (H y (or_introl eq_refl)). apply IH. intros z Hz. apply H. right. exact Hz. Qed.
Lemma find_app_some {A} (p : A -> bool) l l' x : find p l = Some x -> find p (l ++ l') = Some x.
Proof. induction l as [|y r IH]; cbn; [discriminate|]. destruct (p y); auto. Qed.
Lemma find_rev_nodup {V} (order : list nat) (l : list (option V)) k d :
  NoDup order -> length l = length order -> k < length order ->
  find (fun p => fst p =? nth k order d) (rev (combine order l)) = Some (nth k order d, nth k l None).
Proof. revert l k. induction order as [|x r IH]; intros l k H HL Hk; [cbn in Hk; lia|].
  destruct l as [|y l']; [cbn in HL; lia|]. cbn [combine rev]. inversion H; subst. cbn in HL.
  destruct k as [|k]; cbn [nth].
  - apply find_app_last; [cbn; apply Nat.eqb_refl|]. intros [a b] Hin. apply in_rev in Hin. apply in_combine_l in Hin.
    cbn. destruct (Nat.eqb_spec a x); [subst; contradiction|reflexivity].
  - cbn in Hk. rewrite find_app_some with (x := (nth k r d, nth k l' None)); [reflexivity|].
    apply IH; auto; lia. Qed.
(* list argument: slot k goes to node order[k] *)
Theorem data_list_slot {V} (l : list (option V)) order k d :
  NoDup order -> length l = length order -> k < length order ->
  data (AList l) order (nth k order d) = nth k l None.
Proof. intros H1 H2 H3. cbn [data]. rewrite (find_rev_nodup order l k d) by assumption. reflexivity. Qed.

(* sort_nat really sorts and permutes *)
Lemma insert_sorted_In x l y : In y (insert_sorted x l) <-> y = x \/ In y l.
Proof. induction l as [|z r IH]; cbn; [intuition|]. destruct (x <=? z); cbn; [intuition|]. rewrite IH. intuition. Qed.
Lemma sort_nat_In l y : In y (sort_nat l) <-> In y l.
Proof. induction l as [|x r IH]; [cbn; tauto|]. change (sort_nat (x :: r)) with (insert_sorted x (sort_nat r)).
  rewrite insert_sorted_In, IH. cbn. intuition. Qed.
Lemma insert_sorted_length x l : length (insert_sorted x l) = S (length l).
Proof. induction l as [|z r IH]; cbn; [reflexivity|]. destruct (x <=? z); cbn; [reflexivity|]. rewrite IH. reflexivity. Qed.
Lemma sort_nat_length l : length (sort_nat l) = length l.
Proof. induction l as [|x r IH]; [reflexivity|]. change (sort_nat (x :: r)) with (insert_sorted x (sort_nat r)).
  rewrite insert_sorted_length, IH. reflexivity. Qed.
Inductive sorted : list nat -> Prop :=
| sorted_nil : sorted []
| sorted_one x : sorted [x]
| sorted_cons x y r : x <= y -> sorted (y :: r) -> sorted (x :: y :: r).
Lemma insert_sorted_sorted x l : sorted l -> sorted (insert_sorted x l).
Proof. induction 1 as [|y|y z r Hyz Hs IH]; cbn.
  - constructor.
  - destruct (Nat.leb_spec x y); repeat constructor; lia.
  - destruct (Nat.leb_spec x y); [repeat constructor; auto|]. cbn in IH.
    destruct (Nat.leb_spec x z); repeat constructor; auto; lia. Qed.
Lemma sort_nat_sorted l : sorted (sort_nat l).
Proof. induction l as [|x r IH]; [constructor|]. change (sort_nat (x :: r)) with (insert_sorted x (sort_nat r)).
  apply insert_sorted_sorted. exact IH. Qed.

(* ---------------------------------------------------------------------------------------------------------- *)
(* network_from_edges: structure *)
Lemma findn_fresh l e d j : findn (map (fun i => fresh_node i e d) l) j = if memn j l then Some (fresh_node j e d) else None.
Proof. unfold findn, memn. induction l as [|x r IH]; cbn; [reflexivity|]. rewrite (Nat.eqb_sym j x).
  destruct (Nat.eqb_spec x j); [subst; reflexivity|]. exact IH. Qed.
Lemma Sof_fresh l e d j : Sof (map (fun i => fresh_node i e d) l) j = [].
Proof. unfold Sof. rewrite findn_fresh. destruct (memn j l); reflexivity. Qed.
Lemma Pof_fresh l e d j : Pof (map (fun i => fresh_node i e d) l) j = [].
Proof. unfold Pof. rewrite findn_fresh. destruct (memn j l); reflexivity. Qed.
Lemma idsL_fresh l e d : idsL (map (fun i => fresh_node i e d) l) = l.
Proof. unfold idsL. rewrite map_map. cbn. apply map_id. Qed.


Lemma link_all_spec es : forall w,
  (forall e, In e es -> In (fst e) (ids w) /\ In (snd e) (ids w)) ->
  ids (link_all es w) = ids w /\
  (forall j, Sof (nodes (link_all es w)) j = Sof (nodes w) j ++ out_of es j) /\
  (forall j, Pof (nodes (link_all es w)) j = Pof (nodes w) j ++ in_of es j) /\
  map attrs (nodes (link_all es w)) = map attrs (nodes w).
Proof. induction es as [|[a b] r IH]; intros w H.
  - cbn. split; [reflexivity|]. split; [|split]; intros; try rewrite app_nil_r; reflexivity.
  - destruct (H (a, b) (or_introl eq_refl)) as [Ha Hb]. cbn [fst snd] in Ha, Hb.
    unfold link_all. cbn [fold_left fst snd]. fold (link_all r (link w a b false false)).
    set (w1 := link w a b false false).
    assert (N1 : nodes w1 = map_node b (push_pred a) (map_node a (push_succ b) (nodes w))).
    { unfold w1, link. assert (Hh : has_node w b = true) by (apply has_node_In; exact Hb). rewrite Hh. reflexivity. }
    assert (I1 : ids w1 = ids w).
    { unfold ids. rewrite N1. fold (idsL (map_node b (push_pred a) (map_node a (push_succ b) (nodes w)))).
      rewrite !idsL_map_node by (apply nid_push_pred || apply nid_push_succ). reflexivity. }
    destruct (IH w1) as [E1 [E2 [E3 E4]]].
    { intros e He. rewrite I1. apply H. right. exact He. }
    split; [congruence|]. split; [|split].
    + intros j. rewrite E2, N1, Sof_link_both by exact Ha. unfold out_of. cbn [filter fst snd]. rewrite (Nat.eqb_sym a j).
      destruct (Nat.eqb_spec j a); [subst|]; cbn [map snd]; [rewrite <- app_assoc|]; reflexivity.
    + intros j. rewrite E3, N1, Pof_link_both by exact Hb. unfold in_of. cbn [filter fst snd]. rewrite (Nat.eqb_sym b j).
      destruct (Nat.eqb_spec j b); [subst|]; cbn [map fst]; [rewrite <- app_assoc|]; reflexivity.
    + rewrite E4, N1. rewrite !attrs_map_node; reflexivity. Qed.

Lemma findn_finish A ord l j : findn (map (finish_node A ord) l) j = option_map (finish_node A ord) (findn l j).
Proof. apply findn_map. reflexivity. Qed.
Lemma Sof_finish A ord l j : Sof (map (finish_node A ord) l) j = Sof l j.
Proof. unfold Sof. rewrite findn_finish. destruct (findn l j); reflexivity. Qed.
Lemma Pof_finish A ord l j : Pof (map (finish_node A ord) l) j = Pof l j.
Proof. unfold Pof. rewrite findn_finish. destruct (findn l j); reflexivity. Qed.
Lemma idsL_finish A ord l : idsL (map (finish_node A ord) l) = idsL l.
Proof. unfold idsL. rewrite map_map. reflexivity. Qed.

Lemma endpoints_In es x : In x (endpoints es) <-> exists e, In e es /\ (x = fst e \/ x = snd e).
Proof. unfold endpoints. rewrite in_flat_map. split; intros [e [H1 H2]]; exists e; (split; [exact H1|]); cbn in *; intuition. Qed.

Lemma ids_idsL w : idsL (nodes w) = ids w. Proof. reflexivity. Qed.


(* the structure built by network_from_edges *)
Theorem nfe_spec es order A b : network_from_edges es order A = BOk b ->
  let w := bn b in let ord := the_order es order in
  Inv w /\
  ids w = nfe_ids es order /\
  (forall j, succs_of w j = out_of es j) /\
  (forall j, preds_of w j = in_of es j) /\
  (forall n, In n (nodes w) -> ext n = is_nil (preds n) /\ dem n = demand_rule A ord n /\ prods n = [dummy_idx (nid n)]) /\
  (forall x, In x ord <-> In x (ids w)) /\
  b_hc b = map (fun i => (i, data (a_hc A) ord i)) (ids w) /\
  b_so b = map (fun i => (i, data (a_so A) ord i)) (ids w).
Proof. unfold network_from_edges. fold (the_order es order).
  set (idl := nfe_ids es order). set (ord := the_order es order).
  set (w0 := set_nodes empty_net (map (fun i => fresh_node i false false) idl)).
  destruct (same_set ord idl) eqn:SS; [|discriminate]. cbn [negb].
  destruct (arg_ok (a_hc A) ord && arg_ok (a_so A) ord && arg_ok (a_ds A) ord && arg_ok (a_dt A) ord); [|discriminate].
  cbn [negb]. intros H. inversion H; subst b; clear H. cbn zeta. cbn [bn b_hc b_so].
  assert (I0 : ids w0 = idl) by (unfold ids, w0; cbn [nodes set_nodes]; apply idsL_fresh).
  assert (Hend : forall e, In e es -> In (fst e) (ids w0) /\ In (snd e) (ids w0)).
  { intros e He. rewrite I0. unfold idl, nfe_ids. destruct es as [|e0 r]; [destruct He|].
    split; apply add_new_In; right; apply endpoints_In; exists e; auto. }
  destruct (link_all_spec es w0 Hend) as [E1 [E2 [E3 E4]]].
  assert (ND : NoDup idl).
  { unfold idl, nfe_ids. destruct es; [repeat constructor; intros []|]. apply add_new_NoDup. constructor. }
  assert (Iw : ids (rebuild (set_nodes (link_all es w0) (map (finish_node A ord) (nodes (link_all es w0))))) = idl).
  { unfold ids. cbn [nodes rebuild set_nodes]. fold (idsL (map (finish_node A ord) (nodes (link_all es w0)))).
    rewrite idsL_finish. rewrite ids_idsL. congruence. }
  assert (S1 : forall j, succs_of (rebuild (set_nodes (link_all es w0) (map (finish_node A ord) (nodes (link_all es w0))))) j = out_of es j).
  { intros j. unfold succs_of, find_node. cbn [nodes rebuild set_nodes]. fold (findn (map (finish_node A ord) (nodes (link_all es w0))) j).
    fold (Sof (map (finish_node A ord) (nodes (link_all es w0))) j). rewrite Sof_finish, E2. unfold w0. cbn [nodes set_nodes].
    rewrite Sof_fresh. reflexivity. }
  assert (P1 : forall j, preds_of (rebuild (set_nodes (link_all es w0) (map (finish_node A ord) (nodes (link_all es w0))))) j = in_of es j).
  { intros j. unfold preds_of, find_node. cbn [nodes rebuild set_nodes]. fold (findn (map (finish_node A ord) (nodes (link_all es w0))) j).
    fold (Pof (map (finish_node A ord) (nodes (link_all es w0))) j). rewrite Pof_finish, E3. unfold w0. cbn [nodes set_nodes].
    rewrite Pof_fresh. reflexivity. }
  split; [|split; [exact Iw|split; [exact S1|split; [exact P1|split; [|split; [|split; reflexivity]]]]]].
  - (* Inv *) unfold Inv. cbn [nodes rebuild set_nodes]. split; [|split].
    + rewrite idsL_finish, ids_idsL, E1, I0. exact ND.
    + intros x y. rewrite Sof_finish, Pof_finish, E2, E3. unfold w0. cbn [nodes set_nodes]. rewrite Sof_fresh, Pof_fresh. cbn [app].
      unfold out_of, in_of. clear. induction es as [|[a b] r IH]; [reflexivity|]. cbn [filter fst snd].
      destruct (Nat.eqb_spec a x), (Nat.eqb_spec b y); subst; cbn [map fst snd]; rewrite ?cnt_cons, ?IH;
        repeat match goal with |- context [?u =? ?v] => destruct (Nat.eqb_spec u v) end; try congruence; lia.
    + intros x y. rewrite Sof_finish, E2, idsL_finish, ids_idsL, E1. unfold w0 at 1. cbn [nodes set_nodes].
      rewrite Sof_fresh. cbn [app]. unfold out_of. intros Hy. apply in_map_iff in Hy. destruct Hy as [e [Ey He]].
      apply filter_In in He. destruct He as [He _]. subst. apply Hend. exact He.
  - intros n Hn. cbn [nodes rebuild set_nodes] in Hn. apply in_map_iff in Hn. destruct Hn as [n0 [En Hn0]]. subst n.
    cbn [finish_node ext dem preds prods nid]. split; [reflexivity|]. split; [reflexivity|].
    assert (Ha : In (attrs n0) (map attrs (nodes w0))) by (rewrite <- E4; apply in_map; exact Hn0).
    unfold w0 in Ha. cbn [nodes set_nodes] in Ha. rewrite map_map in Ha. apply in_map_iff in Ha. destruct Ha as [i [Ei _]].
    unfold attrs in Ei. cbn in Ei. inversion Ei. reflexivity.
  - intros x. rewrite Iw. unfold same_set in SS. apply andb_true_iff in SS. destruct SS as [SS1 SS2].
    rewrite forallb_forall in SS1, SS2. split; intros Hx; apply memn_In; auto. Qed.

Lemma out_in_cnt es a b : cnt (out_of es a) b = cntE es (a, b).
Proof. unfold out_of. induction es as [|[x y] r IH]; [reflexivity|]. cbn [filter fst snd count_occ].
  destruct (edge_dec (x, y) (a, b)) as [E|E].
  - inversion E; subst. rewrite Nat.eqb_refl. cbn [map snd]. rewrite cnt_cons, Nat.eqb_refl, IH. reflexivity.
  - destruct (Nat.eqb_spec x a); [subst|exact IH]. cbn [map snd]. rewrite cnt_cons, IH.
    destruct (Nat.eqb_spec y b); [subst; exfalso; apply E; reflexivity|reflexivity]. Qed.
(* exact arc multiset: the arcs of the built network are the given edges, with multiplicity *)
Theorem nfe_edges es order A b : network_from_edges es order A = BOk b ->
  forall x y, cntE (edges (bn b)) (x, y) = cntE es (x, y).
Proof. intros H x y. destruct (nfe_spec es order A b H) as [HI [_ [HS _]]].
  rewrite edges_view_cnt by exact HI. rewrite HS. apply out_in_cnt. Qed.

(* attribute-only maps keep the structure *)
Lemma findn_map_pres (f : node -> node) l j : (forall n, nid (f n) = nid n) -> findn (map f l) j = option_map f (findn l j).
Proof. apply findn_map. Qed.
Lemma wipe_struct wipe w :
  ids (wipe_demand wipe w) = ids w /\
  (forall j, succs_of (wipe_demand wipe w) j = succs_of w j) /\
  (forall j, preds_of (wipe_demand wipe w) j = preds_of w j) /\
  (forall j, prods_of (wipe_demand wipe w) j = prods_of w j) /\
  edges (wipe_demand wipe w) = edges w /\
  (Inv w -> Inv (wipe_demand wipe w)).
Proof. set (f := fun n => if wipe (nid n) then mkNode (nid n) (preds n) (succs n) (prods n) (ext n) false else n).
  assert (Hn : forall n, nid (f n) = nid n) by (intros n; unfold f; destruct (wipe (nid n)); reflexivity).
  assert (Hs : forall n, succs (f n) = succs n) by (intros n; unfold f; destruct (wipe (nid n)); reflexivity).
  assert (Hp : forall n, preds (f n) = preds n) by (intros n; unfold f; destruct (wipe (nid n)); reflexivity).
  assert (Hq : forall n, prods (f n) = prods n) by (intros n; unfold f; destruct (wipe (nid n)); reflexivity).
  assert (F : forall j, find_node (wipe_demand wipe w) j = option_map f (find_node w j)).
  { intros j. unfold find_node, wipe_demand. cbn [nodes set_nodes]. apply findn_map. exact Hn. }
  assert (I : ids (wipe_demand wipe w) = ids w).
  { unfold ids, wipe_demand. cbn [nodes set_nodes]. rewrite map_map. apply map_ext. exact Hn. }
  assert (S : forall j, succs_of (wipe_demand wipe w) j = succs_of w j).
  { intros j. unfold succs_of. rewrite F. destruct (find_node w j); cbn; auto. }
  assert (P : forall j, preds_of (wipe_demand wipe w) j = preds_of w j).
  { intros j. unfold preds_of. rewrite F. destruct (find_node w j); cbn; auto. }
  split; [exact I|]. split; [exact S|]. split; [exact P|]. split; [|split].
  - intros j. unfold prods_of. rewrite F. destruct (find_node w j); cbn; auto.
  - unfold edges, wipe_demand. cbn [nodes set_nodes]. rewrite flat_map_concat_map, map_map, <- flat_map_concat_map.
    apply flat_map_ext. intros n. destruct (wipe (nid n)); reflexivity.
  - intros HI. eapply InvL_ext; [| | |exact HI]; [exact I|exact S|exact P]. Qed.
Lemma wipe_nodes wipe w n : In n (nodes (wipe_demand wipe w)) ->
  exists n0, In n0 (nodes w) /\ nid n = nid n0 /\ preds n = preds n0 /\ succs n = succs n0 /\ prods n = prods n0 /\
             ext n = ext n0 /\ dem n = if wipe (nid n0) then false else dem n0.
Proof. unfold wipe_demand. cbn [nodes set_nodes]. intros H. apply in_map_iff in H. destruct H as [n0 [E H]]. exists n0.
  split; [exact H|]. subst n. destruct (wipe (nid n0)); cbn; repeat split; reflexivity. Qed.

(* ---------------------------------------------------------------------------------------------------------- *)
(* serial systems *)

Lemma chain_edges_endpoints sys e : In e (chain_edges sys) -> In (fst e) sys /\ In (snd e) sys.
Proof. revert e. induction sys as [|x r IH]; intros e H; [destruct H|]. destruct r as [|y r']; [destruct H|].
  cbn [chain_edges] in H. destruct H as [H|H]; [subst; cbn; auto|]. apply IH in H. cbn in *. intuition. Qed.
Lemma filter_nil {A} (p : A -> bool) l : (forall x, In x l -> p x = false) -> filter p l = [].
Proof. induction l as [|x r IH]; intros H; [reflexivity|]. cbn. rewrite (H x (or_introl eq_refl)). apply IH.
  intros y Hy. apply H. right. exact Hy. Qed.
Lemma out_chain_notin sys j : ~ In j sys -> out_of (chain_edges sys) j = [].
Proof. intros H. unfold out_of. rewrite filter_nil; [reflexivity|]. intros e He. apply chain_edges_endpoints in He.
  destruct (Nat.eqb_spec (fst e) j); [subst; tauto|reflexivity]. Qed.
Lemma in_chain_notin sys j : ~ In j sys -> in_of (chain_edges sys) j = [].
Proof. intros H. unfold in_of. rewrite filter_nil; [reflexivity|]. intros e He. apply chain_edges_endpoints in He.
  destruct (Nat.eqb_spec (snd e) j); [subst; tauto|reflexivity]. Qed.
Lemma chain_edges_cons2 x y r : chain_edges (x :: y :: r) = (x, y) :: chain_edges (y :: r). Proof. reflexivity. Qed.
Lemma next_cons2 x y r a : next (x :: y :: r) a = if x =? a then Some y else next (y :: r) a. Proof. reflexivity. Qed.
Lemma prev_cons2 x y r a : prev (x :: y :: r) a = if y =? a then Some x else prev (y :: r) a. Proof. reflexivity. Qed.
Lemma out_of_cons a b r j : out_of ((a, b) :: r) j = if a =? j then b :: out_of r j else out_of r j.
Proof. unfold out_of. cbn [filter fst]. destruct (a =? j); reflexivity. Qed.
Lemma in_of_cons a b r j : in_of ((a, b) :: r) j = if b =? j then a :: in_of r j else in_of r j.
Proof. unfold in_of. cbn [filter snd]. destruct (b =? j); reflexivity. Qed.
Lemma out_chain sys j : NoDup sys -> out_of (chain_edges sys) j = match next sys j with Some k => [k] | None => [] end.
Proof. induction sys as [|x r IH]; intros H; [reflexivity|]. destruct r as [|y r']; [reflexivity|].
  inversion H; subst. rewrite chain_edges_cons2, next_cons2, out_of_cons.
  destruct (Nat.eqb_spec x j) as [E|E].
  - subst. rewrite out_chain_notin by assumption. reflexivity.
  - apply IH. assumption. Qed.
Lemma in_chain sys j : NoDup sys -> in_of (chain_edges sys) j = match prev sys j with Some k => [k] | None => [] end.
Proof. induction sys as [|x r IH]; intros H; [reflexivity|]. destruct r as [|y r']; [reflexivity|].
  inversion H; subst. rewrite chain_edges_cons2, prev_cons2, in_of_cons.
  destruct (Nat.eqb_spec y j) as [E|E].
  - subst. f_equal. inversion H3; subst. destruct r' as [|z r'']; [reflexivity|]. rewrite chain_edges_cons2, in_of_cons.
    destruct (Nat.eqb_spec z j); [subst; exfalso; apply H4; left; reflexivity|]. apply in_chain_notin. exact H4.
  - apply IH. assumption. Qed.
Lemma prev_notin sys a : ~ In a (tl sys) -> prev sys a = None.
Proof. induction sys as [|x r IH]; intros H; [reflexivity|]. destruct r as [|y r']; [reflexivity|]. rewrite prev_cons2.
  cbn [tl] in *. destruct (Nat.eqb_spec y a); [subst; exfalso; apply H; left; reflexivity|]. apply IH. cbn [tl].
  intros Hc. apply H. right. exact Hc. Qed.
Lemma prev_none sys a d : NoDup sys -> In a sys -> (prev sys a = None <-> a = hd d sys).
Proof. intros H Ha. destruct sys as [|x r]; [destruct Ha|]. cbn [hd]. inversion H; subst. split.
  - intros Hp. destruct Ha as [Ha|Ha]; [auto|]. exfalso. clear H H2. revert x Hp. induction r as [|y r' IH]; intros x Hp; [destruct Ha|].
    rewrite prev_cons2 in Hp. destruct (Nat.eqb_spec y a); [discriminate|]. destruct Ha as [Ha|Ha]; [contradiction|].
    inversion H3; subst. eapply IH; eauto.
  - intros ->. apply prev_notin. exact H2. Qed.
Lemma last_In (d : nat) l : l <> [] -> In (last l d) l.
Proof. induction l as [|u l' IHl]; [congruence|]. intros _. destruct l' as [|v l'']; [left; reflexivity|]. right. apply IHl. discriminate. Qed.
Lemma next_none sys a d : NoDup sys -> In a sys -> (next sys a = None <-> a = last sys d).
Proof. induction sys as [|x r IH]; intros H Ha; [destruct Ha|]. destruct r as [|y r'].
  - destruct Ha as [Ha|[]]. subst. cbn. tauto.
  - inversion H; subst. cbn [next]. change (last (x :: y :: r') d) with (last (y :: r') d).
    destruct (Nat.eqb_spec x a) as [E|E].
    + subst. split; [discriminate|]. intros E. exfalso. apply H2. rewrite E. apply last_In. discriminate.
    + destruct Ha as [Ha|Ha]; [contradiction|]. apply IH; assumption. Qed.

Lemma add_new_cons S x r : add_new S (x :: r) = add_new (if memn x S then S else S ++ [x]) r.
Proof. reflexivity. Qed.
Lemma add_new_chain r : forall acc a, In a acc -> NoDup (acc ++ r) ->
  add_new acc (endpoints (chain_edges (a :: r))) = acc ++ r.
Proof. induction r as [|b r' IH]; intros acc a Ha H.
  - cbn. rewrite app_nil_r. reflexivity.
  - rewrite chain_edges_cons2. cbn [endpoints flat_map fst snd app]. rewrite !add_new_cons.
    assert (M1 : memn a acc = true) by (apply memn_In; exact Ha). rewrite M1.
    assert (M2 : memn b acc = false).
    { apply memn_false. intros Hb. apply NoDup_remove_2 in H. apply H. apply in_or_app. left. exact Hb. }
    rewrite M2. fold (endpoints (chain_edges (b :: r'))). rewrite IH.
    + rewrite <- app_assoc. reflexivity.
    + apply in_or_app. right. left. reflexivity.
    + rewrite <- app_assoc. exact H. Qed.
Lemma nfe_ids_chain sys lists : NoDup sys -> 2 <= length sys -> nfe_ids (chain_edges sys) lists = sys.
Proof. intros H HL. destruct sys as [|a [|b r]]; cbn in HL; try lia. unfold nfe_ids. rewrite chain_edges_cons2.
  cbn [endpoints flat_map fst snd app]. rewrite !add_new_cons. cbn [memn existsb app].
  inversion H; subst. assert (M : (a =? b) = false) by (apply Nat.eqb_neq; intros ->; apply H2; left; reflexivity).
  rewrite (Nat.eqb_sym b a), M. cbn [orb app]. fold (endpoints (chain_edges (b :: r))).
  rewrite add_new_chain; [reflexivity|right; left; reflexivity|exact H]. Qed.

(* demand placement decided by the arguments for a node that is entitled to demand *)
Lemma demand_rule_sink A ord n : succs n = [] -> demand_rule A ord n = demand_at A ord (nid n).
Proof. intros H. unfold demand_rule, demand_at. rewrite H. reflexivity. Qed.


Lemma node_lookup w n : Inv w -> In n (nodes w) -> preds n = preds_of w (nid n) /\ succs n = succs_of w (nid n).
Proof. intros HI Hn. destruct (index_lookup w HI) as [_ [L _]]. unfold preds_of, succs_of. rewrite (L n Hn). auto. Qed.

Lemma guard_lists_ok lists sys : guard_lists lists sys = true -> lists_ok lists sys.
Proof. destruct lists as [l|]; cbn; [|auto]. unfold same_set. intros H. apply andb_true_iff in H. destruct H as [H1 H2].
  rewrite forallb_forall in H1, H2. intros x. split; intros Hx; apply memn_In; auto. Qed.

Theorem serial_spec sys lists A b : NoDup sys -> sys <> [] ->
  serial_system sys lists A = BOk b ->
  let w := bn b in let ord := match lists with Some l => l | None => sys end in
  Inv w /\ ids w = sys /\
  (forall j, succs_of w j = match next sys j with Some k => [k] | None => [] end) /\
  (forall j, preds_of w j = match prev sys j with Some k => [k] | None => [] end) /\
  (forall x y, cntE (edges w) (x, y) = cntE (chain_edges sys) (x, y)) /\
  (forall n, In n (nodes w) ->
     (ext n = true <-> nid n = hd 0 sys) /\
     dem n = (if nid n =? last sys 0 then demand_at A ord (nid n) else false) /\
     prods n = [dummy_idx (nid n)]) /\
  b_hc b = map (fun i => (i, data (a_hc A) ord i)) sys /\
  b_so b = map (fun i => (i, if i =? last sys 0 then data (a_so A) ord i else Some 0)) sys.
Proof. intros ND NE. unfold serial_system. destruct (guard_lists lists sys) eqn:G; [|discriminate]. cbn [negb].
  pose proof (guard_lists_ok _ _ G) as LO. set (ord := match lists with Some l => l | None => sys end).
  destruct (network_from_edges (chain_edges sys) (Some ord) A) as [b0|e] eqn:E; [|discriminate].
  intros H. inversion H; subst b; clear H. cbn zeta. cbn [bn b_hc b_so].
  destruct (nfe_spec _ _ _ _ E) as [HI [I1 [S1 [P1 [N1 [O1 [H1 H2]]]]]]]. cbn [the_order] in N1, O1, H1, H2.
  assert (Iw : ids (bn b0) = sys).
  { rewrite I1. destruct sys as [|a [|c r]]; [congruence| |apply nfe_ids_chain; [exact ND|cbn; lia]].
    cbn [chain_edges nfe_ids]. specialize (O1 a). rewrite I1 in O1. cbn [chain_edges nfe_ids] in O1.
    assert (Ha : In a ord). { unfold ord. destruct lists as [l|]; [apply LO|]; left; reflexivity. }
    apply O1 in Ha. destruct Ha as [Ha|[]]. rewrite Ha. reflexivity. }
  destruct (wipe_struct (fun i => negb (i =? last sys 0)) (bn b0)) as [W1 [W2 [W3 [_ [W5 W6]]]]].
  split; [apply W6; exact HI|]. split; [congruence|]. split; [|split; [|split; [|split; [|split]]]].
  - intros j. rewrite W2, S1. apply out_chain. exact ND.
  - intros j. rewrite W3, P1. apply in_chain. exact ND.
  - intros x y. rewrite W5. eapply nfe_edges. exact E.
  - intros n Hn. apply wipe_nodes in Hn. destruct Hn as [n0 [Hn0 [En [Ep [Es [Eq [Ee Ed]]]]]]].
    destruct (N1 n0 Hn0) as [X1 [X2 X3]]. destruct (node_lookup _ _ HI Hn0) as [L1 L2].
    assert (Hin : In (nid n0) sys). { rewrite <- Iw. unfold ids. apply in_map. exact Hn0. }
    rewrite En, Ee, Ed, Eq. split; [|split; [|exact X3]].
    + rewrite X1, L1, P1, in_chain by exact ND. rewrite <- (prev_none sys (nid n0) 0 ND Hin).
      destruct (prev sys (nid n0)); cbn; split; congruence.
    + destruct (Nat.eqb_spec (nid n0) (last sys 0)) as [El|El]; cbn [negb]; [|reflexivity].
      rewrite X2. apply demand_rule_sink. rewrite L2, S1, out_chain by exact ND.
      apply (next_none sys (nid n0) 0 ND Hin) in El. rewrite El. reflexivity.
  - rewrite H1, Iw. reflexivity.
  - rewrite H2, Iw, map_map. apply map_ext. intros i. cbn [fst]. destruct (i =? last sys 0); reflexivity. Qed.

(* ---------------------------------------------------------------------------------------------------------- *)
(* one-warehouse multi-retailer systems *)
Lemma add_new_star wh rs : forall acc, In wh acc -> NoDup (acc ++ rs) ->
  add_new acc (endpoints (map (fun r => (wh, r)) rs)) = acc ++ rs.
Proof. induction rs as [|r rs' IH]; intros acc Ha H.
  - cbn. rewrite app_nil_r. reflexivity.
  - cbn [map endpoints flat_map fst snd app]. rewrite !add_new_cons.
    assert (M1 : memn wh acc = true) by (apply memn_In; exact Ha). rewrite M1.
    assert (M2 : memn r acc = false).
    { apply memn_false. intros Hb. apply NoDup_remove_2 in H. apply H. apply in_or_app. left. exact Hb. }
    rewrite M2. fold (endpoints (map (fun r0 => (wh, r0)) rs')). rewrite IH.
    + rewrite <- app_assoc. reflexivity.
    + apply in_or_app. left. exact Ha.
    + rewrite <- app_assoc. exact H. Qed.
Lemma out_star wh rs j : out_of (map (fun r => (wh, r)) rs) j = if wh =? j then rs else [].
Proof. induction rs as [|r rs' IH]; [destruct (wh =? j); reflexivity|]. cbn [map]. rewrite out_of_cons, IH.
  destruct (wh =? j); reflexivity. Qed.
Lemma in_star wh rs j : NoDup rs -> in_of (map (fun r => (wh, r)) rs) j = if memn j rs then [wh] else [].
Proof. induction rs as [|r rs' IH]; intros H; [reflexivity|]. cbn [map]. rewrite in_of_cons. inversion H; subst.
  rewrite IH by assumption. cbn [memn existsb]. rewrite (Nat.eqb_sym j r). destruct (Nat.eqb_spec r j); [subst|reflexivity].
  cbn [orb]. fold (memn j rs'). assert (M : memn j rs' = false) by (apply memn_false; exact H2). rewrite M. reflexivity. Qed.

Theorem owmr_spec wh rs lists A b : NoDup (wh :: rs) -> rs <> [] ->
  owmr_system (wh :: rs) lists A = BOk b ->
  let w := bn b in let ord := match lists with Some l => l | None => wh :: rs end in
  Inv w /\ ids w = wh :: rs /\
  succs_of w wh = rs /\ preds_of w wh = [] /\
  (forall r, In r rs -> succs_of w r = [] /\ preds_of w r = [wh]) /\
  (forall x y, cntE (edges w) (x, y) = cntE (map (fun r => (wh, r)) rs) (x, y)) /\
  (forall n, In n (nodes w) ->
     (ext n = true <-> nid n = wh) /\
     dem n = (if nid n =? wh then false else demand_at A ord (nid n)) /\
     prods n = [dummy_idx (nid n)]) /\
  b_hc b = map (fun i => (i, data (a_hc A) ord i)) (wh :: rs) /\
  b_so b = map (fun i => (i, data (a_so A) ord i)) (wh :: rs).
Proof. intros ND NE. unfold owmr_system. destruct (guard_lists lists (wh :: rs)) eqn:G; [|discriminate]. cbn [negb hd tl].
  pose proof (guard_lists_ok _ _ G) as LO. set (ord := match lists with Some l => l | None => wh :: rs end).
  destruct (network_from_edges (map (fun r => (wh, r)) rs) (Some ord) A) as [b0|e] eqn:E; [|discriminate].
  intros H. inversion H; subst b; clear H. cbn zeta. cbn [bn b_hc b_so].
  destruct (nfe_spec _ _ _ _ E) as [HI [I1 [S1 [P1 [N1 [O1 [H1 H2]]]]]]]. cbn [the_order] in N1, O1, H1, H2.
  inversion ND as [|? ? Hwh NDr]; subst.
  assert (Iw : ids (bn b0) = wh :: rs).
  { rewrite I1. destruct rs as [|r rs']; [congruence|]. unfold nfe_ids. cbn [map endpoints flat_map fst snd app].
    rewrite !add_new_cons. cbn [memn existsb app]. assert (M : (r =? wh) = false).
    { apply Nat.eqb_neq. intros ->. apply Hwh. left. reflexivity. } rewrite M. cbn [orb app].
    fold (endpoints (map (fun r0 => (wh, r0)) rs')). rewrite add_new_star; [reflexivity|left; reflexivity|exact ND]. }
  destruct (wipe_struct (fun i => i =? wh) (bn b0)) as [W1 [W2 [W3 [_ [W5 W6]]]]].
  assert (Mwh : memn wh rs = false) by (apply memn_false; exact Hwh).
  split; [apply W6; exact HI|]. split; [congruence|]. split; [|split; [|split; [|split; [|split; [|split]]]]].
  - rewrite W2, S1, out_star, Nat.eqb_refl. reflexivity.
  - rewrite W3, P1, in_star, Mwh by exact NDr. reflexivity.
  - intros r Hr. rewrite W2, W3, S1, P1, out_star, in_star by exact NDr.
    assert (M : memn r rs = true) by (apply memn_In; exact Hr). rewrite M.
    destruct (Nat.eqb_spec wh r); [subst; contradiction|]. auto.
  - intros x y. rewrite W5. eapply nfe_edges. exact E.
  - intros n Hn. apply wipe_nodes in Hn. destruct Hn as [n0 [Hn0 [En [Ep [Es [Eq [Ee Ed]]]]]]].
    destruct (N1 n0 Hn0) as [X1 [X2 X3]]. destruct (node_lookup _ _ HI Hn0) as [L1 L2].
    assert (Hin : In (nid n0) (wh :: rs)). { rewrite <- Iw. unfold ids. apply in_map. exact Hn0. }
    rewrite En, Ee, Ed, Eq. split; [|split; [|exact X3]].
    + rewrite X1, L1, P1, in_star by exact NDr. destruct Hin as [Hin|Hin].
      * rewrite <- Hin, Mwh. cbn. tauto.
      * assert (M : memn (nid n0) rs = true) by (apply memn_In; exact Hin). rewrite M. cbn.
        split; [discriminate|]. intros Hc. rewrite Hc in Hin. contradiction.
    + destruct (Nat.eqb_spec (nid n0) wh) as [El|El]; [reflexivity|]. destruct Hin as [Hin|Hin]; [congruence|].
      rewrite X2. apply demand_rule_sink. rewrite L2, S1, out_star. destruct (Nat.eqb_spec wh (nid n0)); [congruence|reflexivity].
  - rewrite H1, Iw. reflexivity.
  - rewrite H2, Iw. reflexivity. Qed.

(* ---------------------------------------------------------------------------------------------------------- *)
(* multi-warehouse one-retailer systems *)
Lemma add_new_costar ret ws : forall acc, In ret acc -> NoDup (acc ++ ws) ->
  add_new acc (endpoints (map (fun x => (x, ret)) ws)) = acc ++ ws.
Proof. induction ws as [|x ws' IH]; intros acc Ha H.
  - cbn. rewrite app_nil_r. reflexivity.
  - cbn [map endpoints flat_map fst snd app]. rewrite !add_new_cons.
    assert (M2 : memn x acc = false).
    { apply memn_false. intros Hb. apply NoDup_remove_2 in H. apply H. apply in_or_app. left. exact Hb. }
    rewrite M2. assert (M1 : memn ret (acc ++ [x]) = true) by (apply memn_In; apply in_or_app; left; exact Ha). rewrite M1.
    fold (endpoints (map (fun x0 => (x0, ret)) ws')). rewrite IH.
    + rewrite <- app_assoc. reflexivity.
    + apply in_or_app. left. exact Ha.
    + rewrite <- app_assoc. exact H. Qed.
Lemma in_costar ret ws j : in_of (map (fun x => (x, ret)) ws) j = if ret =? j then ws else [].
Proof. induction ws as [|r rs' IH]; [destruct (ret =? j); reflexivity|]. cbn [map]. rewrite in_of_cons, IH.
  destruct (ret =? j); reflexivity. Qed.
Lemma out_costar ret ws j : NoDup ws -> out_of (map (fun x => (x, ret)) ws) j = if memn j ws then [ret] else [].
Proof. induction ws as [|r rs' IH]; intros H; [reflexivity|]. cbn [map]. rewrite out_of_cons. inversion H; subst.
  rewrite IH by assumption. cbn [memn existsb]. rewrite (Nat.eqb_sym j r). destruct (Nat.eqb_spec r j); [subst|reflexivity].
  cbn [orb]. fold (memn j rs'). assert (M : memn j rs' = false) by (apply memn_false; exact H2). rewrite M. reflexivity. Qed.

Theorem mwor_spec ws ret lists A b : NoDup (ws ++ [ret]) -> ws <> [] ->
  mwor_system (ws ++ [ret]) lists A = BOk b ->
  let w := bn b in let ord := match lists with Some l => l | None => ws ++ [ret] end in
  Inv w /\ ids w = hd 0 ws :: ret :: tl ws /\
  preds_of w ret = ws /\ succs_of w ret = [] /\
  (forall x, In x ws -> succs_of w x = [ret] /\ preds_of w x = []) /\
  (forall x y, cntE (edges w) (x, y) = cntE (map (fun x => (x, ret)) ws) (x, y)) /\
  (forall n, In n (nodes w) ->
     (ext n = true <-> nid n <> ret) /\
     dem n = (if nid n =? ret then demand_at A ord (nid n) else false) /\
     prods n = [dummy_idx (nid n)]) /\
  b_hc b = map (fun i => (i, data (a_hc A) ord i)) (hd 0 ws :: ret :: tl ws) /\
  b_so b = map (fun i => (i, data (a_so A) ord i)) (hd 0 ws :: ret :: tl ws).
Proof. intros ND NE. unfold mwor_system. destruct (guard_lists lists (ws ++ [ret])) eqn:G; [|discriminate]. cbn [negb].
  pose proof (guard_lists_ok _ _ G) as LO. rewrite removelast_last, last_last.
  set (ord := match lists with Some l => l | None => ws ++ [ret] end).
  destruct (network_from_edges (map (fun x => (x, ret)) ws) (Some ord) A) as [b0|e] eqn:E; [|discriminate].
  intros H. inversion H; subst b; clear H. cbn zeta. cbn [bn b_hc b_so].
  destruct (nfe_spec _ _ _ _ E) as [HI [I1 [S1 [P1 [N1 [O1 [H1 H2]]]]]]]. cbn [the_order] in N1, O1, H1, H2.
  assert (NDw : NoDup ws) by (apply NoDup_remove_1 in ND; rewrite app_nil_r in ND; exact ND).
  assert (Hret : ~ In ret ws).
  { intros Hc. apply NoDup_remove_2 in ND. rewrite app_nil_r in ND. contradiction. }
  assert (Iw : ids (bn b0) = hd 0 ws :: ret :: tl ws).
  { rewrite I1. destruct ws as [|x ws']; [congruence|]. unfold nfe_ids. cbn [map endpoints flat_map fst snd app hd tl].
    rewrite !add_new_cons. cbn [memn existsb app]. assert (M : (ret =? x) = false).
    { apply Nat.eqb_neq. intros ->. apply Hret. left. reflexivity. } rewrite M. cbn [orb app].
    fold (endpoints (map (fun x0 => (x0, ret)) ws')). rewrite add_new_costar; [reflexivity|right; left; reflexivity|].
    inversion NDw; subst. cbn [app]. constructor.
    - intros [Hc|Hc]; [subst; apply Hret; left; reflexivity|contradiction].
    - constructor; [|assumption]. intros Hc. apply Hret. right. exact Hc. }
  destruct (wipe_struct (fun i => memn i ws) (bn b0)) as [W1 [W2 [W3 [_ [W5 W6]]]]].
  assert (Mret : memn ret ws = false) by (apply memn_false; exact Hret).
  split; [apply W6; exact HI|]. split; [congruence|]. split; [|split; [|split; [|split; [|split; [|split]]]]].
  - rewrite W3, P1, in_costar, Nat.eqb_refl. reflexivity.
  - rewrite W2, S1, out_costar, Mret by exact NDw. reflexivity.
  - intros x Hx. rewrite W2, W3, S1, P1, out_costar, in_costar by exact NDw.
    assert (M : memn x ws = true) by (apply memn_In; exact Hx). rewrite M.
    destruct (Nat.eqb_spec ret x); [subst; contradiction|]. auto.
  - intros x y. rewrite W5. eapply nfe_edges. exact E.
  - intros n Hn. apply wipe_nodes in Hn. destruct Hn as [n0 [Hn0 [En [Ep [Es [Eq [Ee Ed]]]]]]].
    destruct (N1 n0 Hn0) as [X1 [X2 X3]]. destruct (node_lookup _ _ HI Hn0) as [L1 L2].
    assert (Hin : nid n0 = ret \/ In (nid n0) ws).
    { assert (Hi : In (nid n0) (ids (bn b0))) by (unfold ids; apply in_map; exact Hn0). rewrite Iw in Hi.
      clear - Hi NE. destruct ws as [|x ws']; [congruence|]. cbn [hd tl] in Hi. cbn [In].
      destruct Hi as [Hi|[Hi|Hi]]; [right; left; exact Hi|left; symmetry; exact Hi|right; right; exact Hi]. }
    rewrite En, Ee, Ed, Eq. split; [|split; [|exact X3]].
    + rewrite X1, L1, P1, in_costar. destruct Hin as [Hin|Hin].
      * rewrite Hin, Nat.eqb_refl. destruct ws; [congruence|]. cbn. split; [discriminate|congruence].
      * destruct (Nat.eqb_spec ret (nid n0)) as [Er|Er]; [rewrite <- Er in Hin; contradiction|]. cbn. split; auto.
    + destruct Hin as [Hin|Hin].
      * rewrite Hin, Mret, Nat.eqb_refl. rewrite X2. rewrite <- Hin. apply demand_rule_sink.
        rewrite L2, S1, out_costar by exact NDw. rewrite Hin, Mret. reflexivity.
      * assert (M : memn (nid n0) ws = true) by (apply memn_In; exact Hin). rewrite M.
        destruct (Nat.eqb_spec (nid n0) ret) as [Er|Er]; [rewrite Er in Hin; contradiction|reflexivity].
  - rewrite H1, Iw. reflexivity.
  - rewrite H2, Iw. reflexivity. Qed.

(* ---------------------------------------------------------------------------------------------------------- *)
(* single-stage systems *)
Theorem single_stage_spec i A b : single_stage_system i A = BOk b ->
  let w := bn b in
  Inv w /\ ids w = [i] /\ edges w = [] /\
  (forall n, In n (nodes w) -> nid n = i /\ preds n = [] /\ succs n = [] /\ ext n = true /\ dem n = demand_at A [i] i /\
     prods n = [dummy_idx i]) /\
  b_hc b = [(i, data (a_hc A) [i] i)] /\ b_so b = [(i, data (a_so A) [i] i)].
Proof. unfold single_stage_system. intros E. destruct (nfe_spec _ _ _ _ E) as [HI [I1 [S1 [P1 [N1 [O1 [H1 H2]]]]]]].
  cbn [the_order nfe_ids] in *. cbn zeta.
  assert (Hn : forall n, In n (nodes (bn b)) -> nid n = i).
  { intros n Hn. assert (Hi : In (nid n) (ids (bn b))) by (unfold ids; apply in_map; exact Hn). rewrite I1 in Hi.
    destruct Hi as [Hi|[]]. auto. }
  split; [exact HI|]. split; [exact I1|]. split; [|split; [|split]].
  - destruct (edges (bn b)) as [|[x y] r] eqn:Ee; [reflexivity|]. exfalso.
    assert (Hin : In (x, y) (edges (bn b))) by (rewrite Ee; left; reflexivity).
    apply edges_view in Hin; [|exact HI]. rewrite S1 in Hin. destruct Hin.
  - intros n Hin. pose proof (Hn n Hin) as En. destruct (N1 n Hin) as [X1 [X2 X3]].
    destruct (node_lookup _ _ HI Hin) as [L1 L2]. rewrite P1 in L1. rewrite S1 in L2. cbn in L1, L2.
    split; [exact En|]. split; [exact L1|]. split; [exact L2|]. split; [rewrite X1, L1; reflexivity|].
    split; [rewrite X2, <- En; apply demand_rule_sink; exact L2|rewrite X3, En; reflexivity].
  - rewrite H1, I1. reflexivity.
  - rewrite H2, I1. reflexivity. Qed.

(* final statements used by Props/C18.v *)
Theorem nfe_final es order A b : network_from_edges es order A = BOk b ->
  let w := bn b in let ord := the_order es order in
  ids w = nfe_ids es order /\
  (forall j, succs_of w j = out_of es j) /\ (forall j, preds_of w j = in_of es j) /\
  (forall x y, count_occ edge_dec (edges w) (x, y) = count_occ edge_dec es (x, y)) /\
  (forall n, In n (nodes w) -> ext n = is_nil (preds n) /\ dem n = demand_rule A ord n /\ prods n = [dummy_idx (nid n)]) /\
  (forall x, In x ord <-> In x (ids w)) /\
  b_hc b = map (fun i => (i, data (a_hc A) ord i)) (ids w) /\
  b_so b = map (fun i => (i, data (a_so A) ord i)) (ids w).
Proof. intros H. destruct (nfe_spec es order A b H) as [_ [H1 [H2 [H3 [H4 [H5 [H6 H7]]]]]]]. cbn zeta.
  split; [exact H1|]. split; [exact H2|]. split; [exact H3|]. split; [exact (nfe_edges es order A b H)|].
  split; [exact H4|]. split; [exact H5|]. split; [exact H6|exact H7]. Qed.
Theorem demand_at_scalar A ord i :
  (forall t, a_ds A = ANone -> a_dt A = AScalar t -> demand_at A ord i = true) /\
  (a_ds A = AScalar true -> demand_at A ord i = true) /\
  (a_ds A = ANone -> a_dt A = ANone -> demand_at A ord i = false).
Proof. unfold demand_at. split; [|split].
  - intros t H1 H2. rewrite H1, H2. reflexivity.
  - intros H1. rewrite H1. reflexivity.
  - intros H1 H2. rewrite H1, H2. reflexivity. Qed.

Theorem lists_checked sys l A :
  (exists x, (In x l /\ ~ In x sys) \/ (In x sys /\ ~ In x l)) ->
  serial_system sys (Some l) A = BErr EValue /\ owmr_system sys (Some l) A = BErr EValue /\ mwor_system sys (Some l) A = BErr EValue.
Proof. intros [x Hx]. assert (G : guard_lists (Some l) sys = false).
  { cbn. destruct (same_set l sys) eqn:S; [|reflexivity]. exfalso.
    pose proof (guard_lists_ok (Some l) sys S) as LO. cbn in LO. specialize (LO x). tauto. }
  unfold serial_system, owmr_system, mwor_system. rewrite G. auto. Qed.
