(* Proofs about Placement.v: after the loop of network_from_edges no two nodes hold the same Policy /
   DisruptionProcess object, every policy's .node is the node holding it, the first node offered an object keeps
   the caller's own object, and the VALUES placed are those of the Builders model ([data]). *)
From SV Require Import Net.Graph Net.Graph_proofs Net.Builders Net.Builders_proofs.
From SV Require Import Net.Placement.
Local Open Scope nat_scope.

(* ---------------------------------------------------------------------------------------------------------- *)
(* association lists *)
Lemma lookup_In {B} k (v : B) l : lookup k l = Some v -> In (k, v) l.
Proof. induction l as [|[k' v'] r IH]; cbn; [discriminate|]. destruct (Nat.eqb_spec k' k) as [E|E]; intros H.
  - inversion H; subst. left. reflexivity.
  - right. apply IH. exact H. Qed.
Lemma In_lookup {B} k (v : B) l : NoDup (map fst l) -> In (k, v) l -> lookup k l = Some v.
Proof. induction l as [|[k' v'] r IH]; intros Hnd Hin; [destruct Hin|]. cbn. inversion Hnd as [|x y Hx Hr]; subst.
  destruct Hin as [Hin|Hin].
  - inversion Hin; subst. rewrite Nat.eqb_refl. reflexivity.
  - destruct (Nat.eqb_spec k' k) as [E|E]; [|auto]. subst. exfalso. apply Hx. change k with (fst (k, v)).
    apply in_map. exact Hin. Qed.
Lemma combine_fst {A B} (l : list A) (l' : list B) : length l = length l' -> map fst (combine l l') = l.
Proof. revert l'. induction l as [|x r IH]; intros [|y r'] H; cbn in *; try reflexivity; try discriminate.
  f_equal. apply IH. lia. Qed.
Lemma combine_snd {A B} (l : list A) (l' : list B) : length l = length l' -> map snd (combine l l') = l'.
Proof. revert l'. induction l as [|x r IH]; intros [|y r'] H; cbn in *; try reflexivity; try discriminate.
  f_equal. apply IH. lia. Qed.
Lemma NoDup_snd_inj (h : list (nat * oid)) n1 n2 p : NoDup (map snd h) -> In (n1, p) h -> In (n2, p) h -> n1 = n2.
Proof. induction h as [|[m q] r IH]; intros Hnd H1 H2; [destruct H1|]. cbn in Hnd. inversion Hnd as [|x y Hx Hr]; subst.
  assert (Hno : forall k, In (k, q) r -> False).
  { intros k Hk. apply Hx. change q with (snd (k, q)). apply in_map. exact Hk. }
  destruct H1 as [H1|H1]; destruct H2 as [H2|H2].
  - congruence.
  - inversion H1; subst. exfalso. eapply Hno. exact H2.
  - inversion H2; subst. exfalso. eapply Hno. exact H1.
  - auto. Qed.

(* ---------------------------------------------------------------------------------------------------------- *)
(* n.inventory_policy = p *)
Lemma set_held_fst n p h : map fst (set_held n p h) = map fst h.
Proof. unfold set_held. rewrite map_map. apply map_ext. intros [m q]. cbn [fst]. destruct (Nat.eqb_spec m n); [subst|]; reflexivity. Qed.
Lemma set_held_In n p h m q : In (m, q) (set_held n p h) -> (m = n /\ q = p) \/ (m <> n /\ In (m, q) h).
Proof. unfold set_held. rewrite in_map_iff. intros [[m' q'] [E Hin]]. cbn [fst] in E.
  destruct (Nat.eqb_spec m' n) as [E'|E'].
  - inversion E; subst. left. split; reflexivity.
  - inversion E; subst. right. split; assumption. Qed.
Lemma set_held_new n p h : In n (map fst h) -> In (n, p) (set_held n p h).
Proof. intros Hin. apply in_map_iff in Hin as [[m q] [E Hin]]. cbn in E. subst m. unfold set_held. apply in_map_iff.
  exists (n, q). split; [|exact Hin]. cbn [fst]. rewrite Nat.eqb_refl. reflexivity. Qed.
Lemma set_held_other n p h m q : m <> n -> In (m, q) h -> In (m, q) (set_held n p h).
Proof. intros Hne Hin. unfold set_held. apply in_map_iff. exists (m, q). split; [|exact Hin]. cbn [fst].
  destruct (Nat.eqb_spec m n); [contradiction|reflexivity]. Qed.
Lemma set_held_absent n p h : ~ In n (map fst h) -> set_held n p h = h.
Proof. induction h as [|[m q] r IH]; intros H; [reflexivity|]. cbn. destruct (Nat.eqb_spec m n) as [E|E].
  - exfalso. apply H. left. exact E.
  - f_equal. apply IH. intros H1. apply H. right. exact H1. Qed.
Lemma set_held_snd_NoDup n p h :
  NoDup (map fst h) -> NoDup (map snd h) -> (forall m q, In (m, q) h -> m <> n -> q <> p) ->
  NoDup (map snd (set_held n p h)).
Proof. induction h as [|[m q] r IH]; intros Hf Hs Hfree; [constructor|].
  cbn in Hf, Hs. inversion Hf as [|x y Hfx Hfr]; subst. inversion Hs as [|x y Hsx Hsr]; subst.
  assert (Hfree' : forall m' q', In (m', q') r -> m' <> n -> q' <> p).
  { intros m' q' Hin. apply Hfree. right. exact Hin. }
  cbn [set_held map fst]. destruct (Nat.eqb_spec m n) as [E|E].
  - subst m. change (map (fun q0 => if fst q0 =? n then (n, p) else q0) r) with (set_held n p r).
    rewrite set_held_absent by exact Hfx. cbn [snd]. constructor; [|exact Hsr].
    intros Hin. apply in_map_iff in Hin as [[m' q'] [E' Hin]]. cbn in E'. subst q'.
    apply (Hfree' m' p Hin); [|reflexivity]. intros ->. apply Hfx. change n with (fst (n, p)). apply in_map. exact Hin.
  - change (map (fun q0 => if fst q0 =? n then (n, p) else q0) r) with (set_held n p r). cbn [snd]. constructor.
    + intros Hin. apply in_map_iff in Hin as [[m' q'] [E' Hin]]. cbn in E'. subst q'.
      apply set_held_In in Hin as [[_ Hq]|[_ Hin]].
      * apply (Hfree m q (or_introl eq_refl) E). exact Hq.
      * apply Hsx. change q with (snd (m', q)). apply in_map. exact Hin.
    + apply IH; assumption. Qed.
Lemma held_elsewhere_false n o h : held_elsewhere n o h = false -> forall m q, In (m, q) h -> m <> n -> q <> o.
Proof. intros H m q Hin Hne ->. assert (Ht : held_elsewhere n o h = true).
  { apply existsb_exists. exists (m, o). split; [exact Hin|]. cbn [fst snd].
    destruct (Nat.eqb_spec m n); [contradiction|]. rewrite Nat.eqb_refl. reflexivity. }
  congruence. Qed.
Lemma held_elsewhere_true n o h : held_elsewhere n o h = true -> exists m, m <> n /\ In (m, o) h.
Proof. intros H. apply existsb_exists in H as [[m q] [Hin H]]. cbn [fst snd] in H. apply andb_true_iff in H as [H1 H2].
  apply Nat.eqb_eq in H2. subst q. exists m. split; [|exact Hin]. intros ->. rewrite Nat.eqb_refl in H1. discriminate. Qed.

(* ---------------------------------------------------------------------------------------------------------- *)
(* every object offered by the argument has an identity below base *)
Lemma data_In_ids (a : arg oid) order n o : data a order n = Some o -> In o (arg_ids a).
Proof. destruct a as [|v|l|d]; cbn [data arg_ids]; intros H.
  - discriminate.
  - inversion H. left. reflexivity.
  - destruct (find (fun p => fst p =? n) (rev (combine order l))) as [[k x]|] eqn:F; [|discriminate]. cbn in H. subst x.
    apply find_some in F as [F _]. apply in_rev in F. apply in_combine_r in F. apply in_flat_map.
    exists (Some o). split; [exact F|left; reflexivity].
  - destruct (find (fun p => fst p =? n) d) as [[k x]|] eqn:F; [|discriminate]. cbn in H. subst x.
    apply find_some in F as [F _]. apply in_flat_map. exists (k, Some o). split; [exact F|left; reflexivity]. Qed.
Lemma data_lt_base (a : arg oid) order n o : data a order n = Some o -> o < base a.
Proof. intros H. apply data_In_ids in H. unfold base.
  assert (HF : Forall (fun k => k <= list_max (arg_ids a)) (arg_ids a)) by (apply list_max_le; lia).
  rewrite Forall_forall in HF. specialize (HF o H). lia. Qed.

(* the argument seen through a value function is the Builders argument of the values *)
Lemma combine_map_r {A B C} (g : B -> C) (l1 : list A) (l2 : list B) :
  combine l1 (map g l2) = map (fun p => (fst p, g (snd p))) (combine l1 l2).
Proof. revert l2. induction l1 as [|x r IH]; intros [|y r']; cbn; try reflexivity. f_equal. apply IH. Qed.
Lemma find_map_val {U V} (f : U -> V) n (L : list (nat * option U)) :
  join (option_map snd (find (fun p => fst p =? n) (map (fun p => (fst p, option_map f (snd p))) L)))
  = option_map f (join (option_map snd (find (fun p => fst p =? n) L))).
Proof. induction L as [|[k x] r IH]; [reflexivity|]. cbn. destruct (k =? n); [reflexivity|exact IH]. Qed.
Lemma data_arg_map {U V} (f : U -> V) (a : arg U) order n : data (arg_map f a) order n = option_map f (data a order n).
Proof. destruct a as [|v|l|d]; cbn [data arg_map]; try reflexivity.
  - rewrite combine_map_r, <- map_rev. apply find_map_val.
  - apply find_map_val. Qed.

(* ---------------------------------------------------------------------------------------------------------- *)
Section Place.
Variable a : arg oid.
Variable order : list nat.

(* what holds of an entry "node m holds object p" once the nodes [dn] have been processed *)
Definition good (dn : list nat) (s : pstate) (m : nat) (p : oid) : Prop :=
  p < p_next s
  /\ lookup p (p_store s) = Some m
  /\ (base a <= p \/ (In m dn /\ data a order m = Some p))
  /\ (In m dn -> forall o, data a order m = Some o -> orig_of (p_orig s) p = o).
(* loop invariant over the processed prefix [dn] *)
Record Inv (dn : list nat) (s : pstate) : Prop := mkInv {
  inv_fst : NoDup (map fst (p_held s));
  inv_snd : NoDup (map snd (p_held s));
  inv_base : base a <= p_next s;
  inv_orig : forall c o, In (c, o) (p_orig s) -> base a <= c;
  inv_good : forall m p, In (m, p) (p_held s) -> good dn s m p }.

Lemma init_inv ns : NoDup ns -> Inv [] (init_state ns a).
Proof. intros Hnd. unfold init_state.
  assert (HL : length ns = length (seq (base a) (length ns))) by (rewrite seq_length; reflexivity).
  constructor; cbn [p_held p_store p_orig p_next].
  - rewrite combine_fst by exact HL. exact Hnd.
  - rewrite combine_snd by exact HL. apply seq_NoDup.
  - lia.
  - intros c o [].
  - intros m p Hin. assert (Hp : In p (seq (base a) (length ns))) by (eapply in_combine_r; exact Hin).
    apply in_seq in Hp. unfold good; cbn [p_held p_store p_orig p_next]. split; [lia|]. split; [|split].
    + apply In_lookup.
      * rewrite map_map. cbn [fst]. change (map (fun x : nat * nat => snd x)) with (@map (nat * nat) nat snd).
        rewrite combine_snd by exact HL. apply seq_NoDup.
      * apply in_map_iff. exists (m, p). split; [reflexivity|exact Hin].
    + left. lia.
    + intros []. Qed.

(* allocation of a new object (Policy() or copy.copy) for node n *)
Lemma fresh_inv dn s n st1 og :
  Inv dn s -> In n (map fst (p_held s)) ->
  (forall q, q <> p_next s -> lookup q st1 = lookup q (p_store s)) ->
  (forall q, q <> p_next s -> orig_of og q = orig_of (p_orig s) q) ->
  (forall c o, In (c, o) og -> base a <= c) ->
  (forall o, data a order n = Some o -> orig_of og (p_next s) = o) ->
  Inv (dn ++ [n]) (mkP (set_held n (p_next s) (p_held s)) ((p_next s, n) :: st1) og (S (p_next s))).
Proof. intros [If Is Ib Io Ig] Hn Hst Hog Hog2 Hnew. constructor; cbn [p_held p_store p_orig p_next].
  - rewrite set_held_fst. exact If.
  - apply set_held_snd_NoDup; [exact If|exact Is|]. intros m q Hin _ ->. destruct (Ig m _ Hin) as [Hlt _]. lia.
  - lia.
  - exact Hog2.
  - intros m p Hin. apply set_held_In in Hin as [[-> ->]|[Hne Hin]]; unfold good; cbn [p_held p_store p_orig p_next lookup].
    + rewrite Nat.eqb_refl. split; [lia|]. split; [reflexivity|]. split; [left; exact Ib|]. intros _ o D. apply Hnew. exact D.
    + destruct (Ig m p Hin) as (G1 & G2 & G3 & G4). split; [lia|]. split; [|split].
      * destruct (Nat.eqb_spec (p_next s) p) as [E|E]; [lia|]. rewrite Hst by lia. exact G2.
      * destruct G3 as [G3|[G3 G3']]; [left; exact G3|right]. split; [apply in_or_app; left; exact G3|exact G3'].
      * intros Hd o D. rewrite Hog by lia. apply G4; [|exact D]. apply in_app_or in Hd as [Hd|[Hd|[]]]; [exact Hd|].
        exfalso. apply Hne. symmetry. exact Hd. Qed.

Lemma step_inv dn s n : Inv dn s -> In n (map fst (p_held s)) -> Inv (dn ++ [n]) (step a order s n).
Proof. intros HI Hn. unfold step. destruct (data a order n) as [o|] eqn:D.
  - destruct (held_elsewhere n o (p_held s)) eqn:HE.
    + (* copy *)
      apply fresh_inv; try assumption.
      * intros q Hq. destruct (lookup o (p_store s)); [|reflexivity]. cbn [lookup].
        destruct (Nat.eqb_spec (p_next s) q); [congruence|reflexivity].
      * intros q Hq. unfold orig_of. cbn [lookup]. destruct (Nat.eqb_spec (p_next s) q); [congruence|reflexivity].
      * intros c o' [E|Hin]; [inversion E; subst; apply (inv_base _ _ HI)|apply (inv_orig _ _ HI c o' Hin)].
      * intros o' E. rewrite D in E. inversion E; subst. unfold orig_of. cbn [lookup]. rewrite Nat.eqb_refl. reflexivity.
    + (* the caller's own object *)
      pose proof (data_lt_base a order n o D) as Hlt. pose proof (held_elsewhere_false n o _ HE) as Hfree.
      destruct HI as [If Is Ib Io Ig]. constructor; cbn [p_held p_store p_orig p_next].
      * rewrite set_held_fst. exact If.
      * apply set_held_snd_NoDup; assumption.
      * exact Ib.
      * exact Io.
      * intros m p Hin. apply set_held_In in Hin as [[-> ->]|[Hne Hin]]; unfold good; cbn [p_held p_store p_orig p_next lookup].
        -- rewrite Nat.eqb_refl. split; [lia|]. split; [reflexivity|]. split.
           ++ right. split; [apply in_or_app; right; left; reflexivity|exact D].
           ++ intros _ o' D'. rewrite D in D'. inversion D'; subst. unfold orig_of.
              destruct (lookup o' (p_orig s)) as [x|] eqn:L; [|reflexivity]. apply lookup_In in L. apply Io in L. lia.
        -- destruct (Ig m p Hin) as (G1 & G2 & G3 & G4). pose proof (Hfree m p Hin Hne) as Hpo.
           split; [exact G1|]. split; [|split].
           ++ destruct (Nat.eqb_spec o p) as [E|E]; [congruence|exact G2].
           ++ destruct G3 as [G3|[G3 G3']]; [left; exact G3|right]. split; [apply in_or_app; left; exact G3|exact G3'].
           ++ intros Hd o' D'. apply G4; [|exact D']. apply in_app_or in Hd as [Hd|[Hd|[]]]; [exact Hd|].
              exfalso. apply Hne. symmetry. exact Hd.
  - (* Policy() *)
    unfold place_default. apply fresh_inv; try assumption; try reflexivity.
    + apply (inv_orig _ _ HI).
    + intros o E. congruence. Qed.

Lemma step_fst s n : map fst (p_held (step a order s n)) = map fst (p_held s).
Proof. unfold step, place_default. destruct (data a order n); [destruct (held_elsewhere _ _ _)|]; cbn [p_held]; apply set_held_fst. Qed.
Lemma fold_fst l : forall s, map fst (p_held (fold_left (step a order) l s)) = map fst (p_held s).
Proof. induction l as [|x r IH]; intros s; [reflexivity|]. cbn [fold_left]. rewrite IH. apply step_fst. Qed.
Lemma fold_inv todo : forall dn s, Inv dn s -> incl todo (map fst (p_held s)) -> Inv (dn ++ todo) (fold_left (step a order) todo s).
Proof. induction todo as [|x r IH]; intros dn s HI Hincl; cbn [fold_left].
  - rewrite app_nil_r. exact HI.
  - replace (dn ++ x :: r) with ((dn ++ [x]) ++ r) by (rewrite <- app_assoc; reflexivity). apply IH.
    + apply step_inv; [exact HI|]. apply Hincl. left. reflexivity.
    + rewrite step_fst. intros y Hy. apply Hincl. right. exact Hy. Qed.
(* a node's object is not touched while other nodes are processed *)
Lemma step_keep s m n p : m <> n -> In (n, p) (p_held s) -> In (n, p) (p_held (step a order s m)).
Proof. intros Hne Hin. unfold step, place_default. destruct (data a order m); [destruct (held_elsewhere _ _ _)|]; cbn [p_held];
  apply set_held_other; auto. Qed.
Lemma fold_keep l n p : ~ In n l -> forall s, In (n, p) (p_held s) -> In (n, p) (p_held (fold_left (step a order) l s)).
Proof. induction l as [|x r IH]; intros Hn s Hin; [exact Hin|]. cbn [fold_left]. apply IH.
  - intros H. apply Hn. right. exact H.
  - apply step_keep; [|exact Hin]. intros ->. apply Hn. left. reflexivity. Qed.

Lemma init_fst ns : map fst (p_held (init_state ns a)) = ns.
Proof. cbn [init_state p_held]. apply combine_fst. rewrite seq_length. reflexivity. Qed.
Lemma run_fst ns : map fst (p_held (run ns order a)) = ns.
Proof. unfold run. rewrite fold_fst. apply init_fst. Qed.
Lemma run_inv ns : NoDup ns -> Inv ns (run ns order a).
Proof. intros Hnd. unfold run. change ns with ([] ++ ns) at 1. apply fold_inv; [apply init_inv; exact Hnd|].
  rewrite init_fst. apply incl_refl. Qed.

Lemma view_In s n p k : In (n, p, k) (view s) <-> In (n, p) (p_held s) /\ k = link_of s p.
Proof. unfold view. rewrite in_map_iff. split.
  - intros [[m q] [E Hin]]. cbn [fst snd] in E. inversion E; subst. split; [exact Hin|reflexivity].
  - intros [Hin ->]. exists (n, p). split; [reflexivity|exact Hin]. Qed.
Lemma view_held s : map (fun t => (fst (fst t), snd (fst t))) (view s) = p_held s.
Proof. unfold view. rewrite map_map. cbn [fst snd]. rewrite <- (map_id (p_held s)) at 2. apply map_ext. intros [m q]. reflexivity. Qed.

(* ---- 0. the result lists the nodes in network.nodes order -------------------------------------------------- *)
Theorem place_nodes ns : map (fun t => fst (fst t)) (place_pol ns order a) = ns.
Proof. unfold place_pol, view. rewrite map_map. cbn [fst]. change (map (fun x : nat * oid => fst x)) with (@map (nat * oid) nat fst).
  apply run_fst. Qed.

(* ---- 1. no two nodes share an object ----------------------------------------------------------------------- *)
Theorem place_no_sharing ns : NoDup ns -> NoDup (map (fun t => snd (fst t)) (place_pol ns order a)).
Proof. intros Hnd. unfold place_pol, view. rewrite map_map. cbn [fst snd].
  change (map (fun x : nat * oid => snd x)) with (@map (nat * oid) oid snd). apply (inv_snd _ _ (run_inv ns Hnd)). Qed.
Theorem place_dp_no_sharing ns : NoDup ns -> NoDup (map snd (place_dp ns order a)).
Proof. intros Hnd. apply (inv_snd _ _ (run_inv ns Hnd)). Qed.
Corollary place_no_sharing_nodes ns n1 n2 p k1 k2 :
  NoDup ns -> In (n1, p, k1) (place_pol ns order a) -> In (n2, p, k2) (place_pol ns order a) -> n1 = n2.
Proof. intros Hnd H1 H2. apply view_In in H1 as [H1 _]. apply view_In in H2 as [H2 _].
  eapply NoDup_snd_inj; [apply (inv_snd _ _ (run_inv ns Hnd))|exact H1|exact H2]. Qed.

(* ---- 2. the .node of the object held by n, read from the store, is n --------------------------------------- *)
Theorem place_self_link_store ns n p :
  NoDup ns -> In (n, p) (p_held (run ns order a)) -> lookup p (p_store (run ns order a)) = Some n.
Proof. intros Hnd Hin. destruct (inv_good _ _ (run_inv ns Hnd) n p Hin) as (_ & G & _). exact G. Qed.
Theorem place_self_link ns n p k : NoDup ns -> In (n, p, k) (place_pol ns order a) -> k = n.
Proof. intros Hnd Hin. apply view_In in Hin as [Hin ->]. unfold link_of. rewrite (place_self_link_store ns n p Hnd Hin). reflexivity. Qed.
Corollary place_self_link_all ns n : NoDup ns -> In n ns -> exists p, In (n, p, n) (place_pol ns order a).
Proof. intros Hnd Hn. rewrite <- (place_nodes ns) in Hn. apply in_map_iff in Hn as [[[m p] k] [E Hin]]. cbn in E. subst m.
  exists p. rewrite (place_self_link ns n p k Hnd Hin) in Hin. exact Hin. Qed.

(* ---- 3. the first node that is offered object o holds o itself --------------------------------------------- *)
Theorem place_keeps_first ns pre n post o :
  NoDup ns -> ns = pre ++ n :: post ->
  (forall m, In m pre -> data a order m <> Some o) -> data a order n = Some o ->
  In (n, o, n) (place_pol ns order a).
Proof. intros Hnd Ens Hpre D.
  assert (Hheld : In (n, o) (p_held (run ns order a))).
  { unfold run. rewrite Ens at 1. rewrite fold_left_app. cbn [fold_left].
    set (s1 := fold_left (step a order) pre (init_state ns a)).
    assert (HI : Inv pre s1).
    { change pre with ([] ++ pre). apply fold_inv; [apply init_inv; exact Hnd|]. rewrite init_fst, Ens.
      intros y Hy. apply in_or_app. left. exact Hy. }
    assert (Hfst : map fst (p_held s1) = ns) by (unfold s1; rewrite fold_fst; apply init_fst).
    assert (HE : held_elsewhere n o (p_held s1) = false).
    { destruct (held_elsewhere n o (p_held s1)) eqn:HE; [|reflexivity]. exfalso.
      apply held_elsewhere_true in HE as [m [Hne Hin]]. destruct (inv_good _ _ HI m o Hin) as (_ & _ & G3 & _).
      pose proof (data_lt_base a order n o D) as Hlt. destruct G3 as [G3|[G3 G3']]; [lia|]. exact (Hpre m G3 G3'). }
    apply fold_keep.
    - rewrite Ens in Hnd. apply NoDup_remove_2 in Hnd. intros H. apply Hnd. apply in_or_app. right. exact H.
    - unfold step. rewrite D, HE. cbn [p_held]. apply set_held_new. rewrite Hfst, Ens. apply in_or_app. right. left. reflexivity. }
  apply view_In. split; [exact Hheld|]. unfold link_of. rewrite (place_self_link_store ns n o Hnd Hheld). reflexivity. Qed.
(* single-node systems: the caller's object is the node's object *)
Corollary place_single n o : data a order n = Some o -> place_pol [n] order a = [(n, o, n)].
Proof. intros D. assert (Hnd : NoDup [n]) by (constructor; [intros []|constructor]).
  pose proof (place_keeps_first [n] [] n [] o Hnd eq_refl (fun m (H : In m []) => match H with end) D) as Hin.
  pose proof (place_nodes [n]) as Hl. destruct (place_pol [n] order a) as [|x [|y r]]; cbn in Hl; try discriminate.
  destruct Hin as [Hin|[]]. rewrite Hin. reflexivity. Qed.

(* ---- 4. values: the object at n stands for the caller's object data a order n ------------------------------ *)
Theorem place_orig_data ns n p k o :
  NoDup ns -> In (n, p, k) (place_pol ns order a) -> data a order n = Some o -> place_orig ns order a p = o.
Proof. intros Hnd Hin D. apply view_In in Hin as [Hin _]. destruct (inv_good _ _ (run_inv ns Hnd) n p Hin) as (_ & _ & _ & G4).
  apply G4; [|exact D]. rewrite <- (run_fst ns). change n with (fst (n, p)). apply in_map. exact Hin. Qed.
(* with a value function val on the caller's objects (a copy has the value of its original): the value held at n is
   the value the Builders model [data] assigns to n for the argument of values *)
Theorem place_values {V} (val : oid -> V) ns n p k v :
  NoDup ns -> In (n, p, k) (place_pol ns order a) -> data (arg_map val a) order n = Some v ->
  val (place_orig ns order a p) = v.
Proof. intros Hnd Hin D. rewrite data_arg_map in D. destruct (data a order n) as [o|] eqn:D'; [|discriminate]. cbn in D.
  inversion D; subst. f_equal. eapply place_orig_data; eassumption. Qed.
(* a node without an entry holds an object made by the library *)
Theorem place_default_fresh ns n p k :
  NoDup ns -> In (n, p, k) (place_pol ns order a) -> data a order n = None -> base a <= p.
Proof. intros Hnd Hin D. apply view_In in Hin as [Hin _]. destruct (inv_good _ _ (run_inv ns Hnd) n p Hin) as (_ & _ & G3 & _).
  destruct G3 as [G3|[_ G3]]; [exact G3|congruence]. Qed.
(* an object of the result that is one of the caller's objects is the entry of its node (no stray placement) *)
Theorem place_caller_object ns n p k :
  NoDup ns -> In (n, p, k) (place_pol ns order a) -> p < base a -> data a order n = Some p.
Proof. intros Hnd Hin Hlt. apply view_In in Hin as [Hin _]. destruct (inv_good _ _ (run_inv ns Hnd) n p Hin) as (_ & _ & G3 & _).
  destruct G3 as [G3|[_ G3]]; [lia|exact G3]. Qed.

(* ---- the observation functions, in closed form ------------------------------------------------------------- *)
Theorem place_links_id ns : NoDup ns -> place_links ns order a = map (fun n => (n, n)) ns.
Proof. intros Hnd. unfold place_links. rewrite <- (place_nodes ns) at 2. rewrite map_map. apply map_ext_in.
  intros [[n p] k] Hin. cbn [fst snd]. rewrite (place_self_link ns n p k Hnd Hin). reflexivity. Qed.
End Place.

Lemma filter_none {A} (f : A -> bool) l : (forall x, In x l -> f x = false) -> filter f l = [].
Proof. induction l as [|x r IH]; intros H; [reflexivity|]. cbn. rewrite (H x (or_introl eq_refl)). apply IH.
  intros y Hy. apply H. right. exact Hy. Qed.
Lemma filter_unique (all : list (nat * oid)) n p :
  NoDup (map snd all) -> In (n, p) all -> filter (fun q => snd q =? p) all = [(n, p)].
Proof. induction all as [|[m q] r IH]; intros Hnd Hin; [destruct Hin|]. cbn in Hnd. inversion Hnd as [|x y Hx Hr]; subst.
  cbn [filter snd]. destruct Hin as [Hin|Hin].
  - inversion Hin; subst. rewrite Nat.eqb_refl. f_equal. apply filter_none. intros [m' q'] Hin'. cbn [snd].
    destruct (Nat.eqb_spec q' p) as [E|E]; [|reflexivity]. subst q'. exfalso. apply Hx. change p with (snd (m', p)).
    apply in_map. exact Hin'.
  - destruct (Nat.eqb_spec q p) as [E|E]; [|apply IH; assumption]. subst q. exfalso. apply Hx. change p with (snd (n, p)).
    apply in_map. exact Hin. Qed.
Lemma groups_from_nodup (all : list (nat * oid)) : NoDup (map snd all) ->
  forall l seen, incl l all -> NoDup (map snd l) -> (forall q, In q l -> ~ In (snd q) seen) ->
  groups_from seen l all = map (fun q => [fst q]) l.
Proof. intros Hall. induction l as [|[n p] r IH]; intros seen Hincl Hnd Hseen; [reflexivity|]. cbn [groups_from map fst].
  cbn in Hnd. inversion Hnd as [|x y Hx Hr]; subst.
  assert (Hm : memn p seen = false) by (apply memn_false; apply (Hseen (n, p)); left; reflexivity). rewrite Hm.
  rewrite (filter_unique all n p Hall) by (apply Hincl; left; reflexivity). cbn [map fst sort_nat fold_right insert_sorted].
  f_equal. apply IH.
  - intros y Hy. apply Hincl. right. exact Hy.
  - exact Hr.
  - intros [m q] Hin [E|Hs].
    + cbn in E. subst q. apply Hx. change p with (snd (m, p)). apply in_map. exact Hin.
    + apply (Hseen (m, q)); [right; exact Hin|exact Hs]. Qed.
(* no group has two members *)
Theorem place_obs_singletons a order ns : NoDup ns -> place_obs ns order a = map (fun n => [n]) ns.
Proof. intros Hnd. unfold place_obs, groups. pose proof (place_dp_no_sharing a order ns Hnd) as Hs.
  rewrite (groups_from_nodup _ Hs); [|apply incl_refl|exact Hs|intros q _ []].
  rewrite <- (run_fst a order ns) at 2. rewrite map_map. reflexivity. Qed.

Print Assumptions place_nodes.
Print Assumptions place_no_sharing.
Print Assumptions place_dp_no_sharing.
Print Assumptions place_no_sharing_nodes.
Print Assumptions place_self_link_store.
Print Assumptions place_self_link.
Print Assumptions place_self_link_all.
Print Assumptions place_keeps_first.
Print Assumptions place_single.
Print Assumptions place_orig_data.
Print Assumptions place_values.
Print Assumptions place_default_fresh.
Print Assumptions place_caller_object.
Print Assumptions place_links_id.
Print Assumptions place_obs_singletons.
Print Assumptions data_arg_map.
