(* Proofs about Net/Graph.v: structural invariants preserved by every operation sequence. *)
From SV Require Import Net.Graph.
Local Open Scope nat_scope.

Notation cnt l x := (count_occ Nat.eq_dec l x).

(* ---------------------------------------------------------------------------------------------------------- *)
(* basic list facts *)
Lemma memn_In x l : memn x l = true <-> In x l.
Proof. unfold memn. rewrite existsb_exists. split.
  - intros [y [Hy E]]. apply Nat.eqb_eq in E. subst. exact Hy.
  - intros H. exists x. split; [exact H | apply Nat.eqb_refl]. Qed.
Lemma memn_false x l : memn x l = false <-> ~ In x l.
Proof. rewrite <- memn_In. destruct (memn x l); split; intros H; try reflexivity; try discriminate;
  try (intro H'; discriminate). exfalso; apply H; reflexivity. Qed.

Lemma cnt_app l1 l2 x : cnt (l1 ++ l2) x = cnt l1 x + cnt l2 x.
Proof. apply count_occ_app. Qed.
Lemma cnt_single y x : cnt [y] x = if y =? x then 1 else 0.
Proof. cbn. destruct (Nat.eq_dec y x) as [E|E]; destruct (Nat.eqb_spec y x); congruence. Qed.
Lemma cnt_pos_In l x : cnt l x > 0 <-> In x l.
Proof. symmetry. apply count_occ_In. Qed.
Lemma cnt_zero_notin l x : cnt l x = 0 <-> ~ In x l.
Proof. symmetry. apply count_occ_not_In. Qed.

Lemma remove1_cnt x l l' : remove1 x l = Some l' -> forall y, cnt l y = cnt l' y + (if x =? y then 1 else 0).
Proof. revert l'. induction l as [|z r IH]; intros l' H y; cbn in H; [discriminate|].
  destruct (Nat.eqb_spec z x) as [E|E].
  - inversion H; subst. cbn. destruct (Nat.eq_dec x y), (Nat.eqb_spec x y); try congruence; lia.
  - destruct (remove1 x r) as [r'|] eqn:R; cbn in H; [|discriminate]. inversion H; subst.
    specialize (IH r' eq_refl y). cbn. destruct (Nat.eq_dec z y); lia. Qed.
Lemma remove1_some x l : In x l -> exists l', remove1 x l = Some l'.
Proof. induction l as [|z r IH]; intros H; [contradiction|]. cbn.
  destruct (Nat.eqb_spec z x) as [E|E]; [eauto|]. destruct H as [H|H]; [congruence|].
  destruct (IH H) as [r' R]. rewrite R. cbn. eauto. Qed.

(* ---------------------------------------------------------------------------------------------------------- *)
(* node lists: lookup and the primitive updates *)

Lemma findn_Some l i n : findn l i = Some n -> In n l /\ nid n = i.
Proof. intros H. apply find_some in H. destruct H as [H1 H2]. apply Nat.eqb_eq in H2. auto. Qed.
Lemma findn_None l i : findn l i = None <-> ~ In i (idsL l).
Proof. unfold findn, idsL. induction l as [|n r IH]; cbn; [tauto|].
  destruct (Nat.eqb_spec (nid n) i) as [E|E]; split; intros H; try discriminate.
  - exfalso. apply H. auto.
  - intros [H1|H1]; [congruence|]. apply IH in H. auto.
  - apply IH. intros H1. apply H. auto. Qed.
Lemma findn_In l i : In i (idsL l) -> exists n, findn l i = Some n.
Proof. intros H. destruct (findn l i) as [n|] eqn:E; [eauto|]. apply findn_None in E. contradiction. Qed.
Lemma findn_app l n j : findn (l ++ [n]) j =
  match findn l j with Some x => Some x | None => if nid n =? j then Some n else None end.
Proof. unfold findn. induction l as [|m r IH]; cbn; [reflexivity|]. destruct (nid m =? j); auto. Qed.
Lemma findn_map l (f : node -> node) j : (forall n, nid (f n) = nid n) ->
  findn (map f l) j = option_map f (findn l j).
Proof. intros Hf. unfold findn. induction l as [|m r IH]; cbn; [reflexivity|]. rewrite Hf.
  destruct (nid m =? j); auto. Qed.
Lemma findn_map_node l i g j : (forall n, nid (g n) = nid n) ->
  findn (map_node i g l) j = option_map (fun n => if j =? i then g n else n) (findn l j).
Proof. intros Hg. unfold map_node. rewrite findn_map.
  - destruct (findn l j) as [n|] eqn:E; cbn; [|reflexivity]. apply findn_Some in E. destruct E as [_ E]. rewrite E. reflexivity.
  - intros n. destruct (nid n =? i); auto. Qed.
Lemma idsL_map_node l i g : (forall n, nid (g n) = nid n) -> idsL (map_node i g l) = idsL l.
Proof. intros Hg. unfold idsL, map_node. rewrite map_map. apply map_ext. intros n. destruct (nid n =? i); auto. Qed.
Lemma findn_drop l i j : findn (drop_node i l) j = if j =? i then None else findn l j.
Proof. unfold findn, drop_node. induction l as [|m r IH]; cbn; [destruct (j =? i); reflexivity|].
  destruct (Nat.eqb_spec (nid m) i) as [E|E]; cbn.
  - rewrite IH. destruct (Nat.eqb_spec j i) as [E2|E2]; [reflexivity|].
    destruct (Nat.eqb_spec (nid m) j); [congruence|reflexivity].
  - destruct (Nat.eqb_spec (nid m) j) as [E1|E1].
    + destruct (Nat.eqb_spec j i); [congruence|reflexivity].
    + exact IH. Qed.
Lemma idsL_drop l i x : In x (idsL (drop_node i l)) <-> In x (idsL l) /\ x <> i.
Proof. unfold idsL, drop_node. rewrite !in_map_iff. split.
  - intros [n [E H]]. apply filter_In in H. destruct H as [H1 H2]. split; [eauto|].
    subst. destruct (Nat.eqb_spec (nid n) i); [discriminate|auto].
  - intros [[n [E H]] Hx]. exists n. split; [auto|]. apply filter_In. split; [auto|].
    subst. destruct (Nat.eqb_spec (nid n) i); [contradiction|auto]. Qed.
Lemma NoDup_drop l i : NoDup (idsL l) -> NoDup (idsL (drop_node i l)).
Proof. unfold idsL, drop_node. induction l as [|m r IH]; cbn; intros H; [constructor|].
  inversion H; subst. destruct (nid m =? i); cbn; [auto|]. constructor; [|auto].
  intros H1. apply H2. apply in_map_iff in H1. destruct H1 as [n [E H1]]. apply filter_In in H1.
  apply in_map_iff. exists n. tauto. Qed.

Lemma nid_set_preds l n : nid (set_preds l n) = nid n. Proof. reflexivity. Qed.
Lemma nid_set_succs l n : nid (set_succs l n) = nid n. Proof. reflexivity. Qed.
Lemma nid_set_prods l n : nid (set_prods l n) = nid n. Proof. reflexivity. Qed.
Lemma nid_push_succ b n : nid (push_succ b n) = nid n. Proof. reflexivity. Qed.
Lemma nid_push_pred b n : nid (push_pred b n) = nid n. Proof. reflexivity. Qed.

(* effect of map_node on the successor / predecessor functions *)
Lemma Sof_map_node l i g j : (forall n, nid (g n) = nid n) ->
  Sof (map_node i g l) j = if j =? i then match findn l i with Some n => succs (g n) | None => [] end else Sof l j.
Proof. intros Hg. unfold Sof. rewrite findn_map_node by exact Hg.
  destruct (Nat.eqb_spec j i) as [E|E]; [subst|]; destruct (findn l _); reflexivity. Qed.
Lemma Pof_map_node l i g j : (forall n, nid (g n) = nid n) ->
  Pof (map_node i g l) j = if j =? i then match findn l i with Some n => preds (g n) | None => [] end else Pof l j.
Proof. intros Hg. unfold Pof. rewrite findn_map_node by exact Hg.
  destruct (Nat.eqb_spec j i) as [E|E]; [subst|]; destruct (findn l _); reflexivity. Qed.

(* ---------------------------------------------------------------------------------------------------------- *)
(* the invariant *)

Lemma InvL_pred_closed l : InvL l -> forall a b, In a (Pof l b) -> In a (idsL l).
Proof. intros [_ [Hs _]] a b H. apply cnt_pos_In in H. rewrite <- Hs in H. apply cnt_pos_In in H.
  destruct (findn l a) as [n|] eqn:E.
  - apply findn_Some in E. destruct E as [E1 E2]. subst. apply in_map. exact E1.
  - unfold Sof in H. rewrite E in H. contradiction. Qed.
Lemma InvL_pred_is_node l : InvL l -> forall a b, In a (Pof l b) -> In b (idsL l).
Proof. intros _ a b H. destruct (findn l b) as [n|] eqn:E.
  - apply findn_Some in E. destruct E as [E1 E2]. subst. apply in_map. exact E1.
  - unfold Pof in H. rewrite E in H. contradiction. Qed.
Lemma Sof_nonnode l a : ~ In a (idsL l) -> Sof l a = [].
Proof. intros H. apply findn_None in H. unfold Sof. rewrite H. reflexivity. Qed.
Lemma Pof_nonnode l a : ~ In a (idsL l) -> Pof l a = [].
Proof. intros H. apply findn_None in H. unfold Pof. rewrite H. reflexivity. Qed.

Lemma InvL_nil : InvL []. Proof. split; [constructor|]. split; intros; cbn in *; tauto. Qed.

(* appending a fresh node without arcs *)
Lemma Sof_app l n j : ~ In (nid n) (idsL l) -> Sof (l ++ [n]) j = if j =? nid n then succs n else Sof l j.
Proof. intros H. unfold Sof. rewrite findn_app. destruct (Nat.eqb_spec j (nid n)) as [E|E].
  - subst. apply findn_None in H. rewrite H. rewrite Nat.eqb_refl. reflexivity.
  - destruct (findn l j); [reflexivity|]. destruct (Nat.eqb_spec (nid n) j); [congruence|reflexivity]. Qed.
Lemma Pof_app l n j : ~ In (nid n) (idsL l) -> Pof (l ++ [n]) j = if j =? nid n then preds n else Pof l j.
Proof. intros H. unfold Pof. rewrite findn_app. destruct (Nat.eqb_spec j (nid n)) as [E|E].
  - subst. apply findn_None in H. rewrite H. rewrite Nat.eqb_refl. reflexivity.
  - destruct (findn l j); [reflexivity|]. destruct (Nat.eqb_spec (nid n) j); [congruence|reflexivity]. Qed.
Lemma idsL_app l n : idsL (l ++ [n]) = idsL l ++ [nid n].
Proof. unfold idsL. rewrite map_app. reflexivity. Qed.
Lemma NoDup_snoc (l : list nat) x : NoDup l -> ~ In x l -> NoDup (l ++ [x]).
Proof. intros H1 H2. apply NoDup_rev in H1. rewrite <- (rev_involutive (l ++ [x])). apply NoDup_rev.
  rewrite rev_app_distr. cbn. constructor; [|exact H1]. rewrite <- in_rev. exact H2. Qed.

Lemma InvL_add_fresh l i e d : InvL l -> ~ In i (idsL l) -> InvL (l ++ [fresh_node i e d]).
Proof. intros [H1 [H2 H3]] Hi. split; [|split].
  - rewrite idsL_app. apply NoDup_snoc; assumption.
  - intros a b. rewrite Sof_app, Pof_app by exact Hi. cbn [nid fresh_node succs preds].
    destruct (Nat.eqb_spec a i) as [Ea|Ea], (Nat.eqb_spec b i) as [Eb|Eb]; subst; cbn [count_occ]; auto.
    + symmetry. apply cnt_zero_notin. intros H. apply Hi. eapply InvL_pred_closed; [repeat split; eauto|exact H].
    + apply cnt_zero_notin. intros H. apply Hi. eapply H3; eauto.
  - intros a b. rewrite Sof_app by exact Hi. cbn [nid fresh_node succs]. rewrite idsL_app.
    destruct (a =? i); [intros []|]. intros H. apply in_or_app. left. eapply H3; eauto. Qed.

(* specialised update equations *)
Lemma Sof_push_succ l i b j : In i (idsL l) ->
  Sof (map_node i (push_succ b) l) j = if j =? i then Sof l i ++ [b] else Sof l j.
Proof. intros H. rewrite Sof_map_node by apply nid_push_succ. destruct (j =? i); [|reflexivity].
  unfold Sof. destruct (findn l i) eqn:F; [reflexivity|]. apply findn_None in F. contradiction. Qed.
Lemma Pof_push_succ l i b j : Pof (map_node i (push_succ b) l) j = Pof l j.
Proof. rewrite Pof_map_node by apply nid_push_succ. destruct (Nat.eqb_spec j i); [subst|reflexivity].
  unfold Pof. destruct (findn l i); reflexivity. Qed.
Lemma Pof_push_pred l i a j : In i (idsL l) ->
  Pof (map_node i (push_pred a) l) j = if j =? i then Pof l i ++ [a] else Pof l j.
Proof. intros H. rewrite Pof_map_node by apply nid_push_pred. destruct (j =? i); [|reflexivity].
  unfold Pof. destruct (findn l i) eqn:F; [reflexivity|]. apply findn_None in F. contradiction. Qed.
Lemma Sof_push_pred l i a j : Sof (map_node i (push_pred a) l) j = Sof l j.
Proof. rewrite Sof_map_node by apply nid_push_pred. destruct (Nat.eqb_spec j i); [subst|reflexivity].
  unfold Sof. destruct (findn l i); reflexivity. Qed.
Lemma Sof_set_succs l i v j : In i (idsL l) ->
  Sof (map_node i (set_succs v) l) j = if j =? i then v else Sof l j.
Proof. intros H. rewrite Sof_map_node by apply nid_set_succs. destruct (j =? i); [|reflexivity].
  destruct (findn l i) eqn:F; [reflexivity|]. apply findn_None in F. contradiction. Qed.
Lemma Pof_set_succs l i v j : Pof (map_node i (set_succs v) l) j = Pof l j.
Proof. rewrite Pof_map_node by apply nid_set_succs. destruct (Nat.eqb_spec j i); [subst|reflexivity].
  unfold Pof. destruct (findn l i); reflexivity. Qed.
Lemma Pof_set_preds l i v j : In i (idsL l) ->
  Pof (map_node i (set_preds v) l) j = if j =? i then v else Pof l j.
Proof. intros H. rewrite Pof_map_node by apply nid_set_preds. destruct (j =? i); [|reflexivity].
  destruct (findn l i) eqn:F; [reflexivity|]. apply findn_None in F. contradiction. Qed.
Lemma Sof_set_preds l i v j : Sof (map_node i (set_preds v) l) j = Sof l j.
Proof. rewrite Sof_map_node by apply nid_set_preds. destruct (Nat.eqb_spec j i); [subst|reflexivity].
  unfold Sof. destruct (findn l i); reflexivity. Qed.
Lemma Sof_set_prods l i v j : Sof (map_node i (set_prods v) l) j = Sof l j.
Proof. rewrite Sof_map_node by apply nid_set_prods. destruct (Nat.eqb_spec j i); [subst|reflexivity].
  unfold Sof. destruct (findn l i); reflexivity. Qed.
Lemma Pof_set_prods l i v j : Pof (map_node i (set_prods v) l) j = Pof l j.
Proof. rewrite Pof_map_node by apply nid_set_prods. destruct (Nat.eqb_spec j i); [subst|reflexivity].
  unfold Pof. destruct (findn l i); reflexivity. Qed.

(* linking a -> b, both in the network *)
Lemma Sof_link_both l a b j : In a (idsL l) ->
  Sof (map_node b (push_pred a) (map_node a (push_succ b) l)) j = if j =? a then Sof l a ++ [b] else Sof l j.
Proof. intros Ha. rewrite Sof_push_pred. apply Sof_push_succ. exact Ha. Qed.
Lemma Pof_link_both l a b j : In b (idsL l) ->
  Pof (map_node b (push_pred a) (map_node a (push_succ b) l)) j = if j =? b then Pof l b ++ [a] else Pof l j.
Proof. intros Hb. rewrite Pof_push_pred by (rewrite idsL_map_node by apply nid_push_succ; exact Hb).
  rewrite !Pof_push_succ. reflexivity. Qed.

Lemma InvL_link_both l a b : InvL l -> In a (idsL l) -> In b (idsL l) ->
  InvL (map_node b (push_pred a) (map_node a (push_succ b) l)).
Proof. intros [H1 [H2 H3]] Ha Hb. split; [|split].
  - rewrite !idsL_map_node by (apply nid_push_pred || apply nid_push_succ). exact H1.
  - intros x y. rewrite Sof_link_both, Pof_link_both by assumption.
    destruct (Nat.eqb_spec x a) as [Ex|Ex], (Nat.eqb_spec y b) as [Ey|Ey]; subst;
      rewrite ?cnt_app, ?cnt_single, ?H2;
      repeat match goal with |- context [?u =? ?v] => destruct (Nat.eqb_spec u v) end; try congruence; lia.
  - intros x y. rewrite Sof_link_both by assumption.
    rewrite !idsL_map_node by (apply nid_push_pred || apply nid_push_succ).
    destruct (x =? a); [|apply H3]. intros H. apply in_app_or in H. destruct H as [H|[H|[]]]; [eapply H3; eauto|subst; auto]. Qed.

(* facts about indices that are not nodes *)
Lemma InvL_cnt_S_nonnode l x b : InvL l -> ~ In b (idsL l) -> cnt (Sof l x) b = 0.
Proof. intros [_ [_ H3]] Hb. apply cnt_zero_notin. intros H. apply Hb. eapply H3; eauto. Qed.
Lemma InvL_cnt_P_nonnode l y b : InvL l -> ~ In b (idsL l) -> cnt (Pof l y) b = 0.
Proof. intros HI Hb. apply cnt_zero_notin. intros H. apply Hb. eapply InvL_pred_closed; eauto. Qed.

Ltac eqb_cases := repeat match goal with |- context [?u =? ?v] => destruct (Nat.eqb_spec u v) end.

(* linking a -> b with b fresh *)
Lemma InvL_link_fresh l a b e d : InvL l -> In a (idsL l) -> ~ In b (idsL l) ->
  InvL (map_node a (push_succ b) l ++ [mkNode b [a] [] [dummy_idx b] e d]).
Proof. intros HI Ha Hb. pose proof HI as [H1 [H2 H3]].
  assert (Hb' : ~ In (nid (mkNode b [a] [] [dummy_idx b] e d)) (idsL (map_node a (push_succ b) l))).
  { rewrite idsL_map_node by apply nid_push_succ. exact Hb. }
  split; [|split].
  - rewrite idsL_app, idsL_map_node by apply nid_push_succ. apply NoDup_snoc; assumption.
  - intros x y. rewrite Sof_app, Pof_app by exact Hb'. cbn [nid succs preds].
    rewrite Sof_push_succ by exact Ha. rewrite Pof_push_succ.
    pose proof (InvL_cnt_S_nonnode l x b HI Hb). pose proof (InvL_cnt_P_nonnode l y b HI Hb).
    pose proof (Pof_nonnode l b Hb) as Pb.
    eqb_cases; subst; rewrite ?cnt_app, ?cnt_single, ?H2, ?Pb; cbn [count_occ]; eqb_cases; try congruence; try lia.
  - intros x y. rewrite Sof_app by exact Hb'. cbn [nid succs]. rewrite Sof_push_succ by exact Ha.
    rewrite idsL_app, idsL_map_node by apply nid_push_succ. cbn [nid].
    eqb_cases; subst; intros H; try contradiction.
    + apply in_app_or in H. destruct H as [H|[H|[]]]; [|subst; apply in_or_app; right; left; reflexivity].
      apply in_or_app. left. eapply H3; eauto.
    + apply in_or_app. left. eapply H3; eauto. Qed.

(* add_predecessor: arc b -> a *)
Lemma InvL_linkp_both l a b : InvL l -> In a (idsL l) -> In b (idsL l) ->
  InvL (map_node b (push_succ a) (map_node a (push_pred b) l)).
Proof. intros [H1 [H2 H3]] Ha Hb.
  assert (Hb' : In b (idsL (map_node a (push_pred b) l))) by (rewrite idsL_map_node by apply nid_push_pred; exact Hb).
  split; [|split].
  - rewrite !idsL_map_node by (apply nid_push_pred || apply nid_push_succ). exact H1.
  - intros x y. rewrite Sof_push_succ by exact Hb'. rewrite Pof_push_succ, !Sof_push_pred, Pof_push_pred by exact Ha.
    eqb_cases; subst; rewrite ?cnt_app, ?cnt_single, ?H2; eqb_cases; try congruence; lia.
  - intros x y. rewrite Sof_push_succ by exact Hb'. rewrite !Sof_push_pred.
    rewrite !idsL_map_node by (apply nid_push_pred || apply nid_push_succ).
    destruct (x =? b); [|apply H3]. intros H. apply in_app_or in H. destruct H as [H|[H|[]]]; [eapply H3; eauto|subst; auto]. Qed.
Lemma InvL_linkp_fresh l a b e d : InvL l -> In a (idsL l) -> ~ In b (idsL l) ->
  InvL (map_node a (push_pred b) l ++ [mkNode b [] [a] [dummy_idx b] e d]).
Proof. intros HI Ha Hb. pose proof HI as [H1 [H2 H3]].
  assert (Hb' : ~ In (nid (mkNode b [] [a] [dummy_idx b] e d)) (idsL (map_node a (push_pred b) l))).
  { rewrite idsL_map_node by apply nid_push_pred. exact Hb. }
  split; [|split].
  - rewrite idsL_app, idsL_map_node by apply nid_push_pred. apply NoDup_snoc; assumption.
  - intros x y. rewrite Sof_app, Pof_app by exact Hb'. cbn [nid succs preds].
    rewrite Pof_push_pred by exact Ha. rewrite Sof_push_pred.
    pose proof (InvL_cnt_S_nonnode l x b HI Hb). pose proof (InvL_cnt_P_nonnode l y b HI Hb).
    pose proof (Sof_nonnode l b Hb) as Sb.
    eqb_cases; subst; rewrite ?cnt_app, ?cnt_single, <- ?H2, ?Sb; cbn [count_occ]; eqb_cases; try congruence; try lia.
    all: try (rewrite H2; lia).
  - intros x y. rewrite Sof_app by exact Hb'. cbn [nid succs]. rewrite Sof_push_pred.
    rewrite idsL_app, idsL_map_node by apply nid_push_pred. cbn [nid].
    eqb_cases; subst; intros H.
    + destruct H as [H|[]]. subst. apply in_or_app. left. exact Ha.
    + apply in_or_app. left. eapply H3; eauto. Qed.

(* ---------------------------------------------------------------------------------------------------------- *)
(* remove_node *)
Definition attrs (n : node) := (nid n, prods n, ext n, dem n).
Definition same_rest (w w1 : net) : Prop :=
  nprods w1 = nprods w /\ nlocal w1 = nlocal w /\ bom w1 = bom w /\ pnet w1 = pnet w /\
  map attrs (nodes w1) = map attrs (nodes w).
Lemma same_rest_refl w : same_rest w w. Proof. repeat split. Qed.
Lemma same_rest_trans w1 w2 w3 : same_rest w1 w2 -> same_rest w2 w3 -> same_rest w1 w3.
Proof. unfold same_rest. intuition congruence. Qed.
Lemma attrs_ids l1 l2 : map attrs l1 = map attrs l2 -> idsL l1 = idsL l2.
Proof. intros H. unfold idsL. assert (E : forall l, map nid l = map (fun t => fst (fst (fst t))) (map attrs l)).
  { intros l. rewrite map_map. reflexivity. } rewrite !E, H. reflexivity. Qed.
Lemma attrs_map_node l i g : (forall n, attrs (g n) = attrs n) -> map attrs (map_node i g l) = map attrs l.
Proof. intros Hg. unfold map_node. rewrite map_map. apply map_ext. intros n. destruct (nid n =? i); auto. Qed.

Lemma cnt_cons s L y : cnt (s :: L) y = (if s =? y then 1 else 0) + cnt L y.
Proof. cbn. destruct (Nat.eq_dec s y), (Nat.eqb_spec s y); try congruence; lia. Qed.

Lemma unlink_preds_spec L : forall w i,
  (forall y, cnt L y <= cnt (Pof (nodes w) y) i) ->
  exists w1, unlink_preds w L i = Ok w1 /\ same_rest w w1 /\
    (forall j, Sof (nodes w1) j = Sof (nodes w) j) /\
    (forall y x, cnt (Pof (nodes w) y) x = cnt (Pof (nodes w1) y) x + (if x =? i then cnt L y else 0)).
Proof. induction L as [|s L IH]; intros w i H.
  - exists w. cbn [unlink_preds]. split; [reflexivity|]. split; [apply same_rest_refl|]. split; [reflexivity|].
    intros y x. cbn [count_occ]. destruct (x =? i); lia.
  - cbn [unlink_preds]. unfold unlink_pred. change (find_node w s) with (findn (nodes w) s).
    pose proof (H s) as Hs. rewrite cnt_cons, Nat.eqb_refl in Hs.
    assert (Hin : In i (Pof (nodes w) s)) by (apply cnt_pos_In; lia).
    unfold Pof in Hin. destruct (findn (nodes w) s) as [n|] eqn:F; [|contradiction].
    destruct (remove1_some _ _ Hin) as [l' R]. rewrite R.
    assert (Hsn : In s (idsL (nodes w))).
    { apply findn_Some in F. destruct F as [F1 F2]. subst. apply in_map. exact F1. }
    set (w' := set_nodes w (map_node s (set_preds l') (nodes w))).
    assert (HP : forall y, Pof (nodes w') y = if y =? s then l' else Pof (nodes w) y).
    { intros y. unfold w'. cbn [nodes set_nodes]. apply Pof_set_preds. exact Hsn. }
    assert (Hl' : forall x, cnt (Pof (nodes w) s) x = cnt l' x + (if i =? x then 1 else 0)).
    { intros x. unfold Pof. rewrite F. apply remove1_cnt. exact R. }
    destruct (IH w' i) as [w1 [E1 [E2 [E3 E4]]]].
    { intros y. rewrite HP. specialize (H y). rewrite cnt_cons in H. specialize (Hl' i). rewrite Nat.eqb_refl in Hl'.
      destruct (Nat.eqb_spec y s), (Nat.eqb_spec s y); subst; try congruence; lia. }
    exists w1. split; [exact E1|]. split; [|split].
    + eapply same_rest_trans; [|exact E2]. unfold w', same_rest. cbn [nodes set_nodes nprods nlocal bom pnet].
      repeat split. apply attrs_map_node. reflexivity.
    + intros j. rewrite E3. unfold w'. cbn [nodes set_nodes]. apply Sof_set_preds.
    + intros y x. specialize (E4 y x). rewrite HP in E4. rewrite cnt_cons. specialize (Hl' x).
      destruct (Nat.eqb_spec y s), (Nat.eqb_spec s y), (Nat.eqb_spec x i), (Nat.eqb_spec i x); subst; try congruence; lia. Qed.

Lemma unlink_succs_spec L : forall w i,
  (forall y, cnt L y <= cnt (Sof (nodes w) y) i) ->
  exists w1, unlink_succs w L i = Ok w1 /\ same_rest w w1 /\
    (forall j, Pof (nodes w1) j = Pof (nodes w) j) /\
    (forall y x, cnt (Sof (nodes w) y) x = cnt (Sof (nodes w1) y) x + (if x =? i then cnt L y else 0)).
Proof. induction L as [|s L IH]; intros w i H.
  - exists w. cbn [unlink_succs]. split; [reflexivity|]. split; [apply same_rest_refl|]. split; [reflexivity|].
    intros y x. cbn [count_occ]. destruct (x =? i); lia.
  - cbn [unlink_succs]. unfold unlink_succ. change (find_node w s) with (findn (nodes w) s).
    pose proof (H s) as Hs. rewrite cnt_cons, Nat.eqb_refl in Hs.
    assert (Hin : In i (Sof (nodes w) s)) by (apply cnt_pos_In; lia).
    unfold Sof in Hin. destruct (findn (nodes w) s) as [n|] eqn:F; [|contradiction].
    destruct (remove1_some _ _ Hin) as [l' R]. rewrite R.
    assert (Hsn : In s (idsL (nodes w))).
    { apply findn_Some in F. destruct F as [F1 F2]. subst. apply in_map. exact F1. }
    set (w' := set_nodes w (map_node s (set_succs l') (nodes w))).
    assert (HP : forall y, Sof (nodes w') y = if y =? s then l' else Sof (nodes w) y).
    { intros y. unfold w'. cbn [nodes set_nodes]. apply Sof_set_succs. exact Hsn. }
    assert (Hl' : forall x, cnt (Sof (nodes w) s) x = cnt l' x + (if i =? x then 1 else 0)).
    { intros x. unfold Sof. rewrite F. apply remove1_cnt. exact R. }
    destruct (IH w' i) as [w1 [E1 [E2 [E3 E4]]]].
    { intros y. rewrite HP. specialize (H y). rewrite cnt_cons in H. specialize (Hl' i). rewrite Nat.eqb_refl in Hl'.
      destruct (Nat.eqb_spec y s), (Nat.eqb_spec s y); subst; try congruence; lia. }
    exists w1. split; [exact E1|]. split; [|split].
    + eapply same_rest_trans; [|exact E2]. unfold w', same_rest. cbn [nodes set_nodes nprods nlocal bom pnet].
      repeat split. apply attrs_map_node. reflexivity.
    + intros j. rewrite E3. unfold w'. cbn [nodes set_nodes]. apply Pof_set_succs.
    + intros y x. specialize (E4 y x). rewrite HP in E4. rewrite cnt_cons. specialize (Hl' x).
      destruct (Nat.eqb_spec y s), (Nat.eqb_spec s y), (Nat.eqb_spec x i), (Nat.eqb_spec i x); subst; try congruence; lia. Qed.

Lemma Sof_drop l i j : Sof (drop_node i l) j = if j =? i then [] else Sof l j.
Proof. unfold Sof. rewrite findn_drop. destruct (j =? i); reflexivity. Qed.
Lemma Pof_drop l i j : Pof (drop_node i l) j = if j =? i then [] else Pof l j.
Proof. unfold Pof. rewrite findn_drop. destruct (j =? i); reflexivity. Qed.

Lemma nodes_rebuild w : nodes (rebuild w) = nodes w. Proof. reflexivity. Qed.

(* remove_node never raises on a coherent network, and the result is the induced subgraph (as multisets of arcs) *)
Lemma remove_node_spec w i : Inv w -> In i (ids w) ->
  exists w3, remove_node w i = Ok w3 /\ Inv w3 /\
    (forall x, In x (ids w3) <-> In x (ids w) /\ x <> i) /\
    map attrs (nodes w3) = map attrs (drop_node i (nodes w)) /\
    (forall x y, x <> i -> y <> i -> cnt (Sof (nodes w3) x) y = cnt (Sof (nodes w) x) y) /\
    (forall x y, x <> i -> y <> i -> cnt (Pof (nodes w3) x) y = cnt (Pof (nodes w) x) y).
Proof. intros HI Hi. pose proof HI as [H1 [H2 H3]]. unfold remove_node.
  assert (Hh : has_node w i = true) by (apply memn_In; exact Hi). rewrite Hh. cbn [negb].
  change (succs_of w i) with (Sof (nodes w) i).
  destruct (unlink_preds_spec (Sof (nodes w) i) w i) as [w1 [E1 [R1 [S1 P1]]]].
  { intros y. rewrite H2. lia. }
  rewrite E1. change (preds_of w1 i) with (Pof (nodes w1) i).
  destruct (unlink_succs_spec (Pof (nodes w1) i) w1 i) as [w2 [E2 [R2 [P2 S2]]]].
  { intros y. rewrite S1. rewrite H2. specialize (P1 i y). lia. }
  rewrite E2. eexists. split; [reflexivity|].
  assert (Hids : idsL (nodes w2) = idsL (nodes w)).
  { apply attrs_ids. destruct R1 as [_ [_ [_ [_ R1]]]]. destruct R2 as [_ [_ [_ [_ R2]]]]. congruence. }
  assert (Z1 : forall y, y <> i -> cnt (Pof (nodes w2) y) i = 0).
  { intros y Hy. rewrite P2. pose proof (P1 y i) as Q. rewrite Nat.eqb_refl in Q. rewrite <- H2 in Q. lia. }
  assert (Z2 : forall x, x <> i -> cnt (Sof (nodes w2) x) i = 0).
  { intros x Hx. pose proof (S2 x i) as Q. rewrite Nat.eqb_refl in Q. rewrite S1 in Q.
    pose proof (P1 i x) as Q2. destruct (Nat.eqb_spec x i); [contradiction|]. rewrite <- H2 in Q2. lia. }
  assert (K1 : forall x y, y <> i -> cnt (Sof (nodes w2) x) y = cnt (Sof (nodes w) x) y).
  { intros x y Hy. pose proof (S2 x y) as Q. destruct (Nat.eqb_spec y i); [contradiction|]. rewrite S1 in Q. lia. }
  assert (K2 : forall y x, x <> i -> cnt (Pof (nodes w2) y) x = cnt (Pof (nodes w) y) x).
  { intros y x Hx. rewrite P2. pose proof (P1 y x) as Q. destruct (Nat.eqb_spec x i); [contradiction|]. lia. }
  cbn [nodes rebuild set_nodes]. unfold Inv. cbn [nodes rebuild set_nodes]. unfold ids. cbn [nodes rebuild set_nodes].
  fold (idsL (drop_node i (nodes w2))). fold (idsL (nodes w)).
  split; [|split; [|split; [|split]]].
  - split; [|split].
    + apply NoDup_drop. rewrite Hids. exact H1.
    + intros x y. rewrite Sof_drop, Pof_drop.
      destruct (Nat.eqb_spec x i) as [Ex|Ex], (Nat.eqb_spec y i) as [Ey|Ey]; subst; cbn [count_occ].
      * reflexivity.
      * symmetry. apply Z1. exact Ey.
      * apply Z2. exact Ex.
      * rewrite K1, K2 by assumption. apply H2.
    + intros a b. rewrite Sof_drop. destruct (Nat.eqb_spec a i) as [Ea|Ea]; [intros []|]. intros Hb.
      apply idsL_drop. rewrite Hids. assert (b <> i).
      { intros ->. apply cnt_pos_In in Hb. rewrite Z2 in Hb by exact Ea. lia. }
      split; [|assumption]. apply cnt_pos_In in Hb. rewrite K1 in Hb by assumption. apply cnt_pos_In in Hb.
      eapply H3; eauto.
  - intros x. rewrite idsL_drop, Hids. reflexivity.
  - destruct R1 as [_ [_ [_ [_ R1]]]]. destruct R2 as [_ [_ [_ [_ R2]]]].
    unfold drop_node. assert (G : forall l, map attrs (filter (fun n => negb (nid n =? i)) l)
        = filter (fun t => negb (fst (fst (fst t)) =? i)) (map attrs l)).
    { induction l as [|m r IH]; cbn; [reflexivity|]. destruct (nid m =? i); cbn; rewrite IH; reflexivity. }
    rewrite !G. congruence.
  - intros x y Hx Hy. rewrite Sof_drop. destruct (Nat.eqb_spec x i); [contradiction|]. apply K1. exact Hy.
  - intros x y Hx Hy. rewrite Pof_drop. destruct (Nat.eqb_spec x i); [contradiction|]. apply K2. exact Hy. Qed.

(* ---------------------------------------------------------------------------------------------------------- *)
(* reindex_nodes *)

Lemma omap_lookup m l l' : omap (lookup m) l = Some l' -> l' = map (mf m) l /\ forall x, In x l -> lookup m x = Some (mf m x).
Proof. revert l'. induction l as [|x r IH]; intros l' H; cbn in H.
  - inversion H. split; [reflexivity|intros x []].
  - destruct (lookup m x) as [y|] eqn:L; [|discriminate]. destruct (omap (lookup m) r) as [r'|]; [|discriminate].
    inversion H; subst. destruct (IH r' eq_refl) as [E1 E2]. split.
    + cbn. unfold mf at 1. rewrite L. congruence.
    + intros z [Hz|Hz]; [subst; unfold mf; rewrite L; reflexivity | auto]. Qed.
Lemma reindex_node_rn m n n' : reindex_node m n = Some n' ->
  n' = rn m n /\ lookup m (nid n) = Some (mf m (nid n)).
Proof. unfold reindex_node. destruct (lookup m (nid n)) as [i'|] eqn:L; [|discriminate].
  destruct (omap (lookup m) (preds n)) as [p'|] eqn:P; [|discriminate].
  destruct (omap (lookup m) (succs n)) as [s'|] eqn:S; [|discriminate].
  intros H. inversion H; subst. apply omap_lookup in P. apply omap_lookup in S. destruct P as [P _], S as [S _].
  subst. assert (E : mf m (nid n) = i') by (unfold mf; rewrite L; reflexivity).
  unfold rn. rewrite E. split; reflexivity. Qed.
Lemma omap_reindex m l l' : omap (reindex_node m) l = Some l' ->
  l' = map (rn m) l /\ forall x, In x (idsL l) -> lookup m x = Some (mf m x).
Proof. revert l'. induction l as [|n r IH]; intros l' H; cbn in H.
  - inversion H. split; [reflexivity|intros x []].
  - destruct (reindex_node m n) as [n'|] eqn:L; [|discriminate]. destruct (omap (reindex_node m) r) as [r'|]; [|discriminate].
    inversion H; subst. destruct (IH r' eq_refl) as [E1 E2]. apply reindex_node_rn in L. destruct L as [L1 L2]. split.
    + cbn. congruence.
    + intros z [Hz|Hz]; [subst; exact L2 | auto]. Qed.

Definition inj_on (f : nat -> nat) (l : list nat) : Prop := forall a b, In a l -> In b l -> f a = f b -> a = b.
Lemma NoDup_map_inj_on f l : inj_on f l -> NoDup l -> NoDup (map f l).
Proof. induction l as [|x r IH]; intros Hf H; cbn; [constructor|]. inversion H; subst. constructor.
  - intros Hx. apply in_map_iff in Hx. destruct Hx as [y [E Hy]]. apply Hf in E; [|right; exact Hy|left; reflexivity].
    subst. contradiction.
  - apply IH; [|assumption]. intros a b Ha Hb. apply Hf; right; assumption. Qed.
Lemma cnt_map_inj_on f l b : (forall x, In x l -> f x = f b -> x = b) -> cnt (map f l) (f b) = cnt l b.
Proof. induction l as [|x r IH]; intros H; [reflexivity|]. cbn [map]. rewrite !cnt_cons.
  rewrite IH by (intros y Hy; apply H; right; exact Hy).
  destruct (Nat.eqb_spec (f x) (f b)) as [E|E], (Nat.eqb_spec x b) as [E2|E2]; subst; try congruence.
  apply H in E; [contradiction|left; reflexivity]. Qed.
Lemma idsL_rn m l : idsL (map (rn m) l) = map (mf m) (idsL l).
Proof. unfold idsL. rewrite !map_map. reflexivity. Qed.
Lemma findn_rn m l a : inj_on (mf m) (idsL l) -> In a (idsL l) ->
  findn (map (rn m) l) (mf m a) = option_map (rn m) (findn l a).
Proof. unfold findn. induction l as [|n r IH]; intros Hf Ha; [destruct Ha|]. cbn [map find nid rn].
  destruct (Nat.eqb_spec (nid n) a) as [E|E].
  - subst. rewrite Nat.eqb_refl. reflexivity.
  - destruct (Nat.eqb_spec (mf m (nid n)) (mf m a)) as [E2|E2].
    + apply Hf in E2; [contradiction|left; reflexivity|exact Ha].
    + apply IH; [|destruct Ha as [Ha|Ha]; [contradiction|exact Ha]].
      intros x y Hx Hy. apply Hf; right; assumption. Qed.
Lemma findn_rn_none m l j : ~ In j (map (mf m) (idsL l)) -> findn (map (rn m) l) j = None.
Proof. intros H. apply findn_None. rewrite idsL_rn. exact H. Qed.
Lemma Sof_rn m l a : inj_on (mf m) (idsL l) -> In a (idsL l) -> Sof (map (rn m) l) (mf m a) = map (mf m) (Sof l a).
Proof. intros Hf Ha. unfold Sof. rewrite findn_rn by assumption. destruct (findn l a); reflexivity. Qed.
Lemma Pof_rn m l a : inj_on (mf m) (idsL l) -> In a (idsL l) -> Pof (map (rn m) l) (mf m a) = map (mf m) (Pof l a).
Proof. intros Hf Ha. unfold Pof. rewrite findn_rn by assumption. destruct (findn l a); reflexivity. Qed.

Lemma InvL_rn m l : InvL l -> inj_on (mf m) (idsL l) -> InvL (map (rn m) l).
Proof. intros HI Hf. pose proof HI as [H1 [H2 H3]]. pose proof (InvL_pred_closed l HI) as H4.
  assert (Himg : forall L x, (forall z, In z L -> In z (idsL l)) -> ~ In x (map (mf m) (idsL l)) -> cnt (map (mf m) L) x = 0).
  { intros L x HL Hx. apply cnt_zero_notin. intros Hin. apply in_map_iff in Hin. destruct Hin as [z [E Hz]].
    apply Hx. apply in_map_iff. exists z. split; [exact E|apply HL; exact Hz]. }
  split; [|split].
  - rewrite idsL_rn. apply NoDup_map_inj_on; assumption.
  - intros x y.
    destruct (in_dec Nat.eq_dec x (map (mf m) (idsL l))) as [Hx|Hx];
    destruct (in_dec Nat.eq_dec y (map (mf m) (idsL l))) as [Hy|Hy].
    + apply in_map_iff in Hx. destruct Hx as [a [Ea Ha]]. apply in_map_iff in Hy. destruct Hy as [b [Eb Hb]]. subst.
      rewrite Sof_rn, Pof_rn by assumption. rewrite !cnt_map_inj_on.
      * apply H2.
      * intros z Hz. apply Hf; [eapply H4; eauto|exact Ha].
      * intros z Hz. apply Hf; [eapply H3; eauto|exact Hb].
    + apply in_map_iff in Hx. destruct Hx as [a [Ea Ha]]. subst. rewrite Sof_rn by assumption.
      unfold Pof at 1. rewrite findn_rn_none by exact Hy. cbn [count_occ]. apply Himg; [|exact Hy]. intros z. apply H3.
    + apply in_map_iff in Hy. destruct Hy as [b [Eb Hb]]. subst. rewrite Pof_rn by assumption.
      unfold Sof at 1. rewrite findn_rn_none by exact Hx. cbn [count_occ]. symmetry. apply Himg; [|exact Hx]. intros z. apply H4.
    + unfold Sof, Pof. rewrite !findn_rn_none by assumption. reflexivity.
  - intros x y. rewrite idsL_rn. destruct (in_dec Nat.eq_dec x (map (mf m) (idsL l))) as [Hx|Hx].
    + apply in_map_iff in Hx. destruct Hx as [a [Ea Ha]]. subst. rewrite Sof_rn by assumption. intros Hy.
      apply in_map_iff in Hy. destruct Hy as [b [Eb Hb]]. subst. apply in_map. eapply H3; eauto.
    + unfold Sof. rewrite findn_rn_none by exact Hx. intros []. Qed.

(* ---------------------------------------------------------------------------------------------------------- *)
(* every operation preserves the invariant *)
Lemma InvL_ext l l' : idsL l' = idsL l -> (forall j, Sof l' j = Sof l j) -> (forall j, Pof l' j = Pof l j) ->
  InvL l -> InvL l'.
Proof. intros E1 E2 E3 [H1 [H2 H3]]. split; [|split].
  - rewrite E1. exact H1.
  - intros a b. rewrite E2, E3. apply H2.
  - intros a b. rewrite E2, E1. apply H3. Qed.
Lemma InvL_set_prods l i v : InvL l -> InvL (map_node i (set_prods v) l).
Proof. apply InvL_ext; [apply idsL_map_node; apply nid_set_prods | apply Sof_set_prods | apply Pof_set_prods]. Qed.

Lemma has_node_In w i : has_node w i = true <-> In i (ids w).
Proof. apply memn_In. Qed.
Lemma has_node_false w i : has_node w i = false <-> ~ In i (ids w).
Proof. apply memn_false. Qed.

Lemma Inv_rebuild w : Inv (rebuild w) <-> Inv w. Proof. unfold Inv. rewrite nodes_rebuild. tauto. Qed.
Lemma Inv_link w a b e d : Inv w -> In a (ids w) -> Inv (link w a b e d).
Proof. intros HI Ha. unfold link. destruct (has_node w b) eqn:Hb.
  - apply has_node_In in Hb. apply InvL_link_both; assumption.
  - apply has_node_false in Hb. apply InvL_link_fresh; assumption. Qed.
Lemma Inv_link_pred w a b e d : Inv w -> In a (ids w) -> Inv (link_pred w a b e d).
Proof. intros HI Ha. unfold link_pred. destruct (has_node w b) eqn:Hb.
  - apply has_node_In in Hb. apply InvL_linkp_both; assumption.
  - apply has_node_false in Hb. apply InvL_linkp_fresh; assumption. Qed.
Lemma Inv_add_node w i e d : Inv w -> Inv (add_node w i e d).
Proof. intros HI. unfold add_node. destruct (has_node w i) eqn:Hi; [exact HI|]. apply Inv_rebuild.
  apply has_node_false in Hi. apply InvL_add_fresh; assumption. Qed.
Lemma Inv_add_edge w a b w' : Inv w -> add_edge w a b = Ok w' -> Inv w'.
Proof. intros HI. unfold add_edge. destruct (mem_edge (a, b) (edges w)); [intros H; inversion H; subst; exact HI|].
  destruct (has_node w a) eqn:Ha; [|discriminate]. destruct (has_node w b) eqn:Hb; [|discriminate]. cbn [negb].
  intros H. inversion H; subst. apply Inv_rebuild. apply Inv_link; [exact HI|]. apply has_node_In. exact Ha. Qed.
Lemma Inv_add_edges l : forall w w', Inv w -> add_edges w l = Ok w' -> Inv w'.
Proof. induction l as [|[a b] r IH]; intros w w' HI H; cbn in H.
  - inversion H; subst. exact HI.
  - destruct (add_edge w a b) as [w1|] eqn:E; [|discriminate]. eapply IH; [|exact H]. eapply Inv_add_edge; eauto. Qed.
Lemma Inv_add_pnet w p : Inv (add_pnet w p) <-> Inv w. Proof. unfold Inv. reflexivity. Qed.

Lemma Inv_reindex w m w' : Inv w -> injective_on m (ids w) -> reindex w m = Ok w' -> Inv w'.
Proof. intros HI Hinj. unfold reindex. destruct (omap (reindex_node m) (nodes w)) as [l|] eqn:E; [|discriminate].
  intros H. inversion H; subst. apply Inv_rebuild. unfold Inv. cbn [nodes set_nodes].
  apply omap_reindex in E. destruct E as [E1 E2]. subst. apply InvL_rn; [exact HI|].
  intros a b Ha Hb Hab. apply Hinj; [exact Ha|exact Hb|]. rewrite (E2 a Ha), (E2 b Hb). congruence. Qed.

Lemma Inv_apply_op w o w' : Inv w -> op_valid w o -> apply_op w o = Ok w' -> Inv w'.
Proof. intros HI Hv. destruct o; cbn [apply_op].
  - intros H. inversion H; subst. apply Inv_add_node. exact HI.
  - apply Inv_add_edge. exact HI.
  - apply Inv_add_edges. exact HI.
  - unfold add_successor. destruct (has_node w a) eqn:Ha; [|discriminate]. intros H. inversion H; subst.
    apply Inv_rebuild. apply Inv_link; [exact HI|apply has_node_In; exact Ha].
  - unfold add_predecessor. destruct (has_node w a) eqn:Ha; [|discriminate]. intros H. inversion H; subst.
    apply Inv_rebuild. apply Inv_link_pred; [exact HI|apply has_node_In; exact Ha].
  - destruct (has_node w i) eqn:Hi.
    + apply has_node_In in Hi. destruct (remove_node_spec w i HI Hi) as [w3 [E [HI3 _]]]. rewrite E.
      intros H. inversion H; subst. exact HI3.
    + unfold remove_node. rewrite Hi. cbn [negb]. intros H. inversion H; subst. exact HI.
  - unfold node_add_product. destruct (find_node w n) as [nd|]; [|discriminate].
    destruct (memz (Z.of_nat p) (prods nd)); intros H; inversion H; subst; apply Inv_rebuild.
    + exact HI.
    + unfold Inv. cbn [nodes set_nodes add_pnet]. apply InvL_set_prods. exact HI.
  - unfold node_remove_product. destruct (find_node w n) as [nd|]; [|discriminate].
    destruct (memz (Z.of_nat p) (prods nd)); intros H; inversion H; subst; [|exact HI]. apply Inv_rebuild.
    unfold Inv. cbn [nodes set_nodes]. apply InvL_set_prods. exact HI.
  - unfold net_add_product. destruct (memz _ _); intros H; inversion H; subst; [exact HI|]. apply Inv_rebuild. exact HI.
  - unfold net_remove_product. destruct (in_products_by_index _ _); [|discriminate]. cbn [negb].
    destruct (memz _ _); intros H; inversion H; subst; [|exact HI]. apply Inv_rebuild. exact HI.
  - unfold set_bom. destruct (_ && _); [discriminate|]. intros H. inversion H; subst.
    destruct (memz _ _); [apply Inv_rebuild|]; exact HI.
  - apply Inv_reindex; assumption. Qed.

Lemma run_app_op ops : forall w o, run (ops ++ [o]) w = apply_op_r (run ops w) o.
Proof. intros w o. unfold run. rewrite fold_left_app. reflexivity. Qed.
Lemma run_cons o ops w : run (o :: ops) w = match apply_op w o with Ok w1 => run ops w1 | Err e => Err e end.
Proof. unfold run. cbn [fold_left apply_op_r]. destruct (apply_op w o) as [w1|e]; [reflexivity|].
  induction ops as [|o' r IH]; [reflexivity|exact IH]. Qed.

Theorem Inv_run ops : forall w w', Inv w -> ops_valid ops w -> run ops w = Ok w' -> Inv w'.
Proof. induction ops as [|o r IH]; intros w w' HI Hv H.
  - inversion H; subst. exact HI.
  - rewrite run_cons in H. cbn [ops_valid] in Hv. destruct Hv as [Hv1 Hv2].
    destruct (apply_op w o) as [w1|e] eqn:E; [|discriminate].
    eapply IH; [|exact Hv2|exact H]. eapply Inv_apply_op; eauto. Qed.
Lemma Inv_empty : Inv empty_net. Proof. exact InvL_nil. Qed.

(* ---------------------------------------------------------------------------------------------------------- *)
(* views *)
Notation cntE l e := (count_occ edge_dec l e).

Lemma index_lookupL l n : NoDup (idsL l) -> In n l -> findn l (nid n) = Some n.
Proof. unfold findn, idsL. induction l as [|m r IH]; intros H Hn; [destruct Hn|]. cbn. inversion H; subst.
  destruct Hn as [Hn|Hn]; [subst; rewrite Nat.eqb_refl; reflexivity|].
  destruct (Nat.eqb_spec (nid m) (nid n)) as [E|E]; [|auto]. exfalso. apply H2. rewrite E. apply in_map. exact Hn. Qed.

Lemma cntE_map_pair i L a b : cntE (map (fun s => (i, s)) L) (a, b) = if i =? a then cnt L b else 0.
Proof. induction L as [|s r IH]; cbn [map count_occ]; [destruct (i =? a); reflexivity|].
  rewrite IH. destruct (edge_dec (i, s) (a, b)) as [E|E], (Nat.eqb_spec i a) as [E1|E1], (Nat.eq_dec s b) as [E2|E2];
    try reflexivity; try congruence; subst; exfalso; apply E; reflexivity. Qed.
Lemma edges_cntL l a b : NoDup (idsL l) ->
  cntE (flat_map (fun n => map (fun s => (nid n, s)) (succs n)) l) (a, b) = cnt (Sof l a) b.
Proof. induction l as [|n r IH]; intros H; [reflexivity|]. cbn [flat_map]. rewrite count_occ_app, cntE_map_pair.
  inversion H; subst. rewrite IH by assumption. unfold Sof, findn. cbn [find].
  destruct (Nat.eqb_spec (nid n) a) as [E|E]; [|reflexivity]. subst.
  fold (findn r (nid n)). assert (F : findn r (nid n) = None) by (apply findn_None; exact H2). rewrite F. cbn. lia. Qed.

Theorem edges_view_cnt w a b : Inv w -> cntE (edges w) (a, b) = cnt (succs_of w a) b.
Proof. intros [H _]. apply edges_cntL. exact H. Qed.
Theorem edges_view w a b : Inv w -> (In (a, b) (edges w) <-> In b (succs_of w a)).
Proof. intros HI. rewrite (count_occ_In edge_dec), (count_occ_In Nat.eq_dec). rewrite edges_view_cnt by exact HI. tauto. Qed.
Theorem edges_view_pred w a b : Inv w -> (In (a, b) (edges w) <-> In a (preds_of w b)).
Proof. intros HI. rewrite edges_view by exact HI. rewrite !(count_occ_In Nat.eq_dec).
  destruct HI as [_ [H2 _]]. change (succs_of w a) with (Sof (nodes w) a). rewrite H2. tauto. Qed.
Theorem edges_endpoints w a b : Inv w -> In (a, b) (edges w) -> In a (ids w) /\ In b (ids w).
Proof. intros HI H. pose proof H as H'. apply edges_view in H; [|exact HI]. apply edges_view_pred in H'; [|exact HI]. split.
  - eapply (InvL_pred_closed _ HI); eauto.
  - destruct HI as [_ [_ H3]]. eapply H3; eauto. Qed.

Theorem index_lookup w : Inv w ->
  NoDup (ids w) /\
  (forall n, In n (nodes w) -> find_node w (nid n) = Some n) /\
  (forall i n, find_node w i = Some n -> In n (nodes w) /\ nid n = i) /\
  (forall i, find_node w i = None <-> ~ In i (ids w)).
Proof. intros [H _]. split; [exact H|]. split; [|split].
  - intros n Hn. apply index_lookupL; assumption.
  - intros i n. apply findn_Some.
  - intros i. apply findn_None. Qed.

Lemma and_iff_ctx (A B C : Prop) : (A -> (B <-> C)) -> (A /\ B <-> A /\ C).
Proof. tauto. Qed.
Lemma is_nil_cnt (l : list nat) : is_nil l = true <-> forall x, cnt l x = 0.
Proof. destruct l as [|y r]; cbn [is_nil]; split; intros H; try reflexivity; try discriminate.
  specialize (H y). rewrite cnt_cons, Nat.eqb_refl in H. lia. Qed.
Theorem sources_view w n : Inv w ->
  (In n (source_nodes w) <-> In n (nodes w) /\ forall a, ~ In (a, nid n) (edges w)).
Proof. intros HI. unfold source_nodes. rewrite filter_In. apply and_iff_ctx. intros Hn.
  assert (E : preds n = preds_of w (nid n)).
  { unfold preds_of. destruct (index_lookup w HI) as [_ [L _]]. rewrite (L n Hn). reflexivity. }
  rewrite is_nil_cnt, E. split; intros H a.
  - rewrite edges_view_pred by exact HI. apply cnt_zero_notin. apply H.
  - apply cnt_zero_notin. rewrite <- edges_view_pred by exact HI. apply H. Qed.
Theorem sinks_view w n : Inv w ->
  (In n (sink_nodes w) <-> In n (nodes w) /\ forall b, ~ In (nid n, b) (edges w)).
Proof. intros HI. unfold sink_nodes. rewrite filter_In. apply and_iff_ctx. intros Hn.
  assert (E : succs n = succs_of w (nid n)).
  { unfold succs_of. destruct (index_lookup w HI) as [_ [L _]]. rewrite (L n Hn). reflexivity. }
  rewrite is_nil_cnt, E. split; intros H a.
  - rewrite edges_view by exact HI. apply cnt_zero_notin. apply H.
  - apply cnt_zero_notin. rewrite <- edges_view by exact HI. apply H. Qed.

(* ---------------------------------------------------------------------------------------------------------- *)
(* reachability: descendants / ancestors *)

Lemma rch_snoc nb a b c : rch nb a b -> In c (nb b) -> rch nb a c.
Proof. induction 1 as [a b H|a c' b H _ IH]; intros Hc.
  - eapply rchS; [exact H|apply rch1; exact Hc].
  - eapply rchS; [exact H|apply IH; exact Hc]. Qed.
Lemma rch_ext nb nb' a b : (forall x y, In y (nb x) <-> In y (nb' x)) -> rch nb a b -> rch nb' a b.
Proof. intros E. induction 1 as [a b H|a c b H _ IH].
  - apply rch1. apply E. exact H.
  - eapply rchS; [apply E; exact H|exact IH]. Qed.
(* reversing all arcs reverses reachability *)
Lemma rch_rev nb nb' a b : (forall x y, In y (nb x) <-> In x (nb' y)) -> rch nb a b -> rch nb' b a.
Proof. intros E. induction 1 as [a b H|a c b H _ IH].
  - apply rch1. apply E. exact H.
  - eapply rch_snoc; [exact IH|]. apply E. exact H. Qed.

Lemma add_new_In S new x : In x (add_new S new) <-> In x S \/ In x new.
Proof. unfold add_new. revert S. induction new as [|y r IH]; intros S; cbn [fold_left In]; [tauto|].
  rewrite IH. destruct (memn y S) eqn:M.
  - apply memn_In in M. split; [tauto|]. intros [H|[H|H]]; subst; tauto.
  - rewrite in_app_iff. cbn [In]. tauto. Qed.
Lemma expand_In nb S x : In x (expand nb S) <-> In x S \/ exists y, In y S /\ In x (nb y).
Proof. unfold expand. rewrite add_new_In, in_flat_map. tauto. Qed.
Lemma saturate_sound nb (P : nat -> Prop) : (forall x y, P x -> In y (nb x) -> P y) ->
  forall k S, (forall x, In x S -> P x) -> forall x, In x (saturate nb k S) -> P x.
Proof. intros HP. induction k as [|k IH]; intros S HS x Hx; cbn [saturate] in Hx; [auto|].
  eapply IH; [|exact Hx]. intros z Hz. apply expand_In in Hz. destruct Hz as [Hz|[y [Hy Hz]]]; [auto|].
  eapply HP; [apply HS; exact Hy|exact Hz]. Qed.
Lemma saturate_mono nb k : forall S x, In x S -> In x (saturate nb k S).
Proof. induction k as [|k IH]; intros S x H; cbn [saturate]; [exact H|]. apply IH. apply expand_In. left. exact H. Qed.
Lemma closedb_spec nb S : closedb nb S = true <-> forall x y, In x S -> In y (nb x) -> In y S.
Proof. unfold closedb. rewrite forallb_forall. split.
  - intros H x y Hx Hy. apply memn_In. apply H. apply in_flat_map. eauto.
  - intros H y Hy. apply in_flat_map in Hy. destruct Hy as [x [Hx Hy]]. apply memn_In. eapply H; eauto. Qed.
Lemma closed_rch nb S : (forall x y, In x S -> In y (nb x) -> In y S) -> forall c b, rch nb c b -> In c S -> In b S.
Proof. intros HC c b H. induction H as [a b H|a c b H _ IH]; intros Ha.
  - eapply HC; eauto.
  - apply IH. eapply HC; eauto. Qed.

Theorem reach_set_spec nb fuel a S : reach_set nb fuel a = Some S -> forall b, In b S <-> rch nb a b.
Proof. unfold reach_set. destruct (closedb nb _) eqn:C; [|discriminate]. intros H. inversion H; subst. clear H.
  intros b. split.
  - apply (saturate_sound nb (rch nb a)).
    + intros x y Hx Hy. eapply rch_snoc; eauto.
    + intros x Hx. apply add_new_In in Hx. destruct Hx as [[]|Hx]. apply rch1. exact Hx.
  - intros H. rewrite closedb_spec in C.
    assert (H0 : forall x, In x (nb a) -> In x (saturate nb fuel (add_new [] (nb a)))).
    { intros x Hx. apply saturate_mono. apply add_new_In. right. exact Hx. }
    inversion H as [a' b' H1|a' c b' H1 H2]; subst.
    + apply H0. exact H1.
    + eapply closed_rch; [exact C|exact H2|apply H0; exact H1]. Qed.

Lemma remove_nat_In a l x : In x (remove_nat a l) <-> In x l /\ x <> a.
Proof. unfold remove_nat. rewrite filter_In. destruct (Nat.eqb_spec x a); cbn; split; intros [H1 H2]; try congruence; auto. Qed.

Lemma g_succ_In w a b : Inv w -> (In b (g_succ w a) <-> In b (succs_of w a)).
Proof. intros HI. unfold g_succ. rewrite in_map_iff. split.
  - intros [n [E H]]. apply filter_In in H. destruct H as [Hn Hm]. apply memn_In in Hm. subst.
    destruct (index_lookup w HI) as [_ [L _]]. apply edges_view; [exact HI|]. apply edges_view_pred; [exact HI|].
    unfold preds_of. rewrite (L n Hn). exact Hm.
  - intros H. apply edges_view in H; [|exact HI]. apply edges_view_pred in H; [|exact HI].
    unfold preds_of in H. destruct (find_node w b) as [n|] eqn:F; [|destruct H].
    destruct (index_lookup w HI) as [_ [_ [L _]]]. destruct (L b n F) as [L1 L2].
    exists n. split; [exact L2|]. apply filter_In. split; [exact L1|]. apply memn_In. exact H. Qed.

Theorem descendants_view w a D : Inv w -> descendants w a = Some D ->
  forall b, In b D <-> path w a b /\ b <> a.
Proof. intros HI. unfold descendants. destruct (reach_set _ _ a) as [S|] eqn:R; [|discriminate].
  intros H. inversion H; subst. intros b. rewrite remove_nat_In. rewrite (reach_set_spec _ _ _ _ R).
  unfold path. split; intros [H1 H2]; (split; [|exact H2]).
  - eapply rch_ext; [|exact H1]. intros x y. apply g_succ_In. exact HI.
  - eapply rch_ext; [|exact H1]. intros x y. symmetry. apply g_succ_In. exact HI. Qed.
Theorem ancestors_view w a A : Inv w -> ancestors w a = Some A ->
  forall b, In b A <-> path w b a /\ b <> a.
Proof. intros HI. unfold ancestors. destruct (reach_set _ _ a) as [S|] eqn:R; [|discriminate].
  intros H. inversion H; subst. intros b. rewrite remove_nat_In. rewrite (reach_set_spec _ _ _ _ R).
  assert (E : forall x y, In y (g_pred w x) <-> In x (succs_of w y)).
  { intros x y. unfold g_pred. rewrite <- edges_view, <- edges_view_pred by exact HI. tauto. }
  unfold path. split; intros [H1 H2]; (split; [|exact H2]).
  - eapply rch_rev; [|exact H1]. exact E.
  - eapply rch_rev; [|exact H1]. intros x y. symmetry. apply E. Qed.

(* ---------------------------------------------------------------------------------------------------------- *)
(* reindex_nodes with an injective renaming yields the image network *)
Lemma edges_rn m l :
  flat_map (fun n => map (fun s => (nid n, s)) (succs n)) (map (rn m) l)
  = map (ren_edge (mf m)) (flat_map (fun n => map (fun s => (nid n, s)) (succs n)) l).
Proof. induction l as [|n r IH]; [reflexivity|]. cbn [map flat_map]. rewrite map_app, IH. f_equal.
  cbn [rn nid succs]. rewrite !map_map. reflexivity. Qed.
Lemma Prof_rn m l a : inj_on (mf m) (idsL l) -> In a (idsL l) ->
  match findn (map (rn m) l) (mf m a) with Some n => prods n | None => [] end
  = map (fun p => if Z.eqb p (dummy_idx a) then dummy_idx (mf m a) else p) (match findn l a with Some n => prods n | None => [] end).
Proof. intros Hf Ha. rewrite findn_rn by assumption. destruct (findn l a) as [n|] eqn:F; [|reflexivity].
  apply findn_Some in F. destruct F as [_ F]. subst. reflexivity. Qed.

Theorem reindex_iso w m w' : Inv w -> injective_on m (ids w) -> reindex w m = Ok w' ->
  let f := mf m in
  Inv w' /\
  (forall a, In a (ids w) -> lookup m a = Some (f a)) /\
  ids w' = map f (ids w) /\
  (forall a, In a (ids w) -> succs_of w' (f a) = map f (succs_of w a)) /\
  (forall a, In a (ids w) -> preds_of w' (f a) = map f (preds_of w a)) /\
  edges w' = map (ren_edge f) (edges w) /\
  (forall a, In a (ids w) ->
     prods_of w' (f a) = map (fun p => if Z.eqb p (dummy_idx a) then dummy_idx (f a) else p) (prods_of w a)) /\
  map (fun n => (ext n, dem n)) (nodes w') = map (fun n => (ext n, dem n)) (nodes w).
Proof. intros HI Hinj H. cbn zeta. split; [eapply Inv_reindex; eauto|].
  unfold reindex in H. destruct (omap (reindex_node m) (nodes w)) as [l|] eqn:E; [|discriminate].
  inversion H; subst. clear H. apply omap_reindex in E. destruct E as [E1 E2]. subst l.
  assert (Hf : inj_on (mf m) (idsL (nodes w))).
  { intros a b Ha Hb Hab. apply Hinj; [exact Ha|exact Hb|]. rewrite (E2 a Ha), (E2 b Hb). congruence. }
  split; [exact E2|]. unfold ids, succs_of, preds_of, prods_of, edges, find_node. cbn [nodes rebuild set_nodes].
  split; [apply idsL_rn|]. split; [|split; [|split; [|split]]].
  - intros a Ha. apply Sof_rn; assumption.
  - intros a Ha. apply Pof_rn; assumption.
  - apply edges_rn.
  - intros a Ha. apply Prof_rn; assumption.
  - rewrite map_map. reflexivity. Qed.

(* ---------------------------------------------------------------------------------------------------------- *)
(* the fuel (number of nodes) always suffices *)
Lemma add_new_NoDup new : forall S, NoDup S -> NoDup (add_new S new).
Proof. unfold add_new. induction new as [|y r IH]; intros S H; cbn [fold_left]; [exact H|].
  apply IH. destruct (memn y S) eqn:M; [exact H|]. apply NoDup_snoc; [exact H|]. apply memn_false. exact M. Qed.
Lemma add_new_len new : forall S, length S <= length (add_new S new).
Proof. unfold add_new. induction new as [|y r IH]; intros S; cbn [fold_left]; [lia|].
  etransitivity; [|apply IH]. destruct (memn y S); [lia|]. rewrite app_length. cbn. lia. Qed.
Lemma add_new_same new : forall S, forallb (fun y => memn y S) new = true -> add_new S new = S.
Proof. unfold add_new. induction new as [|y r IH]; intros S H; cbn [fold_left]; [reflexivity|].
  cbn [forallb] in H. apply andb_true_iff in H. destruct H as [H1 H2]. rewrite H1. apply IH. exact H2. Qed.
Lemma add_new_grow new : forall S, forallb (fun y => memn y S) new = false -> length S < length (add_new S new).
Proof. induction new as [|y r IH]; intros S H; [discriminate|]. cbn [forallb] in H.
  unfold add_new. cbn [fold_left]. destruct (memn y S) eqn:M.
  - cbn [andb] in H. apply IH. exact H.
  - fold (add_new (S ++ [y]) r). pose proof (add_new_len r (S ++ [y])) as L. rewrite app_length in L. cbn in L. lia. Qed.
Lemma saturate_closed nb k : forall S, closedb nb S = true -> saturate nb k S = S.
Proof. induction k as [|k IH]; intros S H; cbn [saturate]; [reflexivity|].
  assert (E : expand nb S = S) by (apply add_new_same; exact H). rewrite E. apply IH. exact H. Qed.
Lemma saturate_grow nb k : forall S, closedb nb (saturate nb k S) = false -> length S + k <= length (saturate nb k S).
Proof. induction k as [|k IH]; intros S H; cbn [saturate] in *; [lia|].
  destruct (closedb nb S) eqn:C.
  - assert (E : expand nb S = S) by (apply add_new_same; exact C). rewrite E in H.
    rewrite saturate_closed in H by exact C. congruence.
  - specialize (IH _ H). pose proof (add_new_grow _ _ C) as G. fold (expand nb S) in G. lia. Qed.
Lemma saturate_inv nb (U : list nat) : (forall x y, In y (nb x) -> In y U) ->
  forall k S, NoDup S -> incl S U -> NoDup (saturate nb k S) /\ incl (saturate nb k S) U.
Proof. intros HU. induction k as [|k IH]; intros S H1 H2; cbn [saturate]; [auto|]. apply IH.
  - apply add_new_NoDup. exact H1.
  - intros x Hx. apply expand_In in Hx. destruct Hx as [Hx|[y [_ Hy]]]; [auto|eapply HU; eauto]. Qed.

Theorem reach_set_fuel nb (U : list nat) a : (forall x y, In y (nb x) -> In y U) ->
  exists S, reach_set nb (length U) a = Some S.
Proof. intros HU. unfold reach_set. set (S0 := add_new [] (nb a)).
  destruct (closedb nb (saturate nb (length U) S0)) eqn:C; [eauto|]. exfalso.
  assert (N0 : NoDup S0) by (apply add_new_NoDup; constructor).
  assert (I0 : incl S0 U). { intros x Hx. apply add_new_In in Hx. destruct Hx as [[]|Hx]. eapply HU; eauto. }
  destruct (saturate_inv nb U HU (length U) S0 N0 I0) as [N1 I1].
  pose proof (saturate_grow nb _ _ C) as G.
  pose proof (add_new_grow _ _ C) as G2. fold (expand nb (saturate nb (length U) S0)) in G2.
  destruct (saturate_inv nb U HU 1 _ N1 I1) as [N2 I2]. cbn [saturate] in N2, I2.
  pose proof (NoDup_incl_length N2 I2). lia. Qed.

Theorem descendants_total w a : Inv w -> exists D, descendants w a = Some D.
Proof. intros HI. unfold descendants.
  destruct (reach_set_fuel (g_succ w) (ids w) a) as [S E].
  - intros x y. unfold g_succ, ids. rewrite !in_map_iff. intros [n [E H]]. apply filter_In in H. exists n. tauto.
  - unfold ids in E. rewrite map_length in E. rewrite E. cbn. eauto. Qed.
Theorem ancestors_total w a : Inv w -> exists A, ancestors w a = Some A.
Proof. intros HI. unfold ancestors.
  destruct (reach_set_fuel (g_pred w) (ids w) a) as [S E].
  - intros x y. unfold g_pred. apply (InvL_pred_closed _ HI).
  - unfold ids in E. rewrite map_length in E. rewrite E. cbn. eauto. Qed.

(* ---------------------------------------------------------------------------------------------------------- *)
(* final statements used by Props/C18.v *)
Lemma reachable_Inv w : reachable w -> Inv w.
Proof. intros [ops [Hv H]]. eapply Inv_run; [exact Inv_empty|exact Hv|exact H]. Qed.

Theorem adj_symmetric_run ops w : ops_valid ops empty_net -> run ops empty_net = Ok w ->
  NoDup (ids w) /\
  (forall a b, count_occ Nat.eq_dec (succs_of w a) b = count_occ Nat.eq_dec (preds_of w b) a) /\
  (forall a b, In b (succs_of w a) -> In a (ids w) /\ In b (ids w)) /\
  (forall a b, In a (preds_of w b) -> In a (ids w) /\ In b (ids w)).
Proof. intros Hv H. assert (HI : Inv w) by (apply reachable_Inv; exists ops; auto).
  pose proof HI as [H1 [H2 H3]]. split; [exact H1|]. split; [exact H2|]. split.
  - intros a b Hb. split; [|eapply H3; eauto]. destruct (find_node w a) as [n|] eqn:F.
    + apply findn_Some in F. destruct F as [F1 F2]. subst. apply in_map. exact F1.
    + unfold succs_of in Hb. rewrite F in Hb. destruct Hb.
  - intros a b Ha. split; [eapply (InvL_pred_closed _ HI); eauto|eapply (InvL_pred_is_node _ HI); eauto]. Qed.

Theorem edges_view_final w : reachable w -> forall a b,
  count_occ edge_dec (edges w) (a, b) = count_occ Nat.eq_dec (succs_of w a) b /\
  (In (a, b) (edges w) <-> In b (succs_of w a)) /\
  (In (a, b) (edges w) <-> In a (preds_of w b)) /\
  (In (a, b) (edges w) -> In a (ids w) /\ In b (ids w)).
Proof. intros R a b. apply reachable_Inv in R. split; [apply edges_view_cnt; exact R|].
  split; [apply edges_view; exact R|]. split; [apply edges_view_pred; exact R|apply edges_endpoints; exact R]. Qed.
Theorem sources_sinks_final w : reachable w -> forall n,
  (In n (source_nodes w) <-> In n (nodes w) /\ forall a, ~ In (a, nid n) (edges w)) /\
  (In n (sink_nodes w) <-> In n (nodes w) /\ forall b, ~ In (nid n, b) (edges w)).
Proof. intros R n. apply reachable_Inv in R. split; [apply sources_view|apply sinks_view]; exact R. Qed.
Theorem index_lookup_final w : reachable w ->
  NoDup (ids w) /\
  (forall n, In n (nodes w) -> find_node w (nid n) = Some n) /\
  (forall i n, find_node w i = Some n -> In n (nodes w) /\ nid n = i) /\
  (forall i, find_node w i = None <-> ~ In i (ids w)).
Proof. intros R. apply index_lookup. apply reachable_Inv. exact R. Qed.
Theorem reach_views_final w a : reachable w ->
  (exists D, descendants w a = Some D /\ forall b, In b D <-> path w a b /\ b <> a) /\
  (exists A, ancestors w a = Some A /\ forall b, In b A <-> path w b a /\ b <> a).
Proof. intros R. apply reachable_Inv in R. split.
  - destruct (descendants_total w a R) as [D E]. exists D. split; [exact E|apply descendants_view; assumption].
  - destruct (ancestors_total w a R) as [A E]. exists A. split; [exact E|apply ancestors_view; assumption]. Qed.
Theorem remove_node_final w i : reachable w -> In i (ids w) ->
  exists w', remove_node w i = Ok w' /\
    (forall x, In x (ids w') <-> In x (ids w) /\ x <> i) /\
    (forall x y, x <> i -> y <> i ->
       count_occ Nat.eq_dec (succs_of w' x) y = count_occ Nat.eq_dec (succs_of w x) y /\
       count_occ Nat.eq_dec (preds_of w' x) y = count_occ Nat.eq_dec (preds_of w x) y).
Proof. intros R Hi. apply reachable_Inv in R. destruct (remove_node_spec w i R Hi) as [w3 [E [_ [H1 [_ [H2 H3]]]]]].
  exists w3. split; [exact E|]. split; [exact H1|]. intros x y Hx Hy. split; [apply H2|apply H3]; assumption. Qed.
Theorem reindex_iso_final w m w' : reachable w -> injective_on m (ids w) -> reindex w m = Ok w' ->
  let f := mf m in
  reachable w' /\
  ids w' = map f (ids w) /\
  (forall a, In a (ids w) -> succs_of w' (f a) = map f (succs_of w a) /\ preds_of w' (f a) = map f (preds_of w a)) /\
  edges w' = map (ren_edge f) (edges w) /\
  (forall a, In a (ids w) ->
     prods_of w' (f a) = map (fun p => if Z.eqb p (dummy_idx a) then dummy_idx (f a) else p) (prods_of w a)).
Proof. intros R Hinj E. cbn zeta. destruct (reindex_iso w m w' (reachable_Inv w R) Hinj E) as [_ [_ [H1 [H2 [H3 [H4 [H5 _]]]]]]].
  split; [|split; [exact H1|split; [|split; [exact H4|exact H5]]]].
  - destruct R as [ops [Hv Hr]]. exists (ops ++ [OReindex m]). split.
    + clear - Hv Hr Hinj E. revert Hv Hr. generalize empty_net. induction ops as [|o r IH]; intros w0 Hv Hr.
      * cbn in Hr. inversion Hr; subst. cbn [app ops_valid op_valid apply_op]. rewrite E. cbn. auto.
      * cbn [app ops_valid] in *. destruct Hv as [Hv1 Hv2]. split; [exact Hv1|]. rewrite run_cons in Hr.
        destruct (apply_op w0 o) as [w1|]; [|discriminate]. apply IH; assumption.
    + rewrite run_app_op, Hr. exact E.
  - intros a Ha. split; [apply H2|apply H3]; exact Ha. Qed.
