(* Model of how network_from_edges (supply_chain_network.py, the loop "for n in network.nodes:") places
   OBJECT-valued keyword arguments at the nodes: inventory_policy (Policy objects, which carry a back link
   .node) and disruption_process (DisruptionProcess objects, no back link).  Object identity is explicit.
   Executable; proofs in Placement_proofs.v.

   Python (current source), per node n in network.nodes order:
       if data_dict[n.index].get('inventory_policy') is not None:
           pol = data_dict[n.index]['inventory_policy']
           if any(m is not n and m.inventory_policy is pol for m in network.nodes): pol = copy.copy(pol)
           n.inventory_policy = pol ; n.inventory_policy.node = n
       else:
           pol = Policy() ; pol.node = n ; ... ; n.inventory_policy = pol
   and the same for disruption_process without the .node assignment.  Before the loop every node already holds
   the object made by the SupplyChainNode constructor (Policy(node=self), DisruptionProcess()).
   The pre-fix source had no "if any(...)" line.

   CONVENTIONS
   * Object identities are natural numbers.  In the argument [a : arg oid] EQUAL numbers are THE SAME object:
     AScalar 7 offers object 7 to every node, AList [Some 3; Some 3; None] offers object 3 to two nodes.
     (serial_system / owmr_system / mwor_system deep-copy the kwargs first; deepcopy keeps the sharing pattern
     inside the kwargs, so for these callers the numbers name the deep-copied objects.)
   * [base a] = 1 + the largest identity in [a].  Identities < base a are the caller's objects; every object made
     by the library has an identity >= base a:
       - the constructor's object of the k-th node of network.nodes is  base a + k   (k = 0 .. length ns - 1),
       - everything allocated during the loop (the Policy() of the else branch, and each copy.copy) takes the
         fresh counter [p_next], which starts at base a + length ns and is incremented by each allocation.
   * State:  p_held  : node -> object held (association list in network.nodes order, updated in place; it is total
                       on the nodes from the start, so the scan "any(m is not n and m.inventory_policy is pol)"
                       ranges over ALL nodes, processed or not, as in Python);
             p_store : object -> its .node link (association list, newest binding first; an object without a
                       binding has .node = None; the caller's objects start without a binding);
             p_orig  : copy -> the object it was copied from (for the "value" of an object);
             p_next  : fresh counter.
     The .node link is written THROUGH THE STORE (object -> link), and the final link of a node's object is read
     from the store at the end; two nodes holding the same object therefore see the same link (aliasing is real).
   * copy.copy(pol) is a shallow copy: the new object first gets pol's current .node, then .node := n. *)
From SV Require Export Net.Builders.
Local Open Scope nat_scope.

Definition oid := nat.

Record pstate := mkP {
  p_held : list (nat * oid);
  p_store : list (oid * nat);
  p_orig : list (oid * oid);
  p_next : nat }.

Fixpoint lookup {B} (k : nat) (l : list (nat * B)) : option B :=
  match l with [] => None | (k', v) :: r => if k' =? k then Some v else lookup k r end.

(* n.inventory_policy = p *)
Definition set_held (n : nat) (p : oid) (h : list (nat * oid)) : list (nat * oid) :=
  map (fun q => if fst q =? n then (n, p) else q) h.
(* any(m is not n and m.inventory_policy is o for m in network.nodes) *)
Definition held_elsewhere (n : nat) (o : oid) (h : list (nat * oid)) : bool :=
  existsb (fun q => negb (fst q =? n) && (snd q =? o)) h.
(* the caller's object an object stands for (a copy stands for its original) *)
Definition orig_of (og : list (oid * oid)) (p : oid) : oid := match lookup p og with Some o => o | None => p end.

Definition opt_list {V} (o : option V) : list V := match o with Some v => [v] | None => [] end.
Definition arg_ids (a : arg oid) : list oid :=
  match a with
  | ANone => []
  | AScalar v => [v]
  | AList l => flat_map opt_list l
  | ADict d => flat_map (fun p => opt_list (snd p)) d
  end.
Definition base (a : arg oid) : nat := S (list_max (arg_ids a)).

(* state after the SupplyChainNode constructors: node k holds base a + k, whose .node is that node *)
Definition init_state (ns : list nat) (a : arg oid) : pstate :=
  let h := combine ns (seq (base a) (length ns)) in
  mkP h (map (fun q => (snd q, fst q)) h) [] (base a + length ns).

(* the else branch: pol = Policy(); pol.node = n; n.inventory_policy = pol *)
Definition place_default (s : pstate) (n : nat) : pstate :=
  let p := p_next s in mkP (set_held n p (p_held s)) ((p, n) :: p_store s) (p_orig s) (S (p_next s)).

(* one iteration of the loop, current source *)
Definition step (a : arg oid) (order : list nat) (s : pstate) (n : nat) : pstate :=
  match data a order n with
  | None => place_default s n
  | Some o =>
      if held_elsewhere n o (p_held s) then
        let c := p_next s in
        (* c = copy.copy(o): c.node = o.node (if set); then n.inventory_policy = c; c.node = n *)
        let st1 := match lookup o (p_store s) with Some k => (c, k) :: p_store s | None => p_store s end in
        mkP (set_held n c (p_held s)) ((c, n) :: st1) ((c, o) :: p_orig s) (S (p_next s))
      else
        (* n.inventory_policy = o; o.node = n *)
        mkP (set_held n o (p_held s)) ((o, n) :: p_store s) (p_orig s) (p_next s)
  end.
(* one iteration of the loop, source before the fix: no copy *)
Definition step_old (a : arg oid) (order : list nat) (s : pstate) (n : nat) : pstate :=
  match data a order n with
  | None => place_default s n
  | Some o => mkP (set_held n o (p_held s)) ((o, n) :: p_store s) (p_orig s) (p_next s)
  end.

Definition run (ns order : list nat) (a : arg oid) : pstate := fold_left (step a order) ns (init_state ns a).
Definition run_old (ns order : list nat) (a : arg oid) : pstate := fold_left (step_old a order) ns (init_state ns a).

(* final .node of object p, read from the store.  Every object that is placed gets a binding, so the default
   (the object's own identity) is never used for a held object (place_self_link_store). *)
Definition link_of (s : pstate) (p : oid) : nat := match lookup p (p_store s) with Some k => k | None => p end.
(* (node, object held, .node of that object) in network.nodes order *)
Definition view (s : pstate) : list (nat * oid * nat) := map (fun q => (fst q, snd q, link_of s (snd q))) (p_held s).

Definition place_pol (ns order : list nat) (a : arg oid) : list (nat * oid * nat) := view (run ns order a).
Definition place_pol_old (ns order : list nat) (a : arg oid) : list (nat * oid * nat) := view (run_old ns order a).
(* disruption_process: the same placement, the objects have no back link *)
Definition place_dp (ns order : list nat) (a : arg oid) : list (nat * oid) := p_held (run ns order a).
Definition place_dp_old (ns order : list nat) (a : arg oid) : list (nat * oid) := p_held (run_old ns order a).
(* the caller's object that the object p of the final state stands for *)
Definition place_orig (ns order : list nat) (a : arg oid) (p : oid) : oid := orig_of (p_orig (run ns order a)) p.

(* values instead of identities: the argument as the existing Builders model sees it *)
Definition arg_map {U V} (f : U -> V) (a : arg U) : arg V :=
  match a with
  | ANone => ANone
  | AScalar v => AScalar (f v)
  | AList l => AList (map (option_map f) l)
  | ADict d => ADict (map (fun p => (fst p, option_map f (snd p))) d)
  end.

(* ---- observations for the harness -------------------------------------------------------------------------- *)
(* partition of the nodes into groups holding one object: each group sorted by index, groups in the order in which
   their first member appears in network.nodes *)
Fixpoint groups_from (seen : list oid) (l all : list (nat * oid)) : list (list nat) :=
  match l with
  | [] => []
  | (n, p) :: r =>
      if memn p seen then groups_from seen r all
      else sort_nat (map fst (filter (fun q => snd q =? p) all)) :: groups_from (p :: seen) r all
  end.
Definition groups (h : list (nat * oid)) : list (list nat) := groups_from [] h h.
Definition place_obs (ns order : list nat) (a : arg oid) : list (list nat) := groups (place_dp ns order a).
Definition place_obs_old (ns order : list nat) (a : arg oid) : list (list nat) := groups (place_dp_old ns order a).
(* (node.index, node.inventory_policy.node.index) in network.nodes order *)
Definition place_links (ns order : list nat) (a : arg oid) : list (nat * nat) :=
  map (fun t => (fst (fst t), snd t)) (place_pol ns order a).
Definition place_links_old (ns order : list nat) (a : arg oid) : list (nat * nat) :=
  map (fun t => (fst (fst t), snd t)) (place_pol_old ns order a).

(* ---- examples ---------------------------------------------------------------------------------------------- *)
(* singleton, 3 nodes: base = 8, constructor objects 8 9 10; node 0 keeps the caller's object, 1 and 2 get copies *)
Example ex_scalar : place_pol [0; 1; 2] [0; 1; 2] (AScalar 7) = [(0, 7, 0); (1, 11, 1); (2, 12, 2)].
Proof. vm_compute. reflexivity. Qed.
Example ex_scalar_obs : place_obs [0; 1; 2] [0; 1; 2] (AScalar 7) = [[0]; [1]; [2]]
  /\ place_links [0; 1; 2] [0; 1; 2] (AScalar 7) = [(0, 0); (1, 1); (2, 2)].
Proof. vm_compute. split; reflexivity. Qed.
(* list with a repeated object and a None slot (network.nodes order differs from node_order_in_lists) *)
Example ex_list : place_pol [3; 1; 2] [1; 2; 3] (AList [Some 5; None; Some 5]) = [(3, 5, 3); (1, 9, 1); (2, 10, 2)]
  /\ place_obs [3; 1; 2] [1; 2; 3] (AList [Some 5; None; Some 5]) = [[3]; [1]; [2]]
  /\ place_orig [3; 1; 2] [1; 2; 3] (AList [Some 5; None; Some 5]) 9 = 5.
Proof. vm_compute. repeat split; reflexivity. Qed.
(* dict with a missing node and an explicit None *)
Example ex_dict : place_pol [0; 1; 2; 3] [0; 1; 2; 3] (ADict [(0, Some 4); (2, Some 4); (3, None)])
    = [(0, 4, 0); (1, 9, 1); (2, 10, 2); (3, 11, 3)]
  /\ place_links [0; 1; 2; 3] [0; 1; 2; 3] (ADict [(0, Some 4); (2, Some 4); (3, None)]) = [(0, 0); (1, 1); (2, 2); (3, 3)].
Proof. vm_compute. split; reflexivity. Qed.
(* the source before the fix: one object at all three nodes, and its .node is the LAST node *)
Example place_old_refuted :
  place_pol_old [0; 1; 2] [0; 1; 2] (AScalar 7) = [(0, 7, 2); (1, 7, 2); (2, 7, 2)]
  /\ place_obs_old [0; 1; 2] [0; 1; 2] (AScalar 7) = [[0; 1; 2]]
  /\ place_links_old [0; 1; 2] [0; 1; 2] (AScalar 7) = [(0, 2); (1, 2); (2, 2)].
Proof. vm_compute. repeat split; reflexivity. Qed.
Example ex_old_list : place_obs_old [0; 1; 2; 3] [0; 1; 2; 3] (AList [Some 5; None; Some 5; Some 6]) = [[0; 2]; [1]; [3]].
Proof. vm_compute. reflexivity. Qed.
