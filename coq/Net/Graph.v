(* Model of the structure part of stockpyl.supply_chain_network / supply_chain_node / supply_chain_product.
   Executable; no proofs here (see Graph_proofs.v).

   A [net] is the state reachable through the public API of ONE SupplyChainNetwork object plus the pool of
   SupplyChainProduct objects the caller holds:
     nodes   network.nodes (ordered); per node: index, _predecessor_indices, _successor_indices (ordered, with
             multiplicity), _product_indices (ordered, dummy product included), supply_type is not None,
             demand_source.type is not None
     nprods  [p.index for p in network._products]   (ordered; dummy and external-supplier dummy products included)
     nlocal  network._local_product_indices
     bom     the _bill_of_materials dicts of the product objects (product, raw material, quantity)
     pnet    indices of the product objects whose .network attribute has been set
   Node identity in Python is by index (SupplyChainNode.__eq__), product identity likewise.
   Every public mutator ends with network._build_node_attributes() (nodes_by_index = {n.index: n}) and
   network._build_product_attributes() ([rebuild] below); the derived dictionaries are therefore functions of
   this state and are modelled as views ([find_node], Bom.v).
   Errors: EKey = KeyError, EValue = ValueError; EFuel is the fuel-exhaustion marker of the reachability views. *)
From SV Require Export Base.Qx.
Local Open Scope nat_scope.

Record node := mkNode { nid : nat; preds : list nat; succs : list nat; prods : list Z; ext : bool; dem : bool }.
Record net := mkNet { nodes : list node; nprods : list Z; nlocal : list Z; bom : list (Z * Z * Q); pnet : list Z }.
Inductive err := EKey | EValue | EFuel.
Inductive res := Ok (w : net) | Err (e : err).

Definition empty_net : net := mkNet [] [] [] [] [].

Definition memn (x : nat) (l : list nat) : bool := existsb (Nat.eqb x) l.
Definition memz (x : Z) (l : list Z) : bool := existsb (Z.eqb x) l.

(* SupplyChainNode._dummy_product_index_from_node_index / _external_supplier_dummy_product_index_from_node_index *)
Definition dummy_idx (i : nat) : Z :=
  if 0 <? i then (-2 * Z.of_nat i)%Z else (-1000 - 2 * Z.of_nat i)%Z.
Definition ext_dummy_idx (i : nat) : Z := (dummy_idx i - 1)%Z.

(* SupplyChainNode(i, supply_type=.., demand_source=..): fresh node, dummy product only *)
Definition fresh_node (i : nat) (e d : bool) : node := mkNode i [] [] [dummy_idx i] e d.

Definition ids (w : net) : list nat := map nid (nodes w).
Definition has_node (w : net) (i : nat) : bool := memn i (ids w).
(* network.nodes_by_index[i]  (None = KeyError) *)
Definition find_node (w : net) (i : nat) : option node := find (fun n => nid n =? i) (nodes w).
Definition succs_of (w : net) (i : nat) : list nat := match find_node w i with Some n => succs n | None => [] end.
Definition preds_of (w : net) (i : nat) : list nat := match find_node w i with Some n => preds n | None => [] end.
Definition prods_of (w : net) (i : nat) : list Z := match find_node w i with Some n => prods n | None => [] end.

Definition set_nodes (w : net) (l : list node) : net := mkNet l (nprods w) (nlocal w) (bom w) (pnet w).
Definition map_node (i : nat) (g : node -> node) (l : list node) : list node :=
  map (fun n => if nid n =? i then g n else n) l.
Definition set_preds (l : list nat) (n : node) := mkNode (nid n) l (succs n) (prods n) (ext n) (dem n).
Definition set_succs (l : list nat) (n : node) := mkNode (nid n) (preds n) l (prods n) (ext n) (dem n).
Definition set_prods (l : list Z) (n : node) := mkNode (nid n) (preds n) (succs n) l (ext n) (dem n).
Definition push_succ (b : nat) (n : node) := set_succs (succs n ++ [b]) n.
Definition push_pred (a : nat) (n : node) := set_preds (preds n ++ [a]) n.

(* ---- network._build_product_attributes: the ordered product list of the network --------------------------- *)
Definition add_if_new (acc : list Z) (p : Z) : list Z := if memz p acc then acc else acc ++ [p].
Definition rebuild (w : net) : net :=
  let collected := fold_left (fun acc n => add_if_new (fold_left add_if_new (prods n) acc) (ext_dummy_idx (nid n)))
                             (nodes w) (nprods w) in
  let found p := memz p (nlocal w) || existsb (fun n => memz p (prods n)) (nodes w)
                 || existsb (fun n => Z.eqb p (ext_dummy_idx (nid n))) (nodes w) in
  mkNet (nodes w) (filter found collected) (nlocal w) (bom w) (pnet w).
(* network.products_by_index keys *)
Definition in_products_by_index (w : net) (p : Z) : bool :=
  memz p (nprods w) || existsb (fun n => Z.eqb p (ext_dummy_idx (nid n))) (nodes w).

(* ---- edges and the other graph views ------------------------------------------------------------------------ *)
Definition edges (w : net) : list (nat * nat) :=
  flat_map (fun n => map (fun s => (nid n, s)) (succs n)) (nodes w).
Definition is_nil {A} (l : list A) : bool := match l with [] => true | _ => false end.
Definition source_nodes (w : net) : list node := filter (fun n => is_nil (preds n)) (nodes w).
Definition sink_nodes (w : net) : list node := filter (fun n => is_nil (succs n)) (nodes w).
Definition mem_edge (e : nat * nat) (l : list (nat * nat)) : bool :=
  existsb (fun x => (fst x =? fst e) && (snd x =? snd e)) l.

(* networkx_digraph(): one arc (p, n) for every p in n.predecessor_indices().  Out- and in-neighbours in it: *)
Definition g_succ (w : net) (a : nat) : list nat := map nid (filter (fun n => memn a (preds n)) (nodes w)).
Definition g_pred (w : net) (a : nat) : list nat := preds_of w a.

(* nx.descendants / nx.ancestors = reachable set without the start node.  Saturation with fuel; if the set is
   not closed when the fuel runs out the result is None (never happens with fuel = number of nodes, see
   Graph_proofs.reach_set_fuel). *)
Definition add_new (S new : list nat) : list nat := fold_left (fun acc x => if memn x acc then acc else acc ++ [x]) new S.
Definition expand (nb : nat -> list nat) (S : list nat) : list nat := add_new S (flat_map nb S).
Fixpoint saturate (nb : nat -> list nat) (fuel : nat) (S : list nat) : list nat :=
  match fuel with O => S | Datatypes.S f => saturate nb f (expand nb S) end.
Definition closedb (nb : nat -> list nat) (S : list nat) : bool :=
  forallb (fun y => memn y S) (flat_map nb S).
Definition reach_set (nb : nat -> list nat) (fuel : nat) (a : nat) : option (list nat) :=
  let S := saturate nb fuel (add_new [] (nb a)) in if closedb nb S then Some S else None.
Definition remove_nat (a : nat) (l : list nat) : list nat := filter (fun x => negb (x =? a)) l.
Definition descendants (w : net) (a : nat) : option (list nat) :=
  option_map (remove_nat a) (reach_set (g_succ w) (length (nodes w)) a).
Definition ancestors (w : net) (a : nat) : option (list nat) :=
  option_map (remove_nat a) (reach_set (g_pred w) (length (nodes w)) a).

(* ---- node-level linking (SupplyChainNode.add_successor / add_predecessor + network.add_node, no rebuild) ---- *)
(* a.add_successor(b); b.add_predecessor(a); network.add_node(b)     (b fresh with flags e d if not in the network) *)
Definition link (w : net) (a b : nat) (e d : bool) : net :=
  let l1 := map_node a (push_succ b) (nodes w) in
  if has_node w b then set_nodes w (map_node b (push_pred a) l1)
  else set_nodes w (l1 ++ [mkNode b [a] [] [dummy_idx b] e d]).
(* a.add_predecessor(b); b.add_successor(a); network.add_node(b) *)
Definition link_pred (w : net) (a b : nat) (e d : bool) : net :=
  let l1 := map_node a (push_pred b) (nodes w) in
  if has_node w b then set_nodes w (map_node b (push_succ a) l1)
  else set_nodes w (l1 ++ [mkNode b [] [a] [dummy_idx b] e d]).

(* list.remove(x): first occurrence; None = ValueError *)
Fixpoint remove1 (x : nat) (l : list nat) : option (list nat) :=
  match l with
  | [] => None
  | y :: r => if y =? x then Some r else option_map (cons y) (remove1 x r)
  end.
(* s.remove_predecessor(i) for the network's node s *)
Definition unlink_pred (w : net) (s i : nat) : res :=
  match find_node w s with
  | None => Err EKey
  | Some n => match remove1 i (preds n) with
              | None => Err EValue
              | Some l' => Ok (set_nodes w (map_node s (set_preds l') (nodes w)))
              end
  end.
Definition unlink_succ (w : net) (p i : nat) : res :=
  match find_node w p with
  | None => Err EKey
  | Some n => match remove1 i (succs n) with
              | None => Err EValue
              | Some l' => Ok (set_nodes w (map_node p (set_succs l') (nodes w)))
              end
  end.
Fixpoint unlink_preds (w : net) (L : list nat) (i : nat) : res :=
  match L with [] => Ok w | s :: r => match unlink_pred w s i with Ok w1 => unlink_preds w1 r i | e => e end end.
Fixpoint unlink_succs (w : net) (L : list nat) (i : nat) : res :=
  match L with [] => Ok w | p :: r => match unlink_succ w p i with Ok w1 => unlink_succs w1 r i | e => e end end.

(* ---- the public mutators ------------------------------------------------------------------------------------- *)
Definition add_node (w : net) (i : nat) (e d : bool) : net :=
  if has_node w i then w else rebuild (set_nodes w (nodes w ++ [fresh_node i e d])).

(* network.add_successor(nodes_by_index[a], <node b>) ; the harness looks a up in nodes_by_index -> KeyError *)
Definition add_successor (w : net) (a b : nat) (e d : bool) : res :=
  if has_node w a then Ok (rebuild (link w a b e d)) else Err EKey.
Definition add_predecessor (w : net) (a b : nat) (e d : bool) : res :=
  if has_node w a then Ok (rebuild (link_pred w a b e d)) else Err EKey.

Definition add_edge (w : net) (a b : nat) : res :=
  if mem_edge (a, b) (edges w) then Ok w
  else if negb (has_node w a) then Err EKey
  else if negb (has_node w b) then Err EKey
  else Ok (rebuild (link w a b false false)).
Fixpoint add_edges (w : net) (l : list (nat * nat)) : res :=
  match l with
  | [] => Ok w
  | (a, b) :: r => match add_edge w a b with Ok w1 => add_edges w1 r | e => e end
  end.

Definition drop_node (i : nat) (l : list node) : list node := filter (fun n => negb (nid n =? i)) l.
Definition remove_node (w : net) (i : nat) : res :=
  if negb (has_node w i) then Ok w else
  match unlink_preds w (succs_of w i) i with
  | Err e => Err e
  | Ok w1 => match unlink_succs w1 (preds_of w1 i) i with
             | Err e => Err e
             | Ok w2 => Ok (rebuild (set_nodes w2 (drop_node i (nodes w2))))
             end
  end.

Definition add_pnet (w : net) (p : Z) : net :=
  mkNet (nodes w) (nprods w) (nlocal w) (bom w) (if memz p (pnet w) then pnet w else pnet w ++ [p]).
Definition removez (x : Z) (l : list Z) : list Z := filter (fun y => negb (Z.eqb y x)) l.

(* nodes_by_index[n].add_product(P_p)    (p >= 0: a real product) *)
Definition node_add_product (w : net) (n : nat) (p : Z) : res :=
  match find_node w n with
  | None => Err EKey
  | Some nd =>
      let w := add_pnet w p in
      if memz p (prods nd) then Ok (rebuild w)
      else Ok (rebuild (set_nodes w (map_node n (set_prods (removez (dummy_idx n) (prods nd ++ [p]))) (nodes w))))
  end.
(* nodes_by_index[n].remove_product(p)   (p an int) *)
Definition node_remove_product (w : net) (n : nat) (p : Z) : res :=
  match find_node w n with
  | None => Err EKey
  | Some nd =>
      if memz p (prods nd) then
        let l := removez p (prods nd) in
        let l := if is_nil l then [dummy_idx n] else l in
        Ok (rebuild (set_nodes w (map_node n (set_prods l) (nodes w))))
      else Ok w
  end.
(* network.add_product(P_p) *)
Definition net_add_product (w : net) (p : Z) : res :=
  let w := add_pnet w p in
  if memz p (nlocal w) then Ok w
  else Ok (rebuild (mkNet (nodes w) (add_if_new (nprods w) p) (nlocal w ++ [p]) (bom w) (pnet w))).
(* network.remove_product(p)   (p an int; parse_product raises ValueError for an unknown index) *)
Definition net_remove_product (w : net) (p : Z) : res :=
  if negb (in_products_by_index w p) then Err EValue
  else if memz p (nlocal w) then Ok (rebuild (mkNet (nodes w) (nprods w) (removez p (nlocal w)) (bom w) (pnet w)))
  else Ok w.

(* P_p.set_bill_of_materials(rm, q)   (rm an int >= 0) *)
Definition bom_get (b : list (Z * Z * Q)) (p rm : Z) : Q :=
  match find (fun e => Z.eqb (fst (fst e)) p && Z.eqb (snd (fst e)) rm) b with Some e => snd e | None => 0%Q end.
Definition bom_del (b : list (Z * Z * Q)) (p rm : Z) : list (Z * Z * Q) :=
  filter (fun e => negb (Z.eqb (fst (fst e)) p && Z.eqb (snd (fst e)) rm)) b.
Definition set_bom (w : net) (p rm : Z) (q : Q) : res :=
  if memz p (pnet w) && negb (in_products_by_index w rm) then Err EValue
  else
    let b := if Qeq_bool q 0 then bom_del (bom w) p rm else bom_del (bom w) p rm ++ [(p, rm, q)] in
    let w' := mkNet (nodes w) (nprods w) (nlocal w) b (pnet w) in
    Ok (if memz p (pnet w) then rebuild w' else w').

(* network.reindex_nodes(old_to_new_dict) *)
Definition lookup (m : list (nat * nat)) (i : nat) : option nat :=
  option_map snd (find (fun p => fst p =? i) m).
Fixpoint omap {A B} (f : A -> option B) (l : list A) : option (list B) :=
  match l with
  | [] => Some []
  | x :: r => match f x, omap f r with Some y, Some r' => Some (y :: r') | _, _ => None end
  end.
Definition reindex_node (m : list (nat * nat)) (n : node) : option node :=
  match lookup m (nid n), omap (lookup m) (preds n), omap (lookup m) (succs n) with
  | Some i', Some p', Some s' =>
      Some (mkNode i' p' s' (map (fun p => if Z.eqb p (dummy_idx (nid n)) then dummy_idx i' else p) (prods n)) (ext n) (dem n))
  | _, _, _ => None
  end.
Definition reindex (w : net) (m : list (nat * nat)) : res :=
  match omap (reindex_node m) (nodes w) with
  | Some l => Ok (rebuild (set_nodes w l))
  | None => Err EKey
  end.

Inductive op :=
| OAddNode (i : nat) (e d : bool)
| OAddEdge (a b : nat)
| OAddEdges (l : list (nat * nat))
| OAddSucc (a b : nat) (e d : bool)
| OAddPred (a b : nat) (e d : bool)
| ORemoveNode (i : nat)
| ONodeAddProd (n p : nat)
| ONodeRemProd (n p : nat)
| ONetAddProd (p : nat)
| ONetRemProd (p : nat)
| OSetBom (p rm : nat) (q : Q)
| OReindex (m : list (nat * nat)).

Definition apply_op (w : net) (o : op) : res :=
  match o with
  | OAddNode i e d => Ok (add_node w i e d)
  | OAddEdge a b => add_edge w a b
  | OAddEdges l => add_edges w l
  | OAddSucc a b e d => add_successor w a b e d
  | OAddPred a b e d => add_predecessor w a b e d
  | ORemoveNode i => remove_node w i
  | ONodeAddProd n p => node_add_product w n (Z.of_nat p)
  | ONodeRemProd n p => node_remove_product w n (Z.of_nat p)
  | ONetAddProd p => net_add_product w (Z.of_nat p)
  | ONetRemProd p => net_remove_product w (Z.of_nat p)
  | OSetBom p rm q => set_bom w (Z.of_nat p) (Z.of_nat rm) q
  | OReindex m => reindex w m
  end.
Definition apply_op_r (r : res) (o : op) : res := match r with Ok w => apply_op w o | Err e => Err e end.
Definition run (ops : list op) (w : net) : res := fold_left apply_op_r ops (Ok w).
(* all intermediate results, for the correspondence check *)
Fixpoint run_trace (ops : list op) (w : net) : list res :=
  match ops with
  | [] => []
  | o :: r => match apply_op w o with Ok w1 => Ok w1 :: run_trace r w1 | Err e => [Err e] end
  end.

(* side condition of reindex_nodes: the renaming is injective on the node indices (not checked by the code;
   a non-injective dict merges nodes and is outside the property) *)
Definition injective_on (m : list (nat * nat)) (l : list nat) : Prop :=
  forall a b, In a l -> In b l -> lookup m a = lookup m b -> a = b.
Definition op_valid (w : net) (o : op) : Prop :=
  match o with OReindex m => injective_on m (ids w) | _ => True end.
Fixpoint ops_valid (ops : list op) (w : net) : Prop :=
  match ops with
  | [] => True
  | o :: r => op_valid w o /\ match apply_op w o with Ok w1 => ops_valid r w1 | Err _ => True end
  end.

(* states reachable from the empty network by valid operation sequences *)
Definition reachable (w : net) : Prop := exists ops, ops_valid ops empty_net /\ run ops empty_net = Ok w.

(* ---- specification vocabulary used by the theorems ------------------------------------------------------ *)
(* reachability along a relation given by neighbour lists: one or more steps *)
Inductive rch (nb : nat -> list nat) : nat -> nat -> Prop :=
| rch1 a b : In b (nb a) -> rch nb a b
| rchS a c b : In c (nb a) -> rch nb c b -> rch nb a b.
(* reachability in the network: a path of one or more arcs (arcs = successor lists) *)
Definition path (w : net) : nat -> nat -> Prop := rch (succs_of w).
(* a renaming dict read as a total function (identity off its keys) and the renamed node / arc *)
Definition mf (m : list (nat * nat)) (x : nat) : nat := match lookup m x with Some y => y | None => x end.
Definition rn (m : list (nat * nat)) (n : node) : node :=
  mkNode (mf m (nid n)) (map (mf m) (preds n)) (map (mf m) (succs n))
         (map (fun p => if Z.eqb p (dummy_idx (nid n)) then dummy_idx (mf m (nid n)) else p) (prods n)) (ext n) (dem n).
Definition ren_edge (f : nat -> nat) (e : nat * nat) := (f (fst e), f (snd e)).
Definition edge_dec : forall x y : nat * nat, {x = y} + {x <> y}.
Proof. decide equality; apply Nat.eq_dec. Defined.
(* the structural invariant: distinct indices; b occurs in succs(a) as often as a in preds(b); end points are nodes *)
Definition idsL (l : list node) := map nid l.
Definition findn (l : list node) (i : nat) := find (fun n => nid n =? i) l.
Definition Sof (l : list node) i := match findn l i with Some n => succs n | None => [] end.
Definition Pof (l : list node) i := match findn l i with Some n => preds n | None => [] end.
Definition InvL (l : list node) : Prop :=
  NoDup (idsL l) /\
  (forall a b, count_occ Nat.eq_dec (Sof l a) b = count_occ Nat.eq_dec (Pof l b) a) /\
  (forall a b, In b (Sof l a) -> In b (idsL l)).
Definition Inv (w : net) : Prop := InvL (nodes w).
