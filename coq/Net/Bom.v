(* Model of the bill-of-materials views of SupplyChainNode (supply_chain_node.py:
   _build_network_bill_of_materials, _build_supplier_raw_material_pairs, supplier_raw_material_pairs_by_product,
   raw_materials_by_product, raw_material_suppliers_by_raw_material, products_by_raw_material, customers_by_product).
   All of them are functions of the state [net] of Graph.v because every mutator ends with
   network._build_product_attributes().  Executable; no proofs here (see Bom_proofs.v).
   A predecessor is [Some i] (node i) or [None] (the external supplier). *)
From SV Require Export Net.Graph.
Local Open Scope nat_scope.

(* node.predecessor_indices(include_external=True) *)
Definition preds_ext (n : node) : list (option nat) :=
  map Some (preds n) ++ (if ext n then [None] else []).
(* product indices offered by a predecessor of n: its products, or n's external-supplier dummy product *)
Definition pred_prods (w : net) (n : node) (p : option nat) : list Z :=
  match p with Some i => prods_of w i | None => [ext_dummy_idx (nid n)] end.
(* prod.raw_material_indices: keys of the BOM dict with quantity > 0 that are products of the network *)
Definition raw_material_indices (w : net) (p1 : Z) : list Z :=
  map (fun e => snd (fst e))
      (filter (fun e => Z.eqb (fst (fst e)) p1 && qltb 0 (snd e) && in_products_by_index w (snd (fst e))) (bom w)).
(* BOM_found for the pair (n, pred) *)
Definition bom_found (w : net) (n : node) (p : option nat) : bool :=
  existsb (fun p1 => existsb (fun rm => memz rm (pred_prods w n p)) (raw_material_indices w p1)) (prods n).
(* node._network_bill_of_materials[p1][pred][p2]  for p1 in prods n, pred in preds_ext n, p2 in pred_prods *)
Definition nbom (w : net) (n : node) (p1 : Z) (p : option nat) (p2 : Z) : Q :=
  if bom_found w n p then bom_get (bom w) p1 p2 else 1%Q.
(* the whole table, for the correspondence check *)
Definition nbom_table (w : net) (n : node) : list (Z * list (option nat * list (Z * Q))) :=
  map (fun p1 => (p1, map (fun p => (p, map (fun p2 => (p2, nbom w n p1 p p2)) (pred_prods w n p))) (preds_ext n))) (prods n).

(* _supplier_raw_material_pairs_by_product_NBOM[p1] / _BOM[p1] *)
Definition pairs_nbom (w : net) (n : node) (p1 : Z) : list (option nat * Z) :=
  flat_map (fun p => map (fun rm => (p, rm)) (filter (fun rm => qltb 0 (nbom w n p1 p rm)) (pred_prods w n p))) (preds_ext n).
Definition pairs_bom (w : net) (n : node) (p1 : Z) : list (option nat * Z) :=
  flat_map (fun p => map (fun rm => (p, rm)) (filter (fun rm => qltb 0 (bom_get (bom w) p1 rm)) (pred_prods w n p))) (preds_ext n).
Definition pairs (nb : bool) (w : net) (n : node) (p1 : Z) := if nb then pairs_nbom w n p1 else pairs_bom w n p1.
(* supplier_raw_material_pairs_by_product(product='all') *)
Definition pairs_all (nb : bool) (w : net) (n : node) : list (option nat * Z) := flat_map (pairs nb w n) (prods n).

Definition opt_eqb (a b : option nat) : bool :=
  match a, b with Some x, Some y => x =? y | None, None => true | _, _ => false end.
Fixpoint dedupz (l : list Z) : list Z :=
  match l with [] => [] | x :: r => if memz x r then dedupz r else x :: dedupz r end.
Fixpoint dedupo (l : list (option nat)) : list (option nat) :=
  match l with [] => [] | x :: r => if existsb (opt_eqb x) r then dedupo r else x :: dedupo r end.

(* raw_materials_by_product(p1 | 'all', return_indices=True) as a set *)
Definition rms_by_product (nb : bool) (w : net) (n : node) (p1 : Z) : list Z := dedupz (map snd (pairs nb w n p1)).
Definition rms_all (nb : bool) (w : net) (n : node) : list Z := dedupz (map snd (pairs_all nb w n)).
(* raw_material_suppliers_by_product(p1) *)
Definition suppliers_by_product (nb : bool) (w : net) (n : node) (p1 : Z) : list (option nat) := dedupo (map fst (pairs nb w n p1)).
(* raw_material_suppliers_by_raw_material(rm): None (ValueError) if rm is not a raw material of the node *)
Definition suppliers_by_rm (nb : bool) (w : net) (n : node) (rm : Z) : option (list (option nat)) :=
  if memz rm (rms_all nb w n)
  then Some (dedupo (map fst (filter (fun pr => Z.eqb (snd pr) rm) (pairs_all nb w n))))
  else None.
(* products_by_raw_material(rm, network_BOM) *)
Definition products_by_rm (nb : bool) (w : net) (n : node) (rm : Z) : option (list Z) :=
  if nb then
    match suppliers_by_rm true w n rm with
    | None => None
    | Some sup => Some (filter (fun p1 => existsb (fun p => memz rm (pred_prods w n p) && qltb 0 (nbom w n p1 p rm)) sup) (prods n))
    end
  else if memz rm (rms_all false w n) then Some (filter (fun p1 => qltb 0 (bom_get (bom w) p1 rm)) (prods n)) else None.
(* customers_by_product(p, return_indices=True): successors that use p as a raw material supplied by n, then
   None if the node has external demand *)
Definition customers_by_product (nb : bool) (w : net) (n : node) (p : Z) : list (option nat) :=
  map Some (filter (fun c => match find_node w c with
                             | Some cn => memz p (rms_all nb w cn) &&
                                          match suppliers_by_rm nb w cn p with
                                          | Some sup => existsb (opt_eqb (Some (nid n))) sup
                                          | None => false
                                          end
                             | None => false
                             end) (succs n))
  ++ (if dem n then [None] else []).

(* ---- observation of the whole state and of every view, for the correspondence check ------------------------ *)
Definition obs_q (q : Q) := qobs q.
Definition obs_node_views (w : net) (n : node) :=
  (nid n, descendants w (nid n), ancestors w (nid n),
   map (fun r => (fst r, map (fun c => (fst c, map (fun e => (fst e, obs_q (snd e))) (snd c))) (snd r))) (nbom_table w n),
   map (fun p1 => (p1, (pairs_nbom w n p1, pairs_bom w n p1),
                   (rms_by_product true w n p1, rms_by_product false w n p1),
                   (suppliers_by_product true w n p1, suppliers_by_product false w n p1),
                   (customers_by_product true w n p1, customers_by_product false w n p1))) (prods n),
   (rms_all true w n, rms_all false w n),
   map (fun rm => (rm, (suppliers_by_rm true w n rm, suppliers_by_rm false w n rm),
                   (products_by_rm true w n rm, products_by_rm false w n rm))) (nprods w)).
Definition obs_net (w : net) :=
  (map (fun n => (nid n, preds n, succs n, prods n, (ext n, dem n))) (nodes w),
   (nprods w, nlocal w), map (fun e => (fst (fst e), snd (fst e), obs_q (snd e))) (bom w),
   (edges w, map nid (source_nodes w), map nid (sink_nodes w)),
   map (obs_node_views w) (nodes w)).
Inductive obs_res {A} := OOk (a : A) | OErr (e : err).
Definition obs_trace (ops : list op) :=
  map (fun r => match r with Ok w => OOk (obs_net w) | Err e => OErr e end) (run_trace ops empty_net).
