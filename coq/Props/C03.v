(* C03 — Orders and shipments arrive exactly one lead time later; on-order is exact.
   Same model and quantification as C01.
   Proved here: the on-order identity (the property's second sentence) at the end of EVERY period, the pipelines have
   exactly order-lead-time + 1 / order + shipment lead time + 1 slots, nothing is ever dropped from an order pipeline
   (fLOST = 0) and orders placed = orders still travelling + orders received by the supplier (the cumulative,
   delay-line form of "received after the lead time; nothing is lost under disruptions").
   and the positional form for ORDERS: the order placed in t is the inbound order of t + L (C03_order_delay).
   Positional form for SHIPMENTS (Sim/ShipDelay.v), including transit- and receipt-pausing disruptions: for every good
   network, edge and period, receipts, items held at the door and the whole inbound pipeline are those of a reference
   delay line [dl_step] fed with the recorded shipments and the node's pause flags (a refinement); hence a shipment sent in t
   is received in t + L when the node is not paused in t..t+L (<=, and == if it was never paused before), for
   supplier edges (L = shipment lead time) and for the external supplier (L = order + shipment lead time). *)
From SV Require Import Sim.Model Sim.Inv_book Sim.Inv_pipe Sim.Inv_run Sim.Main Sim.Example Sim.Single Sim.ShipDelay.
From SV Require Import Sim2.State2 Sim2.Model2 Sim2.Inv2b_tac Sim2.Inv2b_book Sim2.Inv2b_pipe Sim2.Inv2b_init Sim2.Main2b Sim2.Delay2 Sim2.DlCumul2 Sim2.ShipDelay2 Sim2.Main2d.

Section C03.
Variable (NW : net) (inputs : list ((N -> bool) * (N -> Q))).
Hypothesis G : good NW.
Hypothesis D : dem_ok inputs.
Notation C := (cfg NW).

(* on-order from a predecessor = orders still travelling to it + its backorders and held items for this node
   + units in transit; from the external supplier = units in transit *)
Theorem C03_on_order_exact : forall e n p, In e (run NW inputs) -> In p (preds (C n)) ->
  gq e (fOO, n, Nd p) == qsum (gl e (fOP, p, Nd n)) + gq e (fBO, p, Nd n) + gq e (fODI, p, Nd n) + qsum (gl e (fSP, n, Nd p)).
Proof. exact (on_order_exact NW inputs G D). Qed.
Theorem C03_on_order_exact_external : forall e n, In e (run NW inputs) -> ext_sup (C n) = true ->
  gq e (fOO, n, Ext) == qsum (gl e (fSP, n, Ext)).
Proof. exact (on_order_exact_external NW inputs G D). Qed.

Theorem C03_pipeline_lengths : forall e n, In e (run NW inputs) ->
  (forall p, In p (suppliers (C n)) -> length (gl e (fSP, n, p)) = (olt (C n) + slt (C n) + 1)%nat) /\
  (forall c, In c (succs (C n)) -> length (gl e (fOP, n, Nd c)) = (olt (C c) + 1)%nat).
Proof. exact (pipeline_lengths NW inputs G D). Qed.

Theorem C03_nothing_lost : forall e n x, In e (run NW inputs) -> gq e (fLOST, n, x) == 0.
Proof. exact (nothing_lost NW inputs G D). Qed.
Theorem C03_orders_in_transit_partial : forall e n p, In e (run NW inputs) -> In p (preds (C n)) ->
  gq e (fcOQ, n, Nd p) + io0 NW n == qsum (gl e (fOP, p, Nd n)) + gq e (fcIO, p, Nd n).
Proof. exact (orders_in_transit NW inputs G D). Qed.

(* positional form for orders: the order placed in period t arrives as the supplier's inbound order in period
   t + (order lead time of the ordering node) — for every network, horizon, demand and disruption sequence *)
Theorem C03_order_delay : forall t n p, In p (preds (C n)) -> (t + olt (C n) < length inputs)%nat ->
  gq (nth (t + olt (C n)) (run NW inputs) empty_st) (fIO, p, Nd n) == gq (nth t (run NW inputs) empty_st) (fOQ, n, Nd p).
Proof. exact (order_arrives NW inputs G). Qed.

(* shipments: refinement of the per-edge state by the reference delay line (dl_recv / dl_shift / dl_trace in Sim/ShipDelay.v):
   in each period the shipment is added at slot L, slot 0 is taken out and received together with the items held at the door
   unless receipt is paused (then it is held), and the pipeline moves one slot unless transit is paused *)
Theorem C03_shipment_refinement : forall t n p, In p (preds (C n)) -> (t < length inputs)%nat ->
  gq (nth t (run NW inputs) empty_st) (fIS, n, Nd p) == snd (nth t (ship_ref NW inputs n p) dout) /\
  gq (nth t (run NW inputs) empty_st) (fIDI, n, Nd p) == d_held (fst (nth t (ship_ref NW inputs n p) dout)) /\
  leq (gl (nth t (run NW inputs) empty_st) (fSP, n, Nd p)) (d_pipe (fst (nth t (ship_ref NW inputs n p) dout))).
Proof. exact (shipment_refinement NW inputs G). Qed.
Theorem C03_external_refinement : forall t n, ext_sup (C n) = true -> (t < length inputs)%nat ->
  gq (nth t (run NW inputs) empty_st) (fIS, n, Ext) == snd (nth t (ext_ref NW inputs n) dout) /\
  gq (nth t (run NW inputs) empty_st) (fIDI, n, Ext) == d_held (fst (nth t (ext_ref NW inputs n) dout)) /\
  leq (gl (nth t (run NW inputs) empty_st) (fSP, n, Ext)) (d_pipe (fst (nth t (ext_ref NW inputs n) dout))).
Proof. exact (external_refinement NW inputs G). Qed.
(* a shipment sent to n in t is received in t + SLT(n) if n is not transit-/receipt-paused in t .. t + SLT(n) *)
Theorem C03_shipment_delay : forall t n p, In p (preds (C n)) -> (t + slt (C n) < length inputs)%nat ->
  (forall u, (t <= u <= t + slt (C n))%nat -> unpaused NW inputs n u) ->
  gq (nth t (run NW inputs) empty_st) (fOS, p, Nd n) <= gq (nth (t + slt (C n)) (run NW inputs) empty_st) (fIS, n, Nd p).
Proof. exact (fun t n p => shipment_delay NW inputs G t n p D). Qed.
(* and exactly that shipment if n was never paused up to t + SLT(n) *)
Theorem C03_shipment_delay_exact : forall t n p, In p (preds (C n)) -> (t + slt (C n) < length inputs)%nat ->
  (forall u, (u <= t + slt (C n))%nat -> unpaused NW inputs n u) ->
  gq (nth (t + slt (C n)) (run NW inputs) empty_st) (fIS, n, Nd p) == gq (nth t (run NW inputs) empty_st) (fOS, p, Nd n).
Proof. exact (shipment_delay_exact NW inputs G). Qed.
Theorem C03_external_delay : forall t n, ext_sup (C n) = true -> (t + (olt (C n) + slt (C n)) < length inputs)%nat ->
  (forall u, (t <= u <= t + (olt (C n) + slt (C n)))%nat -> unpaused NW inputs n u) ->
  gq (nth t (run NW inputs) empty_st) (fOQ, n, Ext) <= gq (nth (t + (olt (C n) + slt (C n))) (run NW inputs) empty_st) (fIS, n, Ext).
Proof. exact (fun t n => external_delay NW inputs G t n D). Qed.
Theorem C03_external_delay_exact : forall t n, ext_sup (C n) = true -> (t + (olt (C n) + slt (C n)) < length inputs)%nat ->
  (forall u, (u <= t + (olt (C n) + slt (C n)))%nat -> unpaused NW inputs n u) ->
  gq (nth (t + (olt (C n) + slt (C n))) (run NW inputs) empty_st) (fIS, n, Ext) == gq (nth t (run NW inputs) empty_st) (fOQ, n, Ext).
Proof. exact (external_delay_exact NW inputs G). Qed.
End C03.

Example C03_nonvacuous : good ex_net /\ dem_ok ex_inputs /\
  exists e, In e (run ex_net ex_inputs) /\ 0 < gq e (fBO, 2%N, Nd 3%N) + gq e (fBO, 3%N, Ext) /\ 0 < qsum (gl e (fSP, 3%N, Nd 2%N)) + gq e (fODI, 2%N, Nd 3%N).
Proof. exact (conj ex_good (conj ex_dem_ok ex_nontrivial)). Qed.

(* ============ MULTI-PRODUCT networks with bills of materials (Stage-2 model; see Props/C01.v for [goodB2b], [sup_edge], [cus_edge]) ===== *)
Theorem C03_multi_on_order_exact : forall (NW : net2) (inputs : inputs2), goodB2b NW = true -> demB_ok2 inputs ->
  forall e n p r, In e (run2 NW inputs) -> sup_edge NW n (Nd p) r ->
  gq2 e (fOO, n, Nd p, r) == qsum (gl2 e (fOP, p, Nd n, r)) + gq2 e (fBO, p, Nd n, r) + gq2 e (fODI, p, Nd n, r) + qsum (gl2 e (fSP, n, Nd p, r)).
Proof. exact on_order_exact2. Qed.
Theorem C03_multi_on_order_exact_external : forall (NW : net2) (inputs : inputs2), goodB2b NW = true -> demB_ok2 inputs ->
  forall e n r, In e (run2 NW inputs) -> sup_edge NW n Ext r -> gq2 e (fOO, n, Ext, r) == qsum (gl2 e (fSP, n, Ext, r)).
Proof. exact on_order_exact_external2. Qed.
(* orders placed (+ initial orders) = orders still travelling + orders received by the supplier; nothing is dropped from an order pipeline *)
Theorem C03_multi_order_ledger : forall (NW : net2) (inputs : inputs2), goodB2b NW = true ->
  forall e n p r, In e (run2 NW inputs) -> sup_edge NW n (Nd p) r ->
  gq2 e (fcOQ, n, Nd p, r) + io02 NW n == qsum (gl2 e (fOP, p, Nd n, r)) + gq2 e (fcIO, p, Nd n, r).
Proof. exact order_ledger2. Qed.
Theorem C03_multi_nothing_lost : forall (NW : net2) (inputs : inputs2), goodB2b NW = true ->
  forall e n x k, In e (run2 NW inputs) -> gq2 e (fLOST, n, x, k) == 0.
Proof. exact nothing_lost2. Qed.
Theorem C03_multi_pipeline_lengths : forall (NW : net2) (inputs : inputs2), goodB2b NW = true -> forall e, In e (run2 NW inputs) ->
  (forall n p r, sup_edge NW n p r -> length (gl2 e (fSP, n, p, r)) = (n_olt (cfg2 NW n) + n_slt (cfg2 NW n) + 1)%nat) /\
  (forall p c k, cus_edge NW p (Nd c) k -> length (gl2 e (fOP, p, Nd c, k)) = (n_olt (cfg2 NW c) + 1)%nat).
Proof. exact pipeline_lengths2. Qed.

(* positional lead times for multi-product networks (Sim2/Delay2.v, ShipDelay2.v, DlCumul2.v, Main2d.v): the order a node places with a supplier for a raw
   material in t (all its products together) is the supplier's inbound order in t + OLT; receipts / held items / pipelines refine the reference delay line
   of Sim/ShipDelay.v, incl. transit- and receipt-pausing disruptions; nothing is lost: once the pipeline has advanced SLT times and receipt is not paused,
   everything sent so far (and the initial pipeline) has been received *)
Theorem C03_multi_order_delay :
  forall (NW : net2) (inputs : inputs2),
         Main2b.goodB2b NW = true ->
         Main2b.onceB2b NW = true ->
         forall (t : nat) (n p r : N),
         Inv2b_tac.sup_edge NW n (Nd p) r ->
         (t + n_olt (cfg2 NW n) < length inputs)%nat ->
         gq2 (nth (t + n_olt (cfg2 NW n)) (run2 NW inputs) empty_st2)
           (fIO, p, Nd n, r) ==
         gq2 (nth t (run2 NW inputs) empty_st2) (fOQ, n, Nd p, r).
Proof. exact order_delayD2. Qed.
Theorem C03_multi_order_delay_initial :
  forall (NW : net2) (inputs : inputs2),
         Main2b.goodB2b NW = true ->
         Main2b.onceB2b NW = true ->
         forall (t : nat) (n p r : N),
         Inv2b_tac.sup_edge NW n (Nd p) r ->
         (t < n_olt (cfg2 NW n))%nat ->
         (t < length inputs)%nat ->
         gq2 (nth t (run2 NW inputs) empty_st2) (fIO, p, Nd n, r) ==
         n_init_orders (cfg2 NW n).
Proof. exact order_delayD2_initial. Qed.
Theorem C03_multi_shipment_refinement :
  forall (NW : net2) (inputs : inputs2),
         Main2b.goodB2b NW = true ->
         Main2b.onceB2b NW = true ->
         forall (t : nat) (n p r : N),
         Inv2b_tac.sup_edge NW n (Nd p) r ->
         (t < length inputs)%nat ->
         gq2 (nth t (run2 NW inputs) empty_st2) (fIS, n, Nd p, r) ==
         snd (nth t (ship_refD2 NW inputs n p r) ShipDelay.dout) /\
         gq2 (nth t (run2 NW inputs) empty_st2) (fIDI, n, Nd p, r) ==
         ShipDelay.d_held
           (fst (nth t (ship_refD2 NW inputs n p r) ShipDelay.dout)) /\
         Single.leq (gl2 (nth t (run2 NW inputs) empty_st2) (fSP, n, Nd p, r))
           (ShipDelay.d_pipe
              (fst (nth t (ship_refD2 NW inputs n p r) ShipDelay.dout))).
Proof. exact shipment_refinementD2. Qed.
Theorem C03_multi_shipment_delay :
  forall (NW : net2) (inputs : inputs2),
         Main2b.goodB2b NW = true ->
         Main2b.onceB2b NW = true ->
         forall (t : nat) (n p r : N),
         Inv2b_init.demB_ok2 inputs ->
         Inv2b_tac.sup_edge NW n (Nd p) r ->
         (t + n_slt (cfg2 NW n) < length inputs)%nat ->
         (forall u : nat,
          (t <= u <= t + n_slt (cfg2 NW n))%nat -> unpausedD2 NW inputs n u) ->
         gq2 (nth t (run2 NW inputs) empty_st2) (fOS, p, Nd n, r) <=
         gq2 (nth (t + n_slt (cfg2 NW n)) (run2 NW inputs) empty_st2)
           (fIS, n, Nd p, r).
Proof. exact shipment_delayD2. Qed.
Theorem C03_multi_shipment_delay_exact :
  forall (NW : net2) (inputs : inputs2),
         Main2b.goodB2b NW = true ->
         Main2b.onceB2b NW = true ->
         forall (t : nat) (n p r : N),
         Inv2b_tac.sup_edge NW n (Nd p) r ->
         (t + n_slt (cfg2 NW n) < length inputs)%nat ->
         (forall u : nat,
          (u <= t + n_slt (cfg2 NW n))%nat -> unpausedD2 NW inputs n u) ->
         gq2 (nth (t + n_slt (cfg2 NW n)) (run2 NW inputs) empty_st2)
           (fIS, n, Nd p, r) ==
         gq2 (nth t (run2 NW inputs) empty_st2) (fOS, p, Nd n, r).
Proof. exact shipment_delayD2_exact. Qed.
Theorem C03_multi_external_refinement :
  forall (NW : net2) (inputs : inputs2),
         Main2b.goodB2b NW = true ->
         Main2b.onceB2b NW = true ->
         forall (t : nat) (n r : N),
         Inv2b_tac.sup_edge NW n Ext r ->
         (t < length inputs)%nat ->
         gq2 (nth t (run2 NW inputs) empty_st2) (fIS, n, Ext, r) ==
         snd (nth t (ext_refD2 NW inputs n r) ShipDelay.dout) /\
         gq2 (nth t (run2 NW inputs) empty_st2) (fIDI, n, Ext, r) ==
         ShipDelay.d_held
           (fst (nth t (ext_refD2 NW inputs n r) ShipDelay.dout)) /\
         Single.leq (gl2 (nth t (run2 NW inputs) empty_st2) (fSP, n, Ext, r))
           (ShipDelay.d_pipe
              (fst (nth t (ext_refD2 NW inputs n r) ShipDelay.dout))).
Proof. exact external_refinementD2. Qed.
Theorem C03_multi_external_delay :
  forall (NW : net2) (inputs : inputs2),
         Main2b.goodB2b NW = true ->
         Main2b.onceB2b NW = true ->
         forall (t : nat) (n r : N),
         Inv2b_init.demB_ok2 inputs ->
         Inv2b_tac.sup_edge NW n Ext r ->
         (t + (n_olt (cfg2 NW n) + n_slt (cfg2 NW n)) < length inputs)%nat ->
         (forall u : nat,
          (t <= u <= t + (n_olt (cfg2 NW n) + n_slt (cfg2 NW n)))%nat ->
          unpausedD2 NW inputs n u) ->
         gq2 (nth t (run2 NW inputs) empty_st2) (fOQ, n, Ext, r) <=
         gq2
           (nth (t + (n_olt (cfg2 NW n) + n_slt (cfg2 NW n))) 
              (run2 NW inputs) empty_st2) (fIS, n, Ext, r).
Proof. exact external_delayD2. Qed.
Theorem C03_multi_external_delay_exact :
  forall (NW : net2) (inputs : inputs2),
         Main2b.goodB2b NW = true ->
         Main2b.onceB2b NW = true ->
         forall (t : nat) (n r : N),
         Inv2b_tac.sup_edge NW n Ext r ->
         (t + (n_olt (cfg2 NW n) + n_slt (cfg2 NW n)) < length inputs)%nat ->
         (forall u : nat,
          (u <= t + (n_olt (cfg2 NW n) + n_slt (cfg2 NW n)))%nat ->
          unpausedD2 NW inputs n u) ->
         gq2
           (nth (t + (n_olt (cfg2 NW n) + n_slt (cfg2 NW n))) 
              (run2 NW inputs) empty_st2) (fIS, n, Ext, r) ==
         gq2 (nth t (run2 NW inputs) empty_st2) (fOQ, n, Ext, r).
Proof. exact external_delayD2_exact. Qed.
Theorem C03_multi_shipment_not_lost :
  forall (NW : net2) (inputs : inputs2),
         Main2b.goodB2b NW = true ->
         Main2b.onceB2b NW = true ->
         forall (t k : nat) (n p r : N),
         Inv2b_init.demB_ok2 inputs ->
         Inv2b_tac.sup_edge NW n (Nd p) r ->
         (t + k < length inputs)%nat ->
         (n_slt (cfg2 NW n) <= advancesD2 NW inputs n t k)%nat ->
         disk2 NW (i_dis (nth (t + k) inputs Inv2b_period.dflt_input2)) n dRP =
         false ->
         n_init_ships (cfg2 NW n) * qnat (n_slt (cfg2 NW n)) +
         qsum_range
           (fun u : nat =>
            gq2 (nth u (run2 NW inputs) empty_st2) (fOS, p, Nd n, r)) 0 
           (S t) <=
         qsum_range
           (fun u : nat =>
            gq2 (nth u (run2 NW inputs) empty_st2) (fIS, n, Nd p, r)) 0
           (S (t + k)).
Proof. exact shipment_not_lostD2. Qed.
Example C03_multi_delay_nonvacuous : Main2b.goodB2b exD2_net = true /\
         Main2b.onceB2b exD2_net = true /\
         Inv2b_init.demB_ok2 exD2_inputs /\
         (Inv2b_tac.sup_edge exD2_net 3 (Nd 1) 10 /\
          Inv2b_tac.sup_edge exD2_net 3 (Nd 2) 10 /\
          Inv2b_tac.sup_edge exD2_net 1 Ext 100) /\
         n_olt (cfg2 exD2_net 3) = 1%nat /\
         n_slt (cfg2 exD2_net 3) = 2%nat /\
         (n_olt (cfg2 exD2_net 1) + n_slt (cfg2 exD2_net 1))%nat = 2%nat /\
         0 < gq2 (exD2_rec 5) (fOQFG, 3%N, Ext, 30%N) /\
         0 < gq2 (exD2_rec 5) (fOQFG, 3%N, Ext, 31%N) /\
         gq2 (exD2_rec 5) (fOQ, 3%N, Nd 1, 10%N) ==
         2 * gq2 (exD2_rec 5) (fOQFG, 3%N, Ext, 30%N) +
         3 * gq2 (exD2_rec 5) (fOQFG, 3%N, Ext, 31%N) /\
         gq2 (exD2_rec 6) (fIO, 1%N, Nd 3, 10%N) ==
         gq2 (exD2_rec 5) (fOQ, 3%N, Nd 1, 10%N) /\
         gq2 (exD2_rec 0) (fIO, 1%N, Nd 3, 10%N) ==
         n_init_orders (cfg2 exD2_net 3) /\
         (forall u : nat,
          (u <= 3 + 2)%nat -> unpausedD2 exD2_net exD2_inputs 3 u) /\
         0 < gq2 (exD2_rec 3) (fOS, 1%N, Nd 3, 10%N) /\
         gq2 (exD2_rec 5) (fIS, 3%N, Nd 1, 10%N) ==
         gq2 (exD2_rec 3) (fOS, 1%N, Nd 3, 10%N) /\
         ~ unpausedD2 exD2_net exD2_inputs 3 6 /\
         gq2 (exD2_rec 7) (fIS, 3%N, Nd 1, 10%N) <
         gq2 (exD2_rec 5) (fOS, 1%N, Nd 3, 10%N) /\
         gq2 (exD2_rec 8) (fIS, 3%N, Nd 1, 10%N) ==
         gq2 (exD2_rec 5) (fOS, 1%N, Nd 3, 10%N) /\
         (forall u : nat,
          (7 <= u <= 7 + 2)%nat -> unpausedD2 exD2_net exD2_inputs 3 u) /\
         gq2 (exD2_rec 7) (fOS, 1%N, Nd 3, 10%N) <
         gq2 (exD2_rec 9) (fIS, 3%N, Nd 1, 10%N) /\
         snd (nth 8 (ship_refD2 exD2_net exD2_inputs 3 1 10) ShipDelay.dout) ==
         12 /\
         advancesD2 exD2_net exD2_inputs 3 5 3 = 2%nat /\
         disk2 exD2_net
           (i_dis (nth (5 + 3) exD2_inputs Inv2b_period.dflt_input2)) 3 dRP =
         false /\
         qsum_range (fun u : nat => gq2 (exD2_rec u) (fOS, 1%N, Nd 3, 10%N)) 0
           6 == 26 /\
         qsum_range (fun u : nat => gq2 (exD2_rec u) (fIS, 3%N, Nd 1, 10%N)) 0
           9 == 32 /\
         (forall u : nat,
          (u <= 3 + 2)%nat -> unpausedD2 exD2_net exD2_inputs 1 u) /\
         0 < gq2 (exD2_rec 3) (fOQ, 1%N, Ext, 100%N) /\
         gq2 (exD2_rec 5) (fIS, 1%N, Ext, 100%N) ==
         gq2 (exD2_rec 3) (fOQ, 1%N, Ext, 100%N) /\
         ~ unpausedD2 exD2_net exD2_inputs 1 7 /\
         0 < gq2 (exD2_rec 5) (fOQ, 1%N, Ext, 100%N) /\
         gq2 (exD2_rec 7) (fIS, 1%N, Ext, 100%N) == 0 /\
         gq2 (exD2_rec 7) (fIDI, 1%N, Ext, 100%N) ==
         gq2 (exD2_rec 5) (fOQ, 1%N, Ext, 100%N) /\
         gq2 (exD2_rec 8) (fIS, 1%N, Ext, 100%N) ==
         gq2 (exD2_rec 5) (fOQ, 1%N, Ext, 100%N) +
         gq2 (exD2_rec 6) (fOQ, 1%N, Ext, 100%N).
Proof. exact main2d_nonvacuous. Qed.

(* a transit pause delays a shipment by one period, a receipt pause holds an external order at the door (two-node network sd_net) *)
Example C03_shipment_delay_nonvacuous :
  good sd_net /\ dem_ok sd_inputs /\ 0 < gq (sd_rec 2) (fOS, 1%N, Nd 2%N) /\ gq (sd_rec 4) (fIS, 2%N, Nd 1%N) == gq (sd_rec 2) (fOS, 1%N, Nd 2%N) /\
  ~ unpaused sd_net sd_inputs 2%N 5 /\ gq (sd_rec 6) (fIS, 2%N, Nd 1%N) < gq (sd_rec 4) (fOS, 1%N, Nd 2%N) /\
  gq (sd_rec 7) (fIS, 2%N, Nd 1%N) == gq (sd_rec 4) (fOS, 1%N, Nd 2%N).
Proof. destruct shipment_delay_nonvacuous as (H1 & H2 & _ & _ & _ & H6 & H7 & H8 & H9 & H10 & _). exact (conj H1 (conj H2 (conj H6 (conj H7 (conj H8 (conj H9 H10)))))). Qed.

Print Assumptions C03_on_order_exact.
Print Assumptions C03_on_order_exact_external.
Print Assumptions C03_pipeline_lengths.
Print Assumptions C03_nothing_lost.
Print Assumptions C03_orders_in_transit_partial.
Print Assumptions C03_order_delay.
Print Assumptions C03_shipment_refinement.
Print Assumptions C03_external_refinement.
Print Assumptions C03_shipment_delay.
Print Assumptions C03_shipment_delay_exact.
Print Assumptions C03_external_delay.
Print Assumptions C03_external_delay_exact.
Print Assumptions C03_multi_on_order_exact.
Print Assumptions C03_multi_on_order_exact_external.
Print Assumptions C03_multi_order_ledger.
Print Assumptions C03_multi_nothing_lost.
Print Assumptions C03_multi_pipeline_lengths.
Print Assumptions C03_multi_order_delay.
Print Assumptions C03_multi_order_delay_initial.
Print Assumptions C03_multi_shipment_refinement.
Print Assumptions C03_multi_shipment_delay.
Print Assumptions C03_multi_shipment_delay_exact.
Print Assumptions C03_multi_external_refinement.
Print Assumptions C03_multi_external_delay.
Print Assumptions C03_multi_external_delay_exact.
Print Assumptions C03_multi_shipment_not_lost.
