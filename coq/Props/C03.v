(* C03 — Orders and shipments arrive exactly one lead time later; on-order is exact.
   Same model and quantification as C01.
   Proved here: the on-order identity (the property's second sentence) at the end of EVERY period, the pipelines have
   exactly order-lead-time + 1 / order + shipment lead time + 1 slots, nothing is ever dropped from an order pipeline
   (fLOST = 0) and orders placed = orders still travelling + orders received by the supplier (the cumulative,
   delay-line form of "received after the lead time; nothing is lost under disruptions").
   and the positional form for ORDERS: the order placed in t is the inbound order of t + L (C03_order_delay).
   NOT proved (kept as a statement; decided by the correspondence slot by slot and by timing monitors on the
   implementation): the positional form for SHIPMENTS under transit/receipt-pausing disruptions. *)
From SV Require Import Sim.Model Sim.Inv_book Sim.Inv_pipe Sim.Inv_run Sim.Main Sim.Example.

Section C03.
Variable (NW : net) (inputs : list ((N -> bool) * (N -> Q))).
Hypothesis G : good NW.
Hypothesis D : dem_ok inputs.
Notation C := (cfg NW).

(* on-order from a predecessor = orders still travelling to it + its backorders and held items for this node
   + units in transit; from the external supplier = units in transit *)
Theorem C03_on_order_exact : forall e n p, In e (run NW inputs) -> In p (preds (C n)) ->
  gq e (fOO, n, Nd p) == qsum (gl e (fOP, p, Nd n)) + gq e (fBO, p, Nd n) + gq e (fODI, p, Nd n) + qsum (gl e (fSP, n, Nd p)).
Proof. exact (on_order_exact NW inputs G D). Qed.
Theorem C03_on_order_exact_external : forall e n, In e (run NW inputs) -> ext_sup (C n) = true ->
  gq e (fOO, n, Ext) == qsum (gl e (fSP, n, Ext)).
Proof. exact (on_order_exact_external NW inputs G D). Qed.

Theorem C03_pipeline_lengths : forall e n, In e (run NW inputs) ->
  (forall p, In p (suppliers (C n)) -> length (gl e (fSP, n, p)) = (olt (C n) + slt (C n) + 1)%nat) /\
  (forall c, In c (succs (C n)) -> length (gl e (fOP, n, Nd c)) = (olt (C c) + 1)%nat).
Proof. exact (pipeline_lengths NW inputs G D). Qed.

Theorem C03_nothing_lost : forall e n x, In e (run NW inputs) -> gq e (fLOST, n, x) == 0.
Proof. exact (nothing_lost NW inputs G D). Qed.
Theorem C03_orders_in_transit_partial : forall e n p, In e (run NW inputs) -> In p (preds (C n)) ->
  gq e (fcOQ, n, Nd p) + io0 NW n == qsum (gl e (fOP, p, Nd n)) + gq e (fcIO, p, Nd n).
Proof. exact (orders_in_transit NW inputs G D). Qed.

(* positional form for orders: the order placed in period t arrives as the supplier's inbound order in period
   t + (order lead time of the ordering node) — for every network, horizon, demand and disruption sequence *)
Theorem C03_order_delay : forall t n p, In p (preds (C n)) -> (t + olt (C n) < length inputs)%nat ->
  gq (nth (t + olt (C n)) (run NW inputs) empty_st) (fIO, p, Nd n) == gq (nth t (run NW inputs) empty_st) (fOQ, n, Nd p).
Proof. exact (order_arrives NW inputs G). Qed.

(* shipment analogue, not proved: a shipment sent to n in t is received in t + SLT(n) unless a transit- or
   receipt-pausing disruption at n delays it (then it is received afterwards; never lost: C01_edge_conservation) *)
Definition shipment_delay_statement : Prop :=
  forall t n p, In p (preds (C n)) -> (t + slt (C n) < length inputs)%nat ->
    (forall u, (t <= u <= t + slt (C n))%nat -> fst (nth u inputs (fun _ => false, fun _ => 0)) n = false) ->
    gq (nth t (run NW inputs) empty_st) (fOS, p, Nd n) <= gq (nth (t + slt (C n)) (run NW inputs) empty_st) (fIS, n, Nd p).
End C03.

Example C03_nonvacuous : good ex_net /\ dem_ok ex_inputs /\
  exists e, In e (run ex_net ex_inputs) /\ 0 < gq e (fBO, 2%N, Nd 3%N) + gq e (fBO, 3%N, Ext) /\ 0 < qsum (gl e (fSP, 3%N, Nd 2%N)) + gq e (fODI, 2%N, Nd 3%N).
Proof. exact (conj ex_good (conj ex_dem_ok ex_nontrivial)). Qed.

Print Assumptions C03_on_order_exact.
Print Assumptions C03_on_order_exact_external.
Print Assumptions C03_pipeline_lengths.
Print Assumptions C03_nothing_lost.
Print Assumptions C03_orders_in_transit_partial.
Print Assumptions C03_order_delay.
