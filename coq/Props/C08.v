From SV Require Import Base.Qx Alg.GSM.
