(* C08 — GSM optimisers return feasible, cost-consistent, globally optimal service times.
   Statements only; every proof is [exact <lemma of Alg/GSM_proofs.v, GSMTree_proofs.v, GSMSerialTree_proofs.v or GSMRelabel_proofs.v>].
   Model: Alg/GSM.v.
     (a) gsm_helpers: [inbound_cst], [net_lead_time], [feasible] (every net lead time >= 0, S_k <= external outbound CST;
         the external inbound CST is part of [inbound_cst]), [solution_cost] (None = math domain error).
     (b) gsm_serial._cst_dp_serial: [serial_cst], [serial_cost]  (stages 1..N, N upstream, demand at 1).
     (c) gsm_tree._cst_dp_tree on the relabelled tree: [tree_sol] (opt_cst, opt_in_cst per node; None = KeyError),
         [tree_cost] (None = inf), max replenishment times by [replen_tab].
   CSTs and times are naturals, the stage cost c k tau is an ARBITRARY table of rationals
   (the implementation's h*z*sigma*sqrt(tau)); monotonicity of c is assumed only where stated. *)
From SV Require Import Base.Qx Alg.GSM Alg.GSM_proofs Alg.GSMTree_proofs Alg.GSMSerialTree_proofs Alg.GSMRelabel_proofs.
From Coq Require Import Permutation.

(* ------------------------------------------------------------------------------------------- *)
Section C08_serial.
Variables (N : nat) (T : nat -> nat) (ein eout : nat) (c : nat -> nat -> Q).
Hypothesis HN : (1 <= N)%nat.
(* the serial system as a network for the helper functions *)
Let preds := serial_preds N.
Let einf := serial_ein N ein.
Let eoutf := serial_eout eout.
Let nodes := seq 1 N.
(* the returned CST of stage j *)
Let cst := fun j => nth (j - 1) (serial_cst N T ein eout c) 0%nat.

(* (S1) the returned vector is feasible: every net lead time >= 0 and S_1 <= external outbound CST *)
Theorem C08_serial_feasible : feasible preds T einf eoutf nodes cst = true.
Proof. exact (serial_dp_feasible N T ein eout c HN). Qed.

(* (S2) the reported cost is the safety-stock cost of exactly the returned vector *)
Theorem C08_serial_cost_consistent :
  exists v, solution_cost preds T einf c nodes cst = Some v /\ v == serial_cost N T ein eout c.
Proof. exact (serial_dp_cost_consistent N T ein eout c HN). Qed.

(* (S3) no feasible integer CST vector is cheaper.  The DP charges stage 1 with c_1((SI_1+T_1-eout)^+), so the
   competitor set "S_1 <= eout" needs a non-decreasing c_1 (true for h*z*sigma*sqrt) ... *)
Theorem C08_serial_optimal : (forall a b, (a <= b)%nat -> c 1%nat a <= c 1%nat b) ->
  forall s, feasible preds T einf eoutf nodes s = true ->
  exists v, solution_cost preds T einf c nodes s = Some v /\ serial_cost N T ein eout c <= v.
Proof. exact (fun Hm s => serial_dp_optimal N T ein eout c HN s Hm). Qed.

(* ... and with an arbitrary c_1 the DP is optimal among the vectors quoting S_1 = min(eout, SI_1 + T_1) *)
Theorem C08_serial_optimal_fixed_S1 :
  forall s, feasible preds T einf eoutf nodes s = true ->
  s 1%nat = Nat.min eout (inbound_cst preds einf s 1%nat + T 1%nat) ->
  exists v, solution_cost preds T einf c nodes s = Some v /\ serial_cost N T ein eout c <= v.
Proof. exact (serial_dp_optimal_fixed_S1_inb N T ein eout c HN). Qed.
End C08_serial.

(* ------------------------------------------------------------------------------------------- *)
Section C08_tree.
(* a correctly labelled tree: nodes 0..n-1, par i = the unique larger-indexed neighbour of i (i < n-1),
   dn i = true iff that neighbour is downstream of i *)
Variables (n : nat) (par : nat -> nat) (dn : nat -> bool).
Variables (T ein : nat -> nat) (eout : nat -> option nat) (c : nat -> nat -> Q).
Hypothesis Hn : (1 <= n)%nat.
Hypothesis Hpar : forall i, (i < n - 1)%nat -> (i < par i <= n - 1)%nat.
Let preds := rpreds n par dn.
Let nodes := seq 0 n.
(* preprocess_tree: max replenishment times (longest paths) *)
Let Ml := replen_tab preds T ein n (2 * n).
Let M := nth_fun Ml 0%nat.
Let MM := lmax 0%nat Ml.
Let sol := tree_sol n par dn T ein eout M MM c.
Let cost := tree_cost n par dn T ein eout M MM c.

(* (T1) the backtracking never fails and the returned vector is feasible (true inbound times of gsm_helpers) —
   for EVERY tree and every cost table, thanks to the first-minimiser tie-breaking *)
Theorem C08_tree_feasible :
  exists R, sol = Some R /\ length R = n /\
            feasible preds T ein eout nodes (fun k => fst (nth k R (0%nat, 0%nat))) = true.
Proof. exact (tree_dp_feasible n par dn T ein eout c Hn Hpar). Qed.

(* (T2) the reported cost is finite and equals the safety-stock cost of exactly the returned vector
   (stage costs non-decreasing in the net lead time) *)
Theorem C08_tree_cost_consistent : (forall k a b, (k < n)%nat -> (a <= b)%nat -> c k a <= c k b) ->
  exists R q v, sol = Some R /\ cost = Some q /\
                solution_cost preds T ein c nodes (fun k => fst (nth k R (0%nat, 0%nat))) = Some v /\ v == q.
Proof. exact (tree_dp_cost_consistent n par dn T ein eout c Hn Hpar). Qed.

(* (T3) global optimality for EVERY tree: no feasible integer CST vector is cheaper (arbitrary cost table) *)
Theorem C08_tree_optimal : forall s, feasible preds T ein eout nodes s = true ->
  exists q v, cost = Some q /\ solution_cost preds T ein c nodes s = Some v /\ q <= v.
Proof. exact (tree_dp_optimal n par dn T ein eout c Hn Hpar). Qed.

(* (T4) every feasible vector lies in the box [0, max replenishment time] the DP (and the oracle) searches *)
Theorem C08_feasible_box : forall s, feasible preds T ein eout nodes s = true ->
  forall k, (k < n)%nat -> (s k <= M k)%nat.
Proof. exact (feasible_within_replenishment_times n par dn T ein eout c Hn Hpar). Qed.
End C08_tree.

(* the list-level entry point evaluated by the harness is exactly the instance the theorems talk about *)
Theorem C08_run_is_model parl dnl Tl einl eoutl ctab :
  let n := length Tl in
  let par := nth_fun parl 0%nat in let dn := nth_fun dnl false in
  let T := nth_fun Tl 0%nat in let ein := nth_fun einl 0%nat in let eout := nth_fun eoutl None in
  let Ml := replen_tab (rpreds n par dn) T ein n (2 * n) in
  gsm_tree_run parl dnl Tl einl eoutl ctab =
  (tree_sol n par dn T ein eout (nth_fun Ml 0%nat) (lmax 0%nat Ml) (ctab_fun ctab),
   tree_cost n par dn T ein eout (nth_fun Ml 0%nat) (lmax 0%nat Ml) (ctab_fun ctab), Ml).
Proof. exact (gsm_tree_run_eq parl dnl Tl einl eoutl ctab). Qed.

(* ------------------------------------------------------------------------------------------- *)
(* (ST) on a serial system (stages 1..N = tree nodes 0..N-1 with par k = k+1, every larger neighbour upstream) the serial
   (Inderfurth) and the tree (Graves-Willems) DP report the same optimal cost (non-decreasing stage costs) *)
Theorem C08_serial_equals_tree (N : nat) (T : nat -> nat) (ein eout : nat) (c : nat -> nat -> Q) :
  (1 <= N)%nat -> (forall k a b, (a <= b)%nat -> c k a <= c k b) ->
  let par := fun k => S k in let dn := fun _ : nat => false in
  let T' := fun k => T (S k) in let ein' := fun k => if Nat.eqb k (N - 1) then ein else 0%nat in
  let eout' := fun k => if Nat.eqb k 0 then Some eout else None in let c' := fun k => c (S k) in
  let Ml := replen_tab (rpreds N par dn) T' ein' N (2 * N) in
  exists q, tree_cost N par dn T' ein' eout' (nth_fun Ml 0%nat) (lmax 0%nat Ml) c' = Some q /\
            q == serial_cost N T ein eout c.
Proof. exact (serial_equals_tree N T ein eout c). Qed.

(* ------------------------------------------------------------------------------------------- *)
(* relabel_nodes (greedy leaf elimination) produces a correct labelling for every SIMPLE graph that admits one, i.e. for every tree
   (Alg/GSMRelabel_proofs.v: the f-smallest unlabelled node always has at most one unlabelled neighbour, so the elimination never gets
   stuck; labelling it preserves the invariant "every unlabelled node but the largest has exactly one larger unlabelled neighbour").
   As first stated here (without the side condition) the clause is FALSE: is_correctly_labeled counts larger neighbours as a SET, the
   greedy loop counts unlabelled neighbours as a LIST, so a repeated edge, an antiparallel pair (a,b),(b,a) or a self-loop is
   invisible to the former and makes the latter stop with an empty labelling (C08_relabel_needs_simple_graph). stockpyl's
   neighbor_indices documents the same assumption ("no predecessor can also be a successor"). *)
Theorem C08_relabel_correct : forall (ids : list nat) (edges : list (nat * nat)),
    NoDup ids -> (forall e, In e edges -> In (fst e) ids /\ In (snd e) ids) ->
    NoDup edges -> (forall a b, In (a, b) edges -> a <> b /\ ~ In (b, a) edges) ->
    (exists f : nat -> nat, (forall i j, In i ids -> In j ids -> f i = f j -> i = j) /\
        is_correctly_labeled (map f ids) (map (fun e => (f (fst e), f (snd e))) edges) = true) ->
    let nl := new_labels ids edges true in
    let g := fun i => match adj_get nl i with Some x => x | None => 0%nat end in
    is_correctly_labeled (map g ids) (map (fun e => (g (fst e), g (snd e))) edges) = true.
Proof. exact relabel_correct_simple_graph. Qed.
(* the new labels are a permutation of 0..n-1 and every node gets one: the elimination never gets stuck *)
Theorem C08_relabel_never_stuck : forall (ids : list nat) (edges : list (nat * nat)),
    NoDup ids -> (forall e, In e edges -> In (fst e) ids /\ In (snd e) ids) ->
    (forall i, NoDup (nbrs edges i)) ->
    (exists f : nat -> nat, (forall i j, In i ids -> In j ids -> f i = f j -> i = j) /\
        is_correctly_labeled (map f ids) (map (fun e => (f (fst e), f (snd e))) edges) = true) ->
    let nl := new_labels ids edges true in
    let g := fun i => match adj_get nl i with Some x => x | None => 0%nat end in
    Permutation (map g ids) (seq 0 (length ids)) /\ Permutation (map fst nl) ids.
Proof. exact relabel_never_stuck. Qed.
Theorem C08_relabel_needs_simple_graph :
  exists (ids : list nat) (edges : list (nat * nat)),
    NoDup ids /\ (forall e, In e edges -> In (fst e) ids /\ In (snd e) ids) /\
    (exists f : nat -> nat, (forall i j, In i ids -> In j ids -> f i = f j -> i = j) /\
        is_correctly_labeled (map f ids) (map (fun e => (f (fst e), f (snd e))) edges) = true) /\
    new_labels ids edges true = [] /\
    ~ (let nl := new_labels ids edges true in
       let g := fun i => match adj_get nl i with Some x => x | None => 0%nat end in
       is_correctly_labeled (map g ids) (map (fun e => (g (fst e), g (snd e))) edges) = true).
Proof. exact relabel_correct_statement_refuted. Qed.

(* non-vacuity: a 4-node tree (0 -> 2, 2 -> 1, 2 -> 3; demand at 1 and 3; external CSTs) satisfies the hypotheses,
   the DP returns cost 6.732 with CSTs (0,0,0,1), and the all-zero vector is feasible but strictly more expensive;
   a 3-stage serial line *)
Definition ex_ctab : list (list Q) :=
  [[0; 1; 14142 # 10000; 17320 # 10000; 2]; [0; 3; 42426 # 10000; 51961 # 10000; 6; 67082 # 10000];
   [0; 2; 28284 # 10000; 34641 # 10000; 4; 44721 # 10000]; [0; 4; 56568 # 10000; 69282 # 10000; 8; 89442 # 10000]].
Example C08_nonvacuous_tree :
  let parl := [2; 2; 3; 0]%nat in let dnl := [true; false; true; false] in
  let Tl := [2; 1; 1; 1]%nat in let einl := [1; 0; 0; 0]%nat in let eoutl := [None; Some 0%nat; None; Some 1%nat] in
  let r := gsm_tree_run parl dnl Tl einl eoutl ex_ctab in
  (forall i, (i < 4 - 1)%nat -> (i < nth_fun parl 0%nat i <= 4 - 1)%nat) /\
  fst (fst r) = Some [(0, 1); (0, 0); (0, 0); (1, 0)]%nat /\ snd r = [3; 5; 4; 5]%nat /\
  option_map qobs (snd (fst r)) = Some (1683%Z, 250%Z) /\
  let pr := rpreds 4 (nth_fun parl 0%nat) (nth_fun dnl false) in
  feasible pr (nth_fun Tl 0%nat) (nth_fun einl 0%nat) (nth_fun eoutl None) (seq 0 4) (fun _ => 0%nat) = true /\
  option_map qobs (solution_cost pr (nth_fun Tl 0%nat) (nth_fun einl 0%nat) (ctab_fun ex_ctab) (seq 0 4) (fun _ => 0%nat)) = Some (2683%Z, 250%Z).
Proof.
  cbv zeta. split; [intros i Hi; destruct i as [|[|[|i]]]; cbn; lia|]. vm_compute. repeat split; reflexivity.
Qed.

Example C08_nonvacuous_serial :
  let r := gsm_serial_run [1; 2; 1]%nat 1 1 [[0; 7; 10; 12; 13; 14]; [0; 4; 6; 7; 8; 9]; [0; 2; 3; 4]] in
  fst r = [1; 0; 2]%nat /\ qobs (snd r) = (8%Z, 1%Z).
Proof. vm_compute. split; reflexivity. Qed.

Print Assumptions C08_serial_feasible.
Print Assumptions C08_serial_cost_consistent.
Print Assumptions C08_serial_optimal.
Print Assumptions C08_serial_optimal_fixed_S1.
Print Assumptions C08_tree_feasible.
Print Assumptions C08_tree_cost_consistent.
Print Assumptions C08_tree_optimal.
Print Assumptions C08_feasible_box.
Print Assumptions C08_run_is_model.
Print Assumptions C08_serial_equals_tree.
Print Assumptions C08_relabel_correct.
Print Assumptions C08_relabel_never_stuck.
Print Assumptions C08_relabel_needs_simple_graph.
