(* C07 — SSM serial optimiser returns minimising levels and their true expected cost.
   Statements only; every proof is [exact <lemma of Alg/SSM_proofs.v, Alg/SSMCost_proofs.v or Alg/SSMOpt_proofs.v>].
   Model: Alg/SSM.v ([ssm] = the stage loop of stockpyl.ssm_serial.optimize_base_stock_levels on an integer-spaced
   grid, stages in the code's internal order 1 = downstream .. N = upstream; [ssm_params] adds the node re-indexing
   of _preprocess_parameters). Grid bounds, mean and per-stage (d, fd) tables are inputs (they come from SciPy).
   PROVED here: the table equations of the recursion, grid-argmin at every stage for every N, evaluation mode with
   S := S* reproduces the optimiser's outputs, N = 1 is the newsvendor cost and S*_1 minimises it on the grid,
   relabelling / list-order invariance of the preprocessing and of the end-to-end result.
   Also PROVED (Alg/SSMCost_proofs.v): the cost reported for given levels equals the exact expected holding + stockout cost of
   operating them (Clark-Scarf decomposition against the independent top-down enumeration, C07_ssm_cost_is_long_run_cost)
   and the Shang-Song newsvendor fractiles bracket every S*_j (C07_shang_song_bounds).
   and (Alg/SSMOpt_proofs.v) the returned VECTOR minimises the exact expected cost over all level vectors on the grid, the reported
   optimal cost being the cost of that vector (C07_vector_optimal), whenever p + (trailing sums of h) >= 0 — in particular for
   p >= 0 and h_j >= 0; the condition cannot be dropped (C07_vector_optimal_needs_hyp).
   Scope of all of these: exactly represented finite-support demand on an integer grid (exact_instance); normal demand
   (continuous grids) is oracle-only. *)
From SV Require Import Base.Qx Alg.SSM Alg.SSM_proofs Alg.SSMCost_proofs Alg.SSMOpt_proofs.
Require Import Coq.Sorting.Permutation.

Section C07.
Variables (xlo : Z) (xnum xext : nat) (p mu : Q).

(* (0) the recursion, as equations on the observable tables of one pass of the stage loop:
   C_j(x_i) = sum_d fd(d) * [C_hat_j(x_i - d) on the grid | C_hat_lim1 below | C_hat_lim2 above],
   C_hat_j(x) = h_j x + C_bar_{j-1}(x), a given level is used as is, C_bar_j(x) = C_j(nearest(min(S_j, x))) *)
Theorem C07_recursion H Cbar prev prevC sg : length Cbar = S xnum ->
  let so := step xlo xnum xext p H mu (Cbar, prev, prevC) sg in
  let o := snd so in
  (forall i, (i <= xnum)%nat ->
     nth i (out_tbl o) 0 ==
     qsum (map (fun df => snd df * cost_at xlo xnum xext p H mu (Chat_tbl xlo xnum (sg_h sg) Cbar) prev prevC (sg_h sg)
                                       (xlo + Z.of_nat i) (fst df))
               (combine (sg_d sg) (sg_f sg)))) /\
  (forall i, (i <= xnum)%nat -> nth i (Chat_tbl xlo xnum (sg_h sg) Cbar) 0 = sg_h sg * qz (xlo + Z.of_nat i) + nth i Cbar 0) /\
  (forall s, sg_S sg = Some s -> out_S o = s) /\
  fst so = (map (fun x => nth (clampi xlo xnum (Z.min (out_S o) x)) (out_tbl o) 0) (xs xlo xnum),
            (sg_h sg, sg_L sg) :: prev, out_C o) /\
  length (fst (fst (fst so))) = S xnum.
Proof. exact (step_recursion xlo xnum xext p H mu Cbar prev prevC sg). Qed.

(* (i) argmin_on_grid: at every stage of every run (any N, from any loop state), the reported C*_j is the entry of
   C_j at the level; for an optimised stage the level is on the grid and C_j(S*_j) <= C_j(y) for every grid y *)
Theorem C07_argmin_on_grid H stages st :
  Forall2 (fun sg o =>
    length (out_tbl o) = S xnum /\
    out_C o = nth (clampi xlo xnum (out_S o)) (out_tbl o) 0 /\
    (sg_S sg = None ->
       (xlo <= out_S o <= xhi xlo xnum)%Z /\
       out_C o = nth (Z.to_nat (out_S o - xlo)) (out_tbl o) 0 /\
       forall i, (i <= xnum)%nat -> out_C o <= nth i (out_tbl o) 0))
    stages (run xlo xnum xext p H mu st stages).
Proof. exact (argmin_on_grid xlo xnum xext p H mu stages st). Qed.

(* (ii) reported_cost_is_cost_of_levels: evaluation mode with S := the levels just returned gives the same
   per-stage outputs and the same C*; the optimised levels lie inside the grid (so the code's
   x_hi = max(x_hi, max S) leaves the grid unchanged) *)
Theorem C07_reported_cost_is_cost_of_levels stages :
  let lv := ssm_levels xlo xnum xext p mu stages in
  ssm xlo xnum xext p mu (with_levels stages lv) = ssm xlo xnum xext p mu stages /\
  ssm_cost xlo xnum xext p mu (with_levels stages lv) = ssm_cost xlo xnum xext p mu stages /\
  Forall2 (fun sg l => sg_S sg = None -> (xlo <= l <= xhi xlo xnum)%Z) stages lv.
Proof. exact (reported_cost_is_cost_of_levels xlo xnum xext p mu stages). Qed.

(* (iii) one_stage_is_newsvendor: N = 1, x_lo <= 0 and every demand point in 0..x_ext_num (then every y - d is on
   the grid or in the region where the linear continuation is exact): C_1(y) = sum_d f(d) (h (y-d)^+ + p (d-y)^+)
   for every grid y, and S*_1 minimises this newsvendor cost over the grid, C* being its value *)
Theorem C07_one_stage_is_newsvendor sg :
  (xlo <= 0)%Z -> Forall (fun d => (0 <= d <= Z.of_nat xext)%Z) (sg_d sg) ->
  exists o, ssm xlo xnum xext p mu [sg] = [o] /\
  (forall i, (i <= xnum)%nat ->
     nth i (out_tbl o) 0 == newsvendor_cost (sg_h sg) p (sg_d sg) (sg_f sg) (xlo + Z.of_nat i)) /\
  (sg_S sg = None ->
     (xlo <= out_S o <= xhi xlo xnum)%Z /\
     out_C o == newsvendor_cost (sg_h sg) p (sg_d sg) (sg_f sg) (out_S o) /\
     forall i, (i <= xnum)%nat -> out_C o <= newsvendor_cost (sg_h sg) p (sg_d sg) (sg_f sg) (xlo + Z.of_nat i)).
Proof. exact (one_stage_is_newsvendor xlo xnum xext p mu sg). Qed.

(* (iv) relabel_invariant: renaming the nodes renames the keys of the returned dict and changes nothing else *)
Theorem C07_relabel_invariant sigma (sigma_inj : forall a b : nat, sigma a = sigma b -> a = b)
    order_sys order_lists hs Ls tbls Sgiven :
  ssm_params xlo xnum xext p mu (map sigma order_sys) (map sigma order_lists) hs Ls tbls
             (option_map (fun kv => (map sigma (fst kv), snd kv)) Sgiven) =
  option_map (fun r => (map (fun nl => (sigma (fst nl), snd nl)) (fst r), snd r))
             (ssm_params xlo xnum xext p mu order_sys order_lists hs Ls tbls Sgiven).
Proof. exact (relabel_invariant sigma sigma_inj xlo xnum xext p mu order_sys order_lists hs Ls tbls Sgiven). Qed.
End C07.

(* (iv') the same node -> value association listed in another order gives the same internal parameter lists *)
Theorem C07_list_order_invariant (order_sys ol ol' : list nat) (vals vals' : list Q) :
  NoDup ol -> NoDup ol' -> Permutation (combine ol vals) (combine ol' vals') ->
  preprocess order_sys ol vals = preprocess order_sys ol' vals'.
Proof. exact (preprocess_list_order order_sys ol ol' vals vals'). Qed.

(* ---- the Clark-Scarf decomposition and the Shang-Song bracket (Alg/SSMCost_proofs.v; closed under the global context) ---- *)
(* the cost reported for given levels on the grid is the exact expected holding + stockout cost of operating them
   (top-down evaluation: IP_j = min(S_j, IL_{j+1}), IL_j = IP_j - D_j), for exactly represented finite-support demand *)
Theorem C07_ssm_cost_is_long_run_cost :
  forall xlo xnum xext p mu stages lv,
    exact_instance xlo xext mu stages -> length lv = length stages -> stages <> [] ->
    Forall (fun l => (xlo <= l <= xhi xlo xnum)%Z) lv ->
    ssm_cost xlo xnum xext p mu (with_levels stages lv) ==
    topdown p (qsum (map sg_h stages)) (rev (combine stages lv)) None.
Proof. exact ssm_cost_is_long_run_cost. Qed.
(* Shang-Song: the newsvendor fractiles of the demand over L_1+..+L_j bracket S*_j *)
Theorem C07_shang_song_bounds :
  forall xlo xnum xext p mu stages,
    exact_instance xlo xext mu stages -> optimising stages -> 0 < p -> Forall (fun sg => 0 < sg_h sg) stages ->
    forall j g yl yu,
      nth_error (cum_pmfs [(0%Z, 1)] stages) j = Some g ->
      let Hall := qsum (map sg_h stages) in
      let Hup := qsum (map sg_h (skipn (S j) stages)) in      (* sum of h_i, i > j (internal numbering) *)
      let Hge := qsum (map sg_h (skipn j stages)) in          (* sum of h_i, i >= j *)
      is_fractile g ((p + Hup) / (p + Hall)) yl -> is_fractile g ((p + Hup) / (p + Hge)) yu ->
      (xlo <= yl)%Z -> (yu <= xhi xlo xnum)%Z ->
      (yl <= nth j (ssm_levels xlo xnum xext p mu stages) 0 <= yu)%Z.
Proof. exact shang_song_bounds. Qed.

(* the vector returned by the optimiser is optimal among ALL level vectors on the grid, and the reported cost is its exact expected cost
   ([tail_cond p stages]: p + h_j + ... + h_N >= 0 for every j; implied by p >= 0 and h >= 0) *)
Theorem C07_vector_optimal :
  forall xlo xnum xext p mu stages,
    exact_instance xlo xext mu stages -> optimising stages -> tail_cond p stages ->
    let Hall := qsum (map sg_h stages) in
    let lvs := ssm_levels xlo xnum xext p mu stages in
    (length lvs = length stages /\ Forall (fun l => (xlo <= l <= xhi xlo xnum)%Z) lvs) /\
    ssm_cost xlo xnum xext p mu stages == topdown p Hall (rev (combine stages lvs)) None /\
    forall lv, length lv = length stages -> Forall (fun l => (xlo <= l <= xhi xlo xnum)%Z) lv ->
      ssm_cost xlo xnum xext p mu stages <= topdown p Hall (rev (combine stages lv)) None /\
      ssm_cost xlo xnum xext p mu stages <= ssm_cost xlo xnum xext p mu (with_levels stages lv).
Proof. exact ssm_optimal. Qed.
Theorem C07_vector_optimal_nonneg_costs : forall p stages, 0 <= p -> Forall (fun sg => 0 <= sg_h sg) stages -> tail_cond p stages.
Proof. exact tail_cond_nonneg. Qed.
Theorem C07_vector_optimal_needs_hyp :
  exists xlo xnum xext p mu stages,
    exact_instance xlo xext mu stages /\ optimising stages /\ 0 < p /\ 0 <= p + qsum (map sg_h stages) /\
    ~ (forall lv, length lv = length stages -> Forall (fun l => (xlo <= l <= xhi xlo xnum)%Z) lv ->
         topdown p (qsum (map sg_h stages)) (rev (combine stages (ssm_levels xlo xnum xext p mu stages))) None <=
         topdown p (qsum (map sg_h stages)) (rev (combine stages lv)) None).
Proof. exact ssm_levels_optimal_needs_hyp. Qed.

(* non-vacuity: Example-6.1-like 3-stage instance, demand uniform on {0,1,2,3}, L = (1,1,2), h = (3,2,2), p = 20;
   the hypotheses of the statements hold, the optimiser returns (3,5,8) with cost 3183/128, a neighbouring vector is
   strictly worse, and on this instance the reported cost equals the top-down expected cost *)
Definition ex_f1 : list Q := [1#4; 1#4; 1#4; 1#4].
Definition ex_f2 : list Q := [1#16; 2#16; 3#16; 4#16; 3#16; 2#16; 1#16].
Definition ex_stages : list stage :=
  [ {| sg_h := 3; sg_L := 1; sg_d := [0;1;2;3]%Z; sg_f := ex_f1; sg_S := None |};
    {| sg_h := 2; sg_L := 1; sg_d := [0;1;2;3]%Z; sg_f := ex_f1; sg_S := None |};
    {| sg_h := 2; sg_L := 2; sg_d := [0;1;2;3;4;5;6]%Z; sg_f := ex_f2; sg_S := None |} ].
Example C07_nonvacuous :
  ssm_levels (-12) 24 12 20 (3#2) ex_stages = [3; 5; 8]%Z /\
  ssm_cost (-12) 24 12 20 (3#2) ex_stages == 3183 # 128 /\
  ssm_cost (-12) 24 12 20 (3#2) (with_levels ex_stages [3; 5; 8]%Z) == topdown 20 7 (rev (combine ex_stages [3; 5; 8]%Z)) None /\
  3183 # 128 < ssm_cost (-12) 24 12 20 (3#2) (with_levels ex_stages [3; 6; 8]%Z) /\
  ssm_cost (-12) 24 12 20 (3#2) (with_levels ex_stages [3; 6; 8]%Z) == topdown 20 7 (rev (combine ex_stages [3; 6; 8]%Z)) None /\
  ssm_params (-12) 24 12 20 (3#2) [7;4;9]%nat [9;7;4]%nat [3;2;2] [1;2;1]
             [([0;1;2;3]%Z, ex_f1); ([0;1;2;3]%Z, ex_f1); ([0;1;2;3;4;5;6]%Z, ex_f2)] None
    = Some ([(9%nat, 3%Z); (4%nat, 5%Z); (7%nat, 8%Z)], ssm_cost (-12) 24 12 20 (3#2) ex_stages).
Proof. vm_compute. repeat split; reflexivity. Qed.

Print Assumptions C07_recursion.
Print Assumptions C07_argmin_on_grid.
Print Assumptions C07_reported_cost_is_cost_of_levels.
Print Assumptions C07_one_stage_is_newsvendor.
Print Assumptions C07_relabel_invariant.
Print Assumptions C07_list_order_invariant.
Print Assumptions C07_ssm_cost_is_long_run_cost.
Print Assumptions C07_shang_song_bounds.
Print Assumptions C07_vector_optimal.
Print Assumptions C07_vector_optimal_nonneg_costs.
Print Assumptions C07_vector_optimal_needs_hyp.
