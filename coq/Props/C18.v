(* C18 — Network construction and mutation keep the structure coherent.
   Statements only; every proof is [exact <lemma of Net/*_proofs.v>].
   Models: Net/Graph.v (network state, the mutators as [apply_op], graph views), Net/Bom.v (bill-of-materials views),
   Net/Builders.v (network_from_edges, single_stage/serial/owmr/mwor_system, build_node_data_dict),
   Net/Levels.v (local <-> echelon base-stock levels).  The models mirror the Python (idempotence rules, list orders,
   exceptions as [Err]); they are tied to /repo by py/props/c18.py after every single operation.
   [reachable w]: w = run ops empty_net for some operation list whose reindex dicts are injective on the nodes. *)
From SV Require Import Net.Placement Net.Placement_proofs.   (* first: its [run] must not shadow Net.Graph.run *)
From SV Require Import Net.Graph Net.Graph_proofs Net.Bom Net.Bom_proofs Net.Builders Net.Builders_proofs
  Net.Levels Net.Levels_proofs.
Local Open Scope nat_scope.

(* ---- (1) mutation: predecessor and successor lists stay mutual inverses --------------------------------------- *)
(* for ARBITRARY operation lists (any length, any interleaving of add/remove node, add_edge, add_edges_from_list,
   add_successor, add_predecessor, product and BOM operations, reindex): node indices are distinct, b occurs in
   succs(a) exactly as often as a occurs in preds(b), and every end point is a node of the network *)
Theorem C18_adj_symmetric ops w : ops_valid ops empty_net -> run ops empty_net = Ok w ->
  NoDup (ids w) /\
  (forall a b, count_occ Nat.eq_dec (succs_of w a) b = count_occ Nat.eq_dec (preds_of w b) a) /\
  (forall a b, In b (succs_of w a) -> In a (ids w) /\ In b (ids w)) /\
  (forall a b, In a (preds_of w b) -> In a (ids w) /\ In b (ids w)).
Proof. exact (adj_symmetric_run ops w). Qed.

(* ---- (2) the views match the graph ------------------------------------------------------------------------------ *)
Theorem C18_edges_view w : reachable w -> forall a b,
  count_occ edge_dec (edges w) (a, b) = count_occ Nat.eq_dec (succs_of w a) b /\
  (In (a, b) (edges w) <-> In b (succs_of w a)) /\
  (In (a, b) (edges w) <-> In a (preds_of w b)) /\
  (In (a, b) (edges w) -> In a (ids w) /\ In b (ids w)).
Proof. exact (edges_view_final w). Qed.
Theorem C18_sources_sinks_view w : reachable w -> forall n,
  (In n (source_nodes w) <-> In n (nodes w) /\ forall a, ~ In (a, nid n) (edges w)) /\
  (In n (sink_nodes w) <-> In n (nodes w) /\ forall b, ~ In (nid n, b) (edges w)).
Proof. exact (sources_sinks_final w). Qed.
(* nodes_by_index: look-up by index returns exactly the node of the network with that index *)
Theorem C18_index_lookup w : reachable w ->
  NoDup (ids w) /\
  (forall n, In n (nodes w) -> find_node w (nid n) = Some n) /\
  (forall i n, find_node w i = Some n -> In n (nodes w) /\ nid n = i) /\
  (forall i, find_node w i = None <-> ~ In i (ids w)).
Proof. exact (index_lookup_final w). Qed.
(* descendants / ancestors (computed on the digraph built from the PREDECESSOR lists, as networkx_digraph does) are
   exactly the nodes reachable by a non-empty path of arcs (arcs = SUCCESSOR lists), without the start node; the fuel
   (number of nodes) always suffices *)
Theorem C18_descendants_ancestors_view w a : reachable w ->
  (exists D, descendants w a = Some D /\ forall b, In b D <-> path w a b /\ b <> a) /\
  (exists A, ancestors w a = Some A /\ forall b, In b A <-> path w b a /\ b <> a).
Proof. exact (reach_views_final w a). Qed.
(* remove_node never hits list.remove(x) with x absent, and leaves the induced subgraph *)
Theorem C18_remove_node w i : reachable w -> In i (ids w) ->
  exists w', remove_node w i = Ok w' /\
    (forall x, In x (ids w') <-> In x (ids w) /\ x <> i) /\
    (forall x y, x <> i -> y <> i ->
       count_occ Nat.eq_dec (succs_of w' x) y = count_occ Nat.eq_dec (succs_of w x) y /\
       count_occ Nat.eq_dec (preds_of w' x) y = count_occ Nat.eq_dec (preds_of w x) y).
Proof. exact (remove_node_final w i). Qed.

(* ---- (3) re-indexing with any injective dict gives the image network; dummy products follow the formula -------- *)
Theorem C18_reindex_iso w m w' : reachable w -> injective_on m (ids w) -> reindex w m = Ok w' ->
  let f := mf m in
  reachable w' /\
  ids w' = map f (ids w) /\
  (forall a, In a (ids w) -> succs_of w' (f a) = map f (succs_of w a) /\ preds_of w' (f a) = map f (preds_of w a)) /\
  edges w' = map (ren_edge f) (edges w) /\
  (forall a, In a (ids w) ->
     prods_of w' (f a) = map (fun p => if Z.eqb p (dummy_idx a) then dummy_idx (f a) else p) (prods_of w a)).
Proof. exact (reindex_iso_final w m w'). Qed.

(* products: after every operation list, no node is without a product and every product of every node, its
   external-supplier dummy and every network-level product is found by network.products_by_index *)
Theorem C18_products_lookup ops w : run ops empty_net = Ok w ->
  forall n, In n (nodes w) ->
    prods n <> [] /\
    (forall p, In p (prods n) -> In p (nprods w) /\ in_products_by_index w p = true) /\
    in_products_by_index w (ext_dummy_idx (nid n)) = true /\
    (forall p, In p (nlocal w) -> In p (nprods w)).
Proof. exact (products_lookup_final ops w). Qed.

(* ---- (4) bill-of-materials views (hold in EVERY state, hence after every operation sequence) ------------------- *)
(* NBOM = product BOM if some product of the node has a positive BOM entry for a product of the predecessor,
   and NBOM = 1 for all pairs otherwise *)
Theorem C18_nbom_rule w n p :
  (bom_found w n p = true <->
     exists p1 rm q, In p1 (prods n) /\ In rm (pred_prods w n p) /\ In (p1, rm, q) (bom w) /\ (0 < q)%Q /\
                     in_products_by_index w rm = true) /\
  (bom_found w n p = true -> forall p1 p2, nbom w n p1 p p2 = bom_get (bom w) p1 p2) /\
  ((forall p1 rm q, In p1 (prods n) -> In rm (pred_prods w n p) -> In (p1, rm, q) (bom w) -> ~ (0 < q)%Q) ->
     forall p1 p2, nbom w n p1 p p2 = 1%Q).
Proof. exact (conj (bom_found_spec w n p) (conj (nbom_is_bom w n p) (nbom_no_relation w n p))). Qed.
Theorem C18_supplier_rm_pairs w n p1 p rm :
  (In (p, rm) (pairs_nbom w n p1) <-> In p (preds_ext n) /\ In rm (pred_prods w n p) /\ (0 < nbom w n p1 p rm)%Q) /\
  (In (p, rm) (pairs_bom w n p1) <-> In p (preds_ext n) /\ In rm (pred_prods w n p) /\ (0 < bom_get (bom w) p1 rm)%Q).
Proof. exact (conj (pairs_nbom_spec w n p1 p rm) (pairs_bom_spec w n p1 p rm)). Qed.
Theorem C18_raw_materials_by_product nb w n rm :
  (forall p1, In rm (rms_by_product nb w n p1) <-> exists p, In (p, rm) (pairs nb w n p1)) /\
  (In rm (rms_all nb w n) <-> exists p1, In p1 (prods n) /\ In rm (rms_by_product nb w n p1)).
Proof. exact (conj (fun p1 => rms_by_product_spec nb w n p1 rm) (rms_all_union nb w n rm)). Qed.
Theorem C18_suppliers_by_raw_material nb w n rm :
  ((exists L, suppliers_by_rm nb w n rm = Some L) <-> In rm (rms_all nb w n)) /\
  (forall L, suppliers_by_rm nb w n rm = Some L -> forall p, In p L <-> In (p, rm) (pairs_all nb w n)).
Proof. exact (conj (suppliers_by_rm_defined nb w n rm) (suppliers_by_rm_spec nb w n rm)). Qed.
Theorem C18_products_by_raw_material w n rm :
  ((exists L, products_by_rm true w n rm = Some L) <-> In rm (rms_all true w n)) /\
  (forall L, products_by_rm true w n rm = Some L ->
     forall p1, In p1 L <-> In p1 (prods n) /\ In rm (rms_by_product true w n p1)).
Proof. exact (conj (products_by_rm_defined true w n rm) (products_by_rm_spec w n rm)). Qed.
Theorem C18_customers_by_product nb w n p :
  (forall c, In (Some c) (customers_by_product nb w n p) <->
     In c (succs n) /\ exists cn, find_node w c = Some cn /\ In (Some (nid n), p) (pairs_all nb w cn)) /\
  (In None (customers_by_product nb w n p) <-> dem n = true).
Proof. exact (conj (customers_by_product_spec nb w n p) (customers_external nb w n p)). Qed.

(* ---- (5) builders ------------------------------------------------------------------------------------------------ *)
(* build_node_data_dict: None / singleton / dict / list (slot k goes to node order[k]) *)
Theorem C18_data_mapping (V : Type) (order : list nat) :
  (forall n, @data V ANone order n = None) /\
  (forall (v : V) n, data (AScalar v) order n = Some v) /\
  (forall (d : list (nat * option V)) n v, NoDup (map fst d) -> In (n, v) d -> data (ADict d) order n = v) /\
  (forall (d : list (nat * option V)) n, ~ In n (map fst d) -> data (ADict d) order n = None) /\
  (forall (l : list (option V)) k d0, NoDup order -> length l = length order -> k < length order ->
     data (AList l) order (nth k order d0) = nth k l None).
Proof. exact (conj (data_none order) (conj (fun v n => data_scalar v order n)
  (conj (fun d n v => data_dict_in d order n v) (conj (fun d n => data_dict_missing d order n)
  (fun l k d0 => data_list_slot l order k d0))))). Qed.
(* network_from_edges: exact arc multiset (a repeated edge is repeated), supply 'U' exactly at the nodes without
   predecessors, demand by [demand_rule], attributes by [data] on the given order or on the sorted indices *)
Theorem C18_network_from_edges es order A b : network_from_edges es order A = BOk b ->
  let w := bn b in let ord := the_order es order in
  ids w = nfe_ids es order /\
  (forall j, succs_of w j = out_of es j) /\ (forall j, preds_of w j = in_of es j) /\
  (forall x y, count_occ edge_dec (edges w) (x, y) = count_occ edge_dec es (x, y)) /\
  (forall n, In n (nodes w) -> ext n = is_nil (preds n) /\ dem n = demand_rule A ord n /\ prods n = [dummy_idx (nid n)]) /\
  (forall x, In x ord <-> In x (ids w)) /\
  b_hc b = map (fun i => (i, data (a_hc A) ord i)) (ids w) /\
  b_so b = map (fun i => (i, data (a_so A) ord i)) (ids w).
Proof. exact (nfe_final es order A b). Qed.
Theorem C18_sorted_order_default es : let ord := the_order es None in
  sorted ord /\ (forall x, In x ord <-> In x (nfe_ids es None)) /\ length ord = length (nfe_ids es None).
Proof. exact (conj (sort_nat_sorted _) (conj (sort_nat_In _) (sort_nat_length _))). Qed.
(* the three system builders reject a node_order_in_lists that is not the node set of the system (ValueError) *)
Theorem C18_node_order_in_lists_checked sys l A :
  (exists x, (In x l /\ ~ In x sys) \/ (In x sys /\ ~ In x l)) ->
  serial_system sys (Some l) A = BErr EValue /\ owmr_system sys (Some l) A = BErr EValue /\ mwor_system sys (Some l) A = BErr EValue.
Proof. exact (lists_checked sys l A). Qed.
(* serial_system: any length, any labelling.  Arcs are exactly the consecutive pairs; external supply exactly at the
   first node; demand only at the sink (and there iff the arguments give one); stockout cost 0 off the sink *)
Theorem C18_serial_system sys lists A b : NoDup sys -> sys <> [] ->
  serial_system sys lists A = BOk b ->
  let w := bn b in let ord := match lists with Some l => l | None => sys end in
  Inv w /\ ids w = sys /\
  (forall j, succs_of w j = match next sys j with Some k => [k] | None => [] end) /\
  (forall j, preds_of w j = match prev sys j with Some k => [k] | None => [] end) /\
  (forall x y, count_occ edge_dec (edges w) (x, y) = count_occ edge_dec (chain_edges sys) (x, y)) /\
  (forall n, In n (nodes w) ->
     (ext n = true <-> nid n = hd 0 sys) /\
     dem n = (if nid n =? last sys 0 then demand_at A ord (nid n) else false) /\
     prods n = [dummy_idx (nid n)]) /\
  b_hc b = map (fun i => (i, data (a_hc A) ord i)) sys /\
  b_so b = map (fun i => (i, if i =? last sys 0 then data (a_so A) ord i else Some 0)) sys.
Proof. exact (serial_spec sys lists A b). Qed.
(* owmr_system: warehouse wh, retailers rs.  Demand at EVERY retailer for which the arguments give one (all of them
   for a singleton argument, see C18_demand_at_scalar) and never at the warehouse *)
Theorem C18_owmr_system wh rs lists A b : NoDup (wh :: rs) -> rs <> [] ->
  owmr_system (wh :: rs) lists A = BOk b ->
  let w := bn b in let ord := match lists with Some l => l | None => wh :: rs end in
  Inv w /\ ids w = wh :: rs /\
  succs_of w wh = rs /\ preds_of w wh = [] /\
  (forall r, In r rs -> succs_of w r = [] /\ preds_of w r = [wh]) /\
  (forall x y, count_occ edge_dec (edges w) (x, y) = count_occ edge_dec (map (fun r => (wh, r)) rs) (x, y)) /\
  (forall n, In n (nodes w) ->
     (ext n = true <-> nid n = wh) /\
     dem n = (if nid n =? wh then false else demand_at A ord (nid n)) /\
     prods n = [dummy_idx (nid n)]) /\
  b_hc b = map (fun i => (i, data (a_hc A) ord i)) (wh :: rs) /\
  b_so b = map (fun i => (i, data (a_so A) ord i)) (wh :: rs).
Proof. exact (owmr_spec wh rs lists A b). Qed.
(* mwor_system: warehouses ws, retailer ret.  Demand at the retailer only *)
Theorem C18_mwor_system ws ret lists A b : NoDup (ws ++ [ret]) -> ws <> [] ->
  mwor_system (ws ++ [ret]) lists A = BOk b ->
  let w := bn b in let ord := match lists with Some l => l | None => ws ++ [ret] end in
  Inv w /\ ids w = hd 0 ws :: ret :: tl ws /\
  preds_of w ret = ws /\ succs_of w ret = [] /\
  (forall x, In x ws -> succs_of w x = [ret] /\ preds_of w x = []) /\
  (forall x y, count_occ edge_dec (edges w) (x, y) = count_occ edge_dec (map (fun x => (x, ret)) ws) (x, y)) /\
  (forall n, In n (nodes w) ->
     (ext n = true <-> nid n <> ret) /\
     dem n = (if nid n =? ret then demand_at A ord (nid n) else false) /\
     prods n = [dummy_idx (nid n)]) /\
  b_hc b = map (fun i => (i, data (a_hc A) ord i)) (hd 0 ws :: ret :: tl ws) /\
  b_so b = map (fun i => (i, data (a_so A) ord i)) (hd 0 ws :: ret :: tl ws).
Proof. exact (mwor_spec ws ret lists A b). Qed.
Theorem C18_single_stage_system i A b : single_stage_system i A = BOk b ->
  let w := bn b in
  Inv w /\ ids w = [i] /\ edges w = [] /\
  (forall n, In n (nodes w) -> nid n = i /\ preds n = [] /\ succs n = [] /\ ext n = true /\ dem n = demand_at A [i] i /\
     prods n = [dummy_idx i]) /\
  b_hc b = [(i, data (a_hc A) [i] i)] /\ b_so b = [(i, data (a_so A) [i] i)].
Proof. exact (single_stage_spec i A b). Qed.
(* a singleton demand_type (or a singleton typed demand_source) gives demand to every entitled node *)
Theorem C18_demand_at_scalar A ord i :
  (forall t, a_ds A = ANone -> a_dt A = AScalar t -> demand_at A ord i = true) /\
  (a_ds A = AScalar true -> demand_at A ord i = true) /\
  (a_ds A = ANone -> a_dt A = ANone -> demand_at A ord i = false).
Proof. exact (demand_at_scalar A ord i). Qed.

(* ---- (6) echelon / local base-stock levels on EVERY serial system (any length, any labelling) -------------------- *)
Theorem C18_levels_inverse sys lists A b Sl : NoDup sys -> sys <> [] ->
  serial_system sys lists A = BOk b -> (forall i, In i sys -> (0 <= Sl i)%Q) ->
  forall a, In a sys -> exists q, e2l_at (bn b) (dict_of (l2e_at (bn b) Sl)) a = Some q /\ (q == Sl a)%Q.
Proof. exact (levels_inverse sys lists A b Sl). Qed.
Theorem C18_levels_echelon_sum sys lists A b Sl pre a post : NoDup sys -> sys <> [] ->
  serial_system sys lists A = BOk b -> sys = pre ++ a :: post ->
  l2e_at (bn b) Sl a = Some (Sl a + qsum (map Sl post))%Q.
Proof. exact (levels_echelon_sum sys lists A b Sl pre a post). Qed.
(* the non-negativity hypothesis is necessary: with a negative local level the round trip is not the identity *)
Theorem C18_levels_inverse_needs_nonneg : exists sys b Sl a,
  serial_system sys None no_args = BOk b /\ In a sys /\
  exists q, e2l_at (bn b) (dict_of (l2e_at (bn b) Sl)) a = Some q /\ ~ (q == Sl a)%Q.
Proof. exact levels_negative_counterexample. Qed.

(* ---- non-vacuity ------------------------------------------------------------------------------------------------- *)
(* a 13-operation history with a double arc, a self-loop, a removal, products, BOM entries and a swap re-indexing *)
Definition demo_ops : list op :=
  [OAddNode 0 true false; OAddSucc 0 1 false true; OAddSucc 0 1 false false; OAddPred 1 2 true false; OAddEdge 2 2;
   ONodeAddProd 0 0; ONodeAddProd 1 1; OSetBom 1 0 (3 # 2); OAddEdge 2 0; ORemoveNode 2; OAddSucc 1 3 false true;
   OReindex [(0, 1); (1, 0); (3, 5)]; OAddEdges [(5, 5); (1, 0)]].
Example C18_nonvacuous_ops :
  match run demo_ops empty_net with
  | Ok w => ids w = [1; 0; 5] /\ edges w = [(1, 0); (1, 0); (0, 5); (5, 5)] /\ preds_of w 0 = [1; 1] /\
            map nid (source_nodes w) = [1] /\ map nid (sink_nodes w) = [] /\
            descendants w 1 = Some [0; 5] /\ ancestors w 5 = Some [0; 1] /\
            match find_node w 0 with
            | Some n => nbom w n 1%Z (Some 1) 0%Z == 3 # 2 /\ pairs_nbom w n 1%Z = [(Some 1, 0%Z); (Some 1, 0%Z)]
            | None => False end
  | Err _ => False
  end.
Proof. vm_compute. repeat split; reflexivity. Qed.
Example C18_nonvacuous_ops_valid : ops_valid demo_ops empty_net.
Proof. vm_compute. repeat split. intros a b Ha Hb.
  destruct Ha as [<-|[<-|[<-|[]]]], Hb as [<-|[<-|[<-|[]]]]; intros H; vm_compute in H; congruence. Qed.
Example C18_nonvacuous_builders :
  obs_b (owmr_system [4; 2; 7] (Some [7; 4; 2]) (mkArgs (AList [Some 1; Some 2; Some 3]) ANone ANone (AScalar 1)))
  = inl ([(4, [], [2; 7], [(-8)%Z], (true, false)); (2, [4], [], [(-4)%Z], (false, true)); (7, [4], [], [(-14)%Z], (false, true))],
         [(-8)%Z; (-9)%Z; (-4)%Z; (-5)%Z; (-14)%Z; (-15)%Z],
         ([(4, Some 2); (2, Some 3); (7, Some 1)], [(4, None); (2, None); (7, None)])).
Proof. vm_compute. reflexivity. Qed.
Example C18_nonvacuous_levels :
  match serial_system [3; 0; 8] None no_args with
  | BOk b => let Sl := assoc_q [(3, 2 # 1); (0, 0 # 1); (8, 5 # 2)] in
             map (fun i => option_map qobs (l2e_at (bn b) Sl i)) [3; 0; 8] = [Some (9, 2)%Z; Some (5, 2)%Z; Some (5, 2)%Z] /\
             map (fun i => option_map qobs (e2l_at (bn b) (dict_of (l2e_at (bn b) Sl)) i)) [3; 0; 8]
               = [Some (2, 1)%Z; Some (0, 1)%Z; Some (5, 2)%Z]
  | BErr _ => False
  end.
Proof. vm_compute. split; reflexivity. Qed.

(* ---- (8) object-valued arguments: identity of the Policy / DisruptionProcess objects placed at the nodes ----------- *)
(* Net/Placement.v models the loop of network_from_edges that fills inventory_policy / disruption_process with object
   identity made explicit ([arg oid]: equal ids = the same object of the caller; a store maps every object to its .node
   link, so aliasing is real).  [ns] = network.nodes, [order] = node_order_in_lists.  For every argument shape: *)
(* no two nodes hold one and the same Policy (DisruptionProcess) object *)
Theorem C18_place_no_sharing (a : arg oid) (order ns : list nat) : NoDup ns ->
  NoDup (map (fun t : nat * oid * nat => snd (fst t)) (place_pol ns order a)) /\ NoDup (map snd (place_dp ns order a)).
Proof. intro H; exact (conj (place_no_sharing a order ns H) (place_dp_no_sharing a order ns H)). Qed.
(* every node holds a policy whose .node link (read from the store after the whole loop) is the node itself *)
Theorem C18_place_self_link (a : arg oid) (order ns : list nat) : NoDup ns ->
  (forall n p k, In (n, p, k) (place_pol ns order a) -> k = n) /\
  (forall n, In n ns -> exists p, In (n, p, n) (place_pol ns order a)).
Proof. intro H; exact (conj (fun n p k => place_self_link a order ns n p k H) (fun n => place_self_link_all a order ns n H)). Qed.
(* the first node that takes object o holds the caller's OWN object (identity kept; in particular one-node systems) *)
Theorem C18_place_keeps_first (a : arg oid) (order ns pre : list nat) (n : nat) (post : list nat) (o : oid) :
  NoDup ns -> ns = pre ++ n :: post -> (forall m, In m pre -> data a order m <> Some o) ->
  data a order n = Some o -> In (n, o, n) (place_pol ns order a).
Proof. exact (place_keeps_first a order ns pre n post o). Qed.
(* copying changes identities only: the VALUE held at n is the value the Builders model [data] assigns to n; an object
   below [base a] at a node is the caller's object the argument names for that node; a node without entry gets a new one *)
Theorem C18_place_values (a : arg oid) (order : list nat) (V : Type) (val : oid -> V) (ns : list nat) (n : nat) (p : oid) (k : nat) :
  NoDup ns -> In (n, p, k) (place_pol ns order a) ->
  (forall v, data (arg_map val a) order n = Some v -> val (place_orig ns order a p) = v) /\
  (p < base a -> data a order n = Some p) /\
  (data a order n = None -> base a <= p).
Proof. intros H Hin; exact (conj (fun v => place_values a order val ns n p k v H Hin)
  (conj (place_caller_object a order ns n p k H Hin) (place_default_fresh a order ns n p k H Hin))). Qed.
(* the theorem is about the repaired loop: the loop as it was before fix 7f46636 (no copy) refutes it *)
Theorem C18_place_old_code_refuted :
  place_pol_old [0; 1; 2] [0; 1; 2] (AScalar 7) = [(0, 7, 2); (1, 7, 2); (2, 7, 2)] /\
  place_obs_old [0; 1; 2] [0; 1; 2] (AScalar 7) = [[0; 1; 2]] /\
  place_links_old [0; 1; 2] [0; 1; 2] (AScalar 7) = [(0, 2); (1, 2); (2, 2)].
Proof. exact place_old_refuted. Qed.

Print Assumptions C18_adj_symmetric.
Print Assumptions C18_edges_view.
Print Assumptions C18_sources_sinks_view.
Print Assumptions C18_index_lookup.
Print Assumptions C18_descendants_ancestors_view.
Print Assumptions C18_remove_node.
Print Assumptions C18_reindex_iso.
Print Assumptions C18_products_lookup.
Print Assumptions C18_nbom_rule.
Print Assumptions C18_supplier_rm_pairs.
Print Assumptions C18_raw_materials_by_product.
Print Assumptions C18_suppliers_by_raw_material.
Print Assumptions C18_products_by_raw_material.
Print Assumptions C18_customers_by_product.
Print Assumptions C18_data_mapping.
Print Assumptions C18_network_from_edges.
Print Assumptions C18_sorted_order_default.
Print Assumptions C18_node_order_in_lists_checked.
Print Assumptions C18_serial_system.
Print Assumptions C18_owmr_system.
Print Assumptions C18_mwor_system.
Print Assumptions C18_single_stage_system.
Print Assumptions C18_demand_at_scalar.
Print Assumptions C18_levels_inverse.
Print Assumptions C18_levels_echelon_sum.
Print Assumptions C18_levels_inverse_needs_nonneg.
Print Assumptions C18_place_no_sharing.
Print Assumptions C18_place_self_link.
Print Assumptions C18_place_keeps_first.
Print Assumptions C18_place_values.
Print Assumptions C18_place_old_code_refuted.
