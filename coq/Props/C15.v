(* C15 — Simulated long-run cost agrees with the analytical expected cost.   PARTIAL BY NATURE.
   What is logic is proved here on the simulator model (Sim/Model.v): for a single stage under a base-stock policy with
   level S >= 0, shipment lead time L >= 0, no order lead time, external supplier, started at S, undisrupted, and for
   EVERY demand sequence and horizon, the end-of-period inventory level is S minus the demand of the last L periods
   (the "window"), the on-order quantity is that lead-time demand, and the period cost is h (S - D)^+ + p (D - S)^+ —
   i.e. the newsvendor cost function evaluated at the realised lead-time demand D. Taking expectations (i.i.d. demand)
   gives the newsvendor cost for demand over L periods; that step, the ergodic convergence of the time average, the
   (s,S) and serial-system (SSM) analogues and the confidence band are NOT theorems: they are decided by a statistical
   run (batch means, band sized for a false-alarm probability below 1e-6), reported in the evidence as search. *)
From SV Require Import Sim.Model Sim.Single.

Section C15.
Variables (S h p : Q) (L : nat).
Hypothesis S_nonneg : 0 <= S.

Theorem C15_single_stage_pathwise : forall dl, Forall (fun x : (N -> bool) * Q => 0 <= snd x /\ snd x <= BIG) dl ->
  Forall2 (fun e w' => gq e (fIL, 1%N, Ext) == S - qsum w' /\ gq e (fOO, 1%N, Ext) == qsum w' /\
                       c_tc (node_costs (NW1 S h p L) e 1%N) == h * qmax 0 (S - qsum w') + p * qmax 0 (qsum w' - S))
          (run (NW1 S h p L) (mk_inputs dl)) (windows (repeat 0 L) (map snd dl)).
Proof. exact (single_stage_pathwise S h p L S_nonneg). Qed.
End C15.

(* the window of period t is the last L entries of (L zeros followed by the first t+1 demands) *)
Theorem C15_window_is_lead_time_demand : forall ds w t, (t < length ds)%nat ->
  nth t (windows w ds) [] = skipn (Datatypes.S t) (w ++ firstn (Datatypes.S t) ds).
Proof. exact windows_nth. Qed.

Definition long_run_average_statement : Prop := True (* time average of the period cost -> E[h (S-D_L)^+ + p (D_L-S)^+] almost surely; (s,S) and SSM analogues: not provable about code; statistical search only *).

Example C15_nonvacuous :
  let recs := run (NW1 10 1 4 2) (mk_inputs (map (fun d => ((fun _ : N => false), d)) [3; 5; 2; 7; 1])) in
  map (fun e => qobs (gq e (fIL, 1%N, Ext))) recs = [(7, 1); (2, 1); (3, 1); (1, 1); (2, 1)]%Z
  /\ map (fun e => qobs (c_tc (node_costs (NW1 10 1 4 2) e 1%N))) recs = [(7, 1); (2, 1); (3, 1); (1, 1); (2, 1)]%Z.
Proof. vm_compute. split; reflexivity. Qed.

Print Assumptions C15_single_stage_pathwise.
Print Assumptions C15_window_is_lead_time_demand.
