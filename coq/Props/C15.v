(* C15 — Simulated long-run cost agrees with the analytical expected cost.   PARTIAL BY NATURE.
   What is logic is proved here on the simulator model (Sim/Model.v): for a single stage under a base-stock policy with
   level S >= 0, shipment lead time L >= 0, no order lead time, external supplier, started at S, undisrupted, and for
   EVERY demand sequence and horizon, the end-of-period inventory level is S minus the demand of the last L periods
   (the "window"), the on-order quantity is that lead-time demand, and the period cost is h (S - D)^+ + p (D - S)^+ —
   i.e. the newsvendor cost function evaluated at the realised lead-time demand D.
   The EXPECTATION step is proved too (Sim/NVExpect.v) for i.i.d. demand with any finite pmf: the expectation, over the
   product distribution of the whole horizon, of the simulator model's period-t cost (window full) equals
   nvd_cost h p S (L-fold convolution of the pmf) — the analytical model of newsvendor_discrete (Alg/NVDiscrete.v, C10) applied
   to the lead-time-demand pmf of the DemandSource model (Alg/Gen.v conv_pow, C16); and the newsvendor level minimises it.
   Further parts of this file (appended later, each with its own header): serial systems of any length — the pathwise Clark-Scarf
   recursion (Sim/CS*.v) and the expectation step E[simulated period cost] = SSM.topdown = ssm_cost (Sim/SerialExp*.v) — and the single
   (s,S) stage — pathwise rule, the offsets' law = trans of Alg/SS.v, Cesaro average of the expected cost within ergB/T of the value
   s_s_cost_discrete reports (Sim/SSim*.v).
   NOT theorems: almost-sure convergence of REALISED time averages, continuous (normal) demand, the (s,S) expectation for lead times >= 2
   and the confidence band: they are decided by a statistical run (batch means, band sized for a false-alarm probability below 1e-6),
   reported in the evidence as search. *)
From SV Require Import Base.Qx Alg.Gen Alg.NVDiscrete Sim.Model Sim.Single Sim.NVExpect.

Section C15.
Variables (S h p : Q) (L : nat).
Hypothesis S_nonneg : 0 <= S.

Theorem C15_single_stage_pathwise : forall dl, Forall (fun x : (N -> bool) * Q => 0 <= snd x /\ snd x <= BIG) dl ->
  Forall2 (fun e w' => gq e (fIL, 1%N, Ext) == S - qsum w' /\ gq e (fOO, 1%N, Ext) == qsum w' /\
                       c_tc (node_costs (NW1 S h p L) e 1%N) == h * qmax 0 (S - qsum w') + p * qmax 0 (qsum w' - S))
          (run (NW1 S h p L) (mk_inputs dl)) (windows (repeat 0 L) (map snd dl)).
Proof. exact (single_stage_pathwise S h p L S_nonneg). Qed.
End C15.

(* the window of period t is the last L entries of (L zeros followed by the first t+1 demands) *)
Theorem C15_window_is_lead_time_demand : forall ds w t, (t < length ds)%nat ->
  nth t (windows w ds) [] = skipn (Datatypes.S t) (w ++ firstn (Datatypes.S t) ds).
Proof. exact windows_nth. Qed.

(* expectation over independent demands with pmf [pm] on the values off, off+1, ...: iterated sums, not via convolution *)
Theorem C15_law_of_lead_time_demand : forall L off pm g,
  expect_sum L off pm g == wsum (fun k => g (L * off + k)%nat) 0 (conv_pow L pm).
Proof. exact expect_sum_conv. Qed.
Theorem C15_expected_newsvendor_cost : forall L off pm h p (S : Z),
  expect_sum L off pm (nv_g h p (inject_Z S)) == nvd_cost h p S (pmf_of_list (L * off) (conv_pow L pm)).
Proof. exact expect_newsvendor. Qed.
(* the simulator model's period cost as a function of the natural-number demand sequence (any disruption flags dss) *)
Theorem C15_period_cost_pathwise : forall (lv h p : Q) (L : nat) dss t (ds : list nat),
  0 <= lv -> length dss = length ds -> (t < length ds)%nat -> (L <= Datatypes.S t)%nat ->
  Forall (fun d => (Z.of_nat d <= 10 ^ 100)%Z) ds ->
  period_cost lv h p L dss t ds == nv_g h p lv (list_sum (firstn L (skipn (Datatypes.S t - L) ds))).
Proof. exact period_cost_pathwise. Qed.
Theorem C15_expected_period_cost : forall (lv : Z) (h p : Q) (L off : nat) (pm : list Q) dss (t T : nat),
  (0 <= lv)%Z -> qsum pm == 1 -> (Z.of_nat (off + length pm) <= 10 ^ 100)%Z ->
  length dss = T -> (t < T)%nat -> (L <= Datatypes.S t)%nat ->
  expect_list T off pm (period_cost (inject_Z lv) h p L dss t)
  == nvd_cost h p lv (pmf_of_list (L * off) (conv_pow L pm)).
Proof. exact expected_period_cost. Qed.
Theorem C15_newsvendor_level_minimises_expected_cost : forall L off pm h p, 0 < h -> 0 <= p -> nonneg_list pm -> qsum pm == 1 ->
  forall y : Z,
  expect_sum L off pm (nv_g h p (inject_Z (nvd_level h p (pmf_of_list (L * off) (conv_pow L pm)))))
  <= expect_sum L off pm (nv_g h p (inject_Z y)).
Proof. exact expected_cost_minimised. Qed.
Example C15_expectation_nonvacuous :
  nonneg_list ex_pm /\ qsum ex_pm == 1 /\
  qobs (expect_sum 2 0 ex_pm (nv_g 1 4 (inject_Z 2))) = (15, 8)%Z /\
  qobs (nvd_cost 1 4 2 (pmf_of_list (2 * 0) (conv_pow 2 ex_pm))) = (15, 8)%Z /\
  qobs (expect_list 3 0 ex_pm (period_cost (inject_Z 2) 1 4 2 [(fun _ => false); (fun _ => false); (fun _ => false)] 2)) = (15, 8)%Z.
Proof. split; [exact (proj1 ex_hyps)|]. split; [exact (proj1 (proj2 ex_hyps))|]. vm_compute. repeat split; reflexivity. Qed.

(* almost-sure convergence of the time average of the period cost is not stated: it is not a statement about code. The expected-value forms are
   theorems: C15_expected_period_cost (base stock), C15_serial_expected_cost_is_ssm_cost (serial), C15_sS_stage_long_run_expected_cost ((s,S)). *)

Example C15_nonvacuous :
  let recs := run (NW1 10 1 4 2) (mk_inputs (map (fun d => ((fun _ : N => false), d)) [3; 5; 2; 7; 1])) in
  map (fun e => qobs (gq e (fIL, 1%N, Ext))) recs = [(7, 1); (2, 1); (3, 1); (1, 1); (2, 1)]%Z
  /\ map (fun e => qobs (c_tc (node_costs (NW1 10 1 4 2) e 1%N))) recs = [(7, 1); (2, 1); (3, 1); (1, 1); (2, 1)]%Z.
Proof. vm_compute. split; reflexivity. Qed.

Print Assumptions C15_single_stage_pathwise.
Print Assumptions C15_window_is_lead_time_demand.
Print Assumptions C15_law_of_lead_time_demand.
Print Assumptions C15_expected_newsvendor_cost.
Print Assumptions C15_period_cost_pathwise.
Print Assumptions C15_expected_period_cost.
Print Assumptions C15_newsvendor_level_minimises_expected_cost.

(* ======================================================================================================================= *)
From Coq Require Import Permutation.
From SV Require Import Base.Qx Sim.Model Sim.Serial.
From SV Require Import Sim.CS Sim.CS_math Sim.CS_run Sim.CS_chain Sim.CS_serial.

(* most upstream stage: IL(t) = S' - D(t-L, t]   (the single-stage theorem inside the chain) *)
Theorem C15_serial_head_pathwise : forall h p order stages,
  stages <> [] -> NoDup (map sidx stages) -> Permutation order (map sidx stages) -> Forall (fun x => 0 <= slev x) stages ->
  forall inputs, inputs_ok stages inputs -> forall n post t, map sidx stages = n :: post -> (t < length inputs)%nat ->
  gq (nth t (run (NWloc h p order stages) inputs) empty_st) (fIL, n, Ext)
  == lev stages n - dwin (dfn (map sidx stages) inputs) (lead stages n) t.
Proof. exact serial_head_pathwise. Qed.

(* Clark-Scarf recursion, echelon form, textbook shape, for every edge q -> n of the chain and EVERY period t:
   t >= L_n:  IL^e_n(t) = min(S_n, IL^e_q(t - L_n)) - D(t-L_n, t];      t < L_n (warm-up):  IL^e_n(t) = S_n - D[0, t] *)
Theorem C15_serial_clark_scarf : forall h p order stages,
  stages <> [] -> NoDup (map sidx stages) -> Permutation order (map sidx stages) -> Forall (fun x => 0 <= slev x) stages ->
  forall inputs, inputs_ok stages inputs -> forall pre q n post t, map sidx stages = pre ++ q :: n :: post -> (t < length inputs)%nat ->
  let NW := NWloc h p order stages in let rec := fun t => nth t (run NW inputs) empty_st in
  let d := dfn (map sidx stages) inputs in let L := lead stages n in let S_n := ech (lev stages) (map sidx stages) n in
  ((L <= t)%nat -> echelon_il NW (rec t) n == qmin S_n (echelon_il NW (rec (t - L)%nat) q) - qsum_range d (S (t - L)) L) /\
  ((t < L)%nat -> echelon_il NW (rec t) n == S_n - qsum_range d 0 (S t)).
Proof. exact serial_clark_scarf. Qed.

(* the same for the most upstream stage (external supplier never short): IL^e(t) = S - D(t-L, t] *)
Theorem C15_serial_head_echelon : forall h p order stages,
  stages <> [] -> NoDup (map sidx stages) -> Permutation order (map sidx stages) -> Forall (fun x => 0 <= slev x) stages ->
  forall inputs, inputs_ok stages inputs -> forall n post t, map sidx stages = n :: post -> (t < length inputs)%nat ->
  echelon_il (NWloc h p order stages) (nth t (run (NWloc h p order stages) inputs) empty_st) n
  == ech (lev stages) (map sidx stages) n - dwin (dfn (map sidx stages) inputs) (lead stages n) t.
Proof. exact serial_head_echelon. Qed.

(* local form: IL_n(t) = S'_n - (IL_q(t - L_n))^- - D(t-L_n, t]: the only coupling is the upstream stage's backorder *)
Theorem C15_serial_clark_scarf_local : forall h p order stages,
  stages <> [] -> NoDup (map sidx stages) -> Permutation order (map sidx stages) -> Forall (fun x => 0 <= slev x) stages ->
  forall inputs, inputs_ok stages inputs -> forall pre q n post t, map sidx stages = pre ++ q :: n :: post -> (t < length inputs)%nat ->
  (lead stages n <= t)%nat ->
  gq (nth t (run (NWloc h p order stages) inputs) empty_st) (fIL, n, Ext)
  == lev stages n - qmax 0 (- gq (nth (t - lead stages n) (run (NWloc h p order stages) inputs) empty_st) (fIL, q, Ext))
     - qsum_range (dfn (map sidx stages) inputs) (S (t - lead stages n)) (lead stages n).
Proof. exact serial_clark_scarf_local. Qed.

(* one formula for all t (the start-of-period level ILs q k is the base-stock level at k = 0, so no case split) *)
Theorem C15_serial_clark_scarf_all_t : forall h p order stages,
  stages <> [] -> NoDup (map sidx stages) -> Permutation order (map sidx stages) -> Forall (fun x => 0 <= slev x) stages ->
  forall inputs, inputs_ok stages inputs -> forall pre q n post t, map sidx stages = pre ++ q :: n :: post -> (t < length inputs)%nat ->
  gq (nth t (run (NWloc h p order stages) inputs) empty_st) (fIL, n, Ext)
  == lev stages n - qmax 0 (- ILs (base h p order stages) (lev stages) inputs q (S t - lead stages n))
     - dwin (dfn (map sidx stages) inputs) (lead stages n) t.
Proof. exact serial_edge_pathwise. Qed.

(* what stage q ships to its successor n in period t: old backorders + demand - new backorders *)
Theorem C15_serial_shipments : forall h p order stages,
  stages <> [] -> NoDup (map sidx stages) -> Permutation order (map sidx stages) -> Forall (fun x => 0 <= slev x) stages ->
  forall inputs, inputs_ok stages inputs -> forall pre q n post t, map sidx stages = pre ++ q :: n :: post -> (t < length inputs)%nat ->
  gq (nth t (run (NWloc h p order stages) inputs) empty_st) (fOS, q, Nd n)
  == ship (ILs (base h p order stages) (lev stages) inputs q) (dfn (map sidx stages) inputs) t.
Proof. exact serial_shipments_pathwise. Qed.

(* all stages, any chain length: the inventory-level trajectories are the executable reference recursion [cs_serial]
   (Sim/CS.v) evaluated on the demand sequence: a function of the demand history only *)
Theorem C15_serial_reference : forall h p order stages,
  stages <> [] -> NoDup (map sidx stages) -> Permutation order (map sidx stages) -> Forall (fun x => 0 <= slev x) stages ->
  forall inputs, inputs_ok stages inputs -> forall pre n post t, map sidx stages = pre ++ n :: post -> (t < length inputs)%nat ->
  gq (nth t (run (NWloc h p order stages) inputs) empty_st) (fIL, n, Ext)
  == nth (length pre) (cs_serial (dfn (map sidx stages) inputs) (map (fun x => (slev x, sslt x)) stages)) (fun _ => 0) (S t).
Proof. exact serial_chain_reference. Qed.

(* the reference recursion (levels updated period by period through delay lines) has the Clark-Scarf closed form *)
Theorem C15_cs_closed_form : forall lv L xp d t, 0 <= xp 0%nat ->
  xrec lv (delay L (ship xp d)) d (S t) == lv - qmax 0 (- xp (S t - L)%nat) - dwin d L t.
Proof. exact edge_closed. Qed.

(* non-vacuity: 3 stages 7 -> 3 -> 5 (levels 4, 6, 5; lead times 1, 2, 1), demands 3 9 12 2 8 0 15 1: the hypotheses hold,
   stage 7 is short toward stage 3 in several periods, both arguments of the min are attained, and the executable
   reference reproduces the three simulated trajectories *)
Example C15_serial_nonvacuous :
  ex_stages <> [] /\ NoDup (map sidx ex_stages) /\ Permutation ex_order (map sidx ex_stages) /\ Forall (fun x => 0 <= slev x) ex_stages /\ inputs_ok ex_stages ex_inputs /\
  map sidx ex_stages = [] ++ 7%N :: 3%N :: [5%N] /\
  map (fun t => qobs (echelon_il ex_net (ex_rec t) 3%N)) (seq 0 8) = [(8, 1); (-1, 1); (-10, 1); (-8, 1); (-7, 1); (3, 1); (-8, 1); (-5, 1)]%Z /\
  map (fun t => qobs (echelon_il ex_net (ex_rec t) 7%N)) (seq 0 8) = [(12, 1); (6, 1); (3, 1); (13, 1); (7, 1); (15, 1); (0, 1); (14, 1)]%Z /\
  qobs (qmin (ech (lev ex_stages) (map sidx ex_stages) 3%N) (echelon_il ex_net (ex_rec 1) 7%N) - qsum_range (dfn (map sidx ex_stages) ex_inputs) 2 2) = (-8, 1)%Z /\
  qobs (qmin (ech (lev ex_stages) (map sidx ex_stages) 3%N) (echelon_il ex_net (ex_rec 3) 7%N) - qsum_range (dfn (map sidx ex_stages) ex_inputs) 4 2) = (3, 1)%Z /\
  map (fun x => map (fun t => qobs (x (S t))) (seq 0 8)) (cs_serial (dfun ex_dems) [(4, 1%nat); (6, 2%nat); (5, 1%nat)])
  = map (fun n => map (fun t => qobs (gq (ex_rec t) (fIL, n, Ext))) (seq 0 8)) [7%N; 3%N; 5%N].
Proof. exact serial_cs_nonvacuous. Qed.

Print Assumptions C15_serial_head_pathwise.
Print Assumptions C15_serial_clark_scarf.
Print Assumptions C15_serial_head_echelon.
Print Assumptions C15_serial_clark_scarf_local.
Print Assumptions C15_serial_clark_scarf_all_t.
Print Assumptions C15_serial_shipments.
Print Assumptions C15_serial_reference.
Print Assumptions C15_cs_closed_form.

(* ==== integrated from serialexp ==== *)
(* C15 (and the C07 bridge) -- additions for Props/C15.v: the EXPECTED period cost of the simulated serial system equals the SSM
   expected cost of the echelon level vector.  Statements only; proofs in SerialCost_proofs.v (step 1), SerialPath_proofs.v,
   SerialLaw_proofs.v, SerialSSM_proofs.v, SerialExp_proofs.v; definitions in SerialExp.v.
   Network: [NWloc h p order stages] of Sim/Serial.v (local base-stock levels, stages listed upstream -> downstream as
   (index, local level, shipment lead time), node list [order] in any order, holding rates h, stockout rates p, default
   in-transit holding rate, no revenue, order lead times 0).  Demand: i.i.d. at the sink, P(D = off + i) = nth i pm 0. *)
From Coq Require Import Permutation Morphisms.
From SV Require Import Base.Qx Alg.Gen Sim.Model Sim.Serial Sim.CS Sim.CS_run Sim.NVExpect.
From SV Require Alg.SSM.
From SV Require Import Sim.SerialExp Sim.SerialCost_proofs Sim.SerialLaw_proofs Sim.SerialSSM_proofs Sim.SerialPath_proofs Sim.SerialExp_proofs.

(* Step 1 (pathwise, every demand sequence, EVERY period): the local -> echelon rewriting of what the simulator charges.
   total cost of period t = sum_n (h_n - h_{supplier of n}) * IL^e_n(t) + (h_sink + p_sink) * (IL_sink(t))^- + sum_{n not sink} p_n (IL_n(t))^-
   IL^e_n = echelon_il = echelon inventory LEVEL (on hand at n and below + in transit below n - sink backorders; NOT what is in
   transit to n).  The simulator's default in-transit rate (the supplier's local rate) is the SSM convention: no correction term. *)
Theorem C15_serial_cost_identity : forall h p order stages,
  stages <> [] -> NoDup (map sidx stages) -> Permutation order (map sidx stages) -> Forall (fun x => 0 <= slev x) stages ->
  forall inputs, inputs_ok stages inputs -> forall t, (t < length inputs)%nat ->
  let NW := NWloc h p order stages in let e := nth t (run NW inputs) empty_st in
  net_period_cost NW e
  == ech_cost h (fun n => echelon_il NW e n) 0 (map sidx stages)
     + (h (sinkn (map sidx stages)) + p (sinkn (map sidx stages))) * negp (gq e (fIL, sinkn (map sidx stages), Ext))
     + interior_stockout p (fun n => gq e (fIL, n, Ext)) (map sidx stages).
Proof. exact serial_cost_identity. Qed.

(* the period cost as a function of the demand history only (stockout cost at the sink only), EVERY period:
   sum_j h^e_j IL^e_j(t) + (p + sum_j h^e_j) (IL^e_1(t))^-  with IL^e given by the Clark-Scarf recursion [eils] *)
Theorem C15_serial_period_cost_pathwise : forall h p order stages,
  stages <> [] -> NoDup (map sidx stages) -> Permutation order (map sidx stages) -> Forall (fun x => 0 <= slev x) stages ->
  Forall (fun n => p n == 0) (removelast (map sidx stages)) ->
  forall off pm, (Z.of_nat (off + length pm) <= 10 ^ 100)%Z ->
  forall pH t ds, pH == p (sinkn (map sidx stages)) + h (sinkn (map sidx stages)) -> (t < length ds)%nat -> Forall (in_supp off pm) ds ->
  serial_period_cost h p order stages t ds == pure_cost pH (dq ds) (List.rev (cst h 0 stages)) t.
Proof. exact serial_period_cost_pathwise. Qed.

(* the law of an echelon inventory level: nested sums over INDEPENDENT lead-time demands (disjoint windows of the demand vector),
   for every period tau >= the sum of the lead times from the stage up to the head *)
Theorem C15_serial_law_of_echelon_level : forall off pm, qsum pm == 1 ->
  forall rst, rst <> [] -> forall phi, Proper (Qeq ==> Qeq) phi -> forall T tau, (leadsum rst <= tau)%nat -> (tau < T)%nat ->
  expect_list T off pm (fun ds => phi (eils (dq ds) rst (S tau))) == elaw off pm rst phi.
Proof. exact expect_eils. Qed.

(* Step 2: E[cost of period t] (product law of the T demands) = the exact nested sum [hcost], for L_1 + ... + L_N <= t < T *)
Theorem C15_serial_expected_cost_nested : forall h p order stages,
  stages <> [] -> NoDup (map sidx stages) -> Permutation order (map sidx stages) -> Forall (fun x => 0 <= slev x) stages ->
  Forall (fun n => p n == 0) (removelast (map sidx stages)) ->
  forall off pm, qsum pm == 1 -> (Z.of_nat (off + length pm) <= 10 ^ 100)%Z ->
  forall pH t T, pH == p (sinkn (map sidx stages)) + h (sinkn (map sidx stages)) ->
  (list_sum (map sslt stages) <= t)%nat -> (t < T)%nat ->
  expect_list T off pm (serial_period_cost h p order stages t) == hcost off pm pH (cst h 0 stages) None.
Proof. exact serial_expected_cost_nested. Qed.

(* ... = the top-down expected cost of Alg/SSM.v (C07) at the echelon levels (integer local levels), echelon holding rates
   h_j - h_{j+1}, stockout rate p, lead-time-demand tables = L_j-fold convolutions *)
Theorem C15_serial_expected_cost_topdown : forall h p order (zs : list zsim),
  zs <> [] -> NoDup (map sidx (map zsim_stage zs)) -> Permutation order (map sidx (map zsim_stage zs)) ->
  Forall (fun x : zsim => (0 <= snd (fst x))%Z) zs -> Forall (fun n => p n == 0) (removelast (map sidx (map zsim_stage zs))) ->
  forall off pm, qsum pm == 1 -> (Z.of_nat (off + length pm) <= 10 ^ 100)%Z ->
  forall t T, (list_sum (map sslt (map zsim_stage zs)) <= t)%nat -> (t < T)%nat ->
  expect_list T off pm (serial_period_cost h p order (map zsim_stage zs) t)
  == SSM.topdown (p (sinkn (map sidx (map zsim_stage zs)))) (qsum (map SSM.sg_h (ssm_stages_of off pm h zs)))
       (List.rev (combine (ssm_stages_of off pm h zs) (ssm_levels_of h zs))) None.
Proof. exact serial_expected_cost_topdown. Qed.

(* ... = the cost the model of stockpyl.ssm_serial (evaluation mode) reports for these echelon levels, on its grid *)
Theorem C15_serial_expected_cost_is_ssm_cost : forall h p order (zs : list zsim),
  zs <> [] -> NoDup (map sidx (map zsim_stage zs)) -> Permutation order (map sidx (map zsim_stage zs)) ->
  Forall (fun x : zsim => (0 <= snd (fst x))%Z) zs -> Forall (fun n => p n == 0) (removelast (map sidx (map zsim_stage zs))) ->
  forall off pm, qsum pm == 1 -> (Z.of_nat (off + length pm) <= 10 ^ 100)%Z ->
  forall xlo xnum xext mu t T,
  SSM.exact_instance xlo xext mu (ssm_stages_of off pm h zs) ->
  Forall (fun l => (xlo <= l <= SSM.xhi xlo xnum)%Z) (ssm_levels_of h zs) ->
  (list_sum (map sslt (map zsim_stage zs)) <= t)%nat -> (t < T)%nat ->
  expect_list T off pm (serial_period_cost h p order (map zsim_stage zs) t)
  == SSM.ssm_cost xlo xnum xext (p (sinkn (map sidx (map zsim_stage zs)))) mu
       (SSM.with_levels (ssm_stages_of off pm h zs) (ssm_levels_of h zs)).
Proof. exact serial_expected_cost_ssm. Qed.
(* the SSM instance built from the one-period pmf IS exactly represented when the lead-time demands fit the extended grid *)
Theorem C15_serial_ssm_instance_exact : forall off pm h (zs : list zsim) xlo xext,
  (xlo <= 0)%Z -> nonneg_list pm -> qsum pm == 1 ->
  Forall (fun x : zsim => (snd x * off + length (conv_pow (snd x) pm) <= S xext)%nat) zs ->
  SSM.exact_instance xlo xext (Gen.pmf_mean (qnat off) pm) (ssm_stages_of off pm h zs).
Proof. exact ssm_instance_exact. Qed.

(* ---- non-vacuity ----
   A: 2 stages 2 -> 1, local levels 4, 3 (echelon 7, 3), lead times 2, 1, local holding 1, 3 (echelon 1, 2), p = 7 at the sink,
      demand 0, 1, 3 w.p. 1/4, 1/2, 1/4: hypotheses hold; E[cost of period 3 and of period 2] over all 4^4 = 256 demand sequences
      through the simulator model = 129/16 = topdown = ssm_cost on the grid -8..8; the warm-up period 0 has another expectation.
   B: 3 stages 7 -> 3 -> 5, local levels 2, 3, 2, lead times 1, 2, 1, local holding 1, 2, 4, p = 9, demand 1, 2 w.p. 1/2 each
      (off = 1), T = 5, t = 4. *)
Definition exA_pm : list Q := [1#4; 1#2; 0; 1#4].
Definition exA_h (n : N) : Q := if N.eqb n 1 then 3 else 1.
Definition exA_p (n : N) : Q := if N.eqb n 1 then 7 else 0.
Definition exA_zs : list zsim := [(2%N, 4%Z, 2%nat); (1%N, 3%Z, 1%nat)].
Definition exA_order : list N := [1%N; 2%N].
Definition exB_pm : list Q := [1#2; 1#2].
Definition exB_h (n : N) : Q := if N.eqb n 7 then 1 else if N.eqb n 3 then 2 else 4.
Definition exB_p (n : N) : Q := if N.eqb n 5 then 9 else 0.
Definition exB_zs : list zsim := [(7%N, 2%Z, 1%nat); (3%N, 3%Z, 2%nat); (5%N, 2%Z, 1%nat)].
Definition exB_order : list N := [3%N; 5%N; 7%N].

Example C15_serial_expectation_nonvacuous :
  (exA_zs <> [] /\ NoDup (map sidx (map zsim_stage exA_zs)) /\ Permutation exA_order (map sidx (map zsim_stage exA_zs)) /\
   Forall (fun x : zsim => (0 <= snd (fst x))%Z) exA_zs /\ Forall (fun n => exA_p n == 0) (removelast (map sidx (map zsim_stage exA_zs))) /\
   qsum exA_pm == 1 /\ nonneg_list exA_pm /\ (Z.of_nat (0 + length exA_pm) <= 10 ^ 100)%Z /\
   (list_sum (map sslt (map zsim_stage exA_zs)) <= 3)%nat /\
   SSM.exact_instance (-8) 8 (Gen.pmf_mean (qnat 0) exA_pm) (ssm_stages_of 0 exA_pm exA_h exA_zs) /\
   Gen.pmf_mean (qnat 0) exA_pm == 5#4 /\
   Forall (fun l => (-8 <= l <= SSM.xhi (-8) 16)%Z) (ssm_levels_of exA_h exA_zs)) /\
  ssm_levels_of exA_h exA_zs = [3; 7]%Z /\ map SSM.sg_h (ssm_stages_of 0 exA_pm exA_h exA_zs) = [3 - 1; 1 - 0] /\
  qobs (expect_list 4 0 exA_pm (serial_period_cost exA_h exA_p exA_order (map zsim_stage exA_zs) 3)) = (129, 16)%Z /\
  qobs (hcost 0 exA_pm (7 + 3) (cst exA_h 0 (map zsim_stage exA_zs)) None) = (129, 16)%Z /\
  qobs (SSM.topdown 7 (qsum (map SSM.sg_h (ssm_stages_of 0 exA_pm exA_h exA_zs)))
          (List.rev (combine (ssm_stages_of 0 exA_pm exA_h exA_zs) (ssm_levels_of exA_h exA_zs))) None) = (129, 16)%Z /\
  qobs (SSM.ssm_cost (-8) 16 8 7 (Gen.pmf_mean (qnat 0) exA_pm) (SSM.with_levels (ssm_stages_of 0 exA_pm exA_h exA_zs) (ssm_levels_of exA_h exA_zs))) = (129, 16)%Z /\
  (* a warm-up period has a different expected cost *)
  qobs (expect_list 4 0 exA_pm (serial_period_cost exA_h exA_p exA_order (map zsim_stage exA_zs) 0)) = (37, 4)%Z /\
  (* B *)
  (exB_zs <> [] /\ NoDup (map sidx (map zsim_stage exB_zs)) /\ Permutation exB_order (map sidx (map zsim_stage exB_zs)) /\
   Forall (fun x : zsim => (0 <= snd (fst x))%Z) exB_zs /\ Forall (fun n => exB_p n == 0) (removelast (map sidx (map zsim_stage exB_zs))) /\
   qsum exB_pm == 1 /\ (list_sum (map sslt (map zsim_stage exB_zs)) <= 4)%nat) /\
  qobs (expect_list 5 1 exB_pm (serial_period_cost exB_h exB_p exB_order (map zsim_stage exB_zs) 4))
  = qobs (SSM.topdown 9 (qsum (map SSM.sg_h (ssm_stages_of 1 exB_pm exB_h exB_zs)))
            (List.rev (combine (ssm_stages_of 1 exB_pm exB_h exB_zs) (ssm_levels_of exB_h exB_zs))) None).
Proof.
  split.
  { split; [discriminate|].
    split; [cbn; repeat constructor; cbn; intros Y; repeat (destruct Y as [Y|Y]; [discriminate|]); exact Y|].
    split; [cbn; apply perm_swap|].
    split; [repeat constructor; cbn; discriminate|].
    split; [cbn; repeat constructor|].
    split; [reflexivity|].
    split; [repeat constructor; discriminate|].
    split; [vm_compute; discriminate|].
    split; [cbn; lia|].
    split.
    - apply (ssm_instance_exact 0 exA_pm exA_h exA_zs (-8) 8); [lia|repeat constructor; discriminate|reflexivity|].
      repeat constructor; vm_compute; lia.
    - split; [reflexivity|]. vm_compute. repeat constructor; discriminate. }
  split; [vm_compute; reflexivity|]. split; [reflexivity|].
  split; [vm_compute; reflexivity|]. split; [vm_compute; reflexivity|]. split; [vm_compute; reflexivity|].
  split; [vm_compute; reflexivity|]. split; [vm_compute; reflexivity|].
  split.
  { split; [discriminate|].
    split; [cbn; repeat constructor; cbn; intros Y; repeat (destruct Y as [Y|Y]; [discriminate|]); exact Y|].
    split; [cbn; apply (perm_trans (l' := [3%N; 7%N; 5%N])); [apply perm_skip, perm_swap|apply perm_swap]|].
    split; [repeat constructor; cbn; discriminate|].
    split; [cbn; repeat constructor|].
    split; [reflexivity|cbn; lia]. }
  vm_compute. reflexivity.
Qed.

Print Assumptions C15_serial_cost_identity.
Print Assumptions C15_serial_period_cost_pathwise.
Print Assumptions C15_serial_law_of_echelon_level.
Print Assumptions C15_serial_expected_cost_nested.
Print Assumptions C15_serial_expected_cost_topdown.
Print Assumptions C15_serial_expected_cost_is_ssm_cost.
Print Assumptions C15_serial_ssm_instance_exact.

(* ==== integrated from ssim ==== *)
(* ======================================================================================================================= *)
(* C15 — the (s,S) stage: the simulator model follows the (s,S) inventory chain of stockpyl.ss, pathwise and in expectation
   (Sim/SSim.v model; Sim/SSim_proofs.v, SSimChain_proofs.v, SSimExp_proofs.v, SSimMore_proofs.v, SSimLead_proofs.v proofs).  To be appended to Props/C15.v. *)
From SV Require Import Base.Qx Sim.Model Sim.Single Sim.NVExpect Alg.SS Alg.SSErgo.
From SV Require Import Sim.SSim Sim.SSim_proofs Sim.SSimChain_proofs Sim.SSimExp_proofs Sim.SSimMore_proofs Sim.SSimLead_proofs.

(* 1. PATHWISE, rationals, any shipment lead time L, any initial level x0, every demand sequence (each demand d with 0 <= d and
   d + (S - lo) <= BIG for some lo <= min(s, x0); BIG = 10^100 is the model's stand-in for "no order capacity"):
   every end-of-period record of the simulator model is the record (IL', window', q) of the reference recursion
     q = S - ip if ip <= s else 0,  ip = IL + sum(window) - d;   IL' = IL + hd(window ++ [q]) - d;   window' = tl(window ++ [q])
   (inventory level, on-order quantity = sum of the window, order quantity, cost h IL'^+ + p IL'^-, and the cost with K added iff q > 0) *)
Theorem C15_sS_stage_pathwise : forall (s S h p : Q) (L : nat) (x0 lo : Q), s < S -> lo <= s -> lo <= x0 ->
  forall K dl, Forall (fun x : (N -> bool) * Q => 0 <= snd x /\ snd x + (S - lo) <= BIG) dl ->
  Forall2 (rec_ok s S h p L x0 K) (run (NWS s S h p L x0) (mk_inputs dl)) (ref_run s S x0 (repeat 0 L) (map snd dl)).
Proof. exact ss_stage_pathwise. Qed.

(* 2. CHAIN. (a) the inventory position after ordering Y = IL + on-order follows the (s,S) rule, for every lead time:
        Y' = S if Y - d <= s else Y - d *)
Theorem C15_sS_position_rule : forall s S ds il w y, il + qsum w == y ->
  Forall2 (fun r y' => rec_pos r == y') (ref_run s S il w ds) (ss_path s S y ds).
Proof. exact ref_run_positions. Qed.
(* (b) integers: the offset S - Y moves by off_step n (i -> i + d if i + d < n else 0, n = S - s), and an order is placed iff i + d >= n *)
Theorem C15_sS_offsets : forall s S : Z, (s < S)%Z -> forall ds il w i, (i < Z.to_nat (S - s))%nat -> il + qsum w == inject_Z S - qnat i ->
  Forall2 (pos_ok s S) (ref_run (inject_Z s) (inject_Z S) il w (map qnat ds)) (off_pairs (Z.to_nat (S - s)) i ds).
Proof. exact ref_run_offsets. Qed.
(* (c) the matrix [trans pmf n] of Alg/SS.v (the chain whose stationary cost s_s_cost_discrete reports, C13) is the law of off_step:
        E_D[f(off_step n i D)] = (trans f)(i),  and entrywise trans n i j = P(off_step n i D = j) *)
Theorem C15_sS_trans_is_law_of_off_step : forall pmf n (f : nat -> Q) i, (i < n)%nat ->
  wsum (fun d => f (off_step n i d)) 0 pmf == Pf n (trans pmf n) f i.
Proof. exact off_step_law. Qed.
Theorem C15_sS_trans_entry : forall pmf n i j, (i < n)%nat -> (j < n)%nat ->
  trans pmf n i j == wsum (fun d => if Nat.eqb (off_step n i d) j then 1 else 0) 0 pmf.
Proof. exact trans_is_law. Qed.
(* (d) the simulator model's period cost with K, for natural-number demands and s < x0 <= S: a function of the offset reached by the
   first t demands and of the demand of period t.  Lead time 1 (the convention of ss.py: the order placed after the demand of period
   t-1 is there before the demand of period t is served):  h (Y - d)^+ + p (d - Y)^+ + K [Y - d <= s],  Y = S - offset *)
Theorem C15_sS_period_cost_lead_time_1 : forall (s S x0 : Z) (h p K : Q), (s < S)%Z -> (s < x0 <= S)%Z ->
  forall dss t (ds : list nat), length dss = length ds -> (t < length ds)%nat ->
  Forall (fun d => (Z.of_nat d + (S - s) <= 10 ^ 100)%Z) ds ->
  ss_period_cost s S h p K 1 x0 dss t ds
  == pcost h p K S (Z.to_nat (S - s)) (off_path (Z.to_nat (S - s)) (Z.to_nat (S - x0)) (firstn t ds)) (nth t ds 0%nat).
Proof. exact ss_period_cost_L1. Qed.
(* lead time 0: the order arrives before the demand is served, the cost is charged on the position AFTER ordering
   (h Y'^+ + p Y'^- + K [order]) — not the cost function of ss.py *)
Theorem C15_sS_period_cost_lead_time_0 : forall (s S x0 : Z) (h p K : Q), (s < S)%Z -> (s < x0 <= S)%Z ->
  forall dss t (ds : list nat), length dss = length ds -> (t < length ds)%nat ->
  Forall (fun d => (Z.of_nat d + (S - s) <= 10 ^ 100)%Z) ds ->
  ss_period_cost s S h p K 0 x0 dss t ds
  == pcost0 h p K S (Z.to_nat (S - s)) (off_path (Z.to_nat (S - s)) (Z.to_nat (S - x0)) (firstn t ds)) (nth t ds 0%nat).
Proof. exact ss_period_cost_L0. Qed.

(* 3. EXPECTATION (i.i.d. demand, P(D = i) = nth i pmf 0; expectation over the product distribution of all T demands).
   (a) E[phi(offset after t demands)] = (P^t phi)(i0);  (b) E_D[period cost | offset i] = cstate i = G(S-i) + K P(D >= n-i), G = Gdisc h p pmf;
   (c) E[simulated cost of period t, lead time 1] = ecost ... (unitv n (S - x0)) t  of Alg/SSErgo.v *)
Theorem C15_sS_markov : forall pmf n, (1 <= n)%nat -> forall (phi : nat -> Q) t i0, (i0 < n)%nat ->
  expect_list t 0 pmf (fun ds => phi (off_path n i0 ds)) == Piter n (trans pmf n) t phi i0.
Proof. exact expect_off_path. Qed.
Theorem C15_sS_one_period_expectation : forall pmf h p K (s S : Z), (s < S)%Z -> forall i, (i < Z.to_nat (S - s))%nat ->
  wsum (fun d => pcost h p K S (Z.to_nat (S - s)) i d) 0 pmf == cstate pmf (Gdisc h p pmf) K (Z.to_nat (S - s)) S i.
Proof. exact pcost_expectation. Qed.
Theorem C15_sS_expected_period_cost : forall pmf, qsum pmf == 1 -> forall (s S x0 : Z) (h p K : Q), (s < S)%Z -> (s < x0 <= S)%Z ->
  (Z.of_nat (length pmf) + (S - s) <= 10 ^ 100)%Z -> forall dss t T, length dss = T -> (t < T)%nat ->
  expect_list T 0 pmf (ss_period_cost s S h p K 1 x0 dss t)
  == ecost pmf (Gdisc h p pmf) K (Z.to_nat (S - s)) S (unitv (Z.to_nat (S - s)) (Z.to_nat (S - x0))) t.
Proof. exact expected_ss_period_cost. Qed.

(* MAIN: the Cesaro average over T periods of the EXPECTED cost (with K per order placed) of the simulated (s,S) stage with lead time 1
   is within ergB / T of the cost reported by s_s_cost_discrete — for every T >= 1, every start x0 in (s, S], every finite pmf with p0 < 1 *)
Theorem C15_sS_stage_long_run_expected_cost : forall pmf, (forall l, 0 <= pf pmf l) -> qsum pmf == 1 -> pf pmf 0 < 1 ->
  forall (s S x0 : Z) (h p K : Q), (s < S)%Z -> (s < x0 <= S)%Z -> (Z.of_nat (length pmf) + (S - s) <= 10 ^ 100)%Z ->
  forall dss T, length dss = T -> (1 <= T)%nat ->
  Qabs (sim_avg_cost s S h p K 1 x0 dss pmf T - gcost pmf (Gdisc h p pmf) K s S) <= ergB pmf (Gdisc h p pmf) K s S / qnat T.
Proof. exact sS_stage_long_run_expected_cost. Qed.
Theorem C15_sS_stage_long_run_entry : forall pmf, (forall l, 0 <= pf pmf l) -> qsum pmf == 1 -> pf pmf 0 < 1 ->
  forall (s S x0 : Z) (h p K : Q), (s < S)%Z -> (s < x0 <= S)%Z -> (Z.of_nat (length pmf) + (S - s) <= 10 ^ 100)%Z ->
  forall dss T q, s_s_cost_discrete h p K pmf s S = Ok q -> length dss = T -> (1 <= T)%nat ->
  Qabs (sim_avg_cost s S h p K 1 x0 dss pmf T - q) <= ergB pmf (Gdisc h p pmf) K s S / qnat T.
Proof. exact sS_stage_long_run_entry. Qed.

(* a start at or below the reorder point, x0 <= s (not a state of the chain): period 0 costs h (x0-d)^+ + p (d-x0)^+ + K (an order is
   certain), from period 1 on the chain runs from offset 0; bound (ergB + |G(x0) + K - g|) / T *)
Theorem C15_sS_expected_period_cost_low_start : forall pmf, qsum pmf == 1 -> forall (s S x0 : Z) (h p K : Q), (s < S)%Z -> (x0 <= s)%Z ->
  (Z.of_nat (length pmf) + (S - x0) <= 10 ^ 100)%Z -> forall dss T, length dss = T ->
  ((0 < T)%nat -> expect_list T 0 pmf (ss_period_cost s S h p K 1 x0 dss 0) == Gdisc h p pmf x0 + K) /\
  (forall t, (Datatypes.S t < T)%nat -> expect_list T 0 pmf (ss_period_cost s S h p K 1 x0 dss (Datatypes.S t))
                           == ecost pmf (Gdisc h p pmf) K (Z.to_nat (S - s)) S (unitv (Z.to_nat (S - s)) 0) t).
Proof. exact expected_ss_period_cost_low. Qed.
Theorem C15_sS_stage_long_run_low_start : forall pmf, (forall l, 0 <= pf pmf l) -> qsum pmf == 1 -> pf pmf 0 < 1 ->
  forall (s S x0 : Z) (h p K : Q), (s < S)%Z -> (x0 <= s)%Z -> (Z.of_nat (length pmf) + (S - x0) <= 10 ^ 100)%Z ->
  forall dss T, length dss = T -> (1 <= T)%nat ->
  Qabs (sim_avg_cost s S h p K 1 x0 dss pmf T - gcost pmf (Gdisc h p pmf) K s S)
  <= (ergB pmf (Gdisc h p pmf) K s S + Qabs (Gdisc h p pmf x0 + K - gcost pmf (Gdisc h p pmf) K s S)) / qnat T.
Proof. exact sS_stage_long_run_low. Qed.

(* lead time 0: the expected simulated cost of period t is the chain's cost of period t+1 in the order-placement accounting with the
   degenerate one-period cost G0(y) = h y^+ + p y^-;  the long-run average is gcost with G0, NOT the value of s_s_cost_discrete *)
Theorem C15_sS_expected_period_cost_lead_time_0 : forall pmf, qsum pmf == 1 -> forall (s S x0 : Z) (h p K : Q), (s < S)%Z -> (s < x0 <= S)%Z ->
  (Z.of_nat (length pmf) + (S - s) <= 10 ^ 100)%Z -> forall dss t T o0, length dss = T -> (t < T)%nat ->
  expect_list T 0 pmf (ss_period_cost s S h p K 0 x0 dss t)
  == ecost_ord pmf (G0 h p) K (Z.to_nat (S - s)) S o0 (unitv (Z.to_nat (S - s)) (Z.to_nat (S - x0))) (Datatypes.S t).
Proof. exact expected_ss_period_cost_L0. Qed.
Theorem C15_sS_stage_long_run_lead_time_0 : forall pmf, (forall l, 0 <= pf pmf l) -> qsum pmf == 1 -> pf pmf 0 < 1 ->
  forall (s S x0 : Z) (h p K : Q), (s < S)%Z -> (s < x0 <= S)%Z -> (Z.of_nat (length pmf) + (S - s) <= 10 ^ 100)%Z ->
  forall dss T, length dss = T -> (1 <= T)%nat ->
  Qabs (sim_avg_cost s S h p K 0 x0 dss pmf T - gcost pmf (G0 h p) K s S)
  <= (ergB pmf (G0 h p) K s S + Qabs K + Qabs (G0 h p x0 - gcost pmf (G0 h p) K s S)) / qnat T.
Proof. exact sS_stage_long_run_L0. Qed.

(* non-vacuity 1 (pathwise): (s,S) = (2,8), h = 1, p = 4, K = 5, x0 = 6, demands 3 0 2 5 1 1 7 0 2 4: lead time 1, 0 and 3 (x0 = -1 <= s):
   the hypotheses hold, orders are placed in some periods and not in others, stockouts occur with L = 3 *)
Definition C15_ss_nodis : N -> bool := fun _ => false.
Definition C15_ss_ds : list Q := [3; 0; 2; 5; 1; 1; 7; 0; 2; 4].
Definition C15_ss_dl := map (fun d => (C15_ss_nodis, d)) C15_ss_ds.
Example C15_sS_pathwise_nonvacuous :
  Forall (fun x : (N -> bool) * Q => 0 <= snd x /\ snd x + (8 - (-1)) <= BIG) C15_ss_dl /\
  (let obs := fun NW => map (fun e => (qobs (gq e (fIL, 1%N, Ext)), qobs (gq e (fOQ, 1%N, Ext)), qobs (sim_cost_with_K NW 5 e))) (run NW (mk_inputs C15_ss_dl)) in
   let robs := fun x0 w => map (fun r => let '(il, w, q) := r in (qobs il, qobs q, qobs (1 * qmax 0 il + 4 * qmax 0 (- il) + (if qltb 0 q then 5 else 0)))) (ref_run 2 8 x0 w C15_ss_ds) in
   obs (NWS 2 8 1 4 1 6) = robs 6 [0] /\ obs (NWS 2 8 1 4 0 6) = robs 6 [] /\ obs (NWS 2 8 1 4 3 (-1)) = robs (-1) [0; 0; 0] /\
   map fst (obs (NWS 2 8 1 4 1 6)) = [(3, 1, (0, 1)); (3, 1, (0, 1)); (1, 1, (7, 1)); (3, 1, (0, 1)); (2, 1, (6, 1)); (7, 1, (0, 1)); (0, 1, (8, 1)); (8, 1, (0, 1)); (6, 1, (0, 1)); (2, 1, (6, 1))]%Z /\
   map (fun r => qobs (rec_pos r)) (ref_run 2 8 6 [0] C15_ss_ds) = map qobs (ss_path 2 8 6 C15_ss_ds) /\
   map (fun r => qobs (rec_pos r)) (ref_run 2 8 (-1) [0; 0; 0] C15_ss_ds) = map qobs (ss_path 2 8 (-1) C15_ss_ds) /\
   map (fun y => Z.to_nat (8 - fst (qobs y))) (ss_path 2 8 6 C15_ss_ds) = map (fun pr => off_step 6 (fst pr) (snd pr)) (off_pairs 6 2 [3; 0; 2; 5; 1; 1; 7; 0; 2; 4]%nat)).
Proof. split; [repeat constructor; vm_compute; discriminate|]. vm_compute. repeat split; reflexivity. Qed.

(* LEAD-TIME IDENTITY, any lead time L (= length of the window), every demand sequence: the inventory level at the end of period t+L is
   the position after the ordering of period t minus the demand of the periods t+1..t+L; during the first L periods IL(t) = x0 - d(0..t).
   (By C15_sS_stage_pathwise the records of the reference recursion ARE the simulator model's inventory level and on-order quantity.)
   With (b) above: for L >= 1 the chain lives on the inventory POSITION and the holding/stockout cost is evaluated L periods later. *)
Theorem C15_sS_lead_time_identity : forall s S il w ds t d0, (t + length w < length ds)%nat ->
  fst (fst (nth (t + length w) (ref_run s S il w ds) d0))
  == rec_pos (nth t (ref_run s S il w ds) d0) - qsum (firstn (length w) (skipn (Datatypes.S t) ds)).
Proof. exact ref_run_lead_time. Qed.
Theorem C15_sS_warm_up : forall s S x0 L ds t d0, (t < length ds)%nat -> (t < L)%nat ->
  fst (fst (nth t (ref_run s S x0 (repeat 0 L) ds) d0)) == x0 - qsum (firstn (Datatypes.S t) ds).
Proof. exact ref_run_warm_up. Qed.
Example C15_sS_lead_time_nonvacuous :
  let run := ref_run 2 8 (-1) [0; 0; 0] C15_ss_ds in
  map (fun t => qobs (fst (fst (nth (t + 3) run (0, [], 0))))) (seq 0 7) = [(1, 1); (0, 1); (-1, 1); (-1, 1); (-1, 1); (-3, 1); (2, 1)]%Z /\
  map (fun t => qobs (rec_pos (nth t run (0, [], 0)) - qsum (firstn 3 (skipn (Datatypes.S t) C15_ss_ds)))) (seq 0 7) = [(1, 1); (0, 1); (-1, 1); (-1, 1); (-1, 1); (-3, 1); (2, 1)]%Z /\
  map (fun t => qobs (fst (fst (nth t run (0, [], 0))))) (seq 0 3) = [(-4, 1); (-4, 1); (-6, 1)]%Z.
Proof. vm_compute. repeat split; reflexivity. Qed.

(* non-vacuity 2 (expectation): pmf (1/4, 1/2, 1/4) on 0,1,2; (s,S) = (1,4), h = 1, p = 4, K = 5, T = 4 (81 demand sequences through the
   simulator model): from x0 = 3 the expected period costs are 13/4, 63/16, 115/32, 115/32 = ecost; s_s_cost_discrete = 29/8, ergB = 3,
   average 115/32, |115/32 - 29/8| = 1/32 <= 3/4.  From x0 = -1 <= s: 13 = G(-1) + 5, then 3, 57/16, 119/32.  Lead time 0: 4, 43/8, 289/64, 1167/256. *)
Definition C15_ss_pm : list Q := [1 # 4; 1 # 2; 1 # 4].
Example C15_sS_expectation_nonvacuous :
  let dss := [C15_ss_nodis; C15_ss_nodis; C15_ss_nodis; C15_ss_nodis] in let G := Gdisc 1 4 C15_ss_pm in
  forallb (qleb 0) C15_ss_pm = true /\ qsum C15_ss_pm == 1 /\ pf C15_ss_pm 0 < 1 /\ (Z.of_nat (length C15_ss_pm) + (4 - -1) <= 10 ^ 100)%Z /\
  map (fun t => qobs (expect_list 4 0 C15_ss_pm (ss_period_cost 1 4 1 4 5 1 3 dss t))) [0; 1; 2; 3]%nat = [(13, 4); (63, 16); (115, 32); (115, 32)]%Z /\
  map (fun t => qobs (ecost C15_ss_pm G 5 3 4 (unitv 3 1) t)) [0; 1; 2; 3]%nat = [(13, 4); (63, 16); (115, 32); (115, 32)]%Z /\
  s_s_cost_discrete 1 4 5 C15_ss_pm 1 4 = Ok (29 # 8) /\ qobs (ergB C15_ss_pm G 5 1 4) = (3, 1)%Z /\
  qobs (sim_avg_cost 1 4 1 4 5 1 3 dss C15_ss_pm 4) = (115, 32)%Z /\
  map (fun t => qobs (expect_list 4 0 C15_ss_pm (ss_period_cost 1 4 1 4 5 1 (-1)%Z dss t))) [0; 1; 2; 3]%nat = [(13, 1); (3, 1); (57, 16); (119, 32)]%Z /\
  qobs (G (-1)%Z + 5) = (13, 1)%Z /\ map (fun t => qobs (ecost C15_ss_pm G 5 3 4 (unitv 3 0) t)) [0; 1; 2]%nat = [(3, 1); (57, 16); (119, 32)]%Z /\
  map (fun t => qobs (expect_list 4 0 C15_ss_pm (ss_period_cost 1 4 1 4 5 0 3 dss t))) [0; 1; 2; 3]%nat = [(4, 1); (43, 8); (289, 64); (1167, 256)]%Z /\
  map (fun t => qobs (ecost_ord C15_ss_pm (G0 1 4) 5 3 4 0 (unitv 3 1) t)) [1; 2; 3; 4]%nat = [(4, 1); (43, 8); (289, 64); (1167, 256)]%Z.
Proof. vm_compute. repeat split; try reflexivity; discriminate. Qed.

Print Assumptions C15_sS_stage_pathwise.
Print Assumptions C15_sS_position_rule.
Print Assumptions C15_sS_offsets.
Print Assumptions C15_sS_trans_is_law_of_off_step.
Print Assumptions C15_sS_trans_entry.
Print Assumptions C15_sS_period_cost_lead_time_1.
Print Assumptions C15_sS_period_cost_lead_time_0.
Print Assumptions C15_sS_markov.
Print Assumptions C15_sS_one_period_expectation.
Print Assumptions C15_sS_expected_period_cost.
Print Assumptions C15_sS_stage_long_run_expected_cost.
Print Assumptions C15_sS_stage_long_run_entry.
Print Assumptions C15_sS_expected_period_cost_low_start.
Print Assumptions C15_sS_stage_long_run_low_start.
Print Assumptions C15_sS_expected_period_cost_lead_time_0.
Print Assumptions C15_sS_stage_long_run_lead_time_0.
Print Assumptions C15_sS_lead_time_identity.
Print Assumptions C15_sS_warm_up.
