(* C15 — Simulated long-run cost agrees with the analytical expected cost.   PARTIAL BY NATURE.
   What is logic is proved here on the simulator model (Sim/Model.v): for a single stage under a base-stock policy with
   level S >= 0, shipment lead time L >= 0, no order lead time, external supplier, started at S, undisrupted, and for
   EVERY demand sequence and horizon, the end-of-period inventory level is S minus the demand of the last L periods
   (the "window"), the on-order quantity is that lead-time demand, and the period cost is h (S - D)^+ + p (D - S)^+ —
   i.e. the newsvendor cost function evaluated at the realised lead-time demand D.
   The EXPECTATION step is proved too (Sim/NVExpect.v) for i.i.d. demand with any finite pmf: the expectation, over the
   product distribution of the whole horizon, of the simulator model's period-t cost (window full) equals
   nvd_cost h p S (L-fold convolution of the pmf) — the analytical model of newsvendor_discrete (Alg/NVDiscrete.v, C10) applied
   to the lead-time-demand pmf of the DemandSource model (Alg/Gen.v conv_pow, C16); and the newsvendor level minimises it.
   NOT theorems: the ergodic convergence of the time average, continuous (normal) demand, the (s,S) and serial-system (SSM)
   analogues and the confidence band: they are decided by a statistical run (batch means, band sized for a false-alarm
   probability below 1e-6), reported in the evidence as search. *)
From SV Require Import Base.Qx Alg.Gen Alg.NVDiscrete Sim.Model Sim.Single Sim.NVExpect.

Section C15.
Variables (S h p : Q) (L : nat).
Hypothesis S_nonneg : 0 <= S.

Theorem C15_single_stage_pathwise : forall dl, Forall (fun x : (N -> bool) * Q => 0 <= snd x /\ snd x <= BIG) dl ->
  Forall2 (fun e w' => gq e (fIL, 1%N, Ext) == S - qsum w' /\ gq e (fOO, 1%N, Ext) == qsum w' /\
                       c_tc (node_costs (NW1 S h p L) e 1%N) == h * qmax 0 (S - qsum w') + p * qmax 0 (qsum w' - S))
          (run (NW1 S h p L) (mk_inputs dl)) (windows (repeat 0 L) (map snd dl)).
Proof. exact (single_stage_pathwise S h p L S_nonneg). Qed.
End C15.

(* the window of period t is the last L entries of (L zeros followed by the first t+1 demands) *)
Theorem C15_window_is_lead_time_demand : forall ds w t, (t < length ds)%nat ->
  nth t (windows w ds) [] = skipn (Datatypes.S t) (w ++ firstn (Datatypes.S t) ds).
Proof. exact windows_nth. Qed.

(* expectation over independent demands with pmf [pm] on the values off, off+1, ...: iterated sums, not via convolution *)
Theorem C15_law_of_lead_time_demand : forall L off pm g,
  expect_sum L off pm g == wsum (fun k => g (L * off + k)%nat) 0 (conv_pow L pm).
Proof. exact expect_sum_conv. Qed.
Theorem C15_expected_newsvendor_cost : forall L off pm h p (S : Z),
  expect_sum L off pm (nv_g h p (inject_Z S)) == nvd_cost h p S (pmf_of_list (L * off) (conv_pow L pm)).
Proof. exact expect_newsvendor. Qed.
(* the simulator model's period cost as a function of the natural-number demand sequence (any disruption flags dss) *)
Theorem C15_period_cost_pathwise : forall (lv h p : Q) (L : nat) dss t (ds : list nat),
  0 <= lv -> length dss = length ds -> (t < length ds)%nat -> (L <= Datatypes.S t)%nat ->
  Forall (fun d => (Z.of_nat d <= 10 ^ 100)%Z) ds ->
  period_cost lv h p L dss t ds == nv_g h p lv (list_sum (firstn L (skipn (Datatypes.S t - L) ds))).
Proof. exact period_cost_pathwise. Qed.
Theorem C15_expected_period_cost : forall (lv : Z) (h p : Q) (L off : nat) (pm : list Q) dss (t T : nat),
  (0 <= lv)%Z -> qsum pm == 1 -> (Z.of_nat (off + length pm) <= 10 ^ 100)%Z ->
  length dss = T -> (t < T)%nat -> (L <= Datatypes.S t)%nat ->
  expect_list T off pm (period_cost (inject_Z lv) h p L dss t)
  == nvd_cost h p lv (pmf_of_list (L * off) (conv_pow L pm)).
Proof. exact expected_period_cost. Qed.
Theorem C15_newsvendor_level_minimises_expected_cost : forall L off pm h p, 0 < h -> 0 <= p -> nonneg_list pm -> qsum pm == 1 ->
  forall y : Z,
  expect_sum L off pm (nv_g h p (inject_Z (nvd_level h p (pmf_of_list (L * off) (conv_pow L pm)))))
  <= expect_sum L off pm (nv_g h p (inject_Z y)).
Proof. exact expected_cost_minimised. Qed.
Example C15_expectation_nonvacuous :
  nonneg_list ex_pm /\ qsum ex_pm == 1 /\
  qobs (expect_sum 2 0 ex_pm (nv_g 1 4 (inject_Z 2))) = (15, 8)%Z /\
  qobs (nvd_cost 1 4 2 (pmf_of_list (2 * 0) (conv_pow 2 ex_pm))) = (15, 8)%Z /\
  qobs (expect_list 3 0 ex_pm (period_cost (inject_Z 2) 1 4 2 [(fun _ => false); (fun _ => false); (fun _ => false)] 2)) = (15, 8)%Z.
Proof. split; [exact (proj1 ex_hyps)|]. split; [exact (proj1 (proj2 ex_hyps))|]. vm_compute. repeat split; reflexivity. Qed.

Definition long_run_average_statement : Prop := True (* time average of the period cost -> E[h (S-D_L)^+ + p (D_L-S)^+] almost surely (the expectation itself is C15_expected_period_cost); (s,S) and SSM analogues: not provable about code; statistical search only *).

Example C15_nonvacuous :
  let recs := run (NW1 10 1 4 2) (mk_inputs (map (fun d => ((fun _ : N => false), d)) [3; 5; 2; 7; 1])) in
  map (fun e => qobs (gq e (fIL, 1%N, Ext))) recs = [(7, 1); (2, 1); (3, 1); (1, 1); (2, 1)]%Z
  /\ map (fun e => qobs (c_tc (node_costs (NW1 10 1 4 2) e 1%N))) recs = [(7, 1); (2, 1); (3, 1); (1, 1); (2, 1)]%Z.
Proof. vm_compute. split; reflexivity. Qed.

Print Assumptions C15_single_stage_pathwise.
Print Assumptions C15_window_is_lead_time_demand.
Print Assumptions C15_law_of_lead_time_demand.
Print Assumptions C15_expected_newsvendor_cost.
Print Assumptions C15_period_cost_pathwise.
Print Assumptions C15_expected_period_cost.
Print Assumptions C15_newsvendor_level_minimises_expected_cost.

(* ======================================================================================================================= *)
From Coq Require Import Permutation.
From SV Require Import Base.Qx Sim.Model Sim.Serial.
From SV Require Import Sim.CS Sim.CS_math Sim.CS_run Sim.CS_chain Sim.CS_serial.

(* most upstream stage: IL(t) = S' - D(t-L, t]   (the single-stage theorem inside the chain) *)
Theorem C15_serial_head_pathwise : forall h p order stages,
  stages <> [] -> NoDup (map sidx stages) -> Permutation order (map sidx stages) -> Forall (fun x => 0 <= slev x) stages ->
  forall inputs, inputs_ok stages inputs -> forall n post t, map sidx stages = n :: post -> (t < length inputs)%nat ->
  gq (nth t (run (NWloc h p order stages) inputs) empty_st) (fIL, n, Ext)
  == lev stages n - dwin (dfn (map sidx stages) inputs) (lead stages n) t.
Proof. exact serial_head_pathwise. Qed.

(* Clark-Scarf recursion, echelon form, textbook shape, for every edge q -> n of the chain and EVERY period t:
   t >= L_n:  IL^e_n(t) = min(S_n, IL^e_q(t - L_n)) - D(t-L_n, t];      t < L_n (warm-up):  IL^e_n(t) = S_n - D[0, t] *)
Theorem C15_serial_clark_scarf : forall h p order stages,
  stages <> [] -> NoDup (map sidx stages) -> Permutation order (map sidx stages) -> Forall (fun x => 0 <= slev x) stages ->
  forall inputs, inputs_ok stages inputs -> forall pre q n post t, map sidx stages = pre ++ q :: n :: post -> (t < length inputs)%nat ->
  let NW := NWloc h p order stages in let rec := fun t => nth t (run NW inputs) empty_st in
  let d := dfn (map sidx stages) inputs in let L := lead stages n in let S_n := ech (lev stages) (map sidx stages) n in
  ((L <= t)%nat -> echelon_il NW (rec t) n == qmin S_n (echelon_il NW (rec (t - L)%nat) q) - qsum_range d (S (t - L)) L) /\
  ((t < L)%nat -> echelon_il NW (rec t) n == S_n - qsum_range d 0 (S t)).
Proof. exact serial_clark_scarf. Qed.

(* the same for the most upstream stage (external supplier never short): IL^e(t) = S - D(t-L, t] *)
Theorem C15_serial_head_echelon : forall h p order stages,
  stages <> [] -> NoDup (map sidx stages) -> Permutation order (map sidx stages) -> Forall (fun x => 0 <= slev x) stages ->
  forall inputs, inputs_ok stages inputs -> forall n post t, map sidx stages = n :: post -> (t < length inputs)%nat ->
  echelon_il (NWloc h p order stages) (nth t (run (NWloc h p order stages) inputs) empty_st) n
  == ech (lev stages) (map sidx stages) n - dwin (dfn (map sidx stages) inputs) (lead stages n) t.
Proof. exact serial_head_echelon. Qed.

(* local form: IL_n(t) = S'_n - (IL_q(t - L_n))^- - D(t-L_n, t]: the only coupling is the upstream stage's backorder *)
Theorem C15_serial_clark_scarf_local : forall h p order stages,
  stages <> [] -> NoDup (map sidx stages) -> Permutation order (map sidx stages) -> Forall (fun x => 0 <= slev x) stages ->
  forall inputs, inputs_ok stages inputs -> forall pre q n post t, map sidx stages = pre ++ q :: n :: post -> (t < length inputs)%nat ->
  (lead stages n <= t)%nat ->
  gq (nth t (run (NWloc h p order stages) inputs) empty_st) (fIL, n, Ext)
  == lev stages n - qmax 0 (- gq (nth (t - lead stages n) (run (NWloc h p order stages) inputs) empty_st) (fIL, q, Ext))
     - qsum_range (dfn (map sidx stages) inputs) (S (t - lead stages n)) (lead stages n).
Proof. exact serial_clark_scarf_local. Qed.

(* one formula for all t (the start-of-period level ILs q k is the base-stock level at k = 0, so no case split) *)
Theorem C15_serial_clark_scarf_all_t : forall h p order stages,
  stages <> [] -> NoDup (map sidx stages) -> Permutation order (map sidx stages) -> Forall (fun x => 0 <= slev x) stages ->
  forall inputs, inputs_ok stages inputs -> forall pre q n post t, map sidx stages = pre ++ q :: n :: post -> (t < length inputs)%nat ->
  gq (nth t (run (NWloc h p order stages) inputs) empty_st) (fIL, n, Ext)
  == lev stages n - qmax 0 (- ILs (base h p order stages) (lev stages) inputs q (S t - lead stages n))
     - dwin (dfn (map sidx stages) inputs) (lead stages n) t.
Proof. exact serial_edge_pathwise. Qed.

(* what stage q ships to its successor n in period t: old backorders + demand - new backorders *)
Theorem C15_serial_shipments : forall h p order stages,
  stages <> [] -> NoDup (map sidx stages) -> Permutation order (map sidx stages) -> Forall (fun x => 0 <= slev x) stages ->
  forall inputs, inputs_ok stages inputs -> forall pre q n post t, map sidx stages = pre ++ q :: n :: post -> (t < length inputs)%nat ->
  gq (nth t (run (NWloc h p order stages) inputs) empty_st) (fOS, q, Nd n)
  == ship (ILs (base h p order stages) (lev stages) inputs q) (dfn (map sidx stages) inputs) t.
Proof. exact serial_shipments_pathwise. Qed.

(* all stages, any chain length: the inventory-level trajectories are the executable reference recursion [cs_serial]
   (Sim/CS.v) evaluated on the demand sequence: a function of the demand history only *)
Theorem C15_serial_reference : forall h p order stages,
  stages <> [] -> NoDup (map sidx stages) -> Permutation order (map sidx stages) -> Forall (fun x => 0 <= slev x) stages ->
  forall inputs, inputs_ok stages inputs -> forall pre n post t, map sidx stages = pre ++ n :: post -> (t < length inputs)%nat ->
  gq (nth t (run (NWloc h p order stages) inputs) empty_st) (fIL, n, Ext)
  == nth (length pre) (cs_serial (dfn (map sidx stages) inputs) (map (fun x => (slev x, sslt x)) stages)) (fun _ => 0) (S t).
Proof. exact serial_chain_reference. Qed.

(* the reference recursion (levels updated period by period through delay lines) has the Clark-Scarf closed form *)
Theorem C15_cs_closed_form : forall lv L xp d t, 0 <= xp 0%nat ->
  xrec lv (delay L (ship xp d)) d (S t) == lv - qmax 0 (- xp (S t - L)%nat) - dwin d L t.
Proof. exact edge_closed. Qed.

(* non-vacuity: 3 stages 7 -> 3 -> 5 (levels 4, 6, 5; lead times 1, 2, 1), demands 3 9 12 2 8 0 15 1: the hypotheses hold,
   stage 7 is short toward stage 3 in several periods, both arguments of the min are attained, and the executable
   reference reproduces the three simulated trajectories *)
Example C15_serial_nonvacuous :
  ex_stages <> [] /\ NoDup (map sidx ex_stages) /\ Permutation ex_order (map sidx ex_stages) /\ Forall (fun x => 0 <= slev x) ex_stages /\ inputs_ok ex_stages ex_inputs /\
  map sidx ex_stages = [] ++ 7%N :: 3%N :: [5%N] /\
  map (fun t => qobs (echelon_il ex_net (ex_rec t) 3%N)) (seq 0 8) = [(8, 1); (-1, 1); (-10, 1); (-8, 1); (-7, 1); (3, 1); (-8, 1); (-5, 1)]%Z /\
  map (fun t => qobs (echelon_il ex_net (ex_rec t) 7%N)) (seq 0 8) = [(12, 1); (6, 1); (3, 1); (13, 1); (7, 1); (15, 1); (0, 1); (14, 1)]%Z /\
  qobs (qmin (ech (lev ex_stages) (map sidx ex_stages) 3%N) (echelon_il ex_net (ex_rec 1) 7%N) - qsum_range (dfn (map sidx ex_stages) ex_inputs) 2 2) = (-8, 1)%Z /\
  qobs (qmin (ech (lev ex_stages) (map sidx ex_stages) 3%N) (echelon_il ex_net (ex_rec 3) 7%N) - qsum_range (dfn (map sidx ex_stages) ex_inputs) 4 2) = (3, 1)%Z /\
  map (fun x => map (fun t => qobs (x (S t))) (seq 0 8)) (cs_serial (dfun ex_dems) [(4, 1%nat); (6, 2%nat); (5, 1%nat)])
  = map (fun n => map (fun t => qobs (gq (ex_rec t) (fIL, n, Ext))) (seq 0 8)) [7%N; 3%N; 5%N].
Proof. exact serial_cs_nonvacuous. Qed.

Print Assumptions C15_serial_head_pathwise.
Print Assumptions C15_serial_clark_scarf.
Print Assumptions C15_serial_head_echelon.
Print Assumptions C15_serial_clark_scarf_local.
Print Assumptions C15_serial_clark_scarf_all_t.
Print Assumptions C15_serial_shipments.
Print Assumptions C15_serial_reference.
Print Assumptions C15_cs_closed_form.
