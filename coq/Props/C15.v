(* C15 — Simulated long-run cost agrees with the analytical expected cost.   PARTIAL BY NATURE.
   What is logic is proved here on the simulator model (Sim/Model.v): for a single stage under a base-stock policy with
   level S >= 0, shipment lead time L >= 0, no order lead time, external supplier, started at S, undisrupted, and for
   EVERY demand sequence and horizon, the end-of-period inventory level is S minus the demand of the last L periods
   (the "window"), the on-order quantity is that lead-time demand, and the period cost is h (S - D)^+ + p (D - S)^+ —
   i.e. the newsvendor cost function evaluated at the realised lead-time demand D.
   The EXPECTATION step is proved too (Sim/NVExpect.v) for i.i.d. demand with any finite pmf: the expectation, over the
   product distribution of the whole horizon, of the simulator model's period-t cost (window full) equals
   nvd_cost h p S (L-fold convolution of the pmf) — the analytical model of newsvendor_discrete (Alg/NVDiscrete.v, C10) applied
   to the lead-time-demand pmf of the DemandSource model (Alg/Gen.v conv_pow, C16); and the newsvendor level minimises it.
   NOT theorems: the ergodic convergence of the time average, continuous (normal) demand, the (s,S) and serial-system (SSM)
   analogues and the confidence band: they are decided by a statistical run (batch means, band sized for a false-alarm
   probability below 1e-6), reported in the evidence as search. *)
From SV Require Import Base.Qx Alg.Gen Alg.NVDiscrete Sim.Model Sim.Single Sim.NVExpect.

Section C15.
Variables (S h p : Q) (L : nat).
Hypothesis S_nonneg : 0 <= S.

Theorem C15_single_stage_pathwise : forall dl, Forall (fun x : (N -> bool) * Q => 0 <= snd x /\ snd x <= BIG) dl ->
  Forall2 (fun e w' => gq e (fIL, 1%N, Ext) == S - qsum w' /\ gq e (fOO, 1%N, Ext) == qsum w' /\
                       c_tc (node_costs (NW1 S h p L) e 1%N) == h * qmax 0 (S - qsum w') + p * qmax 0 (qsum w' - S))
          (run (NW1 S h p L) (mk_inputs dl)) (windows (repeat 0 L) (map snd dl)).
Proof. exact (single_stage_pathwise S h p L S_nonneg). Qed.
End C15.

(* the window of period t is the last L entries of (L zeros followed by the first t+1 demands) *)
Theorem C15_window_is_lead_time_demand : forall ds w t, (t < length ds)%nat ->
  nth t (windows w ds) [] = skipn (Datatypes.S t) (w ++ firstn (Datatypes.S t) ds).
Proof. exact windows_nth. Qed.

(* expectation over independent demands with pmf [pm] on the values off, off+1, ...: iterated sums, not via convolution *)
Theorem C15_law_of_lead_time_demand : forall L off pm g,
  expect_sum L off pm g == wsum (fun k => g (L * off + k)%nat) 0 (conv_pow L pm).
Proof. exact expect_sum_conv. Qed.
Theorem C15_expected_newsvendor_cost : forall L off pm h p (S : Z),
  expect_sum L off pm (nv_g h p (inject_Z S)) == nvd_cost h p S (pmf_of_list (L * off) (conv_pow L pm)).
Proof. exact expect_newsvendor. Qed.
(* the simulator model's period cost as a function of the natural-number demand sequence (any disruption flags dss) *)
Theorem C15_period_cost_pathwise : forall (lv h p : Q) (L : nat) dss t (ds : list nat),
  0 <= lv -> length dss = length ds -> (t < length ds)%nat -> (L <= Datatypes.S t)%nat ->
  Forall (fun d => (Z.of_nat d <= 10 ^ 100)%Z) ds ->
  period_cost lv h p L dss t ds == nv_g h p lv (list_sum (firstn L (skipn (Datatypes.S t - L) ds))).
Proof. exact period_cost_pathwise. Qed.
Theorem C15_expected_period_cost : forall (lv : Z) (h p : Q) (L off : nat) (pm : list Q) dss (t T : nat),
  (0 <= lv)%Z -> qsum pm == 1 -> (Z.of_nat (off + length pm) <= 10 ^ 100)%Z ->
  length dss = T -> (t < T)%nat -> (L <= Datatypes.S t)%nat ->
  expect_list T off pm (period_cost (inject_Z lv) h p L dss t)
  == nvd_cost h p lv (pmf_of_list (L * off) (conv_pow L pm)).
Proof. exact expected_period_cost. Qed.
Theorem C15_newsvendor_level_minimises_expected_cost : forall L off pm h p, 0 < h -> 0 <= p -> nonneg_list pm -> qsum pm == 1 ->
  forall y : Z,
  expect_sum L off pm (nv_g h p (inject_Z (nvd_level h p (pmf_of_list (L * off) (conv_pow L pm)))))
  <= expect_sum L off pm (nv_g h p (inject_Z y)).
Proof. exact expected_cost_minimised. Qed.
Example C15_expectation_nonvacuous :
  nonneg_list ex_pm /\ qsum ex_pm == 1 /\
  qobs (expect_sum 2 0 ex_pm (nv_g 1 4 (inject_Z 2))) = (15, 8)%Z /\
  qobs (nvd_cost 1 4 2 (pmf_of_list (2 * 0) (conv_pow 2 ex_pm))) = (15, 8)%Z /\
  qobs (expect_list 3 0 ex_pm (period_cost (inject_Z 2) 1 4 2 [(fun _ => false); (fun _ => false); (fun _ => false)] 2)) = (15, 8)%Z.
Proof. split; [exact (proj1 ex_hyps)|]. split; [exact (proj1 (proj2 ex_hyps))|]. vm_compute. repeat split; reflexivity. Qed.

Definition long_run_average_statement : Prop := True (* time average of the period cost -> E[h (S-D_L)^+ + p (D_L-S)^+] almost surely (the expectation itself is C15_expected_period_cost); (s,S) and SSM analogues: not provable about code; statistical search only *).

Example C15_nonvacuous :
  let recs := run (NW1 10 1 4 2) (mk_inputs (map (fun d => ((fun _ : N => false), d)) [3; 5; 2; 7; 1])) in
  map (fun e => qobs (gq e (fIL, 1%N, Ext))) recs = [(7, 1); (2, 1); (3, 1); (1, 1); (2, 1)]%Z
  /\ map (fun e => qobs (c_tc (node_costs (NW1 10 1 4 2) e 1%N))) recs = [(7, 1); (2, 1); (3, 1); (1, 1); (2, 1)]%Z.
Proof. vm_compute. split; reflexivity. Qed.

Print Assumptions C15_single_stage_pathwise.
Print Assumptions C15_window_is_lead_time_demand.
Print Assumptions C15_law_of_lead_time_demand.
Print Assumptions C15_expected_newsvendor_cost.
Print Assumptions C15_period_cost_pathwise.
Print Assumptions C15_expected_period_cost.
Print Assumptions C15_newsvendor_level_minimises_expected_cost.
