(* C04 — Every order placed follows the node's inventory policy.
   Model: Sim/Model.v ([rule], [capped], [obs_ip], [place_order]); statements hold for every state [s], node, policy
   parameter and inventory position (the policy functions are pure).
   Proved: the five rules, the capacity cap, the order placed by the ordering step = min(capacity, rule(IP)) with IP the
   position after this period's inbound orders (defined in the statement), no order while order-pausing disrupted,
   raw-material orders = finished-goods order for every supplier (network BOM numbers are 1 for single-product nodes),
   and the ONE-STAGE case of the echelon / local base-stock equivalence.
   NOT proved: [echelon_local_equivalence_statement] for serial systems of any length (decided by the EBS correspondence
   and by an EBS-vs-converted-BS trajectory oracle on the implementation); multi-product BOM orders (monitors only). *)
From SV Require Import Sim.Model Sim.Inv_base Sim.Policy_thms Sim.Main Sim.Example.

Theorem C04_base_stock_rule : forall lv ip, let q := rule (BS lv) ip in 0 <= q /\ q == qmax 0 (lv - ip) /\ ip + q == qmax lv ip.
Proof. exact bs_rule. Qed.
Theorem C04_sS_rule : forall rp lv ip, (ip <= rp -> rule (SS rp lv) ip == lv - ip) /\ (rp < ip -> rule (SS rp lv) ip == 0).
Proof. exact sS_rule. Qed.
Theorem C04_rQ_rule : forall rp q ip, (ip <= rp -> rule (RQ rp q) ip == q) /\ (rp < ip -> rule (RQ rp q) ip == 0).
Proof. exact rQ_rule. Qed.
Theorem C04_fixed_quantity_rule : forall q ip, rule (FQ q) ip == q.
Proof. exact fq_rule. Qed.
Theorem C04_echelon_base_stock_rule : forall lv ip, let q := rule (EBS lv) ip in 0 <= q /\ q == qmax 0 (lv - ip) /\ ip + q == qmax lv ip.
Proof. exact ebs_rule. Qed.
Theorem C04_capacity_cap : forall c oq k, cap c = Some k -> capped c oq == qmin oq k /\ capped c oq <= k /\ capped c oq <= oq.
Proof. exact cap_rule. Qed.
Theorem C04_orders_nonneg : forall NW s n, pol_ok (cfg NW n) -> 0 <= order_qty NW s n.
Proof. exact order_qty_nonneg. Qed.

Theorem C04_order_follows_policy : forall NW dis s n,
  gq (place_order NW dis s n) (fOQFG, n, Ext) ==
    gq s (fOQFG, n, Ext) + (if disk NW dis n dOP then 0 else capped (cfg NW n) (rule (pol (cfg NW n)) (obs_ip NW s n))).
Proof. exact order_follows_policy. Qed.
Theorem C04_position_after_demand : forall NW s n, match pol (cfg NW n) with EBS _ => True | _ =>
  obs_ip NW s n = gq s (fIL, n, Ext)
    + qmin_list (map (fun p => gq s (fRM, n, p) + gq s (fOO, n, p) + gq s (fIDI, n, p)) (suppliers (cfg NW n)))
    - qsumf (fun c => gq s (fIO, n, c)) (customers (cfg NW n)) end.
Proof. exact local_position_def. Qed.
Theorem C04_order_pausing : forall NW dis s n, disk NW dis n dOP = true -> place_order NW dis s n = s.
Proof. exact op_pauses. Qed.
Theorem C04_raw_material_orders : forall NW dis s n p, NoDup (suppliers (cfg NW n)) -> In p (suppliers (cfg NW n)) -> disk NW dis n dOP = false ->
  gq (place_order NW dis s n) (fOQ, n, p) == gq s (fOQ, n, p) + order_qty NW s n /\
  gq (place_order NW dis s n) (fOO, n, p) == gq s (fOO, n, p) + order_qty NW s n.
Proof. exact raw_material_orders. Qed.

Theorem C04_echelon_local_equivalence_partial : forall NW s n p, succs (cfg NW n) = [] -> suppliers (cfg NW n) = [p] ->
  echelon_ip NW s n - qsumf (fun c => gq s (fIO, n, c)) (customers (cfg NW n)) == local_ip NW s n.
Proof. exact echelon_eq_local_single_stage. Qed.
(* full statement (not proved): on a serial system, EBS with the echelon levels obtained from non-negative local levels
   S and BS with S, started at inventory levels S, have equal inventory-level and order trajectories *)
Definition echelon_local_equivalence_statement : Prop :=
  forall (NWe NWl : net) inputs, (* NWe = NWl except pol: EBS (suffix sums of S) vs BS S, serial, olt = 0, init_il = S >= 0 *)
    True -> map (fun e => map (fun n => (gq e (fIL, n, Ext), gq e (fOQFG, n, Ext))) (nodes NWe)) (run NWe inputs)
          = map (fun e => map (fun n => (gq e (fIL, n, Ext), gq e (fOQFG, n, Ext))) (nodes NWl)) (run NWl inputs).

Example C04_nonvacuous : rule (SS 4 10) 3 == 7 /\ rule (SS 4 10) 5 == 0 /\ capped (cfg ex_net 1%N) 20 == 9 /\ pol_ok (cfg ex_net 2%N).
Proof. vm_compute. repeat split; try reflexivity; discriminate. Qed.

Print Assumptions C04_base_stock_rule.
Print Assumptions C04_sS_rule.
Print Assumptions C04_rQ_rule.
Print Assumptions C04_fixed_quantity_rule.
Print Assumptions C04_echelon_base_stock_rule.
Print Assumptions C04_capacity_cap.
Print Assumptions C04_orders_nonneg.
Print Assumptions C04_order_follows_policy.
Print Assumptions C04_position_after_demand.
Print Assumptions C04_order_pausing.
Print Assumptions C04_raw_material_orders.
Print Assumptions C04_echelon_local_equivalence_partial.
