(* C04 — Every order placed follows the node's inventory policy.
   Model: Sim/Model.v ([rule], [capped], [obs_ip], [place_order]); statements hold for every state [s], node, policy
   parameter and inventory position (the policy functions are pure).
   Proved: the five rules, the capacity cap, the order placed by the ordering step = min(capacity, rule(IP)) with IP the
   position after this period's inbound orders (defined in the statement), no order while order-pausing disrupted,
   raw-material orders = finished-goods order for every supplier (network BOM numbers are 1 for single-product nodes),
   and the echelon / local base-stock equivalence for SERIAL SYSTEMS OF ANY LENGTH (Sim/Serial.v): the run under echelon
   base-stock with the converted levels and the run under local base-stock are equal as lists of states (every state
   variable of every stage in every period), for every chain, non-negative local levels, shipment lead times, node listing
   order, demand sequence and horizon (order lead time 0, started at the local levels, undisrupted — the setting of the
   property). The networks NWloc / NWech of that theorem are themselves run against the implementation on generated
   serial systems by the harness.
   Multi-product nodes (Sim/MultiOrder.v: the ordering step of ONE node in ONE period, the state it starts from being an
   input): each product's order = min(capacity, rule(position with units earmarked for the other products)), the
   raw-material orders add up per raw material to NBOM x finished-goods orders, the first supplier gets everything.
   The evolution of multi-product networks over time is the Stage-2 model Sim2/Model2.v: the C04_multi_run_* / C04_multi_model_* theorems
   below state the same facts for every record of every run and identify its ordering action with this stand-alone step. *)
From SV Require Import Sim.Model Sim.Inv_base Sim.Policy_thms Sim.Main Sim.Example Sim.MultiOrder Sim.MultiOrder_proofs Sim.Obs Sim.Serial.
From Coq Require Import Permutation.
From SV Require Import Sim2.State2 Sim2.Model2 Sim2.Inv2a_tac Sim2.Inv2a_run Sim2.Wfb2 Sim2.Inv2b_tac Sim2.Inv2b_init Sim2.Main2b Sim2.Inv2c_order Sim2.Inv2c_refine Sim2.Main2c.

Theorem C04_base_stock_rule : forall lv ip, let q := rule (BS lv) ip in 0 <= q /\ q == qmax 0 (lv - ip) /\ ip + q == qmax lv ip.
Proof. exact bs_rule. Qed.
Theorem C04_sS_rule : forall rp lv ip, (ip <= rp -> rule (SS rp lv) ip == lv - ip) /\ (rp < ip -> rule (SS rp lv) ip == 0).
Proof. exact sS_rule. Qed.
Theorem C04_rQ_rule : forall rp q ip, (ip <= rp -> rule (RQ rp q) ip == q) /\ (rp < ip -> rule (RQ rp q) ip == 0).
Proof. exact rQ_rule. Qed.
Theorem C04_fixed_quantity_rule : forall q ip, rule (FQ q) ip == q.
Proof. exact fq_rule. Qed.
Theorem C04_echelon_base_stock_rule : forall lv ip, let q := rule (EBS lv) ip in 0 <= q /\ q == qmax 0 (lv - ip) /\ ip + q == qmax lv ip.
Proof. exact ebs_rule. Qed.
Theorem C04_capacity_cap : forall c oq k, cap c = Some k -> capped c oq == qmin oq k /\ capped c oq <= k /\ capped c oq <= oq.
Proof. exact cap_rule. Qed.
Theorem C04_orders_nonneg : forall NW s n, pol_ok (cfg NW n) -> 0 <= order_qty NW s n.
Proof. exact order_qty_nonneg. Qed.

Theorem C04_order_follows_policy : forall NW dis s n,
  gq (place_order NW dis s n) (fOQFG, n, Ext) ==
    gq s (fOQFG, n, Ext) + (if disk NW dis n dOP then 0 else capped (cfg NW n) (rule (pol (cfg NW n)) (obs_ip NW s n))).
Proof. exact order_follows_policy. Qed.
Theorem C04_position_after_demand : forall NW s n, match pol (cfg NW n) with EBS _ => True | _ =>
  obs_ip NW s n = gq s (fIL, n, Ext)
    + qmin_list (map (fun p => gq s (fRM, n, p) + gq s (fOO, n, p) + gq s (fIDI, n, p)) (suppliers (cfg NW n)))
    - qsumf (fun c => gq s (fIO, n, c)) (customers (cfg NW n)) end.
Proof. exact local_position_def. Qed.
Theorem C04_order_pausing : forall NW dis s n, disk NW dis n dOP = true -> place_order NW dis s n = s.
Proof. exact op_pauses. Qed.
Theorem C04_raw_material_orders : forall NW dis s n p, NoDup (suppliers (cfg NW n)) -> In p (suppliers (cfg NW n)) -> disk NW dis n dOP = false ->
  gq (place_order NW dis s n) (fOQ, n, p) == gq s (fOQ, n, p) + order_qty NW s n /\
  gq (place_order NW dis s n) (fOO, n, p) == gq s (fOO, n, p) + order_qty NW s n.
Proof. exact raw_material_orders. Qed.

Theorem C04_echelon_local_equivalence_partial : forall NW s n p, succs (cfg NW n) = [] -> suppliers (cfg NW n) = [p] ->
  echelon_ip NW s n - qsumf (fun c => gq s (fIO, n, c)) (customers (cfg NW n)) == local_ip NW s n.
Proof. exact echelon_eq_local_single_stage. Qed.
(* serial systems of any length. [stages]: the chain upstream to downstream as (index, local level, shipment lead time);
   [order]: the node listing order of the network (any permutation); NWloc: every stage BS (local level); NWech: every stage
   EBS (local level + local levels of all stages downstream), see C04_echelon_level_formula *)
Theorem C04_serial_echelon_eq_local : forall h p order stages inputs,
  stages <> [] -> NoDup (map sidx stages) -> Permutation order (map sidx stages) ->
  Forall (fun x => 0 <= slev x) stages -> inputs_ok stages inputs ->
  run (NWech h p order stages) inputs = run (NWloc h p order stages) inputs.
Proof. exact serial_echelon_eq_local. Qed.
Theorem C04_serial_echelon_eq_local_every_field : forall h p order stages inputs t k,
  stages <> [] -> NoDup (map sidx stages) -> Permutation order (map sidx stages) ->
  Forall (fun x => 0 <= slev x) stages -> inputs_ok stages inputs ->
  gq (nth t (run (NWech h p order stages) inputs) empty_st) k = gq (nth t (run (NWloc h p order stages) inputs) empty_st) k /\
  gl (nth t (run (NWech h p order stages) inputs) empty_st) k = gl (nth t (run (NWloc h p order stages) inputs) empty_st) k.
Proof. exact serial_echelon_eq_local_fields. Qed.
Theorem C04_echelon_level_formula : forall stages pre x post, NoDup (map sidx stages) -> stages = pre ++ x :: post ->
  ech (lev stages) (map sidx stages) (sidx x) == slev x + qsum (map slev post).
Proof. exact echelon_level_formula. Qed.
(* a 3-stage chain 7 -> 3 -> 5 listed as [3; 5; 7]: hypotheses hold, levels BS 4/6/5 vs EBS 15/11/5, the sink and stage 3 are short in period 1 *)
Example C04_serial_nonvacuous :
  Serial.ex_stages <> [] /\ NoDup (map sidx Serial.ex_stages) /\ Permutation Serial.ex_order (map sidx Serial.ex_stages) /\
  Forall (fun x => 0 <= slev x) Serial.ex_stages /\ inputs_ok Serial.ex_stages Serial.ex_inputs /\
  (let e := nth 1 (run (NWloc Serial.ex_h Serial.ex_p Serial.ex_order Serial.ex_stages) Serial.ex_inputs) empty_st in
   gq e (fIL, 5%N, Ext) < 0 /\ gq e (fIL, 3%N, Ext) < 0 /\ 0 < gq e (fBO, 3%N, Nd 5%N) /\ 0 < gq e (fBO, 7%N, Nd 3%N) /\ 0 < gq e (fOQFG, 7%N, Ext)).
Proof. destruct serial_nonvacuous as (H1 & H2 & H3 & H4 & H5 & _ & _ & H8 & _). exact (conj H1 (conj H2 (conj H3 (conj H4 (conj H5 H8))))). Qed.

(* ---- multi-product nodes: bill-of-materials clause ---- *)
Theorem C04_multi_fg_order_follows_policy : forall prods rms, mwf prods rms -> forall pre pd post, prods = pre ++ pd :: post ->
  let '(oq0, oqfg0) := order_upto prods rms pre in
  fg_get (snd (order_step false prods rms)) (p_id pd) == MultiOrder.capq (p_cap pd) (rule (p_pol pd) (ip_of prods rms oq0 oqfg0 pd)).
Proof. exact fg_order_follows_policy. Qed.
Theorem C04_multi_raw_material_orders_add_up : forall prods rms, mwf prods rms -> forall paused rm, In rm rms ->
  let '(oq, oqfg) := order_step paused prods rms in
  qsumf (fun p => oq_get oq (r_id rm) p) (map s_nb (r_sups rm)) == qsumf (fun pd => MultiOrder.nbom pd (r_id rm) * fg_get oqfg (p_id pd)) prods.
Proof. exact raw_material_orders_add_up. Qed.
Theorem C04_multi_first_supplier_gets_all : forall q s rest, MultiOrder.split_order q (s :: rest) = (s_nb s, q) :: MultiOrder.split_order (q - q) rest /\
  Forall (fun x => snd x == 0) (MultiOrder.split_order (q - q) rest).
Proof. exact first_supplier_gets_all. Qed.
Theorem C04_multi_order_pausing : forall prods rms k r p, fg_get (snd (order_step true prods rms)) k = 0 /\ oq_get (fst (order_step true prods rms)) r p = 0.
Proof. exact paused_orders_nothing. Qed.
(* with one product, NBOM = 1 and one supplier per raw material the position is the single-product form above *)
Theorem C04_multi_single_product_position : forall pd rms, NoDup (map r_id rms) -> p_bom pd = map (fun rm => (r_id rm, 1)) rms ->
  (forall rm, In rm rms -> exists s, r_sups rm = [s]) ->
  ip_of [pd] rms [] [] pd == p_il pd + qmin_list (map (fun rm => r_inv rm + qsumf (fun s => s_oo s + s_idi s) (r_sups rm)) rms) - p_dem pd.
Proof. exact single_product_position. Qed.

(* two products sharing raw material 7 (two suppliers) ; product 2 also uses raw material 8: hypotheses hold, orders are non-trivial *)
Definition ex_rms : list mrm := [ {| r_id := 7; r_inv := 2; r_sups := [ {| s_nb := Nd 20; s_oo := 3; s_idi := 0 |}; {| s_nb := Nd 21; s_oo := 0; s_idi := 1 |} ] |};
                                  {| r_id := 8; r_inv := 0; r_sups := [ {| s_nb := Ext; s_oo := 4; s_idi := 0 |} ] |} ].
Definition ex_prods : list mprod := [ {| p_id := 1; p_il := 5; p_dem := 4; p_pol := BS 12; p_cap := None; p_pfg := 1; p_bom := [(7%N, 2)] |};
                                      {| p_id := 2; p_il := -1; p_dem := 3; p_pol := SS 6 15; p_cap := Some 9; p_pfg := 0; p_bom := [(7%N, 1); (8%N, 3)] |} ].
Example C04_multi_nonvacuous : mwf ex_prods ex_rms /\
  (let o := order_obs false ex_prods ex_rms in (map qobs (fst o), map (map qobs) (snd o))) = ([(8, 1); (9, 1)], [[(25, 1); (0, 1)]; [(27, 1)]])%Z /\ map qobs (ip_trace ex_prods ex_rms) = [(4, 1); (-8, 3)]%Z.
Proof. split; [|vm_compute; split; reflexivity].
  constructor; cbn.
  - repeat constructor; cbn; intuition discriminate.
  - repeat constructor; cbn; intuition discriminate.
  - intros rm [E|[E|[]]]; subst; cbn; split; try discriminate; repeat constructor; cbn; intuition discriminate.
  - intros pd [E|[E|[]]]; subst; cbn; (split; [repeat constructor; cbn; intuition discriminate|]);
      intros rb [E|H]; subst; cbn.
    + eexists; split; [left; reflexivity|reflexivity].
    + destruct H.
    + eexists; split; [left; reflexivity|reflexivity].
    + destruct H as [E|[]]; subst. eexists; split; [right; left; reflexivity|reflexivity].
Qed.

(* ---- multi-product nodes INSIDE the dynamic Stage-2 model (Sim2/Model2.v; proofs Sim2/Inv2c_order.v, Inv2c_refine.v, Main2c.v): in every record of every run the
   raw-material orders add up per raw material to NBOM x finished-goods orders, the first supplier gets everything, every product orders
   min(capacity, rule(position it observes when its turn comes)), and the model's ordering action IS the stand-alone [order_step] above applied to the
   rows read off the state (so the C04_multi_* theorems above apply to every node of every state of every run) ---- *)
Theorem C04_multi_run_orders_add_up :
  forall (NW : net2) (inputs : inputs2),
         Main2b.goodB2b NW = true ->
         supC2b NW = true ->
         forall (e : st2) (n r : N),
         In e (run2 NW inputs) ->
         In n (nodes2 NW) ->
         In r (n_rms (cfg2 NW n)) ->
         qsumf (fun p : nb => gq2 e (fOQ, n, p, r)) (m_sups (RC NW n r)) ==
         qsumf (fun k : N => nbom (PC NW n k) r * gq2 e (fOQFG, n, Ext, k))
           (n_prods (cfg2 NW n)).
Proof. exact C04m_run_orders_add_up. Qed.
Theorem C04_multi_run_first_supplier :
  forall (NW : net2) (inputs : inputs2),
         Main2b.goodB2b NW = true ->
         forall (e : st2) (n : N) (p : nb) (r : N),
         In e (run2 NW inputs) ->
         Inv2b_tac.sup_edge NW n p r ->
         gq2 e (fOQ, n, p, r) ==
         (if Inv2c_order.first_supC (m_sups (RC NW n r)) p
          then
           qsumf (fun k : N => nbom (PC NW n k) r * gq2 e (fOQFG, n, Ext, k))
             (n_prods (cfg2 NW n))
          else 0).
Proof. exact C04m_run_first_supplier. Qed.
(* (weak form: s0 existentially quantified; superseded by C04_multi_run_order_follows_policy_named at the end of this file, which names the state) *)
Theorem C04_multi_run_order_follows_policy :
  forall (NW : net2) (inputs : inputs2),
         Main2b.goodB2b NW = true ->
         Main2b.onceB2b NW = true ->
         forall (t : nat) (n : N) (pre : list N) (k : N) (post : list N),
         (t < length inputs)%nat ->
         In n (nodes2 NW) ->
         n_prods (cfg2 NW n) = pre ++ k :: post ->
         let e := nth t (run2 NW inputs) empty_st2 in
         let i := nth t inputs Inv2b_period.dflt_input2 in
         exists s0 : st2,
           gq2 e (fOQFG, n, Ext, k) ==
           (if disk2 NW (i_dis i) n dOP
            then 0
            else
             capq (k_cap (PC NW n k))
               (rule (k_pol (PC NW n k))
                  (obs_ip2 NW
                     (fold_left
                        (fun (s : st2) (k' : N) =>
                         place_prod2 NW (i_err i) s n k') pre s0) n k +
                   i_err i n k))).
Proof. exact C04m_run_order_follows_policy. Qed.
Theorem C04_multi_model_refines_order_step :
  forall (NW : net2) (dis : N -> bool) (err : N -> N -> Q) 
           (s : st2) (n : N),
         Main2b.goodB2b NW = true ->
         Main2b.onceB2b NW = true ->
         In n (nodes2 NW) ->
         (forall k : N, In k (n_prods (cfg2 NW n)) -> err n k == 0) ->
         let
         '(oq, oqfg) :=
          Inv2c_refine.MO.order_step (disk2 NW dis n dOP)
            (Inv2c_refine.prod_rowsC NW s n) (Inv2c_refine.rm_rowsC NW s n) in
          let e := place_orders2 NW dis err s n in
          (forall k : N,
           gq2 e (fOQFG, n, Ext, k) ==
           gq2 s (fOQFG, n, Ext, k) + Inv2c_refine.MO.fg_get oqfg k) /\
          (forall k : N,
           gq2 e (fPFG, n, Ext, k) ==
           gq2 s (fPFG, n, Ext, k) + Inv2c_refine.MO.fg_get oqfg k) /\
          (forall (r : N) (p : nb),
           In r (n_rms (cfg2 NW n)) ->
           gq2 e (fOQ, n, p, r) ==
           gq2 s (fOQ, n, p, r) + Inv2c_refine.MO.oq_get oq r p) /\
          (forall (r : N) (p : nb),
           In r (n_rms (cfg2 NW n)) ->
           gq2 e (fOO, n, p, r) ==
           gq2 s (fOO, n, p, r) + Inv2c_refine.MO.oq_get oq r p).
Proof. exact C04m_refines_order_step. Qed.
Theorem C04_multi_model_rows_wellformed :
  forall (NW : net2) (err : N -> N -> Q) (s : st2) (n : N),
         Main2b.goodB2b NW = true ->
         Main2b.onceB2b NW = true ->
         supC2b NW = true ->
         In n (nodes2 NW) ->
         (forall k : N, In k (n_prods (cfg2 NW n)) -> err n k == 0) ->
         Inv2c_refine.MP.mwf (Inv2c_refine.prod_rowsC NW s n)
           (Inv2c_refine.rm_rowsC NW s n).
Proof. exact C04m_rows_wellformed. Qed.

Example C04_nonvacuous : rule (SS 4 10) 3 == 7 /\ rule (SS 4 10) 5 == 0 /\ capped (cfg ex_net 1%N) 20 == 9 /\ pol_ok (cfg ex_net 2%N).
Proof. vm_compute. repeat split; try reflexivity; discriminate. Qed.

Print Assumptions C04_base_stock_rule.
Print Assumptions C04_sS_rule.
Print Assumptions C04_rQ_rule.
Print Assumptions C04_fixed_quantity_rule.
Print Assumptions C04_echelon_base_stock_rule.
Print Assumptions C04_capacity_cap.
Print Assumptions C04_orders_nonneg.
Print Assumptions C04_order_follows_policy.
Print Assumptions C04_position_after_demand.
Print Assumptions C04_order_pausing.
Print Assumptions C04_raw_material_orders.
Print Assumptions C04_echelon_local_equivalence_partial.
Print Assumptions C04_serial_echelon_eq_local.
Print Assumptions C04_serial_echelon_eq_local_every_field.
Print Assumptions C04_echelon_level_formula.
Print Assumptions C04_multi_fg_order_follows_policy.
Print Assumptions C04_multi_raw_material_orders_add_up.
Print Assumptions C04_multi_first_supplier_gets_all.
Print Assumptions C04_multi_order_pausing.
Print Assumptions C04_multi_single_product_position.
Print Assumptions C04_multi_run_orders_add_up.
Print Assumptions C04_multi_run_first_supplier.
Print Assumptions C04_multi_run_order_follows_policy.
Print Assumptions C04_multi_model_refines_order_step.
Print Assumptions C04_multi_model_rows_wellformed.

(* ==== integrated from c04strong (vacuity audit F4) ==== *)
From SV Require Import Sim2.Inv2b_period.
From SV Require Import Sim2.OrderStart2 Sim2.OrderStart2_proofs Sim2.OrderStart2_example.

(* ---- C04_multi_run_order_follows_policy with the state NAMED: s0 is not existentially quantified but is the term
   [order_start_state NW inputs t n] (Sim2/OrderStart2.v, executable) =
       recv_orders2 (gen_demand2 (fold_left orders_action2 (visited_before n (order_visit2 NW)) (period_start_state NW inputs t)) n) n
   with period_start_state = init_state2 (t = 0) / next_period2 of record t-1 (t > 0): the state of the model in period t after the
   complete orders actions of the nodes visited before n in the orders traversal and after n's own demand generation and receipt of
   inbound orders, up to but excluding n's own order placement.  [fold_left place_prod2 pre s0] then is the state when product k's turn
   comes (the products before k at n have placed their orders). ---- *)
Theorem C04_multi_run_order_follows_policy_named :
  forall (NW : net2) (inputs : inputs2),
         Main2b.goodB2b NW = true ->
         Main2b.onceB2b NW = true ->
         forall (t : nat) (n : N) (pre : list N) (k : N) (post : list N),
         (t < length inputs)%nat ->
         In n (nodes2 NW) ->
         n_prods (cfg2 NW n) = pre ++ k :: post ->
         let e := nth t (run2 NW inputs) empty_st2 in
         let i := nth t inputs Inv2b_period.dflt_input2 in
         let s0 := order_start_state NW inputs t n in
           gq2 e (fOQFG, n, Ext, k) ==
           (if disk2 NW (i_dis i) n dOP
            then 0
            else
             capq (k_cap (PC NW n k))
               (rule (k_pol (PC NW n k))
                  (obs_ip2 NW
                     (fold_left
                        (fun (s : st2) (k' : N) =>
                         place_prod2 NW (i_err i) s n k') pre s0) n k +
                   i_err i n k))).
Proof. exact C04m_run_order_follows_policy_named. Qed.

(* the named state lies on the run's own path: record t is obtained from it by n's order placement, the orders actions of the nodes
   visited after n, and the shipments phase *)
Theorem C04_multi_run_record_from_order_start :
  forall (NW : net2) (inputs : inputs2),
         Main2b.goodB2b NW = true ->
         forall (t : nat) (n : N),
         (t < length inputs)%nat ->
         In n (nodes2 NW) ->
         let e := nth t (run2 NW inputs) empty_st2 in
         let i := nth t inputs Inv2b_period.dflt_input2 in
         exists aft : list N,
           order_visit2 NW = visited_before n (order_visit2 NW) ++ n :: aft /\
           e = fold_left (ships_action2 NW (i_dis i)) (ship_visit2 NW)
                 (fold_left (orders_action2 NW (i_dis i) (i_dem i) (i_err i)) aft
                    (place_orders2 NW (i_dis i) (i_err i) (order_start_state NW inputs t n) n)).
Proof. exact C04m_record_from_order_start. Qed.

(* the old, existential statement follows *)
Corollary C04_multi_run_order_follows_policy_from_named :
  forall (NW : net2) (inputs : inputs2),
         Main2b.goodB2b NW = true ->
         Main2b.onceB2b NW = true ->
         forall (t : nat) (n : N) (pre : list N) (k : N) (post : list N),
         (t < length inputs)%nat ->
         In n (nodes2 NW) ->
         n_prods (cfg2 NW n) = pre ++ k :: post ->
         let e := nth t (run2 NW inputs) empty_st2 in
         let i := nth t inputs Inv2b_period.dflt_input2 in
         exists s0 : st2,
           gq2 e (fOQFG, n, Ext, k) ==
           (if disk2 NW (i_dis i) n dOP
            then 0
            else
             capq (k_cap (PC NW n k))
               (rule (k_pol (PC NW n k))
                  (obs_ip2 NW
                     (fold_left
                        (fun (s : st2) (k' : N) =>
                         place_prod2 NW (i_err i) s n k') pre s0) n k +
                   i_err i n k))).
Proof. exact C04m_run_order_follows_policy_weak. Qed.

(* witness: exB2_net, period 1, node 3 (visited after node 4), product 31 after product 30 (pre = [30]): the record holds 4; the
   equation holds with the named state and fails with init_state2, with the period's start state and with the state just before
   node 3's own turn: the named state matters *)
Example C04_multi_run_order_follows_policy_named_nonvacuous :
  Main2b.goodB2b exB2_net = true /\ Main2b.onceB2b exB2_net = true /\ (1 < length exB2_inputs)%nat /\ In 3%N (nodes2 exB2_net) /\
  n_prods (cfg2 exB2_net 3%N) = [30%N] ++ 31%N :: [] /\
  visited_before 3%N (order_visit2 exB2_net) = [4%N] /\
  let e := nth 1 (run2 exB2_net exB2_inputs) empty_st2 in
  let i := nth 1 exB2_inputs Inv2b_period.dflt_input2 in
  let rhs := fun s0 : st2 =>
       if disk2 exB2_net (i_dis i) 3%N dOP then 0
       else capq (k_cap (PC exB2_net 3%N 31%N)) (rule (k_pol (PC exB2_net 3%N 31%N))
              (obs_ip2 exB2_net (fold_left (fun (s : st2) (k' : N) => place_prod2 exB2_net (i_err i) s 3%N k') [30%N] s0) 3%N 31%N + i_err i 3%N 31%N)) in
  disk2 exB2_net (i_dis i) 3%N dOP = false /\
  gq2 e (fOQFG, 3%N, Ext, 31%N) == 4 /\
  gq2 e (fOQFG, 3%N, Ext, 31%N) == rhs (order_start_state exB2_net exB2_inputs 1 3%N) /\
  ~ gq2 e (fOQFG, 3%N, Ext, 31%N) == rhs (init_state2 exB2_net) /\
  ~ gq2 e (fOQFG, 3%N, Ext, 31%N) == rhs (period_start_state exB2_net exB2_inputs 1) /\
  ~ gq2 e (fOQFG, 3%N, Ext, 31%N) == rhs (node_turn_state exB2_net exB2_inputs 1 3%N).
Proof. split; [exact exB2_good|]. split; [vm_compute; reflexivity|]. split; [vm_compute; lia|]. split; [vm_compute; auto|].
  split; [vm_compute; reflexivity|]. split; [vm_compute; reflexivity|]. cbv zeta.
  split; [vm_compute; reflexivity|]. split; [vm_compute; reflexivity|]. split; [vm_compute; reflexivity|].
  split; [|split]; vm_compute; discriminate. Qed.

Print Assumptions C04_multi_run_order_follows_policy_named.
Print Assumptions C04_multi_run_record_from_order_start.
Print Assumptions C04_multi_run_order_follows_policy_from_named.
Print Assumptions C04_multi_run_order_follows_policy_named_nonvacuous.
