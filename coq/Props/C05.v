(* C05 — Reported costs are exactly the cost of the reported state.
   Model: [node_costs] / [total_cost] of Sim/Model.v. [cost_spec] below is written from the property text
   (holding rate x (positive inventory + items held for disrupted customers) + supplier's rate x (raw material + items
   held at the door), stockout rate x backorders, in-transit (default: holding) rate x everything in transit to the
   successors, total = holding + stockout + in-transit - revenue; return value = sum over nodes and periods).
   The identity model = spec is definitional; what ties it to stockpyl is the correspondence on HC/SC/ITHC/REV/TC and the
   return value on every generated case, plus an oracle recomputing the costs from the implementation's own state
   variables (incl. multi-product networks with shared raw materials: Stage-2 model, C05_multi_* theorems below).
   Cost FUNCTIONS (local_holding_cost_function / stockout_cost_function): Sim/CostFn.v, C05_fn_* theorems below; the generated cases with
   cost functions are evaluated with that read-out and compared with the implementation like the others. *)
From SV Require Import Sim.Model Sim.Inv_base Sim.Policy_thms Sim.Example Sim.Obs Sim.CostFn Sim.CostFn_proofs.
From SV Require Import Sim2.State2 Sim2.Model2 Sim2.Inv2a_tac Sim2.Inv2a_run Sim2.Wfb2 Sim2.Inv2b_tac Sim2.Inv2b_init Sim2.Main2b Sim2.Inv2c_cost Sim2.Main2c.

Theorem C05_costs_match_spec : forall NW e n, let k := node_costs NW e n in
  (c_hc k, c_sc k, c_ithc k, c_rev k) = cost_spec NW e n /\ c_tc k = c_hc k + c_sc k + c_ithc k - c_rev k.
Proof. exact costs_match_spec. Qed.
Theorem C05_total_is_sum : forall NW recs,
  total_cost NW recs = qsum (map (fun e => qsum (map (fun n => c_tc (node_costs NW e n)) (nodes NW))) recs).
Proof. exact total_is_sum. Qed.
Theorem C05_costs_nonneg : forall NW e n, NN e -> 0 <= hc (cfg NW n) -> (forall p, 0 <= hc (cfg NW p)) -> 0 <= pc (cfg NW n) ->
  match ith (cfg NW n) with Some r => 0 <= r | None => True end ->
  let k := node_costs NW e n in 0 <= c_hc k /\ 0 <= c_sc k /\ 0 <= c_ithc k.
Proof. exact costs_nonneg. Qed.
Theorem C05_mean_of_trials : forall (totals : list Q) (T : Q), ~ T == 0 ->
  qmean (map (fun x => x / T) totals) == (qsum totals / T) / qnat (length totals).
Proof. exact mean_of_trials. Qed.

(* ---- cost functions (sim._calculate_period_costs: a node's holding-cost function replaces rate x items held and sees exactly the items
   held; its stockout-cost function replaces rate x backorders and sees the SIGNED inventory level; raw materials, in-transit and revenue as
   before): read-out = specification, coincides with the rate read-out where no function is set (so every theorem above carries over),
   return value = sum of the totals, components >= 0 for functions that are >= 0 on the arguments they can see ---- *)
Theorem C05_fn_costs_match_spec : forall NW (hf sf : N -> option (Q -> Q)) e n, let k := node_costs_fn NW hf sf e n in
  (c_hc k, c_sc k, c_ithc k, c_rev k) = cost_spec_fn NW hf sf e n /\ c_tc k = c_hc k + c_sc k + c_ithc k - c_rev k.
Proof. exact costs_fn_match_spec. Qed.
Theorem C05_fn_without_functions_is_rate_cost : forall NW (hf sf : N -> option (Q -> Q)) recs,
  (forall n, In n (nodes NW) -> hf n = None /\ sf n = None) ->
  total_cost_fn NW hf sf recs = total_cost NW recs /\ forall e n, In n (nodes NW) -> node_costs_fn NW hf sf e n = node_costs NW e n.
Proof. intros NW hf sf recs H. split; [exact (total_fn_none NW hf sf recs H)|]. intros e n Hn. destruct (H n Hn). apply costs_fn_none; assumption. Qed.
Theorem C05_fn_total_is_sum : forall NW (hf sf : N -> option (Q -> Q)) recs,
  total_cost_fn NW hf sf recs = qsum (map (fun e => qsum (map (fun n => c_tc (node_costs_fn NW hf sf e n)) (nodes NW))) recs).
Proof. exact total_fn_is_sum. Qed.
Theorem C05_fn_costs_nonneg : forall NW (hf sf : N -> option (Q -> Q)) e n, NN e -> 0 <= hc (cfg NW n) -> (forall p, 0 <= hc (cfg NW p)) -> 0 <= pc (cfg NW n) ->
  match ith (cfg NW n) with Some r => 0 <= r | None => True end ->
  (forall f, hf n = Some f -> forall x, 0 <= x -> 0 <= f x) -> (forall g, sf n = Some g -> forall x, 0 <= g x) ->
  let k := node_costs_fn NW hf sf e n in 0 <= c_hc k /\ 0 <= c_sc k /\ 0 <= c_ithc k.
Proof. exact costs_fn_nonneg. Qed.
Theorem C05_fn_linear_function_is_rate : forall NW (hf sf : N -> option (Q -> Q)) e n,
  hf n = Some (quad_h (hc (cfg NW n)) 0) -> sf n = Some (quad_p (pc (cfg NW n)) 0) ->
  let k := node_costs_fn NW hf sf e n in let k0 := node_costs NW e n in
  c_hc k == c_hc k0 /\ c_sc k == c_sc k0 /\ c_ithc k = c_ithc k0 /\ c_rev k = c_rev k0 /\ c_tc k == c_tc k0.
Proof. exact costs_fn_linear. Qed.

(* ---- multi-product networks (Stage-2 model Sim2/Model2.v; Sim2/Inv2c_cost.v): holding = sum over products of rate x (IL+ + held items) + per RAW MATERIAL (once, even if
   several products use it) the pricing supplier's rate x (raw-material stock + items held at the door from that supplier); stockout = rate x backorders per product;
   in-transit = (in-transit, default holding) rate x everything in transit to the product's customers; total = sum; components >= 0 ---- *)
Theorem C05_multi_costs_match_spec :
  forall NW : net2,
         priceC2b NW = true ->
         forall (e : st2) (n : N),
         In n (nodes2 NW) ->
         let k := node_costs2 NW e n in
         c_hc k == Inv2c_cost.holding_specC NW e n /\
         c_sc k = Inv2c_cost.stockout_il_specC NW e n /\
         c_ithc k = Inv2c_cost.in_transit_specC NW e n /\
         c_rev k = Inv2c_cost.revenue_specC NW e n /\
         c_tc k = c_hc k + c_sc k + c_ithc k - c_rev k.
Proof. exact C05m_costs_match_spec_net. Qed.
Theorem C05_multi_stockout_is_backorders :
  forall (NW : net2) (inputs : inputs2),
         Wfb2.good2b NW = true ->
         Inv2a_run.dem_ok2 inputs ->
         forall (e : st2) (n : N),
         In e (run2 NW inputs) ->
         c_sc (node_costs2 NW e n) == Inv2c_cost.stockout_specC NW e n.
Proof. exact C05m_stockout_is_backorders. Qed.
Theorem C05_multi_raw_material_charged_once :
  forall (NW : net2) (e : st2) (n : N),
         NoDup (n_rms (cfg2 NW n)) ->
         (forall r : N,
          In r (n_rms (cfg2 NW n)) <->
          (exists k : N,
             In k (n_prods (cfg2 NW n)) /\ In r (map fst (k_bom (PC NW n k))))) ->
         qsumf (Inv2c_cost.rm_holdingC NW e n) (n_rms (cfg2 NW n)) ==
         qsumf (Inv2c_cost.rm_holdingC NW e n) (Inv2c_cost.bom_rmsC NW n).
Proof. exact C05m_raw_material_charged_once. Qed.
Theorem C05_multi_total_is_sum :
  forall (NW : net2) (recs : list st2),
         total_cost2 NW recs =
         qsum
           (map
              (fun e : st2 =>
               qsum (map (fun n : N => c_tc (node_costs2 NW e n)) (nodes2 NW)))
              recs).
Proof. exact C05m_total_is_sum. Qed.
Theorem C05_multi_costs_nonneg :
  forall (NW : net2) (inputs : inputs2),
         Wfb2.good2b NW = true ->
         Inv2a_run.dem_ok2 inputs ->
         ratesC2b NW = true ->
         forall (e : st2) (n : N),
         In e (run2 NW inputs) ->
         In n (nodes2 NW) ->
         let k := node_costs2 NW e n in
         0 <= c_hc k /\ 0 <= c_sc k /\ 0 <= c_ithc k.
Proof. exact C05m_costs_nonneg_run. Qed.
Example C05_multi_nonvacuous : Main2b.goodB2b Main2b.exB2_net = true /\
         Main2b.onceB2b Main2b.exB2_net = true /\
         Wfb2.good2b Main2b.exB2_net = true /\
         supC2b Main2b.exB2_net = true /\
         priceC2b Main2b.exB2_net = true /\
         ratesC2b Main2b.exB2_net = true /\
         Inv2a_run.dem_ok2 Main2b.exB2_inputs /\
         Inv2b_tac.sup_edge Main2b.exB2_net 3 (Nd 1) 10 /\
         Inv2b_tac.sup_edge Main2b.exB2_net 3 (Nd 2) 10 /\
         (let e := nth 1 (run2 Main2b.exB2_net Main2b.exB2_inputs) empty_st2 in
          In e (run2 Main2b.exB2_net Main2b.exB2_inputs) /\
          gq2 e (fOQFG, 3%N, Ext, 30%N) == 5 /\
          gq2 e (fOQFG, 3%N, Ext, 31%N) == 4 /\
          gq2 e (fOQ, 3%N, Nd 1, 10%N) == 22 /\
          gq2 e (fOQ, 3%N, Nd 2, 10%N) == 0 /\
          nbom (PC Main2b.exB2_net 3 30) 10 == 2 /\
          nbom (PC Main2b.exB2_net 3 31) 10 == 3) /\
         (let e := nth 3 (run2 Main2b.exB2_net Main2b.exB2_inputs) empty_st2 in
          0 < c_sc (node_costs2 Main2b.exB2_net e 3) /\
          0 < c_ithc (node_costs2 Main2b.exB2_net e 3) /\
          0 < c_hc (node_costs2 Main2b.exB2_net e 4) /\
          0 < c_rev (node_costs2 Main2b.exB2_net e 3) /\
          0 < gq2 e (fRM, 4%N, Ext, 30%N) + gq2 e (fIDI, 4%N, Nd 3, 30%N)).
Proof. exact main2c_nonvacuous. Qed.

Example C05_nonvacuous : let e := nth 5 (run ex_net ex_inputs) empty_st in
  0 < c_hc (node_costs ex_net e 2%N) + c_sc (node_costs ex_net e 2%N) /\ 0 < c_ithc (node_costs ex_net e 2%N) + c_ithc (node_costs ex_net e 1%N).
Proof. vm_compute. split; reflexivity. Qed.

(* a quadratic holding function at node 1 and a quadratic stockout function at node 2 of the example run: in period 6 node 1 holds 3 items
   (rate cost 3, function cost 3.75) and node 2 is 10 short (rate cost 50, function cost 80), node 3 has no function and reads as before; the
   hypotheses of C05_fn_costs_nonneg hold for these families *)
Example C05_fn_nonvacuous : let e := nth 6 (run ex_net ex_inputs) empty_st in
  let hf := tbl None [(1%N, Some (quad_h (1 # 2) (1 # 4)))] in let sf := tbl None [(2%N, Some (quad_p 3 (1 # 2)))] in
  (qobs (c_hc (node_costs ex_net e 1%N)), qobs (c_hc (node_costs_fn ex_net hf sf e 1%N))) = ((3, 1), (15, 4))%Z /\
  (qobs (c_sc (node_costs ex_net e 2%N)), qobs (c_sc (node_costs_fn ex_net hf sf e 2%N))) = ((50, 1), (80, 1))%Z /\
  node_costs_fn ex_net hf sf e 3%N = node_costs ex_net e 3%N /\
  (forall x, 0 <= x -> 0 <= quad_h (1 # 2) (1 # 4) x) /\ (forall x, 0 <= quad_p 3 (1 # 2) x).
Proof. cbv zeta. split; [vm_compute; reflexivity|split; [vm_compute; reflexivity|split; [vm_compute; reflexivity|split]]].
  - intros x Hx. apply quad_h_nonneg; [lra|lra|exact Hx].
  - intros x. apply quad_p_nonneg; lra. Qed.

Print Assumptions C05_costs_match_spec.
Print Assumptions C05_total_is_sum.
Print Assumptions C05_costs_nonneg.
Print Assumptions C05_mean_of_trials.
Print Assumptions C05_fn_costs_match_spec.
Print Assumptions C05_fn_without_functions_is_rate_cost.
Print Assumptions C05_fn_total_is_sum.
Print Assumptions C05_fn_costs_nonneg.
Print Assumptions C05_fn_linear_function_is_rate.
Print Assumptions C05_multi_costs_match_spec.
Print Assumptions C05_multi_stockout_is_backorders.
Print Assumptions C05_multi_raw_material_charged_once.
Print Assumptions C05_multi_total_is_sum.
Print Assumptions C05_multi_costs_nonneg.
