(* C05 — Reported costs are exactly the cost of the reported state.
   Model: [node_costs] / [total_cost] of Sim/Model.v. [cost_spec] below is written from the property text
   (holding rate x (positive inventory + items held for disrupted customers) + supplier's rate x (raw material + items
   held at the door), stockout rate x backorders, in-transit (default: holding) rate x everything in transit to the
   successors, total = holding + stockout + in-transit - revenue; return value = sum over nodes and periods).
   The identity model = spec is definitional; what ties it to stockpyl is the correspondence on HC/SC/ITHC/REV/TC and the
   return value on every generated case, plus an oracle recomputing the costs from the implementation's own state
   variables (incl. multi-product networks with shared raw materials, which the model does not cover).
   Cost FUNCTIONS (Python callables) are outside the model. *)
From SV Require Import Sim.Model Sim.Inv_base Sim.Policy_thms Sim.Example.

Theorem C05_costs_match_spec : forall NW e n, let k := node_costs NW e n in
  (c_hc k, c_sc k, c_ithc k, c_rev k) = cost_spec NW e n /\ c_tc k = c_hc k + c_sc k + c_ithc k - c_rev k.
Proof. exact costs_match_spec. Qed.
Theorem C05_total_is_sum : forall NW recs,
  total_cost NW recs = qsum (map (fun e => qsum (map (fun n => c_tc (node_costs NW e n)) (nodes NW))) recs).
Proof. exact total_is_sum. Qed.
Theorem C05_costs_nonneg : forall NW e n, NN e -> 0 <= hc (cfg NW n) -> (forall p, 0 <= hc (cfg NW p)) -> 0 <= pc (cfg NW n) ->
  match ith (cfg NW n) with Some r => 0 <= r | None => True end ->
  let k := node_costs NW e n in 0 <= c_hc k /\ 0 <= c_sc k /\ 0 <= c_ithc k.
Proof. exact costs_nonneg. Qed.
Theorem C05_mean_of_trials : forall (totals : list Q) (T : Q), ~ T == 0 ->
  qmean (map (fun x => x / T) totals) == (qsum totals / T) / qnat (length totals).
Proof. exact mean_of_trials. Qed.

Example C05_nonvacuous : let e := nth 5 (run ex_net ex_inputs) empty_st in
  0 < c_hc (node_costs ex_net e 2%N) + c_sc (node_costs ex_net e 2%N) /\ 0 < c_ithc (node_costs ex_net e 2%N) + c_ithc (node_costs ex_net e 1%N).
Proof. vm_compute. split; reflexivity. Qed.

Print Assumptions C05_costs_match_spec.
Print Assumptions C05_total_is_sum.
Print Assumptions C05_costs_nonneg.
Print Assumptions C05_mean_of_trials.
