(* C13 — (s,S): the reported cost equals the stationary cost of the inventory-position chain, and what the exact
   (Zheng-Federgruen) algorithm guarantees about the pair it returns.
   Statements only; every proof is [exact <lemma of Alg/SS_proofs.v>].
   Model: Alg/SS.v.  pmf = [p_0; ..; p_D] (pf pmf l = p_l, = 0 for l > D), exact rationals.
     m, M            renewal function of ss.py and its partial sums
     gcost pmf G K s S = (K + sum_{d<S-s} m(d) G(S-d)) / M(S-s)      -- what s_s_cost_discrete returns
     Gdisc h p pmf   one-period cost used by the custom-pmf entry point (newsvendor_discrete(...)[1])
     zf_from         the search of s_s_discrete_exact started at ystar (any G: covers the Poisson entry point, whose
                     pmf / G / ystar are SciPy tables);  s_s_discrete_exact = custom-pmf entry point incl. ystar.
   The (s,S) chain is written on the offset i = S - y in 0..n-1, n = S - s (inventory position after ordering y = S - i):
     trans pmf n i j = P(offset i -> offset j):  demand d moves i to i+d if i+d < n (y-d > s), else to 0 (order up to S);
     pi_ pmf n i     = m(i)/M(n)  = pi(y) = m(S-y)/M(S-s);   tailp pmf k = P(D >= k).
   Nothing below restricts n = S-s relative to D = length pmf - 1: all statements hold for S-s > D.
   A pmf is: all p_l >= 0, sum = 1; p_0 < 1 (otherwise demand is identically 0 and the code raises ZeroDivisionError). *)
From SV Require Import Base.Qx Alg.SS Alg.SS_proofs.

Section C13.
Variable pmf : list Q.
Hypothesis p_nonneg : forall l, 0 <= pf pmf l.
Hypothesis p_sum1 : qsum pmf == 1.
Hypothesis p0_lt1 : pf pmf 0 < 1.

(* (i) the code's recursion m[0] = 1/(1-p0), m[j] = m[0] sum_{l=1..j} p_l m[j-l] solves the renewal equation *)
Theorem C13_m_renewal : forall j,
  m pmf j == qsum_range (fun l => pf pmf l * m pmf (j - l)) 0 (S j) + (if Nat.eqb j 0 then 1 else 0).
Proof. exact (m_renewal pmf p0_lt1). Qed.

(* (ii) the chain is a Markov chain (non-negative rows summing to one) ... *)
Theorem C13_chain_stochastic : forall n i, (i < n)%nat ->
  (forall j, 0 <= trans pmf n i j) /\ qsum_range (trans pmf n i) 0 n == 1.
Proof. exact (chain_stochastic pmf p_nonneg p_sum1). Qed.
(* ... pi is a probability vector on its n states, for every n = S - s >= 1 ... *)
Theorem C13_stationary_is_distribution : forall n, (1 <= n)%nat ->
  (forall i, 0 <= pi_ pmf n i) /\ qsum_range (pi_ pmf n) 0 n == 1.
Proof. exact (stationary_is_distribution pmf p_nonneg p0_lt1). Qed.
(* ... and it is invariant:  pi P = pi *)
Theorem C13_stationary_invariant : forall n j, (j < n)%nat ->
  qsum_range (fun i => pi_ pmf n i * trans pmf n i j) 0 n == pi_ pmf n j.
Proof. exact (pi_invariant pmf p0_lt1 p_nonneg p_sum1). Qed.

(* (iii) the cost ratio is the stationary expectation of [one-period cost at y + K * P(an order follows)], any G *)
Theorem C13_cost_is_stationary_cost : forall (G : Z -> Q) (K : Q) (s S : Z), (s < S)%Z ->
  let n := Z.to_nat (S - s) in
  gcost pmf G K s S == qsum_range (fun i => pi_ pmf n i * (G (S - Z.of_nat i)%Z + K * tailp pmf (n - i))) 0 n.
Proof. exact (fun G K => cost_is_stationary_cost pmf G K p0_lt1 p_nonneg p_sum1). Qed.
(* the same at the custom-pmf entry point, whose one-period cost is E[h (y-D)+ + p (D-y)+] *)
Theorem C13_entry_cost_is_stationary_cost : forall h p K s S q,
  s_s_cost_discrete h p K pmf s S = Ok q -> let n := Z.to_nat (S - s) in
  q == qsum_range (fun i => pi_ pmf n i * (Gdisc h p pmf (S - Z.of_nat i) + K * tailp pmf (n - i))) 0 n.
Proof. exact (fun h p K s S q => cost_entry_stationary h p K pmf s S q p_nonneg p_sum1 p0_lt1). Qed.
End C13.

Theorem C13_one_period_cost : forall h p pmf y, Gdisc h p pmf y ==
  qsum_range (fun d => pf pmf d * (h * qpos (inject_Z (y - Z.of_nat d)) + p * qpos (inject_Z (Z.of_nat d - y)))) 0 (length pmf).
Proof. exact Gdisc_def. Qed.
(* the entry point returns a cost for every s < S (whatever S - s is) once the documented guards pass and p0 <> 1 *)
Theorem C13_entry_total : forall h p K pmf s S, guards h p K pmf = true -> (s < S)%Z -> ~ pf pmf 0 == 1 ->
  s_s_cost_discrete h p K pmf s S = Ok (gcost pmf (Gdisc h p pmf) K s S).
Proof. exact cost_entry_total. Qed.

(* (iv) the search reports the cost of the pair it returns (any one-period cost G, any start ystar: both entry points) *)
Theorem C13_zf_returns_its_cost : forall pmf G K fuel ystar s S g,
  (forall l, 0 <= pf pmf l) -> pf pmf 0 < 1 -> 0 < K ->
  zf_from pmf G K fuel ystar = Ok (s, S, g) -> (s < S)%Z /\ g = gcost pmf G K s S.
Proof. exact zf_returns_its_cost. Qed.

(* (v) optimality: no integer pair s' < S' is cheaper than the returned pair (Zheng-Federgruen's theorem), custom-pmf entry point *)
Definition zf_optimal_statement : Prop := forall h p K pmf fuel s S g,
  (forall l, 0 <= pf pmf l) -> qsum pmf == 1 -> pf pmf 0 < 1 ->
  s_s_discrete_exact h p K pmf fuel = Ok (s, S, g) ->
  forall s' S', (s' < S')%Z -> g <= gcost pmf (Gdisc h p pmf) K s' S'.
Theorem C13_zf_optimal : zf_optimal_statement.
Proof. exact exact_optimal. Qed.
(* the same for an arbitrary one-period cost G and start ystar (the Poisson entry point, G and ystar being SciPy outputs),
   CONDITIONAL on G being unimodal at ystar and on the pmf summing to one: for Poisson these are properties of SciPy's
   numbers / of the untruncated pmf, so for that entry point optimality remains an oracle (window search) result *)
Theorem C13_zf_optimal_anyG : forall pmf G K, pf pmf 0 < 1 -> (forall l, 0 <= pf pmf l) -> qsum pmf == 1 -> 0 < K ->
  forall ystar, (forall y, (y < ystar)%Z -> G (y + 1)%Z <= G y) -> (forall y, (ystar <= y)%Z -> G y <= G (y + 1)%Z) ->
  forall fuel s S g, zf_from pmf G K fuel ystar = Ok (s, S, g) ->
  forall s' S', (s' < S')%Z -> g <= gcost pmf G K s' S'.
Proof. exact zf_from_optimal. Qed.
(* structure of the returned pair (s,S) with reported cost g, custom-pmf entry point:
     s < ystar <= S;  g = c(s,S);  the two termination tests c(s,S) <= G(s), G(s+1) < c(s,S);
     s minimises c(.,S) over all s' < S;
     the scan stopped at some Send > S with G(Send) > g, and every S < t < Send had G(t) <= g and c(s,t) >= g;
     g <= c(s0,ystar) for the first pair (s0,ystar) the search visited. *)
Theorem C13_zf_structure : forall h p K pmf fuel s S g,
  (forall l, 0 <= pf pmf l) -> qsum pmf == 1 -> pf pmf 0 < 1 ->
  s_s_discrete_exact h p K pmf fuel = Ok (s, S, g) ->
  let c := gcost pmf (Gdisc h p pmf) K in let G := Gdisc h p pmf in
  (s < ystar_disc h p pmf <= S)%Z /\ g = c s S /\ c s S <= G s /\ G (s + 1)%Z < c s S /\
  (forall s', (s' < S)%Z -> c s S <= c s' S) /\
  (exists Send, (S < Send)%Z /\ g < G Send /\ forall t, (S < t < Send)%Z -> G t <= g /\ g <= c s t) /\
  (exists s0, (s0 < ystar_disc h p pmf)%Z /\ g <= c s0 (ystar_disc h p pmf)).
Proof. exact (fun h p K pmf fuel s S g => exact_spec h p K pmf fuel s S g). Qed.
(* for an arbitrary one-period cost / start (no unimodality assumed): the same structure, s a local minimiser of c(.,S),
   and a global one if G is unimodal at ystar *)
Theorem C13_zf_structure_anyG : forall pmf G K fuel ystar s S g,
  (forall l, 0 <= pf pmf l) -> pf pmf 0 < 1 -> 0 < K ->
  zf_from pmf G K fuel ystar = Ok (s, S, g) ->
  let c := gcost pmf G K in
  (s < S)%Z /\ (ystar <= S)%Z /\ g = c s S /\ c s S <= G s /\ G (s + 1)%Z < c s S /\
  c s S <= c (s - 1)%Z S /\ ((s + 1 < S)%Z -> c s S <= c (s + 1)%Z S) /\
  (exists Send, (S < Send)%Z /\ g < G Send /\ forall t, (S < t < Send)%Z -> G t <= g /\ g <= c s t) /\
  (exists s0, (s0 < ystar)%Z /\ g <= c s0 ystar) /\
  ((forall y, (y < ystar)%Z -> G (y + 1)%Z <= G y) -> (forall y, (ystar <= y)%Z -> G y <= G (y + 1)%Z) ->
   (s < ystar)%Z /\ forall s', (s' < S)%Z -> c s S <= c s' S).
Proof. exact zf_generic. Qed.
(* the custom-pmf one-period cost is unimodal at the ystar that newsvendor_discrete returns *)
Theorem C13_Gdisc_unimodal : forall h p pmf, 0 < h -> 0 < p -> (forall l, 0 <= pf pmf l) -> qsum pmf == 1 ->
  (forall y, (y < ystar_disc h p pmf)%Z -> Gdisc h p pmf (y + 1) <= Gdisc h p pmf y) /\
  (forall y, (ystar_disc h p pmf <= y)%Z -> Gdisc h p pmf y <= Gdisc h p pmf (y + 1)).
Proof. exact Gdisc_unimodal. Qed.

(* non-vacuity: uniform demand on 0..3 (D = 3), h = 1, p = 4, K = 5.  (s,S) = (2,8): S - s = 6 > D.
   The entry point returns 17541/3232, pi sums to one, offset 5 cannot be reached from offset 0 in one step (it would need demand 5 > D: trans 6 0 5 = 0), and the search returns (0,5) with cost 913/229 < cost of (2,8). *)
Example C13_nonvacuous :
  let pmf := [1#4; 1#4; 1#4; 1#4] in
  forallb (qleb 0) pmf = true /\ qsum pmf == 1 /\ pf pmf 0 < 1 /\
  s_s_cost_discrete 1 4 5 pmf 2 8 = Ok (17541 # 3232) /\
  qsum_range (pi_ pmf 6) 0 6 == 1 /\ trans pmf 6 0 5 == 0 /\ trans pmf 6 5 0 == 3 # 4 /\
  qsum_range (fun i => pi_ pmf 6 i * (Gdisc 1 4 pmf (8 - Z.of_nat i) + 5 * tailp pmf (6 - i))) 0 6 == 17541 # 3232 /\
  match s_s_discrete_exact 1 4 5 pmf 100 with Ok (a, b, g) => a = 0%Z /\ b = 5%Z /\ g == 913 # 229 | _ => False end.
Proof. vm_compute. repeat split; reflexivity. Qed.

Print Assumptions C13_m_renewal.
Print Assumptions C13_chain_stochastic.
Print Assumptions C13_stationary_is_distribution.
Print Assumptions C13_stationary_invariant.
Print Assumptions C13_cost_is_stationary_cost.
Print Assumptions C13_entry_cost_is_stationary_cost.
Print Assumptions C13_one_period_cost.
Print Assumptions C13_entry_total.
Print Assumptions C13_zf_returns_its_cost.
Print Assumptions C13_zf_optimal.
Print Assumptions C13_zf_optimal_anyG.
Print Assumptions C13_zf_structure.
Print Assumptions C13_zf_structure_anyG.
Print Assumptions C13_Gdisc_unimodal.
