(* C13 — (s,S): the reported cost equals the stationary cost of the inventory-position chain, and what the exact
   (Zheng-Federgruen) algorithm guarantees about the pair it returns.
   Statements only; every proof is [exact <lemma of Alg/SS_proofs.v or (second part: the reported cost is the long-run average
   expected cost from every start) Alg/SSErgo_proofs.v>].
   Model: Alg/SS.v.  pmf = [p_0; ..; p_D] (pf pmf l = p_l, = 0 for l > D), exact rationals.
     m, M            renewal function of ss.py and its partial sums
     gcost pmf G K s S = (K + sum_{d<S-s} m(d) G(S-d)) / M(S-s)      -- what s_s_cost_discrete returns
     Gdisc h p pmf   one-period cost used by the custom-pmf entry point (newsvendor_discrete(...)[1])
     zf_from         the search of s_s_discrete_exact started at ystar (any G: covers the Poisson entry point, whose
                     pmf / G / ystar are SciPy tables);  s_s_discrete_exact = custom-pmf entry point incl. ystar.
   The (s,S) chain is written on the offset i = S - y in 0..n-1, n = S - s (inventory position after ordering y = S - i):
     trans pmf n i j = P(offset i -> offset j):  demand d moves i to i+d if i+d < n (y-d > s), else to 0 (order up to S);
     pi_ pmf n i     = m(i)/M(n)  = pi(y) = m(S-y)/M(S-s);   tailp pmf k = P(D >= k).
   Nothing below restricts n = S-s relative to D = length pmf - 1: all statements hold for S-s > D.
   A pmf is: all p_l >= 0, sum = 1; p_0 < 1 (otherwise demand is identically 0 and the code raises ZeroDivisionError). *)
From SV Require Import Base.Qx Alg.SS Alg.SS_proofs.

Section C13.
Variable pmf : list Q.
Hypothesis p_nonneg : forall l, 0 <= pf pmf l.
Hypothesis p_sum1 : qsum pmf == 1.
Hypothesis p0_lt1 : pf pmf 0 < 1.

(* (i) the code's recursion m[0] = 1/(1-p0), m[j] = m[0] sum_{l=1..j} p_l m[j-l] solves the renewal equation *)
Theorem C13_m_renewal : forall j,
  m pmf j == qsum_range (fun l => pf pmf l * m pmf (j - l)) 0 (S j) + (if Nat.eqb j 0 then 1 else 0).
Proof. exact (m_renewal pmf p0_lt1). Qed.

(* (ii) the chain is a Markov chain (non-negative rows summing to one) ... *)
Theorem C13_chain_stochastic : forall n i, (i < n)%nat ->
  (forall j, 0 <= trans pmf n i j) /\ qsum_range (trans pmf n i) 0 n == 1.
Proof. exact (chain_stochastic pmf p_nonneg p_sum1). Qed.
(* ... pi is a probability vector on its n states, for every n = S - s >= 1 ... *)
Theorem C13_stationary_is_distribution : forall n, (1 <= n)%nat ->
  (forall i, 0 <= pi_ pmf n i) /\ qsum_range (pi_ pmf n) 0 n == 1.
Proof. exact (stationary_is_distribution pmf p_nonneg p0_lt1). Qed.
(* ... and it is invariant:  pi P = pi *)
Theorem C13_stationary_invariant : forall n j, (j < n)%nat ->
  qsum_range (fun i => pi_ pmf n i * trans pmf n i j) 0 n == pi_ pmf n j.
Proof. exact (pi_invariant pmf p0_lt1 p_nonneg p_sum1). Qed.

(* (iii) the cost ratio is the stationary expectation of [one-period cost at y + K * P(an order follows)], any G *)
Theorem C13_cost_is_stationary_cost : forall (G : Z -> Q) (K : Q) (s S : Z), (s < S)%Z ->
  let n := Z.to_nat (S - s) in
  gcost pmf G K s S == qsum_range (fun i => pi_ pmf n i * (G (S - Z.of_nat i)%Z + K * tailp pmf (n - i))) 0 n.
Proof. exact (fun G K => cost_is_stationary_cost pmf G K p0_lt1 p_nonneg p_sum1). Qed.
(* the same at the custom-pmf entry point, whose one-period cost is E[h (y-D)+ + p (D-y)+] *)
Theorem C13_entry_cost_is_stationary_cost : forall h p K s S q,
  s_s_cost_discrete h p K pmf s S = Ok q -> let n := Z.to_nat (S - s) in
  q == qsum_range (fun i => pi_ pmf n i * (Gdisc h p pmf (S - Z.of_nat i) + K * tailp pmf (n - i))) 0 n.
Proof. exact (fun h p K s S q => cost_entry_stationary h p K pmf s S q p_nonneg p_sum1 p0_lt1). Qed.
End C13.

Theorem C13_one_period_cost : forall h p pmf y, Gdisc h p pmf y ==
  qsum_range (fun d => pf pmf d * (h * qpos (inject_Z (y - Z.of_nat d)) + p * qpos (inject_Z (Z.of_nat d - y)))) 0 (length pmf).
Proof. exact Gdisc_def. Qed.
(* the entry point returns a cost for every s < S (whatever S - s is) once the documented guards pass and p0 <> 1 *)
Theorem C13_entry_total : forall h p K pmf s S, guards h p K pmf = true -> (s < S)%Z -> ~ pf pmf 0 == 1 ->
  s_s_cost_discrete h p K pmf s S = Ok (gcost pmf (Gdisc h p pmf) K s S).
Proof. exact cost_entry_total. Qed.

(* (iv) the search reports the cost of the pair it returns (any one-period cost G, any start ystar: both entry points) *)
Theorem C13_zf_returns_its_cost : forall pmf G K fuel ystar s S g,
  (forall l, 0 <= pf pmf l) -> pf pmf 0 < 1 -> 0 < K ->
  zf_from pmf G K fuel ystar = Ok (s, S, g) -> (s < S)%Z /\ g = gcost pmf G K s S.
Proof. exact zf_returns_its_cost. Qed.

(* (v) optimality: no integer pair s' < S' is cheaper than the returned pair (Zheng-Federgruen's theorem), custom-pmf entry point *)
Definition zf_optimal_statement : Prop := forall h p K pmf fuel s S g,
  (forall l, 0 <= pf pmf l) -> qsum pmf == 1 -> pf pmf 0 < 1 ->
  s_s_discrete_exact h p K pmf fuel = Ok (s, S, g) ->
  forall s' S', (s' < S')%Z -> g <= gcost pmf (Gdisc h p pmf) K s' S'.
Theorem C13_zf_optimal : zf_optimal_statement.
Proof. exact exact_optimal. Qed.
(* the same for an arbitrary one-period cost G and start ystar (the Poisson entry point, G and ystar being SciPy outputs),
   CONDITIONAL on G being unimodal at ystar and on the pmf summing to one: for Poisson these are properties of SciPy's
   numbers / of the untruncated pmf, so for that entry point optimality remains an oracle (window search) result *)
Theorem C13_zf_optimal_anyG : forall pmf G K, pf pmf 0 < 1 -> (forall l, 0 <= pf pmf l) -> qsum pmf == 1 -> 0 < K ->
  forall ystar, (forall y, (y < ystar)%Z -> G (y + 1)%Z <= G y) -> (forall y, (ystar <= y)%Z -> G y <= G (y + 1)%Z) ->
  forall fuel s S g, zf_from pmf G K fuel ystar = Ok (s, S, g) ->
  forall s' S', (s' < S')%Z -> g <= gcost pmf G K s' S'.
Proof. exact zf_from_optimal. Qed.
(* structure of the returned pair (s,S) with reported cost g, custom-pmf entry point:
     s < ystar <= S;  g = c(s,S);  the two termination tests c(s,S) <= G(s), G(s+1) < c(s,S);
     s minimises c(.,S) over all s' < S;
     the scan stopped at some Send > S with G(Send) > g, and every S < t < Send had G(t) <= g and c(s,t) >= g;
     g <= c(s0,ystar) for the first pair (s0,ystar) the search visited. *)
Theorem C13_zf_structure : forall h p K pmf fuel s S g,
  (forall l, 0 <= pf pmf l) -> qsum pmf == 1 -> pf pmf 0 < 1 ->
  s_s_discrete_exact h p K pmf fuel = Ok (s, S, g) ->
  let c := gcost pmf (Gdisc h p pmf) K in let G := Gdisc h p pmf in
  (s < ystar_disc h p pmf <= S)%Z /\ g = c s S /\ c s S <= G s /\ G (s + 1)%Z < c s S /\
  (forall s', (s' < S)%Z -> c s S <= c s' S) /\
  (exists Send, (S < Send)%Z /\ g < G Send /\ forall t, (S < t < Send)%Z -> G t <= g /\ g <= c s t) /\
  (exists s0, (s0 < ystar_disc h p pmf)%Z /\ g <= c s0 (ystar_disc h p pmf)).
Proof. exact (fun h p K pmf fuel s S g => exact_spec h p K pmf fuel s S g). Qed.
(* for an arbitrary one-period cost / start (no unimodality assumed): the same structure, s a local minimiser of c(.,S),
   and a global one if G is unimodal at ystar *)
Theorem C13_zf_structure_anyG : forall pmf G K fuel ystar s S g,
  (forall l, 0 <= pf pmf l) -> pf pmf 0 < 1 -> 0 < K ->
  zf_from pmf G K fuel ystar = Ok (s, S, g) ->
  let c := gcost pmf G K in
  (s < S)%Z /\ (ystar <= S)%Z /\ g = c s S /\ c s S <= G s /\ G (s + 1)%Z < c s S /\
  c s S <= c (s - 1)%Z S /\ ((s + 1 < S)%Z -> c s S <= c (s + 1)%Z S) /\
  (exists Send, (S < Send)%Z /\ g < G Send /\ forall t, (S < t < Send)%Z -> G t <= g /\ g <= c s t) /\
  (exists s0, (s0 < ystar)%Z /\ g <= c s0 ystar) /\
  ((forall y, (y < ystar)%Z -> G (y + 1)%Z <= G y) -> (forall y, (ystar <= y)%Z -> G y <= G (y + 1)%Z) ->
   (s < ystar)%Z /\ forall s', (s' < S)%Z -> c s S <= c s' S).
Proof. exact zf_generic. Qed.
(* the custom-pmf one-period cost is unimodal at the ystar that newsvendor_discrete returns *)
Theorem C13_Gdisc_unimodal : forall h p pmf, 0 < h -> 0 < p -> (forall l, 0 <= pf pmf l) -> qsum pmf == 1 ->
  (forall y, (y < ystar_disc h p pmf)%Z -> Gdisc h p pmf (y + 1) <= Gdisc h p pmf y) /\
  (forall y, (ystar_disc h p pmf <= y)%Z -> Gdisc h p pmf y <= Gdisc h p pmf (y + 1)).
Proof. exact Gdisc_unimodal. Qed.

(* non-vacuity: uniform demand on 0..3 (D = 3), h = 1, p = 4, K = 5.  (s,S) = (2,8): S - s = 6 > D.
   The entry point returns 17541/3232, pi sums to one, offset 5 cannot be reached from offset 0 in one step (it would need demand 5 > D: trans 6 0 5 = 0), and the search returns (0,5) with cost 913/229 < cost of (2,8). *)
Example C13_nonvacuous :
  let pmf := [1#4; 1#4; 1#4; 1#4] in
  forallb (qleb 0) pmf = true /\ qsum pmf == 1 /\ pf pmf 0 < 1 /\
  s_s_cost_discrete 1 4 5 pmf 2 8 = Ok (17541 # 3232) /\
  qsum_range (pi_ pmf 6) 0 6 == 1 /\ trans pmf 6 0 5 == 0 /\ trans pmf 6 5 0 == 3 # 4 /\
  qsum_range (fun i => pi_ pmf 6 i * (Gdisc 1 4 pmf (8 - Z.of_nat i) + 5 * tailp pmf (6 - i))) 0 6 == 17541 # 3232 /\
  match s_s_discrete_exact 1 4 5 pmf 100 with Ok (a, b, g) => a = 0%Z /\ b = 5%Z /\ g == 913 # 229 | _ => False end.
Proof. vm_compute. repeat split; reflexivity. Qed.

Print Assumptions C13_m_renewal.
Print Assumptions C13_chain_stochastic.
Print Assumptions C13_stationary_is_distribution.
Print Assumptions C13_stationary_invariant.
Print Assumptions C13_cost_is_stationary_cost.
Print Assumptions C13_entry_cost_is_stationary_cost.
Print Assumptions C13_one_period_cost.
Print Assumptions C13_entry_total.
Print Assumptions C13_zf_returns_its_cost.
Print Assumptions C13_zf_optimal.
Print Assumptions C13_zf_optimal_anyG.
Print Assumptions C13_zf_structure.
Print Assumptions C13_zf_structure_anyG.
Print Assumptions C13_Gdisc_unimodal.

(* ======================================================================================================================= *)
(* C13 additions — the ergodic step: the cost reported for (s,S) IS the long-run average expected cost per period of the
   inventory-position chain operated under the (s,S) policy, from EVERY initial distribution (Cesaro averages; the chain may
   be periodic), for every n = S - s >= 1 (no relation to the demand support D required), every pmf with p_l >= 0, sum 1,
   p_0 < 1, every one-period cost G and fixed cost K.  Statements only; proofs in Alg/SSErgo_proofs.v; model Alg/SSErgo.v:
     dist pmf n mu t          = mu * P^t   (P = the model's trans pmf n, states = offsets i = S - y, lists of n rationals)
     cstate pmf G K n S i     = G(S-i) + K * P(D >= n-i)   -- the per-state cost of C13_cost_is_stationary_cost
     ecost ... mu t           = (mu P^t) . cstate = E_mu[cost of period t];   totcost = sum_{t<T};  avgcost = totcost / T
     ecost_ord/avgcost_ord    = the same with K charged in the period in which the order is placed (o0 = P(order at time 0))
     bias pmf G K s S i       = K + sum_{d<y-s} m(d) G(y-d) - g M(y-s), y = S-i    (solves the Poisson equation)
     ergB pmf G K s S         = 2 max_i |bias i|             (does not depend on T nor on the initial distribution)
     is_dist n mu             = length n, entries >= 0, sum 1. *)
From SV Require Import Base.Qx Alg.SS Alg.SS_proofs.
From SV Require Import Alg.SSErgo Alg.SSErgo_proofs.

(* generic: for a finite stochastic matrix P over Q, a solution h of the Poisson equation c - g = h - P h bounds the
   distance of every Cesaro average of expected costs from g by 2 max|h| / T *)
Theorem C13_poisson_cesaro_generic : forall (n : nat) (P : nat -> nat -> Q),
  (forall i j, (i < n)%nat -> (j < n)%nat -> 0 <= P i j) -> (forall i, (i < n)%nat -> qsum_range (P i) 0 n == 1) ->
  forall (c h : nat -> Q) (g : Q), (forall i, (i < n)%nat -> c i - g == h i - Pf n P h i) ->
  forall (mu : nat -> Q) (H : Q), probf n mu -> (forall i, (i < n)%nat -> - H <= h i /\ h i <= H) ->
  forall T, (1 <= T)%nat ->
  Qabs (qsum_range (fun t => dotn n (distf n P mu t) c) 0 T / qnat T - g) <= 2 * H / qnat T.
Proof. exact poisson_cesaro. Qed.

(* mu P^t stays a probability vector *)
Theorem C13_dist_is_distribution : forall pmf, (forall l, 0 <= pf pmf l) -> qsum pmf == 1 ->
  forall n mu t, is_dist n mu -> is_dist n (dist pmf n mu t).
Proof. exact dist_is_dist. Qed.

(* the bias vector solves the Poisson equation of the (s,S) chain *)
Theorem C13_poisson_equation : forall pmf G K, (forall l, 0 <= pf pmf l) -> qsum pmf == 1 -> pf pmf 0 < 1 ->
  forall s S, (s < S)%Z -> let n := Z.to_nat (S - s) in forall i, (i < n)%nat ->
  cstate pmf G K n S i - gcost pmf G K s S == bias pmf G K s S i - Pf n (trans pmf n) (bias pmf G K s S) i.
Proof. exact ss_poisson. Qed.

(* exact identity: expected total cost of T periods = T * (reported cost) + mu.h - (mu P^T).h *)
Theorem C13_total_cost_identity : forall pmf G K, (forall l, 0 <= pf pmf l) -> qsum pmf == 1 -> pf pmf 0 < 1 ->
  forall s S mu T, (s < S)%Z -> let n := Z.to_nat (S - s) in is_dist n mu ->
  totcost pmf G K n S mu T == qnat T * gcost pmf G K s S + doth pmf G K s S mu - doth pmf G K s S (dist pmf n mu T).
Proof. exact ss_total_cost_identity. Qed.

(* THE ERGODIC THEOREM (expected values): | (1/T) sum_{t<T} E_mu[cost of period t] - gcost s S | <= ergB / T *)
Theorem C13_long_run_average : forall pmf G K, (forall l, 0 <= pf pmf l) -> qsum pmf == 1 -> pf pmf 0 < 1 ->
  forall s S mu T, (s < S)%Z -> let n := Z.to_nat (S - s) in is_dist n mu -> (1 <= T)%nat ->
  Qabs (avgcost pmf G K n S mu T - gcost pmf G K s S) <= ergB pmf G K s S / qnat T.
Proof. exact ss_ergodic. Qed.
(* from every initial state *)
Theorem C13_long_run_average_from_state : forall pmf G K, (forall l, 0 <= pf pmf l) -> qsum pmf == 1 -> pf pmf 0 < 1 ->
  forall s S i T, (s < S)%Z -> let n := Z.to_nat (S - s) in (i < n)%nat -> (1 <= T)%nat ->
  Qabs (avgcost pmf G K n S (unitv n i) T - gcost pmf G K s S) <= ergB pmf G K s S / qnat T.
Proof. exact ss_ergodic_from_state. Qed.
(* stationary start: every single period costs exactly the reported cost *)
Theorem C13_stationary_start : forall pmf G K, (forall l, 0 <= pf pmf l) -> qsum pmf == 1 -> pf pmf 0 < 1 ->
  forall s S, (s < S)%Z -> let n := Z.to_nat (S - s) in
  (forall t, ecost pmf G K n S (pilist pmf n) t == gcost pmf G K s S) /\
  (forall T, (1 <= T)%nat -> avgcost pmf G K n S (pilist pmf n) T == gcost pmf G K s S).
Proof. exact ss_stationary_start. Qed.
(* K charged in the period in which the order is placed; o0 = probability of an order at time 0, mu = distribution after it *)
Theorem C13_long_run_average_order_convention : forall pmf G K, (forall l, 0 <= pf pmf l) -> qsum pmf == 1 -> pf pmf 0 < 1 ->
  forall s S o0 mu T, (s < S)%Z -> let n := Z.to_nat (S - s) in is_dist n mu -> 0 <= o0 <= 1 -> (1 <= T)%nat ->
  Qabs (avgcost_ord pmf G K n S o0 mu T - gcost pmf G K s S) <= (ergB pmf G K s S + Qabs K) / qnat T.
Proof. exact ss_ergodic_ord. Qed.
(* the system started at an arbitrary inventory position x0 <= S, operated under the (s,S) rule *)
Theorem C13_long_run_average_from_position : forall pmf G K, (forall l, 0 <= pf pmf l) -> qsum pmf == 1 -> pf pmf 0 < 1 ->
  forall s S x0 T, (s < S)%Z -> (x0 <= S)%Z -> (1 <= T)%nat -> let n := Z.to_nat (S - s) in
  Qabs (avgcost_ord pmf G K n S (start_o0 s x0) (start_mu s S x0) T - gcost pmf G K s S) <= (ergB pmf G K s S + Qabs K) / qnat T.
Proof. exact ss_ergodic_from_position. Qed.
(* at the custom-pmf entry point: whatever s_s_cost_discrete returns is the long-run average *)
Theorem C13_entry_long_run_average : forall h p K pmf s S q mu T,
  (forall l, 0 <= pf pmf l) -> qsum pmf == 1 -> pf pmf 0 < 1 ->
  s_s_cost_discrete h p K pmf s S = Ok q -> let n := Z.to_nat (S - s) in is_dist n mu -> (1 <= T)%nat ->
  Qabs (avgcost pmf (Gdisc h p pmf) K n S mu T - q) <= ergB pmf (Gdisc h p pmf) K s S / qnat T.
Proof. exact ss_entry_ergodic. Qed.
(* periodic chain (demand identically 1, n = 3): the distribution itself never converges *)
Theorem C13_periodic_no_convergence : forall t0, exists t t', (t0 <= t)%nat /\ (t0 <= t')%nat /\
  nth 0 (dist [0; 1] 3 [1; 0; 0] t) 0 == 1 /\ nth 0 (dist [0; 1] 3 [1; 0; 0] t') 0 == 0.
Proof. exact periodic_no_convergence. Qed.

(* non-vacuity 1 — periodic instance: demand identically 1, (s,S) = (0,3), G(y) = y^2, K = 5: g = 19/3, pi uniform; started at
   offset 0 the distribution is [1,0,0] at t = 30, [0,1,0] at t = 31, [0,0,1] at t = 32 (no convergence), bias = (0,-8/3,-1/3),
   ergB = 16/3; the average over T = 31 periods is 199/31 <> g, and |199/31 - 19/3| = 8/93 <= (16/3)/31. *)
Example C13_ergodic_periodic :
  let pmf := [0; 1] in let G := fun y : Z => inject_Z (y * y) in let mu := [1; 0; 0] in
  forallb (qleb 0) pmf = true /\ qsum pmf == 1 /\ pf pmf 0 < 1 /\
  (length mu = 3%nat /\ forallb (qleb 0) mu = true /\ qsum mu == 1) /\
  gcost pmf G 5 0 3 == 19 # 3 /\ pilist pmf 3 = [1 # 3; 1 # 3; 1 # 3] /\
  dist pmf 3 mu 30 = [1; 0; 0] /\ dist pmf 3 mu 31 = [0; 1; 0] /\ dist pmf 3 mu 32 = [0; 0; 1] /\
  map (fun i => Qred (bias pmf G 5 0 3 i)) [0; 1; 2]%nat = [0; -8 # 3; -1 # 3] /\ ergB pmf G 5 0 3 == 16 # 3 /\
  avgcost pmf G 5 3 3 mu 31 == 199 # 31 /\
  Qle_bool (Qabs (avgcost pmf G 5 3 3 mu 31 - gcost pmf G 5 0 3)) (ergB pmf G 5 0 3 / qnat 31) = true /\
  avgcost pmf G 5 3 3 mu 30 == 19 # 3.
Proof. vm_compute. repeat split; reflexivity. Qed.

(* non-vacuity 2 — S - s larger than the demand support: uniform demand on 0..3 (D = 3), h = 1, p = 4, K = 5, (s,S) = (2,8), n = 6 > D,
   started in the state farthest from S (offset 5, position 3) and at position x0 = -7 (order at time 0):
   the entry point returns 17541/3232, ergB = 390/101, the bounds hold at T = 1, 7, 20 and are not attained with equality. *)
Example C13_ergodic_beyond_support :
  let pmf := [1 # 4; 1 # 4; 1 # 4; 1 # 4] in let G := Gdisc 1 4 pmf in
  s_s_cost_discrete 1 4 5 pmf 2 8 = Ok (17541 # 3232) /\ ergB pmf G 5 2 8 == 390 # 101 /\
  trans pmf 6 0 5 == 0 /\
  avgcost pmf G 5 6 8 (unitv 6 5) 7 == 39405 # 7168 /\
  forallb (fun T => Qle_bool (Qabs (avgcost pmf G 5 6 8 (unitv 6 5) T - (17541 # 3232))) (ergB pmf G 5 2 8 / qnat T)) [1; 7; 20]%nat = true /\
  forallb (fun T => Qle_bool (Qabs (avgcost_ord pmf G 5 6 8 (start_o0 2 (-7)) (start_mu 2 8 (-7)) T - (17541 # 3232)))
                             ((ergB pmf G 5 2 8 + Qabs 5) / qnat T)) [1; 7; 20]%nat = true /\
  start_o0 2 (-7) == 1 /\ start_mu 2 8 (-7) = unitv 6 0 /\ start_mu 2 8 3 = unitv 6 5.
Proof. vm_compute. repeat split; reflexivity. Qed.

Print Assumptions C13_poisson_cesaro_generic.
Print Assumptions C13_dist_is_distribution.
Print Assumptions C13_poisson_equation.
Print Assumptions C13_total_cost_identity.
Print Assumptions C13_long_run_average.
Print Assumptions C13_long_run_average_from_state.
Print Assumptions C13_stationary_start.
Print Assumptions C13_long_run_average_order_convention.
Print Assumptions C13_long_run_average_from_position.
Print Assumptions C13_entry_long_run_average.
Print Assumptions C13_periodic_no_convergence.
