(* C12 — finite-horizon DP satisfies Bellman optimality; evaluation matches optimisation.
   Statements only; every proof is [exact <lemma of Alg/FH_proofs.v or Alg/FHMyopic_proofs.v>].
   Model: Alg/FH.v.  [fh_opt] = one pass of finite_horizon_dp's "while not done" loop in optimisation mode on the grid
   xmin .. xmax = xmin + n - 1; [fh_eval um] = evaluation mode with the user's oul_matrix [um] (rows 0..T);
   [fh_restart] = the range-doubling loop.  Inputs (oracles, exact rationals of the implementation's floats):
   pr t = demand probabilities of period t over dmin, dmin+1, ...;  L t = one-period cost h_t*nbar(y) + p_t*n(y) on the grid;
   c t, K t, g t = purchase cost, fixed cost, discount factor;  term x = terminal cost.
   Observables of a completed run o:  cost_ o t i = cost_matrix[t, i],  oul_ o t i = oul_matrix[t, i],
   next_ o t = cost_matrix[t+1, :],  s_ o t = reorder_points[t],  S_ o t = order_up_to_levels[t]  (column i <-> x = xmin + i).

   The documented right-hand side (FH_proofs.bell), for x = xmin + i and y = xmin + j:
     bell t next i j = (if x < y then c_t*(y-x) + K_t else 0) + ( L_t[j] + g_t * sum_k pr_t[k] * next[clamp(y - (dmin+k))] )
   where clamp pushes y - d back into [xmin, xmax] (the code's d_eff). *)
From SV Require Import Base.Qx Alg.FH Alg.FH_proofs Alg.FHMyopic_proofs.

Section C12.
Variables (T : nat) (xmin : Z) (n : nat) (dmin : Z) (pr L : nat -> list Q) (c K g : nat -> Q) (term : Z -> Q).
Let run := fh_opt T xmin n dmin pr L c K g term.
Let rhs (o : fh_out) (t i j : nat) : Q := bell xmin n dmin pr L c K g t (next_ o t) i j.
Let x_ (i : nat) : Z := xz xmin i.
Let xmax_ : Z := xmax xmin n.

(* (1) every entry of the cost matrix is the minimum over y >= x on the grid of the documented expression ... *)
Theorem C12_bellman o t i : run = FHOk o -> (1 <= t <= T)%nat -> (i < n)%nat ->
  forall j, (i <= j < n)%nat -> cost_ o t i <= rhs o t i j.
Proof. exact (bellman T xmin n dmin pr L c K g term o t i). Qed.

(* ... and the order-up-to matrix attains it and is the FIRST minimiser (strictly better than every smaller y) *)
Theorem C12_oul_attains o t i : run = FHOk o -> (1 <= t <= T)%nat -> (i < n)%nat ->
  exists j, (i <= j < n)%nat /\ oul_ o t i = x_ j /\ cost_ o t i == rhs o t i j /\
            forall j', (i <= j' < j)%nat -> cost_ o t i < rhs o t i j'.
Proof. exact (oul_attains T xmin n dmin pr L c K g term o t i). Qed.

(* the recursion starts from the terminal cost row; shapes of the outputs *)
Theorem C12_terminal o : run = FHOk o -> next_ o T = termrow xmin n term /\
  length (fh_cost o) = S T /\ length (fh_oul o) = T /\ length (fh_s o) = T /\ length (fh_S o) = T.
Proof. exact (terminal_row T xmin n dmin pr L c K g term o). Qed.

(* (2) the reported S_t is the matrix entry for the smallest x; the reported s_t is the end of the initial run of
   columns whose entry equals S_t (exactly the code's while loop), and it lies strictly below xmax *)
Theorem C12_sS_extraction_spec o t : run = FHOk o -> (1 <= t <= T)%nat ->
  S_ o t = oul_ o t 0 /\
  exists m, s_ o t = x_ m /\ (S m < n)%nat /\ (forall i, (i <= m)%nat -> oul_ o t i = S_ o t) /\ oul_ o t (S m) <> S_ o t.
Proof. exact (sS_extraction_spec T xmin n dmin pr L c K g term o t). Qed.

(* (3) feeding the returned oul matrix (row 0 = zeros, as returned) and the same x-range back in evaluation mode
   returns the same cost matrix, oul matrix, s and S.  (0 must be on the grid, otherwise the code's ValueError guard,
   which also looks at row 0, rejects the matrix.) *)
Theorem C12_eval_reproduces o : (xmin <= 0 <= xmax_)%Z -> run = FHOk o ->
  fh_eval T xmin n dmin pr L c K g term (repeat 0%Z n :: fh_oul o) = FHOk o.
Proof. exact (eval_reproduces T xmin n dmin pr L c K g term o). Qed.

(* evaluation mode for ANY user matrix accepted by the guard: the entry is the documented expression at the user's y *)
Theorem C12_eval_mode_spec um o t i : fh_eval T xmin n dmin pr L c K g term um = FHOk o ->
  (1 <= t <= T)%nat -> (i < n)%nat -> (i < length (nth t um []))%nat ->
  let y := nth i (nth t um []) 0%Z in
  (xmin <= y <= xmax_)%Z /\ oul_ o t i = y /\ cost_ o t i == rhs o t i (ix xmin y).
Proof. exact (eval_mode_spec T xmin n dmin pr L c K g term um o t i). Qed.

(* (4) fixed cost zero in period t  =>  s_t = S_t.  Exact hypothesis: K_t == 0 and the pass completed; no convexity of L is
   needed (with K_t = 0 the candidates for different x differ by a constant, so all x <= S_t share the first minimiser) *)
Theorem C12_K0_s_eq_S o t : run = FHOk o -> (1 <= t <= T)%nat -> K t == 0 -> s_ o t = S_ o t.
Proof. exact (K0_s_eq_S T xmin n dmin pr L c K g term o t). Qed.

(* (5) every horizon length, every grid with at least two points: a pass either completes or asks for a larger range;
   it never fails *)
Theorem C12_total : (2 <= n)%nat -> run = FHAbort \/ exists o, run = FHOk o.
Proof. exact (opt_total T xmin n dmin pr L c K g term). Qed.

(* the restart request is exactly the code's boundary test, and a completed pass has no optimum on the upper boundary *)
Theorem C12_abort_is_boundary_test : run = FHAbort ->
  exists t i, (1 <= t <= T)%nat /\ (i < n - 1)%nat /\ nth i (oulrow T xmin n dmin pr L g term (pick_opt xmin n c K) t) 0%Z = xmax_.
Proof. exact (abort_spec T xmin n dmin pr L c K g term). Qed.
Theorem C12_completed_pass_is_interior o t i : run = FHOk o -> (1 <= t <= T)%nat -> (i < n - 1)%nat -> oul_ o t i <> xmax_.
Proof. exact (no_abort_spec T xmin n dmin pr L c K g term o t i). Qed.
End C12.

(* T = 1 *)
Theorem C12_T1_total xmin n dmin pr L c K g term : (2 <= n)%nat ->
  fh_opt 1 xmin n dmin pr L c K g term = FHAbort \/
  exists o, fh_opt 1 xmin n dmin pr L c K g term = FHOk o /\
    length (fh_cost o) = 2%nat /\ length (fh_oul o) = 1%nat /\ length (fh_s o) = 1%nat /\ length (fh_S o) = 1%nat /\
    next_ o 1 = termrow xmin n term.
Proof. exact (T1_total xmin n dmin pr L c K g term). Qed.

(* the range-doubling loop returns a completed pass on the grid it reports, so (1)-(5) apply to what the function returns *)
Theorem C12_restart_sound T xmin dmin pr L c K g term fuel n n' o :
  fh_restart fuel T xmin n dmin pr L c K g term = FinOk n' o -> fh_opt T xmin n' dmin pr L c K g term = FHOk o.
Proof. exact (restart_sound T xmin dmin pr L c K g term fuel n n' o). Qed.

(* the model's cheap dyadic arithmetic is ordinary rational arithmetic *)
Theorem C12_model_arith x y : qr x == x /\ qadd x y == x + y /\ qlt x y = qltb x y.
Proof. exact (conj (qr_correct x) (conj (qadd_correct x y) (qlt_eq x y))). Qed.

(* Myopic bounds (Alg/FHMyopic_proofs.v). The model's own myopic levels: [Gmy t] = the one-period myopic cost on the grid (c_t y + L_t(y) - gamma_t c_{t+1} E[y - D_t],
   with the DP's clamping; terminal cost in the last period), [Sunder_idx t] = its first minimiser, [Sover_idx t] = the last grid point whose myopic cost is within
   gamma_t K_{t+1} of the minimum. PROVED for every horizon, grid, demand table and cost data:
   - UPPER bound S_t <= S_overbar_t with no structural hypothesis at all (non-negative K, gamma, probabilities);
   - LOWER bound S_underbar_t <= S_t (or the DP does not order in its lowest state) when the myopic cost is non-increasing up to its minimiser and the myopic levels
     rise (shifted by the smallest demand) on the tail t..T — decidable conditions [nonneg_okb], [lower_okb];
   - hence the bracket, with NO grid-unit slack, and exactness of the myopic policy when S_overbar = S_underbar;
   - for bounds GIVEN from outside (the outputs of finite_horizon.myopic_bounds: scipy root finding, an oracle) the bracket with one grid unit of slack holds as soon as
     they are within one grid unit of the model's levels (a numeric comparison).
   The clause as first stated here (arbitrary Sunder/Sover, no hypotheses) is false; and Veinott-type conditions of the form K_t >= gamma_t K_{t+1},
   S_underbar_t <= S_overbar_{t+1} are NOT sufficient for the lower bound for arbitrary demand tables (FHMyopic_proofs.nearly_rising_insufficient: a 3-period instance
   with demand {0,4} in period 1) — rising myopic levels are. *)
Theorem C12_myopic_upper_bound :
  forall (T : nat) (xmin : Z) (n : nat) (dmin : Z)
           (pr L : nat -> list Q) (c K g : nat -> Q) 
           (term : Z -> Q) (o : fh_out) (t : nat),
         fh_opt T xmin n dmin pr L c K g term = FHOk o ->
         (1 <= t <= T)%nat ->
         (forall u : nat, (1 <= u <= T)%nat -> 0 <= K u) ->
         0 <= g t ->
         Forall (fun p : Q => 0 <= p) (pr t) ->
         (S_ o t <= xz xmin (Sover_idx T xmin n dmin pr L c K g term t))%Z.
Proof. exact myopic_upper. Qed.
Theorem C12_myopic_lower_bound :
  forall (T : nat) (xmin : Z) (n : nat) (dmin : Z)
           (pr L : nat -> list Q) (c K g : nat -> Q) 
           (term : Z -> Q) (o : fh_out) (t : nat),
         fh_opt T xmin n dmin pr L c K g term = FHOk o ->
         (1 <= t <= T)%nat ->
         nonneg_okb T pr K g = true ->
         lower_okb T xmin n dmin pr L c g term t = true ->
         S_ o t = xmin \/
         (xz xmin (Sunder_idx T xmin n dmin pr L c g term t) <= S_ o t)%Z.
Proof. exact myopic_lower. Qed.
Theorem C12_myopic_bracket :
  forall (T : nat) (xmin : Z) (n : nat) (dmin : Z)
           (pr L : nat -> list Q) (c K g : nat -> Q) 
           (term : Z -> Q) (o : fh_out) (t : nat),
         fh_opt T xmin n dmin pr L c K g term = FHOk o ->
         (1 <= t <= T)%nat ->
         nonneg_okb T pr K g = true ->
         lower_okb T xmin n dmin pr L c g term t = true ->
         S_ o t <> xmin ->
         SunderQ T xmin n dmin pr L c g term t <= inject_Z (S_ o t) <=
         SoverQ T xmin n dmin pr L c K g term t.
Proof. exact myopic_bounds_bracket_corrected. Qed.
Theorem C12_myopic_policy_exact :
  forall (T : nat) (xmin : Z) (n : nat) (dmin : Z)
           (pr L : nat -> list Q) (c K g : nat -> Q) 
           (term : Z -> Q) (o : fh_out) (t : nat),
         fh_opt T xmin n dmin pr L c K g term = FHOk o ->
         (1 <= t <= T)%nat ->
         nonneg_okb T pr K g = true ->
         lower_okb T xmin n dmin pr L c g term t = true ->
         S_ o t <> xmin ->
         Sover_idx T xmin n dmin pr L c K g term t =
         Sunder_idx T xmin n dmin pr L c g term t ->
         S_ o t = xz xmin (Sunder_idx T xmin n dmin pr L c g term t).
Proof. exact myopic_exact. Qed.
Theorem C12_myopic_bracket_for_given_bounds :
  forall (T : nat) (xmin : Z) (n : nat) (dmin : Z)
           (pr L : nat -> list Q) (c K g : nat -> Q) 
           (term : Z -> Q) (Sunder Sover : nat -> Q),
         nonneg_okb T pr K g = true ->
         (forall t : nat,
          (1 <= t <= T)%nat -> lower_okb T xmin n dmin pr L c g term t = true) ->
         (forall (o : fh_out) (t : nat),
          fh_opt T xmin n dmin pr L c K g term = FHOk o ->
          (1 <= t <= T)%nat -> S_ o t <> xmin) ->
         (forall t : nat,
          (1 <= t <= T)%nat ->
          Sunder t - 1 <= SunderQ T xmin n dmin pr L c g term t /\
          SoverQ T xmin n dmin pr L c K g term t <= Sover t + 1) ->
         myopic_bounds_bracket_statement T xmin n dmin pr L c K g term Sunder
           Sover.
Proof. exact myopic_bounds_bracket_statement_corrected. Qed.
Theorem C12_myopic_upper_half_for_given_bounds :
  forall (T : nat) (xmin : Z) (n : nat) (dmin : Z)
           (pr L : nat -> list Q) (c K g : nat -> Q) 
           (term : Z -> Q) (Sover : nat -> Q),
         nonneg_okb T pr K g = true ->
         (forall t : nat,
          (1 <= t <= T)%nat ->
          SoverQ T xmin n dmin pr L c K g term t <= Sover t + 1) ->
         forall o : fh_out,
         fh_opt T xmin n dmin pr L c K g term = FHOk o ->
         forall t : nat, (1 <= t <= T)%nat -> inject_Z (S_ o t) <= Sover t + 1.
Proof. exact myopic_bounds_upper_half. Qed.
Theorem C12_myopic_bracket_as_first_stated_is_false :
  exists
           (T : nat) (xmin : Z) (n : nat) (dmin : Z) 
         (pr L : nat -> list Q) (c K g : nat -> Q) (term : Z -> Q) 
         (Sunder Sover : nat -> Q),
           ~
           myopic_bounds_bracket_statement T xmin n dmin pr L c K g term Sunder
             Sover.
Proof. exact myopic_bounds_bracket_statement_refuted. Qed.

(* non-vacuity: a concrete 3-period instance (grid -3..8, demand 0/1/2 w.p. 1/4,1/2,1/4, K = 3, gamma = 9/10) completes with
   s_1 < S_1; its evaluation reproduces it; with K = 0 it has s = S; on the grid -3..1 it aborts and the doubling loop ends
   on -3..4 *)
Definition exL (n : nat) : list Q :=
  map (fun i => let y := (-3 + Z.of_nat i)%Z in 1 * inject_Z (Z.max (y - 1) 0) + 4 * inject_Z (Z.max (1 - y) 0) + (1#2)) (seq 0 n).
Definition ex_run (n : nat) (Kf : Q) := fh_opt 3 (-3) n 0 (fun _ => [1#4; 1#2; 1#4]) (fun _ => exL 40) (fun _ => 1) (fun _ => Kf) (fun _ => 9#10) (fh_terminal 1 4).
Example C12_nonvacuous :
  (exists o, ex_run 12 3 = FHOk o /\ fh_s o = [0; 1; 1]%Z /\ fh_S o = [2; 1; 1]%Z /\ cost_ o 1 3 == 742871 # 64000 /\
     fh_eval 3 (-3) 12 0 (fun _ => [1#4; 1#2; 1#4]) (fun _ => exL 40) (fun _ => 1) (fun _ => 3) (fun _ => 9#10) (fh_terminal 1 4)
       (repeat 0%Z 12 :: fh_oul o) = FHOk o) /\
  (exists o, ex_run 12 0 = FHOk o /\ fh_s o = fh_S o) /\
  ex_run 5 3 = FHAbort /\
  (exists o, fh_restart 5 3 (-3) 5 0 (fun _ => [1#4; 1#2; 1#4]) (fun _ => exL 40) (fun _ => 1) (fun _ => 3) (fun _ => 9#10) (fh_terminal 1 4) = FinOk 8 o
     /\ fh_S o = [2; 1; 1]%Z).
Proof.
  split; [|split; [|split]].
  - eexists. split; [vm_compute; reflexivity|]. vm_compute. repeat split; reflexivity.
  - eexists. split; [vm_compute; reflexivity|]. vm_compute. reflexivity.
  - vm_compute. reflexivity.
  - eexists. split; vm_compute; reflexivity.
Qed.

Print Assumptions C12_bellman.
Print Assumptions C12_oul_attains.
Print Assumptions C12_terminal.
Print Assumptions C12_sS_extraction_spec.
Print Assumptions C12_eval_reproduces.
Print Assumptions C12_eval_mode_spec.
Print Assumptions C12_K0_s_eq_S.
Print Assumptions C12_total.
Print Assumptions C12_abort_is_boundary_test.
Print Assumptions C12_completed_pass_is_interior.
Print Assumptions C12_T1_total.
Print Assumptions C12_restart_sound.
Print Assumptions C12_model_arith.
Print Assumptions C12_myopic_upper_bound.
Print Assumptions C12_myopic_lower_bound.
Print Assumptions C12_myopic_bracket.
Print Assumptions C12_myopic_policy_exact.
Print Assumptions C12_myopic_bracket_for_given_bounds.
Print Assumptions C12_myopic_upper_half_for_given_bounds.
Print Assumptions C12_myopic_bracket_as_first_stated_is_false.
