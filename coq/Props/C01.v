(* C01 — Simulation conserves material at every node, on every edge, in every period.
   Model: Sim/Model.v (single product per node, any DAG, all policies, lead times, capacities, disruption types).
   [e] ranges over the end-of-period records of [run NW inputs], for EVERY well-formed network ([good], decidable and
   evaluated on every correspondence case), every horizon (length of [inputs]), every disruption sequence and every
   non-negative demand sequence ([dem_ok]).
   Cumulative quantities: fCP = units produced so far, fDC = orders received so far (stockpyl's demand_cumul),
   fcIS / fcOS / fcIO / fcOQ = cumulative inbound shipments / outbound shipments / inbound orders / order quantities
   (ghost counters: each is incremented, in the same atomic step, by exactly the amount written to the per-period
   field fIS / fOS / fIO / fOQ). The per-period statements of the property (the C01_per_period theorems below) are proved from them:
   between consecutive records the counters advance by exactly the per-period state variables (Sim/PerPeriod.v). Multi-product networks (bills of materials): the C01_multi_*
   theorems below, about the Stage-2 model Sim2/Model2.v (tied to the implementation by trajectory correspondence), plus monitors. *)
From SV Require Import Sim.Model Sim.Inv_book Sim.Inv_pipe Sim.Inv_run Sim.Main Sim.Example.
From SV Require Import Sim2.State2 Sim2.Model2 Sim2.Inv2b_tac Sim2.Inv2b_book Sim2.Inv2b_pipe Sim2.Inv2b_init Sim2.Main2b.

Section C01.
Variable (NW : net) (inputs : list ((N -> bool) * (N -> Q))).
Hypothesis G : good NW.
Hypothesis D : dem_ok inputs.
Notation C := (cfg NW).

(* inventory level = initial level + produced - orders received *)
Theorem C01_inventory_balance : forall e n, In e (run NW inputs) ->
  gq e (fIL, n, Ext) == il0 NW n + gq e (fCP, n, Ext) - gq e (fDC, n, Ext).
Proof. exact (inventory_balance NW inputs G D). Qed.

(* raw-material stock = receipts - what production consumed (never negative) *)
Theorem C01_raw_material_balance : forall e n p, In e (run NW inputs) -> In p (suppliers (C n)) ->
  gq e (fRM, n, p) == gq e (fcIS, n, p) - gq e (fCP, n, Ext) /\ 0 <= gq e (fRM, n, p).
Proof. exact (raw_material_balance NW inputs G D). Qed.

(* what p has shipped to n (plus the initial pipeline content) = received by n + in n's inbound pipeline + held at n's door *)
Theorem C01_edge_conservation : forall e n p, In e (run NW inputs) -> In p (preds (C n)) ->
  gq e (fcOS, p, Nd n) + sp0 NW n == gq e (fcIS, n, Nd p) + qsum (gl e (fSP, n, Nd p)) + gq e (fIDI, n, Nd p).
Proof. exact (edge_conservation NW inputs G D). Qed.
Theorem C01_external_edge_conservation : forall e n, In e (run NW inputs) -> ext_sup (C n) = true ->
  gq e (fcOQ, n, Ext) + (sp0 NW n + io0 NW n) == gq e (fcIS, n, Ext) + qsum (gl e (fSP, n, Ext)) + gq e (fIDI, n, Ext).
Proof. exact (external_edge_conservation NW inputs G D). Qed.

(* every unit a customer has ordered is shipped, backordered, or held for that customer *)
Theorem C01_order_conservation : forall e n c, In e (run NW inputs) -> In c (customers (C n)) ->
  gq e (fcIO, n, c) == gq e (fcOS, n, c) + gq e (fBO, n, c) + gq e (fODI, n, c).
Proof. exact (order_conservation NW inputs G D). Qed.
(* ---- the same laws period by period: a = record of period t, e = record of period t+1.
   produced in period t+1 = fCP e - fCP a (units produced is not a stockpyl state variable; the property eliminates it
   the same way through the raw-material balance) ---- *)
Theorem C01_per_period_inventory : forall t, (S t < length inputs)%nat -> forall m, In m (nodes NW) ->
  let a := nth t (run NW inputs) empty_st in let e := nth (S t) (run NW inputs) empty_st in
  gq e (fIL, m, Ext) == gq a (fIL, m, Ext) + (gq e (fCP, m, Ext) - gq a (fCP, m, Ext)) - qsumf (fun x => gq e (fIO, m, x)) (customers (C m)).
Proof. exact (per_period_inventory NW inputs G D). Qed.
Theorem C01_per_period_raw_material : forall t, (S t < length inputs)%nat -> forall m q, In q (suppliers (C m)) ->
  let a := nth t (run NW inputs) empty_st in let e := nth (S t) (run NW inputs) empty_st in
  gq e (fRM, m, q) == gq a (fRM, m, q) + gq e (fIS, m, q) - (gq e (fCP, m, Ext) - gq a (fCP, m, Ext)).
Proof. exact (per_period_raw_material NW inputs G D). Qed.
Theorem C01_per_period_edge : forall t, (S t < length inputs)%nat -> forall n p, In p (preds (C n)) ->
  let a := nth t (run NW inputs) empty_st in let e := nth (S t) (run NW inputs) empty_st in
  gq e (fOS, p, Nd n) == gq e (fIS, n, Nd p) + (qsum (gl e (fSP, n, Nd p)) - qsum (gl a (fSP, n, Nd p))) + (gq e (fIDI, n, Nd p) - gq a (fIDI, n, Nd p)).
Proof. exact (per_period_edge NW inputs G D). Qed.
Theorem C01_per_period_order_conservation : forall t, (S t < length inputs)%nat -> forall m x, In x (customers (C m)) ->
  let a := nth t (run NW inputs) empty_st in let e := nth (S t) (run NW inputs) empty_st in
  gq e (fBO, m, x) + gq e (fODI, m, x) + gq e (fOS, m, x) == gq a (fBO, m, x) + gq a (fODI, m, x) + gq e (fIO, m, x).
Proof. exact (per_period_order_conservation NW inputs G D). Qed.
End C01.

Example C01_nonvacuous : good ex_net /\ dem_ok ex_inputs /\
  exists e, In e (run ex_net ex_inputs) /\ 0 < gq e (fBO, 2%N, Nd 3%N) + gq e (fBO, 3%N, Ext) /\ 0 < qsum (gl e (fSP, 3%N, Nd 2%N)) + gq e (fODI, 2%N, Nd 3%N).
Proof. exact (conj ex_good (conj ex_dem_ok ex_nontrivial)). Qed.

(* ============ MULTI-PRODUCT networks with bills of materials (Stage-2 model Sim2/Model2.v; proofs Sim2/Inv2b_*.v, Main2b.v) ============
   Conservation per (node, customer, product) and per (node, supplier, raw material), with ARBITRARY bill-of-materials numbers, for every
   run of every network accepted by the boolean well-formedness check [goodB2b] (duplicate-free product / customer / supplier / raw-material
   tables, BOM numbers >= 0 on the node's raw materials, every supplier of a raw material lists the node as a customer of that product,
   policy parameters giving non-negative orders, non-negative initial values, traversals visiting every node with successors first);
   they hold for every value of the position-error input i_err (conservation does not depend on the order quantities).
   [sup_edge NW n p r]: node n obtains raw material r from p; [cus_edge NW n c k]: c is a customer of product k at node n. *)
Theorem C01_multi_order_conservation : forall (NW : net2) (inputs : inputs2), goodB2b NW = true -> demB_ok2 inputs ->
  forall e n c k, In e (run2 NW inputs) -> cus_edge NW n c k ->
  gq2 e (fcIO, n, c, k) == gq2 e (fcOS, n, c, k) + gq2 e (fBO, n, c, k) + gq2 e (fODI, n, c, k).
Proof. exact order_conservation2. Qed.
Theorem C01_multi_edge_conservation : forall (NW : net2) (inputs : inputs2), goodB2b NW = true ->
  forall e n p r, In e (run2 NW inputs) -> sup_edge NW n (Nd p) r ->
  gq2 e (fcOS, p, Nd n, r) + sp02 NW n == gq2 e (fcIS, n, Nd p, r) + qsum (gl2 e (fSP, n, Nd p, r)) + gq2 e (fIDI, n, Nd p, r).
Proof. exact edge_conservation2. Qed.
Theorem C01_multi_external_edge_conservation : forall (NW : net2) (inputs : inputs2), goodB2b NW = true ->
  forall e n r, In e (run2 NW inputs) -> sup_edge NW n Ext r ->
  gq2 e (fcOQ, n, Ext, r) + (sp02 NW n + io02 NW n) == gq2 e (fcIS, n, Ext, r) + qsum (gl2 e (fSP, n, Ext, r)) + gq2 e (fIDI, n, Ext, r).
Proof. exact external_edge_conservation2. Qed.
Theorem C01_multi_inventory_balance : forall (NW : net2) (inputs : inputs2), goodB2b NW = true -> demB_ok2 inputs ->
  forall e n k, In e (run2 NW inputs) -> In n (nodes2 NW) -> In k (n_prods (cfg2 NW n)) ->
  gq2 e (fIL, n, Ext, k) == il02 NW n k + gq2 e (fCP, n, Ext, k) - gq2 e (fDC, n, Ext, k).
Proof. exact inventory_balance2_dc. Qed.
(* raw-material stock = receipts - what production consumed, with the bill of materials *)
Theorem C01_multi_raw_material_balance : forall (NW : net2) (inputs : inputs2), goodB2b NW = true ->
  forall e n r, In e (run2 NW inputs) ->
  gq2 e (fRM, n, Ext, r) == qsumf (fun p => gq2 e (fcIS, n, p, r)) (m_sups (RC NW n r))
                            - qsumf (fun k => nbom (PC NW n k) r * gq2 e (fCP, n, Ext, k)) (n_prods (cfg2 NW n)).
Proof. exact raw_material_balance2. Qed.
(* per-period forms (every node visited once per traversal: onceB2b) *)
Theorem C01_multi_per_period_inventory : forall (NW : net2) (inputs : inputs2), goodB2b NW = true -> onceB2b NW = true -> demB_ok2 inputs ->
  forall t, (S t < length inputs)%nat -> forall n k, In n (nodes2 NW) -> In k (n_prods (cfg2 NW n)) ->
  gq2 (nth (S t) (run2 NW inputs) empty_st2) (fIL, n, Ext, k) ==
  gq2 (nth t (run2 NW inputs) empty_st2) (fIL, n, Ext, k)
  + (gq2 (nth (S t) (run2 NW inputs) empty_st2) (fCP, n, Ext, k) - gq2 (nth t (run2 NW inputs) empty_st2) (fCP, n, Ext, k))
  - qsumf (fun c => gq2 (nth (S t) (run2 NW inputs) empty_st2) (fIO, n, c, k)) (k_custs (PC NW n k)).
Proof. exact per_period_inventory2. Qed.
Theorem C01_multi_per_period_raw_material : forall (NW : net2) (inputs : inputs2), goodB2b NW = true -> onceB2b NW = true ->
  forall t, (S t < length inputs)%nat -> forall n r, In n (nodes2 NW) -> In r (n_rms (cfg2 NW n)) ->
  gq2 (nth (S t) (run2 NW inputs) empty_st2) (fRM, n, Ext, r) ==
  gq2 (nth t (run2 NW inputs) empty_st2) (fRM, n, Ext, r)
  + qsumf (fun p => gq2 (nth (S t) (run2 NW inputs) empty_st2) (fIS, n, p, r)) (m_sups (RC NW n r))
  - qsumf (fun k => nbom (PC NW n k) r * (gq2 (nth (S t) (run2 NW inputs) empty_st2) (fCP, n, Ext, k) - gq2 (nth t (run2 NW inputs) empty_st2) (fCP, n, Ext, k)))
          (n_prods (cfg2 NW n)).
Proof. exact per_period_raw_material2. Qed.
Theorem C01_multi_per_period_edge : forall (NW : net2) (inputs : inputs2), goodB2b NW = true -> onceB2b NW = true ->
  forall t, (S t < length inputs)%nat -> forall n p r, sup_edge NW n (Nd p) r ->
  gq2 (nth (S t) (run2 NW inputs) empty_st2) (fOS, p, Nd n, r) ==
  gq2 (nth (S t) (run2 NW inputs) empty_st2) (fIS, n, Nd p, r)
  + (qsum (gl2 (nth (S t) (run2 NW inputs) empty_st2) (fSP, n, Nd p, r)) - qsum (gl2 (nth t (run2 NW inputs) empty_st2) (fSP, n, Nd p, r)))
  + (gq2 (nth (S t) (run2 NW inputs) empty_st2) (fIDI, n, Nd p, r) - gq2 (nth t (run2 NW inputs) empty_st2) (fIDI, n, Nd p, r)).
Proof. exact per_period_edge2. Qed.
(* two suppliers of one raw material, two products sharing it with BOM numbers 2 and 3, three disruption types: hypotheses hold *)
Example C01_multi_nonvacuous : goodB2b exB2_net = true /\ onceB2b exB2_net = true /\ demB_ok2 exB2_inputs.
Proof. exact (conj (proj1 main2b_nonvacuous) (conj (proj1 (proj2 main2b_nonvacuous)) (proj1 (proj2 (proj2 main2b_nonvacuous))))). Qed.

Print Assumptions C01_inventory_balance.
Print Assumptions C01_raw_material_balance.
Print Assumptions C01_edge_conservation.
Print Assumptions C01_external_edge_conservation.
Print Assumptions C01_order_conservation.
Print Assumptions C01_per_period_inventory.
Print Assumptions C01_per_period_raw_material.
Print Assumptions C01_per_period_edge.
Print Assumptions C01_per_period_order_conservation.
Print Assumptions C01_multi_order_conservation.
Print Assumptions C01_multi_edge_conservation.
Print Assumptions C01_multi_external_edge_conservation.
Print Assumptions C01_multi_inventory_balance.
Print Assumptions C01_multi_raw_material_balance.
Print Assumptions C01_multi_per_period_inventory.
Print Assumptions C01_multi_per_period_raw_material.
Print Assumptions C01_multi_per_period_edge.
