(* C17 — networks survive serialisation unchanged.
   Statements only; every proof is [exact <lemma of Ser/Codec_proofs.v or Ser/Json_proofs.v>].
   Model: Ser/Json.v (Python dict trees, json.dumps/json.loads) and Ser/Codec.v (attribute-table-driven to_dict /
   from_dict of network, node, product, policy, demand source, disruption process, state variables; instance file).
   [s] is ANY schema (class tables with attribute kinds; the harness instantiates it with the tables read from the
   current source), [v] ANY object; [conforms stable s owner v] says that v is an object of schema s whose plain
   attribute values satisfy [stable] ([dst]: dict keys are ints, None, or strings that do not look numeric;
   [jst]: additionally no tuples, keys inside lists are strings, None keys only where from_dict restores them),
   that node-level policy / state-variable node links point to the node that holds them, that property-derived
   fields (SGetter) store what the property returns, and that no object attribute is None where from_dict raises.
   [forget s owner v] is v with the product-level policy node links cleared and product-level None-valued object
   attributes replaced by the default object (the documented exceptions); it is the identity on every schema without
   those two kinds (C17_forget_only_exceptions). *)
From SV Require Import Ser.Json Ser.Json_proofs Ser.Codec Ser.Codec_proofs.
Open Scope list_scope.

(* (1) from_dict (to_dict n) ≃ n *)
Theorem C17_dict_roundtrip : forall s owner v dflt,
  wf_schema s -> conforms dst s owner v ->
  decode s owner dflt (Some (encode s v)) = forget s owner v.
Proof. exact dict_roundtrip. Qed.

(* (2) from_dict (json.loads (json.dumps (to_dict n))) ≃ n *)
Theorem C17_json_roundtrip : forall s owner v dflt,
  wf_schema s -> conforms jst s owner v ->
  decode s owner dflt (Some (json_dump_load (encode s v))) = forget s owner v.
Proof. exact json_roundtrip. Qed.

(* ≃ is plain equality except for the two documented kinds *)
Theorem C17_forget_only_exceptions : forall stable s, no_exception s ->
  forall owner v, conforms stable s owner v -> forget s owner v = v.
Proof. exact forget_id. Qed.

(* the executable well-formedness check that the harness runs on the schema extracted from the source is sound *)
Theorem C17_wf_check_sound : forall s, wf_schemab s = true -> wf_schema s.
Proof. exact wf_schemab_ok. Qed.

(* (3) what json.load reads from the file is written back unchanged by json.dump (records not being saved) *)
Theorem C17_file_rewrite_stable : forall j, json_dump (json_load j) = j.
Proof. exact json_load_dump. Qed.

(* (4) any sequence of save / replace / load operations preserves every instance it does not save to ... *)
Theorem C17_save_preserves_others : forall s ops st nm',
  (forall o, In o ops -> op_target o <> Some nm') ->
  load_rec nm' (st_file (run s ops st)) = load_rec nm' (st_file st).
Proof. exact save_preserves_others. Qed.
(* ... never drops or reorders names ... *)
Theorem C17_names_preserved : forall s ops st,
  exists extra, map i_name (st_file (run s ops st)) = map i_name (st_file st) ++ extra.
Proof. exact names_preserved. Qed.
(* ... with replace=True stores exactly the new data, with replace=False leaves an existing record alone *)
Theorem C17_save_replaces : forall nm desc data ty f,
  load_rec nm (save_file nm desc data ty true f) = Some (desc, json_dump_load data, ty).
Proof. exact save_file_same. Qed.
Theorem C17_save_noreplace : forall nm desc data ty f,
  find_inst nm f <> None -> save_file nm desc data ty false f = f.
Proof. exact save_file_noreplace. Qed.

(* (5) no sequence of operations alters a network held in memory *)
Theorem C17_save_does_not_mutate : forall s ops st i v,
  nth_error (st_mem st) i = Some v -> nth_error (st_mem (run s ops st)) i = Some v.
Proof. exact save_does_not_mutate. Qed.

(* (6) save_instance then load_instance (state variables kept) gives back the network up to the exceptions *)
Theorem C17_save_load_roundtrip : forall s v nm desc replace f mem,
  wf_schema s -> conforms jst s None v -> replace = true \/ find_inst nm f = None ->
  st_mem (run s [OSave (length mem) nm desc replace false; OLoad nm] {| st_mem := mem ++ [v]; st_file := f |})
  = mem ++ [v; forget s None v].
Proof. exact save_load_roundtrip. Qed.

(* (7) the hypotheses are necessary — attribute kinds for which the faithful model refutes the round trip:
   (a) DemandSource.to_dict writes property values: Poisson(4) comes back with the derived standard deviation stored
       (the implementation does the same: known finding 'DemandSource.to_dict|derived-mean-sd-written') *)
Theorem C17_dict_roundtrip_refuted_getter :
  exists s v, wf_schema s /\ decode s None PNone (Some (encode s v)) <> forget s None v.
Proof. exact (ex_intro _ ds_schema (ex_intro _ ds_poisson4 getter_roundtrip_refuted)). Qed.
(* (b) a plain attribute read back without key restoration loses its int keys in JSON (state variables and
       product-keyed numeric node attributes before their repair; any int-keyed dict stored in a Policy /
       DemandSource / DisruptionProcess attribute today) *)
Theorem C17_json_roundtrip_refuted_int_keys :
  exists v, decode (SPlain RPass) None PNone (Some (json_dump_load (encode (SPlain RPass) v))) <> v.
Proof. exact (ex_intro _ (VPlain (PDict [(KInt 20, PNum 2)])) json_int_keys_refuted). Qed.
(* (c) tuples come back from JSON as lists *)
Theorem C17_json_roundtrip_refuted_tuple :
  exists v, decode (SPlain RReint) None PNone (Some (json_dump_load (encode (SPlain RReint) v))) <> v.
Proof. exact (ex_intro _ (VPlain (PTuple [PNum 1; PNum 2])) json_tuple_refuted). Qed.
(* (d) SupplyChainNode.from_dict turns a numeric-looking STRING key of a plain dict attribute into an int, even
       without JSON *)
Theorem C17_dict_roundtrip_refuted_numeric_string_key :
  exists v, decode (SPlain RReint) None PNone (Some (encode (SPlain RReint) v)) <> v.
Proof. exact (ex_intro _ (VPlain (PDict [(KStr "20", PNum 1)])) dict_numeric_string_key_refuted). Qed.

(* non-vacuity: a two-node multi-product network with product-keyed numeric attribute, product-keyed policies,
   a property-free demand source, saved state variables with None / negative keys, a product-level policy with a
   node link, and a product-level None demand source satisfies all hypotheses, and its JSON round trip is computed *)
Definition ex_policy (k : schema) := SClass false true [("_type", (SPlain RPass, PNone)); ("_node", (k, PNone)); ("_base_stock_level", (SPlain RPass, PNone))].
Definition ex_ds := SClass false true [("_type", (SPlain RPass, PNone)); ("_mean", (SGetter RPass, PNone)); ("_demand_list", (SPlain RDemandList, PNone))].
Definition ex_sv := SClass false false [("node", (SRefOwner, PNone)); ("period", (SPlain RPass, PNone)); ("inventory_level", (SPlain RReintNull, PNone)); ("inbound_order", (SPlain RReintNull, PNone))].
Definition ex_node := SClass true false
  [("_index", (SPlain RPass, PNone)); ("network", (SBacklink, PNone)); ("_products", (SSkip, PList [])); ("_product_indices", (SPlain RPass, PList []));
   ("_dummy_product", (SRef, PNone)); ("local_holding_cost", (SPlain RReint, PNone));
   ("demand_source", (SObjAttr MarkerYes NoneKeeps ex_ds, PNone)); ("_inventory_policy", (SObjAttr MarkerYes NoneKeeps (ex_policy SRefOwner), PNone));
   ("state_vars", (SObjList ex_sv, PList []))].
Definition ex_product := SClass false false
  [("_index", (SPlain RPass, PNum 0)); ("network", (SBacklink, PNone)); ("_bill_of_materials", (SPlain RIntKeys, PDict []));
   ("demand_source", (SObjAttr MarkerNo NoneDefault ex_ds, PNone)); ("_inventory_policy", (SObjAttr MarkerNo NoneDefault (ex_policy SRefDrop), PNone))].
Definition ex_network := SClass false false [("_nodes", (SObjList ex_node, PList [])); ("_products", (SObjList ex_product, PList [])); ("_period", (SPlain RPass, PNum 0))].

Definition ex_pol (node : option Z) (S : Q) := VObj [("_type", VPlain (PStr "BS")); ("_node", VRef node); ("_base_stock_level", VPlain (PNum S))].
Definition ex_net : val :=
  VObj [("_nodes", VObjList [
          VObj [("_index", VPlain (PNum 3)); ("network", VLink); ("_products", VLink); ("_product_indices", VPlain (PList [PNum 20; PNum 30]));
                ("_dummy_product", VRef None); ("local_holding_cost", VPlain (PDict [(KInt 20, PNum 2); (KInt 30, PNum (7#2))]));
                ("demand_source", VNoneObj);
                ("_inventory_policy", VObjDict [(20%Z, ex_pol (Some 3%Z) 10); (30%Z, ex_pol (Some 3%Z) 12)]);
                ("state_vars", VObjList [VObj [("node", VRef (Some 3%Z)); ("period", VPlain (PNum 0));
                                               ("inventory_level", VPlain (PDict [(KInt 20, PNum 10); (KInt 30, PNum 12)]));
                                               ("inbound_order", VPlain (PDict [(KNone, PDict [(KInt 20, PNum 4)]); (KInt 5, PDict [(KInt 30, PNum 0)])]))]])];
          VObj [("_index", VPlain (PNum 5)); ("network", VLink); ("_products", VLink); ("_product_indices", VPlain (PList [PNum (-10)]));
                ("_dummy_product", VRef (Some (-10)%Z)); ("local_holding_cost", VPlain (PNum 1));
                ("demand_source", VObj [("_type", VPlain (PStr "D")); ("_mean", VGet PNone PNone); ("_demand_list", VPlain (PList [PNum 4; PNum 5]))]);
                ("_inventory_policy", ex_pol (Some 5%Z) 8);
                ("state_vars", VNoneObj)]]);
        ("_products", VObjList [
          VObj [("_index", VPlain (PNum 20)); ("network", VLink); ("_bill_of_materials", VPlain (PDict [(KInt 30, PNum 2)]));
                ("demand_source", VNoneObj); ("_inventory_policy", ex_pol (Some 3%Z) 9)]]);
        ("_period", VPlain (PNum 0))].

Example C17_nonvacuous_hyps : wf_schema ex_network /\ conforms jst ex_network None ex_net.
Proof.
  split.
  - cbn. repeat (split; try (intro; discriminate); try (eexists; reflexivity));
      try (repeat constructor; cbn; intuition discriminate); cbn; intuition discriminate.
  - cbn. repeat split; try discriminate; reflexivity.
Qed.
Example C17_nonvacuous_run :
  decode ex_network None PNone (Some (json_dump_load (encode ex_network ex_net))) = forget ex_network None ex_net /\
  forget ex_network None ex_net <> ex_net /\
  lookup_str "_period" (match json_dump_load (encode ex_network ex_net) with PDict l => l | _ => [] end) = Some (PNum 0).
Proof. vm_compute. repeat split; try reflexivity. discriminate. Qed.

Print Assumptions C17_dict_roundtrip.
Print Assumptions C17_json_roundtrip.
Print Assumptions C17_forget_only_exceptions.
Print Assumptions C17_wf_check_sound.
Print Assumptions C17_file_rewrite_stable.
Print Assumptions C17_save_preserves_others.
Print Assumptions C17_names_preserved.
Print Assumptions C17_save_replaces.
Print Assumptions C17_save_noreplace.
Print Assumptions C17_save_does_not_mutate.
Print Assumptions C17_save_load_roundtrip.
Print Assumptions C17_dict_roundtrip_refuted_getter.
Print Assumptions C17_json_roundtrip_refuted_int_keys.
Print Assumptions C17_json_roundtrip_refuted_tuple.
Print Assumptions C17_dict_roundtrip_refuted_numeric_string_key.
