(* C11 — Wagner-Whitin returns a feasible plan of minimum cost.
   Statements only; every proof is [exact <lemma of Alg/WW_proofs.v>].
   Model: Alg/WW.v ([ww_run] = the four outputs of stockpyl.wagner_whitin.wagner_whitin, exact rationals).
   d, K, c, h are the (T+1)-element parameter lists after ensure_list_for_time_periods (index 0 unused). *)
From SV Require Import Base.Qx Alg.WW Alg.WW_proofs.

Section C11.
Variables (T : nat) (hl Kl dl cl : list Q).
Let d := fun i => nth i dl 0.
Let K := fun i => nth i Kl 0.
Let c := fun i => nth i cl 0.
Let h := fun i => nth i hl 0.
Let out := ww_run T hl Kl dl cl.
Let theta_ := fun t => nth t (ww_theta out) 0.
Let next_ := fun t => nth t (ww_next out) 0%nat.
(* documented cost of one order placed in t covering t..t+n-1:  K_t + sum_i (c_t d_i + h_t (i-t) d_i) *)
Let seg_ := seg d K c h.

(* (1) the cost-to-go array satisfies the DP recursion, and the pointer attains the minimum *)
Theorem C11_recursion :
  theta_ (T + 1)%nat = 0 /\
  forall t, (1 <= t <= T)%nat ->
    (forall s, (t < s <= T + 1)%nat -> theta_ t <= seg_ t (s - t)%nat + theta_ s) /\
    (t < next_ t <= T + 1)%nat /\
    theta_ t = seg_ t (next_ t - t)%nat + theta_ (next_ t).
Proof. exact (out_recursion T hl Kl dl cl). Qed.

(* (2) no other ordering plan is cheaper: a plan is a list of gaps >= 1 between consecutive ordering
   periods starting at period 1 and covering 1..T, i.e. every subset of ordering periods containing 1 *)
Theorem C11_optimal : forall gaps, Forall (fun g => 1 <= g)%nat gaps -> (1 + gsum gaps = T + 1)%nat ->
  ww_cost out <= plan_cost d K c h 1 gaps.
Proof. exact (out_optimal T hl Kl dl cl). Qed.

(* (3) the reported cost is the cost of exactly the returned plan; the returned order quantities are
   that plan's orders (zero off the pointer chain) *)
Theorem C11_cost_is_plan_cost : let plan := chain T d K c h T 1 in
  Forall (fun g => 1 <= g)%nat plan /\ (1 + gsum plan = T + 1)%nat /\
  ww_cost out == plan_cost d K c h 1 plan /\ ww_oq out = 0 :: plan_orders d 1 plan.
Proof. exact (out_plan T hl Kl dl cl). Qed.
Theorem C11_chain_follows_pointers : forall fuel t, (1 <= t <= T)%nat -> (fuel >= 1)%nat ->
  chain T d K c h fuel t = (next_ t - t)%nat :: chain T d K c h (fuel - 1) (next_ t).
Proof. exact (out_chain_follows_pointers T hl Kl dl cl). Qed.

(* (4) feasibility: cumulative orders cover cumulative demand in every period (no backorders) and the
   totals are equal (no leftover stock) *)
Theorem C11_feasible : (forall i, 0 <= d i) ->
  let q := ww_oq out in
  length q = S T /\
  (forall m, (m <= T)%nat -> qsum_range d 1 m <= qsum (firstn m (tl q))) /\
  qsum (tl q) == qsum_range d 1 T.
Proof. exact (out_feasible T hl Kl dl cl). Qed.
End C11.

(* (5) scalar, length-T and length-(T+1) parameter forms: same normalised lists up to the unused index 0,
   and the run depends only on indices >= 1 *)
Theorem C11_shapes_scalar x T : ensure_list_tp (TPScalar x) T = ensure_list_tp (TPList (repeat x T)) T.
Proof. exact (ensure_scalar_eq_list x T). Qed.
Theorem C11_shapes_T_T1 l T : length l = T -> forall x0, exists l',
  ensure_list_tp (TPList l) T = Some (0 :: l) /\ ensure_list_tp (TPList (x0 :: l)) T = Some l' /\
  forall i, (1 <= i)%nat -> nth i l' 0 = nth i (0 :: l) 0.
Proof. exact (ensure_T_eq_T1 l T). Qed.
Theorem C11_shapes_same_result T hl Kl dl cl hl' Kl' dl' cl' :
  (forall i, (1 <= i)%nat -> nth i dl 0 = nth i dl' 0) -> (forall i, (1 <= i)%nat -> nth i Kl 0 = nth i Kl' 0) ->
  (forall i, (1 <= i)%nat -> nth i cl 0 = nth i cl' 0) -> (forall i, (1 <= i)%nat -> nth i hl 0 = nth i hl' 0) ->
  ww_cost (ww_run T hl Kl dl cl) = ww_cost (ww_run T hl' Kl' dl' cl') /\
  ww_theta (ww_run T hl Kl dl cl) = ww_theta (ww_run T hl' Kl' dl' cl') /\
  ww_next (ww_run T hl Kl dl cl) = ww_next (ww_run T hl' Kl' dl' cl').
Proof. exact (shapes_same_tables T hl Kl dl cl hl' Kl' dl' cl'). Qed.

(* non-vacuity: a concrete instance meets the hypotheses and the optimum is strictly better than a competitor *)
Example C11_nonvacuous :
  let out := ww_run 4 [0;2;2;2;2] [0;500;500;500;500] [0;90;120;80;70] [0;0;0;0;0] in
  ww_cost out == 1380 /\ ww_next out = [0;3;5;5;5]%nat /\
  plan_cost (fun i => nth i [0;90;120;80;70] 0) (fun i => nth i [0;500;500;500;500] 0) (fun _ => 0) (fun _ => 2) 1 [1;1;1;1]%nat == 2000.
Proof. vm_compute. repeat split; reflexivity. Qed.

Print Assumptions C11_recursion.
Print Assumptions C11_optimal.
Print Assumptions C11_cost_is_plan_cost.
Print Assumptions C11_chain_follows_pointers.
Print Assumptions C11_feasible.
Print Assumptions C11_shapes_scalar.
Print Assumptions C11_shapes_T_T1.
Print Assumptions C11_shapes_same_result.
