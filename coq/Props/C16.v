(* C16 — Demand and disruption generators realise their declared distributions.   **PARTIAL BY NATURE**
   Statements only; every proof is [exact <lemma of Alg/Gen_proofs.v>].
   Model: Alg/Gen.v — every generator is a function g_type(params, primitive variate) of the variate NumPy's legacy
   global RandomState hands out (u = random_sample() in [0,1), z = standard_normal(), or the integer returned by
   poisson / randint / negative_binomial); lead-time demand of the discrete types is a list convolution.

   THEOREMS below = everything in the property that is logic:
     deterministic / explicit lists are replayed cyclically; the u-sets of the Markov transition and of every variate
     transform are exactly the intervals whose lengths are the declared probabilities (so a uniform u / standard normal z
     yields the declared law); the reported steady-state vector is the unique stationary probability vector of the chain
     the code implements; the L-fold convolution has mass 1, mean L*mu, variance L*sigma^2 and is the pointwise
     convolution; zero padding keeps the pmf.
   NOT THEOREMS (no Coq statement can express them about the code; checked as exact correspondence or as statistical
   SEARCH by py/props/c16.py):
     (S1) NumPy's primitives are uniform / standard normal / Poisson / negative binomial / uniform integer, and successive
          draws are independent  — hence "the samples follow the declared distribution" (KS / chi-square / z tests,
          false-alarm probability < 1e-6 per run: search);
     (S2) the long-run frequency of the disrupted state of the Markovian process tends to pi_down (ergodic theorem;
          search), although stationarity and uniqueness of (pi_up, pi_down) ARE proved here;
     (S3) float statements: np.isclose(np.sum(p), 1) accepts vectors summing to one within rounding; the FFT convolution
          and scipy's rv_discrete / Irwin-Hall cdf agree with the exact convolution up to rounding and up to the 0.9999
          tail truncation of negative-binomial demand (oracle on generated inputs);
     (S4) the model Alg/Gen.v is the code: tied by bit-for-bit replay of generate_demand() / update_disruption_state()
          against the model fed with the same primitive variates from a parallel RandomState (correspondence). *)
From SV Require Import Base.Qx Alg.Gen Alg.Gen_proofs.
Open Scope Q_scope.

(* ---- (1) deterministic demand lists and explicit disruption lists: cyclic replay by period ------------------- *)
(* replay d (Many l) (Some t) = l[t mod len l]; first cycle = the list; periodic; period None = period 0; value in l *)
Theorem C16_deterministic_cyclic (d : Q) (l : list Q) : l <> [] ->
  (forall t, replay d (Many l) (Some t) = Some (nth (t mod length l) l d)) /\
  (forall t, (t < length l)%nat -> replay d (Many l) (Some t) = Some (nth t l d)) /\
  (forall t k, replay d (Many l) (Some (t + k * length l)%nat) = replay d (Many l) (Some t)) /\
  replay d (Many l) None = replay d (Many l) (Some 0%nat) /\
  (forall t, exists x, replay d (Many l) (Some t) = Some x /\ In x l).
Proof. exact (deterministic_cyclic d l). Qed.

Theorem C16_deterministic_scalar (d x : Q) p : replay d (Scalar x) p = Some x.
Proof. exact (deterministic_scalar d x p). Qed.

Theorem C16_explicit_cyclic (l : list bool) : l <> [] ->
  (forall t, replay false (Many l) (Some t) = Some (nth (t mod length l) l false)) /\
  (forall t, (t < length l)%nat -> replay false (Many l) (Some t) = Some (nth t l false)) /\
  (forall t k, replay false (Many l) (Some (t + k * length l)%nat) = replay false (Many l) (Some t)) /\
  replay false (Many l) None = replay false (Many l) (Some 0%nat) /\
  (forall t, exists x, replay false (Many l) (Some t) = Some x /\ In x l).
Proof. exact (deterministic_cyclic false l). Qed.

(* generate_demand for type 'D' is the replay followed by the optional rounding; rounding is to nearest, integers fixed *)
Theorem C16_generate_deterministic a rnd p v :
  generate_demand (TD a) rnd p v = option_map (maybe_round rnd) (replay 0 a p).
Proof. exact (generate_deterministic a rnd p v). Qed.
Theorem C16_rounding x k : - (1#2) <= inject_Z (round_half_even x) - x <= 1#2 /\ round_half_even (inject_Z k) = k.
Proof. exact (conj (round_half_even_near x) (round_half_even_int k)). Qed.

(* ---- (2) Markov disruption process -------------------------------------------------------------------------- *)
(* the transition the code implements, as sets of the uniform variate: up -> down iff u <= alpha, down -> down iff
   u <= 1 - beta; intersected with [0,1) these are intervals of length alpha and 1 - beta = the rows of markov_P *)
Theorem C16_markov_transition alpha beta u :
  (markov_next alpha beta false u = true <-> u <= alpha) /\
  (markov_next alpha beta true u = true <-> u <= 1 - beta).
Proof. exact (markov_sets alpha beta u). Qed.

(* markov_steady_state: steady_state_probabilities() = (beta/(alpha+beta), alpha/(alpha+beta)) is a probability vector,
   stationary for that chain (pi P = pi) *)
Theorem C16_markov_steady_state alpha beta : 0 <= alpha -> 0 <= beta -> 0 < alpha + beta ->
  exists pu pd, steady_markov alpha beta = Some (pu, pd) /\
    pu == beta / (alpha + beta) /\ pd == alpha / (alpha + beta) /\
    pu + pd == 1 /\ 0 <= pu /\ 0 <= pd /\
    fst (vec_times (pu, pd) (markov_P alpha beta)) == pu /\
    snd (vec_times (pu, pd) (markov_P alpha beta)) == pd.
Proof. exact (markov_steady_state alpha beta). Qed.
(* ... and it is the only stationary probability vector *)
Theorem C16_markov_steady_unique alpha beta x y : 0 < alpha + beta -> x + y == 1 ->
  fst (vec_times (x, y) (markov_P alpha beta)) == x ->
  x == beta / (alpha + beta) /\ y == alpha / (alpha + beta).
Proof. exact (markov_steady_unique alpha beta x y). Qed.
(* (S2) statistical, not a theorem: for u_1, u_2, ... iid uniform the fraction of t <= n with
   nth t (markov_run alpha beta d0 us) = true tends to alpha/(alpha+beta) almost surely. *)

(* explicit list: pi_down = fraction of true entries = the exact fraction of disrupted periods over any whole number of
   replayed cycles *)
Theorem C16_explicit_steady_state (l : list bool) : l <> [] ->
  exists pu pd, steady_explicit l = Some (pu, pd) /\
    pd == qnat (count_true l) / qnat (length l) /\ pu + pd == 1 /\
    forall k, (1 <= k)%nat ->
      pd == qnat (count_true (map (cyc false l) (seq 0 (k * length l)))) / qnat (k * length l).
Proof. exact (explicit_steady_state l). Qed.

(* ---- (3) variate transforms ----------------------------------------------------------------------------------- *)
(* UC: u in [0,1) gives a value in [lo,hi); {u : g(u) <= x} = {u <= (x-lo)/(hi-lo)}, i.e. the U[lo,hi] cdf *)
Theorem C16_uc_range lo hi u : lo < hi -> 0 <= u -> u < 1 -> lo <= g_uc lo hi u /\ g_uc lo hi u < hi.
Proof. exact (uc_range lo hi u). Qed.
Theorem C16_uc_cdf lo hi u x : lo < hi -> (g_uc lo hi u <= x <-> u <= (x - lo) / (hi - lo)).
Proof. exact (uc_cdf lo hi u x). Qed.

(* N: max(0, mu + sigma z): non-negative, equal to mu + sigma z when that is >= 0, and for x >= 0
   {z : g(z) <= x} = {z <= (x - mu)/sigma}, i.e. cdf Phi((x-mu)/sigma) on x >= 0 with an atom at 0 *)
Theorem C16_n_transform mu sigma z :
  0 <= g_n mu sigma z /\ (0 <= mu + sigma * z -> g_n mu sigma z == mu + sigma * z) /\
  (mu + sigma * z <= 0 -> g_n mu sigma z == 0).
Proof. exact (conj (n_nonneg mu sigma z) (conj (n_identity mu sigma z) (n_censored mu sigma z))). Qed.
Theorem C16_n_cdf mu sigma z x : 0 < sigma -> 0 <= x -> (g_n mu sigma z <= x <-> z <= (x - mu) / sigma).
Proof. exact (n_cdf mu sigma z x). Qed.

(* CD (np.random.choice): for a probability vector, {u in [0,1) : index = i} is exactly [c_{i-1}, c_i), of length p_i;
   general form with NumPy's renormalisation by the last cumulative sum *)
Theorem C16_cd_interval ps u i : Forall (fun x => 0 <= x) ps -> qsum ps == 1 -> 0 <= u -> (i < length ps)%nat ->
  (cd_index ps u = i <-> cum_before ps i <= u /\ u < cum_before ps (S i)) /\
  cum_before ps (S i) - cum_before ps i == nth i ps 0.
Proof. exact (cd_interval_len ps u i). Qed.
Theorem C16_cd_interval_renormalised ps u i :
  Forall (fun x => 0 <= x) ps -> 0 < qsum ps -> 0 <= u -> (i < length ps)%nat ->
  (cd_index ps u = i <-> cum_before ps i / qsum ps <= u /\ u < cum_before ps (S i) / qsum ps).
Proof. exact (cd_interval_general ps u i). Qed.
(* support: the drawn index is in range and has positive probability; the drawn value is an entry of demand_list *)
Theorem C16_cd_support xs ps u :
  Forall (fun x => 0 <= x) ps -> qsum ps == 1 -> 0 <= u -> u < 1 -> length xs = length ps ->
  0 < nth (cd_index ps u) ps 0 /\ In (g_cd xs ps u) xs.
Proof. exact (cd_support xs ps u). Qed.

(* UD / P / NB: the library's integer variate is returned unchanged, with or without round_to_int *)
Theorem C16_int_identity k b : maybe_round b (g_int k) = inject_Z k.
Proof. exact (int_identity k b). Qed.
(* (S1) statistical, not a theorem: u ~ U[0,1), z ~ N(0,1), k ~ Poisson(mean) / U{lo..hi} / NB(n,p), independent draws. *)

(* ---- (4) lead-time demand of the discrete types: L-fold convolution ------------------------------------------ *)
(* ltd_moments: for every L and every pmf list with total mass 1 on off, off+1, ...: the L-fold convolution (support
   starting at L*off) has mass 1, mean L*mu and variance L*sigma^2 *)
Theorem C16_ltd_moments L off p : qsum p == 1 ->
  qsum (conv_pow L p) == 1 /\
  pmf_mean (qnat L * off) (conv_pow L p) == qnat L * pmf_mean off p /\
  pmf_var (qnat L * off) (conv_pow L p) == qnat L * pmf_var off p.
Proof. exact (ltd_moments L off p). Qed.
(* the list product is the convolution: (a*b)_n = sum_{i<=n} a_i b_{n-i} (pmf of the sum of two independent variables) *)
Theorem C16_conv_pointwise a b n :
  nth n (conv a b) 0 == qsum_range (fun i => nth i a 0 * nth (n - i) b 0) 0 (S n).
Proof. exact (conv_nth a b n). Qed.
(* the base pmfs have mass 1: discrete uniform; negative binomial table truncated at ppf(0.9999) and renormalised *)
Theorem C16_base_mass : (forall lo hi, qsum (ud_pmf lo hi) == 1) /\ (forall tbl, ~ qsum tbl == 0 -> qsum (nb_trunc tbl) == 1).
Proof. exact (conj ud_pmf_mass nb_trunc_mass). Qed.
(* cd_zero_padding: for distinct demand values the padded vector over min..max carries p_i at x_i and 0 elsewhere, with the
   same mass, mean and second moment as (demand_list, probabilities) *)
Theorem C16_cd_zero_padding xs ps : NoDup xs -> length xs = length ps ->
  let lo := nat_min_list xs in
  (forall i, (i < length xs)%nat -> nth (nth i xs 0%nat - lo) (cd_pad xs ps) 0 = nth i ps 0) /\
  (forall x, (lo <= x)%nat -> ~ In x xs -> nth (x - lo) (cd_pad xs ps) 0 = 0) /\
  qsum (cd_pad xs ps) == qsum ps /\
  pmf_mean (qnat lo) (cd_pad xs ps) == qsum (map (fun '(x, p) => qnat x * p) (combine xs ps)) /\
  pmf_m2 (qnat lo) (cd_pad xs ps) == qsum (map (fun '(x, p) => qnat x * qnat x * p) (combine xs ps)).
Proof. exact (cd_zero_padding xs ps). Qed.
(* (S3) not theorems: agreement of the float FFT convolution / scipy objects with conv_pow up to rounding and the NB tail
   truncation; acceptance of probability vectors summing to one within rounding. *)

(* non-vacuity: concrete instances meeting the hypotheses, with non-trivial values *)
Example C16_nonvacuous :
  (* custom discrete: p = (1/4,1/4,1/2), u = 3/5 falls in [1/2, 1) -> third value *)
  cd_index [1#4; 1#4; 1#2] (3#5) = 2%nat /\ g_cd [0; 5; 10] [1#4; 1#4; 1#2] (3#5) == 10 /\
  (* Markov chain alpha = 1/10, beta = 3/10: steady state (3/4, 1/4); a run *)
  option_map (fun '(a, b) => (qobs a, qobs b)) (steady_markov (1#10) (3#10)) = Some ((3, 4)%Z, (1, 4)%Z) /\
  markov_run (1#10) (3#10) false [1#20; 1#2; 4#5; 1#100] = [true; true; false; true] /\
  (* lead-time demand, L = 2, of demand {0,5,10} w.p. (1/4,1/4,1/2): mean 2*6.25, variance 2*17.1875 *)
  (let '(off, pmf) := ltd_cd 2 [0; 5; 10]%nat [1#4; 1#4; 1#2] in
   qsum pmf == 1 /\ pmf_mean off pmf == 25#2 /\ pmf_var off pmf == 275#8 /\ length pmf = 21%nat) /\
  (* deterministic list replay and half-to-even rounding *)
  generate_demand (TD (Many [5#2; 7#2; 4])) true (Some 7%nat) VNone = Some 4 /\
  generate_demand (TD (Many [5#2; 7#2; 4])) true (Some 6%nat) VNone = Some 2 /\
  steady_explicit [true; false; false; true; false] = Some (1 - qnat 2 / qnat 5, qnat 2 / qnat 5).
Proof. vm_compute. repeat split; reflexivity. Qed.

Print Assumptions C16_deterministic_cyclic.
Print Assumptions C16_deterministic_scalar.
Print Assumptions C16_explicit_cyclic.
Print Assumptions C16_generate_deterministic.
Print Assumptions C16_rounding.
Print Assumptions C16_markov_transition.
Print Assumptions C16_markov_steady_state.
Print Assumptions C16_markov_steady_unique.
Print Assumptions C16_explicit_steady_state.
Print Assumptions C16_uc_range.
Print Assumptions C16_uc_cdf.
Print Assumptions C16_n_transform.
Print Assumptions C16_n_cdf.
Print Assumptions C16_cd_interval.
Print Assumptions C16_cd_interval_renormalised.
Print Assumptions C16_cd_support.
Print Assumptions C16_int_identity.
Print Assumptions C16_ltd_moments.
Print Assumptions C16_conv_pointwise.
Print Assumptions C16_base_mass.
Print Assumptions C16_cd_zero_padding.
