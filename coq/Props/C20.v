(* placeholder while the harness is being brought up *)
From SV Require Import Alg.Helpers.
