(* C20 — Numerical and container helpers of stockpyl/helpers.py do exactly what they document.
   Statements only; every proof is [exact <lemma of Alg/Helpers_*_proofs.v>] (Irwin-Hall part at the end of the file: Alg/IrwinHall_proofs.v,
   Alg/IrwinHall_model_proofs.v, 13 theorems over R with the real-number axioms of the standard library).
   Model: Alg/Helpers.v (exact rationals; Python values = [pv], dict = insertion-ordered association list with
   pairwise different keys, exceptions = [Err kind]).  Every theorem is for all inputs of the stated shape.
   Not theorems (correspondence + Python oracle only, see c20.claim.json):
   replace_dict_numeric_string_keys, replace_dict_null_keys, nearest_dict_value. *)
From Coq Require Import String Permutation Sorted.
From SV Require Import Base.Qx Alg.Helpers Alg.Helpers_proofs.
Import ListNotations.

(* ------------------------------------------------------------------------------------------------ *)
(* (1) convolution of pmfs = direct convolution *)
Theorem C20_conv_coefficient a b k : nth k (conv a b) 0 == qsum_range (fun i => nth i a 0 * nth (k - i) b 0) 0 (S k).
Proof. exact (conv_nth a b k). Qed.
Theorem C20_conv_length a b : a <> [] -> b <> [] -> length (conv a b) = (length a + length b - 1)%nat.
Proof. exact (conv_length a b). Qed.
Theorem C20_conv_nonneg a b : Forall (fun x => 0 <= x) a -> Forall (fun x => 0 <= x) b -> Forall (fun x => 0 <= x) (conv a b).
Proof. exact (conv_nonneg a b). Qed.
Theorem C20_conv_mass a b : qsum (conv a b) == qsum a * qsum b.
Proof. exact (conv_mass a b). Qed.
Theorem C20_conv_comm a b : forall k, nth k (conv a b) 0 == nth k (conv b a) 0.
Proof. exact (conv_comm a b). Qed.
Theorem C20_conv_assoc a b c : forall k, nth k (conv (conv a b) c) 0 == nth k (conv a (conv b c)) 0.
Proof. exact (conv_assoc a b c). Qed.
(* convolve_many = left fold of conv from [1]: length 1 + sum(len - 1), mass = product of masses, non-negative;
   on non-negative non-empty arrays the negative-rounding clean-up changes nothing *)
Theorem C20_convolve_many_fold ls : Forall (fun a => a <> []) ls ->
  length (conv_all ls) = (1 + sum_len1 ls)%nat /\ qsum (conv_all ls) == qprod (map qsum ls) /\
  (Forall (Forall (fun x => 0 <= x)) ls -> Forall (fun x => 0 <= x) (conv_all ls)).
Proof. exact (conv_all_props ls). Qed.
Theorem C20_convolve_many_pmfs ls : Forall (fun a => a <> []) ls -> Forall (Forall (fun x => 0 <= x)) ls ->
  convolve_many ls = Some (Ok (conv_all ls)).
Proof. exact (convolve_many_nonneg ls). Qed.

(* (2) sum_of_discrete_uniforms_pmf: the dict iteration returns the n-fold convolution power of the uniform pmf on lo..hi
   ([uniform_sum_pmf]: delta_0 convolved n times with U), keys pairwise different = exactly n*lo..n*hi, values >= 0, mass 1 *)
Theorem C20_du_sum_pmf n lo hi : (lo <= hi)%Z ->
  let r := du_sum_pmf n lo hi in
  (forall k, zd_get r k == uniform_sum_pmf n lo hi k) /\
  NoDup (map fst r) /\
  (forall k, In k (map fst r) <-> (Z.of_nat n * lo <= k <= Z.of_nat n * hi)%Z) /\
  Forall (fun x => 0 <= x) (map snd r) /\ qsum (map snd r) == 1.
Proof. exact (du_sum_pmf_spec n lo hi). Qed.

(* ------------------------------------------------------------------------------------------------ *)
(* (3) find_nearest: an index of a closest entry; sorted mode: value ties go to the larger entry; unsorted: first closest *)
Theorem C20_find_nearest_sorted a v : a <> [] -> sorted_q a ->
  let i := fn_sorted a v in
  (i < length a)%nat /\
  (forall j, (j < length a)%nat -> qabs (nth i a 0 - v) <= qabs (nth j a 0 - v)) /\
  (forall j, (j < length a)%nat -> qabs (nth j a 0 - v) == qabs (nth i a 0 - v) -> nth j a 0 <= nth i a 0).
Proof. exact (fn_sorted_spec a v). Qed.
Theorem C20_find_nearest_sorted_exact_hit a v : sorted_q a -> (exists j, (j < length a)%nat /\ nth j a 0 == v) ->
  let i := fn_sorted a v in (i < length a)%nat /\ nth i a 0 == v /\ forall j, (j < i)%nat -> nth j a 0 < v.
Proof. exact (fn_sorted_exact_hit a v). Qed.
Theorem C20_find_nearest_unsorted a v : a <> [] -> exists i, fn_unsorted a v = Ok i /\ (i < length a)%nat /\
  (forall j, (j < length a)%nat -> qabs (nth i a 0 - v) <= qabs (nth j a 0 - v)) /\
  (forall j, (j < i)%nat -> qabs (nth i a 0 - v) < qabs (nth j a 0 - v)).
Proof. exact (fn_unsorted_spec a v). Qed.
Theorem C20_find_nearest a values sorted : a <> [] -> (sorted = true -> sorted_q a) ->
  exists r, find_nearest a values sorted [] = Ok r /\ length r = length values /\
  forall t, (t < length values)%nat ->
    let i := nth t r 0%Z in let v := nth t values 0 in
    (0 <= i < Z.of_nat (length a))%Z /\ forall j, (j < length a)%nat -> qabs (nth (Z.to_nat i) a 0 - v) <= qabs (nth j a 0 - v).
Proof. exact (find_nearest_spec a values sorted). Qed.

(* ------------------------------------------------------------------------------------------------ *)
(* (4) dict_match: symmetric; tolerance = math.isclose; missing key = 0 unless require_presence *)
Theorem C20_isclose_tolerance rel abs a b : 0 <= rel ->
  (isclose rel abs a b = true <-> qabs (a - b) <= qmax (rel * qmax (qabs a) (qabs b)) abs).
Proof. exact (isclose_spec rel abs a b). Qed.
(* for every key type whose == is an equivalence, and dicts (pairwise different keys) *)
Theorem C20_dict_match_sym (K : Type) (keqb : K -> K -> bool) :
  (forall a, keqb a a = true) -> (forall a b, keqb a b = keqb b a) -> (forall a b c, keqb a b = true -> keqb b c = true -> keqb a c = true) ->
  forall d1 d2 rp rel abs, nodupk keqb d1 -> nodupk keqb d2 ->
  dict_match keqb d1 d2 rp rel abs = dict_match keqb d2 d1 rp rel abs.
Proof. exact (@dict_match_sym K keqb). Qed.
Theorem C20_dict_match_semantics (K : Type) (keqb : K -> K -> bool) :
  (forall a, keqb a a = true) -> (forall a b, keqb a b = keqb b a) -> (forall a b c, keqb a b = true -> keqb b c = true -> keqb a c = true) ->
  forall d1 d2 rp rel abs, 0 <= rel -> 0 <= abs -> nodupk keqb d1 -> nodupk keqb d2 ->
  exists b, dict_match keqb d1 d2 rp rel abs = Ok b /\
    (b = true <-> (forall k, isclose rel abs (kval keqb d1 k) (kval keqb d2 k) = true) /\
                  (rp = true -> forall k, kmem keqb d1 k = kmem keqb d2 k)).
Proof. exact (@dict_match_semantics K keqb). Qed.
Theorem C20_dict_match_negative_tol (K : Type) (keqb : K -> K -> bool) d1 d2 rp rel abs :
  (rel < 0 \/ abs < 0) -> (d1 <> [] \/ d2 <> []) -> dict_match keqb d1 d2 rp rel abs = Err ValueError.
Proof. exact (dict_match_negative_tol keqb d1 d2 rp rel abs). Qed.
(* Python's keys None | int | float | str (1 == 1.0) satisfy the premises *)
Theorem C20_dict_match_sym_python_keys d1 d2 rp rel abs : nodupk key_eqb d1 -> nodupk key_eqb d2 ->
  dict_match key_eqb d1 d2 rp rel abs = dict_match key_eqb d2 d1 rp rel abs.
Proof. exact (pdict_match_sym d1 d2 rp rel abs). Qed.
Theorem C20_min_of_dict (K : Type) (d : list (K * Q)) : d <> [] ->
  exists v k, min_of_dict d = Ok (v, k) /\ In (k, v) d /\ forall kv, In kv d -> v <= snd kv.
Proof. exact (min_of_dict_spec d). Qed.

(* ------------------------------------------------------------------------------------------------ *)
(* (5) normalisers: the documented result for every input shape, ValueError for inadmissible lengths *)
Theorem C20_ensure_list_for_time_periods T :
  (forall x, ensure_list_tp (TPScalar x) T = Some (0 :: repeat x T)) /\
  (forall l, length l = S T -> ensure_list_tp (TPList l) T = Some l) /\
  (forall l, length l = T -> ensure_list_tp (TPList l) T = Some (0 :: l)) /\
  (forall l, length l <> T -> length l <> S T -> ensure_list_tp (TPList l) T = None).
Proof. exact (ensure_list_tp_doc T). Qed.
Theorem C20_ensure_list_for_nodes n dflt :
  ensure_list_for_nodes PNone n dflt = Ok (zrepeat dflt n) /\
  (forall x, is_singleton x -> ensure_list_for_nodes x n dflt = Ok (zrepeat x n)) /\
  (forall l, zlen l = n -> ensure_list_for_nodes (PList l) n dflt = Ok l) /\
  (forall l, zlen l <> n -> ensure_list_for_nodes (PList l) n dflt = Err ValueError).
Proof. exact (ensure_list_for_nodes_doc n dflt). Qed.
Theorem C20_ensure_dict_for_nodes nodes dflt : nodup_keys nodes ->
  (forall d, ensure_dict_for_nodes (PDict d) nodes dflt = Ok d) /\
  ensure_dict_for_nodes PNone nodes dflt = Ok (map (fun n => (n, dflt)) nodes) /\
  (forall x, is_singleton x -> ensure_dict_for_nodes x nodes dflt = Ok (map (fun n => (n, x)) nodes)) /\
  (forall l, length l = length nodes -> ensure_dict_for_nodes (PList l) nodes dflt = Ok (combine nodes l)) /\
  (forall l, length l <> length nodes -> ensure_dict_for_nodes (PList l) nodes dflt = Err ValueError).
Proof. exact (ensure_dict_for_nodes_doc nodes dflt). Qed.

(* build_node_data_dict: for pairwise different node indices and attribute names, data_dict[n] lists for every attribute a
   (in order) the documented value [doc_value]: default (or None) for a None attribute, attribute_dict[a][n] or the
   default for a dict, the k-th entry for a list of the right length (demand_list / probabilities only when nested),
   the singleton itself otherwise; ValueError iff some list-like attribute has the wrong length *)
Theorem C20_build_node_data_dict ad nodes dv : nodup_keys nodes -> nodup_fst ad -> (forall av, In av ad -> ~ bad_length nodes av) ->
  build_node_data_dict ad nodes dv =
  Ok (combine nodes (map (fun i_n => map (fun av => (fst av, doc_value dv av i_n)) ad) (combine (seq 0 (length nodes)) nodes))).
Proof. exact (build_node_data_dict_ok ad nodes dv). Qed.
Theorem C20_build_node_data_dict_bad_length ad nodes dv : (exists av, In av ad /\ bad_length nodes av) ->
  build_node_data_dict ad nodes dv = Err ValueError.
Proof. exact (build_node_data_dict_bad_length ad nodes dv). Qed.

(* (6) sorters.  sort_dict_by_keys: for mutually comparable keys the output lists the values (or keys) of a
   permutation of the dict that is sorted by key with None first (ascending) / last (descending) *)
Theorem C20_sort_dict_by_keys d asc rv : nodup_fst d -> homog d ->
  let es := sorted_entries d asc in
  sort_dict_by_keys d asc rv = Ok (map (fun kv => if rv then snd kv else pv_of_key (fst kv)) es) /\
  Permutation es d /\
  StronglySorted (fun x y => if asc then key_doc_le (fst x) (fst y) else key_doc_le (fst y) (fst x)) es.
Proof. exact (sort_dict_by_keys_spec d asc rv). Qed.
Theorem C20_sort_dict_by_keys_mixed d asc rv :
  (exists kv, In kv d /\ key_is_num (fst kv) = true) -> (exists kv, In kv d /\ key_is_str (fst kv) = true) ->
  sort_dict_by_keys d asc rv = Err TypeError.
Proof. exact (sort_dict_by_keys_mixed d asc rv). Qed.
(* sort_nested_dict_by_keys: when no number has to be compared with a str (no TypeError), the output lists the values
   (or (key1, key2) pairs) of a permutation of the flattened entries that is strongly sorted by the documented
   lexicographic order [nested_doc_le] (None first at both levels), reversed when descending *)
Theorem C20_sort_nested_dict_by_keys d (asc rv : bool) fl : flatten_nested d = Ok fl ->
  (forall x y, In x fl -> In y fl -> pair_cmp_raises (fst x) (fst y) = false) ->
  exists es,
    sort_nested_dict_by_keys d asc rv = Ok (map (fun kv => if rv then snd kv else PList [pv_of_key (fst (fst kv)); pv_of_key (snd (fst kv))]) es) /\
    Permutation es fl /\
    StronglySorted (fun x y => if asc then nested_doc_le x y else nested_doc_le y x) es.
Proof. exact (sort_nested_spec d asc rv fl). Qed.

(* (7) key rewriters / predicates / rounding / list comparison *)
Theorem C20_change_dict_key (d : dict pv) old_key new_key : nodup_fst d ->
  (dget d old_key = None -> change_dict_key d old_key new_key = Err KeyError) /\
  (forall v, dget d old_key = Some v -> fresh (dremove d old_key) new_key ->
     change_dict_key d old_key new_key = Ok (dremove d old_key ++ [(new_key, v)])).
Proof. exact (change_dict_key_doc d old_key new_key). Qed.
Theorem C20_is_integer x : is_integer x = true <-> (exists z, x = PInt z) \/ (exists q z, x = PNum q /\ q == inject_Z z).
Proof. exact (is_integer_doc x). Qed.
Theorem C20_is_iterable x : is_iterable x = true <-> (exists l, x = PList l) \/ (exists d, x = PDict d).
Proof. exact (is_iterable_doc x). Qed.
Theorem C20_round_value rt q : exists z, round_value rt (PNum q) = Ok (match rt with ROther => PNum q | _ => PInt z end) /\
  match rt with
  | RUp => inject_Z z - 1 < q <= inject_Z z
  | RDown => inject_Z z <= q < inject_Z z + 1
  | RNearest => qabs (q - inject_Z z) <= 1 # 2 /\ (qabs (q - inject_Z z) == 1 # 2 -> Z.even z = true)
  | ROther => True
  end.
Proof. exact (round_value_doc rt q). Qed.
Theorem C20_round_dict_values d rt d' : round_dict_values d rt = Ok d' ->
  map fst d' = map fst d /\ Forall2 (fun kv kv' => round_value rt (snd kv) = Ok (snd kv')) d d'.
Proof. exact (round_dict_values_doc d rt d'). Qed.
Theorem C20_round_dict_values_no_rounding d : round_dict_values d ROther = Ok d.
Proof. exact (round_dict_values_none d). Qed.
Theorem C20_compare_unhashable_lists (A : Type) (eqb : A -> A -> bool) : (forall a b, eqb a b = true <-> a = b) ->
  forall l1 l2, compare_unhashable_lists eqb l1 l2 = true <-> Permutation l1 l2.
Proof. exact (@compare_unhashable_lists_doc A eqb). Qed.

(* ------------------------------------------------------------------------------------------------ *)
(* non-vacuity: the docstring examples *)
Example C20_nonvacuous_conv :
  map qobs (conv_all [[6#10; 3#10; 1#10]; [5#10; 4#10; 1#10]; [3#10; 7#10]; [1]]) =
  map qobs [90#1000; 327#1000; 342#1000; 182#1000; 52#1000; 7#1000].
Proof. vm_compute. reflexivity. Qed.
Example C20_nonvacuous_search :
  sorted_q [1; 3; 3; 7] /\ fn_sorted [1; 3; 3; 7] 2 = 1%nat /\ fn_unsorted [1; 3; 3; 7] 2 = Ok 0%nat /\ fn_sorted [1; 3; 3; 7] 5 = 3%nat.
Proof.
  split.
  - intros i j Hij. cbn [length] in Hij.
    destruct i as [|[|[|[|i]]]]; destruct j as [|[|[|[|j]]]]; try lia; cbn [nth]; lra.
  - vm_compute. repeat split; reflexivity.
Qed.
Example C20_nonvacuous_dict_match :
  dict_match key_eqb [(KInt 1, 5); (KStr "a"%string, 0)] [(KNum 1, 5)] false (1 # 1000000000) 0 = Ok true /\
  dict_match key_eqb [(KNum 1, 5)] [(KInt 1, 5); (KStr "a"%string, 0)] true (1 # 1000000000) 0 = Ok false.
Proof. vm_compute. split; reflexivity. Qed.
Example C20_nonvacuous_sort :
  sort_dict_by_keys [(KStr "a"%string, PInt 5); (KNone, PInt 14); (KStr "b"%string, PInt 7)] true true = Ok [PInt 14; PInt 5; PInt 7] /\
  sort_dict_by_keys [(KStr "a"%string, PInt 5); (KNone, PInt 14); (KStr "b"%string, PInt 7)] false false = Ok [PStr "b"%string; PStr "a"%string; PNone].
Proof. vm_compute. split; reflexivity. Qed.
Example C20_nonvacuous_du : map (fun kv => (fst kv, qobs (snd kv))) (du_sum_pmf 2 1 3) =
  [(2, (1, 9)); (3, (2, 9)); (4, (1, 3)); (5, (2, 9)); (6, (1, 9))]%Z.
Proof. vm_compute. reflexivity. Qed.

(* Irwin-Hall closed form — TESTS by computation over Q (not theorems): the alternating sum is 0 at x <= 0, 1 at x >= n,
   and equals the n = 1, 2, 3 piecewise polynomials at sample points *)
Example C20_test_irwin_hall_outside_support :
  forallb (fun n => forallb (fun x => qeqb (ih_formula x n) 0) [0; -(1#2); -3]
                    && forallb (fun x => qeqb (ih_formula x n) 1) [qnat n; qnat n + (1#3); qnat n + 7; 100]) [1; 2; 3; 4; 5; 6]%nat = true.
Proof. vm_compute. reflexivity. Qed.
Example C20_test_irwin_hall_small_n :
  forallb (fun x => qeqb (ih_formula x 1) x) [1#7; 1#2; 9#10] &&
  forallb (fun x => qeqb (ih_formula x 2) (x * x / 2)) [1#7; 1#2; 1] &&
  forallb (fun x => qeqb (ih_formula x 2) (1 - (2 - x) * (2 - x) / 2)) [1; 3#2; 19#10] &&
  forallb (fun x => qeqb (ih_formula x 3) (x * x * x / 6)) [1#3; 1] &&
  forallb (fun x => qeqb (ih_formula x 3) ((-2 * x * x * x + 9 * x * x - 9 * x + 3) / 6)) [1; 3#2; 2] &&
  forallb (fun x => qeqb (irwin_hall_cdf x 3) (1 - (3 - x) * (3 - x) * (3 - x) / 6)) [2; 5#2; 3] = true.
Proof. vm_compute. reflexivity. Qed.

Print Assumptions C20_conv_coefficient.
Print Assumptions C20_conv_length.
Print Assumptions C20_conv_nonneg.
Print Assumptions C20_conv_mass.
Print Assumptions C20_conv_comm.
Print Assumptions C20_conv_assoc.
Print Assumptions C20_convolve_many_fold.
Print Assumptions C20_convolve_many_pmfs.
Print Assumptions C20_du_sum_pmf.
Print Assumptions C20_find_nearest_sorted.
Print Assumptions C20_find_nearest_sorted_exact_hit.
Print Assumptions C20_find_nearest_unsorted.
Print Assumptions C20_find_nearest.
Print Assumptions C20_isclose_tolerance.
Print Assumptions C20_dict_match_sym.
Print Assumptions C20_dict_match_semantics.
Print Assumptions C20_dict_match_negative_tol.
Print Assumptions C20_dict_match_sym_python_keys.
Print Assumptions C20_min_of_dict.
Print Assumptions C20_ensure_list_for_time_periods.
Print Assumptions C20_ensure_list_for_nodes.
Print Assumptions C20_ensure_dict_for_nodes.
Print Assumptions C20_build_node_data_dict.
Print Assumptions C20_build_node_data_dict_bad_length.
Print Assumptions C20_sort_dict_by_keys.
Print Assumptions C20_sort_dict_by_keys_mixed.
Print Assumptions C20_sort_nested_dict_by_keys.
Print Assumptions C20_change_dict_key.
Print Assumptions C20_is_integer.
Print Assumptions C20_is_iterable.
Print Assumptions C20_round_value.
Print Assumptions C20_round_dict_values.
Print Assumptions C20_round_dict_values_no_rounding.
Print Assumptions C20_compare_unhashable_lists.

(* ======================================================================================================================= *)
(* C20 additions -- "the sum-of-uniforms distributions are the true distributions of the sums": the Irwin-Hall closed form.
   ihF n x = (1/n!) sum_{k=0..n} (-1)^k C(n,k) max(x-k,0)^n  is the closed form (Alg/IrwinHall.v);
   ihVol n x = int_0^1 ... int_0^1 1[u_1+...+u_n <= x] du_n ... du_1  (iterated Riemann integral over the unit cube)
   is P(U_1+...+U_n <= x) for independent U(0,1);  ihFg n lo hi is the affine rescaling for U(lo,hi). *)
From SV Require Import Alg.Helpers.
From SV Require Import Alg.IrwinHall Alg.IrwinHall_proofs Alg.IrwinHall_model_proofs.
From Coq Require Import Reals Qreals Lia Lra.
From Coquelicot Require Import Coquelicot.
Local Open Scope R_scope.

(* (a) n = 1: the closed form is the cdf of U(0,1) *)
Theorem C20_irwin_hall_n1 (x : R) : ihF 1 x = Rmin (Rmax x 0) 1.
Proof. exact (ihF_1 x). Qed.
(* (b) the convolution recursion  F_{n+1}(x) = E[F_n(x - U)] = int_0^1 F_n(x-u) du,  every n >= 1, every real x;
       [is_RInt]: the integral exists and has this value *)
Theorem C20_irwin_hall_convolution (n : nat) (x : R) : (1 <= n)%nat ->
  is_RInt (fun u => ihF n (x - u)) 0 1 (ihF (S n) x) /\ ihF (S n) x = RInt (fun u => ihF n (x - u)) 0 1.
Proof. exact (fun Hn => conj (ihF_convolution_is_RInt n x Hn) (ihF_convolution n x Hn)). Qed.
(* (c) (a)+(b) determine the family: any G with G_1 = cdf of U(0,1) and the recursion is the closed form *)
Theorem C20_irwin_hall_characterised (G : nat -> R -> R) :
  (forall x, G 1%nat x = Rmin (Rmax x 0) 1) ->
  (forall n x, (1 <= n)%nat -> G (S n) x = RInt (fun u => G n (x - u)) 0 1) ->
  forall n x, (1 <= n)%nat -> G n x = ihF n x.
Proof. exact (ihF_characterised G). Qed.
(* (d) the closed form IS the volume of {u in [0,1]^n : u_1+...+u_n <= x} (iterated integral of the indicator),
       and each of the n nested integrals exists *)
Theorem C20_irwin_hall_is_distribution_of_sum (n : nat) (x : R) : (1 <= n)%nat -> ihVol n x = ihF n x.
Proof. exact (fun Hn => ihVol_is_ihF n Hn x). Qed.
Theorem C20_irwin_hall_iterated_integral_exists (n : nat) (x : R) :
  is_RInt (fun u => ihVol n (x - u)) 0 1 (ihVol (S n) x).
Proof. exact (ihVol_integrable n x). Qed.
(* (e) outside the support (the values the code returns before evaluating the sum), range, monotonicity *)
Theorem C20_irwin_hall_outside_support (n : nat) (x : R) : (1 <= n)%nat ->
  (x <= 0 -> ihF n x = 0) /\ (INR n <= x -> ihF n x = 1).
Proof. exact (fun Hn => conj (ihF_below n x Hn) (ihF_above n Hn x)). Qed.
Theorem C20_irwin_hall_is_cdf (n : nat) : (1 <= n)%nat ->
  (forall x, 0 <= ihF n x <= 1) /\ (forall x y, x <= y -> ihF n x <= ihF n y).
Proof. exact (fun Hn => conj (ihF_range n Hn) (ihF_mono n Hn)). Qed.
(* (f) the executable model of helpers.irwin_hall_cdf (exact rationals) is the closed form at every rational x;
       the code's sum k = 0..floor(x) alone already is (so the early returns 0 / 1 change nothing on exact arithmetic) *)
Theorem C20_irwin_hall_cdf_is_closed_form (x : Q) (n : nat) : (1 <= n)%nat ->
  Q2R (irwin_hall_cdf x n) = ihF n (Q2R x) /\ Q2R (ih_formula x n) = ihF n (Q2R x) /\ (irwin_hall_cdf x n == ih_formula x n)%Q.
Proof. exact (fun Hn => conj (irwin_hall_cdf_real x n Hn) (conj (ih_formula_real x n Hn) (irwin_hall_clamp_redundant x n Hn))). Qed.
Theorem C20_irwin_hall_cdf_convolution (x : Q) (n : nat) : (1 <= n)%nat ->
  is_RInt (fun u => ihF n (Q2R x - u)) 0 1 (Q2R (irwin_hall_cdf x (S n))).
Proof. exact (irwin_hall_cdf_model_convolution x n). Qed.
(* (g) general U(lo,hi): sum_of_continuous_uniforms_distribution(n, lo, hi)._cdf is the rescaled closed form, which
       satisfies  F_{n+1}(x) = int_lo^hi F_n(x - v) dv / (hi - lo)  and F_1 = cdf of U(lo,hi), 0 below n*lo, 1 above n*hi *)
Theorem C20_scu_cdf_is_closed_form (n : nat) (lo hi x : Q) : (1 <= n)%nat -> (lo < hi)%Q ->
  Q2R (scu_cdf n lo hi x) = ihFg n (Q2R lo) (Q2R hi) (Q2R x).
Proof. exact (scu_cdf_real n lo hi x). Qed.
Theorem C20_scu_convolution (n : nat) (lo hi x : R) : (1 <= n)%nat -> lo < hi ->
  is_RInt (fun v => / (hi - lo) * ihFg n lo hi (x - v)) lo hi (ihFg (S n) lo hi x) /\
  ihFg (S n) lo hi x = / (hi - lo) * RInt (fun v => ihFg n lo hi (x - v)) lo hi.
Proof. exact (fun Hn Hlh => conj (ihFg_convolution_is_RInt n lo hi x Hn Hlh) (ihFg_convolution n lo hi x Hn Hlh)). Qed.
Theorem C20_scu_n1_and_support (n : nat) (lo hi x : R) : (1 <= n)%nat -> lo < hi ->
  ihFg 1 lo hi x = Rmin (Rmax ((x - lo) / (hi - lo)) 0) 1 /\
  (x <= INR n * lo -> ihFg n lo hi x = 0) /\ (INR n * hi <= x -> ihFg n lo hi x = 1).
Proof. exact (fun Hn Hlh => conj (ihFg_1 lo hi x Hlh) (conj (ihFg_below n lo hi x Hn Hlh) (ihFg_above n lo hi x Hn Hlh))). Qed.
Theorem C20_scu_cdf_convolution (n : nat) (lo hi x : Q) : (1 <= n)%nat -> (lo < hi)%Q ->
  is_RInt (fun v => / (Q2R hi - Q2R lo) * ihFg n (Q2R lo) (Q2R hi) (Q2R x - v)) (Q2R lo) (Q2R hi) (Q2R (scu_cdf (S n) lo hi x)).
Proof. exact (scu_cdf_model_convolution n lo hi x). Qed.

(* non-vacuity: concrete non-trivial instances (interior, non-integer points; values computed by the model over Q) *)
Example C20_ex_irwin_hall_values :
  ihF 2 (Q2R (3#2)) = Q2R (7#8) /\ ihF 3 (Q2R (5#4)) = Q2R (61#192) /\ ihFg 2 (Q2R 1) (Q2R 3) (Q2R 5) = Q2R (7#8).
Proof.
  rewrite <- !irwin_hall_cdf_real by lia. rewrite <- (scu_cdf_real 2 1 3 5) by (try lia; reflexivity).
  repeat split; apply Qeq_eqR; vm_compute; reflexivity.
Qed.
Example C20_ex_irwin_hall_convolution :
  is_RInt (fun u => ihF 2 (Q2R (5#4) - u)) 0 1 (Q2R (61#192)) /\ ihVol 3 (Q2R (5#4)) = Q2R (61#192).
Proof.
  destruct C20_ex_irwin_hall_values as (_ & H3 & _). rewrite <- H3. split.
  - apply C20_irwin_hall_convolution. lia.
  - apply C20_irwin_hall_is_distribution_of_sum. lia.
Qed.
Example C20_ex_scu_convolution :
  is_RInt (fun v => / (Q2R 3 - Q2R 1) * ihFg 1 (Q2R 1) (Q2R 3) (Q2R 5 - v)) (Q2R 1) (Q2R 3) (Q2R (7#8)).
Proof.
  assert (E : Q2R (7#8) = Q2R (scu_cdf 2 1 3 5)) by (apply Qeq_eqR; vm_compute; reflexivity).
  rewrite E. apply C20_scu_cdf_convolution; [lia | reflexivity].
Qed.

Print Assumptions C20_irwin_hall_n1.
Print Assumptions C20_irwin_hall_convolution.
Print Assumptions C20_irwin_hall_characterised.
Print Assumptions C20_irwin_hall_is_distribution_of_sum.
Print Assumptions C20_irwin_hall_iterated_integral_exists.
Print Assumptions C20_irwin_hall_outside_support.
Print Assumptions C20_irwin_hall_is_cdf.
Print Assumptions C20_irwin_hall_cdf_is_closed_form.
Print Assumptions C20_irwin_hall_cdf_convolution.
Print Assumptions C20_scu_cdf_is_closed_form.
Print Assumptions C20_scu_convolution.
Print Assumptions C20_scu_n1_and_support.
Print Assumptions C20_scu_cdf_convolution.
