(* C14 — (r,Q) evaluators equal their definitions and the Poisson (Federgruen-Zheng) algorithm is optimal.
   Statements only; every proof is [exact <lemma of Alg/RQ_proofs.v or Alg/RQTol_proofs.v>].
   Model: Alg/RQ.v. g : Z -> Q is the newsvendor cost (newsvendor_poisson_cost as a function of the base-stock
   level), F the Poisson cdf, both inputs; K lam = fixed_cost * demand_mean.
   rq_cost_def g K lam r n = (K lam + sum_{y=r+1}^{r+n} g y) / n  is the documented cost (5.48). *)
From SV Require Import Base.Qx Alg.RQ Alg.RQ_proofs Alg.RQTol_proofs Alg.RQTerm_proofs.

(* (1) r_q_cost_poisson (accumulation loop as written) equals the documented sum, also through the guards *)
Theorem C14_poisson_cost_def g K lam r n : rq_cost_poisson g K lam r n == rq_cost_def g K lam r n.
Proof. exact (rq_poisson_cost_def g K lam r n). Qed.
Theorem C14_poisson_cost_guarded g r Qz h p K lam L :
  (0 < Qz)%Z -> 0 < h -> 0 < p -> 0 < K -> 0 <= lam -> 0 <= L -> 0 < lam * L ->
  exists c, r_q_cost_poisson g r Qz h p K lam L = Ok c /\ c == rq_cost_def g K lam r (Z.to_nat Qz).
Proof. exact (r_q_cost_poisson_ok g r Qz h p K lam L). Qed.

(* (2) MAIN: for every g that is unimodal with minimiser s (non-increasing up to s, non-decreasing from s on), whatever
   the Federgruen-Zheng loop started at s returns is a pair (r, Q = n >= 1) whose reported cost is that pair's cost and is
   minimal over ALL integers r' and all Q' >= 1; the returned window r+1..r+Q contains s. (No sign condition on K lam.) *)
Theorem C14_fz_optimal (g : Z -> Q) (K lam : Q) (s : Z) : unimodal g s ->
  forall fuel r n c, fz g K lam fuel s = Some (r, n, c) ->
  (1 <= n)%nat /\ (r + 1 <= s <= r + Z.of_nat n)%Z /\ c == rq_cost_def g K lam r n /\
  forall r' n', (1 <= n')%nat -> c <= rq_cost_def g K lam r' n'.
Proof. exact (fz_optimal g K lam s). Qed.

(* termination (so (2) is not vacuous): if g exceeds the cost of the starting pair (s-1, 1) at distance >= B from s,
   the loop returns within 2B passes *)
Theorem C14_fz_terminates (g : Z -> Q) (K lam : Q) (s : Z) : unimodal g s -> forall B : nat,
  (forall y, (y <= s - Z.of_nat B \/ s + Z.of_nat B <= y)%Z -> rq_cost_def g K lam (s - 1) 1 < g y) ->
  forall fuel, (1 <= B)%nat -> (2 * B <= fuel + 1)%nat -> fz g K lam fuel s <> None.
Proof. exact (fz_terminates g K lam s). Qed.

(* (3) the only property of the Poisson newsvendor cost that is used: the difference identity
   g(y+1) - g(y) = (h+p) F(y) - p with F non-decreasing makes g unimodal with minimiser the S found by the
   implementation's loop  S = 0; while F(S) < p/(p+h): S += 1 *)
Theorem C14_poisson_g_unimodal (g F : Z -> Q) (h p : Q) fuel s : 0 < h -> 0 < p ->
  (forall y, g (y + 1)%Z - g y == (h + p) * F y - p) -> (forall y, F y <= F (y + 1)%Z) ->
  (forall y, (y < 0)%Z -> F y < p / (p + h)) ->
  find_S F (p / (p + h)) fuel 0%Z = Some s -> unimodal g s.
Proof. exact (poisson_g_unimodal g F h p fuel s). Qed.

(* (2)+(3) for the entry point r_q_poisson_exact incl. guards *)
Theorem C14_poisson_exact_optimal (F g : Z -> Q) (h p K lam L : Q) fuel r n c :
  (forall y, g (y + 1)%Z - g y == (h + p) * F y - p) -> (forall y, F y <= F (y + 1)%Z) ->
  (forall y, (y < 0)%Z -> F y == 0) ->
  r_q_poisson_exact F g h p K lam L fuel = Ok (r, n, c) ->
  (1 <= n)%nat /\ c == rq_cost_def g K lam r n /\ forall r' n', (1 <= n')%nat -> c <= rq_cost_def g K lam r' n'.
Proof. exact (r_q_poisson_exact_optimal F g h p K lam L fuel r n c). Qed.

(* (4) normal demand: r_q_cost = (K lam + I)/Q with I the number integrate.quad returned (quadrature itself: oracle) *)
Theorem C14_normal_cost_def I Qn h p K lam sd L : 0 < Qn -> 0 < h -> 0 < p -> 0 < K -> 0 < lam -> 0 < sd -> 0 < L ->
  r_q_cost I Qn h p K lam sd L = Ok ((K * lam + I) / Qn).
Proof. exact (rq_cost_def_normal I Qn h p K lam sd L). Qed.

(* (5) r_q_optimal_r_for_q: on exit the newsvendor cost is equalised within tol and r lies in [S - 5Q, S] *)
Theorem C14_r_for_q_exit gn Qn tol fuel s r : 0 <= Qn -> r_for_q gn Qn tol fuel s = Some r ->
  - tol <= gn r - gn (r + Qn) <= tol /\ s - 5 * Qn <= r <= s.
Proof. exact (r_for_q_exit gn Qn tol fuel s r). Qed.

(* ... and equalisation up to the tolerance minimises the cost over r up to tol x the distance (Alg/RQTol_proofs.v).
   The clause as first stated here (for EVERY quasi-convex g, with no condition on the returned r) is FALSE: the bisection
   keeps only s - 5Q <= r <= s and exits as soon as |g(r) - g(r+Q)| <= tol, so on a g that is flat (within tol) on a window left
   of s it stops there (C14_r_for_q_minimises_as_first_stated_is_false, witness g = 0 on (-oo,-1], -1 after; s = 0; Q = 1).
   It is TRUE (a) whenever the returned r brackets the minimiser (s <= r + Q), which C14_r_for_q_bracket guarantees when the gap
   g(x) - g(x+Q) exceeds tol for every window left of s; and (b) unconditionally when g is convex, which is the case the
   property is about (g = newsvendor cost of the lead-time demand). *)
Theorem C14_r_for_q_minimises_bracketing : forall (g G : Q -> Q) (s tol : Q),
  (forall x y, x <= y -> y <= s -> g y <= g x) -> (forall x y, s <= x -> x <= y -> g x <= g y) ->
  (forall a b m, a <= b -> (forall x, a <= x <= b -> m <= g x) -> m * (b - a) <= G b - G a) ->
  (forall a b m, a <= b -> (forall x, a <= x <= b -> g x <= m) -> G b - G a <= m * (b - a)) ->
  forall fuel Qn r, 0 < Qn -> r_for_q g Qn tol fuel s = Some r -> s <= r + Qn ->
  forall r', G (r + Qn) - G r <= G (r' + Qn) - G r' + tol * qabs (r' - r).
Proof. exact r_for_q_minimises_corrected. Qed.
Theorem C14_r_for_q_minimises_convex : forall (g G : Q -> Q) (s tol : Q),
  (forall x y, x <= y -> y <= s -> g y <= g x) -> (forall x y, s <= x -> x <= y -> g x <= g y) ->
  (forall a b m, a <= b -> (forall x, a <= x <= b -> m <= g x) -> m * (b - a) <= G b - G a) ->
  (forall a b m, a <= b -> (forall x, a <= x <= b -> g x <= m) -> G b - G a <= m * (b - a)) ->
  (forall x y t, 0 <= t <= 1 -> g (t * x + (1 - t) * y) <= t * g x + (1 - t) * g y) ->
  forall fuel Qn r, 0 < Qn -> r_for_q g Qn tol fuel s = Some r ->
  forall r', G (r + Qn) - G r <= G (r' + Qn) - G r' + tol * qabs (r' - r).
Proof. exact r_for_q_minimises_convex. Qed.
Theorem C14_r_for_q_bracket : forall gn Qn tol fuel s r, 0 <= Qn ->
  (forall x, s - 5 * Qn <= x -> x + Qn < s -> tol < gn x - gn (x + Qn)) ->
  r_for_q gn Qn tol fuel s = Some r -> r <= s <= r + Qn.
Proof. exact r_for_q_bracket. Qed.
Theorem C14_r_for_q_minimises_as_first_stated_is_false : ~ (forall (g G : Q -> Q) (s tol : Q),
  (forall x y, x <= y -> y <= s -> g y <= g x) -> (forall x y, s <= x -> x <= y -> g x <= g y) ->
  (forall a b m, a <= b -> (forall x, a <= x <= b -> m <= g x) -> m * (b - a) <= G b - G a) ->
  (forall a b m, a <= b -> (forall x, a <= x <= b -> g x <= m) -> G b - G a <= m * (b - a)) ->
  forall fuel Qn r, 0 < Qn -> r_for_q g Qn tol fuel s = Some r ->
  forall r', G (r + Qn) - G r <= G (r' + Qn) - G r' + tol * qabs (r' - r)).
Proof. exact r_for_q_minimises_statement_refuted. Qed.
Theorem C14_r_for_q_minimises_partial (g G : Q -> Q) (s : Q) :
  (forall x y, x <= y -> y <= s -> g y <= g x) -> (forall x y, s <= x -> x <= y -> g x <= g y) ->
  (forall a b m, a <= b -> (forall x, a <= x <= b -> m <= g x) -> m * (b - a) <= G b - G a) ->
  (forall a b m, a <= b -> (forall x, a <= x <= b -> g x <= m) -> G b - G a <= m * (b - a)) ->
  forall r Qn, 0 < Qn -> r <= s <= r + Qn -> g r == g (r + Qn) ->
  forall r', G (r + Qn) - G r <= G (r' + Qn) - G r'.
Proof. exact (r_for_q_minimises_exact g G s). Qed.

(* (5c) TERMINATION of the bisection (no fuel hypothesis left): for a one-period cost that is Lipschitz with constant Lc
   (the newsvendor cost is, with Lc = max(h,p)) and an initial bracket with the signs the code relies on, every fuel with
   Lc * 5Q <= 2^fuel * tol suffices: the while-loop exits after at most ceil(log2(5 Q Lc / tol)) halvings, at a point of
   [S - 5Q, S] whose gap is within the tolerance. A convex cost minimised at S has those signs. *)
Theorem C14_r_for_q_terminates : forall (g : Q -> Q) (Qn tol Lc : Q),
  (forall x y, qabs (g x - g y) <= Lc * qabs (x - y)) ->
  forall fuel s, 0 <= Qn -> g (s - 4 * Qn) <= g (s - 5 * Qn) -> g s <= g (s + Qn) ->
  Lc * (5 * Qn) <= inject_Z (2 ^ Z.of_nat fuel) * tol ->
  exists r, r_for_q g Qn tol fuel s = Some r.
Proof. exact r_for_q_terminates. Qed.
Theorem C14_r_for_q_total : forall (g : Q -> Q) (Qn tol Lc : Q),
  (forall x y, qabs (g x - g y) <= Lc * qabs (x - y)) ->
  forall fuel s, 0 <= Qn -> g (s - 4 * Qn) <= g (s - 5 * Qn) -> g s <= g (s + Qn) ->
  Lc * (5 * Qn) <= inject_Z (2 ^ Z.of_nat fuel) * tol ->
  exists r, r_for_q g Qn tol fuel s = Some r /\ - tol <= g r - g (r + Qn) <= tol /\ s - 5 * Qn <= r <= s.
Proof. exact r_for_q_total. Qed.
Theorem C14_r_for_q_terminates_any_larger_fuel : forall (g : Q -> Q) (Qn tol Lc : Q),
  (forall x y, qabs (g x - g y) <= Lc * qabs (x - y)) ->
  forall fuel0 fuel s, 0 <= Qn -> 0 <= tol -> (fuel0 <= fuel)%nat ->
  g (s - 4 * Qn) <= g (s - 5 * Qn) -> g s <= g (s + Qn) ->
  Lc * (5 * Qn) <= inject_Z (2 ^ Z.of_nat fuel0) * tol ->
  exists r, r_for_q g Qn tol fuel s = Some r.
Proof. exact r_for_q_terminates_any. Qed.
Theorem C14_convex_cost_has_bracket_signs : forall (g : Q -> Q) (s Qn : Q), 0 <= Qn ->
  (forall x, g s <= g x) ->
  (forall a b c, a <= b -> b <= c -> a < c -> (c - a) * g b <= (c - b) * g a + (b - a) * g c) ->
  g (s - 4 * Qn) <= g (s - 5 * Qn) /\ g s <= g (s + Qn).
Proof. exact convex_min_signs. Qed.
(* non-vacuity: g = |x| (1-Lipschitz, convex, minimised at 0), Q = 1, tol = 1/1000: the bound asks for 13 halvings and the run
   with fuel 13 returns; with tol = 0 the loop of the model runs out of every fuel tried (so a positive tolerance is needed) *)
Example C14_termination_example :
  1 * (5 * 1) <= inject_Z (2 ^ Z.of_nat 13) * (1 # 1000) /\ (exists r, r_for_q gabs 1 (1 # 1000) 13 0 = Some r) /\
  forallb (fun f => match r_for_q gthird 1 0 f (1 # 3) with None => true | Some _ => false end) (seq 0 10) = true.
Proof. split; [exact term_bound_example|split; [exact term_example|exact tol_zero_runs_out]]. Qed.

(* (6) approximations: each returned pair solves its defining equations (Q-equation exactly in squared form, r-equation
   for a Q' within tol of the returned Q); sqrtf, ppf, n1, n2, solve are the library functions as inputs *)
Section Approx.
Variables (sqrtf ppf n1 n2 : Q -> Q) (solve : Q -> Q -> Q) (h p K lam mu tol : Q).
Hypothesis sqrt_sq : forall x, 0 <= x -> sqrtf x * sqrtf x == x.
Hypothesis Hh : 0 < h.
Hypothesis Hp : 0 < p.

Theorem C14_eil_fixed_point fuel r Qn c : r_q_eil sqrtf ppf n1 h p K lam mu tol fuel = Some (r, Qn, c) ->
  0 <= 2 * lam * (K + p * n1 r) / h ->
  h * (Qn * Qn) == 2 * lam * (K + p * n1 r) /\
  (exists Qp, - tol <= Qn - Qp <= tol /\ r = ppf (1 - Qp * h / (p * lam))) /\
  c = h * (r - mu + Qn / 2) + K * lam / Qn + p * lam * n1 r / Qn.
Proof. exact (eil_fixed_point sqrtf ppf n1 h p K lam mu tol sqrt_sq Hh fuel r Qn c). Qed.

Theorem C14_lossfn_fixed_point eps fuel r Qn :
  (forall rhs x0, - eps <= n1 (solve rhs x0) - rhs <= eps) ->
  r_q_lossfn sqrtf n2 solve h p K lam tol fuel = Some (r, Qn) ->
  0 <= 2 * (K * lam + (h + p) * n2 r) / h ->
  h * (Qn * Qn) == 2 * (K * lam + (h + p) * n2 r) /\
  exists Qp, - tol <= Qn - Qp <= tol /\ - eps <= n1 r - h * Qp / (h + p) <= eps.
Proof. exact (lossfn_fixed_point sqrtf n1 n2 solve h p K lam tol sqrt_sq Hh eps fuel r Qn). Qed.

Theorem C14_eoqb gn s fuel r Qn : 0 <= K -> 0 <= lam ->
  r_q_eoqb sqrtf h p K lam gn s fuel = Some (r, Qn) ->
  h * p * (Qn * Qn) == 2 * K * lam * (h + p) /\
  (0 <= Qn -> - (1 / 1000000) <= gn r - gn (r + Qn) <= 1 / 1000000 /\ s - 5 * Qn <= r <= s).
Proof. exact (eoqb_composition sqrtf h p K lam sqrt_sq Hh Hp gn s fuel r Qn). Qed.

Theorem C14_eoqss : 0 <= K -> 0 <= lam ->
  let '(r, Qn) := r_q_eoqss sqrtf ppf h p K lam in
  h * (Qn * Qn) == 2 * K * lam /\ r = ppf (p / (p + h)).
Proof. exact (eoqss_composition sqrtf ppf h p K lam sqrt_sq Hh). Qed.
End Approx.

(* non-vacuity: g y = |y - 3| is unimodal with minimiser 3; with K lam = 10 the loop returns r = -1, Q = 7, cost 22/7,
   strictly better than its neighbours Q = 6 and Q = 8; the termination hypothesis holds with B = 11 *)
Example C14_nonvacuous :
  let g := fun y : Z => inject_Z (Z.abs (y - 3)) in
  unimodal g 3 /\
  (exists c, fz g 10 1 21 3 = Some ((-1)%Z, 7%nat, c) /\ c == 22 # 7) /\
  rq_cost_def g 10 1 0 6 == 19 # 6 /\ rq_cost_def g 10 1 (-1) 8 == 13 # 4 /\
  (forall y, (y <= 3 - Z.of_nat 11 \/ 3 + Z.of_nat 11 <= y)%Z -> rq_cost_def g 10 1 (3 - 1) 1 < g y).
Proof.
  cbv zeta. split; [|split; [|split; [|split]]].
  - split; intros y Hy; rewrite <- Zle_Qle; lia.
  - eexists. split; [vm_compute; reflexivity | vm_compute; reflexivity].
  - vm_compute. reflexivity.
  - vm_compute. reflexivity.
  - intros y Hy. assert (E : rq_cost_def (fun y : Z => inject_Z (Z.abs (y - 3))) 10 1 (3 - 1) 1 == inject_Z 10) by (vm_compute; reflexivity).
    rewrite E. rewrite <- Zlt_Qlt. lia.
Qed.

(* non-vacuity of the Poisson hypotheses (3): a degenerate demand (cdf = step at 0), h = 2, p = 3 *)
Example C14_nonvacuous_identity :
  let F := fun y : Z => if (y <? 0)%Z then 0 else 1 in
  let g := fun y : Z => if (y <? 0)%Z then - (3) * inject_Z y else 2 * inject_Z y in
  (forall y, g (y + 1)%Z - g y == (2 + 3) * F y - 3) /\ (forall y, F y <= F (y + 1)%Z) /\
  (forall y, (y < 0)%Z -> F y == 0) /\ find_S F (3 / (3 + 2)) 5 0%Z = Some 0%Z.
Proof.
  cbv zeta. split; [|split; [|split]].
  - intros y. destruct (Z.ltb_spec (y + 1) 0), (Z.ltb_spec y 0); try lia; rewrite ?inject_Z_plus; change (inject_Z 1) with 1; try lra.
    assert (y = -1)%Z by lia. subst y. vm_compute. reflexivity.
  - intros y. destruct (Z.ltb_spec (y + 1) 0), (Z.ltb_spec y 0); try lia; lra.
  - intros y Hy. destruct (Z.ltb_spec y 0); [lra|lia].
  - vm_compute. reflexivity.
Qed.

Print Assumptions C14_poisson_cost_def.
Print Assumptions C14_poisson_cost_guarded.
Print Assumptions C14_fz_optimal.
Print Assumptions C14_fz_terminates.
Print Assumptions C14_poisson_g_unimodal.
Print Assumptions C14_poisson_exact_optimal.
Print Assumptions C14_normal_cost_def.
Print Assumptions C14_r_for_q_exit.
Print Assumptions C14_r_for_q_minimises_bracketing.
Print Assumptions C14_r_for_q_minimises_convex.
Print Assumptions C14_r_for_q_bracket.
Print Assumptions C14_r_for_q_minimises_as_first_stated_is_false.
Print Assumptions C14_r_for_q_minimises_partial.
Print Assumptions C14_r_for_q_terminates.
Print Assumptions C14_r_for_q_total.
Print Assumptions C14_r_for_q_terminates_any_larger_fuel.
Print Assumptions C14_convex_cost_has_bracket_signs.
Print Assumptions C14_eil_fixed_point.
Print Assumptions C14_lossfn_fixed_point.
Print Assumptions C14_eoqb.
Print Assumptions C14_eoqss.
