(* C14 — (r,Q) evaluators equal their definitions and the Poisson (Federgruen-Zheng) algorithm is optimal.
   Statements only; every proof is [exact <lemma of Alg/RQ_proofs.v, RQTol_proofs.v, RQTerm_proofs.v, RQ_witnesses.v or (second part: the
   source-generated terms gen/Gen_rq.v, gen/Gen_ss.v over the reals; axioms listed by Print Assumptions) RQGen_proofs.v, SqrtQ_proofs.v>].
   Model: Alg/RQ.v. g : Z -> Q is the newsvendor cost (newsvendor_poisson_cost as a function of the base-stock
   level), F the Poisson cdf, both inputs; K lam = fixed_cost * demand_mean.
   rq_cost_def g K lam r n = (K lam + sum_{y=r+1}^{r+n} g y) / n  is the documented cost (5.48). *)
From SV Require Import Base.Qx Alg.RQ Alg.RQ_proofs Alg.RQTol_proofs Alg.RQTerm_proofs.
From Coq Require Import Qround.
From SV Require Import Alg.RQ_witnesses.

(* (1) r_q_cost_poisson (accumulation loop as written) equals the documented sum, also through the guards *)
Theorem C14_poisson_cost_def g K lam r n : rq_cost_poisson g K lam r n == rq_cost_def g K lam r n.
Proof. exact (rq_poisson_cost_def g K lam r n). Qed.
Theorem C14_poisson_cost_guarded g r Qz h p K lam L :
  (0 < Qz)%Z -> 0 < h -> 0 < p -> 0 < K -> 0 <= lam -> 0 <= L -> 0 < lam * L ->
  exists c, r_q_cost_poisson g r Qz h p K lam L = Ok c /\ c == rq_cost_def g K lam r (Z.to_nat Qz).
Proof. exact (r_q_cost_poisson_ok g r Qz h p K lam L). Qed.

(* (2) MAIN: for every g that is unimodal with minimiser s (non-increasing up to s, non-decreasing from s on), whatever
   the Federgruen-Zheng loop started at s returns is a pair (r, Q = n >= 1) whose reported cost is that pair's cost and is
   minimal over ALL integers r' and all Q' >= 1; the returned window r+1..r+Q contains s. (No sign condition on K lam.) *)
Theorem C14_fz_optimal (g : Z -> Q) (K lam : Q) (s : Z) : unimodal g s ->
  forall fuel r n c, fz g K lam fuel s = Some (r, n, c) ->
  (1 <= n)%nat /\ (r + 1 <= s <= r + Z.of_nat n)%Z /\ c == rq_cost_def g K lam r n /\
  forall r' n', (1 <= n')%nat -> c <= rq_cost_def g K lam r' n'.
Proof. exact (fz_optimal g K lam s). Qed.

(* termination (so (2) is not vacuous): if g exceeds the cost of the starting pair (s-1, 1) at distance >= B from s,
   the loop returns within 2B passes *)
Theorem C14_fz_terminates (g : Z -> Q) (K lam : Q) (s : Z) : unimodal g s -> forall B : nat,
  (forall y, (y <= s - Z.of_nat B \/ s + Z.of_nat B <= y)%Z -> rq_cost_def g K lam (s - 1) 1 < g y) ->
  forall fuel, (1 <= B)%nat -> (2 * B <= fuel + 1)%nat -> fz g K lam fuel s <> None.
Proof. exact (fz_terminates g K lam s). Qed.

(* (3) the only property of the Poisson newsvendor cost that is used: the difference identity
   g(y+1) - g(y) = (h+p) F(y) - p with F non-decreasing makes g unimodal with minimiser the S found by the
   implementation's loop  S = 0; while F(S) < p/(p+h): S += 1 *)
Theorem C14_poisson_g_unimodal (g F : Z -> Q) (h p : Q) fuel s : 0 < h -> 0 < p ->
  (forall y, g (y + 1)%Z - g y == (h + p) * F y - p) -> (forall y, F y <= F (y + 1)%Z) ->
  (forall y, (y < 0)%Z -> F y < p / (p + h)) ->
  find_S F (p / (p + h)) fuel 0%Z = Some s -> unimodal g s.
Proof. exact (poisson_g_unimodal g F h p fuel s). Qed.

(* (2)+(3) for the entry point r_q_poisson_exact incl. guards *)
Theorem C14_poisson_exact_optimal (F g : Z -> Q) (h p K lam L : Q) fuel r n c :
  (forall y, g (y + 1)%Z - g y == (h + p) * F y - p) -> (forall y, F y <= F (y + 1)%Z) ->
  (forall y, (y < 0)%Z -> F y == 0) ->
  r_q_poisson_exact F g h p K lam L fuel = Ok (r, n, c) ->
  (1 <= n)%nat /\ c == rq_cost_def g K lam r n /\ forall r' n', (1 <= n')%nat -> c <= rq_cost_def g K lam r' n'.
Proof. exact (r_q_poisson_exact_optimal F g h p K lam L fuel r n c). Qed.

(* (4) normal demand: r_q_cost = (K lam + I)/Q with I the number integrate.quad returned (quadrature itself: oracle) *)
Theorem C14_normal_cost_def I Qn h p K lam sd L : 0 < Qn -> 0 < h -> 0 < p -> 0 < K -> 0 < lam -> 0 < sd -> 0 < L ->
  r_q_cost I Qn h p K lam sd L = Ok ((K * lam + I) / Qn).
Proof. exact (rq_cost_def_normal I Qn h p K lam sd L). Qed.

(* (5) r_q_optimal_r_for_q: on exit the newsvendor cost is equalised within tol and r lies in [S - 5Q, S] *)
Theorem C14_r_for_q_exit gn Qn tol fuel s r : 0 <= Qn -> r_for_q gn Qn tol fuel s = Some r ->
  - tol <= gn r - gn (r + Qn) <= tol /\ s - 5 * Qn <= r <= s.
Proof. exact (r_for_q_exit gn Qn tol fuel s r). Qed.

(* ... and equalisation up to the tolerance minimises the cost over r up to tol x the distance (Alg/RQTol_proofs.v).
   The clause as first stated here (for EVERY quasi-convex g, with no condition on the returned r) is FALSE: the bisection
   keeps only s - 5Q <= r <= s and exits as soon as |g(r) - g(r+Q)| <= tol, so on a g that is flat (within tol) on a window left
   of s it stops there (C14_r_for_q_minimises_as_first_stated_is_false, witness g = 0 on (-oo,-1], -1 after; s = 0; Q = 1).
   It is TRUE (a) whenever the returned r brackets the minimiser (s <= r + Q), which C14_r_for_q_bracket guarantees when the gap
   g(x) - g(x+Q) exceeds tol for every window left of s; and (b) unconditionally when g is convex, which is the case the
   property is about (g = newsvendor cost of the lead-time demand). *)
Theorem C14_r_for_q_minimises_bracketing : forall (g G : Q -> Q) (s tol : Q),
  (forall x y, x <= y -> y <= s -> g y <= g x) -> (forall x y, s <= x -> x <= y -> g x <= g y) ->
  (forall a b m, a <= b -> (forall x, a <= x <= b -> m <= g x) -> m * (b - a) <= G b - G a) ->
  (forall a b m, a <= b -> (forall x, a <= x <= b -> g x <= m) -> G b - G a <= m * (b - a)) ->
  forall fuel Qn r, 0 < Qn -> r_for_q g Qn tol fuel s = Some r -> s <= r + Qn ->
  forall r', G (r + Qn) - G r <= G (r' + Qn) - G r' + tol * qabs (r' - r).
Proof. exact r_for_q_minimises_corrected. Qed.
Theorem C14_r_for_q_minimises_convex : forall (g G : Q -> Q) (s tol : Q),
  (forall x y, x <= y -> y <= s -> g y <= g x) -> (forall x y, s <= x -> x <= y -> g x <= g y) ->
  (forall a b m, a <= b -> (forall x, a <= x <= b -> m <= g x) -> m * (b - a) <= G b - G a) ->
  (forall a b m, a <= b -> (forall x, a <= x <= b -> g x <= m) -> G b - G a <= m * (b - a)) ->
  (forall x y t, 0 <= t <= 1 -> g (t * x + (1 - t) * y) <= t * g x + (1 - t) * g y) ->
  forall fuel Qn r, 0 < Qn -> r_for_q g Qn tol fuel s = Some r ->
  forall r', G (r + Qn) - G r <= G (r' + Qn) - G r' + tol * qabs (r' - r).
Proof. exact r_for_q_minimises_convex. Qed.
Theorem C14_r_for_q_bracket : forall gn Qn tol fuel s r, 0 <= Qn ->
  (forall x, s - 5 * Qn <= x -> x + Qn < s -> tol < gn x - gn (x + Qn)) ->
  r_for_q gn Qn tol fuel s = Some r -> r <= s <= r + Qn.
Proof. exact r_for_q_bracket. Qed.
Theorem C14_r_for_q_minimises_as_first_stated_is_false : ~ (forall (g G : Q -> Q) (s tol : Q),
  (forall x y, x <= y -> y <= s -> g y <= g x) -> (forall x y, s <= x -> x <= y -> g x <= g y) ->
  (forall a b m, a <= b -> (forall x, a <= x <= b -> m <= g x) -> m * (b - a) <= G b - G a) ->
  (forall a b m, a <= b -> (forall x, a <= x <= b -> g x <= m) -> G b - G a <= m * (b - a)) ->
  forall fuel Qn r, 0 < Qn -> r_for_q g Qn tol fuel s = Some r ->
  forall r', G (r + Qn) - G r <= G (r' + Qn) - G r' + tol * qabs (r' - r)).
Proof. exact r_for_q_minimises_statement_refuted. Qed.
Theorem C14_r_for_q_minimises_partial (g G : Q -> Q) (s : Q) :
  (forall x y, x <= y -> y <= s -> g y <= g x) -> (forall x y, s <= x -> x <= y -> g x <= g y) ->
  (forall a b m, a <= b -> (forall x, a <= x <= b -> m <= g x) -> m * (b - a) <= G b - G a) ->
  (forall a b m, a <= b -> (forall x, a <= x <= b -> g x <= m) -> G b - G a <= m * (b - a)) ->
  forall r Qn, 0 < Qn -> r <= s <= r + Qn -> g r == g (r + Qn) ->
  forall r', G (r + Qn) - G r <= G (r' + Qn) - G r'.
Proof. exact (r_for_q_minimises_exact g G s). Qed.

(* (5c) TERMINATION of the bisection (no fuel hypothesis left): for a one-period cost that is Lipschitz with constant Lc
   (the newsvendor cost is, with Lc = max(h,p)) and an initial bracket with the signs the code relies on, every fuel with
   Lc * 5Q <= 2^fuel * tol suffices: the while-loop exits after at most ceil(log2(5 Q Lc / tol)) halvings, at a point of
   [S - 5Q, S] whose gap is within the tolerance. A convex cost minimised at S has those signs. *)
Theorem C14_r_for_q_terminates : forall (g : Q -> Q) (Qn tol Lc : Q),
  (forall x y, qabs (g x - g y) <= Lc * qabs (x - y)) ->
  forall fuel s, 0 <= Qn -> g (s - 4 * Qn) <= g (s - 5 * Qn) -> g s <= g (s + Qn) ->
  Lc * (5 * Qn) <= inject_Z (2 ^ Z.of_nat fuel) * tol ->
  exists r, r_for_q g Qn tol fuel s = Some r.
Proof. exact r_for_q_terminates. Qed.
Theorem C14_r_for_q_total : forall (g : Q -> Q) (Qn tol Lc : Q),
  (forall x y, qabs (g x - g y) <= Lc * qabs (x - y)) ->
  forall fuel s, 0 <= Qn -> g (s - 4 * Qn) <= g (s - 5 * Qn) -> g s <= g (s + Qn) ->
  Lc * (5 * Qn) <= inject_Z (2 ^ Z.of_nat fuel) * tol ->
  exists r, r_for_q g Qn tol fuel s = Some r /\ - tol <= g r - g (r + Qn) <= tol /\ s - 5 * Qn <= r <= s.
Proof. exact r_for_q_total. Qed.
Theorem C14_r_for_q_terminates_any_larger_fuel : forall (g : Q -> Q) (Qn tol Lc : Q),
  (forall x y, qabs (g x - g y) <= Lc * qabs (x - y)) ->
  forall fuel0 fuel s, 0 <= Qn -> 0 <= tol -> (fuel0 <= fuel)%nat ->
  g (s - 4 * Qn) <= g (s - 5 * Qn) -> g s <= g (s + Qn) ->
  Lc * (5 * Qn) <= inject_Z (2 ^ Z.of_nat fuel0) * tol ->
  exists r, r_for_q g Qn tol fuel s = Some r.
Proof. exact r_for_q_terminates_any. Qed.
Theorem C14_convex_cost_has_bracket_signs : forall (g : Q -> Q) (s Qn : Q), 0 <= Qn ->
  (forall x, g s <= g x) ->
  (forall a b c, a <= b -> b <= c -> a < c -> (c - a) * g b <= (c - b) * g a + (b - a) * g c) ->
  g (s - 4 * Qn) <= g (s - 5 * Qn) /\ g s <= g (s + Qn).
Proof. exact convex_min_signs. Qed.
(* non-vacuity: g = |x| (1-Lipschitz, convex, minimised at 0), Q = 1, tol = 1/1000: the bound asks for 13 halvings and the run
   with fuel 13 returns; with tol = 0 the loop of the model runs out of every fuel tried (so a positive tolerance is needed) *)
Example C14_termination_example :
  1 * (5 * 1) <= inject_Z (2 ^ Z.of_nat 13) * (1 # 1000) /\ (exists r, r_for_q gabs 1 (1 # 1000) 13 0 = Some r) /\
  forallb (fun f => match r_for_q gthird 1 0 f (1 # 3) with None => true | Some _ => false end) (seq 0 10) = true.
Proof. split; [exact term_bound_example|split; [exact term_example|exact tol_zero_runs_out]]. Qed.

(* (6) approximations: each returned pair solves its defining equations (Q-equation exactly in squared form, r-equation
   for a Q' within tol of the returned Q); sqrtf, ppf, n1, n2, solve are the library functions as inputs *)
Section Approx.
Variables (sqrtf ppf n1 n2 : Q -> Q) (solve : Q -> Q -> Q) (h p K lam mu tol : Q).
Hypothesis Hh : 0 < h.
Hypothesis Hp : 0 < p.
(* math.sqrt is an input sqrtf : Q -> Q. NOTHING global is assumed about it: an earlier version of this section assumed
   forall x >= 0, sqrtf x * sqrtf x == x, which no function Q -> Q satisfies (2 has no rational square root), so its theorems were
   vacuous (found by the translator work, see C14_gen_* below, stated over the reals without such a hypothesis). Each theorem now takes
   the squaring error se of sqrtf at the ONE argument X the code passes to it (- se <= sqrtf X * sqrtf X - X <= se: se = 0 for a
   perfect square, ~2^-52 X for the binary64 square root) and bounds the residual of the Q-equation by it. *)

Theorem C14_eil_fixed_point se fuel r Qn c : r_q_eil sqrtf ppf n1 h p K lam mu tol fuel = Some (r, Qn, c) ->
  (let X := 2 * lam * (K + p * n1 r) / h in - se <= sqrtf X * sqrtf X - X <= se) ->
  - (h * se) <= h * (Qn * Qn) - 2 * lam * (K + p * n1 r) <= h * se /\
  (exists Qp, - tol <= Qn - Qp <= tol /\ r = ppf (1 - Qp * h / (p * lam))) /\
  c = h * (r - mu + Qn / 2) + K * lam / Qn + p * lam * n1 r / Qn.
Proof. exact (eil_fixed_point sqrtf ppf n1 h p K lam mu tol Hh se fuel r Qn c). Qed.

(* eps = residual of fsolve at the call that produced the returned r (only there: a residual bound for EVERY right-hand side, negative
   ones included, would be met by no non-negative loss function -- found by the vacuity audit) *)
Theorem C14_lossfn_fixed_point eps se fuel r Qn :
  (forall Qp rp, r = solve (h * Qp / (h + p)) rp -> - eps <= n1 r - h * Qp / (h + p) <= eps) ->
  r_q_lossfn sqrtf n2 solve h p K lam tol fuel = Some (r, Qn) ->
  (let X := 2 * (K * lam + (h + p) * n2 r) / h in - se <= sqrtf X * sqrtf X - X <= se) ->
  - (h * se) <= h * (Qn * Qn) - 2 * (K * lam + (h + p) * n2 r) <= h * se /\
  exists Qp, - tol <= Qn - Qp <= tol /\ - eps <= n1 r - h * Qp / (h + p) <= eps.
Proof. exact (lossfn_fixed_point sqrtf n1 n2 solve h p K lam tol Hh eps se fuel r Qn). Qed.

Theorem C14_eoqb se gn s fuel r Qn :
  (let X := 2 * K * lam * (h + p) / (h * p) in - se <= sqrtf X * sqrtf X - X <= se) ->
  r_q_eoqb sqrtf h p K lam gn s fuel = Some (r, Qn) ->
  - (h * p * se) <= h * p * (Qn * Qn) - 2 * K * lam * (h + p) <= h * p * se /\
  (0 <= Qn -> - (1 / 1000000) <= gn r - gn (r + Qn) <= 1 / 1000000 /\ s - 5 * Qn <= r <= s).
Proof. exact (eoqb_composition sqrtf h p K lam Hh Hp se gn s fuel r Qn). Qed.

Theorem C14_eoqss se :
  (let X := 2 * K * lam / h in - se <= sqrtf X * sqrtf X - X <= se) ->
  let '(r, Qn) := r_q_eoqss sqrtf ppf h p K lam in
  - (h * se) <= h * (Qn * Qn) - 2 * K * lam <= h * se /\ r = ppf (p / (p + h)).
Proof. exact (eoqss_composition sqrtf ppf h p K lam Hh se). Qed.
End Approx.

(* non-vacuity of (6): h = 2, K lam = 4 so that the EOQ argument X = 2 K lam / h = 4 is a perfect square; sqrtf is the table
   {4 -> 2} (0 elsewhere): the hypothesis holds with se = 0 and the conclusion is the exact Q-equation h Q^2 = 2 K lam;
   with sqrtf 4 := 2 + 1/1000 the hypothesis holds with se = 4001/1000000 and not with se = 0 *)
Example C14_approx_nonvacuous :
  let sq := fun x : Q => if Qeq_bool x 4 then 2 else 0 in
  let sq' := fun x : Q => if Qeq_bool x 4 then 2 + (1 # 1000) else 0 in
  (let X := 2 * 4 * 1 / 2 in - 0 <= sq X * sq X - X <= 0) /\
  (let '(r, Qn) := r_q_eoqss sq (fun x => x) 2 3 4 1 in Qn == 2 /\ 2 * (Qn * Qn) == 2 * 4 * 1) /\
  (let X := 2 * 4 * 1 / 2 in - (4001 # 1000000) <= sq' X * sq' X - X <= 4001 # 1000000) /\
  ~ (let X := 2 * 4 * 1 / 2 in - 0 <= sq' X * sq' X - X <= 0).
Proof.
  cbv zeta. split; [|split; [|split]].
  - vm_compute. split; discriminate.
  - vm_compute. split; reflexivity.
  - vm_compute. split; discriminate.
  - vm_compute. intros [_ H]. apply H. reflexivity.
Qed.

(* non-vacuity of the fixed-point theorems on RUNS that return (the loops iterate; sqrt is an inexact rational square root: five Newton
   steps rounded to 3 decimals): EIL with a positive r and Q; loss-function iteration with the exact root finder of the NON-NEGATIVE loss
   n1 r = 1/(1+r) (r > -1), whose pointwise residual hypothesis holds with eps = 0 *)
Definition ex_rnd (y : Q) : Q := Qred (inject_Z (Qfloor (y * 1000)) / 1000).
Definition ex_sqrt (x : Q) : Q :=
  let st := fun y => Qred ((y + x / y) / 2) in ex_rnd (st (st (st (st (st (Qred ((1 + x) / 2))))))).
Definition ex_ppf (a : Q) : Q := ex_rnd (10 * a).
Definition ex_n1 (r : Q) : Q := ex_rnd (/ (1 + r * r)).
Definition ex_n2 (r : Q) : Q := ex_rnd (/ (2 + r * r)).
Definition ex_loss (r : Q) : Q := / (1 + r).
Definition ex_solve (rhs x0 : Q) : Q := Qred (/ rhs - 1).
Example C14_fixed_point_runs_nonvacuous :
  (exists r Qn c, r_q_eil ex_sqrt ex_ppf ex_n1 2 3 4 10 5 (1 # 100) 20 = Some (r, Qn, c) /\ 0 < Qn /\ 0 < r /\
     (let X := 2 * 10 * (4 + 3 * ex_n1 r) / 2 in - (1 # 50) <= ex_sqrt X * ex_sqrt X - X <= 1 # 50)) /\
  (exists r Qn, r_q_lossfn ex_sqrt ex_n2 ex_solve 2 3 4 10 (1 # 100) 20 = Some (r, Qn) /\ 0 < Qn /\ 0 < ex_loss r /\
     (forall Qp rp, r = ex_solve (2 * Qp / (2 + 3)) rp -> - 0 <= ex_loss r - 2 * Qp / (2 + 3) <= 0) /\
     (let X := 2 * (4 * 10 + (2 + 3) * ex_n2 r) / 2 in - (1 # 50) <= ex_sqrt X * ex_sqrt X - X <= 1 # 50)).
Proof.
  split.
  - eexists _, _, _. split; [vm_compute; reflexivity|]. vm_compute. repeat split; discriminate.
  - eexists _, _. split; [vm_compute; reflexivity|]. split; [vm_compute; reflexivity|]. split; [vm_compute; reflexivity|]. split.
    + intros Qp rp E. rewrite E. unfold ex_loss, ex_solve. rewrite Qred_correct.
      assert (E1 : 1 + (/ (2 * Qp / (2 + 3)) - 1) == / (2 * Qp / (2 + 3))) by ring. rewrite E1, Qinv_involutive. lra.
    + vm_compute. split; discriminate.
Qed.

(* non-vacuity: g y = |y - 3| is unimodal with minimiser 3; with K lam = 10 the loop returns r = -1, Q = 7, cost 22/7,
   strictly better than its neighbours Q = 6 and Q = 8; the termination hypothesis holds with B = 11 *)
Example C14_nonvacuous :
  let g := fun y : Z => inject_Z (Z.abs (y - 3)) in
  unimodal g 3 /\
  (exists c, fz g 10 1 21 3 = Some ((-1)%Z, 7%nat, c) /\ c == 22 # 7) /\
  rq_cost_def g 10 1 0 6 == 19 # 6 /\ rq_cost_def g 10 1 (-1) 8 == 13 # 4 /\
  (forall y, (y <= 3 - Z.of_nat 11 \/ 3 + Z.of_nat 11 <= y)%Z -> rq_cost_def g 10 1 (3 - 1) 1 < g y).
Proof.
  cbv zeta. split; [|split; [|split; [|split]]].
  - split; intros y Hy; rewrite <- Zle_Qle; lia.
  - eexists. split; [vm_compute; reflexivity | vm_compute; reflexivity].
  - vm_compute. reflexivity.
  - vm_compute. reflexivity.
  - intros y Hy. assert (E : rq_cost_def (fun y : Z => inject_Z (Z.abs (y - 3))) 10 1 (3 - 1) 1 == inject_Z 10) by (vm_compute; reflexivity).
    rewrite E. rewrite <- Zlt_Qlt. lia.
Qed.

(* non-degenerate witness of the Poisson hypotheses (3): demand uniform on 0..3, h = 1, p = 4 (vacuity audit; Alg/RQ_witnesses.v): identity,
   monotone cdf, zero below the support, find_S = 3, and the exact algorithm returns a pair with Q > 1; and the loss-function solver
   hypothesis in its former global form is met by NO non-negative loss function *)
Example C14_nonvacuous_identity_nondegenerate :
  ((forall y, wg (y + 1)%Z - wg y == (1 + 4) * wF y - 4) /\ (forall y, wF y <= wF (y + 1)%Z) /\ (forall y, (y < 0)%Z -> wF y == 0) /\
   find_S wF (4 / (4 + 1)) 10 0%Z = Some 3%Z /\
   exists r n c, r_q_poisson_exact wF wg 1 4 5 2 1 30 = Ok (r, n, c) /\ (1 < n)%nat) /\
  (forall (n1 : Q -> Q) (solve : Q -> Q -> Q) (eps : Q), (forall r, 0 <= n1 r) -> ~ (forall rhs x0, - eps <= n1 (solve rhs x0) - rhs <= eps)).
Proof. split; [exact C14_poisson_exact_witness|exact lossfn_solver_hyp_unsat_for_nonneg_n1]. Qed.

(* non-vacuity of the Poisson hypotheses (3): a degenerate demand (cdf = step at 0), h = 2, p = 3 *)
Example C14_nonvacuous_identity :
  let F := fun y : Z => if (y <? 0)%Z then 0 else 1 in
  let g := fun y : Z => if (y <? 0)%Z then - (3) * inject_Z y else 2 * inject_Z y in
  (forall y, g (y + 1)%Z - g y == (2 + 3) * F y - 3) /\ (forall y, F y <= F (y + 1)%Z) /\
  (forall y, (y < 0)%Z -> F y == 0) /\ find_S F (3 / (3 + 2)) 5 0%Z = Some 0%Z.
Proof.
  cbv zeta. split; [|split; [|split]].
  - intros y. destruct (Z.ltb_spec (y + 1) 0), (Z.ltb_spec y 0); try lia; rewrite ?inject_Z_plus; change (inject_Z 1) with 1; try lra.
    assert (y = -1)%Z by lia. subst y. vm_compute. reflexivity.
  - intros y. destruct (Z.ltb_spec (y + 1) 0), (Z.ltb_spec y 0); try lia; lra.
  - intros y Hy. destruct (Z.ltb_spec y 0); [lra|lia].
  - vm_compute. reflexivity.
Qed.

Print Assumptions C14_poisson_cost_def.
Print Assumptions C14_poisson_cost_guarded.
Print Assumptions C14_fz_optimal.
Print Assumptions C14_fz_terminates.
Print Assumptions C14_poisson_g_unimodal.
Print Assumptions C14_poisson_exact_optimal.
Print Assumptions C14_normal_cost_def.
Print Assumptions C14_r_for_q_exit.
Print Assumptions C14_r_for_q_minimises_bracketing.
Print Assumptions C14_r_for_q_minimises_convex.
Print Assumptions C14_r_for_q_bracket.
Print Assumptions C14_r_for_q_minimises_as_first_stated_is_false.
Print Assumptions C14_r_for_q_minimises_partial.
Print Assumptions C14_r_for_q_terminates.
Print Assumptions C14_r_for_q_total.
Print Assumptions C14_r_for_q_terminates_any_larger_fuel.
Print Assumptions C14_convex_cost_has_bracket_signs.
Print Assumptions C14_eil_fixed_point.
Print Assumptions C14_lossfn_fixed_point.
Print Assumptions C14_eoqb.
Print Assumptions C14_eoqss.

(* ======================================================================================================================= *)
(* Property-level statements about the GENERATED terms of stockpyl.rq / stockpyl.ss (gen/Gen_rq.v, gen/Gen_ss.v, regenerated from the
   source by py/py2v.py on every run) at the reals.  To be appended to Props/C14.v (part A) and Props/C13.v (part B) after replacing
   `From WIP` by `From SV`; every proof is [exact <lemma of Alg/RQGen_proofs.v>].
   Conventions of the generated terms: loop-free functions return option (None = ValueError); functions with a while loop take a
   fuel and return option (option _): None = out of fuel, Some None = ValueError, Some (Some r) = returns r.
   norm.cdf / norm.pdf / norm.ppf are the fields of the oracle record o (Base/Ops.v); facts about them are Section hypotheses.
   Not modelled by the translator (excluded in the statements by 0 < demand_mean, 0 < demand_sd where it matters): Python's
   ZeroDivisionError (float division by zero) -- the real-number term divides by 0 = 0 there. *)
From SV Require Import Base.Ops gen.Gen_eoq gen.Gen_loss_functions gen.Gen_newsvendor Alg.ClosedForms_proofs Base.Qx Alg.RQ.
From SV Require Import gen.Gen_rq gen.Gen_ss Alg.RQGen_proofs Alg.SqrtQ_proofs.
From Coq Require Import Reals QArith Qreals.
Open Scope R_scope.

(* ====================================================================== part A: C14 (stockpyl.rq) *)

(* (6') EOQ+SS on the generated term.  Under the six documented guards and a non-degenerate lead-time demand it returns exactly
   r = norm.ppf(p/(p+h)) * sd sqrt(L) + lam L  and  Q = sqrt(2 K lam / h) *)
Theorem C14_gen_eoqss_def (o : Oracles R) (h p K lam sd L : R) :
  0 < h -> 0 < p -> 0 < K -> 0 <= lam -> 0 <= sd -> 0 <= L -> 0 < lam * L -> 0 < sd * sqrt L ->
  r_q_eoqss_approximation (ROps o) h p K lam sd L =
  Some (o_norm_ppf o (p / (p + h)) * (sd * sqrt L) + lam * L, sqrt (2 * K * lam / h)).
Proof. exact (eoqss_def o h p K lam sd L). Qed.

(* whatever it returns: the parameters passed all guards, Q is the translated economic_order_quantity, r the translated
   newsvendor_normal level for (h, p, mu = lam L, sigma = sd sqrt L) *)
Theorem C14_gen_eoqss_inv (o : Oracles R) (h p K lam sd L r Qn : R) :
  r_q_eoqss_approximation (ROps o) h p K lam sd L = Some (r, Qn) ->
  0 < h /\ 0 < p /\ 0 < K /\ 0 <= lam /\ 0 <= sd /\ 0 <= L /\ 0 < lam * L /\ 0 < sd * sqrt L /\
  (exists c, economic_order_quantity (ROps o) K h lam None = Some (Qn, c)) /\
  (exists c, newsvendor_normal (ROps o) h p (lam * L) (sd * sqrt L) 0 None = Some (r, c)) /\
  Qn = sqrt (2 * K * lam / h) /\ r = o_norm_ppf o (p / (p + h)) * (sd * sqrt L) + lam * L.
Proof. exact (eoqss_inv o h p K lam sd L r Qn). Qed.

(* ValueError <-> None, exactly: the six documented guards or the two raised by newsvendor_normal for the lead-time demand
   (lam L <= 0: "demand_mean must be positive"; sd sqrt L <= 0: "demand_sd must be positive") *)
Theorem C14_gen_eoqss_ValueError_iff (o : Oracles R) (h p K lam sd L : R) :
  r_q_eoqss_approximation (ROps o) h p K lam sd L = None <->
  (h <= 0 \/ p <= 0 \/ K <= 0 \/ lam < 0 \/ sd < 0 \/ L < 0 \/ lam * L <= 0 \/ sd * sqrt L <= 0).
Proof. exact (eoqss_None_iff o h p K lam sd L). Qed.

(* Q is the EOQ: positive, Q*Q*h = 2 K lam, and it minimises the translated EOQ cost over all order quantities *)
Theorem C14_gen_eoqss_Q_is_EOQ (o : Oracles R) (h p K lam sd L r Qn : R) :
  r_q_eoqss_approximation (ROps o) h p K lam sd L = Some (r, Qn) ->
  0 < Qn /\ Qn * Qn * h = 2 * K * lam /\
  forall y y' cy c, economic_order_quantity (ROps o) K h lam (Some y) = Some (y', cy) ->
                    economic_order_quantity (ROps o) K h lam (Some Qn) = Some (Qn, c) -> c <= cy.
Proof. exact (eoqss_Q_is_EOQ o h p K lam sd L r Qn). Qed.

(* r minimises the translated one-period newsvendor cost of the lead-time demand, relative to the four stated facts about
   scipy's norm.cdf/pdf/ppf (the same oracle hypotheses as Props/C10.v, Section Normal) *)
Theorem C14_gen_eoqss_r_optimal (o : Oracles R) :
  (forall z, derivable_pt_lim (o_norm_cdf o) z (o_norm_pdf o z)) ->
  (forall z, derivable_pt_lim (o_norm_pdf o) z (- z * o_norm_pdf o z)) ->
  (forall z, 0 <= o_norm_pdf o z) ->
  (forall a, 0 < a < 1 -> o_norm_cdf o (o_norm_ppf o a) = a) ->
  forall h p K lam sd L r Qn : R, r_q_eoqss_approximation (ROps o) h p K lam sd L = Some (r, Qn) ->
  exists c, newsvendor_normal_cost (ROps o) r h p (lam * L) (sd * sqrt L) 0 = Some c /\
  forall y cy, newsvendor_normal_cost (ROps o) y h p (lam * L) (sd * sqrt L) 0 = Some cy -> c <= cy.
Proof. exact (eoqss_r_optimal o). Qed.

(* refinement: on rational data the generated term returns the pair of the hand-written model Alg/RQ.v r_q_eoqss, provided the
   model's function arguments sqrtf / ppf agree with sqrt / norm.ppf(., mu, sigma) at the one point each is used *)
Theorem C14_gen_eoqss_refines_model (o : Oracles R) (sqrtf ppfq : Q -> Q) (h p K lam : Q) (sd L : R) :
  0 < Q2R h -> 0 < Q2R p -> 0 < Q2R K -> 0 <= Q2R lam -> 0 <= sd -> 0 <= L -> 0 < Q2R lam * L -> 0 < sd * sqrt L ->
  Q2R (sqrtf (2 * K * lam / h)%Q) = sqrt (Q2R (2 * K * lam / h)) ->
  Q2R (ppfq (p / (p + h))%Q) = o_norm_ppf o (Q2R (p / (p + h))) * (sd * sqrt L) + Q2R lam * L ->
  r_q_eoqss_approximation (ROps o) (Q2R h) (Q2R p) (Q2R K) (Q2R lam) sd L =
  (let '(r, Qq) := r_q_eoqss sqrtf ppfq h p K lam in Some (Q2R r, Q2R Qq)).
Proof. exact (eoqss_gen_refines o sqrtf ppfq h p K lam sd L). Qed.

(* (5') r_q_optimal_r_for_q on the generated term (the while loop is the generated Fixpoint r_q_optimal_r_for_q__loop1): for EVERY
   fuel, a returned r passed the guards, equalises the translated newsvendor cost at r and r + Q within tol and lies in [S - 5Q, S] *)
Theorem C14_gen_r_for_q_exit (o : Oracles R) (fuel : nat) (Qn h p lam sd L tol r : R) :
  r_q_optimal_r_for_q (ROps o) fuel Qn h p lam sd L tol = Some (Some r) ->
  0 < Qn /\ 0 < h /\ 0 < p /\ 0 <= lam /\ 0 <= sd /\ 0 <= L /\ 0 < lam * L /\ 0 < sd * sqrt L /\
  exists S c g gQ, newsvendor_normal (ROps o) h p (lam * L) (sd * sqrt L) 0 None = Some (S, c) /\
    S = o_norm_ppf o (p / (p + h)) * (sd * sqrt L) + lam * L /\
    newsvendor_normal_cost (ROps o) r h p (lam * L) (sd * sqrt L) 0 = Some g /\
    newsvendor_normal_cost (ROps o) (r + Qn) h p (lam * L) (sd * sqrt L) 0 = Some gQ /\
    Rabs (g - gQ) <= tol /\ S - 5 * Qn <= r <= S.
Proof. exact (r_for_q_gen_exit o fuel Qn h p lam sd L tol r). Qed.

(* ValueError (Some None) exactly on the guards, for every fuel: the loop itself raises nothing *)
Theorem C14_gen_r_for_q_ValueError_iff (o : Oracles R) (fuel : nat) (Qn h p lam sd L tol : R) :
  r_q_optimal_r_for_q (ROps o) fuel Qn h p lam sd L tol = Some None <->
  (Qn <= 0 \/ h <= 0 \/ p <= 0 \/ lam < 0 \/ sd < 0 \/ L < 0 \/ lam * L <= 0 \/ sd * sqrt L <= 0).
Proof. exact (r_for_q_gen_VErr_iff o fuel Qn h p lam sd L tol). Qed.

(* refinement: generated function = hand-written [r_for_q] of Alg/RQ.v at the same fuel (same r; out of fuel <-> out of fuel), with
   gn := the translated newsvendor_normal_cost on rationals and s := the translated newsvendor_normal level.  All theorems of this
   file about [r_for_q gn Qn tol fuel s] (C14_r_for_q_exit, _bracket, _minimises_*, _terminates, _total) thereby speak about the
   term generated from the source. *)
(* NOTE on satisfiability (vacuity audit): the hypothesis that the real newsvendor cost is RATIONAL at every rational argument (gn) holds for
   oracles whose values are rational (tabulated or floating-point-valued norm functions), not for the exact Gaussian ((h+p) sigma / sqrt(2 pi) is
   irrational at x = mu); for the exact Gaussian the statements that hold are the direct ones at R above (C14_gen_r_for_q_exit, _ValueError_iff). *)
Theorem C14_gen_r_for_q_refines_model (o : Oracles R) (gn : Q -> Q) (Qn tol s : Q) (h p lam sd L : R) (fuel : nat) :
  0 < Q2R Qn -> 0 <= lam -> 0 <= sd -> 0 <= L ->
  (exists c : R, newsvendor_normal (ROps o) h p (lam * L) (sd * sqrt L) 0 None = Some (Q2R s, c)) ->
  (forall x : Q, newsvendor_normal_cost (ROps o) (Q2R x) h p (lam * L) (sd * sqrt L) 0 = Some (Q2R (gn x))) ->
  r_q_optimal_r_for_q (ROps o) fuel (Q2R Qn) h p lam sd L (Q2R tol) =
  match r_for_q gn Qn tol fuel s with None => None | Some r => Some (Some (Q2R r)) end.
Proof. exact (r_for_q_gen_refines o gn Qn tol s h p lam sd L fuel). Qed.

(* EOQB on the generated term: Q is the EOQB quantity and r is what the generated r_q_optimal_r_for_q returns for it with
   tol = 1e-6 (so C14_gen_r_for_q_exit applies to r) *)
Theorem C14_gen_eoqb (o : Oracles R) (fuel : nat) (h p K lam sd L r Qn : R) :
  r_q_eoqb_approximation (ROps o) fuel h p K lam sd L = Some (Some (r, Qn)) ->
  0 < h /\ 0 < p /\ 0 < K /\ 0 <= lam /\ 0 <= sd /\ 0 <= L /\
  Qn = sqrt (2 * K * lam * (h + p) / (h * p)) /\ 0 <= Qn /\ h * p * (Qn * Qn) = 2 * K * lam * (h + p) /\
  r_q_optimal_r_for_q (ROps o) fuel Qn h p lam sd L (1 / 1000000) = Some (Some r).
Proof. exact (eoqb_gen_inv o fuel h p K lam sd L r Qn). Qed.

(* FINDING about Section Approx above (C14_eil_fixed_point, C14_lossfn_fixed_point, C14_eoqb, C14_eoqss): its hypothesis
   sqrt_sq : forall x, 0 <= x -> sqrtf x * sqrtf x == x  over  sqrtf : Q -> Q  has no model (no rational square root of 2), so those four
   theorems are vacuous as stated; the C14_gen_* theorems above are their non-vacuous counterparts on the generated terms (at the
   reals sqrt x * sqrt x = x is a theorem), and C14_gen_eoqss_refines_model needs the square root only at the argument used *)
Theorem C14_approx_sqrt_hypothesis_unsatisfiable :
  ~ exists sqrtf : Q -> Q, forall x : Q, (0 <= x)%Q -> (sqrtf x * sqrtf x == x)%Q.
Proof. exact no_rational_sqrt. Qed.

(* non-vacuity.  (a) h = p = 1, K = 2, lam = sd = L = 1: every oracle record gives Q = 2.
   (b) an oracle record and rational data satisfying all hypotheses of the refinement theorem, on which model and generated term
   return 15/2 (cdf = pdf = ppf = 0 makes the translated cost the rational function 10 - y; the gap 1 is within tol = 2 at once) *)
Example C14_gen_eoqss_nonvacuous (o : Oracles R) : exists r : R, r_q_eoqss_approximation (ROps o) 1 1 2 1 1 1 = Some (r, 2).
Proof. exact (eoqss_example o). Qed.
Example C14_gen_refines_nonvacuous :
  0 < Q2R 1 /\ (exists c : R, newsvendor_normal (ROps o_zero) 1 1 (10 * 1) (2 * sqrt 1) 0 None = Some (Q2R 10, c)) /\
  (forall x : Q, newsvendor_normal_cost (ROps o_zero) (Q2R x) 1 1 (10 * 1) (2 * sqrt 1) 0 = Some (Q2R (10 - x))) /\
  r_for_q (fun x => 10 - x)%Q 1 2 0 10 = Some (15 # 2) /\
  r_q_optimal_r_for_q (ROps o_zero) 0 (Q2R 1) 1 1 10 2 1 (Q2R 2) = Some (Some (Q2R (15 # 2))).
Proof. exact refines_example. Qed.

(* ====================================================================== part B: stockpyl.ss.s_s_power_approximation (in no property's text; kept with the other source-generated approximations) *)

(* power approximation (Ehrhardt-Mosier) on the generated term: whenever the five documented guards pass it returns (s, s + Q_p) with
   the documented formulas (4.77)-(4.80); x^a is Rpower (the real power for x > 0) *)
Theorem C13_gen_power_def (o : Oracles R) (h p K mu sd : R) : 0 < h -> 0 < p -> 0 < K -> 0 <= mu -> 0 <= sd ->
  s_s_power_approximation (ROps o) h p K mu sd = Some (pa_s h p K mu sd, pa_s h p K mu sd + pa_Q h K mu sd).
Proof. exact (power_def o h p K mu sd). Qed.
(* None exactly on the documented ValueErrors *)
Theorem C13_gen_power_ValueError_iff (o : Oracles R) (h p K mu sd : R) :
  s_s_power_approximation (ROps o) h p K mu sd = None <-> (h <= 0 \/ p <= 0 \/ K <= 0 \/ mu < 0 \/ sd < 0).
Proof. exact (power_None_iff o h p K mu sd). Qed.
(* for 0 < demand_mean and 0 < demand_sd (Python raises ZeroDivisionError at 0, which the translator does not model):
   S - s = Q_p > 0, z > 0 is the root of z^2 = (Q_p/sigma)(h/p), s and Q_p are the documented expressions *)
Theorem C13_gen_power_spec (o : Oracles R) (h p K mu sd s S : R) : 0 < mu -> 0 < sd ->
  s_s_power_approximation (ROps o) h p K mu sd = Some (s, S) ->
  0 < h /\ 0 < p /\ 0 < K /\
  let Qp := pa_Q h K mu sd in let z := pa_z h p K mu sd in
  S - s = Qp /\ 0 < Qp /\ s < S /\ 0 < z /\ z * z = Qp / sd * (h / p) /\
  s = 973 / 1000 * mu + sd * (183 / 1000 / z + 1063 / 1000 - 274 / 125 * z) /\
  Qp = 13 / 10 * Rpower mu (247 / 500) * Rpower (K / h) (253 / 500) * Rpower (1 + (sd / mu) * (sd / mu)) (29 / 250).
Proof. exact (power_spec o h p K mu sd s S). Qed.
Example C13_gen_power_nonvacuous (o : Oracles R) : exists s S : R,
  s_s_power_approximation (ROps o) (18 / 100) (7 / 10) (5 / 2) 50 8 = Some (s, S) /\ s < S /\ S - s = pa_Q (18 / 100) (5 / 2) 50 8.
Proof. exact (power_example o). Qed.

Print Assumptions C14_gen_eoqss_def.
Print Assumptions C14_gen_eoqss_inv.
Print Assumptions C14_gen_eoqss_ValueError_iff.
Print Assumptions C14_gen_eoqss_Q_is_EOQ.
Print Assumptions C14_gen_eoqss_r_optimal.
Print Assumptions C14_gen_eoqss_refines_model.
Print Assumptions C14_gen_r_for_q_exit.
Print Assumptions C14_gen_r_for_q_ValueError_iff.
Print Assumptions C14_gen_r_for_q_refines_model.
Print Assumptions C14_gen_eoqb.
Print Assumptions C14_approx_sqrt_hypothesis_unsatisfiable.
Print Assumptions C13_gen_power_def.
Print Assumptions C13_gen_power_ValueError_iff.
Print Assumptions C13_gen_power_spec.
