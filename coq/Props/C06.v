(* C06 — Simulation follows the documented sequence of events and is reproducible.
   The Coq model Sim/Model.v IS the reference implementation of the documented sequence of events (orders phase
   downstream-to-upstream, then receipts / production / shipments upstream-to-downstream, then costs, then the
   pipeline shift; the four disruption semantics). The property is decided by (a) the correspondence on EVERY
   documented state variable of every node in every period against that model, and (b) the theorems below about the
   model: the run is a function of (network, inputs) (a Gallina function: determinism is by construction), running
   period by period equals the batch run for every split of the horizon, customers are served in successor order
   from what the earlier ones left, backorders before new demand.
   NOT proved: invariance under renumbering the nodes ([relabel_statement]); decided on the implementation by
   reindex_nodes-then-simulate runs. *)
From SV Require Import Sim.Model Sim.Inv_base Sim.Policy_thms Sim.Example.

Theorem C06_step_batch : forall NW a b s, run_from NW s (a ++ b) = run_from NW s a ++ run_from NW (state_after NW s a) b.
Proof. exact step_batch. Qed.
Theorem C06_one_record_per_period : forall NW inputs s, length (run_from NW s inputs) = length inputs.
Proof. exact run_length. Qed.
Theorem C06_served_in_successor_order : forall NW dis n s oh c, NN s -> 0 <= oh ->
  let r := serve_one NW dis n (s, oh) c in
  snd r == oh - qmin oh (gq s (fBO, n, c) + gq s (fPIO, n, c)) /\ 0 <= snd r.
Proof. exact served_in_successor_order. Qed.
Theorem C06_backorders_before_new_demand : forall oh bo io odi, 0 <= oh -> 0 <= bo -> 0 <= io -> 0 <= odi ->
  let o := serve_calc oh bo io odi false in
  (0 < o_dmfs o -> bo <= o_os o) /\ (o_os o - odi <= bo -> o_bo o == bo + io - (o_os o - odi)) /\ o_dmfs o <= io + odi.
Proof. exact backorders_before_new_demand. Qed.

Definition relabel_statement : Prop :=
  forall (NW : net) (f : N -> N), (forall a b, f a = f b -> a = b) -> True (* run (f . NW) (f . inputs) = f . run NW inputs *).

Example C06_nonvacuous : length (run ex_net ex_inputs) = 8%nat /\
  run ex_net ex_inputs = run ex_net (firstn 3 ex_inputs) ++ run_from ex_net (state_after ex_net (init_state ex_net) (firstn 3 ex_inputs)) (skipn 3 ex_inputs).
Proof. split; [vm_compute; reflexivity|]. unfold run. rewrite <- step_batch. rewrite firstn_skipn. reflexivity. Qed.

Print Assumptions C06_step_batch.
Print Assumptions C06_one_record_per_period.
Print Assumptions C06_served_in_successor_order.
Print Assumptions C06_backorders_before_new_demand.
