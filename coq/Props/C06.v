(* C06 — Simulation follows the documented sequence of events and is reproducible.
   The Coq model Sim/Model.v IS the reference implementation of the documented sequence of events (orders phase
   downstream-to-upstream, then receipts / production / shipments upstream-to-downstream, then costs, then the
   pipeline shift; the four disruption semantics). The property is decided by (a) the correspondence on EVERY
   documented state variable of every node in every period against that model, and (b) the theorems below about the
   model: the run is a function of (network, inputs) (a Gallina function: determinism is by construction), running
   period by period equals the batch run for every split of the horizon, customers are served in successor order
   from what the earlier ones left, backorders before new demand.
   Renumbering (Sim/Relabel.v): for EVERY network, inputs and injective renumbering f, the run of the renumbered network is
   the renamed run — every state variable, pipeline, cost and the whole observation table — with no well-formedness
   hypothesis (every function of the model is shown equivariant, incl. the two depth-first traversals and the echelon
   quantities). On the implementation the same clause is exercised by relabelled-case and reindex_nodes runs. *)
From SV Require Import Sim.Model Sim.Inv_base Sim.Policy_thms Sim.Obs Sim.Example Sim.Relabel.
From SV Require Import Sim2.State2 Sim2.Model2 Sim2.Seq2 Sim2.Main2b.

Theorem C06_step_batch : forall NW a b s, run_from NW s (a ++ b) = run_from NW s a ++ run_from NW (state_after NW s a) b.
Proof. exact step_batch. Qed.
Theorem C06_one_record_per_period : forall NW inputs s, length (run_from NW s inputs) = length inputs.
Proof. exact run_length. Qed.
Theorem C06_served_in_successor_order : forall NW dis n s oh c, NN s -> 0 <= oh ->
  let r := serve_one NW dis n (s, oh) c in
  snd r == oh - qmin oh (gq s (fBO, n, c) + gq s (fPIO, n, c)) /\ 0 <= snd r.
Proof. exact served_in_successor_order. Qed.
Theorem C06_backorders_before_new_demand : forall oh bo io odi, 0 <= oh -> 0 <= bo -> 0 <= io -> 0 <= odi ->
  let o := serve_calc oh bo io odi false in
  (0 < o_dmfs o -> bo <= o_os o) /\ (o_os o - odi <= bo -> o_bo o == bo + io - (o_os o - odi)) /\ o_dmfs o <= io + odi.
Proof. exact backorders_before_new_demand. Qed.

(* renumbering the nodes only renames the trajectory. [renumbers f NW NW1]: NW1 lists the nodes f n and its configuration at f n
   is that of n with the neighbour lists mapped by f; [renumbers_inputs]: the disruption flags / demands of f n are those of n *)
Theorem C06_relabel_run : forall (f : N -> N), (forall a b, f a = f b -> a = b) ->
  forall (NW NW1 : net) (inputs inputs1 : list ((N -> bool) * (N -> Q))), renumbers f NW NW1 -> renumbers_inputs f inputs inputs1 ->
  run NW1 inputs1 = map (ren_st f) (run NW inputs).
Proof. exact relabel_gen_run. Qed.
Theorem C06_relabel_every_state_variable : forall (f : N -> N), (forall a b, f a = f b -> a = b) ->
  forall (NW NW1 : net) (inputs inputs1 : list ((N -> bool) * (N -> Q))), renumbers f NW NW1 -> renumbers_inputs f inputs inputs1 ->
  length (run NW1 inputs1) = length (run NW inputs) /\
  forall (t : nat),
    (forall k : key, gq (nth t (run NW1 inputs1) empty_st) (ren_key f k) = gq (nth t (run NW inputs) empty_st) k) /\
    (forall k : key, gl (nth t (run NW1 inputs1) empty_st) (ren_key f k) = gl (nth t (run NW inputs) empty_st) k) /\
    (forall n : N, node_costs NW1 (nth t (run NW1 inputs1) empty_st) (f n) = node_costs NW (nth t (run NW inputs) empty_st) n).
Proof. exact relabel_gen_read. Qed.
Theorem C06_relabel_total_cost : forall (f : N -> N), (forall a b, f a = f b -> a = b) ->
  forall (NW NW1 : net) (inputs inputs1 : list ((N -> bool) * (N -> Q))), renumbers f NW NW1 -> renumbers_inputs f inputs inputs1 ->
  total_cost NW1 (run NW1 inputs1) = total_cost NW (run NW inputs).
Proof. exact relabel_gen_total_cost. Qed.
(* the explicit renumbered network, for f with a left inverse g *)
Theorem C06_relabel_explicit : forall (f g : N -> N), (forall x, g (f x) = x) -> forall (NW : net) (inputs : list ((N -> bool) * (N -> Q))),
  run (ren_net f g NW) (ren_inputs g inputs) = map (ren_st f) (run NW inputs).
Proof. exact relabel_run. Qed.
(* the hypotheses are satisfiable and the renamed values are non-zero: ex_net renumbered by x+100 and by swapping 1 and 3 *)
Example C06_relabel_nonvacuous :
  let r := run ex_net ex_inputs in
  let r2 := run (ren_net ex_sw ex_sw ex_net) (ren_inputs ex_sw ex_inputs) in
  (forall x, ex_sw (ex_sw x) = x) /\ length r2 = 8%nat
  /\ gq (nth 5 r2 empty_st) (fBO, 2%N, Nd 1%N) = gq (nth 5 r empty_st) (fBO, 2%N, Nd 3%N) /\ 0 < gq (nth 5 r empty_st) (fBO, 2%N, Nd 3%N)
  /\ renumbers ex_sw ex_net ex_net_sw /\ renumbers_inputs ex_sw ex_inputs ex_inputs_sw.
Proof. split; [exact ex_sw_sw|]. split; [vm_compute; reflexivity|]. split; [vm_compute; reflexivity|]. split; [vm_compute; reflexivity|].
  split; [exact ex_net_sw_renumbers|exact ex_inputs_sw_renumbers]. Qed.

(* ---- the multi-product model (Sim2/Model2.v) has the same reproducibility structure (the property itself speaks of single-product
   networks; this covers the code path the multi-product simulations take): period by period = batch for every split, one record per
   period, the past does not depend on later inputs ---- *)
Theorem C06_multi_step_batch : forall NW a b s, run_from2 NW s (a ++ b) = run_from2 NW s a ++ run_from2 NW (state_after2 NW s a) b.
Proof. exact step_batch2. Qed.
Theorem C06_multi_one_record_per_period : forall NW inputs s, length (run_from2 NW s inputs) = length inputs.
Proof. exact run_length2. Qed.
Theorem C06_multi_past_independent_of_future : forall NW a b s, firstn (length a) (run_from2 NW s (a ++ b)) = run_from2 NW s a.
Proof. exact run_prefix2. Qed.

Example C06_nonvacuous : length (run ex_net ex_inputs) = 8%nat /\
  run ex_net ex_inputs = run ex_net (firstn 3 ex_inputs) ++ run_from ex_net (state_after ex_net (init_state ex_net) (firstn 3 ex_inputs)) (skipn 3 ex_inputs).
Proof. split; [vm_compute; reflexivity|]. unfold run. rewrite <- step_batch. rewrite firstn_skipn. reflexivity. Qed.

Example C06_multi_nonvacuous : length (run2 Main2b.exB2_net Main2b.exB2_inputs) = length Main2b.exB2_inputs /\ (2 <= length Main2b.exB2_inputs)%nat /\
  run2 Main2b.exB2_net Main2b.exB2_inputs = run2 Main2b.exB2_net (firstn 2 Main2b.exB2_inputs)
     ++ run_from2 Main2b.exB2_net (state_after2 Main2b.exB2_net (init_state2 Main2b.exB2_net) (firstn 2 Main2b.exB2_inputs)) (skipn 2 Main2b.exB2_inputs).
Proof. split; [apply run_length2|split; [vm_compute; lia|]]. unfold run2. rewrite <- step_batch2. rewrite firstn_skipn. reflexivity. Qed.

Print Assumptions C06_step_batch.
Print Assumptions C06_one_record_per_period.
Print Assumptions C06_served_in_successor_order.
Print Assumptions C06_backorders_before_new_demand.
Print Assumptions C06_relabel_run.
Print Assumptions C06_relabel_every_state_variable.
Print Assumptions C06_relabel_total_cost.
Print Assumptions C06_relabel_explicit.
Print Assumptions C06_multi_step_batch.
Print Assumptions C06_multi_one_record_per_period.
Print Assumptions C06_multi_past_independent_of_future.
