(* C19 -- Generic MEIO search returns what it evaluated and never worse than it was given.
   Statements only; every proof is [exact <lemma of Alg/*_proofs.v>].
   Models: Alg/Enum.v (meio_by_enumeration, truncate_and_discretize, _base_stock_group_assignments; exact rationals),
           Alg/Golden.v (golden_section_search over a record of operations; theorems at R = ROps, the same term is
                         run at binary64 = FOps in the correspondence; the iteration count n is an input),
           Alg/CoordDesc.v (meio_by_coordinate_descent, polymorphic; theorems at R; line search = parameter, then golden).
   Real-number theorems depend on the axioms of the standard library's reals (listed by Print Assumptions). *)
From SV Require Import Base.Qx Alg.Enum Alg.Enum_proofs Alg.Golden Alg.Golden_proofs Alg.CoordDesc Alg.CoordDesc_proofs.

(* ======================= enumeration (Q) ======================= *)
(* [order] = iteration order of the Python set nodes_to_optimize (any duplicate-free list of the group
   representatives); G = the grids, one per representative; a [grid_vector] has every node's level on the grid of
   its group and one level per group.  For EVERY node list, grouping, grid argument form, objective f:
   the returned vector is a grid vector, the reported cost is f at it, and no grid vector is cheaper. *)
Theorem C19_enum_optimal nodes groups order bsl lo hi step num (f : list Q -> Q) S c :
  NoDup order ->
  (forall n, In n nodes -> In (opt_group groups n) order) ->
  (forall r, In r order -> exists n, In n nodes /\ opt_group groups n = r) ->
  meio_enum nodes groups order bsl lo hi step num f = Some (S, c) ->
  exists G provided,
    length G = length order /\
    (forall j, (j < length order)%nat -> node_grid_of nodes bsl lo hi step num provided (nth j order 0%nat) (nth j G [])) /\
    grid_vector nodes order (opt_group groups) G S /\
    c = f S /\
    forall v, grid_vector nodes order (opt_group groups) G v -> c <= f v.
Proof. exact (meio_enum_optimal nodes groups order bsl lo hi step num f S c). Qed.

(* the fold itself, for arbitrary grids and an arbitrary group map [og] *)
Theorem C19_enum_core_optimal nodes order og G (f : list Q -> Q) :
  NoDup order -> (forall n, In n nodes -> In (og n) order) -> length G = length order ->
  (forall r, In r order -> exists n, In n nodes /\ og n = r) ->
  forall S c, enum_core nodes order og G f = Some (S, c) ->
    grid_vector nodes order og G S /\ c = f S /\ forall v, grid_vector nodes order og G v -> c <= f v.
Proof. exact (enum_core_optimal nodes order og G f). Qed.
(* it returns (no UnboundLocalError) as soon as every grid is non-empty *)
Theorem C19_enum_returns nodes order og G (f : list Q -> Q) :
  (forall g, In g G -> g <> []) -> enum_core nodes order og G f <> None.
Proof. exact (enum_core_returns nodes order og G f). Qed.
(* nodes of one user-supplied set (sets pairwise disjoint) share one level in every grid vector, hence in the result *)
Theorem C19_enum_groups_share nodes order gs G v : disjoint_groups gs ->
  grid_vector nodes order (opt_group (Some gs)) G v ->
  forall g i i', In g gs -> (i < length nodes)%nat -> (i' < length nodes)%nat ->
    In (nth i nodes 0%nat) g -> In (nth i' nodes 0%nat) g -> nth i v 0 = nth i' v 0.
Proof. exact (grid_vector_groups_share nodes order gs G v). Qed.

(* ======================= grids_spec: truncate_and_discretize (Q) ======================= *)
Theorem C19_grids_lo_hi_defaults lo hi :
  lo_eff lo = match lo with Some v => v | None => 0 end /\ hi_eff hi = match hi with Some v => v | None => 100 end.
Proof. exact (conj (lo_eff_spec lo) (hi_eff_spec hi)). Qed.
(* (lo, hi, step), step > 0, lo <= hi: exactly [lo + i*step | i = 0..N], N = floor((hi - lo)/step) *)
Theorem C19_grids_step lo hi s num : 0 < s -> lo_eff lo <= hi_eff hi ->
  exists N : nat,
    node_grid lo hi (Some s) num = Some (map (fun i => qnat i * s + lo_eff lo) (seq 0 (S N))) /\
    lo_eff lo + qnat N * s <= hi_eff hi /\ hi_eff hi < lo_eff lo + qnat (S N) * s.
Proof. exact (node_grid_step lo hi s num). Qed.
Theorem C19_grids_within lo hi s num g x : 0 < s -> lo_eff lo <= hi_eff hi ->
  node_grid lo hi (Some s) num = Some g -> In x g -> lo_eff lo <= x <= hi_eff hi.
Proof. exact (node_grid_within lo hi s num g x). Qed.
(* (lo, hi, num), num >= 1, lo < hi: num+1 equally spaced points, the last one is hi *)
Theorem C19_grids_num lo hi (k : Z) : (1 <= k)%Z -> lo_eff lo < hi_eff hi ->
  let st := (hi_eff hi - lo_eff lo) / inject_Z k in
  node_grid lo hi None (Some k) = Some (map (fun i => qnat i * st + lo_eff lo) (seq 0 (S (Z.to_nat k)))) /\
  qnat (Z.to_nat k) * st + lo_eff lo == hi_eff hi.
Proof. exact (node_grid_num lo hi k). Qed.
Theorem C19_grids_num0 lo hi : node_grid lo hi None (Some 0%Z) = Some [qnat 0 * 1 + lo_eff lo].
Proof. exact (node_grid_num0 lo hi). Qed.
(* neither step nor num: step 1 *)
Theorem C19_grids_default lo hi : node_grid lo hi None None = node_grid lo hi (Some 1) None.
Proof. exact (node_grid_default lo hi). Qed.
(* values given: returned unchanged *)
Theorem C19_grids_values nodes values lo hi step num : values_provided (Some values) = true ->
  tad nodes (Some values) lo hi step num = Some values.
Proof. exact (tad_values nodes values lo hi step num). Qed.

(* ======================= groups_spec: _base_stock_group_assignments ======================= *)
Theorem C19_groups_opt_group gs : disjoint_groups gs ->
  (forall g n, In g gs -> In n g ->
      opt_group (Some gs) n = list_min g /\ In (list_min g) g /\ (forall m, In m g -> (list_min g <= m)%nat)) /\
  (forall n, (forall g, In g gs -> ~ In n g) -> opt_group (Some gs) n = n) /\
  (forall n, opt_group None n = n).
Proof. exact (opt_group_spec gs). Qed.
Theorem C19_groups_group_list nodes groups :
  (forall gl, In gl (group_list nodes groups) -> gl <> [] /\
      exists i, In i nodes /\ gl = filter (fun n => Nat.eqb (opt_group groups n) i) nodes) /\
  (forall n, In n nodes -> In (opt_group groups n) nodes ->
      exists gl, In gl (group_list nodes groups) /\ In n gl).
Proof. exact (group_list_spec nodes groups). Qed.
Theorem C19_groups_disjoint nodes groups : forall g g',
  In g (group_list nodes groups) -> In g' (group_list nodes groups) -> g = g' \/ forall n, ~ (In n g /\ In n g').
Proof. exact (group_list_disjoint nodes groups). Qed.

(* ======================= golden-section search (R) ======================= *)
Open Scope R_scope.
(* the constants of the code: invphi = rho = (sqrt 5 - 1)/2, invphi2 = rho^2 = 1 - rho *)
Theorem C19_golden_constants : invphi ROps = rho /\ invphi2 ROps = rho * rho /\ rho * rho = 1 - rho /\ 0 < rho < 1.
Proof. exact (conj invphi_rho (conj invphi2_rho (conj rho_sq rho_range))). Qed.

(* f unimodal on [a,b] with minimiser xs (non-increasing left of xs, strictly increasing right of it):
   after k loop iterations xs is in [a_k, b_k], nested in [a,b], of width rho^k (b-a) *)
Theorem C19_golden_bracket (f : R -> R) a b xs : a < b -> unimodal f a b xs -> forall k,
  let s := giter ROps f k (ginit ROps f a b) in
  a <= ga ROps s /\ ga ROps s <= xs <= gb ROps s /\ gb ROps s <= b /\
  gb ROps s - ga ROps s = rho ^ k * (b - a).
Proof. exact (bracket_after f a b xs). Qed.
(* the bracket whose midpoint is returned *)
Theorem C19_golden_final_bracket (f : R -> R) a b xs : a < b -> unimodal f a b xs -> forall k,
  let s := giter ROps f k (ginit ROps f a b) in
  a <= gfinal_lo ROps s /\ gfinal_lo ROps s <= xs <= gfinal_hi ROps s /\ gfinal_hi ROps s <= b /\
  gfinal_hi ROps s - gfinal_lo ROps s = rho ^ (S k) * (b - a).
Proof. exact (final_bracket f a b xs). Qed.
(* the function as called (any order of the end points): value = f(point), point in the interval,
   within (final bracket)/2 of the minimiser *)
Theorem C19_golden_spec (f : R -> R) (a0 b0 tol xs : R) (n : nat) :
  0 <= tol -> unimodal f (Rmin a0 b0) (Rmax a0 b0) xs ->
  let x := fst (golden ROps f a0 b0 tol n) in
  let y := snd (golden ROps f a0 b0 tol n) in
  y = f x /\ Rmin a0 b0 <= x <= Rmax a0 b0 /\
  (Rmax a0 b0 - Rmin a0 b0 <= tol -> Rabs (x - xs) <= tol / 2) /\
  (tol < Rmax a0 b0 - Rmin a0 b0 -> Rabs (x - xs) <= rho ^ (S (n - 1)) * (Rmax a0 b0 - Rmin a0 b0) / 2).
Proof. exact (golden_spec f a0 b0 tol xs n). Qed.
(* n_suffices: n = ceil(log(tol/h)/log(invphi)) means rho^n h <= tol; then the result is within tol/2 of the minimiser *)
Theorem C19_golden_within_tol (f : R -> R) (a0 b0 tol xs : R) (n : nat) :
  0 <= tol -> unimodal f (Rmin a0 b0) (Rmax a0 b0) xs ->
  rho ^ (S (n - 1)) * (Rmax a0 b0 - Rmin a0 b0) <= tol ->
  Rabs (fst (golden ROps f a0 b0 tol n) - xs) <= tol / 2.
Proof. exact (golden_within_tol f a0 b0 tol xs n). Qed.
(* for EVERY f: returned value = f(returned point), returned point inside the interval *)
Theorem C19_golden_value (f : R -> R) a0 b0 tol n :
  snd (golden ROps f a0 b0 tol n) = f (fst (golden ROps f a0 b0 tol n)).
Proof. exact (golden_value f a0 b0 tol n). Qed.
Theorem C19_golden_in_interval (f : R -> R) a0 b0 tol n : 0 <= tol ->
  Rmin a0 b0 <= fst (golden ROps f a0 b0 tol n) <= Rmax a0 b0.
Proof. exact (golden_in_interval f a0 b0 tol n). Qed.
(* the clause "up to the floating-point resolution of the function's values" is not a statement about R:
   it is checked by running the same term at binary64 (FOps) against Python bit for bit. *)

(* ======================= coordinate descent (R) ======================= *)
(* line search = any function whose k-th result (x, y) satisfies the stated hypotheses on the calls made *)
Theorem C19_cd_reports_its_cost nodes (f : list R -> R) ls lo hi groups start tol fuel S c :
  ls_sound_on nodes f ls lo hi groups ->
  cd Rminus rleb nodes f ls lo hi fuel groups start tol = Some (S, c) -> c = f S.
Proof. exact (cd_cost nodes f ls lo hi groups start tol fuel S c). Qed.
Theorem C19_cd_in_box nodes (f : list R -> R) ls lo hi groups start tol fuel S c :
  ls_box_on nodes f ls lo hi groups ->
  cd Rminus rleb nodes f ls lo hi fuel groups start tol = Some (S, c) ->
  length S = length nodes /\
  forall g, In g (group_list nodes groups) -> forall i, (i < length nodes)%nat -> In (nth i nodes 0%nat) g ->
     lo (list_min g) <= nth i S 0 <= hi (list_min g).
Proof. exact (cd_box nodes f ls lo hi groups start tol fuel S c). Qed.
(* no worse than the start up to (#groups)*delta, delta = what one line search may lose against staying put *)
Theorem C19_cd_no_worse nodes (f : list R -> R) ls lo hi groups start tol fuel S c delta : 0 <= tol ->
  ls_sound_on nodes f ls lo hi groups -> ls_box_on nodes f ls lo hi groups ->
  ls_quality_on nodes f ls lo hi groups delta -> start_in_box nodes lo hi groups start ->
  cd Rminus rleb nodes f ls lo hi fuel groups start tol = Some (S, c) ->
  c <= f (cd_start nodes groups start) + INR (length (group_list nodes groups)) * delta.
Proof. exact (cd_no_worse_than_start nodes f ls lo hi groups start tol fuel S c delta). Qed.

(* with golden-section search (nk k iterations in the k-th call) as the line search *)
Theorem C19_cd_golden_reports_its_cost nodes (f : list R -> R) lo hi groups start tol ls_tol nk fuel S c :
  cd Rminus rleb nodes f (golden_ls ls_tol nk) lo hi fuel groups start tol = Some (S, c) -> c = f S.
Proof. exact (cd_golden_cost nodes f lo hi groups start tol ls_tol nk fuel S c). Qed.
Theorem C19_cd_golden_in_box nodes (f : list R -> R) lo hi groups start tol ls_tol nk :
  0 <= ls_tol -> (forall g, In g (group_list nodes groups) -> lo (list_min g) <= hi (list_min g)) ->
  forall fuel S c, cd Rminus rleb nodes f (golden_ls ls_tol nk) lo hi fuel groups start tol = Some (S, c) ->
  length S = length nodes /\
  forall g, In g (group_list nodes groups) -> forall i, (i < length nodes)%nat -> In (nth i nodes 0%nat) g ->
     lo (list_min g) <= nth i S 0 <= hi (list_min g).
Proof. exact (cd_golden_box nodes f lo hi groups start tol ls_tol nk). Qed.
(* "never worse than it was given" holds only with slack: golden section returns a point within tolerance of the
   coordinate minimiser, not the minimiser.  For slices that are unimodal and L-Lipschitz on the group's range and
   line searches that ran enough iterations:  cost <= f(start) + (#groups) * L * line_search_tol / 2 *)
Theorem C19_cd_golden_no_worse nodes (f : list R -> R) lo hi groups start tol ls_tol L nk :
  0 <= ls_tol -> (forall g, In g (group_list nodes groups) -> lo (list_min g) <= hi (list_min g)) ->
  0 <= L -> 0 <= tol ->
  (forall g cur, In g (group_list nodes groups) -> consistent nodes lo hi (group_list nodes groups) cur ->
     exists xs, unimodal (slice nodes f g cur) (lo (list_min g)) (hi (list_min g)) xs) ->
  (forall g cur, In g (group_list nodes groups) -> consistent nodes lo hi (group_list nodes groups) cur ->
     lipschitz (slice nodes f g cur) (lo (list_min g)) (hi (list_min g)) L) ->
  (forall k g, In g (group_list nodes groups) -> rho ^ (S (nk k - 1)) * (hi (list_min g) - lo (list_min g)) <= ls_tol) ->
  forall fuel S c, start_in_box nodes lo hi groups start ->
  cd Rminus rleb nodes f (golden_ls ls_tol nk) lo hi fuel groups start tol = Some (S, c) ->
  c <= f (cd_start nodes groups start) + INR (length (group_list nodes groups)) * (L * ls_tol / 2).
Proof. exact (cd_golden_no_worse nodes f lo hi groups start tol ls_tol L nk). Qed.
(* the unqualified clause "no worse than the starting vector" (no slack) is kept as a statement only: it is false for
   the correct algorithm (see the harness: coordinate-descent runs that end up to the slack above the start) *)
Definition C19_cd_no_worse_without_slack_statement : Prop :=
  forall nodes (f : list R -> R) lo hi groups start tol ls_tol nk fuel S c,
    cd Rminus rleb nodes f (golden_ls ls_tol nk) lo hi fuel groups start tol = Some (S, c) ->
    c <= f (cd_start nodes groups start).
Close Scope R_scope.

(* ======================= non-vacuity ======================= *)
(* 3 nodes [3;2;1], nodes 2 and 3 grouped, grid {0,2,4,6} per group, separable quadratic: optimum (4,4,2), cost 4,
   strictly better than the grid vector (0,0,2) (cost 52); (6,6,2) ties at 4 and the first minimum is kept *)
Example C19_enum_nonvacuous :
  let f := fun s => (nth 0 s 0 - 6) * (nth 0 s 0 - 6) + (nth 1 s 0 - 4) * (nth 1 s 0 - 4) + (nth 2 s 0 - 2) * (nth 2 s 0 - 2) in
  option_map (fun r => (map qobs (fst r), qobs (snd r)))
    (meio_enum [3;2;1]%nat (Some [[2;3]%nat]) [1;2]%nat None (AOne 0) (AOne 6) (AOne 2) ANone f)
    = Some ([(4,1);(4,1);(2,1)]%Z, (4,1)%Z)
  /\ qobs (f [0;0;2]) = (52, 1)%Z
  /\ option_map (map qobs) (node_grid (Some (-10 # 1)) (Some 0) (Some 5) None) = Some [(-10,1);(-5,1);(0,1)]%Z.
Proof. vm_compute. repeat split; reflexivity. Qed.
(* |x - c| and (x - c)^2 satisfy the unimodality hypothesis on any interval containing c *)
Example C19_unimodal_nonvacuous (c a b : R) : (a <= c <= b)%R ->
  unimodal (fun x => Rabs (x - c)) a b c /\ unimodal (fun x => ((x - c) * (x - c))%R) a b c.
Proof. exact (fun H => conj (abs_unimodal c a b H) (strictly_unimodal_unimodal _ _ _ _ (sq_unimodal c a b H))). Qed.
(* the same golden-section term at binary64: f(x) = (x-2)^2 on [1,3], tol 1e-5, 26 iterations -- the pair Python returns *)
Example C19_golden_float_nonvacuous :
  let r := golden FOps (feval FOps (FMul (FSub FX (FC 2%float)) (FSub FX (FC 2%float)))) 1%float 3%float 0x1.4f8b588e368f1p-17%float 26 in
  (fobs (fst r), fobs (snd r)) = ((3, false, 4503602796032030, -51)%Z, (3, false, 4902546834497672, -91)%Z).
Proof. vm_compute. reflexivity. Qed.

Print Assumptions C19_enum_optimal.
Print Assumptions C19_enum_core_optimal.
Print Assumptions C19_enum_returns.
Print Assumptions C19_enum_groups_share.
Print Assumptions C19_grids_lo_hi_defaults.
Print Assumptions C19_grids_step.
Print Assumptions C19_grids_within.
Print Assumptions C19_grids_num.
Print Assumptions C19_grids_num0.
Print Assumptions C19_grids_default.
Print Assumptions C19_grids_values.
Print Assumptions C19_groups_opt_group.
Print Assumptions C19_groups_group_list.
Print Assumptions C19_groups_disjoint.
Print Assumptions C19_golden_constants.
Print Assumptions C19_golden_bracket.
Print Assumptions C19_golden_final_bracket.
Print Assumptions C19_golden_spec.
Print Assumptions C19_golden_within_tol.
Print Assumptions C19_golden_value.
Print Assumptions C19_golden_in_interval.
Print Assumptions C19_cd_reports_its_cost.
Print Assumptions C19_cd_in_box.
Print Assumptions C19_cd_no_worse.
Print Assumptions C19_cd_golden_reports_its_cost.
Print Assumptions C19_cd_golden_in_box.
Print Assumptions C19_cd_golden_no_worse.
