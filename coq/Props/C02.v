(* C02 — Backorders, inventory level and service measures stay mutually consistent.
   Same model and quantification as C01 (Sim/Model.v; every good network, horizon, disruption and demand sequence).
   Hypothesis hidden in [good]: initial inventory levels are >= 0 (wf_init); with a negative initial level the
   identity sum BO = IL^- is false from period 0 — for the model AND for stockpyl (recorded known finding). *)
From SV Require Import Sim.Model Sim.Inv_base Sim.Inv_book Sim.Inv_node Sim.Inv_run Sim.Main Sim.Example.

Section C02.
Variable (NW : net) (inputs : list ((N -> bool) * (N -> Q))).
Hypothesis G : good NW.
Hypothesis D : dem_ok inputs.
Notation C := (cfg NW).

(* the backorders a node owes its customers add up exactly to the negative part of its inventory level *)
Theorem C02_backorders_eq_neg_il : forall e n, In e (run NW inputs) ->
  qsumf (fun c => gq e (fBO, n, c)) (customers (C n)) == qmax 0 (- gq e (fIL, n, Ext)).
Proof. exact (backorders_eq_neg_il NW inputs G D). Qed.

(* no physical count is negative *)
Theorem C02_counts_nonneg : forall e n x, In e (run NW inputs) ->
  0 <= gq e (fOS, n, x) /\ 0 <= gq e (fIO, n, x) /\ 0 <= gq e (fOQ, n, x) /\ 0 <= gq e (fOQFG, n, Ext) /\ 0 <= gq e (fIS, n, x)
  /\ 0 <= gq e (fRM, n, x) /\ 0 <= gq e (fBO, n, x) /\ 0 <= gq e (fODI, n, x) /\ 0 <= gq e (fIDI, n, x) /\ 0 <= gq e (fDMFS, n, Ext)
  /\ Forall (fun v => 0 <= v) (gl e (fSP, n, x)) /\ Forall (fun v => 0 <= v) (gl e (fOP, n, x)).
Proof. exact (counts_nonneg NW inputs G D). Qed.
Theorem C02_on_order_nonneg : forall e n p, In e (run NW inputs) -> In p (suppliers (C n)) -> 0 <= gq e (fOO, n, p).
Proof. exact (on_order_nonneg NW inputs G D). Qed.

(* a node never ships more than it held (on hand, or set aside for disrupted customers) plus what it produced:
   shipped + change of held items <= positive inventory before + produced; stated for one shipping action from
   any intermediate state satisfying the (proved-invariant) predicates NN and ND *)
Theorem C02_shipping_bound : forall (dis : N -> bool) (dem : N -> Q) s n, NN s -> ND NW s ->
  exists made, 0 <= made /\
    SF fOS (ships_action NW dis s n) n (customers (C n)) + SF fODI (ships_action NW dis s n) n (customers (C n)) - SF fODI s n (customers (C n))
      <= qmax 0 (gq s (fIL, n, Ext)) + made /\
    gq (ships_action NW dis s n) (fIL, n, Ext) == gq s (fIL, n, Ext) + made - SF fPIO s n (customers (C n)).
Proof. exact (shipping_bound NW G). Qed.

(* cumulative demand met from stock never exceeds cumulative demand *)
Theorem C02_demand_met_bounds : forall e n, In e (run NW inputs) -> 0 <= gq e (fDMC, n, Ext) /\ gq e (fDMC, n, Ext) <= gq e (fDC, n, Ext).
Proof. exact (demand_met_bounds NW inputs G D). Qed.

(* the fill rate written by a node's shipping action is exactly cumulative demand met from stock / cumulative demand
   (1 when there has been no demand), hence within [0,1] *)
Theorem C02_fill_rate : forall dis s n, NN s -> ALL NW (ships_action NW dis s n) ->
  let e := ships_action NW dis s n in
  gq e (fFR, n, Ext) = (if qltb 0 (gq e (fDC, n, Ext)) then gq e (fDMC, n, Ext) / gq e (fDC, n, Ext) else 1)
  /\ 0 <= gq e (fFR, n, Ext) /\ gq e (fFR, n, Ext) <= 1.
Proof. exact (fill_rate_spec NW). Qed.
End C02.

Example C02_nonvacuous : good ex_net /\ dem_ok ex_inputs /\
  exists e, In e (run ex_net ex_inputs) /\ 0 < gq e (fBO, 2%N, Nd 3%N) + gq e (fBO, 3%N, Ext) /\ 0 < qsum (gl e (fSP, 3%N, Nd 2%N)) + gq e (fODI, 2%N, Nd 3%N).
Proof. exact (conj ex_good (conj ex_dem_ok ex_nontrivial)). Qed.

Print Assumptions C02_backorders_eq_neg_il.
Print Assumptions C02_counts_nonneg.
Print Assumptions C02_on_order_nonneg.
Print Assumptions C02_shipping_bound.
Print Assumptions C02_demand_met_bounds.
Print Assumptions C02_fill_rate.
