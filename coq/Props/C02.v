(* C02 — Backorders, inventory level and service measures stay mutually consistent.
   Same model and quantification as C01 (Sim/Model.v; every good network, horizon, disruption and demand sequence).
   Hypothesis hidden in [good]: initial inventory levels are >= 0 (wf_init); with a negative initial level the
   identity sum BO = IL^- is false from period 0 — for the model AND for stockpyl (recorded known finding). *)
From SV Require Import Sim.Model Sim.Inv_base Sim.Inv_book Sim.Inv_node Sim.Inv_run Sim.Main Sim.Example.
From SV Require Import Sim2.State2 Sim2.Model2 Sim2.Inv2a_tac Sim2.Inv2a_nn Sim2.Inv2a_node Sim2.Inv2a_run Sim2.Wfb2 Sim2.Example2 Sim2.Main2a.

Section C02.
Variable (NW : net) (inputs : list ((N -> bool) * (N -> Q))).
Hypothesis G : good NW.
Hypothesis D : dem_ok inputs.
Notation C := (cfg NW).

(* the backorders a node owes its customers add up exactly to the negative part of its inventory level *)
Theorem C02_backorders_eq_neg_il : forall e n, In e (run NW inputs) ->
  qsumf (fun c => gq e (fBO, n, c)) (customers (C n)) == qmax 0 (- gq e (fIL, n, Ext)).
Proof. exact (backorders_eq_neg_il NW inputs G D). Qed.

(* no physical count is negative *)
Theorem C02_counts_nonneg : forall e n x, In e (run NW inputs) ->
  0 <= gq e (fOS, n, x) /\ 0 <= gq e (fIO, n, x) /\ 0 <= gq e (fOQ, n, x) /\ 0 <= gq e (fOQFG, n, Ext) /\ 0 <= gq e (fIS, n, x)
  /\ 0 <= gq e (fRM, n, x) /\ 0 <= gq e (fBO, n, x) /\ 0 <= gq e (fODI, n, x) /\ 0 <= gq e (fIDI, n, x) /\ 0 <= gq e (fDMFS, n, Ext)
  /\ Forall (fun v => 0 <= v) (gl e (fSP, n, x)) /\ Forall (fun v => 0 <= v) (gl e (fOP, n, x)).
Proof. exact (counts_nonneg NW inputs G D). Qed.
Theorem C02_on_order_nonneg : forall e n p, In e (run NW inputs) -> In p (suppliers (C n)) -> 0 <= gq e (fOO, n, p).
Proof. exact (on_order_nonneg NW inputs G D). Qed.

(* a node never ships more than it held (on hand, or set aside for disrupted customers) plus what it produced:
   shipped + change of held items <= positive inventory before + produced; stated for one shipping action from
   any intermediate state satisfying the (proved-invariant) predicates NN and ND *)
Theorem C02_shipping_bound : forall (dis : N -> bool) (dem : N -> Q) s n, NN s -> ND NW s ->
  exists made, 0 <= made /\
    SF fOS (ships_action NW dis s n) n (customers (C n)) + SF fODI (ships_action NW dis s n) n (customers (C n)) - SF fODI s n (customers (C n))
      <= qmax 0 (gq s (fIL, n, Ext)) + made /\
    gq (ships_action NW dis s n) (fIL, n, Ext) == gq s (fIL, n, Ext) + made - SF fPIO s n (customers (C n)).
Proof. exact (shipping_bound NW G). Qed.

(* cumulative demand met from stock never exceeds cumulative demand *)
Theorem C02_demand_met_bounds : forall e n, In e (run NW inputs) -> 0 <= gq e (fDMC, n, Ext) /\ gq e (fDMC, n, Ext) <= gq e (fDC, n, Ext).
Proof. exact (demand_met_bounds NW inputs G D). Qed.

(* the fill rate written by a node's shipping action is exactly cumulative demand met from stock / cumulative demand
   (1 when there has been no demand), hence within [0,1] *)
Theorem C02_fill_rate : forall dis s n, NN s -> ALL NW (ships_action NW dis s n) ->
  let e := ships_action NW dis s n in
  gq e (fFR, n, Ext) = (if qltb 0 (gq e (fDC, n, Ext)) then gq e (fDMC, n, Ext) / gq e (fDC, n, Ext) else 1)
  /\ 0 <= gq e (fFR, n, Ext) /\ gq e (fFR, n, Ext) <= 1.
Proof. exact (fill_rate_spec NW). Qed.
End C02.

Example C02_nonvacuous : good ex_net /\ dem_ok ex_inputs /\
  exists e, In e (run ex_net ex_inputs) /\ 0 < gq e (fBO, 2%N, Nd 3%N) + gq e (fBO, 3%N, Ext) /\ 0 < qsum (gl e (fSP, 3%N, Nd 2%N)) + gq e (fODI, 2%N, Nd 3%N).
Proof. exact (conj ex_good (conj ex_dem_ok ex_nontrivial)). Qed.

(* ============ MULTI-PRODUCT networks with bills of materials (Stage-2 model Sim2/Model2.v; proofs Sim2/Inv2a_*.v, Main2a.v) ============
   Same statements per (node, product) / (node, supplier, raw material), for every run of every network accepted by the boolean
   well-formedness check [good2b] (duplicate-free product and customer lists, BOM numbers > 0 with distinct raw materials, policy
   parameters giving non-negative orders, non-negative initial values, visit lists inside the node list) and non-negative demands;
   they hold for every value of the position-error input i_err. New fact: RAW-MATERIAL INVENTORY STAYS NON-NEGATIVE, because the
   shares into which _raw_materials_to_finished_goods splits a raw material among the products sum to at most what is available
   (this is what the fix: commit 98003ba made true under order_quantity_override as well). *)
Theorem C02_multi_backorders_eq_neg_il : forall (NW : net2) (inputs : inputs2), good2b NW = true -> dem_ok2 inputs ->
  forall e n k, In e (run2 NW inputs) ->
  qsumf (fun c => gq2 e (fBO, n, c, k)) (k_custs (PC NW n k)) == qmax 0 (- gq2 e (fIL, n, Ext, k)).
Proof. exact C02m_backorders_eq_neg_il. Qed.
Theorem C02_multi_counts_nonneg : forall (NW : net2) (inputs : inputs2), good2b NW = true -> dem_ok2 inputs ->
  forall e n x i, In e (run2 NW inputs) ->
  0 <= gq2 e (fOS, n, x, i) /\ 0 <= gq2 e (fIO, n, x, i) /\ 0 <= gq2 e (fOQ, n, x, i) /\ 0 <= gq2 e (fOQFG, n, Ext, i) /\ 0 <= gq2 e (fIS, n, x, i)
  /\ 0 <= gq2 e (fRM, n, Ext, i) /\ 0 <= gq2 e (fBO, n, x, i) /\ 0 <= gq2 e (fODI, n, x, i) /\ 0 <= gq2 e (fIDI, n, x, i)
  /\ 0 <= gq2 e (fDMFS, n, Ext, i) /\ 0 <= gq2 e (fDC, n, Ext, i) /\ 0 <= gq2 e (fDMC, n, Ext, i)
  /\ Forall (fun v => 0 <= v) (gl2 e (fSP, n, x, i)) /\ Forall (fun v => 0 <= v) (gl2 e (fOP, n, x, i)).
Proof. exact C02m_counts_nonneg. Qed.
Theorem C02_multi_shares_le_available : forall (NW : net2) s n r, 0 <= gq2 s (fRM, n, Ext, r) ->
  qsumf (share2 NW s n r) (prods_for NW n r) <= gq2 s (fRM, n, Ext, r).
Proof. exact C02m_shares_le_available. Qed.
Theorem C02_multi_production_within_stock : forall (NW : net2), good2b NW = true -> forall s n r, In n (nodes2 NW) -> NN2 s ->
  qsumf (fun k => made2 NW s n k * cons_of NW n k r) (n_prods (cfg2 NW n)) <= gq2 s (fRM, n, Ext, r)
  /\ gq2 (produce2 NW s n) (fRM, n, Ext, r) == gq2 s (fRM, n, Ext, r) - qsumf (fun k => made2 NW s n k * cons_of NW n k r) (n_prods (cfg2 NW n)).
Proof. exact C02m_production_within_stock. Qed.
Theorem C02_multi_on_order_nonneg : forall (NW : net2) (inputs : inputs2), good2b NW = true -> dem_ok2 inputs -> cons2b NW = true ->
  forall e n p r, In e (run2 NW inputs) -> 0 <= gq2 e (fOO, n, p, r).
Proof. exact C02m_on_order_nonneg. Qed.
Theorem C02_multi_shipping_bound : forall (NW : net2), good2b NW = true -> forall (dis : N -> bool) s n k,
  In n (nodes2 NW) -> In k (n_prods (cfg2 NW n)) -> NN2 s -> ND2 NW s ->
  let e := ships_action2 NW dis s n in
  exists made, 0 <= made /\
    SF2 fOS e n k (k_custs (PC NW n k)) + SF2 fODI e n k (k_custs (PC NW n k)) - SF2 fODI s n k (k_custs (PC NW n k))
      <= qmax 0 (gq2 s (fIL, n, Ext, k)) + made /\
    gq2 e (fIL, n, Ext, k) == gq2 s (fIL, n, Ext, k) + made - SF2 fPIO s n k (k_custs (PC NW n k)).
Proof. exact C02m_shipping_bound. Qed.
Theorem C02_multi_demand_met_bounds : forall (NW : net2) (inputs : inputs2), good2b NW = true -> dem_ok2 inputs ->
  forall e n k, In e (run2 NW inputs) -> 0 <= gq2 e (fDMC, n, Ext, k) /\ gq2 e (fDMC, n, Ext, k) <= gq2 e (fDC, n, Ext, k).
Proof. exact C02m_demand_met_bounds. Qed.
Theorem C02_multi_fill_rate : forall (NW : net2) (inputs : inputs2), good2b NW = true -> dem_ok2 inputs ->
  forall e n k, In e (run2 NW inputs) -> In n (ship_visit2 NW) -> In k (n_prods (cfg2 NW n)) ->
  gq2 e (fFR, n, Ext, k) = (if qltb 0 (gq2 e (fDC, n, Ext, k)) then gq2 e (fDMC, n, Ext, k) / gq2 e (fDC, n, Ext, k) else 1)
  /\ 0 <= gq2 e (fFR, n, Ext, k) /\ gq2 e (fFR, n, Ext, k) <= 1.
Proof. exact C02m_fill_rate. Qed.
(* a network with two products sharing a raw material, a raw material with two suppliers, BOM numbers 2 and 3, two disruption types:
   the hypotheses hold (vm_compute) and the run has backorders, production of both products, held items and raw-material stock *)
Example C02_multi_nonvacuous : good2b ex2_net = true /\ cons2b ex2_net = true /\ dem_ok2 ex2_inputs /\
  exists e, In e (run2 ex2_net ex2_inputs) /\ 0 < gq2 e (fBO, 3%N, Ext, 20%N) /\ 0 < gq2 e (fCP, 3%N, Ext, 20%N) /\ 0 < gq2 e (fCP, 3%N, Ext, 21%N)
    /\ 0 < gq2 e (fODI, 2%N, Nd 3%N, 12%N) /\ 0 < gq2 e (fRM, 3%N, Ext, 12%N) /\ 0 < gq2 e (fBO, 1%N, Nd 3%N, 10%N).
Proof. exact C02m_nonvacuous. Qed.


Print Assumptions C02_backorders_eq_neg_il.
Print Assumptions C02_counts_nonneg.
Print Assumptions C02_on_order_nonneg.
Print Assumptions C02_shipping_bound.
Print Assumptions C02_demand_met_bounds.
Print Assumptions C02_fill_rate.
Print Assumptions C02_multi_backorders_eq_neg_il.
Print Assumptions C02_multi_counts_nonneg.
Print Assumptions C02_multi_shares_le_available.
Print Assumptions C02_multi_production_within_stock.
Print Assumptions C02_multi_on_order_nonneg.
Print Assumptions C02_multi_shipping_bound.
Print Assumptions C02_multi_demand_met_bounds.
Print Assumptions C02_multi_fill_rate.
