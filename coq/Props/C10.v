(* C10 -- each closed-form solver is coherent with, and optimal for, its own cost function.
   Statements only; every proof is [exact <lemma of Alg/ClosedForms_proofs.v or Alg/NVDiscrete_proofs.v>].

   The functions named below (economic_order_quantity, newsvendor_normal, ...) are NOT hand-written models: they are
   the definitions of coq/gen/Gen_*.v that py/py2v.py regenerates from /repo's current Python source on every check run,
   instantiated at the reals ([ROps o], o = the record of library functions).  [f ... = Some r] means: the guards of
   the Python function accept the arguments and it returns r; [None] means it raises ValueError.  So
   "f args None = Some (Q, c)" is exactly "the parameters are admissible and optimisation returns (Q, c)", and
   "f args (Some y) = Some (y', cy)" is exactly "y is an admissible decision and evaluation returns cost cy".
   Hypotheses beyond that are written out (they are preconditions the code does not check). *)
From SV Require Import Base.Ops Base.Qx gen.Gen_eoq gen.Gen_loss_functions gen.Gen_newsvendor gen.Gen_supply_uncertainty.
From SV Require Import Alg.ClosedForms_proofs Alg.NVDiscrete Alg.NVDiscrete_proofs.
From Coq Require Import Reals ZArith.
Open Scope R_scope.

Section Deterministic.
Variable o : Oracles R.
Notation RO := (ROps o).

(* ---- EOQ.  (K = 0 or lam = 0 is admitted by the guards and gives Q* = 0, which evaluation mode rejects: coherence
   needs K, lam > 0; optimality does not.) *)
Theorem C10_eoq_coherent (K h lam Q c : R) : 0 < K -> 0 < lam ->
  economic_order_quantity RO K h lam None = Some (Q, c) -> economic_order_quantity RO K h lam (Some Q) = Some (Q, c).
Proof. exact (eoq_coherent o K h lam Q c). Qed.
Theorem C10_eoq_optimal (K h lam Q c y y' cy : R) :
  economic_order_quantity RO K h lam None = Some (Q, c) -> economic_order_quantity RO K h lam (Some y) = Some (y', cy) -> c <= cy.
Proof. exact (eoq_optimal o K h lam Q c y y' cy). Qed.
Theorem C10_eoq_eval_total (K h lam y : R) : 0 <= K -> 0 < h -> 0 <= lam -> 0 < y ->
  economic_order_quantity RO K h lam (Some y) = Some (y, K * lam / y + h * y / 2).
Proof. exact (eoq_eval_def o K h lam y). Qed.

(* ---- EOQ with backorders: optimal over order quantity AND stockout fraction *)
Theorem C10_eoqb_coherent (K h p lam Q x c : R) : 0 < K -> 0 < lam ->
  economic_order_quantity_with_backorders RO K h p lam None None = Some (Q, x, c) ->
  economic_order_quantity_with_backorders RO K h p lam (Some Q) (Some x) = Some (Q, x, c).
Proof. exact (eoqb_coherent o K h p lam Q x c). Qed.
Theorem C10_eoqb_optimal (K h p lam Q x c y xf y' x' cy : R) :
  economic_order_quantity_with_backorders RO K h p lam None None = Some (Q, x, c) ->
  economic_order_quantity_with_backorders RO K h p lam (Some y) (Some xf) = Some (y', x', cy) -> c <= cy.
Proof. exact (eoqb_optimal o K h p lam Q x c y xf y' x' cy). Qed.
Theorem C10_eoqb_eval_total (K h p lam y x : R) : 0 <= K -> 0 < h -> 0 < p -> 0 <= lam -> 0 < y -> 0 <= x <= 1 ->
  economic_order_quantity_with_backorders RO K h p lam (Some y) (Some x) =
  Some (y, x, h * y * ((1 - x) * (1 - x)) / 2 + p * y * (x * x) / 2 + K * lam / y).
Proof. exact (eoqb_eval_def o K h p lam y x). Qed.

(* ---- EPQ *)
Theorem C10_epq_coherent (K h lam mu Q c : R) : 0 < K -> 0 < lam ->
  economic_production_quantity RO K h lam mu None = Some (Q, c) -> economic_production_quantity RO K h lam mu (Some Q) = Some (Q, c).
Proof. exact (epq_coherent o K h lam mu Q c). Qed.
Theorem C10_epq_optimal (K h lam mu Q c y y' cy : R) :
  economic_production_quantity RO K h lam mu None = Some (Q, c) -> economic_production_quantity RO K h lam mu (Some y) = Some (y', cy) -> c <= cy.
Proof. exact (epq_optimal o K h lam mu Q c y y' cy). Qed.
Theorem C10_epq_eval_total (K h lam mu y : R) : 0 <= K -> 0 < h -> 0 <= lam -> lam < mu -> 0 < y ->
  economic_production_quantity RO K h lam mu (Some y) = Some (y, K * lam / y + h * (1 - lam / mu) * y / 2).
Proof. exact (epq_eval_def o K h lam mu y). Qed.

(* ---- EOQ with additive yield uncertainty.  The code checks neither order_quantity nor yield_mean; the decision
   domain order_quantity + yield_mean > 0 and non-degeneracy 2 K lam + h sd^2 > 0 (otherwise Python divides 0 by 0) are stated. *)
Theorem C10_eoq_additive_yield_coherent (K h lam m s Q c : R) :
  eoq_with_additive_yield_uncertainty RO K h lam m s None = Some (Q, c) ->
  eoq_with_additive_yield_uncertainty RO K h lam m s (Some Q) = Some (Q, c).
Proof. exact (ay_coherent o K h lam m s Q c). Qed.
Theorem C10_eoq_additive_yield_optimal (K h lam m s Q c y y' cy : R) : 0 < 2 * K * lam + h * (s * s) -> 0 < y + m ->
  eoq_with_additive_yield_uncertainty RO K h lam m s None = Some (Q, c) ->
  eoq_with_additive_yield_uncertainty RO K h lam m s (Some y) = Some (y', cy) -> c <= cy.
Proof. exact (ay_optimal o K h lam m s Q c y y' cy). Qed.

(* ---- EOQ with multiplicative yield uncertainty (yield_mean > 0 and order_quantity > 0 are not checked by the code) *)
Theorem C10_eoq_multiplicative_yield_coherent (K h lam m s Q c : R) :
  eoq_with_multiplicative_yield_uncertainty RO K h lam m s None = Some (Q, c) ->
  eoq_with_multiplicative_yield_uncertainty RO K h lam m s (Some Q) = Some (Q, c).
Proof. exact (my_coherent o K h lam m s Q c). Qed.
Theorem C10_eoq_multiplicative_yield_optimal (K h lam m s Q c y y' cy : R) : 0 < K -> 0 < lam -> 0 < m -> 0 < y ->
  eoq_with_multiplicative_yield_uncertainty RO K h lam m s None = Some (Q, c) ->
  eoq_with_multiplicative_yield_uncertainty RO K h lam m s (Some y) = Some (y', cy) -> c <= cy.
Proof. exact (my_optimal o K h lam m s Q c y y' cy). Qed.

(* ---- EOQ with disruptions, approximate model: the closed-form Q and cost h Q agree with, and minimise, the
   approximate cost function eoq_with_disruptions_cost(..., approximate=True).  (demand_rate = 0 passes the guards and
   gives Q = 0: excluded.) *)
Theorem C10_eoqd_approx_coherent (K h p lam a b Q c : R) : 0 < lam ->
  eoq_with_disruptions__approximate_True RO K h p lam a b = Some (Q, c) -> eoq_with_disruptions_cost RO Q K h p lam a b true = Some c.
Proof. exact (eoqd_approx_coherent o K h p lam a b Q c). Qed.
Theorem C10_eoqd_approx_optimal (K h p lam a b Q c y cy : R) : 0 < lam ->
  eoq_with_disruptions__approximate_True RO K h p lam a b = Some (Q, c) -> eoq_with_disruptions_cost RO y K h p lam a b true = Some cy -> c <= cy.
Proof. exact (eoqd_approx_optimal o K h p lam a b Q c y cy). Qed.

(* ---- EOQ with disruptions, exact model: eoq_with_disruptions(approximate=False) widens a bracket with while loops and
   calls golden_section_search -- outside the translator's subset, so there is no definition to state a theorem about
   ([eoq_with_disruptions__approximate_True] above is the SAME Python function translated with approximate fixed to
   True, which makes only the closed-form branch reachable).  Coherence and optimality of the exact mode are checked by
   the oracle only (search). *)
End Deterministic.

(* ---- normal-demand newsvendors, relative to explicit hypotheses about scipy.stats.norm (cdf' = pdf, pdf' = -z pdf,
   pdf >= 0, cdf(ppf a) = a on (0,1)).  lead_time >= 0 is not checked by the code and is stated. *)
Section Normal.
Variable o : Oracles R.
Notation RO := (ROps o).
Hypothesis cdf_deriv : forall z, derivable_pt_lim (o_norm_cdf o) z (o_norm_pdf o z).
Hypothesis pdf_deriv : forall z, derivable_pt_lim (o_norm_pdf o) z (- z * o_norm_pdf o z).
Hypothesis pdf_nonneg : forall z, 0 <= o_norm_pdf o z.
Hypothesis cdf_ppf : forall a, 0 < a < 1 -> o_norm_cdf o (o_norm_ppf o a) = a.

Theorem C10_newsvendor_normal_coherent (h p m s L S c : R) : 0 <= L ->
  newsvendor_normal RO h p m s L None = Some (S, c) -> newsvendor_normal RO h p m s L (Some S) = Some (S, c).
Proof. exact (nvn_coherent o cdf_ppf h p m s L S c). Qed.
Theorem C10_newsvendor_normal_optimal (h p m s L S c y y' cy : R) : 0 <= L ->
  newsvendor_normal RO h p m s L None = Some (S, c) -> newsvendor_normal RO h p m s L (Some y) = Some (y', cy) -> c <= cy.
Proof. exact (nvn_optimal o cdf_deriv pdf_deriv pdf_nonneg cdf_ppf h p m s L S c y y' cy). Qed.
Theorem C10_newsvendor_normal_cost_is_eval (y h p m s L c : R) :
  newsvendor_normal_cost RO y h p m s L = Some c <-> newsvendor_normal RO h p m s L (Some y) = Some (y, c).
Proof. exact (nvc_is_eval o y h p m s L c). Qed.

(* explicit (profit) form: the optimum MAXIMISES the evaluated profit *)
Theorem C10_newsvendor_explicit_coherent (r c v m s h p L S pr : R) : 0 <= L ->
  newsvendor_normal_explicit RO r c v m s h p L None = Some (S, pr) -> newsvendor_normal_explicit RO r c v m s h p L (Some S) = Some (S, pr).
Proof. exact (nve_coherent o cdf_ppf r c v m s h p L S pr). Qed.
Theorem C10_newsvendor_explicit_optimal (r c v m s h p L S pr y y' pry : R) : 0 <= L ->
  newsvendor_normal_explicit RO r c v m s h p L None = Some (S, pr) ->
  newsvendor_normal_explicit RO r c v m s h p L (Some y) = Some (y', pry) -> pry <= pr.
Proof. exact (nve_optimal o cdf_deriv pdf_deriv pdf_nonneg cdf_ppf r c v m s h p L S pr y y' pry). Qed.

(* myopic: the guard admits -h <= c - gamma c' <= p; at either end the critical ratio is 0 or 1 and no finite minimiser
   exists, so optimality is stated for the strict inequalities *)
Theorem C10_myopic_coherent (h p c c' m s g S G : R) :
  myopic RO h p c c' m s g None = Some (S, G) ->
  myopic RO h p c c' m s g (Some S) = Some (S, G) /\ myopic_cost RO S h p c c' m s g = Some G.
Proof. exact (myopic_coherent o h p c c' m s g S G). Qed.
Theorem C10_myopic_optimal (h p c c' m s g S G y y' Gy : R) : - h < c - g * c' < p ->
  myopic RO h p c c' m s g None = Some (S, G) -> myopic RO h p c c' m s g (Some y) = Some (y', Gy) -> G <= Gy.
Proof. exact (myopic_optimal o cdf_deriv pdf_deriv pdf_nonneg cdf_ppf h p c c' m s g S G y y' Gy). Qed.
End Normal.

(* ---- Poisson newsvendor, relative to explicit hypotheses about scipy.stats.poisson at the given mean: pmf >= 0,
   cdf(k+1) = cdf(k) + pmf(k+1), (k+1) pmf(k+1) = mean pmf(k) for all integers k, ppf(a) = least integer with cdf >= a.
   Optimal over ALL integer base-stock levels (evaluation mode rejects non-integers). *)
Section Poisson.
Variable o : Oracles R.
Notation RO := (ROps o).
Variable m : R.
Hypothesis pmf_nonneg : forall k : Z, 0 <= o_poisson_pmf o (IZR k) m.
Hypothesis cdf_step : forall k : Z, o_poisson_cdf o (IZR (k + 1)) m = o_poisson_cdf o (IZR k) m + o_poisson_pmf o (IZR (k + 1)) m.
Hypothesis pmf_rec : forall k : Z, IZR (k + 1) * o_poisson_pmf o (IZR (k + 1)) m = m * o_poisson_pmf o (IZR k) m.
Hypothesis ppf_spec : forall a, 0 < a < 1 -> exists k : Z,
  o_poisson_ppf o a m = IZR k /\ a <= o_poisson_cdf o (IZR k) m /\ forall j, (j < k)%Z -> o_poisson_cdf o (IZR j) m < a.

Theorem C10_newsvendor_poisson_coherent (h p S c : R) :
  newsvendor_poisson RO h p m None = Some (S, c) -> newsvendor_poisson RO h p m (Some S) = Some (S, c).
Proof. exact (nvp_coherent o m h p S c). Qed.
Theorem C10_newsvendor_poisson_optimal (h p S c y y' cy : R) :
  newsvendor_poisson RO h p m None = Some (S, c) -> newsvendor_poisson RO h p m (Some y) = Some (y', cy) -> c <= cy.
Proof. exact (nvp_optimal o m pmf_nonneg cdf_step pmf_rec ppf_spec h p S c y y' cy). Qed.
End Poisson.

(* ---- discrete newsvendor with a pmf dict: hand-written model Alg/NVDiscrete.v over exact rationals (dict / while loop are
   outside the translator's subset), tied to /repo by exact correspondence.  Proved outright, closed under the global
   context: the returned level minimises h*nbar + p*n over ALL integers, for every holding_cost > 0, stockout_cost >= 0. *)
Open Scope Q_scope.
Theorem C10_newsvendor_discrete_coherent (h p : Q) (l : pmf) (S : Z) (c : Q) :
  newsvendor_discrete_pmf h p l None = Some (S, c) -> newsvendor_discrete_pmf h p l (Some S) = Some (S, c).
Proof. exact (nvdf_coherent h p l S c). Qed.
Theorem C10_newsvendor_discrete_optimal (h p : Q) (l : pmf) (S : Z) (c : Q) (y y' : Z) (cy : Q) :
  l <> [] -> keys_sorted l -> Forall (fun e => 0 <= snd e) l -> mass l == 1 ->
  newsvendor_discrete_pmf h p l None = Some (S, c) -> newsvendor_discrete_pmf h p l (Some y) = Some (y', cy) -> c <= cy.
Proof. exact (nvdf_optimal h p l S c y y' cy). Qed.

(* ---- non-vacuity *)
Example C10_nonvacuous_discrete :
  let l := [(1%Z, 1#2); (2%Z, 1#4); (3%Z, 1#4)] in
  keys_sorted l /\ mass l == 1 /\
  newsvendor_discrete_pmf 1 3 l None = Some (2%Z, nvd_cost 1 3 2 l) /\ nvd_cost 1 3 2 l == 5#4 /\ nvd_cost 1 3 1 l == 9#4 /\
  newsvendor_discrete_pmf 1 0 l None = Some (1%Z, nvd_cost 1 0 1 l) /\ nvd_cost 1 0 1 l == 0.
Proof. cbv zeta. split; [repeat constructor|]. vm_compute. repeat split; reflexivity. Qed.
Close Scope Q_scope.
(* the guards are satisfiable and both modes return: the textbook EOQ instance, at the reals ... *)
Example C10_nonvacuous_eoq (o : Oracles R) : exists Q c, 0 < Q /\ 0 < c /\
  economic_order_quantity (ROps o) 8 (9 / 40) 1300 None = Some (Q, c) /\
  economic_order_quantity (ROps o) 8 (9 / 40) 1300 (Some Q) = Some (Q, c) /\
  exists c2, economic_order_quantity (ROps o) 8 (9 / 40) 1300 (Some 100) = Some (100, c2) /\ c < c2.
Proof. exact (eoq_example o). Qed.
(* ... and the SAME translated term executed in binary64: (304.0467800264368, 68.41052550594829), the bits Python returns *)
Example C10_nonvacuous_eoq_float :
  option_map (fun r => (fobs (fst r), fobs (snd r))) (economic_order_quantity (FOps (FOracles [])) (FofZ 8) (FofQ (9 # 40)) (FofZ 1300) None)
  = Some ((0, 5348847520430703, -44)%Z, (0, 4813962768387633, -46)%Z).
Proof. vm_compute. reflexivity. Qed.

Print Assumptions C10_eoq_coherent.
Print Assumptions C10_eoq_optimal.
Print Assumptions C10_eoq_eval_total.
Print Assumptions C10_eoqb_coherent.
Print Assumptions C10_eoqb_optimal.
Print Assumptions C10_eoqb_eval_total.
Print Assumptions C10_epq_coherent.
Print Assumptions C10_epq_optimal.
Print Assumptions C10_epq_eval_total.
Print Assumptions C10_eoq_additive_yield_coherent.
Print Assumptions C10_eoq_additive_yield_optimal.
Print Assumptions C10_eoq_multiplicative_yield_coherent.
Print Assumptions C10_eoq_multiplicative_yield_optimal.
Print Assumptions C10_eoqd_approx_coherent.
Print Assumptions C10_eoqd_approx_optimal.
Print Assumptions C10_newsvendor_normal_coherent.
Print Assumptions C10_newsvendor_normal_optimal.
Print Assumptions C10_newsvendor_normal_cost_is_eval.
Print Assumptions C10_newsvendor_explicit_coherent.
Print Assumptions C10_newsvendor_explicit_optimal.
Print Assumptions C10_myopic_coherent.
Print Assumptions C10_myopic_optimal.
Print Assumptions C10_newsvendor_poisson_coherent.
Print Assumptions C10_newsvendor_poisson_optimal.
Print Assumptions C10_newsvendor_discrete_coherent.
Print Assumptions C10_newsvendor_discrete_optimal.
