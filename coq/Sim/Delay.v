(* C03, positional form for orders: the order a node places with a predecessor in period t is the inbound order the
   predecessor receives from it in period t + (order lead time of the node). Delay-line argument:
   per period, the edge's order pipeline gets the new order in its last slot (the customer's ordering step), then the
   supplier reads and clears slot 0 (later in the same traversal), then the end-of-period shift drops slot 0. *)
From SV Require Import Sim.Model Sim.StateLemmas Sim.Inv_base Sim.Inv_book Sim.Inv_pipe Sim.Inv_node Sim.Inv_init Sim.Inv_run Sim.Inv_bound Sim.Single Sim.Policy_thms.

(* ---- generic frame predicate: a field of the rational map is not written ---- *)
Definition QF (f : fld) (s s' : st) : Prop := forall n x, gq s' (f, n, x) = gq s (f, n, x).
Lemma QF_refl f s : QF f s s.  Proof. intros n x. reflexivity. Qed.
Lemma QF_sq f s0 s g n x v : g <> f -> QF f s0 s -> QF f s0 (sq s (g, n, x) v).
Proof. intros Hg H m y. rewrite gq_sq_other by (intro E; inversion E; subst; contradiction). apply H. Qed.
Lemma QF_addq f s0 s g n x v : g <> f -> QF f s0 s -> QF f s0 (addq s (g, n, x) v).
Proof. intros. unfold addq. apply QF_sq; assumption. Qed.
Lemma QF_sl f s0 s k v : QF f s0 s -> QF f s0 (sl s k v).
Proof. intros H m y. rewrite gq_sl. apply H. Qed.
Ltac qf := repeat first [apply QF_sl | apply QF_sq; [discriminate|] | apply QF_addq; [discriminate|] | apply QF_refl | assumption].

Section Delay.
Variable (NW : net).
Notation C := (cfg NW).
Hypothesis WF : wf_net NW.
Hypothesis WG : wf_graph NW.
Hypothesis VO : visit_ok NW.
Hypothesis WO : forall n, ~ In n (nodes NW) ->
  preds (C n) = [] /\ succs (C n) = [] /\ ext_sup (C n) = false /\ has_dem (C n) = false /\ il0 NW n == 0.
Variables (p n : N).
Hypothesis Hpn : In p (preds (C n)).
Notation L := (olt (C n)).
Notation kOP := (fOP, p, Nd n).
Notation kIO := (fIO, p, Nd n).
Notation kOQ := (fOQ, n, Nd p).

Variable (dis : N -> bool) (dem : N -> Q).

Lemma ships_frame f s m : f = fIO \/ f = fOQ -> QF f s (ships_action NW dis s m).
Proof. intros Hf. unfold ships_action.
  assert (H1 : QF f s (recv_ship NW dis s m)) by (unfold recv_ship; apply fold_left_inv; [intros a x _ Ha; unfold recv_ship_one; destruct Hf; subst f; qf|apply QF_refl]).
  assert (H2 : QF f s (fst (produce NW (recv_ship NW dis s m) m))).
  { unfold produce. cbn [fst]. destruct Hf; subst f; qf; (apply fold_left_inv; [intros a x _ Ha; qf|exact H1]). }
  destruct (produce NW (recv_ship NW dis s m) m) as [s2 made]. cbn [fst] in H2. unfold fill_rate.
  destruct Hf; subst f; qf; unfold serve;
  (apply (fold_left_inv (fun a => QF _ s (fst a))); [|cbn [fst]; qf]);
  intros [a oh] c _ Ha; cbn [fst] in Ha; unfold serve_one; set (o := serve_calc _ _ _ _ _); destruct c; cbn [fst]; qf. Qed.

(* other nodes' ordering steps do not touch the edge's keys *)
Lemma orders_frame s m : m <> n -> m <> p ->
  gl (orders_action NW dis dem s m) kOP = gl s kOP /\ gq (orders_action NW dis dem s m) kIO = gq s kIO /\ gq (orders_action NW dis dem s m) kOQ = gq s kOQ.
Proof. intros Hn Hp. unfold orders_action.
  set (s1 := recv_orders NW (gen_demand NW dem s m) m).
  assert (A : gl s1 kOP = gl s kOP /\ gq s1 kIO = gq s kIO /\ gq s1 kOQ = gq s kOQ).
  { unfold s1, recv_orders. apply (fold_left_inv (fun a => gl a kOP = gl s kOP /\ gq a kIO = gq s kIO /\ gq a kOQ = gq s kOQ)).
    - intros a c _ (A1 & A2 & A3). unfold recv_order_one. gs. rewrite ?gl_sl_other by (intro E; inversion E; subst; contradiction).
      rewrite ?gq_sq_other by (intro E; inversion E; subst; contradiction). gs. repeat split; assumption.
    - unfold gen_demand. destruct (has_dem (C m)); [|repeat split; reflexivity]. rewrite gl_sl_other by discriminate. rewrite !gq_sl. repeat split; reflexivity. }
  destruct A as (A1 & A2 & A3). rewrite <- A1, <- A2, <- A3.
  unfold place_order. destruct (disk NW dis m dOP); [repeat split; reflexivity|].
  apply (fold_left_inv (fun a => gl a kOP = gl s1 kOP /\ gq a kIO = gq s1 kIO /\ gq a kOQ = gq s1 kOQ)); [|gs; repeat split; reflexivity].
  intros a q _ (B1 & B2 & B3). unfold place_one. destruct q as [|q'].
  - gs. rewrite ?gl_sl_other by discriminate. rewrite ?gq_addq_other by (intro E; inversion E; subst; contradiction). gs. repeat split; assumption.
  - gs. rewrite ?gl_sl_other by (intro E; inversion E; subst; contradiction). rewrite ?gq_addq_other by (intro E; inversion E; subst; contradiction). gs. repeat split; assumption. Qed.

Lemma topo_no_self l x : topo NW l -> In x l -> ~ In x (preds (C x)).
Proof. induction 1 as [|a r H1 H2 H3 IH]; intros Hx; [destruct Hx|]. destruct Hx as [E|Hx]; [subst; exact H1|apply IH; exact Hx]. Qed.
Lemma n_in_nodes : In n (nodes NW).
Proof. apply (sup_in_nodes NW WO n (Nd p)). apply in_sup_nd. exact Hpn. Qed.
Lemma p_in_nodes : In p (nodes NW).
Proof. apply (cus_in_nodes NW WO p (Nd n)). apply in_cus_nd. apply (wg_sym NW WG). exact Hpn. Qed.
Lemma n_neq_p : n <> p.
Proof. intro E. assert (H : In n (preds (C n))) by (rewrite E at 1; exact Hpn).
  apply (topo_no_self (order_visit NW) n (vo_topo NW VO)); [apply (vo_ord NW VO); apply n_in_nodes|exact H]. Qed.

Lemma leq_add_at_zero i d l : d == 0 -> leq l (add_at i d l).
Proof. intros Hd. revert i. induction l as [|a r IH]; intros [|i]; cbn [add_at]; constructor; try lra; try apply leq_refl; apply IH. Qed.

(* the customer's ordering step: the order goes into slot L of the edge's pipeline *)
Lemma place_fold oq : forall l s0, NoDup l ->
  let s' := fold_left (place_one NW n oq) l s0 in
  gl s' kOP = (if in_dec nb_eq_dec (Nd p) l then add_at L oq (gl s0 kOP) else gl s0 kOP) /\
  gq s' kOQ = (if in_dec nb_eq_dec (Nd p) l then gq s0 kOQ + oq else gq s0 kOQ) /\
  gq s' kIO = gq s0 kIO.
Proof. induction l as [|q r IH]; intros s0 ND; cbn [fold_left].
  - destruct (in_dec nb_eq_dec (Nd p) []) as [[]|_]. repeat split; reflexivity.
  - inversion ND as [|? ? Hq Hr]; subst. destruct (IH (place_one NW n oq s0 q) Hr) as (I1 & I2 & I3). rewrite I1, I2, I3. clear I1 I2 I3.
    destruct (nb_eq_dec q (Nd p)) as [E|NE].
    + subst q. destruct (in_dec nb_eq_dec (Nd p) r) as [X|_]; [contradiction|].
      destruct (in_dec nb_eq_dec (Nd p) (Nd p :: r)) as [_|X]; [|exfalso; apply X; left; reflexivity].
      unfold place_one. gs. repeat split; reflexivity.
    + assert (K1 : gl (place_one NW n oq s0 q) kOP = gl s0 kOP).
      { unfold place_one. destruct q as [|q']; gs; [rewrite ?gl_sl_other by discriminate; reflexivity|].
        rewrite ?gl_sl_other by (intro E; inversion E; subst; apply NE; reflexivity). reflexivity. }
      assert (K2 : gq (place_one NW n oq s0 q) kOQ = gq s0 kOQ).
      { unfold place_one. destruct q as [|q']; gs; rewrite ?gq_addq_other by (intro E; inversion E; subst; apply NE; reflexivity); gs; reflexivity. }
      assert (K3 : gq (place_one NW n oq s0 q) kIO = gq s0 kIO) by (unfold place_one; destruct q; gs; reflexivity).
      rewrite K1, K2, K3.
      destruct (in_dec nb_eq_dec (Nd p) r) as [X|X]; destruct (in_dec nb_eq_dec (Nd p) (q :: r)) as [Y|Y]; try (repeat split; reflexivity).
      * exfalso. apply Y. right. exact X.
      * exfalso. destruct Y as [Y|Y]; [apply NE; exact Y|contradiction]. Qed.

Lemma orders_effect_n s : let s' := orders_action NW dis dem s n in
  gq s' kIO = gq s kIO /\ leq (gl s' kOP) (add_at L (gq s' kOQ - gq s kOQ) (gl s kOP)).
Proof. cbv zeta. pose proof n_neq_p as NP. unfold orders_action.
  set (s1 := recv_orders NW (gen_demand NW dem s n) n).
  assert (A : gl s1 kOP = gl s kOP /\ gq s1 kIO = gq s kIO /\ gq s1 kOQ = gq s kOQ).
  { unfold s1, recv_orders. apply (fold_left_inv (fun a => gl a kOP = gl s kOP /\ gq a kIO = gq s kIO /\ gq a kOQ = gq s kOQ)).
    - intros a c _ (A1 & A2 & A3). unfold recv_order_one. gs. rewrite ?gl_sl_other by (intro E; inversion E; subst; contradiction).
      rewrite ?gq_sq_other by (intro E; inversion E; subst; contradiction). gs. repeat split; assumption.
    - unfold gen_demand. destruct (has_dem (C n)); [|repeat split; reflexivity]. rewrite gl_sl_other by discriminate. rewrite !gq_sl. repeat split; reflexivity. }
  destruct A as (A1 & A2 & A3). rewrite <- A1, <- A2, <- A3.
  unfold place_order. destruct (disk NW dis n dOP).
  - split; [reflexivity|]. apply leq_add_at_zero. lra.
  - set (oq := order_qty NW s1 n). set (s2 := addq (addq s1 (fOQFG, n, Ext) oq) (fPFG, n, Ext) oq).
    destruct (place_fold oq (suppliers (C n)) s2 (wf_sup NW WF n)) as (P1 & P2 & P3). cbv zeta in P1, P2, P3.
    destruct (in_dec nb_eq_dec (Nd p) (suppliers (C n))) as [_|X]; [|exfalso; apply X; apply in_sup_nd; exact Hpn].
    rewrite P1, P2, P3. unfold s2. gs. split; [reflexivity|]. apply leq_add_at; [lra|apply leq_refl]. Qed.

(* the supplier's ordering step: it reads and clears slot 0 *)
Lemma recv_fold : forall l s0, NoDup l ->
  let s' := fold_left (recv_order_one p) l s0 in
  gl s' kOP = (if in_dec nb_eq_dec (Nd n) l then zero0 (gl s0 kOP) else gl s0 kOP) /\
  gq s' kIO = (if in_dec nb_eq_dec (Nd n) l then hd0 (gl s0 kOP) else gq s0 kIO) /\
  gq s' kOQ = gq s0 kOQ.
Proof. induction l as [|c r IH]; intros s0 ND; cbn [fold_left].
  - destruct (in_dec nb_eq_dec (Nd n) []) as [[]|_]. repeat split; reflexivity.
  - inversion ND as [|? ? Hc Hr]; subst. destruct (IH (recv_order_one p s0 c) Hr) as (I1 & I2 & I3). rewrite I1, I2, I3. clear I1 I2 I3.
    assert (K3 : gq (recv_order_one p s0 c) kOQ = gq s0 kOQ) by (unfold recv_order_one; gs; reflexivity). rewrite K3.
    destruct (nb_eq_dec c (Nd n)) as [E|NE].
    + subst c. destruct (in_dec nb_eq_dec (Nd n) r) as [X|_]; [contradiction|].
      destruct (in_dec nb_eq_dec (Nd n) (Nd n :: r)) as [_|X]; [|exfalso; apply X; left; reflexivity].
      unfold recv_order_one. gs. repeat split; reflexivity.
    + assert (K1 : gl (recv_order_one p s0 c) kOP = gl s0 kOP).
      { unfold recv_order_one. gs. rewrite ?gl_sl_other by (intro E; inversion E; subst; apply NE; reflexivity). reflexivity. }
      assert (K2 : gq (recv_order_one p s0 c) kIO = gq s0 kIO).
      { unfold recv_order_one. gs. rewrite ?gq_sq_other by (intro E; inversion E; subst; apply NE; reflexivity). reflexivity. }
      rewrite K1, K2.
      destruct (in_dec nb_eq_dec (Nd n) r) as [X|X]; destruct (in_dec nb_eq_dec (Nd n) (c :: r)) as [Y|Y]; try (repeat split; reflexivity).
      * exfalso. apply Y. right. exact X.
      * exfalso. destruct Y as [Y|Y]; [apply NE; exact Y|contradiction]. Qed.

Lemma orders_effect_p s : let s' := orders_action NW dis dem s p in
  gq s' kOQ = gq s kOQ /\ gq s' kIO = hd0 (gl s kOP) /\ gl s' kOP = zero0 (gl s kOP).
Proof. cbv zeta. pose proof n_neq_p as NP. unfold orders_action.
  set (s0 := gen_demand NW dem s p).
  assert (G : gl s0 kOP = gl s kOP /\ gq s0 kIO = gq s kIO /\ gq s0 kOQ = gq s kOQ).
  { unfold s0, gen_demand. destruct (has_dem (C p)); [|repeat split; reflexivity]. rewrite gl_sl_other by discriminate. rewrite !gq_sl. repeat split; reflexivity. }
  destruct G as (G1 & G2 & G3).
  destruct (recv_fold (customers (C p)) s0 (wf_cus NW WF p)) as (R1 & R2 & R3). cbv zeta in R1, R2, R3.
  destruct (in_dec nb_eq_dec (Nd n) (customers (C p))) as [_|X]; [|exfalso; apply X; apply in_cus_nd; apply (wg_sym NW WG); exact Hpn].
  unfold recv_orders. set (s1 := fold_left (recv_order_one p) (customers (C p)) s0) in *.
  rewrite <- G1, <- G3. rewrite <- R1, <- R2, <- R3.
  unfold place_order. destruct (disk NW dis p dOP); [repeat split; reflexivity|].
  apply (fold_left_inv (fun a => gq a kOQ = gq s1 kOQ /\ gq a kIO = gq s1 kIO /\ gl a kOP = gl s1 kOP)); [|gs; repeat split; reflexivity].
  intros a q _ (B1 & B2 & B3). unfold place_one. destruct q as [|q'].
  - gs. rewrite ?gl_sl_other by discriminate. rewrite ?gq_addq_other by (intro E; inversion E; subst; apply NP; reflexivity). gs. repeat split; assumption.
  - gs. rewrite ?gl_sl_other by (intro E; inversion E; subst; apply NP; reflexivity). rewrite ?gq_addq_other by (intro E; inversion E; subst; apply NP; reflexivity). gs. repeat split; assumption. Qed.

(* ---- the whole orders phase, then the rest of the period ---- *)
Lemma topo_app a b : topo NW (a ++ b) -> forall x m, In x a -> In m b -> ~ In x (preds (C m)).
Proof. induction a as [|y r IH]; intros T x m Hx Hm; [destruct Hx|]. cbn [app] in T. inversion T as [|? ? T1 T2 T3]; subst.
  destruct Hx as [E|Hx]; [subst; apply T2; apply in_or_app; right; exact Hm|apply IH; assumption]. Qed.

Lemma nodup_app_inv {A} (a b : list A) : NoDup (a ++ b) -> NoDup a /\ NoDup b /\ (forall x, In x a -> ~ In x b).
Proof. induction a as [|y r IH]; cbn [app]; intros H; [split; [constructor|split; [exact H|intros x []]]|].
  inversion H as [|? ? Hy Hr]; subst. destruct (IH Hr) as (I1 & I2 & I3). split; [|split].
  - constructor; [intro X; apply Hy; apply in_or_app; left; exact X|exact I1].
  - exact I2.
  - intros x [E|Hx]; [subst; intro X; apply Hy; apply in_or_app; right; exact X|apply I3; exact Hx]. Qed.

Lemma split_two l : NoDup l -> topo NW l -> In n l -> In p l ->
  exists l1 l2 l3, l = l1 ++ n :: l2 ++ p :: l3 /\ ~ In n l1 /\ ~ In p l1 /\ ~ In n l2 /\ ~ In p l2 /\ ~ In n l3 /\ ~ In p l3.
Proof. intros ND T Hn Hp. pose proof n_neq_p as NP.
  destruct (in_split n l Hn) as (a & b & E). subst l.
  destruct (nodup_app_inv a (n :: b) ND) as (NDa & NDnb & Dab). inversion NDnb as [|? ? Hnb NDb]; subst.
  assert (Hna : ~ In n a) by (intro X; apply (Dab n X); left; reflexivity).
  assert (Hpb : In p b).
  { apply in_app_or in Hp. destruct Hp as [Hp|[Hp|Hp]]; [|exfalso; apply NP; exact Hp|exact Hp].
    exfalso. apply (topo_app a (n :: b) T p n Hp (or_introl eq_refl)). exact Hpn. }
  assert (Hpa : ~ In p a) by (intro X; apply (Dab p X); right; exact Hpb).
  destruct (in_split p b Hpb) as (c & d & E). subst b.
  destruct (nodup_app_inv c (p :: d) NDb) as (NDc & NDpd & Dcd). inversion NDpd as [|? ? Hpd NDd]; subst.
  exists a, c, d. split; [reflexivity|]. repeat split.
  - exact Hna.
  - exact Hpa.
  - intro X. apply Hnb. apply in_or_app. left. exact X.
  - intro X. apply (Dcd p X). left. reflexivity.
  - intro X. apply Hnb. apply in_or_app. right. right. exact X.
  - exact Hpd. Qed.

Lemma orders_fold_frame l s : ~ In n l -> ~ In p l ->
  gl (fold_left (orders_action NW dis dem) l s) kOP = gl s kOP /\ gq (fold_left (orders_action NW dis dem) l s) kIO = gq s kIO
  /\ gq (fold_left (orders_action NW dis dem) l s) kOQ = gq s kOQ.
Proof. intros Hn Hp. apply (fold_left_inv (fun a => gl a kOP = gl s kOP /\ gq a kIO = gq s kIO /\ gq a kOQ = gq s kOQ)); [|repeat split; reflexivity].
  intros a m Hm (A1 & A2 & A3). destruct (orders_frame a m) as (F1 & F2 & F3); [intro E; subst; contradiction|intro E; subst; contradiction|].
  rewrite F1, F2, F3. repeat split; assumption. Qed.

Theorem orders_phase_edge s : let s1 := fold_left (orders_action NW dis dem) (order_visit NW) s in
  let d := gq s1 kOQ - gq s kOQ in
  leq (gl s1 kOP) (zero0 (add_at L d (gl s kOP))) /\ gq s1 kIO == hd0 (add_at L d (gl s kOP)).
Proof. cbv zeta.
  destruct (split_two (order_visit NW) (vo_nd_ord NW VO) (vo_topo NW VO) (vo_ord NW VO n n_in_nodes) (vo_ord NW VO p p_in_nodes))
    as (l1 & l2 & l3 & E & N1 & P1 & N2 & P2 & N3 & P3).
  rewrite E. rewrite fold_left_app. cbn [fold_left]. rewrite fold_left_app. cbn [fold_left].
  set (a := fold_left (orders_action NW dis dem) l1 s).
  set (b := orders_action NW dis dem a n).
  set (c := fold_left (orders_action NW dis dem) l2 b).
  set (e := orders_action NW dis dem c p).
  destruct (orders_fold_frame l1 s N1 P1) as (A1 & A2 & A3). fold a in A1, A2, A3.
  destruct (orders_effect_n a) as (B2 & B1). fold b in B1, B2.
  destruct (orders_fold_frame l2 b N2 P2) as (C1 & C2 & C3). fold c in C1, C2, C3.
  destruct (orders_effect_p c) as (E3 & E2 & E1). fold e in E1, E2, E3.
  destruct (orders_fold_frame l3 e N3 P3) as (F1 & F2 & F3).
  rewrite F1, F2, F3, E1, E2, E3, C1, C3. rewrite A1, A3 in B1.
  split; [apply leq_zero0; exact B1|apply leq_hd0; exact B1]. Qed.

(* the shipments phase and the costs do not touch the edge's order keys *)
Lemma run_actions_edge s : let e := run_actions NW dis dem s in
  let d := gq e kOQ - gq s kOQ in
  leq (gl e kOP) (zero0 (add_at L d (gl s kOP))) /\ gq e kIO == hd0 (add_at L d (gl s kOP)).
Proof. cbv zeta. unfold run_actions. set (s1 := fold_left (orders_action NW dis dem) (order_visit NW) s).
  assert (G : gl (fold_left (ships_action NW dis) (ship_visit NW) s1) kOP = gl s1 kOP /\
              gq (fold_left (ships_action NW dis) (ship_visit NW) s1) kIO = gq s1 kIO /\
              gq (fold_left (ships_action NW dis) (ship_visit NW) s1) kOQ = gq s1 kOQ).
  { apply (fold_left_inv (fun a => gl a kOP = gl s1 kOP /\ gq a kIO = gq s1 kIO /\ gq a kOQ = gq s1 kOQ)); [|repeat split; reflexivity].
    intros a m _ (G1 & G2 & G3). rewrite (ships_action_op NW dis a m fOP p (Nd n) eq_refl).
    rewrite (ships_frame fIO a m (or_introl eq_refl) p (Nd n)). rewrite (ships_frame fOQ a m (or_intror eq_refl) n (Nd p)). repeat split; assumption. }
  destruct G as (G1 & G2 & G3). rewrite G1, G2, G3. apply orders_phase_edge. Qed.

(* ---- end of period: the edge's pipeline is shifted (slot 0 dropped), the per-period fields are reset ---- *)
Definition cstep (m : N) (s : st) (x : nb) : st :=
  let s := addq s (fLOST, m, x) (hd0 (gl s (fOP, m, x))) in
  let s := sl s (fOP, m, x) (shift_op (gl s (fOP, m, x))) in
  sq (sq s (fIO, m, x) 0) (fOS, m, x) 0.
Definition sstep (m : N) (s : st) (q : nb) : st :=
  let s := if disk NW dis m dTP then s else sl s (fSP, m, q) (shift_sp (gl s (fSP, m, q))) in
  sq (sq s (fIS, m, q) 0) (fOQ, m, q) 0.
Lemma next_node_unfold s m : next_node NW dis s m =
  sq (sq (sq (fold_left (cstep m) (customers (C m)) (fold_left (sstep m) (suppliers (C m)) s)) (fOQFG, m, Ext) 0) (fDMFS, m, Ext) 0) (fFR, m, Ext) 0.
Proof. reflexivity. Qed.

Lemma cstep_fold : forall l s0, NoDup l ->
  let s' := fold_left (cstep p) l s0 in
  gl s' kOP = (if in_dec nb_eq_dec (Nd n) l then shift_op (gl s0 kOP) else gl s0 kOP) /\
  gq s' kIO = (if in_dec nb_eq_dec (Nd n) l then 0 else gq s0 kIO).
Proof. induction l as [|c r IH]; intros s0 ND; cbn [fold_left].
  - destruct (in_dec nb_eq_dec (Nd n) []) as [[]|_]. split; reflexivity.
  - inversion ND as [|? ? Hc Hr]; subst. destruct (IH (cstep p s0 c) Hr) as (I1 & I2). rewrite I1, I2. clear I1 I2.
    destruct (nb_eq_dec c (Nd n)) as [E|NE].
    + subst c. destruct (in_dec nb_eq_dec (Nd n) r) as [X|_]; [contradiction|].
      destruct (in_dec nb_eq_dec (Nd n) (Nd n :: r)) as [_|X]; [|exfalso; apply X; left; reflexivity].
      unfold cstep. rewrite !gl_sq, gl_sl_same, gl_addq. rewrite gq_sq_other by discriminate. rewrite gq_sq_same. split; reflexivity.
    + assert (K1 : gl (cstep p s0 c) kOP = gl s0 kOP).
      { unfold cstep. rewrite !gl_sq. rewrite gl_sl_other by (intro E; inversion E; subst; apply NE; reflexivity). apply gl_addq. }
      assert (K2 : gq (cstep p s0 c) kIO = gq s0 kIO).
      { unfold cstep. rewrite gq_sq_other by discriminate. rewrite gq_sq_other by (intro E; inversion E; subst; apply NE; reflexivity). rewrite gq_sl. apply gq_addq_other. discriminate. }
      rewrite K1, K2.
      destruct (in_dec nb_eq_dec (Nd n) r) as [X|X]; destruct (in_dec nb_eq_dec (Nd n) (c :: r)) as [Y|Y]; try (split; reflexivity).
      * exfalso. apply Y. right. exact X.
      * exfalso. destruct Y as [Y|Y]; [apply NE; exact Y|contradiction]. Qed.

Lemma next_node_p_effect s : gl (next_node NW dis s p) kOP = shift_op (gl s kOP) /\ gq (next_node NW dis s p) kIO = 0.
Proof. rewrite next_node_unfold. rewrite !gl_sq. rewrite !gq_sq_other by discriminate.
  set (s1 := fold_left (sstep p) (suppliers (C p)) s).
  assert (S1 : gl s1 kOP = gl s kOP).
  { unfold s1. apply (fold_left_inv (fun a => gl a kOP = gl s kOP)); [|reflexivity]. intros a q _ Ha. unfold sstep. rewrite !gl_sq.
    destruct (disk NW dis p dTP); [exact Ha|]. rewrite gl_sl_other by discriminate. exact Ha. }
  destruct (cstep_fold (customers (C p)) s1 (wf_cus NW WF p)) as [K1 K2]. cbv zeta in K1, K2.
  destruct (in_dec nb_eq_dec (Nd n) (customers (C p))) as [_|X]; [|exfalso; apply X; apply in_cus_nd; apply (wg_sym NW WG); exact Hpn].
  rewrite K1, K2, S1. split; reflexivity. Qed.

Lemma sstep_fold : forall l s0, In (Nd p) l -> gq (fold_left (sstep n) l s0) kOQ = 0.
Proof. induction l as [|q r IH]; intros s0 Hin; [destruct Hin|]. cbn [fold_left].
  destruct (in_dec nb_eq_dec (Nd p) r) as [X|X]; [apply IH; exact X|]. destruct Hin as [E|Hin]; [subst q|contradiction].
  apply (fold_left_inv (fun a => gq a kOQ = 0)).
  - intros a x Hx Ha. unfold sstep. destruct (nb_eq_dec x (Nd p)) as [E|NE]; [subst; contradiction|].
    rewrite gq_sq_other by (intro E; inversion E; subst; apply NE; reflexivity). rewrite gq_sq_other by discriminate.
    destruct (disk NW dis n dTP); [exact Ha|rewrite gq_sl; exact Ha].
  - unfold sstep. apply gq_sq_same. Qed.

Lemma next_node_n_effect s : gq (next_node NW dis s n) kOQ = 0.
Proof. rewrite next_node_unfold. rewrite !gq_sq_other by discriminate.
  apply (fold_left_inv (fun a => gq a kOQ = 0)).
  - intros a x _ Ha. unfold cstep. rewrite !gq_sq_other by discriminate. rewrite gq_sl. rewrite gq_addq_other by discriminate. exact Ha.
  - apply sstep_fold. apply in_sup_nd. exact Hpn. Qed.

Lemma next_period_edge e : gl (next_period NW dis e) kOP = shift_op (gl e kOP) /\ gq (next_period NW dis e) kOQ = 0.
Proof. unfold next_period. pose proof n_neq_p as NP.
  assert (A : forall l a, ~ In p l -> gl (fold_left (next_node NW dis) l a) kOP = gl a kOP).
  { induction l as [|m r IH]; intros a Hn; [reflexivity|]. cbn [fold_left]. rewrite IH by (intro X; apply Hn; right; exact X).
    apply (next_node_other NW dis a m kOP). cbn. intro E. apply Hn. left. symmetry. exact E. }
  assert (B : forall l a, ~ In n l -> gq (fold_left (next_node NW dis) l a) kOQ = gq a kOQ).
  { induction l as [|m r IH]; intros a Hn; [reflexivity|]. cbn [fold_left]. rewrite IH by (intro X; apply Hn; right; exact X).
    apply (next_node_other NW dis a m kOQ). cbn. intro E. apply Hn. left. symmetry. exact E. }
  split.
  - destruct (in_split p (nodes NW) p_in_nodes) as (l1 & l2 & E). pose proof (vo_nodup NW VO) as ND. rewrite E in *.
    destruct (nodup_app_inv l1 (p :: l2) ND) as (_ & ND2 & D). inversion ND2 as [|? ? H2 _]; subst.
    rewrite fold_left_app. cbn [fold_left]. rewrite A by exact H2. rewrite (proj1 (next_node_p_effect _)).
    rewrite A; [reflexivity|]. intro X. apply (D p X). left. reflexivity.
  - destruct (in_split n (nodes NW) n_in_nodes) as (l1 & l2 & E). pose proof (vo_nodup NW VO) as ND. rewrite E in *.
    destruct (nodup_app_inv l1 (n :: l2) ND) as (_ & ND2 & D). inversion ND2 as [|? ? H2 _]; subst.
    rewrite fold_left_app. cbn [fold_left]. rewrite B by exact H2. apply next_node_n_effect. Qed.
End Delay.

(* ---- the delay line ---- *)
Lemma leq_shift_op a b : leq a b -> leq (shift_op a) (shift_op b).
Proof. intros H. inversion H; subst; cbn [shift_op]; [constructor|]. apply leq_app; [assumption|apply leq_refl]. Qed.

Inductive DL : list Q -> list (Q * Q) -> Prop :=
  | DL_nil w : DL w []
  | DL_cons w io oq r : io == hd0 (w ++ [oq]) -> DL (nextw w oq) r -> DL w ((io, oq) :: r).

Lemma nextw_length w d : length (nextw w d) = length w.
Proof. unfold nextw. destruct w; cbn [app tl length]; [reflexivity|]. rewrite app_length. cbn [length]. lia. Qed.

(* the output of period t is the t-th element of (initial content ++ the orders pushed so far) *)
Lemma DL_output : forall l w t, DL w l -> (t < length l)%nat -> fst (nth t l (0, 0)) == nth t (w ++ map snd l) 0.
Proof. induction l as [|[io oq] r IH]; intros w t H Ht; cbn [length] in Ht; [lia|]. inversion H as [|? ? ? ? Hio Hr]; subst.
  destruct t as [|t'].
  - cbn [nth fst map snd]. rewrite Hio. destruct w; cbn [app hd0 nth]; reflexivity.
  - cbn [nth]. rewrite (IH (nextw w oq) t' Hr) by lia. cbn [map snd]. unfold nextw.
    replace (w ++ oq :: map snd r) with ((w ++ [oq]) ++ map snd r) by (rewrite <- app_assoc; reflexivity).
    destruct (w ++ [oq]) as [|a x] eqn:E; [destruct w; discriminate|]. cbn [tl app nth]. reflexivity. Qed.

Theorem DL_delay l w t : DL w l -> (t + length w < length l)%nat -> fst (nth (t + length w) l (0, 0)) == snd (nth t l (0, 0)).
Proof. intros H Ht. rewrite (DL_output l w (t + length w) H Ht). rewrite app_nth2 by lia.
  replace (t + length w - length w)%nat with t by lia.
  rewrite <- (map_nth snd l (0, 0) t). reflexivity. Qed.

Section DelayRun.
Variable (NW : net).
Notation C := (cfg NW).
Hypothesis WF : wf_net NW.
Hypothesis WG : wf_graph NW.
Hypothesis VO : visit_ok NW.
Hypothesis WO : forall n, ~ In n (nodes NW) ->
  preds (C n) = [] /\ succs (C n) = [] /\ ext_sup (C n) = false /\ has_dem (C n) = false /\ il0 NW n == 0.
Variables (p n : N).
Hypothesis Hpn : In p (preds (C n)).
Notation L := (olt (C n)).
Notation kOP := (fOP, p, Nd n).
Notation kIO := (fIO, p, Nd n).
Notation kOQ := (fOQ, n, Nd p).

Definition edge_obs (e : st) : Q * Q := (gq e kIO, gq e kOQ).

Lemma edge_run_from : forall inputs s w, length w = L -> leq (gl s kOP) (w ++ [0]) -> gq s kOQ == 0 ->
  DL w (map edge_obs (run_from NW s inputs)).
Proof. induction inputs as [|[dis dem] r IH]; intros s w Hl Hsp Hoq; cbn [run_from map]; [constructor|].
  set (e := run_actions NW dis dem s).
  destruct (run_actions_edge NW WF WG VO WO p n Hpn dis dem s) as [E1 E2]. fold e in E1, E2.
  set (o := gq e kOQ) in *.
  assert (Ed : gq e kOQ - gq s kOQ == o) by (unfold o; rewrite Hoq; lra). fold o in Ed.
  assert (A : leq (add_at L (o - gq s kOQ) (gl s kOP)) (w ++ [0 + o])).
  { rewrite <- Hl. rewrite <- add_at_last. apply leq_add_at; [exact Ed|exact Hsp]. }
  unfold edge_obs at 1. fold o. constructor.
  - rewrite E2. rewrite (leq_hd0 _ _ A). destruct w; cbn [app hd0]; lra.
  - apply IH.
    + rewrite nextw_length. exact Hl.
    + destruct (next_period_edge NW WF WG VO WO p n Hpn dis e) as [N1 _]. rewrite N1.
      apply (leq_trans _ (shift_op (zero0 (w ++ [0 + o])))); [apply leq_shift_op, (leq_trans _ _ _ E1), leq_zero0, A|].
      unfold nextw. destruct w as [|a x]; cbn [app zero0 shift_op tl].
      * constructor; [reflexivity|constructor].
      * apply leq_app; [|apply leq_refl]. apply leq_app; [apply leq_refl|constructor; [lra|constructor]].
    + destruct (next_period_edge NW WF WG VO WO p n Hpn dis e) as [_ N2]. rewrite N2. reflexivity. Qed.

(* the order placed in period t is the inbound order of period t + L; during the first L periods the supplier
   receives the node's initial orders *)
Theorem order_delay inputs t : (t + L < length inputs)%nat ->
  gq (nth (t + L) (run NW inputs) empty_st) kIO == gq (nth t (run NW inputs) empty_st) kOQ.
Proof. intros Ht. unfold run.
  assert (Hc : In (Nd n) (customers (C p))) by (apply in_cus_nd; apply (wg_sym NW WG); exact Hpn).
  destruct (init_Qn NW p (cus_in_nodes NW WO p _ Hc)) as (_ & _ & Q3).
  pose proof (edge_run_from inputs (init_state NW) (repeat (init_orders (C n)) L)) as D.
  rewrite repeat_length in D. specialize (D eq_refl). rewrite (Q3 _ Hc) in D. cbn [opinit] in D.
  specialize (D (leq_refl _)). rewrite init_zero in D by discriminate. specialize (D (Qeq_refl 0)).
  pose proof (DL_delay _ _ t D) as X. rewrite repeat_length, map_length, run_length in X. specialize (X Ht).
  rewrite <- (map_nth edge_obs (run_from NW (init_state NW) inputs) empty_st (t + L)) in X || idtac.
  change (0, 0) with (edge_obs empty_st) in X. rewrite !map_nth in X. exact X. Qed.
End DelayRun.
