(* Step 1, pathwise (no probability): the classical local -> echelon rewriting of the period cost, on the simulator model.
   For every run of the local base-stock serial network of Sim/Serial.v (any number of stages, lead times, non-negative
   demands, horizon) and EVERY period t, the total cost the simulator charges in period t -- holding on (IL_n)^+ at the
   local rate h_n, in-transit inventory n -> successor at the SUPPLIER's local rate h_n (in_transit_holding_cost = None),
   stockout p_n on (IL_n)^- at every node -- equals
        sum_n (h_n - h_{supplier of n}) * IL^e_n  +  (h_sink + p_sink) * (IL_sink)^-  +  sum_{n not the sink} p_n (IL_n)^-
   with IL^e_n = echelon_il (on hand at n and downstream + in transit downstream of n - backorders at the sink): the echelon
   inventory LEVEL, which does not contain what is in transit TO n.  No affine correction term is needed: the simulator's
   default in-transit rate is exactly the convention of the SSM cost function. *)
From Coq Require Import Permutation.
From SV Require Import Sim.Model Sim.StateLemmas Sim.Inv_base Sim.Inv_book Sim.Inv_pipe Sim.Inv_node Sim.Inv_rm Sim.Inv_init Sim.Inv_run
  Sim.Inv_bound Sim.Single Sim.Policy_thms Sim.Delay Sim.PerPeriod Sim.Obs Sim.Wfb Sim.Serial Sim.ShipDelay.
From SV Require Import Sim.CS Sim.CS_math Sim.CS_graph Sim.CS_step Sim.CS_run.
From SV Require Import Sim.SerialExp.

Lemma qsumf_perm {A} (f : A -> Q) l l' : Permutation l l' -> qsumf f l == qsumf f l'.
Proof. unfold qsumf. induction 1; cbn [map qsum]; try lra. Qed.
Lemma pos_negp x : qmax 0 x == x + negp x.
Proof. unfold negp. qcases; lra. Qed.
Lemma last_cons2 {A} (a b : A) r d : last (a :: b :: r) d = last (b :: r) d.
Proof. reflexivity. Qed.

Section Cost.
Variables (B : net) (lv : N -> Q) (ch : list N).
Hypothesis HndN : NoDup (nodes B).
Hypothesis Hsame : forall n, In n (nodes B) <-> In n ch.
Hypothesis Hnd : NoDup ch.
Hypothesis Hser : serial_cfg B ch.
Hypothesis Hin : forall n, In n ch -> olt (cfg B n) = 0%nat /\ cap (cfg B n) = None /\ init_il (cfg B n) = Some (lv n)
                                     /\ init_orders (cfg B n) = 0 /\ init_ships (cfg B n) = 0.
Hypothesis Hout : forall n, ~ In n ch -> cfg B n = dflt_cfg.
Hypothesis Hlv : forall n, 0 <= lv n.
Hypothesis Hlv0 : forall n, ~ In n ch -> lv n == 0.
Hypothesis Hnonempty : ch <> [].
(* cost configuration of the stages: default in-transit rate, no revenue *)
Hypothesis Hcc : forall n, In n ch -> ith (cfg B n) = None /\ rev (cfg B n) = 0.
Variable inputs : list ((N -> bool) * (N -> Q)).
Hypothesis Hok : Forall (input_ok ch) inputs.
Notation NW := (repol B (fun n => BS (lv n))).
Notation rec t := (nth t (run NW inputs) empty_st).
Notation h n := (hc (cfg B n)).
Notation p n := (pc (cfg B n)).
Notation IL t n := (gq (rec t) (fIL, n, Ext)).

(* what one node is charged *)
Lemma node_cost_local pre n post t : ch = pre ++ n :: post -> (t < length inputs)%nat ->
  c_tc (node_costs NW (rec t) n)
  == h n * qmax 0 (IL t n) + p n * negp (IL t n)
     + h n * (match post with [] => 0 | m :: _ => lv m - IL t m - negp (IL t n) end).
Proof.
  intros E Ht.
  destruct (rec_inv B lv ch HndN Hsame Hnd Hser Hin Hout Hlv Hlv0 Hnonempty inputs Hok t Ht) as (sk & HI & (H1 & H2 & H3) & Erec & _).
  destruct (zeros B lv ch HndN Hsame Hnd Hser Hin Hout Hlv Hnonempty _ _ H1 H2 H3 sk HI pre n post E) as (_ & Zrm & Zidi & _ & Zodi).
  rewrite <- Erec in Zrm, Zidi, Zodi.
  pose proof (K_rec B lv ch HndN Hsame Hnd Hser Hin Hout Hlv Hlv0 Hnonempty inputs Hok t Ht) as K.
  destruct (stage_facts B lv ch Hsame Hser pre n post E) as (Hn & _ & _ & Hc).
  destruct (Hser pre n post E) as (P & Sx & _).
  destruct (Hcc n Hn) as (Hith & Hrev).
  unfold node_costs. cbn [c_tc]. rewrite Hc.
  cbn [cfg repol setpol hc pc ith rev preds succs]. rewrite P, Sx, Hith, Hrev.
  unfold qsumf at 1. cbn [map qsum]. rewrite Zodi.
  assert (Epre : qsumf (fun q => hc (setpol (cfg B q) (BS (lv q))) * (gq (rec t) (fRM, n, Nd q) + gq (rec t) (fIDI, n, Nd q))) (lastl pre) == 0).
  { destruct (pre_cases pre) as [->|(pre' & q & ->)]; [reflexivity|]. rewrite lastl_snoc. unfold qsumf. cbn [map qsum].
    rewrite sup_of_snoc in Zrm, Zidi. rewrite Zrm, Zidi. lra. }
  rewrite Epre.
  destruct post as [|m post']; cbn [firstl]; unfold qsumf; cbn [map qsum].
  - unfold negp. lra.
  - pose proof (K pre n m post' E) as Km. unfold negp.
    assert (Eit : qsum (gl (rec t) (fSP, m, Nd n)) == lv m - IL t m - qmax 0 (- IL t n)) by lra.
    rewrite Eit. lra.
Qed.

Notation E t n := (echelon_il NW (rec t) n).

(* the sum over a suffix of the chain, in echelon form *)
Lemma suffix_cost t : (t < length inputs)%nat -> forall r n pre hprev, ch = pre ++ n :: r ->
  qsumf (fun m => c_tc (node_costs NW (rec t) m)) (n :: r)
  == ech_cost (fun m => h m) (fun m => E t m) hprev (n :: r) + hprev * E t n
     + (h (last (n :: r) 0%N) + p (last (n :: r) 0%N)) * negp (IL t (last (n :: r) 0%N))
     + interior_stockout (fun m => p m) (fun m => IL t m) (n :: r).
Proof.
  intros Ht. induction r as [|m r' IH]; intros n pre hprev Ech.
  - unfold qsumf. cbn [map qsum ech_cost interior_stockout last].
    rewrite (node_cost_local pre n [] t Ech Ht).
    rewrite (echelon_rec B lv ch HndN Hsame Hnd Hser Hin Hout Hlv Hlv0 Hnonempty inputs Hok pre n [] t Ech Ht).
    unfold below, qsumf. cbn [map qsum]. rewrite pos_negp. ring.
  - assert (E2 : ch = (pre ++ [n]) ++ m :: r') by (rewrite snoc_cons; exact Ech).
    specialize (IH m (pre ++ [n]) (h n) E2).
    unfold qsumf in IH |- *. cbn [map qsum] in IH |- *. rewrite last_cons2.
    change (ech_cost (fun m0 => h m0) (fun m0 => E t m0) hprev (n :: m :: r'))
      with ((h n - hprev) * E t n + ech_cost (fun m0 => h m0) (fun m0 => E t m0) (h n) (m :: r')).
    change (interior_stockout (fun m0 => p m0) (fun m0 => IL t m0) (n :: m :: r'))
      with (p n * negp (IL t n) + interior_stockout (fun m0 => p m0) (fun m0 => IL t m0) (m :: r')).
    rewrite IH. rewrite (node_cost_local pre n (m :: r') t Ech Ht).
    rewrite (echelon_rec B lv ch HndN Hsame Hnd Hser Hin Hout Hlv Hlv0 Hnonempty inputs Hok pre n (m :: r') t Ech Ht).
    rewrite (echelon_rec B lv ch HndN Hsame Hnd Hser Hin Hout Hlv Hlv0 Hnonempty inputs Hok (pre ++ [n]) m r' t E2 Ht).
    unfold below, qsumf. cbn [map qsum]. rewrite pos_negp. ring.
Qed.

(* Step 1: the cost identity *)
Theorem period_cost_echelon t : (t < length inputs)%nat ->
  net_period_cost NW (rec t)
  == ech_cost (fun n => h n) (fun n => E t n) 0 ch
     + (h (sinkn ch) + p (sinkn ch)) * negp (IL t (sinkn ch))
     + interior_stockout (fun n => p n) (fun n => IL t n) ch.
Proof.
  intros Ht. unfold net_period_cost. cbn [nodes repol].
  rewrite (qsumf_perm _ (nodes B) ch) by (apply NoDup_Permutation; assumption).
  assert (X : exists n r, ch = n :: r) by (destruct ch as [|n r]; [contradiction|exists n, r; reflexivity]).
  destruct X as (n & r & Ech).
  pose proof (suffix_cost t Ht r n [] 0 Ech) as X. rewrite <- Ech in X. rewrite X. unfold sinkn. ring.
Qed.
End Cost.

Print Assumptions period_cost_echelon.
