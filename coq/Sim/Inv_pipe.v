(* Simulator invariants, part 3: pipeline lengths and pipeline conservation (every unit shipped or ordered is
   in the pipeline, received, held at the door, or - for orders - dropped by the end-of-period shift [fLOST]). *)
From SV Require Import Sim.Model Sim.StateLemmas Sim.Inv_base Sim.Inv_book.

Ltac lsplit :=
  repeat (gs; match goal with
    | |- context [gl (sl _ ?k' _) ?k] => kcase k k'
    end); gs.

Section Pipe.
Variable (NW : net).
Notation C := (cfg NW).
Record wf_graph : Prop := {
  wg_sym : forall n p, In p (preds (C n)) <-> In n (succs (C p)) }.
Hypothesis WG : wf_graph.

Definition sp0 (n : N) : Q := init_ships (C n) * qnat (slt (C n)).
Definition io0 (n : N) : Q := init_orders (C n) * qnat (olt (C n)).

Record PL (s : st) : Prop := {
  pl_sp : forall n p, In p (suppliers (C n)) -> length (gl s (fSP, n, p)) = (olt (C n) + slt (C n) + 1)%nat;
  pl_op : forall n c, In c (succs (C n)) -> length (gl s (fOP, n, Nd c)) = (olt (C c) + 1)%nat }.

Record PC (s : st) : Prop := {
  (* what p shipped to n = what n received + in transit + held at n's door  (+ the initial pipeline content) *)
  pc_edge : forall n p, In p (preds (C n)) ->
     gq s (fcOS, p, Nd n) + sp0 n == gq s (fcIS, n, Nd p) + qsum (gl s (fSP, n, Nd p)) + gq s (fIDI, n, Nd p);
  pc_ext : forall n, ext_sup (C n) = true ->
     gq s (fcOQ, n, Ext) + (sp0 n + io0 n) == gq s (fcIS, n, Ext) + qsum (gl s (fSP, n, Ext)) + gq s (fIDI, n, Ext);
  (* what n ordered from p = still travelling to p + received by p (+ dropped) *)
  pc_ord : forall n p, In p (preds (C n)) ->
     gq s (fcOQ, n, Nd p) + io0 n == qsum (gl s (fOP, p, Nd n)) + gq s (fcIO, p, Nd n) + gq s (fLOST, p, Nd n) }.

Lemma in_sup_nd n p : In (Nd p) (suppliers (C n)) <-> In p (preds (C n)).
Proof. unfold suppliers. rewrite in_app_iff, in_map_iff. split.
  - intros [(x & E & H)|H]; [inversion E; subst; exact H|]. destruct (ext_sup (C n)); [destruct H as [H|[]]; discriminate|destruct H].
  - intros H. left. exists p. split; [reflexivity|exact H]. Qed.
Lemma in_sup_ext n : In Ext (suppliers (C n)) <-> ext_sup (C n) = true.
Proof. unfold suppliers. rewrite in_app_iff, in_map_iff. split.
  - intros [(x & E & _)|H]; [discriminate|]. destruct (ext_sup (C n)); [reflexivity|destruct H].
  - intros H. right. rewrite H. left. reflexivity. Qed.
Lemma in_cus_nd n c : In (Nd c) (customers (C n)) <-> In c (succs (C n)).
Proof. unfold customers. rewrite in_app_iff, in_map_iff. split.
  - intros [(x & E & H)|H]; [inversion E; subst; exact H|]. destruct (has_dem (C n)); [destruct H as [H|[]]; discriminate|destruct H].
  - intros H. left. exists c. split; [reflexivity|exact H]. Qed.

Variable (dis : N -> bool) (dem : N -> Q).

(* ---- lengths: every action only applies length-preserving operations to the tracked pipelines ---- *)
Lemma PL_sl_same s k v : PL s -> length v = length (gl s k) -> PL (sl s k v).
Proof. intros [H1 H2] Hv. constructor.
  - intros n p Hp. kcase (fSP, n, p) k; [gs; rewrite Hv; apply H1; exact Hp | rewrite gl_sl_other by assumption; apply H1; exact Hp].
  - intros n c Hc. kcase (fOP, n, Nd c) k; [gs; rewrite Hv; apply H2; exact Hc | rewrite gl_sl_other by assumption; apply H2; exact Hc]. Qed.
Lemma PL_sq s k v : PL s -> PL (sq s k v).
Proof. intros [H1 H2]. constructor; intros; gs; auto. Qed.
Lemma PL_addq s k v : PL s -> PL (addq s k v).
Proof. intros H. unfold addq. apply PL_sq. exact H. Qed.

Lemma PL_gen_demand s n : PL s -> PL (gen_demand NW dem s n).
Proof. intros [H1 H2]. unfold gen_demand. destruct (has_dem (C n)); [|constructor; assumption].
  constructor; intros; gs; auto. Qed.
Lemma PL_recv_order_one n s c : PL s -> PL (recv_order_one n s c).
Proof. intros H. unfold recv_order_one. repeat apply PL_addq. apply PL_sl_same; [apply PL_sq; exact H|]. rewrite length_zero0. reflexivity. Qed.
Lemma PL_place_one n oq s p : PL s -> PL (place_one NW n oq s p).
Proof. intros H. unfold place_one. repeat apply PL_addq. destruct p; apply PL_sl_same; try exact H; rewrite length_add_at; reflexivity. Qed.
Lemma PL_orders_action s n : PL s -> PL (orders_action NW dis dem s n).
Proof. intros H. unfold orders_action, place_order. destruct (disk NW dis n dOP).
  - unfold recv_orders. apply fold_left_inv; [intros a x _ Ha; apply PL_recv_order_one; exact Ha|apply PL_gen_demand; exact H].
  - apply fold_left_inv; [intros a x _ Ha; apply PL_place_one; exact Ha|]. repeat apply PL_addq.
    unfold recv_orders. apply fold_left_inv; [intros a x _ Ha; apply PL_recv_order_one; exact Ha|apply PL_gen_demand; exact H]. Qed.
Lemma PL_recv_ship_one n s p : PL s -> PL (recv_ship_one NW dis n s p).
Proof. intros H. unfold recv_ship_one. apply PL_addq, PL_sq, PL_addq, PL_addq. apply PL_sl_same; [apply PL_sq; exact H|]. rewrite length_zero0. reflexivity. Qed.
Lemma PL_produce s n : PL s -> PL (fst (produce NW s n)).
Proof. intros H. unfold produce. cbn [fst]. repeat apply PL_addq. apply fold_left_inv; [intros a x _ Ha; apply PL_addq; exact Ha|exact H]. Qed.
Lemma PL_serve_one n acc c : PL (fst acc) -> PL (fst (serve_one NW dis n acc c)).
Proof. destruct acc as [s oh]. cbn [fst]. intros H. unfold serve_one.
  set (o := serve_calc _ _ _ _ _).
  destruct c as [|c']; cbn [fst]; [repeat first [apply PL_addq | apply PL_sq]; exact H|].
  apply PL_sl_same; [repeat first [apply PL_addq | apply PL_sq]; exact H|]. rewrite length_add_at. reflexivity. Qed.
Lemma PL_ships_action s n : PL s -> PL (ships_action NW dis s n).
Proof. intros H. unfold ships_action.
  assert (H1 : PL (recv_ship NW dis s n)) by (unfold recv_ship; apply fold_left_inv; [intros a x _ Ha; apply PL_recv_ship_one; exact Ha|exact H]).
  pose proof (PL_produce _ n H1) as H2. destruct (produce NW (recv_ship NW dis s n) n) as [s2 made]. cbn [fst] in H2.
  unfold fill_rate. apply PL_sq. unfold serve.
  apply (fold_left_inv (fun a => PL (fst a))); [intros a x _ Ha; apply PL_serve_one; exact Ha|]. cbn [fst]. apply PL_sq. exact H2. Qed.
Lemma PL_next_node s n : PL s -> PL (next_node NW dis s n).
Proof. intros H. unfold next_node. repeat apply PL_sq.
  apply fold_left_inv.
  { intros a x _ Ha. repeat apply PL_sq. apply PL_sl_same; [apply PL_addq; exact Ha|]. rewrite gl_addq, length_shift_op. reflexivity. }
  apply fold_left_inv; [|exact H].
  intros a x _ Ha. repeat apply PL_sq. destruct (disk NW dis n dTP); [exact Ha|]. apply PL_sl_same; [exact Ha|]. rewrite length_shift_sp. reflexivity. Qed.
Lemma PL_run_actions s : PL s -> PL (run_actions NW dis dem s).
Proof. intros H. unfold run_actions. apply fold_left_inv; [intros a x _ Ha; apply PL_ships_action; exact Ha|].
  apply fold_left_inv; [intros a x _ Ha; apply PL_orders_action; exact Ha|exact H]. Qed.
Lemma PL_next_period s : PL s -> PL (next_period NW dis s).
Proof. intros H. unfold next_period. apply fold_left_inv; [intros a x _ Ha; apply PL_next_node; exact Ha|exact H]. Qed.

(* ---- pipeline conservation ---- *)
Lemma PC_frame_sq s f n x v : f <> fcOS -> f <> fcIS -> f <> fIDI -> f <> fcOQ -> f <> fcIO -> f <> fLOST -> PC s -> PC (sq s (f, n, x) v).
Proof. intros F1 F2 F3 F4 F5 F6 [H1 H2 H3]. constructor; intros; rewrite !gq_sq_other by (intro E; inversion E; subst; tauto); gs; auto. Qed.
Lemma PC_frame_addq s f n x v : f <> fcOS -> f <> fcIS -> f <> fIDI -> f <> fcOQ -> f <> fcIO -> f <> fLOST -> PC s -> PC (addq s (f, n, x) v).
Proof. intros. unfold addq. apply PC_frame_sq; assumption. Qed.

Lemma PC_gen_demand s n : PC s -> PC (gen_demand NW dem s n).
Proof. intros [H1 H2 H3]. unfold gen_demand. destruct (has_dem (C n)); [|constructor; assumption].
  constructor; intros; gs; auto. Qed.

Lemma PC_recv_order_one n s c : PC s -> PC (recv_order_one n s c).
Proof. intros [H1 H2 H3]. unfold recv_order_one. set (x := hd0 (gl s (fOP, n, c))). constructor.
  - intros n' p Hp. gs. apply H1. exact Hp.
  - intros n' He. gs. apply H2. exact He.
  - intros n' p Hp. specialize (H3 n' p Hp). kcase (fOP, p, Nd n') (fOP, n, c).
    + gs. rewrite qsum_zero0. fold x. lra.
    + assert (HK : forall f : fld, (f, p, Nd n') <> (f, n, c)) by (intros f E; inversion E; subst; apply KN; reflexivity).
      repeat first [gs1 | rewrite gq_sq_other by apply HK | rewrite gq_addq_other by apply HK | rewrite gl_sl_other by apply HK]. exact H3. Qed.

Lemma PC_place_one n oq s p : In p (suppliers (C n)) -> PL s -> PC s -> PC (place_one NW n oq s p).
Proof. intros Hin [L1 L2] [H1 H2 H3]. unfold place_one. destruct p as [|p'].
  - (* external supplier: the order enters the own shipment pipeline *)
    apply in_sup_ext in Hin. constructor.
    + intros n' p Hp. gs. apply H1. exact Hp.
    + intros n' He. specialize (H2 n' He). kcase (fcOQ, n', Ext) (fcOQ, n, Ext).
      * gs. rewrite qsum_add_at by (rewrite L1 by (apply in_sup_ext; exact He); lia). lra.
      * assert (HK : forall f : fld, (f, n', Ext) <> (f, n, Ext)) by (intros f E; inversion E; subst; apply KN; reflexivity).
        repeat first [gs1 | rewrite gq_sq_other by apply HK | rewrite gq_addq_other by apply HK | rewrite gl_sl_other by apply HK]. exact H2.
    + intros n' p Hp. gs. apply H3. exact Hp.
  - apply in_sup_nd in Hin. constructor.
    + intros n' p Hp. gs. apply H1. exact Hp.
    + intros n' He. gs. apply H2. exact He.
    + intros n' p Hp. specialize (H3 n' p Hp). kcase (fcOQ, n', Nd p) (fcOQ, n, Nd p').
      * gs. rewrite qsum_add_at by (rewrite L2 by (apply (wg_sym WG); exact Hin); lia). lra.
      * assert (HK : forall f : fld, (f, n', Nd p) <> (f, n, Nd p')) by (intros f E; inversion E; subst; apply KN; reflexivity).
        assert (HK2 : (fOP, p, Nd n') <> (fOP, p', Nd n)) by (intro E; inversion E; subst; apply KN; reflexivity).
        repeat first [gs1 | rewrite gq_sq_other by apply HK | rewrite gq_addq_other by apply HK | rewrite gl_sl_other by apply HK2]. exact H3. Qed.

Lemma PLPC_orders_action s n : PL s -> PC s -> PC (orders_action NW dis dem s n).
Proof. intros HL HC. unfold orders_action.
  set (s1 := recv_orders NW (gen_demand NW dem s n) n).
  assert (L1 : PL s1) by (unfold s1, recv_orders; apply fold_left_inv; [intros a x _ Ha; apply PL_recv_order_one; exact Ha|apply PL_gen_demand; exact HL]).
  assert (C1 : PC s1) by (unfold s1, recv_orders; apply fold_left_inv; [intros a x _ Ha; apply PC_recv_order_one; exact Ha|apply PC_gen_demand; exact HC]).
  unfold place_order. destruct (disk NW dis n dOP); [exact C1|].
  apply (fold_left_inv (fun a => PL a /\ PC a)).
  - intros a x Hx [La Ca]. split; [apply PL_place_one; exact La|apply PC_place_one; assumption].
  - split; [repeat apply PL_addq; exact L1|]. apply PC_frame_addq; try discriminate. apply PC_frame_addq; try discriminate. exact C1. Qed.

Lemma PC_recv_ship_one n s p : In p (suppliers (C n)) -> PC s -> PC (recv_ship_one NW dis n s p).
Proof. intros Hin [H1 H2 H3]. unfold recv_ship_one. set (rtr := hd0 (gl s (fSP, n, p))). set (rp := disk NW dis n dRP). constructor.
  - intros n' p' Hp. specialize (H1 n' p' Hp). kcase (fSP, n', Nd p') (fSP, n, p).
    + gs. rewrite qsum_zero0. fold rtr. destruct rp; lra.
    + assert (HK : forall f : fld, (f, n', Nd p') <> (f, n, p)) by (intros f E; inversion E; subst; apply KN; reflexivity).
      repeat first [gs1 | rewrite gq_sq_other by apply HK | rewrite gq_addq_other by apply HK | rewrite gl_sl_other by apply HK]. exact H1.
  - intros n' He. specialize (H2 n' He). kcase (fSP, n', Ext) (fSP, n, p).
    + gs. rewrite qsum_zero0. fold rtr. destruct rp; lra.
    + assert (HK : forall f : fld, (f, n', Ext) <> (f, n, p)) by (intros f E; inversion E; subst; apply KN; reflexivity).
      repeat first [gs1 | rewrite gq_sq_other by apply HK | rewrite gq_addq_other by apply HK | rewrite gl_sl_other by apply HK]. exact H2.
  - intros n' p' Hp. gs. apply H3. exact Hp. Qed.

Lemma PC_produce s n : wf_net NW -> PC s -> PC (fst (produce NW s n)).
Proof. intros WF [H1 H2 H3]. unfold produce. cbn [fst]. set (made := qmin_list _).
  destruct (produce_fold n made (suppliers (C n)) s (wf_sup NW WF n)) as (F & U & L).
  set (s1 := fold_left _ _ s) in *.
  assert (FR : forall f n' x, f <> fRM -> gq s1 (f, n', x) = gq s (f, n', x)).
  { intros f n' x Hf. apply F. intros p _ E. inversion E. contradiction. }
  constructor; intros; gs; rewrite !FR by discriminate; rewrite ?L; auto. Qed.

Lemma PC_serve_one n acc c : In c (customers (C n)) -> PL (fst acc) -> PC (fst acc) -> PC (fst (serve_one NW dis n acc c)).
Proof.
  destruct acc as [s oh]. cbn [fst]. intros Hin [L1 L2] [H1 H2 H3]. unfold serve_one.
  set (o := serve_calc _ _ _ _ _).
  set (s9 := addq (addq (addq (sq (sq (sq (addq (addq (addq (sq s (fOS, n, c) (o_os o)) (fDMFS, n, Ext) (o_dmfs o)) (fDMC, n, Ext) (o_dmfs o))
             (fIL, n, Ext) (- gq s (fPIO, n, c))) (fBO, n, c) (o_bo o)) (fODI, n, c) (o_odi o)) (fPIO, n, c) 0)
             (fPEND, n, Ext) (- gq s (fPIO, n, c))) (fSRV, n, Ext) (gq s (fPIO, n, c))) (fcOS, n, c) (o_os o)).
  assert (G : forall k, gl s9 k = gl s k) by (intros k; unfold s9; gs; reflexivity).
  assert (Q1 : forall f n' x, f <> fOS -> f <> fDMFS -> f <> fDMC -> f <> fIL -> f <> fBO -> f <> fODI -> f <> fPIO -> f <> fPEND -> f <> fSRV -> f <> fcOS ->
               gq s9 (f, n', x) = gq s (f, n', x)).
  { intros f n' x ? ? ? ? ? ? ? ? ? ?. unfold s9. rewrite !gq_addq_other, !gq_sq_other, !gq_addq_other, !gq_sq_other by (intro E; inversion E; subst; tauto). reflexivity. }
  assert (Q2 : forall n' x, (n', x) <> (n, c) -> gq s9 (fcOS, n', x) = gq s (fcOS, n', x)).
  { intros n' x Hne. unfold s9. rewrite gq_addq_other by (intro E; inversion E; subst; apply Hne; reflexivity). gs. reflexivity. }
  assert (Q3 : gq s9 (fcOS, n, c) = gq s (fcOS, n, c) + o_os o) by (unfold s9; gs; reflexivity).
  destruct c as [|c']; cbn [fst].
  - constructor.
    + intros n' p Hp. rewrite Q2 by discriminate. rewrite !Q1 by discriminate. rewrite G. apply H1. exact Hp.
    + intros n' He. rewrite !Q1 by discriminate. rewrite G. apply H2. exact He.
    + intros n' p Hp. rewrite !Q1 by discriminate. rewrite G. apply H3. exact Hp.
  - apply in_cus_nd in Hin. constructor.
    + intros n' p Hp. specialize (H1 n' p Hp). rewrite !gq_sl. kcase (fSP, n', Nd p) (fSP, c', Nd n).
      * gs. rewrite Q3. rewrite !Q1 by discriminate. rewrite G.
        rewrite qsum_add_at by (rewrite L1 by (apply in_sup_nd; exact Hp); lia). lra.
      * rewrite gl_sl_other by exact KN. rewrite Q2 by (intro E; inversion E; subst; apply KN; reflexivity).
        rewrite !Q1 by discriminate. rewrite G. exact H1.
    + intros n' He. rewrite !gq_sl. rewrite gl_sl_other by discriminate. rewrite !Q1 by discriminate. rewrite G. apply H2. exact He.
    + intros n' p Hp. rewrite !gq_sl. rewrite gl_sl_other by discriminate. rewrite !Q1 by discriminate. rewrite G. apply H3. exact Hp.
Qed.

Lemma PLPC_ships_action s n : wf_net NW -> PL s -> PC s -> PC (ships_action NW dis s n).
Proof. intros WF HL HC. unfold ships_action.
  assert (H1 : PL (recv_ship NW dis s n) /\ PC (recv_ship NW dis s n)).
  { unfold recv_ship. apply (fold_left_inv (fun a => PL a /\ PC a)); [|split; assumption].
    intros a x Hx [La Ca]. split; [apply PL_recv_ship_one; exact La|apply PC_recv_ship_one; assumption]. }
  destruct H1 as [L1 C1].
  pose proof (PL_produce _ n L1) as L2. pose proof (PC_produce _ n WF C1) as C2.
  destruct (produce NW (recv_ship NW dis s n) n) as [s2 made]. cbn [fst] in *.
  unfold fill_rate. apply PC_frame_sq; try discriminate. unfold serve.
  apply (fold_left_inv (fun a => PL (fst a) /\ PC (fst a))).
  - intros a x Hx [La Ca]. split; [apply PL_serve_one; exact La|apply PC_serve_one; assumption].
  - cbn [fst]. split; [apply PL_sq; exact L2|apply PC_frame_sq; try discriminate; exact C2]. Qed.

Lemma PC_next_node s n : PC s -> PC (next_node NW dis s n).
Proof. intros H. unfold next_node.
  apply PC_frame_sq; try discriminate. apply PC_frame_sq; try discriminate. apply PC_frame_sq; try discriminate.
  apply fold_left_inv.
  { intros a x _ [A1 A2 A3]. apply PC_frame_sq; try discriminate. apply PC_frame_sq; try discriminate.
    set (hd := hd0 (gl a (fOP, n, x))). constructor.
    - intros n' p Hp. gs. apply A1. exact Hp.
    - intros n' He. gs. apply A2. exact He.
    - intros n' p Hp. specialize (A3 n' p Hp). kcase (fOP, p, Nd n') (fOP, n, x).
      + gs. rewrite qsum_shift_op. fold hd. lra.
      + assert (HK : forall f : fld, (f, p, Nd n') <> (f, n, x)) by (intros f E; inversion E; subst; apply KN; reflexivity).
        repeat first [gs1 | rewrite gq_addq_other by apply HK | rewrite gl_sl_other by apply HK]. exact A3. }
  apply fold_left_inv; [|exact H].
  intros a x _ Ha. apply PC_frame_sq; try discriminate. apply PC_frame_sq; try discriminate.
  destruct (disk NW dis n dTP); [exact Ha|]. destruct Ha as [A1 A2 A3]. constructor.
  - intros n' p Hp. specialize (A1 n' p Hp). kcase (fSP, n', Nd p) (fSP, n, x); [gs; rewrite qsum_shift_sp; exact A1 | gs; rewrite ?gl_sl_other by exact KN; exact A1].
  - intros n' He. specialize (A2 n' He). kcase (fSP, n', Ext) (fSP, n, x); [gs; rewrite qsum_shift_sp; exact A2 | gs; rewrite ?gl_sl_other by exact KN; exact A2].
  - intros n' p Hp. gs. apply A3. exact Hp. Qed.

Lemma PLPC_run_actions s : wf_net NW -> PL s -> PC s -> PL (run_actions NW dis dem s) /\ PC (run_actions NW dis dem s).
Proof. intros WF HL HC. unfold run_actions.
  apply (fold_left_inv (fun a => PL a /\ PC a)).
  { intros a x _ [La Ca]. split; [apply PL_ships_action; exact La|apply PLPC_ships_action; assumption]. }
  apply (fold_left_inv (fun a => PL a /\ PC a)); [|split; assumption].
  intros a x _ [La Ca]. split; [apply PL_orders_action; exact La|apply PLPC_orders_action; assumption]. Qed.
Lemma PC_next_period s : PC s -> PC (next_period NW dis s).
Proof. intros H. unfold next_period. apply fold_left_inv; [intros a x _ Ha; apply PC_next_node; exact Ha|exact H]. Qed.
End Pipe.
