(* C03, positional form for SHIPMENTS, with transit-pausing (TP) and receipt-pausing (RP) disruptions.
   For an edge p -> n the shipment pipeline (fSP, n, Nd p), the held-items entry (fIDI, n, Nd p) and the receipt
   (fIS, n, Nd p) of every end-of-period record of every run are those of a small pure reference delay line [dl]
   fed with the recorded shipments (fOS, p, Nd n) and the recorded disruption flags of n (refinement). The lead-time
   statements are then proved on the reference delay line and transported:
     shipment_delay        no TP/RP at n in t .. t+L   ->  sent_t <= received_(t+L)
     shipment_delay_exact  no TP/RP at n in 0 .. t+L   ->  received_(t+L) == sent_t
   (L = shipment lead time of n). The same for the external-supplier edge (fSP, n, Ext), L = olt + slt, fed with
   the order quantities (fOQ, n, Ext).
   Per period: the supplier's shipping step adds the shipment at slot L (earlier in the shipments traversal, because
   a node is visited only after all its predecessors: [ship_visit_SO], [split_ship]), then the node's receiving step reads and
   clears slot 0, then the end-of-period shift moves the pipeline unless transit is paused. *)
From SV Require Import Sim.Model Sim.StateLemmas Sim.Inv_base Sim.Inv_book Sim.Inv_pipe Sim.Inv_node Sim.Inv_init Sim.Inv_run
  Sim.Inv_bound Sim.Single Sim.Policy_thms Sim.Delay Sim.PerPeriod Sim.Obs Sim.Wfb Sim.Main.

(* ================================================================================================ *)
(* 1. The reference delay line (the same as part (d) of mon_c03 in py/simmon.py)                      *)
(* ================================================================================================ *)
Record dl := { d_pipe : list Q; d_held : Q }.
(* first half of a period: [sent] is added at slot L; slot 0 is taken out; it is received (together with the held
   items) unless receipt is paused, in which case it is added to the held items. Result: (state, received) *)
Definition dl_recv (L : nat) (rp : bool) (sent : Q) (d : dl) : dl * Q :=
  let pipe := add_at L sent (d_pipe d) in
  let rtr := hd0 pipe in
  ({| d_pipe := zero0 pipe; d_held := if rp then d_held d + rtr else 0 |}, if rp then 0 else rtr + d_held d).
(* end of period: the pipeline shifts unless transit is paused *)
Definition dl_shift (tp : bool) (d : dl) : dl :=
  {| d_pipe := if tp then d_pipe d else shift_sp (d_pipe d); d_held := d_held d |}.
(* one whole period: (state at the start of the next period, received) *)
Definition dl_step (L : nat) (tp rp : bool) (sent : Q) (d : dl) : dl * Q :=
  (dl_shift tp (fst (dl_recv L rp sent d)), snd (dl_recv L rp sent d)).

Definition dl_input := (bool * bool * Q)%type.      (* transit paused, receipt paused, sent *)
Definition i_tp (x : dl_input) : bool := fst (fst x).
Definition i_rp (x : dl_input) : bool := snd (fst x).
Definition i_sent (x : dl_input) : Q := snd x.
Definition din : dl_input := (false, false, 0).
Definition dout : dl * Q := ({| d_pipe := []; d_held := 0 |}, 0).
Definition quiet (x : dl_input) : Prop := i_tp x = false /\ i_rp x = false.

(* the trajectory: for every period, the state BEFORE the end-of-period shift and the receipt of the period *)
Fixpoint dl_trace (L : nat) (d : dl) (ins : list dl_input) : list (dl * Q) :=
  match ins with
  | [] => []
  | x :: r => dl_recv L (i_rp x) (i_sent x) d :: dl_trace L (fst (dl_step L (i_tp x) (i_rp x) (i_sent x) d)) r
  end.

Lemma dl_trace_length L ins : forall d, length (dl_trace L d ins) = length ins.
Proof. induction ins as [|x r IH]; intros d; cbn [dl_trace length]; [reflexivity|]. rewrite IH. reflexivity. Qed.

(* ---- positions in a pipeline ---- *)
Lemma hd0_nth l : hd0 l = nth 0 l 0.
Proof. destruct l; reflexivity. Qed.
Lemma nth_add_at_same j v l : (j < length l)%nat -> nth j (add_at j v l) 0 = nth j l 0 + v.
Proof. revert j. induction l as [|a r IH]; intros [|j] H; cbn [length] in H; cbn [add_at nth]; try lia; try reflexivity. apply IH. lia. Qed.
Lemma nth_add_at_other i j v l : i <> j -> nth i (add_at j v l) 0 = nth i l 0.
Proof. revert i j. induction l as [|a r IH]; intros [|i] [|j] H; cbn [add_at nth]; try reflexivity; try (exfalso; apply H; reflexivity).
  apply IH. intro E. apply H. rewrite E. reflexivity. Qed.
Lemma nth_nonneg i l : nonneg_l l -> 0 <= nth i l 0.
Proof. intros H. revert i. induction H as [|a r Ha Hr IH]; intros [|i]; cbn [nth]; try lra. apply IH. Qed.
Lemma nth_add_at_ge i j v l : 0 <= v -> nth i l 0 <= nth i (add_at j v l) 0.
Proof. intros Hv. destruct (Nat.eq_dec i j) as [E|NE].
  - subst j. destruct (Nat.lt_ge_cases i (length l)) as [Hl|Hl].
    + rewrite nth_add_at_same by exact Hl. lra.
    + rewrite qsum_add_at_ge by exact Hl. lra.
  - rewrite nth_add_at_other by exact NE. lra. Qed.
Lemma nth_zero0_S i l : nth (S i) (zero0 l) 0 = nth (S i) l 0.
Proof. destruct l; reflexivity. Qed.
Lemma nth_zero0_0 l : nth 0 (zero0 l) 0 = 0.
Proof. destruct l; reflexivity. Qed.
Lemma nth_app_zero i (r : list Q) : nth i (r ++ [0]) 0 = nth i r 0.
Proof. revert i. induction r as [|a r IH]; intros [|i]; cbn [app nth]; try reflexivity; [destruct i; reflexivity|apply IH]. Qed.
Lemma nth_shift_sp_S i l : nth (S i) (shift_sp l) 0 = nth (S (S i)) l 0.
Proof. destruct l as [|a [|b r]]; cbn [shift_sp nth]; [reflexivity|destruct i; reflexivity|apply nth_app_zero]. Qed.
Lemma nth_shift_sp_0 l : nth 0 (shift_sp l) 0 == nth 0 l 0 + nth 1 l 0.
Proof. destruct l as [|a [|b r]]; cbn [shift_sp nth]; lra. Qed.

(* ---- invariants of the reference: non-negative contents, pipeline length ---- *)
Definition dl_nn (d : dl) : Prop := nonneg_l (d_pipe d) /\ 0 <= d_held d.
Lemma dl_recv_nn L rp sent d : 0 <= sent -> dl_nn d -> dl_nn (fst (dl_recv L rp sent d)) /\ 0 <= snd (dl_recv L rp sent d).
Proof. intros Hs [H1 H2]. unfold dl_recv, dl_nn. cbn [fst snd d_pipe d_held].
  assert (A : nonneg_l (add_at L sent (d_pipe d))) by (apply Forall_nonneg_add_at; assumption).
  pose proof (hd0_nonneg _ A) as B.
  split; [split; [apply Forall_nonneg_zero0; exact A|destruct rp; lra]|destruct rp; lra]. Qed.
Lemma dl_shift_nn tp d : dl_nn d -> dl_nn (dl_shift tp d).
Proof. intros [H1 H2]. unfold dl_shift, dl_nn. cbn [d_pipe d_held]. split; [|exact H2]. destruct tp; [exact H1|apply Forall_nonneg_shift_sp; exact H1]. Qed.
Lemma dl_step_nn L tp rp sent d : 0 <= sent -> dl_nn d -> dl_nn (fst (dl_step L tp rp sent d)).
Proof. intros Hs H. unfold dl_step. cbn [fst]. apply dl_shift_nn. apply dl_recv_nn; assumption. Qed.
Lemma dl_step_length L tp rp sent d : length (d_pipe (fst (dl_step L tp rp sent d))) = length (d_pipe d).
Proof. unfold dl_step, dl_shift, dl_recv. cbn [fst d_pipe]. destruct tp; rewrite ?length_shift_sp, length_zero0, length_add_at; reflexivity. Qed.

Definition ins_nn (ins : list dl_input) : Prop := Forall (fun x => 0 <= i_sent x) ins.

(* ---- "at least": a quantity sitting in slot k is received k periods later if nothing is paused meanwhile ---- *)
Lemma dl_lower_k L : forall k ins d q, dl_nn d -> ins_nn ins -> (k < length ins)%nat ->
  (forall u, (u <= k)%nat -> quiet (nth u ins din)) -> q <= nth k (d_pipe d) 0 ->
  q <= snd (nth k (dl_trace L d ins) dout).
Proof. induction k as [|k IH]; intros ins d q Hd Hi Hk Hq Hslot; (destruct ins as [|x r]; cbn [length] in Hk; [lia|]);
    inversion Hi as [|? ? Hx Hr]; subst; cbn [dl_trace nth].
  - destruct (Hq 0%nat (Nat.le_refl 0)) as [_ Hrp]. cbn [nth] in Hrp. rewrite Hrp.
    unfold dl_recv. cbn [snd]. rewrite hd0_nth. pose proof (nth_add_at_ge 0 L (i_sent x) (d_pipe d) Hx). destruct Hd as [_ Hh]. lra.
  - destruct (Hq 0%nat (Nat.le_0_l _)) as [Htp Hrp]. cbn [nth] in Htp, Hrp. rewrite Htp, Hrp.
    apply IH.
    + apply dl_step_nn; assumption.
    + exact Hr.
    + lia.
    + intros u Hu. apply (Hq (S u)). lia.
    + unfold dl_step, dl_shift, dl_recv. cbn [fst d_pipe].
      set (a := add_at L (i_sent x) (d_pipe d)).
      assert (A : nonneg_l a) by (apply Forall_nonneg_add_at; [exact Hx|apply Hd]).
      pose proof (nth_add_at_ge (S k) L (i_sent x) (d_pipe d) Hx) as B. fold a in B.
      destruct k as [|k'].
      * rewrite nth_shift_sp_0, nth_zero0_0, nth_zero0_S. lra.
      * rewrite nth_shift_sp_S, nth_zero0_S. lra. Qed.

Lemma dl_lower_0 L ins d : (L < length (d_pipe d))%nat -> dl_nn d -> ins_nn ins -> (L < length ins)%nat ->
  (forall u, (u <= L)%nat -> quiet (nth u ins din)) ->
  i_sent (nth 0 ins din) <= snd (nth L (dl_trace L d ins) dout).
Proof. intros Hl Hd Hi Hk Hq. destruct ins as [|x r]; cbn [length] in Hk; [lia|]. inversion Hi as [|? ? Hx Hr]; subst. cbn [nth].
  destruct (Hq 0%nat (Nat.le_0_l _)) as [Htp Hrp]. cbn [nth] in Htp, Hrp.
  destruct L as [|L'].
  - cbn [dl_trace nth]. rewrite Hrp. unfold dl_recv. cbn [snd]. rewrite hd0_nth, nth_add_at_same by exact Hl.
    pose proof (nth_nonneg 0 (d_pipe d) (proj1 Hd)). destruct Hd as [_ Hh]. lra.
  - cbn [dl_trace nth]. rewrite Htp, Hrp. apply dl_lower_k.
    + apply dl_step_nn; assumption.
    + exact Hr.
    + lia.
    + intros u Hu. apply (Hq (S u)). lia.
    + unfold dl_step, dl_shift, dl_recv. cbn [fst d_pipe].
      pose proof (nth_add_at_same (S L') (i_sent x) (d_pipe d) Hl) as B.
      pose proof (nth_nonneg (S L') (d_pipe d) (proj1 Hd)) as Cn.
      destruct L' as [|L''].
      * rewrite nth_shift_sp_0, nth_zero0_0, nth_zero0_S, B. lra.
      * rewrite nth_shift_sp_S, nth_zero0_S, B. lra. Qed.

Theorem dl_lower L : forall t ins d, (L < length (d_pipe d))%nat -> dl_nn d -> ins_nn ins -> (t + L < length ins)%nat ->
  (forall u, (t <= u <= t + L)%nat -> quiet (nth u ins din)) ->
  i_sent (nth t ins din) <= snd (nth (t + L) (dl_trace L d ins) dout).
Proof. induction t as [|t IH]; intros ins d Hl Hd Hi Hk Hq.
  - apply dl_lower_0; try assumption. intros u Hu. apply Hq. lia.
  - destruct ins as [|x r]; cbn [length] in Hk; [lia|]. inversion Hi as [|? ? Hx Hr]; subst.
    cbn [Nat.add dl_trace nth]. apply IH.
    + rewrite dl_step_length. exact Hl.
    + apply dl_step_nn; assumption.
    + exact Hr.
    + lia.
    + intros u Hu. apply (Hq (S u)). lia. Qed.

(* ---- "exactly": when nothing has been paused so far, nothing has piled up ---- *)
Lemma dl_exact_k L : forall k ins d q, (k < L)%nat -> (k < length ins)%nat ->
  (forall u, (u <= k)%nat -> quiet (nth u ins din)) -> d_held d == 0 -> nth k (d_pipe d) 0 == q ->
  snd (nth k (dl_trace L d ins) dout) == q.
Proof. induction k as [|k IH]; intros ins d q HkL Hk Hq Hh Hslot; (destruct ins as [|x r]; cbn [length] in Hk; [lia|]); cbn [dl_trace nth].
  - destruct (Hq 0%nat (Nat.le_refl 0)) as [_ Hrp]. cbn [nth] in Hrp. rewrite Hrp.
    unfold dl_recv. cbn [snd]. rewrite hd0_nth, nth_add_at_other by lia. rewrite Hslot, Hh. lra.
  - destruct (Hq 0%nat (Nat.le_0_l _)) as [Htp Hrp]. cbn [nth] in Htp, Hrp. rewrite Htp, Hrp.
    apply IH.
    + lia.
    + lia.
    + intros u Hu. apply (Hq (S u)). lia.
    + reflexivity.
    + unfold dl_step, dl_shift, dl_recv. cbn [fst d_pipe].
      destruct k as [|k'].
      * rewrite nth_shift_sp_0, nth_zero0_0, nth_zero0_S, nth_add_at_other by lia. rewrite Hslot. lra.
      * rewrite nth_shift_sp_S, nth_zero0_S, nth_add_at_other by lia. exact Hslot. Qed.

Lemma dl_exact_0 L ins d : (L < length (d_pipe d))%nat -> (L < length ins)%nat ->
  (forall u, (u <= L)%nat -> quiet (nth u ins din)) -> d_held d == 0 -> nth L (d_pipe d) 0 == 0 ->
  snd (nth L (dl_trace L d ins) dout) == i_sent (nth 0 ins din).
Proof. intros Hl Hk Hq Hh Hz. destruct ins as [|x r]; cbn [length] in Hk; [lia|]. cbn [nth].
  destruct (Hq 0%nat (Nat.le_0_l _)) as [Htp Hrp]. cbn [nth] in Htp, Hrp.
  destruct L as [|L'].
  - cbn [dl_trace nth]. rewrite Hrp. unfold dl_recv. cbn [snd]. rewrite hd0_nth, nth_add_at_same by exact Hl. rewrite Hz, Hh. lra.
  - cbn [dl_trace nth]. rewrite Htp, Hrp. apply dl_exact_k.
    + lia.
    + lia.
    + intros u Hu. apply (Hq (S u)). lia.
    + reflexivity.
    + unfold dl_step, dl_shift, dl_recv. cbn [fst d_pipe].
      pose proof (nth_add_at_same (S L') (i_sent x) (d_pipe d) Hl) as B.
      destruct L' as [|L''].
      * rewrite nth_shift_sp_0, nth_zero0_0, nth_zero0_S, B, Hz. lra.
      * rewrite nth_shift_sp_S, nth_zero0_S, B, Hz. lra. Qed.

(* nothing beyond slot L-1 at the start of a period, nothing held *)
Definition dl_empty_tail (L : nat) (d : dl) : Prop := (forall i, (L <= i)%nat -> nth i (d_pipe d) 0 == 0) /\ d_held d == 0.
Lemma dl_empty_tail_step L sent d : dl_empty_tail L d -> dl_empty_tail L (fst (dl_step L false false sent d)).
Proof. intros [Hz Hh]. split; [|reflexivity]. intros i Hi. unfold dl_step, dl_shift, dl_recv. cbn [fst d_pipe].
  destruct i as [|i'].
  - rewrite nth_shift_sp_0, nth_zero0_0, nth_zero0_S, nth_add_at_other by lia. rewrite (Hz 1%nat) by lia. lra.
  - rewrite nth_shift_sp_S, nth_zero0_S, nth_add_at_other by lia. apply Hz. lia. Qed.

Theorem dl_exact L : forall t ins d, (L < length (d_pipe d))%nat -> dl_empty_tail L d -> (t + L < length ins)%nat ->
  (forall u, (u <= t + L)%nat -> quiet (nth u ins din)) ->
  snd (nth (t + L) (dl_trace L d ins) dout) == i_sent (nth t ins din).
Proof. induction t as [|t IH]; intros ins d Hl [Hz Hh] Hk Hq.
  - apply dl_exact_0; try assumption. apply Hz. lia.
  - destruct ins as [|x r]; cbn [length] in Hk; [lia|].
    destruct (Hq 0%nat (Nat.le_0_l _)) as [Htp Hrp]. cbn [nth] in Htp, Hrp.
    cbn [Nat.add dl_trace nth]. rewrite Htp, Hrp. apply IH.
    + rewrite dl_step_length. exact Hl.
    + apply dl_empty_tail_step. split; assumption.
    + lia.
    + intros u Hu. apply (Hq (S u)). lia. Qed.

Lemma nth_all_zero i l : Forall (fun x => x == 0) l -> nth i l 0 == 0.
Proof. intros H. revert i. induction H as [|a r Ha Hr IH]; intros [|i]; cbn [nth]; try reflexivity; [exact Ha|apply IH]. Qed.

(* ================================================================================================ *)
(* 2. The shipments traversal visits a node only after all its predecessors                          *)
(* ================================================================================================ *)
Section ShipOrder.
Variable (NW : net).
Notation C := (cfg NW).

Definition SO (out : list N) : Prop :=
  forall x q, In x out -> In q (preds (C x)) -> exists l1 l2, out = l1 ++ x :: l2 /\ In q l1.
Definition SInv (acc : list N * list N) : Prop := (forall x, In x (fst acc) <-> In x (snd acc)) /\ SO (snd acc).

Lemma SO_snoc out x : SO out -> (forall q, In q (preds (C x)) -> In q out) -> SO (out ++ [x]).
Proof. intros H Hp y q Hy Hq. apply in_app_or in Hy. destruct Hy as [Hy|[E|[]]].
  - destruct (H y q Hy Hq) as (l1 & l2 & E & Hl). exists l1, (l2 ++ [x]). split; [|exact Hl]. rewrite E, <- app_assoc. reflexivity.
  - subst y. exists out, []. split; [reflexivity|apply Hp; exact Hq]. Qed.

Lemma dfs_ships_inv : forall f acc x, SInv acc -> (forall q, In q (preds (C x)) -> In q (fst acc)) -> SInv (dfs_ships NW f acc x).
Proof. induction f as [|f IH]; intros [vis out] x HI Hp; cbn [dfs_ships]; [exact HI|].
  destruct (memN x vis) eqn:Em; [exact HI|].
  apply (fold_left_inv SInv).
  - intros a s _ Ha. destruct (forallb (fun p => memN p (fst a)) (preds (C s))) eqn:F; [|exact Ha].
    apply IH; [exact Ha|]. intros q Hq. rewrite forallb_forall in F. apply memN_In. apply F. exact Hq.
  - destruct HI as [H1 H2]. cbn [fst snd] in *. split; cbn [fst snd].
    + intros y. rewrite in_app_iff. cbn [In]. specialize (H1 y). tauto.
    + apply SO_snoc; [exact H2|]. intros q Hq. apply H1. apply Hp. exact Hq. Qed.

Lemma ship_visit_SO : SO (ship_visit NW).
Proof. unfold ship_visit. apply (fold_left_inv SInv).
  - intros a x Hx Ha. apply dfs_ships_inv; [exact Ha|]. unfold sources in Hx. apply filter_In in Hx. destruct Hx as [_ Hx].
    destruct (preds (C x)); [intros q []|discriminate].
  - split; [intros x; cbn [fst snd]; tauto|]. intros x q []. Qed.
End ShipOrder.

(* ================================================================================================ *)
(* 3. Frame lemmas for the shipments action, split into its receiving step and the rest              *)
(* ================================================================================================ *)
Section Frames.
Variable (NW : net).
Notation C := (cfg NW).
Variable (dis : N -> bool) (dem : N -> Q).

Definition ships_rest (s1 : st) (m : N) (il0 : Q) : st :=
  let '(s2, made) := produce NW s1 m in fill_rate (serve NW dis s2 m il0 made) m.
Lemma ships_action_unfold s m : ships_action NW dis s m = ships_rest (recv_ship NW dis s m) m (gq s (fIL, m, Ext)).
Proof. reflexivity. Qed.

Lemma produce_gl s m k : gl (fst (produce NW s m)) k = gl s k.
Proof. unfold produce. cbn [fst]. rewrite !gl_addq. apply (fold_left_inv (fun a => gl a k = gl s k)); [|reflexivity].
  intros a x _ Ha. rewrite gl_addq. exact Ha. Qed.

(* the receiving step of node m only touches pipelines of m *)
Lemma recv_ship_gl s m n' q' : m <> n' -> gl (recv_ship NW dis s m) (fSP, n', q') = gl s (fSP, n', q').
Proof. intros Hm. unfold recv_ship. apply (fold_left_inv (fun a => gl a (fSP, n', q') = gl s (fSP, n', q'))); [|reflexivity].
  intros a x _ Ha. unfold recv_ship_one. rewrite !gl_addq, gl_sq, !gl_addq. rewrite gl_sl_other by (intro E; inversion E; subst; apply Hm; reflexivity).
  rewrite gl_sq. exact Ha. Qed.

(* producing / serving / fill rate at node m: shipment pipelines other than (_, Nd m) are not touched *)
Lemma rest_gl s1 m il0 n' q' : Nd m <> q' -> gl (ships_rest s1 m il0) (fSP, n', q') = gl s1 (fSP, n', q').
Proof. intros Hm. unfold ships_rest. pose proof (produce_gl s1 m (fSP, n', q')) as P.
  destruct (produce NW s1 m) as [s2 made]. cbn [fst] in P. unfold fill_rate. rewrite gl_sq. unfold serve.
  apply (fold_left_inv (fun a => gl (fst a) (fSP, n', q') = gl s1 (fSP, n', q'))); [|cbn [fst]; rewrite gl_sq; exact P].
  intros [a oh] c _ Ha. cbn [fst] in Ha. unfold serve_one. set (o := serve_calc _ _ _ _ _). destruct c as [|c']; cbn [fst].
  - rewrite !gl_addq, !gl_sq, !gl_addq, gl_sq. exact Ha.
  - rewrite gl_sl_other by (intro E; inversion E; subst; apply Hm; reflexivity). rewrite !gl_addq, !gl_sq, !gl_addq, gl_sq. exact Ha. Qed.

(* ... and the receipt / held-items fields are not written *)
Lemma rest_qf f s1 m il0 : f = fIS \/ f = fIDI -> QF f s1 (ships_rest s1 m il0).
Proof. intros Hf. unfold ships_rest.
  assert (H2 : QF f s1 (fst (produce NW s1 m))).
  { unfold produce. cbn [fst]. destruct Hf; subst f; qf; (apply fold_left_inv; [intros a x _ Ha; qf|apply QF_refl]). }
  destruct (produce NW s1 m) as [s2 made]. cbn [fst] in H2. unfold fill_rate.
  destruct Hf; subst f; qf; unfold serve;
  (apply (fold_left_inv (fun a => QF _ s1 (fst a))); [|cbn [fst]; qf]);
  intros [a oh] c _ Ha; cbn [fst] in Ha; unfold serve_one; set (o := serve_calc _ _ _ _ _); destruct c; cbn [fst]; qf. Qed.

(* the ordering action never touches a shipment pipeline of a node edge, nor fIS / fIDI / fOS *)
Lemma orders_gl_nd s m n' p' : gl (orders_action NW dis dem s m) (fSP, n', Nd p') = gl s (fSP, n', Nd p').
Proof. unfold orders_action.
  set (s1 := recv_orders NW (gen_demand NW dem s m) m).
  assert (A : gl s1 (fSP, n', Nd p') = gl s (fSP, n', Nd p')).
  { unfold s1, recv_orders. apply (fold_left_inv (fun a => gl a (fSP, n', Nd p') = gl s (fSP, n', Nd p'))).
    - intros a c _ Ha. unfold recv_order_one. rewrite !gl_addq. rewrite gl_sl_other by discriminate. rewrite gl_sq. exact Ha.
    - unfold gen_demand. destruct (has_dem (C m)); [|reflexivity]. rewrite gl_sl_other by discriminate. reflexivity. }
  rewrite <- A. unfold place_order. destruct (disk NW dis m dOP); [reflexivity|].
  apply (fold_left_inv (fun a => gl a (fSP, n', Nd p') = gl s1 (fSP, n', Nd p'))); [|rewrite !gl_addq; reflexivity].
  intros a x _ Ha. unfold place_one. rewrite !gl_addq. destruct x as [|x']; rewrite gl_sl_other by discriminate; exact Ha. Qed.

(* the ordering action of another node does not touch the external-supplier pipeline of n' *)
Lemma orders_gl_ext_other s m n' : m <> n' -> gl (orders_action NW dis dem s m) (fSP, n', Ext) = gl s (fSP, n', Ext).
Proof. intros Hm. unfold orders_action.
  set (s1 := recv_orders NW (gen_demand NW dem s m) m).
  assert (A : gl s1 (fSP, n', Ext) = gl s (fSP, n', Ext)).
  { unfold s1, recv_orders. apply (fold_left_inv (fun a => gl a (fSP, n', Ext) = gl s (fSP, n', Ext))).
    - intros a c _ Ha. unfold recv_order_one. rewrite !gl_addq. rewrite gl_sl_other by discriminate. rewrite gl_sq. exact Ha.
    - unfold gen_demand. destruct (has_dem (C m)); [|reflexivity]. rewrite gl_sl_other by discriminate. reflexivity. }
  rewrite <- A. unfold place_order. destruct (disk NW dis m dOP); [reflexivity|].
  apply (fold_left_inv (fun a => gl a (fSP, n', Ext) = gl s1 (fSP, n', Ext))); [|rewrite !gl_addq; reflexivity].
  intros a x _ Ha. unfold place_one. rewrite !gl_addq. destruct x as [|x'].
  - rewrite gl_sl_other by (intro E; inversion E; subst; apply Hm; reflexivity). exact Ha.
  - rewrite gl_sl_other by discriminate. exact Ha. Qed.

Lemma orders_fold_qf f l s : f = fIS \/ f = fIDI \/ f = fOS -> QF f s (fold_left (orders_action NW dis dem) l s).
Proof. intros Hf. apply fold_left_inv; [|apply QF_refl]. intros a x _ Ha n0 y.
  rewrite (orders_field_frame NW dis dem f a x); try (destruct Hf as [E|[E|E]]; subst f; discriminate). apply Ha. Qed.

(* receiving the inbound orders touches neither a shipment pipeline nor the order quantities *)
Lemma recv_orders_sp s m n' q' : gl (recv_orders NW (gen_demand NW dem s m) m) (fSP, n', q') = gl s (fSP, n', q').
Proof. unfold recv_orders. apply (fold_left_inv (fun a => gl a (fSP, n', q') = gl s (fSP, n', q'))).
  - intros a c _ Ha. unfold recv_order_one. rewrite !gl_addq. rewrite gl_sl_other by discriminate. rewrite gl_sq. exact Ha.
  - unfold gen_demand. destruct (has_dem (C m)); [|reflexivity]. rewrite gl_sl_other by discriminate. reflexivity. Qed.
Lemma recv_orders_oq s m : QF fOQ s (recv_orders NW (gen_demand NW dem s m) m).
Proof. unfold recv_orders. apply fold_left_inv; [intros a c _ Ha; unfold recv_order_one; qf|].
  unfold gen_demand. destruct (has_dem (C m)); qf. Qed.
End Frames.

(* ================================================================================================ *)
(* 4. The receiving side: node n and one of its suppliers q (a predecessor or the external supplier) *)
(* ================================================================================================ *)
Section Recv.
Variable (NW : net).
Notation C := (cfg NW).
Hypothesis WF : wf_net NW.
Hypothesis VO : visit_ok NW.
Variable (n : N) (q : nb).
Hypothesis Hq : In q (suppliers (C n)).
Hypothesis Hqn : q <> Nd n.
Hypothesis Hn : In n (nodes NW).
Notation kSP := (fSP, n, q).
Notation kIS := (fIS, n, q).
Notation kIDI := (fIDI, n, q).
Variable (dis : N -> bool) (dem : N -> Q).
Notation rp := (disk NW dis n dRP).
Notation tp := (disk NW dis n dTP).

(* the three keys of the receiving side *)
Definition EK (s : st) : list Q * Q * Q := (gl s kSP, gq s kIS, gq s kIDI).
Definition recv_eff (r : bool) (x : list Q * Q * Q) : list Q * Q * Q :=
  (zero0 (fst (fst x)), (if r then 0 else hd0 (fst (fst x)) + snd x), (if r then snd x + hd0 (fst (fst x)) else 0)).

Lemma recv_one_same s0 : EK (recv_ship_one NW dis n s0 q) = recv_eff rp (EK s0).
Proof. unfold EK, recv_eff, recv_ship_one. cbn [fst snd]. gs. reflexivity. Qed.
Lemma recv_one_other s0 x : x <> q -> EK (recv_ship_one NW dis n s0 x) = EK s0.
Proof. intros Hx. unfold EK, recv_ship_one. gs. reflexivity. Qed.

Lemma recv_ship_fold : forall l s0, NoDup l ->
  (In q l -> EK (fold_left (recv_ship_one NW dis n) l s0) = recv_eff rp (EK s0)) /\
  (~ In q l -> EK (fold_left (recv_ship_one NW dis n) l s0) = EK s0).
Proof. induction l as [|x r IH]; intros s0 ND; cbn [fold_left]; [split; [intros []|reflexivity]|].
  inversion ND as [|? ? Hx Hr]; subst. destruct (IH (recv_ship_one NW dis n s0 x) Hr) as [I1 I2]. split.
  - intros Hin. destruct (nb_eq_dec x q) as [E|NE].
    + subst x. rewrite (I2 Hx). apply recv_one_same.
    + destruct Hin as [E|Hin]; [contradiction|]. rewrite (I1 Hin). rewrite (recv_one_other s0 x NE). reflexivity.
  - intros Hnin. rewrite I2 by (intro X; apply Hnin; right; exact X). apply recv_one_other. intro E. apply Hnin. left. exact E. Qed.

(* the shipments action of n: slot 0 is read and cleared *)
Lemma ships_n_effect s : EK (ships_action NW dis s n) = recv_eff rp (EK s).
Proof. rewrite ships_action_unfold. unfold EK at 1.
  rewrite rest_gl by (intro E; apply Hqn; symmetry; exact E).
  rewrite (rest_qf NW dis fIS _ n _ (or_introl eq_refl) n q), (rest_qf NW dis fIDI _ n _ (or_intror eq_refl) n q).
  exact (proj1 (recv_ship_fold (suppliers (C n)) s (wf_sup NW WF n)) Hq). Qed.

(* the shipments action of another node that is not the supplier q *)
Lemma ships_other_frame s m : m <> n -> Nd m <> q -> EK (ships_action NW dis s m) = EK s.
Proof. intros Hm Hmq. unfold EK. rewrite !(ships_q_other NW dis s m) by (cbn; intro E; apply Hm; symmetry; exact E).
  rewrite ships_action_unfold, rest_gl by exact Hmq. rewrite recv_ship_gl by exact Hm. reflexivity. Qed.
Lemma ships_fold_frame l s : ~ In n l -> ~ In q (map Nd l) -> EK (fold_left (ships_action NW dis) l s) = EK s.
Proof. intros H1 H2. apply (fold_left_inv (fun a => EK a = EK s)); [|reflexivity].
  intros a m Hm Ha. rewrite <- Ha. apply ships_other_frame; [intro E; subst; contradiction|].
  intro E. apply H2. rewrite <- E. apply in_map. exact Hm. Qed.

(* ---- end of period ---- *)
Lemma sstep_fold_sp : forall l s0, NoDup l ->
  (In q l -> gl (fold_left (sstep NW dis n) l s0) kSP = (if tp then gl s0 kSP else shift_sp (gl s0 kSP))) /\
  (~ In q l -> gl (fold_left (sstep NW dis n) l s0) kSP = gl s0 kSP).
Proof. induction l as [|x r IH]; intros s0 ND; cbn [fold_left]; [split; [intros []|reflexivity]|].
  inversion ND as [|? ? Hx Hr]; subst. destruct (IH (sstep NW dis n s0 x) Hr) as [I1 I2].
  assert (K : x <> q -> gl (sstep NW dis n s0 x) kSP = gl s0 kSP).
  { intros NE. unfold sstep. rewrite !gl_sq. destruct tp; [reflexivity|]. apply gl_sl_other. intro E. inversion E; subst. apply NE. reflexivity. }
  split.
  - intros Hin. destruct (nb_eq_dec x q) as [E|NE].
    + subst x. rewrite (I2 Hx). unfold sstep. rewrite !gl_sq. destruct tp; [reflexivity|apply gl_sl_same].
    + destruct Hin as [E|Hin]; [contradiction|]. rewrite (I1 Hin), (K NE). reflexivity.
  - intros Hnin. rewrite I2 by (intro X; apply Hnin; right; exact X). apply K. intro E. apply Hnin. left. exact E. Qed.

Lemma sstep_fold_oq : forall l s0, In q l -> gq (fold_left (sstep NW dis n) l s0) (fOQ, n, q) = 0.
Proof. induction l as [|x r IH]; intros s0 Hin; [destruct Hin|]. cbn [fold_left].
  destruct (in_dec nb_eq_dec q r) as [X|X]; [apply IH; exact X|]. destruct Hin as [E|Hin]; [subst x|contradiction].
  apply (fold_left_inv (fun a => gq a (fOQ, n, q) = 0)).
  - intros a x Hx Ha. unfold sstep. destruct (nb_eq_dec x q) as [E|NE]; [subst; contradiction|].
    rewrite gq_sq_other by (intro E; inversion E; subst; apply NE; reflexivity). rewrite gq_sq_other by discriminate.
    destruct tp; [exact Ha|rewrite gq_sl; exact Ha].
  - unfold sstep. apply gq_sq_same. Qed.

Lemma next_node_n_effect s : gl (next_node NW dis s n) kSP = (if tp then gl s kSP else shift_sp (gl s kSP)) /\ gq (next_node NW dis s n) (fOQ, n, q) = 0.
Proof. rewrite next_node_unfold. rewrite !gl_sq. rewrite !gq_sq_other by discriminate. split.
  - rewrite <- (proj1 (sstep_fold_sp (suppliers (C n)) s (wf_sup NW WF n)) Hq).
    apply (fold_left_inv (fun a => gl a kSP = gl (fold_left (sstep NW dis n) (suppliers (C n)) s) kSP)); [|reflexivity].
    intros a x _ Ha. unfold cstep. rewrite !gl_sq. rewrite gl_sl_other by discriminate. rewrite gl_addq. exact Ha.
  - apply (fold_left_inv (fun a => gq a (fOQ, n, q) = 0)); [|apply sstep_fold_oq; exact Hq].
    intros a x _ Ha. unfold cstep. rewrite !gq_sq_other by discriminate. rewrite gq_sl. rewrite gq_addq_other by discriminate. exact Ha. Qed.

Lemma next_period_recv e : gl (next_period NW dis e) kSP = (if tp then gl e kSP else shift_sp (gl e kSP))
  /\ gq (next_period NW dis e) kIDI = gq e kIDI /\ gq (next_period NW dis e) (fOQ, n, q) = 0.
Proof. split; [|split].
  - unfold next_period.
    assert (A : forall l a, ~ In n l -> gl (fold_left (next_node NW dis) l a) kSP = gl a kSP).
    { induction l as [|m r IH]; intros a Hnin; [reflexivity|]. cbn [fold_left]. rewrite IH by (intro X; apply Hnin; right; exact X).
      apply (next_node_other NW dis a m kSP). cbn. intro E. apply Hnin. left. symmetry. exact E. }
    destruct (in_split n (nodes NW) Hn) as (l1 & l2 & E). pose proof (vo_nodup NW VO) as ND. rewrite E in *.
    destruct (nodup_app_inv l1 (n :: l2) ND) as (_ & ND2 & D). inversion ND2 as [|? ? H2 _]; subst.
    rewrite fold_left_app. cbn [fold_left]. rewrite A by exact H2. rewrite (proj1 (next_node_n_effect _)).
    rewrite A; [reflexivity|]. intro X. apply (D n X). left. reflexivity.
  - apply (next_period_frame NW dis fIDI e); discriminate.
  - unfold next_period.
    assert (B : forall l a, ~ In n l -> gq (fold_left (next_node NW dis) l a) (fOQ, n, q) = gq a (fOQ, n, q)).
    { induction l as [|m r IH]; intros a Hnin; [reflexivity|]. cbn [fold_left]. rewrite IH by (intro X; apply Hnin; right; exact X).
      apply (next_node_other NW dis a m (fOQ, n, q)). cbn. intro E. apply Hnin. left. symmetry. exact E. }
    destruct (in_split n (nodes NW) Hn) as (l1 & l2 & E). pose proof (vo_nodup NW VO) as ND. rewrite E in *.
    destruct (nodup_app_inv l1 (n :: l2) ND) as (_ & ND2 & D). inversion ND2 as [|? ? H2 _]; subst.
    rewrite fold_left_app. cbn [fold_left]. rewrite B by exact H2. apply next_node_n_effect. Qed.
End Recv.

Lemma Forall2_nth_both {A B} (R : A -> B -> Prop) l1 l2 a b : Forall2 R l1 l2 -> forall t, (t < length l1)%nat -> R (nth t l1 a) (nth t l2 b).
Proof. induction 1 as [|x y r s Hxy Hrs IH]; intros t Ht; cbn [length] in Ht; [lia|]. destruct t as [|t]; cbn [nth]; [exact Hxy|apply IH; lia]. Qed.

(* ================================================================================================ *)
(* 5. An edge p -> n                                                                                 *)
(* ================================================================================================ *)
Section EdgeNd.
Variable (NW : net).
Notation C := (cfg NW).
Hypothesis WF : wf_net NW.
Hypothesis WG : wf_graph NW.
Hypothesis VO : visit_ok NW.
Hypothesis WO : forall n, ~ In n (nodes NW) ->
  preds (C n) = [] /\ succs (C n) = [] /\ ext_sup (C n) = false /\ has_dem (C n) = false /\ il0 NW n == 0.
Variables (p n : N).
Hypothesis Hpn : In p (preds (C n)).
Notation L := (slt (C n)).
Notation kSP := (fSP, n, Nd p).
Notation kIS := (fIS, n, Nd p).
Notation kIDI := (fIDI, n, Nd p).
Notation kOS := (fOS, p, Nd n).

Let NP : n <> p := n_neq_p NW VO WO p n Hpn.
Let Hn : In n (nodes NW) := n_in_nodes NW WO p n Hpn.
Let Hp : In p (nodes NW) := p_in_nodes NW WG WO p n Hpn.
Let Hq : In (Nd p) (suppliers (C n)) := proj2 (in_sup_nd NW n p) Hpn.
Let Hc : In (Nd n) (customers (C p)) := proj2 (in_cus_nd NW p n) (proj1 (wg_sym NW WG n p) Hpn).
Let Hqn : Nd p <> Nd n.
Proof. intro E. inversion E. apply NP. symmetry. assumption. Qed.

(* the shipments traversal handles p, then n *)
Lemma split_ship : exists l1 l2 l3, ship_visit NW = l1 ++ p :: l2 ++ n :: l3 /\
  ~ In n l1 /\ ~ In p l1 /\ ~ In n l2 /\ ~ In p l2 /\ ~ In n l3 /\ ~ In p l3.
Proof. destruct (ship_visit_SO NW n p (vo_ship NW VO n Hn) Hpn) as (a & b & E & Ha).
  destruct (in_split p a Ha) as (c & d & E2). subst a.
  pose proof (vo_nd_ship NW VO) as ND. rewrite E in ND. rewrite <- app_assoc in ND. cbn [app] in ND.
  destruct (nodup_app_inv c (p :: d ++ n :: b) ND) as (_ & ND1 & D1). inversion ND1 as [|? ? Hp1 ND2]; subst.
  destruct (nodup_app_inv d (n :: b) ND2) as (_ & ND3 & D2). inversion ND3 as [|? ? Hn1 _]; subst.
  exists c, d, b. split; [rewrite E, <- app_assoc; reflexivity|]. repeat split.
  - intro X. apply (D1 n X). right. apply in_or_app. right. left. reflexivity.
  - intro X. apply (D1 p X). left. reflexivity.
  - intro X. apply (D2 n X). left. reflexivity.
  - intro X. apply Hp1. apply in_or_app. left. exact X.
  - exact Hn1.
  - intro X. apply Hp1. apply in_or_app. right. right. exact X. Qed.

Variable (dis : N -> bool) (dem : N -> Q).
Notation rp := (disk NW dis n dRP).
Notation tp := (disk NW dis n dTP).

(* ---- the supplier's shipping step: the shipment goes into slot L ---- *)
Lemma serve_one_same s0 oh : let a1 := serve_one NW dis p (s0, oh) (Nd n) in
  gl (fst a1) kSP = add_at L (gq (fst a1) kOS) (gl s0 kSP).
Proof. cbv zeta. unfold serve_one. set (o := serve_calc _ _ _ _ _). cbn [fst]. gs. reflexivity. Qed.
Lemma serve_one_other s0 oh c : c <> Nd n -> let a1 := serve_one NW dis p (s0, oh) c in
  gl (fst a1) kSP = gl s0 kSP /\ gq (fst a1) kOS = gq s0 kOS.
Proof. intros NE. cbv zeta. unfold serve_one. set (o := serve_calc _ _ _ _ _). destruct c as [|c']; cbn [fst].
  - gs. split; reflexivity.
  - rewrite gl_sl_other by (intro E; inversion E; subst; apply NE; reflexivity). gs. split; reflexivity. Qed.

Lemma serve_fold : forall l acc, NoDup l ->
  let s' := fst (fold_left (serve_one NW dis p) l acc) in
  (In (Nd n) l -> gl s' kSP = add_at L (gq s' kOS) (gl (fst acc) kSP)) /\
  (~ In (Nd n) l -> gl s' kSP = gl (fst acc) kSP /\ gq s' kOS = gq (fst acc) kOS).
Proof. induction l as [|c r IH]; intros [s0 oh] ND; cbn [fold_left fst]; [split; [intros []|split; reflexivity]|].
  inversion ND as [|? ? Hcr Hr]; subst. destruct (IH (serve_one NW dis p (s0, oh) c) Hr) as [I1 I2]. cbv zeta in I1, I2. split.
  - intros Hin. destruct (nb_eq_dec c (Nd n)) as [E|NE].
    + subst c. destruct (I2 Hcr) as [A1 A2]. rewrite A1, A2. apply serve_one_same.
    + destruct Hin as [E|Hin]; [contradiction|]. rewrite (I1 Hin). destruct (serve_one_other s0 oh c NE) as [B1 _]. rewrite B1. reflexivity.
  - intros Hnin. destruct I2 as [A1 A2]; [intro X; apply Hnin; right; exact X|]. rewrite A1, A2. apply serve_one_other. intro E. apply Hnin. left. exact E. Qed.

Lemma ships_p_effect s : let s' := ships_action NW dis s p in
  gl s' kSP = add_at L (gq s' kOS) (gl s kSP) /\ gq s' kIS = gq s kIS /\ gq s' kIDI = gq s kIDI.
Proof. cbv zeta. split; [|split; apply ships_q_other; cbn; exact NP].
  rewrite ships_action_unfold. unfold ships_rest.
  pose proof (produce_gl NW (recv_ship NW dis s p) p kSP) as P.
  destruct (produce NW (recv_ship NW dis s p) p) as [s2 made]. cbn [fst] in P. unfold fill_rate. rewrite gl_sq. rewrite gq_sq_other by discriminate.
  unfold serve.
  destruct (serve_fold (customers (C p)) (sq s2 (fDMFS, p, Ext) 0, qmax 0 (gq s (fIL, p, Ext)) + made) (wf_cus NW WF p)) as [S1 _].
  cbv zeta in S1. rewrite (S1 Hc). cbn [fst]. rewrite gl_sq, P. rewrite recv_ship_gl by (intro E; apply NP; symmetry; exact E). reflexivity. Qed.

(* ---- one period, seen from the edge ---- *)
Theorem run_actions_edge_nd s : let e := run_actions NW dis dem s in
  EK n (Nd p) e = recv_eff rp (add_at L (gq e kOS) (gl s kSP), gq s kIS, gq s kIDI).
Proof. cbv zeta. unfold run_actions. set (s1 := fold_left (orders_action NW dis dem) (order_visit NW) s).
  assert (O : EK n (Nd p) s1 = EK n (Nd p) s).
  { unfold EK. rewrite (orders_fold_qf NW dis dem fIS (order_visit NW) s) by tauto. rewrite (orders_fold_qf NW dis dem fIDI (order_visit NW) s) by tauto.
    f_equal. f_equal. unfold s1. apply (fold_left_inv (fun a => gl a kSP = gl s kSP)); [|reflexivity]. intros a m _ Ha. rewrite orders_gl_nd. exact Ha. }
  destruct split_ship as (l1 & l2 & l3 & E & N1 & P1 & N2 & P2 & N3 & P3).
  rewrite E. rewrite fold_left_app. cbn [fold_left]. rewrite fold_left_app. cbn [fold_left].
  set (a := fold_left (ships_action NW dis) l1 s1).
  set (b := ships_action NW dis a p).
  set (c := fold_left (ships_action NW dis) l2 b).
  set (d := ships_action NW dis c n).
  set (e := fold_left (ships_action NW dis) l3 d).
  assert (NM : forall l, ~ In p l -> ~ In (Nd p) (map Nd l)).
  { intros l Hl X. apply in_map_iff in X. destruct X as (y & Ey & Hy). inversion Ey; subst. contradiction. }
  pose proof (ships_fold_frame NW n (Nd p) dis l1 s1 N1 (NM l1 P1)) as Fa. fold a in Fa.
  destruct (ships_p_effect a) as (B1 & B2 & B3). fold b in B1, B2, B3.
  pose proof (ships_fold_frame NW n (Nd p) dis l2 b N2 (NM l2 P2)) as Fc. fold c in Fc.
  pose proof (ships_n_effect NW WF n (Nd p) Hq Hqn dis c) as Fd. fold d in Fd.
  pose proof (ships_fold_frame NW n (Nd p) dis l3 d N3 (NM l3 P3)) as Fe. fold e in Fe.
  assert (K : gq e kOS = gq b kOS).
  { unfold e. rewrite (fold_ships_other NW dis l3 d kOS) by exact P3. unfold d. rewrite (ships_q_other NW dis c n kOS) by (cbn; intro X; apply NP; symmetry; exact X).
    unfold c. apply (fold_ships_other NW dis l2 b kOS). exact P2. }
  rewrite Fe, Fd, Fc, K. f_equal. unfold EK. rewrite B1, B2, B3. rewrite O in Fa. unfold EK in Fa. injection Fa as A1 A2 A3. rewrite A1, A2, A3. reflexivity. Qed.
End EdgeNd.

(* ================================================================================================ *)
(* 6. Refinement for one supplier q of n, given the period lemma; instantiated for p -> n below       *)
(* ================================================================================================ *)
Section Refine.
Variable (NW : net).
Notation C := (cfg NW).
Hypothesis WF : wf_net NW.
Hypothesis VO : visit_ok NW.
Variable (n : N) (q : nb).
Hypothesis Hq : In q (suppliers (C n)).
Hypothesis Hqn : q <> Nd n.
Hypothesis Hn : In n (nodes NW).
Variable (L : nat) (kS : key).           (* slot at which the feed enters; the key holding the quantity fed *)
Notation kSP := (fSP, n, q).
Notation kIS := (fIS, n, q).
Notation kIDI := (fIDI, n, q).
(* the period lemma, in the weak form (up to ==) that both kinds of edges satisfy *)
Definition period_ok (s : st) : Prop := forall dis dem, let e := run_actions NW dis dem s in
  let pipe := add_at L (gq e kS) (gl s kSP) in
  leq (gl e kSP) (zero0 pipe) /\
  gq e kIS == (if disk NW dis n dRP then 0 else hd0 pipe + gq s kIDI) /\
  gq e kIDI == (if disk NW dis n dRP then gq s kIDI + hd0 pipe else 0).
(* [St] : what the period lemma needs to know about the state at the start of a period *)
Variable St : st -> Prop.
Hypothesis St_period : forall s, St s -> period_ok s.
Hypothesis St_next : forall s dis dem, St s -> St (next_period NW dis (run_actions NW dis dem s)).

Definition edge_in (i : (N -> bool) * (N -> Q)) (e : st) : dl_input :=
  (disk NW (fst i) n dTP, disk NW (fst i) n dRP, gq e kS).
Definition edge_ins_from (s : st) (inputs : list ((N -> bool) * (N -> Q))) : list dl_input :=
  map (fun ie => edge_in (fst ie) (snd ie)) (combine inputs (run_from NW s inputs)).
Definition refines (e : st) (x : dl * Q) : Prop :=
  gq e kIS == snd x /\ gq e kIDI == d_held (fst x) /\ leq (gl e kSP) (d_pipe (fst x)).

Lemma edge_ins_from_cons s dis dem r : edge_ins_from s ((dis, dem) :: r) =
  edge_in (dis, dem) (run_actions NW dis dem s) :: edge_ins_from (next_period NW dis (run_actions NW dis dem s)) r.
Proof. reflexivity. Qed.

Lemma refine_run_from : forall inputs s d, St s -> leq (gl s kSP) (d_pipe d) -> gq s kIDI == d_held d ->
  Forall2 refines (run_from NW s inputs) (dl_trace L d (edge_ins_from s inputs)).
Proof. induction inputs as [|[dis dem] r IH]; intros s d HS Hpipe Hheld; [constructor|].
  rewrite edge_ins_from_cons. cbn [run_from dl_trace]. set (e := run_actions NW dis dem s).
  destruct (St_period s HS dis dem) as (E1 & E2 & E3). fold e in E1, E2, E3. cbv zeta in E1, E2, E3.
  unfold edge_in at 1 2 3 4 5. unfold i_rp, i_tp, i_sent. cbn [fst snd].
  set (sent := gq e kS) in *. set (rp := disk NW dis n dRP) in *. set (tp := disk NW dis n dTP).
  assert (A : leq (add_at L sent (gl s kSP)) (add_at L sent (d_pipe d))) by (apply leq_add_at; [reflexivity|exact Hpipe]).
  pose proof (leq_hd0 _ _ A) as A0.
  assert (R : refines e (dl_recv L rp sent d)).
  { unfold refines, dl_recv. cbn [fst snd d_pipe d_held]. split; [|split].
    - rewrite E2. destruct rp; [reflexivity|]. rewrite A0, Hheld. reflexivity.
    - rewrite E3. destruct rp; [|reflexivity]. rewrite A0, Hheld. reflexivity.
    - apply (leq_trans _ _ _ E1). apply leq_zero0. exact A. }
  constructor; [exact R|].
  destruct R as (_ & R2 & R3).
  destruct (next_period_recv NW WF VO n q Hq Hqn Hn dis e) as (N1 & N2 & _).
  apply IH.
  - apply St_next. exact HS.
  - rewrite N1. unfold dl_step, dl_shift. cbn [fst d_pipe]. fold tp. destruct tp; [exact R3|apply leq_shift_sp; exact R3].
  - rewrite N2. unfold dl_step, dl_shift. cbn [fst d_held]. exact R2. Qed.

Definition d_init : dl := {| d_pipe := gl (init_state NW) kSP; d_held := 0 |}.
Definition edge_ins (inputs : list ((N -> bool) * (N -> Q))) : list dl_input := edge_ins_from (init_state NW) inputs.
Definition edge_trace (inputs : list ((N -> bool) * (N -> Q))) : list (dl * Q) := dl_trace L d_init (edge_ins inputs).

Hypothesis St_init : St (init_state NW).

Theorem refine_run inputs : Forall2 refines (run NW inputs) (edge_trace inputs).
Proof. unfold run, edge_trace, edge_ins. apply refine_run_from; [exact St_init|apply leq_refl|].
  cbn [d_init d_held]. rewrite init_zero by discriminate. reflexivity. Qed.

Theorem refine_nth inputs t : (t < length inputs)%nat -> refines (nth t (run NW inputs) empty_st) (nth t (edge_trace inputs) dout).
Proof. intros Ht. apply Forall2_nth_both; [apply refine_run|]. unfold run. rewrite run_length. exact Ht. Qed.

Lemma edge_ins_length inputs : length (edge_ins inputs) = length inputs.
Proof. unfold edge_ins, edge_ins_from. rewrite map_length, combine_length, run_length. apply Nat.min_id. Qed.
Lemma edge_ins_nth inputs u : (u < length inputs)%nat ->
  nth u (edge_ins inputs) din = edge_in (nth u inputs dflt_input) (nth u (run NW inputs) empty_st).
Proof. intros Hu. unfold edge_ins, edge_ins_from.
  set (f := fun ie : ((N -> bool) * (N -> Q)) * st => edge_in (fst ie) (snd ie)).
  rewrite (nth_indep _ din (f (dflt_input, empty_st))) by (rewrite map_length, combine_length, run_length, Nat.min_id; exact Hu).
  rewrite (map_nth f). unfold dflt_input. rewrite combine_nth by (unfold run; rewrite run_length; reflexivity). reflexivity. Qed.

Lemma edge_ins_nn inputs : (forall e, In e (run NW inputs) -> 0 <= gq e kS) -> ins_nn (edge_ins inputs).
Proof. intros H. unfold ins_nn, edge_ins, edge_ins_from. apply Forall_forall. intros x Hx. apply in_map_iff in Hx. destruct Hx as ([i e] & E & Hie). subst x.
  cbn [fst snd]. unfold edge_in, i_sent. cbn [snd]. apply H. apply (in_combine_r _ _ _ _ Hie). Qed.

(* ---- the lead-time statements, transported from the reference delay line ---- *)
Notation rec inputs t := (nth t (run NW inputs) empty_st).
Definition quiet_at (inputs : list ((N -> bool) * (N -> Q))) (u : nat) : Prop :=
  disk NW (fst (nth u inputs dflt_input)) n dTP = false /\ disk NW (fst (nth u inputs dflt_input)) n dRP = false.

Theorem edge_lower inputs t : (L < length (d_pipe d_init))%nat -> dl_nn d_init -> (forall e, In e (run NW inputs) -> 0 <= gq e kS) ->
  (t + L < length inputs)%nat -> (forall u, (t <= u <= t + L)%nat -> quiet_at inputs u) ->
  gq (rec inputs t) kS <= gq (rec inputs (t + L)) kIS.
Proof. intros Hl Hd Hs Ht Hqt. destruct (refine_nth inputs (t + L) Ht) as (R1 & _). rewrite R1. unfold edge_trace.
  pose proof (dl_lower L t (edge_ins inputs) d_init Hl Hd (edge_ins_nn inputs Hs)) as X. rewrite edge_ins_length in X. specialize (X Ht).
  rewrite edge_ins_nth in X by lia. apply X. intros u Hu. rewrite edge_ins_nth by lia. apply (Hqt u Hu). Qed.

Theorem edge_exact inputs t : (L < length (d_pipe d_init))%nat -> dl_empty_tail L d_init ->
  (t + L < length inputs)%nat -> (forall u, (u <= t + L)%nat -> quiet_at inputs u) ->
  gq (rec inputs (t + L)) kIS == gq (rec inputs t) kS.
Proof. intros Hl Hd Ht Hqt. destruct (refine_nth inputs (t + L) Ht) as (R1 & _). rewrite R1. unfold edge_trace.
  pose proof (dl_exact L t (edge_ins inputs) d_init Hl Hd) as X. rewrite edge_ins_length in X. specialize (X Ht).
  rewrite edge_ins_nth in X by lia. apply X. intros u Hu. rewrite edge_ins_nth by lia. apply (Hqt u Hu). Qed.
End Refine.

(* ---- instance: the edge p -> n, fed with the supplier's outbound shipments ---- *)
Section NdRun.
Variable (NW : net).
Notation C := (cfg NW).
Hypothesis WF : wf_net NW.
Hypothesis WG : wf_graph NW.
Hypothesis VO : visit_ok NW.
Hypothesis WO : forall n, ~ In n (nodes NW) ->
  preds (C n) = [] /\ succs (C n) = [] /\ ext_sup (C n) = false /\ has_dem (C n) = false /\ il0 NW n == 0.
Variables (p n : N).
Hypothesis Hpn : In p (preds (C n)).

Lemma nd_period_ok s : period_ok NW n (Nd p) (slt (C n)) (fOS, p, Nd n) s.
Proof. intros dis dem. cbv zeta. pose proof (run_actions_edge_nd NW WF WG VO WO p n Hpn dis dem s) as E. cbv zeta in E.
  unfold EK, recv_eff in E. cbn [fst snd] in E. injection E as E1 E2 E3. rewrite E1, E2, E3. split; [apply leq_refl|split; reflexivity]. Qed.

Lemma nd_init_pipe : gl (init_state NW) (fSP, n, Nd p) = repeat (init_ships (C n)) (slt (C n)) ++ repeat 0 (olt (C n)) ++ [0].
Proof. destruct (init_Qn NW n (n_in_nodes NW WO p n Hpn)) as (_ & Q2 & _). exact (proj2 (Q2 (Nd p) (proj2 (in_sup_nd NW n p) Hpn))). Qed.
End NdRun.

(* ================================================================================================ *)
(* 7. The external-supplier edge of n: fed by n's own ordering step at slot olt + slt                *)
(* ================================================================================================ *)
Section EdgeExt.
Variable (NW : net).
Notation C := (cfg NW).
Hypothesis WF : wf_net NW.
Hypothesis VO : visit_ok NW.
Hypothesis WO : forall n, ~ In n (nodes NW) ->
  preds (C n) = [] /\ succs (C n) = [] /\ ext_sup (C n) = false /\ has_dem (C n) = false /\ il0 NW n == 0.
Variable (n : N).
Hypothesis He : ext_sup (C n) = true.
Notation Le := (olt (C n) + slt (C n))%nat.
Notation kSP := (fSP, n, Ext).
Notation kIS := (fIS, n, Ext).
Notation kIDI := (fIDI, n, Ext).
Notation kOQ := (fOQ, n, Ext).

Let Hq : In Ext (suppliers (C n)) := proj2 (in_sup_ext NW n) He.
Let Hn : In n (nodes NW) := sup_in_nodes NW WO n Ext Hq.
Let Hqn : Ext <> Nd n.
Proof. discriminate. Qed.

Section ExtPeriod.
Variable (dis : N -> bool) (dem : N -> Q).

Lemma place_fold_ext oq : forall l s0, NoDup l ->
  let s' := fold_left (place_one NW n oq) l s0 in
  gl s' kSP = (if in_dec nb_eq_dec Ext l then add_at Le oq (gl s0 kSP) else gl s0 kSP) /\
  gq s' kOQ = (if in_dec nb_eq_dec Ext l then gq s0 kOQ + oq else gq s0 kOQ).
Proof. induction l as [|x r IH]; intros s0 ND; cbn [fold_left].
  - destruct (in_dec nb_eq_dec Ext []) as [[]|_]. split; reflexivity.
  - inversion ND as [|? ? Hx Hr]; subst. destruct (IH (place_one NW n oq s0 x) Hr) as (I1 & I2). rewrite I1, I2. clear I1 I2.
    destruct (nb_eq_dec x Ext) as [E|NE].
    + subst x. destruct (in_dec nb_eq_dec Ext r) as [X|_]; [contradiction|].
      destruct (in_dec nb_eq_dec Ext (Ext :: r)) as [_|X]; [|exfalso; apply X; left; reflexivity].
      unfold place_one. gs. split; reflexivity.
    + assert (K1 : gl (place_one NW n oq s0 x) kSP = gl s0 kSP).
      { unfold place_one. destruct x as [|x']; [exfalso; apply NE; reflexivity|]. gs. rewrite ?gl_sl_other by discriminate. reflexivity. }
      assert (K2 : gq (place_one NW n oq s0 x) kOQ = gq s0 kOQ).
      { unfold place_one. destruct x as [|x']; [exfalso; apply NE; reflexivity|]. gs. reflexivity. }
      rewrite K1, K2.
      destruct (in_dec nb_eq_dec Ext r) as [X|X]; destruct (in_dec nb_eq_dec Ext (x :: r)) as [Y|Y]; try (split; reflexivity).
      * exfalso. apply Y. right. exact X.
      * exfalso. destruct Y as [Y|Y]; [apply NE; exact Y|contradiction]. Qed.

Lemma orders_n_effect_ext s : let s' := orders_action NW dis dem s n in
  leq (gl s' kSP) (add_at Le (gq s' kOQ - gq s kOQ) (gl s kSP)).
Proof. cbv zeta. unfold orders_action.
  set (s1 := recv_orders NW (gen_demand NW dem s n) n).
  rewrite <- (recv_orders_sp NW dem s n n Ext). rewrite <- (recv_orders_oq NW dem s n n Ext). fold s1.
  unfold place_order. destruct (disk NW dis n dOP).
  - apply leq_add_at_zero. lra.
  - set (oq := order_qty NW s1 n). set (s2 := addq (addq s1 (fOQFG, n, Ext) oq) (fPFG, n, Ext) oq).
    destruct (place_fold_ext oq (suppliers (C n)) s2 (wf_sup NW WF n)) as (P1 & P2). cbv zeta in P1, P2.
    destruct (in_dec nb_eq_dec Ext (suppliers (C n))) as [_|X]; [|exfalso; apply X; exact Hq].
    rewrite P1, P2. unfold s2. gs. apply leq_add_at; [lra|apply leq_refl]. Qed.

Lemma orders_phase_ext s : let s1 := fold_left (orders_action NW dis dem) (order_visit NW) s in
  leq (gl s1 kSP) (add_at Le (gq s1 kOQ - gq s kOQ) (gl s kSP)).
Proof. cbv zeta. destruct (in_split n (order_visit NW) (vo_ord NW VO n Hn)) as (l1 & l2 & E).
  pose proof (vo_nd_ord NW VO) as ND. rewrite E in ND. destruct (nodup_app_inv l1 (n :: l2) ND) as (_ & ND2 & D). inversion ND2 as [|? ? H2 _]; subst.
  assert (H1 : ~ In n l1) by (intro X; apply (D n X); left; reflexivity).
  assert (F : forall l a, ~ In n l -> gl (fold_left (orders_action NW dis dem) l a) kSP = gl a kSP).
  { intros l a Hl. apply (fold_left_inv (fun b => gl b kSP = gl a kSP)); [|reflexivity]. intros b m Hm Hb. rewrite orders_gl_ext_other; [exact Hb|]. intro X. subst. contradiction. }
  rewrite E, fold_left_app. cbn [fold_left].
  set (a := fold_left (orders_action NW dis dem) l1 s).
  rewrite (F l2 _ H2). rewrite (fold_orders_other NW dis dem l2 _ kOQ) by exact H2.
  pose proof (orders_n_effect_ext a) as X. cbv zeta in X. unfold a in X at 3 4. rewrite (F l1 s H1) in X. rewrite (fold_orders_other NW dis dem l1 s kOQ) in X by exact H1. exact X. Qed.

End ExtPeriod.

Theorem ext_period_ok s : gq s kOQ == 0 -> period_ok NW n Ext Le kOQ s.
Proof. intros Hz dis dem. cbv zeta. unfold run_actions.
  set (s1 := fold_left (orders_action NW dis dem) (order_visit NW) s).
  pose proof (orders_phase_ext dis dem s) as O. cbv zeta in O. fold s1 in O.
  assert (O2 : gq s1 kIS = gq s kIS) by (apply (orders_fold_qf NW dis dem fIS (order_visit NW) s); tauto).
  assert (O3 : gq s1 kIDI = gq s kIDI) by (apply (orders_fold_qf NW dis dem fIDI (order_visit NW) s); tauto).
  destruct (in_split n (ship_visit NW) (vo_ship NW VO n Hn)) as (l1 & l2 & E).
  pose proof (vo_nd_ship NW VO) as ND. rewrite E in ND. destruct (nodup_app_inv l1 (n :: l2) ND) as (_ & ND2 & D). inversion ND2 as [|? ? H2 _]; subst.
  assert (H1 : ~ In n l1) by (intro X; apply (D n X); left; reflexivity).
  assert (NM : forall l, ~ In Ext (map Nd l)) by (intros l X; apply in_map_iff in X; destruct X as (y & Ey & _); discriminate).
  rewrite (fold_ships_frame NW dis fOQ (ship_visit NW) s1 ltac:(tauto) n Ext).
  rewrite E, fold_left_app. cbn [fold_left].
  set (a := fold_left (ships_action NW dis) l1 s1). set (d := ships_action NW dis a n). set (e := fold_left (ships_action NW dis) l2 d).
  pose proof (ships_fold_frame NW n Ext dis l1 s1 H1 (NM l1)) as Fa. fold a in Fa.
  pose proof (ships_n_effect NW WF n Ext Hq Hqn dis a) as Fd. fold d in Fd.
  pose proof (ships_fold_frame NW n Ext dis l2 d H2 (NM l2)) as Fe. fold e in Fe.
  rewrite Fd, Fa in Fe. unfold EK, recv_eff in Fe. cbn [fst snd] in Fe. injection Fe as E1 E2 E3. rewrite E1, E2, E3, O3. clear O2.
  assert (A : leq (gl s1 kSP) (add_at Le (gq s1 kOQ) (gl s kSP))).
  { apply (leq_trans _ _ _ O). apply leq_add_at; [rewrite Hz; lra|apply leq_refl]. }
  pose proof (leq_hd0 _ _ A) as A0.
  split; [apply leq_zero0; exact A|]. split; destruct (disk NW dis n dRP); try reflexivity; rewrite A0; reflexivity. Qed.

Lemma ext_next s dis' dem' : gq (next_period NW dis' (run_actions NW dis' dem' s)) kOQ == 0.
Proof. destruct (next_period_recv NW WF VO n Ext Hq Hqn Hn dis' (run_actions NW dis' dem' s)) as (_ & _ & Z). rewrite Z. reflexivity. Qed.

Lemma ext_init_pipe : gl (init_state NW) kSP = repeat (init_ships (C n)) (slt (C n)) ++ repeat (init_orders (C n)) (olt (C n)) ++ [0].
Proof. destruct (init_Qn NW n Hn) as (_ & Q2 & _). exact (proj2 (Q2 Ext Hq)). Qed.
End EdgeExt.

(* ================================================================================================ *)
(* 8. Final forms: every good network, every input list                                              *)
(* ================================================================================================ *)
Lemma nth_tail_zero a b x y i : (x + y <= i)%nat -> nth i (repeat a x ++ repeat b y ++ [0]) 0 == 0.
Proof. intros Hi. rewrite app_nth2 by (rewrite repeat_length; lia). rewrite app_nth2 by (rewrite !repeat_length; lia).
  destruct (i - length (repeat a x) - length (repeat b y))%nat as [|[|k]]; reflexivity. Qed.
Lemma nth_tail_zero' a x y i : (x <= i)%nat -> nth i (repeat a x ++ repeat 0 y ++ [0]) 0 == 0.
Proof. intros Hi. rewrite app_nth2 by (rewrite repeat_length; lia). apply nth_all_zero. apply Forall_app. split; [|constructor; [reflexivity|constructor]].
  induction y; cbn [repeat]; constructor; [reflexivity|assumption]. Qed.

(* the inputs of the reference delay line, written out: the two pause flags of n and the recorded feed *)
Definition feed (NW : net) (inputs : list ((N -> bool) * (N -> Q))) (n : N) (kS : key) : list dl_input :=
  map (fun u => (disk NW (fst (nth u inputs dflt_input)) n dTP, disk NW (fst (nth u inputs dflt_input)) n dRP,
                 gq (nth u (run NW inputs) empty_st) kS)) (seq 0 (length inputs)).
Lemma edge_ins_feed NW inputs n kS : edge_ins NW n kS inputs = feed NW inputs n kS.
Proof. apply (nth_ext _ _ din din).
  - unfold feed. rewrite edge_ins_length, map_length, seq_length. reflexivity.
  - intros u Hu. rewrite edge_ins_length in Hu. rewrite edge_ins_nth by exact Hu. unfold feed.
    set (g := fun u : nat => (disk NW (fst (nth u inputs dflt_input)) n dTP, disk NW (fst (nth u inputs dflt_input)) n dRP, gq (nth u (run NW inputs) empty_st) kS)).
    rewrite (nth_indep _ din (g 0%nat)) by (rewrite map_length, seq_length; exact Hu). rewrite (map_nth g). rewrite seq_nth by exact Hu. reflexivity. Qed.

Section Final.
Variable (NW : net) (inputs : list ((N -> bool) * (N -> Q))).
Hypothesis G : good NW.
Notation C := (cfg NW).
Notation rec t := (nth t (run NW inputs) empty_st).
Let WF := good_wf NW G.
Let WG := good_wg NW G.
Let VO := good_vo NW G.
Let WO := good_wo NW G.

(* no transit pause and no receipt pause at n in period u *)
Definition unpaused (n : N) (u : nat) : Prop :=
  disk NW (fst (nth u inputs dflt_input)) n dTP = false /\ disk NW (fst (nth u inputs dflt_input)) n dRP = false.

(* ---- edge p -> n ---- *)
Definition ship_ref (n p : N) : list (dl * Q) :=
  dl_trace (slt (C n)) {| d_pipe := gl (init_state NW) (fSP, n, Nd p); d_held := 0 |} (feed NW inputs n (fOS, p, Nd n)).

Theorem shipment_refinement t n p : In p (preds (C n)) -> (t < length inputs)%nat ->
  gq (rec t) (fIS, n, Nd p) == snd (nth t (ship_ref n p) dout) /\
  gq (rec t) (fIDI, n, Nd p) == d_held (fst (nth t (ship_ref n p) dout)) /\
  leq (gl (rec t) (fSP, n, Nd p)) (d_pipe (fst (nth t (ship_ref n p) dout))).
Proof. intros Hp Ht. unfold ship_ref. rewrite <- edge_ins_feed.
  apply (refine_nth NW WF VO n (Nd p) (proj2 (in_sup_nd NW n p) Hp)
           ltac:(intro E; inversion E; subst; exact (n_neq_p NW VO WO n n Hp eq_refl)) (n_in_nodes NW WO p n Hp)
           (slt (C n)) (fOS, p, Nd n) (fun _ => True) (fun s _ => nd_period_ok NW WF WG VO WO p n Hp s) (fun _ _ _ _ => I) I inputs t Ht). Qed.

Lemma nd_len n p : In p (preds (C n)) -> (slt (C n) < length (d_pipe (d_init NW n (Nd p))))%nat.
Proof. intros Hp. unfold d_init. cbn [d_pipe]. rewrite (nd_init_pipe NW WO p n Hp). rewrite !app_length, !repeat_length. cbn [length]. lia. Qed.
Lemma init_nn n q : dl_nn (d_init NW n q).
Proof. split; [apply NN_l, NN_init; exact WF|cbn [d_init d_held]; lra]. Qed.

(* a shipment sent to n in period t is received by period t + SLT(n) when n is not paused in t .. t + SLT(n) *)
Theorem shipment_delay t n p : dem_ok inputs -> In p (preds (C n)) -> (t + slt (C n) < length inputs)%nat ->
  (forall u, (t <= u <= t + slt (C n))%nat -> unpaused n u) ->
  gq (rec t) (fOS, p, Nd n) <= gq (rec (t + slt (C n))) (fIS, n, Nd p).
Proof. intros D Hp Ht Hu.
  apply (edge_lower NW WF VO n (Nd p) (proj2 (in_sup_nd NW n p) Hp)
           ltac:(intro E; inversion E; subst; exact (n_neq_p NW VO WO n n Hp eq_refl)) (n_in_nodes NW WO p n Hp)
           (slt (C n)) (fOS, p, Nd n) (fun _ => True) (fun s _ => nd_period_ok NW WF WG VO WO p n Hp s) (fun _ _ _ _ => I) I inputs t
           (nd_len n p Hp) (init_nn n (Nd p))); [|exact Ht|exact Hu].
  intros e He. pose proof (NN_run NW inputs WF D) as F. rewrite Forall_forall in F. apply NN_q; [apply F; exact He|reflexivity]. Qed.

(* ... and it is exactly what is received then, when n has not been paused at all up to t + SLT(n) *)
Theorem shipment_delay_exact t n p : In p (preds (C n)) -> (t + slt (C n) < length inputs)%nat ->
  (forall u, (u <= t + slt (C n))%nat -> unpaused n u) ->
  gq (rec (t + slt (C n))) (fIS, n, Nd p) == gq (rec t) (fOS, p, Nd n).
Proof. intros Hp Ht Hu.
  apply (edge_exact NW WF VO n (Nd p) (proj2 (in_sup_nd NW n p) Hp)
           ltac:(intro E; inversion E; subst; exact (n_neq_p NW VO WO n n Hp eq_refl)) (n_in_nodes NW WO p n Hp)
           (slt (C n)) (fOS, p, Nd n) (fun _ => True) (fun s _ => nd_period_ok NW WF WG VO WO p n Hp s) (fun _ _ _ _ => I) I inputs t
           (nd_len n p Hp)); [|exact Ht|exact Hu].
  split; [|reflexivity]. intros i Hi. unfold d_init. cbn [d_pipe]. rewrite (nd_init_pipe NW WO p n Hp). apply nth_tail_zero'. exact Hi. Qed.

Lemma undisrupted_unpaused n u : fst (nth u inputs (fun _ => false, fun _ => 0)) n = false -> unpaused n u.
Proof. intros H. unfold unpaused, disk, dflt_input. rewrite H. split; reflexivity. Qed.

(* ---- the external-supplier edge of n ---- *)
Definition ext_ref (n : N) : list (dl * Q) :=
  dl_trace (olt (C n) + slt (C n)) {| d_pipe := gl (init_state NW) (fSP, n, Ext); d_held := 0 |} (feed NW inputs n (fOQ, n, Ext)).

Theorem external_refinement t n : ext_sup (C n) = true -> (t < length inputs)%nat ->
  gq (rec t) (fIS, n, Ext) == snd (nth t (ext_ref n) dout) /\
  gq (rec t) (fIDI, n, Ext) == d_held (fst (nth t (ext_ref n) dout)) /\
  leq (gl (rec t) (fSP, n, Ext)) (d_pipe (fst (nth t (ext_ref n) dout))).
Proof. intros He Ht. unfold ext_ref. rewrite <- edge_ins_feed.
  apply (refine_nth NW WF VO n Ext (proj2 (in_sup_ext NW n) He) ltac:(discriminate) (sup_in_nodes NW WO n Ext (proj2 (in_sup_ext NW n) He))
           (olt (C n) + slt (C n))%nat (fOQ, n, Ext) (fun s => gq s (fOQ, n, Ext) == 0) (ext_period_ok NW WF VO WO n He)
           (fun s dis dem _ => ext_next NW WF VO WO n He s dis dem)); [|exact Ht].
  rewrite init_zero by discriminate. reflexivity. Qed.

Lemma ext_init_oq n : gq (init_state NW) (fOQ, n, Ext) == 0.
Proof. rewrite init_zero by discriminate. reflexivity. Qed.
Lemma ext_len n : ext_sup (C n) = true -> (olt (C n) + slt (C n) < length (d_pipe (d_init NW n Ext)))%nat.
Proof. intros He. unfold d_init. cbn [d_pipe]. rewrite (ext_init_pipe NW WO n He). rewrite !app_length, !repeat_length. cbn [length]. lia. Qed.

Theorem external_delay t n : dem_ok inputs -> ext_sup (C n) = true -> (t + (olt (C n) + slt (C n)) < length inputs)%nat ->
  (forall u, (t <= u <= t + (olt (C n) + slt (C n)))%nat -> unpaused n u) ->
  gq (rec t) (fOQ, n, Ext) <= gq (rec (t + (olt (C n) + slt (C n)))) (fIS, n, Ext).
Proof. intros D He Ht Hu.
  apply (edge_lower NW WF VO n Ext (proj2 (in_sup_ext NW n) He) ltac:(discriminate) (sup_in_nodes NW WO n Ext (proj2 (in_sup_ext NW n) He))
           (olt (C n) + slt (C n))%nat (fOQ, n, Ext) (fun s => gq s (fOQ, n, Ext) == 0) (ext_period_ok NW WF VO WO n He)
           (fun s dis dem _ => ext_next NW WF VO WO n He s dis dem) (ext_init_oq n) inputs t
           (ext_len n He) (init_nn n Ext)); [|exact Ht|exact Hu].
  intros e Hin. pose proof (NN_run NW inputs WF D) as F. rewrite Forall_forall in F. apply NN_q; [apply F; exact Hin|reflexivity]. Qed.

Theorem external_delay_exact t n : ext_sup (C n) = true -> (t + (olt (C n) + slt (C n)) < length inputs)%nat ->
  (forall u, (u <= t + (olt (C n) + slt (C n)))%nat -> unpaused n u) ->
  gq (rec (t + (olt (C n) + slt (C n)))) (fIS, n, Ext) == gq (rec t) (fOQ, n, Ext).
Proof. intros He Ht Hu.
  apply (edge_exact NW WF VO n Ext (proj2 (in_sup_ext NW n) He) ltac:(discriminate) (sup_in_nodes NW WO n Ext (proj2 (in_sup_ext NW n) He))
           (olt (C n) + slt (C n))%nat (fOQ, n, Ext) (fun s => gq s (fOQ, n, Ext) == 0) (ext_period_ok NW WF VO WO n He)
           (fun s dis dem _ => ext_next NW WF VO WO n He s dis dem) (ext_init_oq n) inputs t
           (ext_len n He)); [|exact Ht|exact Hu].
  split; [|reflexivity]. intros i Hi. unfold d_init. cbn [d_pipe]. rewrite (ext_init_pipe NW WO n He). apply nth_tail_zero. lia. Qed.
End Final.

(* the statement [shipment_delay_statement] of Props/C03.v, verbatim *)
Theorem shipment_delay_undisrupted (NW : net) (inputs : list ((N -> bool) * (N -> Q))) : good NW -> dem_ok inputs ->
  forall t n p, In p (preds (cfg NW n)) -> (t + slt (cfg NW n) < length inputs)%nat ->
    (forall u, (t <= u <= t + slt (cfg NW n))%nat -> fst (nth u inputs (fun _ => false, fun _ => 0)) n = false) ->
    gq (nth t (run NW inputs) empty_st) (fOS, p, Nd n) <= gq (nth (t + slt (cfg NW n)) (run NW inputs) empty_st) (fIS, n, Nd p).
Proof. intros G D t n p Hp Ht Hu. apply (shipment_delay NW inputs G t n p D Hp Ht). intros u Hur. apply undisrupted_unpaused. apply Hu. exact Hur. Qed.

(* ================================================================================================ *)
(* 9. Non-vacuity: 1 -> 2, shipment lead time 2 at node 2, transit paused at node 2 in period 5,      *)
(*    receipt paused at node 1 (external supplier, order + shipment lead time 2) in period 6          *)
(* ================================================================================================ *)
Definition sd_tbl : list (N * ncfg) :=
  [ (1%N, {| preds := []; succs := [2%N]; ext_sup := true; has_dem := false; slt := 1; olt := 1; pol := BS 20; cap := None;
             init_il := None; hc := 1; pc := 0; ith := None; rev := 0; dtype := Some dRP; init_orders := 1; init_ships := 2 |});
    (2%N, {| preds := [1%N]; succs := []; ext_sup := false; has_dem := true; slt := 2; olt := 1; pol := BS 10; cap := None;
             init_il := Some 10; hc := 2; pc := 5; ith := None; rev := 0; dtype := Some dTP; init_orders := 0; init_ships := 1 |}) ].
Definition sd_net : net := {| nodes := map fst sd_tbl; cfg := tbl dflt_cfg sd_tbl |}.
Definition sd_inputs : list ((N -> bool) * (N -> Q)) :=
  map (fun t : nat => (fun n : N => match n with 2%N => Nat.eqb t 5 | 1%N => Nat.eqb t 6 | _ => false end,
                       fun n : N => match n with 2%N => qnat (2 + t mod 3) | _ => 0 end))
      (seq 0 10).
Lemma sd_good : good sd_net.
Proof. split; [apply inert_tbl|vm_compute; reflexivity]. Qed.
Lemma sd_dem_ok : dem_ok sd_inputs.
Proof. unfold dem_ok, sd_inputs. apply Forall_forall. intros i Hi. apply in_map_iff in Hi. destruct Hi as (t & E & _). subst. cbn [snd].
  intros n. unfold qnat. destruct n as [|[q|q|]]; try (cbn; lra); try destruct q; try (cbn; lra);
  match goal with |- 0 <= inject_Z (Z.of_nat ?k) => change 0 with (inject_Z 0); rewrite <- Zle_Qle; apply Nat2Z.is_nonneg end. Qed.

Notation sd_rec t := (nth t (run sd_net sd_inputs) empty_st).
(* sent 1 -> 2 per period: 0 0 3 4 2 3 4 2 3 4; received by 2 from 1: 1 1 0 0 3 4 0 2 7 2 *)
Example shipment_delay_nonvacuous :
  good sd_net /\ dem_ok sd_inputs /\ In 1%N (preds (cfg sd_net 2%N)) /\ (2 + slt (cfg sd_net 2%N) < length sd_inputs)%nat /\
  (* the hypotheses of shipment_delay and shipment_delay_exact hold at t = 2, and something is shipped *)
  (forall u, (u <= 2 + slt (cfg sd_net 2%N))%nat -> unpaused sd_net sd_inputs 2%N u) /\
  0 < gq (sd_rec 2) (fOS, 1%N, Nd 2%N) /\ gq (sd_rec 4) (fIS, 2%N, Nd 1%N) == gq (sd_rec 2) (fOS, 1%N, Nd 2%N) /\
  (* the shipment of period 4 is delayed by the transit pause of period 5: nothing arrives in period 6, it arrives in period 7 *)
  ~ unpaused sd_net sd_inputs 2%N 5 /\ gq (sd_rec 6) (fIS, 2%N, Nd 1%N) < gq (sd_rec 4) (fOS, 1%N, Nd 2%N) /\
  gq (sd_rec 7) (fIS, 2%N, Nd 1%N) == gq (sd_rec 4) (fOS, 1%N, Nd 2%N) /\
  (* after the pause two shipments arrive together: in the window 6..8 nothing is paused, but more than the shipment of 6 arrives in 8 *)
  (forall u, (6 <= u <= 6 + slt (cfg sd_net 2%N))%nat -> unpaused sd_net sd_inputs 2%N u) /\
  gq (sd_rec 6) (fOS, 1%N, Nd 2%N) < gq (sd_rec 8) (fIS, 2%N, Nd 1%N) /\
  (* external supplier of node 1: the order of period 4 is held at the door by the receipt pause of period 6 *)
  ~ unpaused sd_net sd_inputs 1%N 6 /\ 0 < gq (sd_rec 4) (fOQ, 1%N, Ext) /\ gq (sd_rec 6) (fIS, 1%N, Ext) == 0 /\
  gq (sd_rec 6) (fIDI, 1%N, Ext) == gq (sd_rec 4) (fOQ, 1%N, Ext).
Proof.
  assert (E : slt (cfg sd_net 2%N) = 2%nat) by reflexivity. rewrite E.
  split; [exact sd_good|]. split; [exact sd_dem_ok|]. split; [left; reflexivity|]. split; [vm_compute; lia|].
  split. { intros u Hu. assert (H : (u = 0 \/ u = 1 \/ u = 2 \/ u = 3 \/ u = 4)%nat) by lia.
           destruct H as [H|[H|[H|[H|H]]]]; subst u; split; vm_compute; reflexivity. }
  split; [vm_compute; reflexivity|]. split; [vm_compute; reflexivity|].
  split. { intros [H _]. vm_compute in H. discriminate H. }
  split; [vm_compute; reflexivity|]. split; [vm_compute; reflexivity|].
  split. { intros u Hu. assert (H : (u = 6 \/ u = 7 \/ u = 8)%nat) by lia. destruct H as [H|[H|H]]; subst u; split; vm_compute; reflexivity. }
  split; [vm_compute; reflexivity|].
  split. { intros [_ H]. vm_compute in H. discriminate H. }
  split; [vm_compute; reflexivity|]. split; vm_compute; reflexivity. Qed.

Print Assumptions dl_lower.
Print Assumptions dl_exact.
Print Assumptions shipment_refinement.
Print Assumptions shipment_delay.
Print Assumptions shipment_delay_exact.
Print Assumptions shipment_delay_undisrupted.
Print Assumptions external_refinement.
Print Assumptions external_delay.
Print Assumptions external_delay_exact.
Print Assumptions shipment_delay_nonvacuous.
