(* Theorems for C04 (orders follow the policy), C05 (costs) and C06 (sequence of events) about the simulator model. *)
From SV Require Import Sim.Model Sim.StateLemmas Sim.Inv_base Sim.Inv_book Sim.Inv_node.

(* ---------- the policy rules (policy.py) ---------- *)
Lemma bs_rule lv ip : let q := rule (BS lv) ip in 0 <= q /\ q == qmax 0 (lv - ip) /\ ip + q == qmax lv ip.
Proof. cbn [rule]. qcases; repeat split; lra. Qed.
Lemma sS_rule rp lv ip : (ip <= rp -> rule (SS rp lv) ip == lv - ip) /\ (rp < ip -> rule (SS rp lv) ip == 0).
Proof. cbn [rule]. destruct (qleb_spec ip rp) as [[H E]|[H E]]; rewrite E; split; intros; lra. Qed.
Lemma rQ_rule rp q ip : (ip <= rp -> rule (RQ rp q) ip == q) /\ (rp < ip -> rule (RQ rp q) ip == 0).
Proof. cbn [rule]. destruct (qleb_spec ip rp) as [[H E]|[H E]]; rewrite E; split; intros; lra. Qed.
Lemma fq_rule q ip : rule (FQ q) ip == q.
Proof. reflexivity. Qed.
Lemma ebs_rule lv ip : let q := rule (EBS lv) ip in 0 <= q /\ q == qmax 0 (lv - ip) /\ ip + q == qmax lv ip.
Proof. cbn [rule]. qcases; repeat split; lra. Qed.
Lemma cap_rule c oq k : cap c = Some k -> capped c oq == qmin oq k /\ capped c oq <= k /\ capped c oq <= oq.
Proof. intros E. unfold capped. rewrite E. qcases; repeat split; lra. Qed.
Lemma cap_none c oq : cap c = None -> oq <= BIG -> capped c oq == oq.
Proof. intros E H. unfold capped. rewrite E. qcases; lra. Qed.

Section Pol.
Variable (NW : net) (dis : N -> bool) (dem : N -> Q).
Notation C := (cfg NW).

(* the finished-goods order placed by a node in its ordering step is exactly min(capacity, rule(IP)), where IP is the
   inventory position AFTER this period's inbound orders: IL + min over suppliers (RM + on-order + held at the door)
   - sum of this period's inbound orders (echelon position for EBS); nothing is ordered while order-pausing disrupted *)
Theorem order_follows_policy s n :
  gq (place_order NW dis s n) (fOQFG, n, Ext) ==
    gq s (fOQFG, n, Ext) + (if disk NW dis n dOP then 0 else capped (C n) (rule (pol (C n)) (obs_ip NW s n))).
Proof. unfold place_order. destruct (disk NW dis n dOP); [lra|].
  assert (E : gq (fold_left (place_one NW n (order_qty NW s n)) (suppliers (C n))
                 (addq (addq s (fOQFG, n, Ext) (order_qty NW s n)) (fPFG, n, Ext) (order_qty NW s n))) (fOQFG, n, Ext)
              = gq s (fOQFG, n, Ext) + order_qty NW s n).
  { apply (fold_left_inv (fun a => gq a (fOQFG, n, Ext) = gq s (fOQFG, n, Ext) + order_qty NW s n)).
    - intros a p _ Ha. unfold place_one. destruct p; gs; try exact Ha.
    - gs. reflexivity. }
  rewrite E. unfold order_qty. rewrite Qred_correct. reflexivity. Qed.

Theorem local_position_def s n : match pol (C n) with EBS _ => True | _ =>
  obs_ip NW s n = gq s (fIL, n, Ext)
    + qmin_list (map (fun p => gq s (fRM, n, p) + gq s (fOO, n, p) + gq s (fIDI, n, p)) (suppliers (C n)))
    - qsumf (fun c => gq s (fIO, n, c)) (customers (C n)) end.
Proof. unfold obs_ip, local_ip. destruct (pol (C n)); try reflexivity; exact I. Qed.

Theorem op_pauses s n : disk NW dis n dOP = true -> place_order NW dis s n = s.
Proof. intros H. unfold place_order. rewrite H. reflexivity. Qed.

(* every supplier of the node receives the same order (network BOM numbers are 1 for single-product nodes):
   raw-material orders = finished-goods order *)
Theorem raw_material_orders s n p : NoDup (suppliers (C n)) -> In p (suppliers (C n)) -> disk NW dis n dOP = false ->
  gq (place_order NW dis s n) (fOQ, n, p) == gq s (fOQ, n, p) + order_qty NW s n /\
  gq (place_order NW dis s n) (fOO, n, p) == gq s (fOO, n, p) + order_qty NW s n.
Proof. intros ND Hp Hd. unfold place_order. rewrite Hd. set (oq := order_qty NW s n).
  set (s0 := addq (addq s (fOQFG, n, Ext) oq) (fPFG, n, Ext) oq).
  assert (E0 : gq s0 (fOQ, n, p) = gq s (fOQ, n, p) /\ gq s0 (fOO, n, p) = gq s (fOO, n, p)) by (unfold s0; gs; split; reflexivity).
  destruct E0 as [E1 E2]. rewrite <- E1, <- E2. clear E1 E2. generalize s0. clear s0.
  induction (suppliers (C n)) as [|a r IH]; intros s0; [destruct Hp|]. inversion ND as [|? ? Hna Hr]; subst. cbn [fold_left].
  destruct (nb_eq_dec a p) as [E|NE].
  - subst a. (* set now; the rest of the fold does not touch p *)
    assert (K : forall l s1, ~ In p l -> gq (fold_left (place_one NW n oq) l s1) (fOQ, n, p) = gq s1 (fOQ, n, p) /\ gq (fold_left (place_one NW n oq) l s1) (fOO, n, p) = gq s1 (fOO, n, p)).
    { induction l as [|b l' IHl]; intros s1 Hn; [split; reflexivity|]. cbn [fold_left].
      destruct (IHl (place_one NW n oq s1 b)) as [K1 K2]; [intro X; apply Hn; right; exact X|]. rewrite K1, K2.
      assert (b <> p) by (intro X; apply Hn; left; exact X).
      unfold place_one. destruct b; gs; rewrite ?gq_addq_other by (intro X; inversion X; subst; congruence); gs; split; reflexivity. }
    destruct (K r (place_one NW n oq s0 p) Hna) as [K1 K2]. rewrite K1, K2. unfold place_one. destruct p; gs; split; lra.
  - destruct Hp as [E|Hp]; [congruence|]. destruct (IH Hr Hp (place_one NW n oq s0 a)) as [I1 I2]. rewrite I1, I2.
    unfold place_one. destruct a; gs; rewrite ?gq_addq_other by (intro X; inversion X; subst; congruence); gs; split; reflexivity. Qed.

(* one-stage case of the echelon / local equivalence: for a node without successors and with a single supplier the
   echelon position equals the local position, so EBS(S) and BS(S) place identical orders *)
Theorem echelon_eq_local_single_stage s n p : succs (C n) = [] -> suppliers (C n) = [p] ->
  echelon_ip NW s n - qsumf (fun c => gq s (fIO, n, c)) (customers (C n)) == local_ip NW s n.
Proof. intros Hs Hp. unfold echelon_ip, echelon_il, local_ip, descendants, avg_over_suppliers. rewrite Hp.
  assert (D0 : desc_aux NW (length (nodes NW)) n = []) by (destruct (length (nodes NW)); cbn [desc_aux]; [reflexivity|rewrite Hs; reflexivity]).
  rewrite D0. cbn [dedupN app map qsumf qsum length qmin_list]. unfold qsumf. cbn [map qsum]. rewrite Hs. unfold on_hand, backord, qnat. cbn [Z.of_nat inject_Z].
  repeat match goal with |- context [qeqb ?a 0] => let E := fresh in destruct (qeqb a 0) eqn:E; [apply Qeq_bool_eq in E|] end; qcases; try lra; field_simplify_eq; lra. Qed.
End Pol.

(* ---------- costs (C05) ---------- *)
Section Costs.
Variable NW : net.
Notation C := (cfg NW).
(* independent statement of the documented cost of a reported state *)
Definition cost_spec (e : st) (n : N) : Q * Q * Q * Q :=
  let on_hand := qmax 0 (gq e (fIL, n, Ext)) in
  let held_for_customers := qsum (map (fun c => gq e (fODI, n, c)) (customers (C n))) in
  let raw := qsum (map (fun p => hc (C p) * (gq e (fRM, n, Nd p) + gq e (fIDI, n, Nd p))) (preds (C n))) in
  let backorders := qmax 0 (- gq e (fIL, n, Ext)) in
  let in_transit := qsum (map (fun s => qsum (gl e (fSP, s, Nd n))) (succs (C n))) in
  let rate := match ith (C n) with Some r => r | None => hc (C n) end in
  (hc (C n) * (on_hand + held_for_customers) + raw, pc (C n) * backorders, rate * in_transit,
   rev (C n) * qsum (map (fun c => gq e (fOS, n, c)) (customers (C n)))).
Theorem costs_match_spec e n : let k := node_costs NW e n in
  (c_hc k, c_sc k, c_ithc k, c_rev k) = cost_spec e n /\ c_tc k = c_hc k + c_sc k + c_ithc k - c_rev k.
Proof. split; reflexivity. Qed.
Theorem total_is_sum recs : total_cost NW recs = qsum (map (fun e => qsum (map (fun n => c_tc (node_costs NW e n)) (nodes NW))) recs).
Proof. reflexivity. Qed.
Theorem costs_nonneg e n : NN e -> 0 <= hc (C n) -> (forall p, 0 <= hc (C p)) -> 0 <= pc (C n) -> match ith (C n) with Some r => 0 <= r | None => True end ->
  let k := node_costs NW e n in 0 <= c_hc k /\ 0 <= c_sc k /\ 0 <= c_ithc k.
Proof. intros HN Hh Hhp Hp Hi. cbv zeta. unfold node_costs. cbn [c_hc c_sc c_ithc].
  assert (A : 0 <= qsumf (fun x => gq e (fODI, n, x)) (customers (C n))) by (apply qsumf_nonneg; intros; apply NN_q; [exact HN|reflexivity]).
  assert (B : 0 <= qsumf (fun p => hc (C p) * (gq e (fRM, n, Nd p) + gq e (fIDI, n, Nd p))) (preds (C n))).
  { apply qsumf_nonneg. intros p _. apply Qmult_le_0_compat; [apply Hhp|]. pose proof (NN_q e fRM n (Nd p) HN eq_refl). pose proof (NN_q e fIDI n (Nd p) HN eq_refl). lra. }
  assert (T : 0 <= qsumf (fun x => qsum (gl e (fSP, x, Nd n))) (succs (C n))) by (apply qsumf_nonneg; intros; apply qsum_nonneg, NN_l, HN).
  repeat split.
  - assert (0 <= hc (C n) * (qmax 0 (gq e (fIL, n, Ext)) + qsumf (fun x => gq e (fODI, n, x)) (customers (C n)))) by (apply Qmult_le_0_compat; [exact Hh|qcases; lra]). lra.
  - apply Qmult_le_0_compat; [exact Hp|qcases; lra].
  - apply Qmult_le_0_compat; [destruct (ith (C n)); assumption|exact T]. Qed.
(* mean over trials of the per-trial average cost per period (run_multiple_trials) *)
Definition qmean (l : list Q) : Q := qsum l / qnat (length l).
Theorem mean_of_trials (totals : list Q) (T : Q) : ~ T == 0 ->
  qmean (map (fun x => x / T) totals) == (qsum totals / T) / qnat (length totals).
Proof. intros HT. unfold qmean. rewrite map_length.
  assert (E : qsum (map (fun x => x / T) totals) == qsum totals / T).
  { induction totals as [|a r IH]; cbn [map qsum]; [field; exact HT|]. rewrite IH. field. exact HT. }
  rewrite E. reflexivity. Qed.
End Costs.

(* ---------- sequence of events (C06) ---------- *)
Section Seq.
Variable NW : net.
(* running period by period equals the batch run: the run over a ++ b is the run over a followed by the run over b
   started from the state that a leaves behind *)
Fixpoint state_after (s : st) (inputs : list ((N -> bool) * (N -> Q))) : st :=
  match inputs with [] => s | (dis, dem) :: r => state_after (next_period NW dis (run_actions NW dis dem s)) r end.
Theorem step_batch a b : forall s, run_from NW s (a ++ b) = run_from NW s a ++ run_from NW (state_after s a) b.
Proof. induction a as [|[dis dem] r IH]; intros s; cbn [app run_from state_after]; [reflexivity|]. rewrite IH. reflexivity. Qed.
Theorem run_length inputs : forall s, length (run_from NW s inputs) = length inputs.
Proof. induction inputs as [|[dis dem] r IH]; intros s; cbn [run_from length]; [reflexivity|]. rewrite IH. reflexivity. Qed.

(* customers are served in successor order, each from what the earlier ones left: the k-th customer gets
   min(stock left, its backorders + its new order), and the stock passed on decreases by exactly that amount *)
Theorem served_in_successor_order dis n s oh c : NN s -> 0 <= oh ->
  let r := serve_one NW dis n (s, oh) c in
  snd r == oh - qmin oh (gq s (fBO, n, c) + gq s (fPIO, n, c)) /\ 0 <= snd r.
Proof. intros HN Hoh. cbv zeta. destruct (serve_one_eff NW dis n s oh c) as (E & _). rewrite E.
  assert (Hb : 0 <= gq s (fBO, n, c)) by (apply NN_q; [exact HN|reflexivity]).
  assert (Hi : 0 <= gq s (fPIO, n, c)) by (apply NN_q; [exact HN|reflexivity]).
  assert (Hd : 0 <= gq s (fODI, n, c)) by (apply NN_q; [exact HN|reflexivity]).
  destruct (serve_calc_spec oh _ _ _ (match c with Nd c' => disk NW dis c' dSP | Ext => false end) Hoh Hb Hi Hd) as (S1 & S2 & _). split; assumption. Qed.
(* backorders are served before new demand: demand counts as met from stock only once the old backorders are cleared *)
Theorem backorders_before_new_demand oh bo io odi : 0 <= oh -> 0 <= bo -> 0 <= io -> 0 <= odi ->
  let o := serve_calc oh bo io odi false in
  (0 < o_dmfs o -> bo <= o_os o) /\ (o_os o - odi <= bo -> o_bo o == bo + io - (o_os o - odi)) /\ o_dmfs o <= io + odi.
Proof. intros H1 H2 H3 H4. unfold serve_calc. cbn [o_os o_bo o_odi o_dmfs o_oh]. qcases; repeat split; intros; lra. Qed.
End Seq.
