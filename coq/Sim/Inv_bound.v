(* Simulator invariants, part 8: at the end of every period nothing is pending and nothing was dropped,
   provided the two traversals visit every node and the orders traversal handles successors before predecessors.
   These conditions are decidable ([visit_okb]); the correspondence harness evaluates them on every generated network. *)
From SV Require Import Sim.Model Sim.StateLemmas Sim.Inv_base Sim.Inv_book Sim.Inv_pipe Sim.Inv_node Sim.Inv_rm Sim.Inv_init Sim.Inv_run.

Lemma memN_In x l : memN x l = true <-> In x l.
Proof. unfold memN. rewrite existsb_exists. split.
  - intros (y & Hy & E). apply N.eqb_eq in E. subst. exact Hy.
  - intros H. exists x. split; [exact H|apply N.eqb_refl]. Qed.
Lemma memN_false x l : memN x l = false <-> ~ In x l.
Proof. rewrite <- memN_In. destruct (memN x l); split; intros; try congruence; try (exfalso; auto); auto. Qed.
Lemma qsumf_zero_each {A} (g : A -> Q) l : (forall x, In x l -> 0 <= g x) -> qsumf g l == 0 -> forall x, In x l -> g x == 0.
Proof. unfold qsumf. induction l as [|a r IH]; intros Hp Hz x Hx; [destruct Hx|]. cbn [map qsum] in Hz.
  assert (0 <= g a) by (apply Hp; left; reflexivity).
  assert (0 <= qsum (map g r)) by (apply (qsumf_nonneg g r); intros y Hy; apply Hp; right; exact Hy).
  destruct Hx as [E|Hx]; [subst; lra|]. apply IH; [intros y Hy; apply Hp; right; exact Hy|lra|exact Hx]. Qed.

Section Bound.
Variable (NW : net).
Notation C := (cfg NW).
Hypothesis WF : wf_net NW.
Hypothesis WG : wf_graph NW.
Hypothesis WO : forall n, ~ In n (nodes NW) ->
  preds (C n) = [] /\ succs (C n) = [] /\ ext_sup (C n) = false /\ has_dem (C n) = false /\ il0 NW n == 0.

Inductive topo : list N -> Prop :=
  | topo_nil : topo []
  | topo_cons p l : ~ In p (preds (C p)) -> (forall m, In m l -> ~ In p (preds (C m))) -> topo l -> topo (p :: l).
Record visit_ok : Prop := {
  vo_topo : topo (order_visit NW);
  vo_ord : forall n, In n (nodes NW) -> In n (order_visit NW);
  vo_ship : forall n, In n (nodes NW) -> In n (ship_visit NW);
  vo_nodup : NoDup (nodes NW);
  vo_nd_ord : NoDup (order_visit NW);
  vo_nd_ship : NoDup (ship_visit NW) }.

Fixpoint topob (l : list N) : bool :=
  match l with [] => true
  | p :: r => negb (memN p (preds (C p))) && forallb (fun m => negb (memN p (preds (C m)))) r && topob r end.
Fixpoint nodupb (l : list N) : bool := match l with [] => true | a :: r => negb (memN a r) && nodupb r end.
Definition visit_okb : bool :=
  topob (order_visit NW) && forallb (fun n => memN n (order_visit NW)) (nodes NW)
  && forallb (fun n => memN n (ship_visit NW)) (nodes NW) && nodupb (nodes NW)
  && nodupb (order_visit NW) && nodupb (ship_visit NW).
Lemma topob_sound l : topob l = true -> topo l.
Proof. induction l as [|p r IH]; cbn [topob]; intros H; [constructor|]. apply andb_true_iff in H. destruct H as [H H3]. apply andb_true_iff in H. destruct H as [H1 H2].
  constructor; [apply memN_false, negb_true_iff; exact H1| |apply IH; exact H3].
  intros m Hm. rewrite forallb_forall in H2. apply memN_false, negb_true_iff. apply H2. exact Hm. Qed.
Lemma nodupb_sound l : nodupb l = true -> NoDup l.
Proof. induction l as [|a r IH]; cbn [nodupb]; intros H; [constructor|]. apply andb_true_iff in H. destruct H as [H1 H2].
  constructor; [apply memN_false, negb_true_iff; exact H1|apply IH; exact H2]. Qed.
Theorem visit_okb_sound : visit_okb = true -> visit_ok.
Proof. unfold visit_okb. intros H. apply andb_true_iff in H. destruct H as [H H6]. apply andb_true_iff in H. destruct H as [H H5].
  apply andb_true_iff in H. destruct H as [H H4]. apply andb_true_iff in H. destruct H as [H H3]. apply andb_true_iff in H. destruct H as [H1 H2].
  constructor; [apply topob_sound; exact H1| | |apply nodupb_sound; exact H4|apply nodupb_sound; exact H5|apply nodupb_sound; exact H6].
  - intros n Hn. rewrite forallb_forall in H2. apply memN_In, H2. exact Hn.
  - intros n Hn. rewrite forallb_forall in H3. apply memN_In, H3. exact Hn. Qed.

Variable (dis : N -> bool) (dem : N -> Q).

(* ---- orders phase: slot 0 of every order pipeline of a processed node is empty ---- *)
Lemma recv_orders_hd s p x : In x (customers (C p)) -> hd0 (gl (recv_orders NW s p) (fOP, p, x)) = 0.
Proof. intros Hx. unfold recv_orders.
  apply (fold_establish nb_eq_dec (recv_order_one p) (fun x s => hd0 (gl s (fOP, p, x)) = 0)); [| |exact Hx].
  - intros a y. unfold recv_order_one. gs. apply hd0_zero0.
  - intros a y z Hne Hq. unfold recv_order_one. gs. rewrite ?gl_sl_other by (intro E; inversion E; subst; apply Hne; reflexivity). gs. exact Hq. Qed.
Lemma place_order_op s m p x : ~ In p (preds (C m)) -> gl (place_order NW dis s m) (fOP, p, x) = gl s (fOP, p, x).
Proof. intros Hp. unfold place_order. destruct (disk NW dis m dOP); [reflexivity|].
  apply (fold_left_inv (fun a => gl a (fOP, p, x) = gl s (fOP, p, x))); [|gs; reflexivity].
  intros a q Hq Ha. unfold place_one. gs. destruct q as [|q'].
  - rewrite gl_sl_other by discriminate. exact Ha.
  - rewrite gl_sl_other; [exact Ha|]. intro E. inversion E; subst. apply Hp. apply (in_sup_nd NW). exact Hq. Qed.
Lemma orders_action_hd_set s p x : ~ In p (preds (C p)) -> In x (customers (C p)) -> hd0 (gl (orders_action NW dis dem s p) (fOP, p, x)) = 0.
Proof. intros Hp Hx. unfold orders_action. rewrite place_order_op by exact Hp. apply recv_orders_hd. exact Hx. Qed.
Lemma orders_action_op_keep s m p x : m <> p -> ~ In p (preds (C m)) -> gl (orders_action NW dis dem s m) (fOP, p, x) = gl s (fOP, p, x).
Proof. intros Hne Hp. unfold orders_action. rewrite place_order_op by exact Hp. unfold recv_orders.
  apply (fold_left_inv (fun a => gl a (fOP, p, x) = gl s (fOP, p, x))).
  - intros a y _ Ha. unfold recv_order_one. gs. rewrite ?gl_sl_other by (intro E; inversion E; subst; apply Hne; reflexivity). gs. exact Ha.
  - unfold gen_demand. destruct (has_dem (C m)); [|reflexivity]. rewrite gl_sl_other by (intro E; inversion E; subst; apply Hne; reflexivity). reflexivity. Qed.
Lemma orders_phase_hd : forall l s, topo l -> forall p x, In p l -> In x (customers (C p)) ->
  hd0 (gl (fold_left (orders_action NW dis dem) l s) (fOP, p, x)) = 0.
Proof. induction l as [|a r IH]; intros s T p x Hp Hx; [destruct Hp|]. cbn [fold_left]. inversion T as [|? ? T1 T2 T3]; subst.
  destruct (in_dec N.eq_dec p r) as [Hr|Hnr]; [apply IH; assumption|].
  destruct Hp as [E|Hr]; [subst a|contradiction].
  apply (fold_left_inv (fun b => hd0 (gl b (fOP, p, x)) = 0)).
  - intros b m Hm Hb. rewrite orders_action_op_keep; [exact Hb| |apply T2; exact Hm]. intro E. subst. contradiction.
  - apply orders_action_hd_set; assumption. Qed.

(* the shipments phase does not touch the order pipelines, and no action touches fLOST *)
Lemma ships_action_op s m f' n x : f' = fOP -> gl (ships_action NW dis s m) (f', n, x) = gl s (f', n, x).
Proof. intros ->. unfold ships_action.
  assert (H1 : gl (recv_ship NW dis s m) (fOP, n, x) = gl s (fOP, n, x)).
  { unfold recv_ship. apply (fold_left_inv (fun a => gl a (fOP, n, x) = gl s (fOP, n, x))); [|reflexivity].
    intros a p _ Ha. unfold recv_ship_one. gs. rewrite ?gl_sl_other by discriminate. gs. exact Ha. }
  assert (H2 : gl (fst (produce NW (recv_ship NW dis s m) m)) (fOP, n, x) = gl s (fOP, n, x)).
  { unfold produce. cbn [fst]. gs. rewrite <- H1.
    apply (fold_left_inv (fun a => gl a (fOP, n, x) = gl (recv_ship NW dis s m) (fOP, n, x))); [|reflexivity]. intros a p _ Ha. gs. exact Ha. }
  destruct (produce NW (recv_ship NW dis s m) m) as [s2 made]. cbn [fst] in H2. unfold fill_rate. gs. unfold serve.
  apply (fold_left_inv (fun a => gl (fst a) (fOP, n, x) = gl s (fOP, n, x))); [|cbn [fst]; gs; exact H2].
  intros [a oh] c _ Ha. cbn [fst] in Ha. unfold serve_one. set (o := serve_calc _ _ _ _ _). destruct c; cbn [fst]; gs; [exact Ha|].
  rewrite ?gl_sl_other by discriminate. gs. exact Ha. Qed.

Definition LF (s s' : st) : Prop := forall n x, gq s' (fLOST, n, x) = gq s (fLOST, n, x).
Lemma LF_refl s : LF s s.  Proof. intros n x. reflexivity. Qed.
Lemma LF_sq s0 s f n x v : f <> fLOST -> LF s0 s -> LF s0 (sq s (f, n, x) v).
Proof. intros Hf H m y. rewrite gq_sq_other by (intro E; inversion E; subst; contradiction). apply H. Qed.
Lemma LF_addq s0 s f n x v : f <> fLOST -> LF s0 s -> LF s0 (addq s (f, n, x) v).
Proof. intros. unfold addq. apply LF_sq; assumption. Qed.
Lemma LF_sl s0 s k v : LF s0 s -> LF s0 (sl s k v).
Proof. intros H m y. rewrite gq_sl. apply H. Qed.
Ltac lf := repeat first [apply LF_sl | apply LF_sq; [discriminate|] | apply LF_addq; [discriminate|] | apply LF_refl | assumption].
Lemma LF_run_actions s : LF s (run_actions NW dis dem s).
Proof. unfold run_actions.
  apply fold_left_inv.
  { intros a n _ Ha. unfold ships_action.
    assert (H1 : LF s (recv_ship NW dis a n)) by (unfold recv_ship; apply fold_left_inv; [intros b p _ Hb; unfold recv_ship_one; lf|exact Ha]).
    assert (H2 : LF s (fst (produce NW (recv_ship NW dis a n) n))).
    { unfold produce. cbn [fst]. lf. apply fold_left_inv; [intros b p _ Hb; lf|exact H1]. }
    destruct (produce NW (recv_ship NW dis a n) n) as [s2 made]. cbn [fst] in H2. unfold fill_rate. lf. unfold serve.
    apply (fold_left_inv (fun b => LF s (fst b))); [|cbn [fst]; lf].
    intros [b oh] c _ Hb. cbn [fst] in Hb. unfold serve_one. set (o := serve_calc _ _ _ _ _). destruct c; cbn [fst]; lf. }
  apply fold_left_inv; [|apply LF_refl].
  intros a n _ Ha. unfold orders_action, place_order.
  assert (H1 : LF s (recv_orders NW (gen_demand NW dem a n) n)).
  { unfold recv_orders. apply fold_left_inv; [intros b x _ Hb; unfold recv_order_one; lf|]. unfold gen_demand. destruct (has_dem (C n)); lf. }
  destruct (disk NW dis n dOP); [exact H1|]. apply fold_left_inv; [intros b p _ Hb; unfold place_one; destruct p; lf|]. lf. Qed.

(* ---- shipments phase: nothing is left pending at a processed node ---- *)
Lemma ships_phase_pio : forall l s, NN s -> ND NW s -> forall n c, In n l -> In c (customers (C n)) ->
  gq (fold_left (ships_action NW dis) l s) (fPIO, n, c) == 0.
Proof. induction l as [|a r IH]; intros s HN HD n c Hn Hc; [destruct Hn|]. cbn [fold_left].
  pose proof (NN_ships_action NW dis WF s a HN) as N1. pose proof (ND_ships_action NW dis dem WF s a HN HD) as (D1 & _ & Z1 & _).
  destruct (in_dec N.eq_dec n r) as [Hr|Hnr]; [apply IH; assumption|].
  destruct Hn as [E|Hr]; [subst a|contradiction].
  (* established by processing n, kept by the later nodes (all different from n) *)
  assert (G : forall l' s', NN s' -> ND NW s' -> ~ In n l' -> gq s' (fPIO, n, c) == 0 -> gq (fold_left (ships_action NW dis) l' s') (fPIO, n, c) == 0).
  { induction l' as [|b r' IH']; intros s' N' D' Hnot Hz; [exact Hz|]. cbn [fold_left].
    pose proof (ND_ships_action NW dis dem WF s' b N' D') as (D2 & _ & _ & K2).
    apply IH'; [apply NN_ships_action; assumption|exact D2|intro X; apply Hnot; right; exact X|].
    rewrite K2; [exact Hz| |right; right; reflexivity]. intro E. subst. apply Hnot. left. reflexivity. }
  apply G; [exact N1|exact D1|exact Hnr|].
  unfold SF in Z1. apply (qsumf_zero_each (fun c => gq (ships_action NW dis s n) (fPIO, n, c)) (customers (C n))); [|exact Z1|exact Hc].
  intros x _. apply NN_q; [exact N1|reflexivity]. Qed.

(* ---- end of period: the shift drops nothing when every slot 0 is empty ---- *)
Lemma next_node_other s m k : node_of k <> m -> gq (next_node NW dis s m) k = gq s k /\ gl (next_node NW dis s m) k = gl s k.
Proof. intros Hk. assert (K : forall f x, k <> (f, m, x)) by (intros f x E; subst k; apply Hk; reflexivity).
  unfold next_node. rewrite !gq_sq_other by apply K. rewrite !gl_sq.
  apply (fold_left_inv (fun a => gq a k = gq s k /\ gl a k = gl s k)).
  { intros a x _ [A1 A2]. rewrite !gq_sq_other by apply K. rewrite gq_sl, gq_addq_other by apply K. rewrite !gl_sq, gl_sl_other by apply K. rewrite gl_addq. split; assumption. }
  apply (fold_left_inv (fun a => gq a k = gq s k /\ gl a k = gl s k)); [|split; reflexivity].
  intros a p _ [A1 A2]. rewrite !gq_sq_other by apply K. rewrite !gl_sq. destruct (disk NW dis m dTP); [split; assumption|].
  rewrite gq_sl, gl_sl_other by apply K. split; assumption. Qed.

Lemma next_node_lost s m : (forall x, In x (customers (C m)) -> hd0 (gl s (fOP, m, x)) == 0) ->
  forall n x, gq (next_node NW dis s m) (fLOST, n, x) == gq s (fLOST, n, x).
Proof. intros Hz n x. unfold next_node. rewrite !gq_sq_other by discriminate.
  set (s1 := fold_left _ (suppliers (C m)) s).
  assert (S1 : forall n' x', gq s1 (fLOST, n', x') = gq s (fLOST, n', x') /\ gl s1 (fOP, n', x') = gl s (fOP, n', x')).
  { intros n' x'. unfold s1. apply (fold_left_inv (fun a => gq a (fLOST, n', x') = gq s (fLOST, n', x') /\ gl a (fOP, n', x') = gl s (fOP, n', x'))); [|split; reflexivity].
    intros a p _ [A1 A2]. rewrite !gq_sq_other by discriminate. rewrite !gl_sq. destruct (disk NW dis m dTP); [split; assumption|].
    rewrite gq_sl. rewrite gl_sl_other by discriminate. split; assumption. }
  assert (Hz1 : forall y, In y (customers (C m)) -> hd0 (gl s1 (fOP, m, y)) == 0).
  { intros y Hy. rewrite (proj2 (S1 m y)). apply Hz. exact Hy. }
  rewrite <- (proj1 (S1 n x)).
  (* customers fold, duplicate-free *)
  pose proof (wf_cus NW WF m) as NDc. revert NDc Hz1. generalize (customers (C m)) as l. generalize s1 as a.
  intros a l. revert a. induction l as [|y r IH]; intros a NDc Hz1; cbn [fold_left]; [reflexivity|].
  inversion NDc as [|? ? Hny Hr]; subst.
  rewrite IH.
  - rewrite !gq_sq_other by discriminate. rewrite gq_sl.
    kcase (fLOST, n, x) (fLOST, m, y); [gs; rewrite (Hz1 y) by (left; reflexivity); lra|rewrite gq_addq_other by exact KN; reflexivity].
  - exact Hr.
  - intros z Hzr. rewrite !gl_sq. rewrite gl_sl_other by (intro E; inversion E; subst; contradiction). rewrite gl_addq. apply Hz1. right. exact Hzr. Qed.

Lemma next_period_lost : forall l s, NoDup l -> (forall n x, In n l -> In x (customers (C n)) -> hd0 (gl s (fOP, n, x)) == 0) ->
  forall n x, gq (fold_left (next_node NW dis) l s) (fLOST, n, x) == gq s (fLOST, n, x).
Proof. induction l as [|m r IH]; intros s NDl Hz n x; cbn [fold_left]; [reflexivity|]. inversion NDl as [|? ? Hnm Hr]; subst.
  rewrite IH; [apply next_node_lost; intros y Hy; apply Hz; [left; reflexivity|exact Hy]|exact Hr|].
  intros n' y Hn' Hy. rewrite (proj2 (next_node_other s m (fOP, n', y) ltac:(cbn; intro E; subst; contradiction))). apply Hz; [right; exact Hn'|exact Hy]. Qed.
End Bound.

(* ---- every end-of-period state of every run ---- *)
Section BoundRun.
Variable (NW : net).
Notation C := (cfg NW).
Hypothesis WF : wf_net NW.
Hypothesis WG : wf_graph NW.
Hypothesis WO : forall n, ~ In n (nodes NW) ->
  preds (C n) = [] /\ succs (C n) = [] /\ ext_sup (C n) = false /\ has_dem (C n) = false /\ il0 NW n == 0.
Hypothesis VO : visit_ok NW.

Definition clean (e : st) : Prop :=
  (forall n x, gq e (fLOST, n, x) == 0) /\ (forall n c, In c (customers (C n)) -> gq e (fPIO, n, c) == 0).

Lemma clean_run_from inputs : forall s, ALL NW s -> (forall n x, gq s (fLOST, n, x) == 0) -> dem_ok inputs ->
  Forall clean (run_from NW s inputs).
Proof. induction inputs as [|[dis dem] r IH]; intros s Hs HL Hin; cbn [run_from]; [constructor|].
  inversion Hin as [|? ? Hd Hr]; subst. cbn [snd] in Hd.
  set (e := run_actions NW dis dem s).
  assert (He : ALL NW e) by (apply ALL_run_actions; assumption).
  assert (L1 : forall n x, gq e (fLOST, n, x) == 0) by (intros n x; unfold e; rewrite (LF_run_actions NW dis dem s n x); apply HL).
  constructor.
  - split; [exact L1|]. intros n c Hc. unfold e, run_actions.
    set (s1 := fold_left (orders_action NW dis dem) (order_visit NW) s).
    assert (H1 : NN s1 /\ ND NW s1).
    { unfold s1. apply (fold_left_inv (fun a => NN a /\ ND NW a)); [|split; [apply (a_nn NW s Hs)|apply (a_nd NW s Hs)]].
      intros a x _ [Na Da]. split; [apply NN_orders_action; assumption|apply ND_orders_action; assumption]. }
    apply (ships_phase_pio NW WF dis dem); [apply H1|apply H1| |exact Hc].
    apply (vo_ship NW VO). apply (cus_in_nodes NW WO n c Hc).
  - apply IH; [apply ALL_next_period; assumption| |exact Hr].
    intros n x. unfold next_period. rewrite (next_period_lost NW WF dis); [apply L1|apply (vo_nodup NW VO)|].
    intros n' y Hn' Hy.
    assert (HG : gl e (fOP, n', y) = gl (fold_left (orders_action NW dis dem) (order_visit NW) s) (fOP, n', y)).
    { unfold e, run_actions. apply (fold_left_inv (fun a => gl a (fOP, n', y) = gl (fold_left (orders_action NW dis dem) (order_visit NW) s) (fOP, n', y))); [|reflexivity].
      intros a m _ Ha. rewrite ships_action_op by reflexivity. exact Ha. }
    rewrite HG. rewrite (orders_phase_hd NW dis dem (order_visit NW) s (vo_topo NW VO) n' y); [reflexivity|apply (vo_ord NW VO); exact Hn'|exact Hy]. Qed.

Theorem clean_run inputs : dem_ok inputs -> Forall clean (run NW inputs).
Proof. intros H. unfold run. apply clean_run_from; [apply ALL_init; assumption| |exact H].
  intros n x. rewrite init_zero by discriminate. reflexivity. Qed.
End BoundRun.
