(* Pure part of the expectation step for serial systems (no simulator here):
   for i.i.d. demand, the expectation over the product law of the whole horizon of phi(IL^e_k(t)) -- IL^e_k given by the
   Clark-Scarf recursion [eils] -- is the nested sum [elaw] over INDEPENDENT lead-time demands, for every period
   t >= L_k + ... + L_N (the windows D(t-L_k, t], D(t-L_k-L_{k+1}, t-L_k], ... are disjoint blocks of the demand vector);
   hence E[pure_cost t] = ecost. *)
From Coq Require Import Morphisms.
From SV Require Import Base.Qx Alg.Gen Alg.Gen_proofs Sim.Model Sim.Serial Sim.CS Sim.CS_math Sim.NVExpect.
From SV Require Import Sim.SerialExp.
Open Scope Q_scope.

(* ---- linearity of the expectation operators ---- *)
Lemma expect_sum_ext : forall L off pm g g', (forall s, g s == g' s) -> expect_sum L off pm g == expect_sum L off pm g'.
Proof. induction L as [|L IH]; intros off pm g g' H; cbn [expect_sum]; [apply H|].
  apply wsum_ext. intro i. apply IH. intro s. apply H. Qed.
Lemma expect_sum_add : forall L off pm g g',
  expect_sum L off pm (fun s => g s + g' s) == expect_sum L off pm g + expect_sum L off pm g'.
Proof. induction L as [|L IH]; intros off pm g g'; cbn [expect_sum]; [reflexivity|].
  rewrite <- wsum_add. apply wsum_ext. intro i. apply IH. Qed.
Lemma expect_sum_scale : forall L off pm c g, expect_sum L off pm (fun s => c * g s) == c * expect_sum L off pm g.
Proof. induction L as [|L IH]; intros off pm c g; cbn [expect_sum]; [reflexivity|].
  rewrite <- wsum_scale. apply wsum_ext. intro i. apply IH. Qed.

Lemma expect_list_ext n off pm G G' : (forall ds, G ds == G' ds) -> expect_list n off pm G == expect_list n off pm G'.
Proof. intro H. apply expect_list_ext_in. intros ds _ _. apply H. Qed.
Lemma expect_list_add : forall n off pm G G',
  expect_list n off pm (fun ds => G ds + G' ds) == expect_list n off pm G + expect_list n off pm G'.
Proof. induction n as [|n IH]; intros off pm G G'; cbn [expect_list]; [reflexivity|].
  rewrite <- wsum_add. apply wsum_ext. intro i. apply IH. Qed.
Lemma expect_list_scale : forall n off pm c G, expect_list n off pm (fun ds => c * G ds) == c * expect_list n off pm G.
Proof. induction n as [|n IH]; intros off pm c G; cbn [expect_list]; [reflexivity|].
  rewrite <- wsum_scale. apply wsum_ext. intro i. apply IH. Qed.

(* ---- the demand function of a list ---- *)
Lemma dq_app_l x y u : (u < length x)%nat -> dq (x ++ y) u = dq x u.
Proof. intro H. unfold dq. rewrite app_nth1 by exact H. reflexivity. Qed.

Lemma qsum_range_dq : forall n a ds, (a + n <= length ds)%nat ->
  qsum_range (dq ds) a n == qnat (list_sum (firstn n (skipn a ds))).
Proof. induction n as [|n IH]; intros a ds H; cbn [qsum_range]; [reflexivity|].
  rewrite IH by lia.
  assert (E : skipn a ds = nth a ds 0%nat :: skipn (S a) ds).
  { clear IH. revert a H. induction ds as [|x r IHr]; intros a H; cbn [length] in H; [lia|].
    destruct a as [|a]; [reflexivity|]. cbn [skipn nth]. apply IHr. lia. }
  rewrite E. cbn [firstn]. change (list_sum (nth a ds 0%nat :: firstn n (skipn (S a) ds)))
    with (nth a ds 0%nat + list_sum (firstn n (skipn (S a) ds)))%nat. rewrite qnat_add. reflexivity. Qed.

Lemma dwin_dq ds L t : (L <= S t)%nat -> (t < length ds)%nat ->
  dwin (dq ds) L t == qnat (list_sum (firstn L (skipn (S t - L) ds))).
Proof. intros HL Ht. rewrite dwin_range. replace (S t - (S t - L))%nat with L by lia. apply qsum_range_dq. lia. Qed.

(* ---- the recursion reads only the demands before the period ---- *)
Lemma dwin_ext d d' L t : (forall u, (u <= t)%nat -> d u == d' u) -> dwin d L t == dwin d' L t.
Proof. intro H. unfold dwin. rewrite (dcum_ext d d' (S t)) by (intros u Hu; apply H; lia).
  rewrite (dcum_ext d d' (S t - L)) by (intros u Hu; apply H; lia). reflexivity. Qed.
Lemma eils_ext d d' : forall rst t, (forall u, (u < t)%nat -> d u == d' u) -> eils d rst t == eils d' rst t.
Proof. induction rst as [|[Se L] up IH]; intros t H; cbn [eils]; [reflexivity|].
  destruct t as [|u]; [reflexivity|].
  rewrite (dwin_ext d d' L u) by (intros v Hv; apply H; lia).
  destruct up as [|y up']; [reflexivity|].
  rewrite (IH (S u - L)%nat) by (intros v Hv; apply H; lia). reflexivity. Qed.

Lemma leadsum_cons Se L up : leadsum ((Se, L) :: up) = (L + leadsum up)%nat.
Proof. reflexivity. Qed.

(* ---- the law of the echelon inventory level ---- *)
Section Law.
Variables (off : nat) (pm : list Q).
Hypothesis H1 : qsum pm == 1.

Lemma psi_proper (phi : Q -> Q) (Hphi : Proper (Qeq ==> Qeq) phi) Se L :
  Proper (Qeq ==> Qeq) (fun x => expect_sum L off pm (fun w => phi (qmin Se x - qnat w))).
Proof. intros x x' E. apply expect_sum_ext. intro w. apply Hphi. rewrite E. reflexivity. Qed.

Theorem expect_eils : forall rst, rst <> [] -> forall phi, Proper (Qeq ==> Qeq) phi ->
  forall T tau, (leadsum rst <= tau)%nat -> (tau < T)%nat ->
  expect_list T off pm (fun ds => phi (eils (dq ds) rst (S tau))) == elaw off pm rst phi.
Proof.
  induction rst as [|[Se L] up IH]; intros Hne phi Hphi T tau Hl Ht; [congruence|].
  rewrite leadsum_cons in Hl. cbn [eils elaw]. destruct up as [|y up'].
  - (* the head of the chain: one window *)
    rewrite (expect_list_ext_in T off pm _ (fun ds => (fun w => phi (Se - qnat w)) (list_sum (firstn L (skipn (S tau - L) ds))))).
    + assert (EB : exists b, T = ((S tau - L) + (L + b))%nat) by (exists (T - S tau)%nat; lia). destruct EB as [b ->].
      apply (expect_list_window (S tau - L) L b off pm (fun w => phi (Se - qnat w)) H1).
    + intros ds Hlen _. cbv beta. apply Hphi. rewrite dwin_dq by lia. reflexivity.
  - (* a stage below: condition on the first S tau - L demands *)
    set (up := y :: up') in *.
    assert (Hup : up <> []) by (unfold up; discriminate).
    set (a := S (tau - L)). assert (Ea : (S tau - L)%nat = a) by (unfold a; lia).
    rewrite Ea.
    assert (EB : exists b, T = (a + (L + b))%nat) by (exists (T - S tau)%nat; unfold a; lia). destruct EB as [b ->].
    rewrite expect_list_app.
    rewrite (expect_list_ext_in a off pm _
               (fun x => (fun v => expect_sum L off pm (fun w => phi (qmin Se v - qnat w))) (eils (dq x) up a))).
    + unfold a. apply (IH Hup _ (psi_proper phi Hphi Se L)); unfold leadsum in *; lia.
    + intros x Hx _. cbv beta.
      rewrite (expect_list_ext_in (L + b) off pm _
                 (fun yv => (fun w => phi (qmin Se (eils (dq x) up a) - qnat w)) (list_sum (firstn L (skipn 0 yv))))).
      * apply (expect_list_window 0 L b off pm (fun w => phi (qmin Se (eils (dq x) up a) - qnat w)) H1).
      * intros yv Hy _. cbv beta. apply Hphi.
        rewrite (eils_ext (dq (x ++ yv)) (dq x) up a) by (intros u Hu; rewrite dq_app_l by lia; reflexivity).
        rewrite dwin_dq by (rewrite ?app_length; lia).
        rewrite Ea, skipn_app, Hx, Nat.sub_diag, skipn_all2 by lia. reflexivity.
Qed.

Lemma id_proper : Proper (Qeq ==> Qeq) (fun y : Q => y).
Proof. intros x y E. exact E. Qed.

Lemma leadsum_strip_tail (x : cstage) up : (leadsum (map strip up) <= leadsum (map strip (x :: up)))%nat.
Proof. unfold leadsum, list_sum. cbn [map fold_right]. lia. Qed.

Theorem expect_hsum : forall rst T tau, (leadsum (map strip rst) <= tau)%nat -> (tau < T)%nat ->
  expect_list T off pm (fun ds => hsum (dq ds) rst (S tau)) == esum off pm rst.
Proof.
  induction rst as [|x up IH]; intros T tau Hl Ht.
  - cbn [hsum esum]. apply expect_list_const. exact H1.
  - change (expect_list T off pm (fun ds => c_he x * eils (dq ds) (map strip (x :: up)) (S tau) + hsum (dq ds) up (S tau))
            == c_he x * elaw off pm (map strip (x :: up)) (fun y => y) + esum off pm up).
    rewrite expect_list_add, expect_list_scale.
    rewrite (expect_eils (map strip (x :: up)) ltac:(discriminate) (fun y => y) id_proper T tau Hl Ht).
    rewrite (IH T tau); [reflexivity| |exact Ht].
    pose proof (leadsum_strip_tail x up). lia.
Qed.

(* E[cost of period t in echelon form] = the nested sums, for t >= L_1 + ... + L_N *)
Theorem expect_pure_cost pH rst T t : rst <> [] -> (leadsum (map strip rst) <= t)%nat -> (t < T)%nat ->
  expect_list T off pm (fun ds => pure_cost pH (dq ds) rst t) == ecost off pm pH rst.
Proof.
  intros Hne Hl Ht. unfold pure_cost, ecost.
  rewrite expect_list_add, expect_list_scale, (expect_hsum rst T t Hl Ht).
  rewrite (expect_eils (map strip rst) ltac:(destruct rst; [congruence|discriminate]) negp negp_proper T t Hl Ht).
  reflexivity.
Qed.
End Law.

Print Assumptions expect_eils.
Print Assumptions expect_pure_cost.
