(* A concrete 3-node network (1 -> 2 -> 3 plus external demand at 2 and 3, all four lead-time kinds, a shipment-pausing
   disruption at node 3, an order-pausing one at node 1) used by the Props files to show that the hypotheses of the
   simulator theorems are satisfiable and that the run is non-trivial (backorders, held items, pipelines all occur). *)
From SV Require Import Sim.Model Sim.Obs Sim.Wfb Sim.Main Sim.Inv_run.

Definition ex_tbl : list (N * ncfg) :=
  [ (1%N, {| preds := []; succs := [2%N]; ext_sup := true; has_dem := false; slt := 1; olt := 1; pol := BS 12; cap := Some 9;
             init_il := None; hc := 1; pc := 0; ith := None; rev := 0; dtype := Some dOP; init_orders := 2; init_ships := 1 |});
    (2%N, {| preds := [1%N]; succs := [3%N]; ext_sup := false; has_dem := true; slt := 2; olt := 0; pol := SS 4 10; cap := None;
             init_il := Some 6; hc := 2; pc := 5; ith := Some (1#2); rev := 0; dtype := None; init_orders := 0; init_ships := 3 |});
    (3%N, {| preds := [2%N]; succs := []; ext_sup := false; has_dem := true; slt := 1; olt := 1; pol := RQ 3 5; cap := None;
             init_il := Some 2; hc := 3; pc := 8; ith := None; rev := 1; dtype := Some dSP; init_orders := 1; init_ships := 0 |}) ].
Definition ex_net : net := {| nodes := map fst ex_tbl; cfg := tbl dflt_cfg ex_tbl |}.
Definition ex_inputs : list ((N -> bool) * (N -> Q)) :=
  map (fun t : nat => (fun n : N => match n with 3%N => Nat.eqb (t mod 3) 1 | 1%N => Nat.eqb (t mod 4) 2 | _ => false end,
                       fun n : N => match n with 2%N => qnat (t mod 3) | 3%N => qnat (3 + t mod 5) | _ => 0 end))
      (seq 0 8).

Lemma ex_good : good ex_net.
Proof. split; [apply inert_tbl|vm_compute; reflexivity]. Qed.
Lemma ex_dem_ok : dem_ok ex_inputs.
Proof. unfold dem_ok, ex_inputs. apply Forall_forall. intros i Hi. apply in_map_iff in Hi. destruct Hi as (t & E & _). subst. cbn [snd].
  intros n. unfold qnat. destruct n as [|[p|p|]]; try (cbn; lra); try destruct p; try (cbn; lra);
  match goal with |- 0 <= inject_Z (Z.of_nat ?k) => change 0 with (inject_Z 0); rewrite <- Zle_Qle; apply Nat2Z.is_nonneg end. Qed.
(* the run is non-trivial: in period 5 node 2 has backorders and node 3 has units in transit and held items upstream *)
Lemma ex_nontrivial :
  exists e, In e (run ex_net ex_inputs) /\ 0 < gq e (fBO, 2%N, Nd 3%N) + gq e (fBO, 3%N, Ext) /\ 0 < qsum (gl e (fSP, 3%N, Nd 2%N)) + gq e (fODI, 2%N, Nd 3%N).
Proof. exists (nth 5 (run ex_net ex_inputs) empty_st). split; [apply nth_In; vm_compute; lia|]. vm_compute. split; reflexivity. Qed.
