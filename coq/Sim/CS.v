(* C15, serial systems: the Clark-Scarf reference recursion (executable definitions only, no proofs).
   Time is the period index 0,1,2,...; every quantity is a function of time (nat -> Q).  Timing conventions are those of
   the simulator model Sim/Model.v: the period's demand is seen first, every stage orders (order lead time 0), then the
   stages ship from upstream to downstream; a shipment sent in period u with lead time L is received in period u + L
   (so a lead time 0 shipment is received in the same period, and the exposure of a stage is L periods, not L+1).
     [xrec lv r d t]   inventory level at the START of period t (= at the end of period t-1; lv at t = 0) of a stage that
                       receives r u and is asked for d u in period u
     [delay L f]       what arrives in period u through a pipeline of length L fed with f
     [ship xp d t]     what a stage with start-of-period levels xp ships in period t to its (single) customer, who orders
                       d t:  old backorders + new order - new backorders
     [dwin d L t]      D(t-L, t] = d (t-L+1) + ... + d t  (periods before 0 count as 0) *)
From SV Require Import Base.Qx.

Definition negp (x : Q) : Q := qmax 0 (- x).
Fixpoint xrec (lv : Q) (r d : nat -> Q) (t : nat) : Q :=
  match t with O => lv | S u => xrec lv r d u + r u - d u end.
Definition delay (L : nat) (f : nat -> Q) (u : nat) : Q := if Nat.ltb u L then 0 else f (u - L)%nat.
Definition ship (xp d : nat -> Q) (t : nat) : Q := negp (xp t) + d t - negp (xp (S t)).
Fixpoint dcum (d : nat -> Q) (k : nat) : Q := match k with O => 0 | S j => dcum d j + d j end.
Definition dwin (d : nat -> Q) (L t : nat) : Q := dcum d (S t) - dcum d (S t - L).

(* the whole chain, upstream -> downstream; a stage is (local base-stock level, shipment lead time); the external
   supplier ships what is ordered, i.e. the demand: feed = d.  Result: the start-of-period trajectories. *)
Fixpoint cs_chain (feed d : nat -> Q) (stages : list (Q * nat)) : list (nat -> Q) :=
  match stages with
  | [] => []
  | (lv, L) :: r => let x := xrec lv (delay L feed) d in x :: cs_chain (ship x d) d r
  end.
Definition cs_serial (d : nat -> Q) (stages : list (Q * nat)) : list (nat -> Q) := cs_chain d d stages.

(* closed forms (Clark-Scarf), local: level at the END of period t *)
Definition cs_head_closed (lv : Q) (L : nat) (d : nat -> Q) (t : nat) : Q := lv - dwin d L t.
Definition cs_edge_closed (lv : Q) (L : nat) (xp d : nat -> Q) (t : nat) : Q := lv - negp (xp (S t - L)%nat) - dwin d L t.
(* echelon form: Se = echelon base-stock level of the stage, eup = echelon inventory level of the upstream stage at the
   START of the period (its echelon base-stock level at time 0) *)
Definition cs_edge_echelon (Se : Q) (L : nat) (eup d : nat -> Q) (t : nat) : Q := qmin Se (eup (S t - L)%nat) - dwin d L t.

(* demand sequence given as a list *)
Definition dfun (ds : list Q) (t : nat) : Q := nth t ds 0.
