(* Executable model of the ORDERING STEP of one (possibly multi-product) node in one period — Stage 2 of the simulator
   model, ordering logic only:
     sim._generate_downstream_orders, the loop over the node's products after _receive_inbound_orders (sim.py 385-445);
     policy.Policy.get_order_quantity with include_raw_materials=True (policy.py 423-521);
     node_state_vars.NodeStateVars.inventory_position with exclude_earmarked_units=True (node_state_vars.py 1041-1112).
   The products of the node place their orders one after the other, in the node's product order. Product k observes
     IL_k + min over its raw materials r of  E_k(r) / NBOM(k, r)  - demand_k,
   where E_k(r) = raw-material inventory of r + sum over the suppliers of r of (on-order + items held at the door), reduced —
   product by product, clamped at 0 each time, exactly as the Python loop does — by pending-finished-goods x NBOM of the
   node's OTHER products. On-order and pending finished goods already include what the node's earlier products ordered
   in this period. The finished-goods order is min(capacity, rule(position)); for each raw material r of k the quantity
   NBOM(k, r) x order goes to the FIRST supplier of r (the still_to_order loop gives every further supplier 0).
   No proofs in this file. The state a node hands to this step is an INPUT here (rows of rationals read from the
   implementation by the harness); the evolution of multi-product networks over time is modelled in Sim2/Model2.v,
   whose ordering action is proved to coincide with [order_step] on the rows read off the state (Sim2/Inv2c_refine.v). *)
From SV Require Export Sim.Model.

Record msup := { s_nb : nb; s_oo : Q; s_idi : Q }.
Record mrm := { r_id : N; r_inv : Q; r_sups : list msup }.     (* suppliers in the order of raw_material_suppliers_by_raw_material *)
Record mprod := { p_id : N; p_il : Q; p_dem : Q; p_pol : policy; p_cap : option Q; p_pfg : Q; p_bom : list (N * Q) }.

Definition rk_eq_dec : forall a b : N * nb, {a = b} + {a <> b}.
Proof. decide equality; [apply nb_eq_dec | apply N.eq_dec]. Defined.
Definition oq_get (oq : amap (N * nb) Q) (r : N) (p : nb) : Q := aget rk_eq_dec 0 oq (r, p).
Definition fg_get (oqfg : amap N Q) (k : N) : Q := aget N.eq_dec 0 oqfg k.

Definition nbom (pd : mprod) (r : N) : Q := aget N.eq_dec 0 (p_bom pd) r.
Definition find_rm (rms : list mrm) (r : N) : option mrm := find (fun x => N.eqb (r_id x) r) rms.
Definition capq (c : option Q) (q : Q) : Q := qmin q (match c with Some k => k | None => BIG end).

(* units of raw material r in the pipeline, incl. what this node ordered earlier in this period *)
Definition pipe_rm (oq : amap (N * nb) Q) (rm : mrm) : Q :=
  r_inv rm + qsumf (fun s => s_oo s + oq_get oq (r_id rm) (s_nb s) + s_idi s) (r_sups rm).
(* minus the units earmarked for the pending finished goods of the other products, clamped product by product *)
Definition earmark (prods : list mprod) (oqfg : amap N Q) (k r : N) (pl : Q) : Q :=
  fold_left (fun pl pd2 => if N.eqb (p_id pd2) k then pl
                           else qmax 0 (pl - (p_pfg pd2 + fg_get oqfg (p_id pd2)) * nbom pd2 r)) prods pl.
Definition units_of (prods : list mprod) (rms : list mrm) (oq : amap (N * nb) Q) (oqfg : amap N Q) (pd : mprod) (rb : N * Q) : Q :=
  match find_rm rms (fst rb) with
  | Some rm => earmark prods oqfg (p_id pd) (fst rb) (pipe_rm oq rm) / snd rb
  | None => 0 end.
Definition ip_of (prods : list mprod) (rms : list mrm) (oq : amap (N * nb) Q) (oqfg : amap N Q) (pd : mprod) : Q :=
  p_il pd + qmin_list (map (units_of prods rms oq oqfg pd) (p_bom pd)) - p_dem pd.

(* policy.get_order_quantity: still_to_order *)
Fixpoint split_order (still : Q) (sups : list msup) : list (nb * Q) :=
  match sups with [] => [] | s :: r => (s_nb s, still) :: split_order (still - still) r end.
Definition add_oq (r : N) (oq : amap (N * nb) Q) (x : nb * Q) : amap (N * nb) Q :=
  aset rk_eq_dec oq (r, fst x) (oq_get oq r (fst x) + snd x).
Definition place_rm (q : Q) (rms : list mrm) (oq : amap (N * nb) Q) (rb : N * Q) : amap (N * nb) Q :=
  match find_rm rms (fst rb) with
  | Some rm => fold_left (add_oq (fst rb)) (split_order (q * snd rb) (r_sups rm)) oq
  | None => oq end.
Definition fg_qty (prods : list mprod) (rms : list mrm) (oq : amap (N * nb) Q) (oqfg : amap N Q) (pd : mprod) : Q :=
  capq (p_cap pd) (rule (p_pol pd) (ip_of prods rms oq oqfg pd)).
Definition order_prod (prods : list mprod) (rms : list mrm) (acc : amap (N * nb) Q * amap N Q) (pd : mprod) :=
  let '(oq, oqfg) := acc in
  let q := fg_qty prods rms oq oqfg pd in
  (fold_left (place_rm q rms) (p_bom pd) oq, aset N.eq_dec oqfg (p_id pd) (fg_get oqfg (p_id pd) + q)).
Definition order_upto (prods : list mprod) (rms : list mrm) (done : list mprod) : amap (N * nb) Q * amap N Q :=
  fold_left (order_prod prods rms) done ([], []).
(* order_paused: an order-pausing disruption is active *)
Definition order_step (order_paused : bool) (prods : list mprod) (rms : list mrm) : amap (N * nb) Q * amap N Q :=
  if order_paused then ([], []) else order_upto prods rms prods.

(* observation for the harness: finished-goods orders in product order; raw-material orders per (raw material, supplier) *)
Definition order_obs (order_paused : bool) (prods : list mprod) (rms : list mrm) : list Q * list (list Q) :=
  let '(oq, oqfg) := order_step order_paused prods rms in
  (map (fun pd => fg_get oqfg (p_id pd)) prods, map (fun rm => map (fun s => oq_get oq (r_id rm) (s_nb s)) (r_sups rm)) rms).

(* inventory position each product observed (for the harness's margin rule near a reorder point) *)
Definition ip_trace (prods : list mprod) (rms : list mrm) : list Q :=
  map (fun i => match nth_error prods i with
                | Some pd => let '(oq, oqfg) := order_upto prods rms (firstn i prods) in ip_of prods rms oq oqfg pd
                | None => 0 end) (seq 0 (length prods)).
