(* C15 / C13 bridge, MODEL part (executable definitions only; proofs are in SSim_proofs.v, SSimChain_proofs.v, SSimExp_proofs.v,
   SSimMore_proofs.v, SSimLead_proofs.v).

   A single stage of the simulator model (Sim/Model.v) under an (s,S) policy: external supplier, shipment lead time L,
   no order lead time, initial inventory level x0, no disruption process, one external customer.

   TIMING, read off Model.v (orders phase, then shipments phase, then costs):
     period t starts with inventory level IL(t-1) and the window w(t-1) of the last L order quantities (oldest first);
     the demand d(t) is seen, the inventory position minus the demand  ip = IL(t-1) + sum w(t-1) - d(t)  is observed,
     the order  q(t) = S - ip if ip <= s else 0  is placed, it enters the pipeline at slot L;
     then the quantity at slot 0 (the order placed L periods ago; the order just placed if L = 0) is received and the
     demand is served:  IL(t) = IL(t-1) + hd(w(t-1) ++ [q(t)]) - d(t);   the cost of the period is h IL(t)^+ + p IL(t)^-.
   So the position AFTER ordering  Y(t) = IL(t) + sum w(t)  obeys  Y(t) = S if Y(t-1) - d(t) <= s else Y(t-1) - d(t):
   the (s,S) chain of stockpyl.ss, and IL(t+L) = Y(t) - (d(t+1) + ... + d(t+L)).
   ss.py's convention (order at the START of a period, then the demand of that period, one-period cost G(y) charged on y - D)
   is the simulator with L = 1:  "position after ordering at the start of ss-period u" = Y(u-1) of the simulator, and the
   simulator's period t costs  h (Y(t-1) - d(t))^+ + p (d(t) - Y(t-1))^+  (+ K iff Y(t-1) - d(t) <= s, an order is placed).
   With L = 0 the simulator charges h Y(t)^+ + p Y(t)^- instead (the order arrives before the demand is served): that is
   NOT the cost function of ss.py (it is the chain with the degenerate one-period cost G0(y) = h y^+ + p y^-). *)
From SV Require Export Base.Qx Sim.Model Sim.Single Alg.SS Alg.SSErgo Alg.Gen Sim.NVExpect.

(* ---------- the simulated network ---------- *)
Definition cSS (s S h p : Q) (L : nat) (x0 : Q) : ncfg :=
  {| preds := []; succs := []; ext_sup := true; has_dem := true; slt := L; olt := 0; pol := SS s S; cap := None;
     init_il := Some x0; hc := h; pc := p; ith := None; Model.rev := 0; Model.dtype := None; init_orders := 0; init_ships := 0 |}.
Definition NWS (s S h p : Q) (L : nat) (x0 : Q) : net := {| nodes := [1%N]; cfg := fun _ => cSS s S h p L x0 |}.

(* the comparison with ss.py adds the fixed cost K in every period in which an order is placed (order quantity > 0);
   e is an end-of-period record of [run] (the per-period field fOQ is still set there) *)
Definition order_placed (e : st) : bool := qltb 0 (gq e (fOQ, 1%N, Ext)).
Definition sim_cost_with_K (NW : net) (K : Q) (e : st) : Q :=
  c_tc (node_costs NW e 1%N) + (if order_placed e then K else 0).

(* ---------- the deterministic path of the (s,S) rule (reference recursion, rationals) ---------- *)
Definition ss_order (s S ip : Q) : Q := if qleb ip s then S - ip else 0.
(* one period from (IL, window) under demand d: (IL', window', order quantity) *)
Definition ref_step (s S il : Q) (w : list Q) (d : Q) : Q * list Q * Q :=
  let q := ss_order s S (il + qsum w - d) in (il + hd0 (w ++ [q]) - d, tl (w ++ [q]), q).
Fixpoint ref_run (s S il : Q) (w : list Q) (ds : list Q) : list (Q * list Q * Q) :=
  match ds with
  | [] => []
  | d :: r => let '(il', w', q) := ref_step s S il w d in (il', w', q) :: ref_run s S il' w' r
  end.
(* the (IL, window) state after a demand sequence *)
Fixpoint ref_state (s S il : Q) (w : list Q) (ds : list Q) : Q * list Q :=
  match ds with
  | [] => (il, w)
  | d :: r => let '(il', w', _) := ref_step s S il w d in ref_state s S il' w' r
  end.
(* the inventory position after ordering *)
Definition ss_next (s S y d : Q) : Q := if qleb (y - d) s then S else y - d.
Fixpoint ss_path (s S y : Q) (ds : list Q) : list Q :=
  match ds with [] => [] | d :: r => ss_next s S y d :: ss_path s S (ss_next s S y d) r end.
Definition rec_pos (r : Q * list Q * Q) : Q := let '(il, w, _) := r in il + qsum w.

(* ---------- the chain on the offsets i = S - y in 0..n-1, n = S - s (integers) ---------- *)
(* THE transition function behind [trans pmf n i j] of Alg/SS.v: from offset i the demand d leads to i + d if i + d < n, else to 0 *)
Definition off_step (n i d : nat) : nat := if Nat.ltb (i + d) n then (i + d)%nat else 0%nat.
Definition off_path (n i : nat) (ds : list nat) : nat := fold_left (off_step n) ds i.
(* successive (offset before the period, demand of the period) pairs *)
Fixpoint off_pairs (n i : nat) (ds : list nat) : list (nat * nat) :=
  match ds with [] => [] | d :: r => (i, d) :: off_pairs n (off_step n i d) r end.
(* the cost of one simulated period (L = 1) with K, as a function of the offset before the period and the demand of the period *)
Definition pcost (h p K : Q) (S : Z) (n i d : nat) : Q :=
  h * qmax 0 (inject_Z S - qnat i - qnat d) + p * qmax 0 (qnat d - (inject_Z S - qnat i))
  + (if Nat.ltb (i + d) n then 0 else K).
(* the same with L = 0: the cost is charged on the position after ordering *)
Definition pcost0 (h p K : Q) (S : Z) (n i d : nat) : Q :=
  h * qmax 0 (inject_Z S - qnat (off_step n i d)) + p * qmax 0 (qnat (off_step n i d) - inject_Z S)
  + (if Nat.ltb (i + d) n then 0 else K).

(* ---------- the simulator model's period cost with K as a function of the natural-number demand sequence ---------- *)
Definition ss_period_cost (s S : Z) (h p K : Q) (L : nat) (x0 : Z) (dss : list (N -> bool)) (t : nat) (ds : list nat) : Q :=
  let NW := NWS (inject_Z s) (inject_Z S) h p L (inject_Z x0) in
  sim_cost_with_K NW K (nth t (run NW (sim_inputs dss ds)) empty_st).

(* iterated backward operator: (P^t f) *)
Fixpoint Piter (n : nat) (P : nat -> nat -> Q) (t : nat) (f : nat -> Q) : nat -> Q :=
  match t with O => f | Datatypes.S t' => Pf n P (Piter n P t' f) end.

(* the one-period cost function of the simulator with lead time 0 *)
Definition G0 (h p : Q) (y : Z) : Q := h * qmax 0 (inject_Z y) + p * qmax 0 (- inject_Z y).

(* Cesaro average of the expected simulated period costs over the first T periods (expectation over the product distribution
   of the T demands, P(D = i) = nth i pm 0) *)
Definition sim_avg_cost (s S : Z) (h p K : Q) (L : nat) (x0 : Z) (dss : list (N -> bool)) (pm : list Q) (T : nat) : Q :=
  qsum_range (fun t => expect_list T 0 pm (ss_period_cost s S h p K L x0 dss t)) 0 T / qnat T.
