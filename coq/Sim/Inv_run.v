(* Simulator invariants, part 7: every end-of-period state of every run satisfies all invariants; the derived
   on-order identity; and the period-boundary facts (nothing pending, nothing dropped) under the traversal hypotheses. *)
From SV Require Import Sim.Model Sim.StateLemmas Sim.Inv_base Sim.Inv_book Sim.Inv_pipe Sim.Inv_node Sim.Inv_rm Sim.Inv_init.

Section Run.
Variable (NW : net).
Notation C := (cfg NW).
Hypothesis WF : wf_net NW.
Hypothesis WG : wf_graph NW.
Hypothesis WO : forall n, ~ In n (nodes NW) ->
  preds (C n) = [] /\ succs (C n) = [] /\ ext_sup (C n) = false /\ has_dem (C n) = false /\ il0 NW n == 0.

Record ALL (s : st) : Prop := { a_nn : NN s; a_bk : BK NW s; a_pl : PL NW s; a_pc : PC NW s; a_nd : ND NW s; a_rm : RMB NW s }.

Lemma ALL_init : ALL (init_state NW).
Proof. constructor; [apply NN_init; exact WF|apply BK_init; exact WO|apply PL_init; exact WO|apply PC_init; [exact WG|exact WO]|apply ND_init; [exact WF|exact WO]|].
  intros n p _. rewrite !init_zero by discriminate. lra. Qed.

Lemma ALL_run_actions dis dem s : (forall n, 0 <= dem n) -> ALL s -> ALL (run_actions NW dis dem s).
Proof. intros Hd [A1 A2 A3 A4 A5 A6]. destruct (PLPC_run_actions NW WG dis dem s WF A3 A4) as [L C'].
  constructor; [apply NN_run_actions; assumption|apply BK_run_actions; assumption|exact L|exact C'|apply NNND_run_actions; assumption|apply RMB_run_actions; assumption]. Qed.
Lemma ALL_next_period dis s : ALL s -> ALL (next_period NW dis s).
Proof. intros [A1 A2 A3 A4 A5 A6]. constructor;
  [apply NN_next_period; assumption|apply BK_next_period; [exact (fun _ => 0)|assumption]|apply PL_next_period; assumption|apply PC_next_period; [exact (fun _ => 0)|assumption]
  |apply ND_next_period; [exact (fun _ => 0)|assumption]|apply RMB_next_period; [exact (fun _ => 0)|assumption]]. Qed.

Definition dem_ok (inputs : list ((N -> bool) * (N -> Q))) : Prop := Forall (fun i => forall n, 0 <= snd i n) inputs.

Lemma ALL_run_from inputs : forall s, ALL s -> dem_ok inputs -> Forall ALL (run_from NW s inputs).
Proof. induction inputs as [|[dis dem] r IH]; intros s Hs Hin; cbn [run_from]; [constructor|].
  inversion Hin as [|? ? Hd Hr]; subst. cbn [snd] in Hd.
  assert (He : ALL (run_actions NW dis dem s)) by (apply ALL_run_actions; assumption).
  constructor; [exact He|]. apply IH; [|exact Hr]. apply ALL_next_period. exact He. Qed.

Theorem ALL_run inputs : dem_ok inputs -> Forall ALL (run NW inputs).
Proof. intros H. unfold run. apply ALL_run_from; [apply ALL_init|exact H]. Qed.

(* ---- consequences of the invariants in any state ---- *)
Theorem on_order_general s : ALL s ->
  (forall n p, In p (preds (C n)) ->
     gq s (fOO, n, Nd p) == qsum (gl s (fOP, p, Nd n)) + gq s (fBO, p, Nd n) + gq s (fODI, p, Nd n) + qsum (gl s (fSP, n, Nd p))
                            + gq s (fPIO, p, Nd n) + gq s (fLOST, p, Nd n)) /\
  (forall n, ext_sup (C n) = true -> gq s (fOO, n, Ext) == qsum (gl s (fSP, n, Ext))).
Proof. intros [A1 A2 A3 A4 A5 A6]. split.
  - intros n p Hp. pose proof (bk_oo NW s A2 n (Nd p) (proj2 (in_sup_nd NW n p) Hp)) as E1.
    pose proof (pc_ord NW s A4 n p Hp) as E2. pose proof (bk_order NW s A2 p (Nd n)) as E3. pose proof (pc_edge NW s A4 n p Hp) as E4.
    unfold oo0, sp0, io0 in *. lra.
  - intros n He. pose proof (bk_oo NW s A2 n Ext (proj2 (in_sup_ext NW n) He)) as E1. pose proof (pc_ext NW s A4 n He) as E2.
    unfold oo0, sp0, io0 in *. lra. Qed.

Lemma SF_nonneg f s n l : NN s -> nnf f = true -> 0 <= SF f s n l.
Proof. intros H Hf. unfold SF. apply qsumf_nonneg. intros x _. apply NN_q; assumption. Qed.

Theorem demand_met_le_demand s n : ALL s -> gq s (fDMC, n, Ext) <= gq s (fDC, n, Ext) /\ 0 <= gq s (fDMC, n, Ext).
Proof. intros [A1 A2 A3 A4 A5 A6]. pose proof (nd_dm NW s A5 n) as E1. pose proof (nd_pend NW s A5 n) as E2. pose proof (bk_dc NW s A2 n) as E3.
  pose proof (SF_nonneg fBO s n (customers (C n)) A1 eq_refl). pose proof (SF_nonneg fODI s n (customers (C n)) A1 eq_refl).
  pose proof (SF_nonneg fPIO s n (customers (C n)) A1 eq_refl). split; [lra|apply NN_q; [exact A1|reflexivity]]. Qed.

(* the fill rate written by the shipping action is cumulative demand met from stock / cumulative demand, in [0,1] *)
Theorem fill_rate_def dis s n : let e := ships_action NW dis s n in
  gq e (fFR, n, Ext) = (if qltb 0 (gq e (fDC, n, Ext)) then gq e (fDMC, n, Ext) / gq e (fDC, n, Ext) else 1).
Proof. cbv zeta. unfold ships_action. destruct (produce NW (recv_ship NW dis s n) n) as [s2 made]. unfold fill_rate.
  rewrite gq_sq_same. rewrite !gq_sq_other by discriminate. reflexivity. Qed.
Lemma fill_rate_range dc dmc : 0 <= dmc -> dmc <= dc -> let fr := (if qltb 0 dc then dmc / dc else 1) in 0 <= fr /\ fr <= 1.
Proof. intros H0 H1. cbv zeta. destruct (qltb_spec 0 dc) as [[Hp E]|[Hp E]]; rewrite E; [|split; lra].
  split.
  - unfold Qdiv. apply Qmult_le_0_compat; [exact H0|]. apply Qlt_le_weak, Qinv_lt_0_compat. exact Hp.
  - apply Qle_shift_div_r; [exact Hp|]. lra. Qed.
End Run.
