(* Proofs about the ordering step of a multi-product node (Sim/MultiOrder.v):
   - every product's finished-goods order is min(capacity, rule(position it observed)), the position being computed from the
     state the node started the step with plus the orders its earlier products placed in this step;
   - per raw material, the orders placed with its suppliers add up to sum over the products of NBOM x finished-goods order;
   - the first supplier of a raw material gets everything, every other supplier 0;
   - nothing is ordered while an order-pausing disruption is active; orders are non-negative;
   - for a single product with NBOM = 1 and one supplier per raw material the observed position is the Stage-1 [local_ip] form. *)
From SV Require Import Sim.Model Sim.MultiOrder Sim.StateLemmas Sim.Inv_node.

Local Open Scope Q_scope.

(* ---- sums with one key updated ---- *)
Lemma qsumf_key_update {A} (key : A -> N) (w : A -> Q) (h h' : N -> Q) l a0 :
  NoDup (map key l) -> In a0 l -> (forall j, j <> key a0 -> h' j = h j) ->
  qsumf (fun a => w a * h' (key a)) l == qsumf (fun a => w a * h (key a)) l + w a0 * (h' (key a0) - h (key a0)).
Proof. unfold qsumf. induction l as [|a r IH]; intros ND Hin Hh; [destruct Hin|].
  cbn [map qsum]. cbn [map] in ND. inversion ND as [|? ? Hna Hr]; subst.
  destruct Hin as [E|Hin].
  - subst a0. rewrite (qsum_map_ext (fun a => w a * h' (key a)) (fun a => w a * h (key a)) r).
    + ring.
    + intros x Hx. rewrite Hh; [reflexivity|]. intro E. apply Hna. rewrite <- E. apply in_map. exact Hx.
  - assert (NE : key a <> key a0). { intro E. apply Hna. rewrite E. apply in_map. exact Hin. }
    rewrite (Hh _ NE). rewrite (IH Hr Hin Hh). ring. Qed.

Lemma qsumf_key_same {A} (key : A -> N) (w : A -> Q) (h h' : N -> Q) l k :
  ~ In k (map key l) -> (forall j, j <> k -> h' j = h j) ->
  qsumf (fun a => w a * h' (key a)) l == qsumf (fun a => w a * h (key a)) l.
Proof. intros Hn Hh. apply qsumf_ext. intros x Hx. rewrite Hh; [reflexivity|]. intro E. apply Hn. rewrite <- E. apply in_map. exact Hx. Qed.

(* ---- reading the two maps ---- *)
Lemma oq_get_add_same r oq x : oq_get (add_oq r oq x) r (fst x) = oq_get oq r (fst x) + snd x.
Proof. unfold add_oq, oq_get. apply aget_aset_same. Qed.
Lemma oq_get_add_other r oq x r' p : (r', p) <> (r, fst x) -> oq_get (add_oq r oq x) r' p = oq_get oq r' p.
Proof. intros H. unfold add_oq, oq_get. apply aget_aset_other. exact H. Qed.
Lemma fg_get_set_same oqfg k v : fg_get (aset N.eq_dec oqfg k v) k = v.
Proof. apply aget_aset_same. Qed.
Lemma fg_get_set_other oqfg k v j : j <> k -> fg_get (aset N.eq_dec oqfg k v) j = fg_get oqfg j.
Proof. intros H. apply aget_aset_other. exact H. Qed.

(* ---- still_to_order: the first supplier gets everything ---- *)
Lemma split_order_keys q sups : map fst (split_order q sups) = map s_nb sups.
Proof. revert q. induction sups as [|s r IH]; intros q; cbn [split_order map fst]; [reflexivity|]. rewrite IH. reflexivity. Qed.
Lemma split_order_zero q sups : q == 0 -> Forall (fun x => snd x == 0) (split_order q sups).
Proof. revert q. induction sups as [|s r IH]; intros q Hq; cbn [split_order]; constructor; [exact Hq|]. apply IH. lra. Qed.
Lemma qsum_all_zero l : Forall (fun x : nb * Q => snd x == 0) l -> qsum (map snd l) == 0.
Proof. induction 1 as [|x r Hx _ IH]; cbn [map qsum]; lra. Qed.
Lemma split_order_sum q sups : sups <> [] -> qsum (map snd (split_order q sups)) == q.
Proof. destruct sups as [|s r]; [congruence|]. intros _. cbn [split_order map qsum snd].
  rewrite (qsum_all_zero _ (split_order_zero (q - q) r ltac:(lra))). lra. Qed.
Lemma split_order_first q s r : split_order q (s :: r) = (s_nb s, q) :: split_order (q - q) r.
Proof. reflexivity. Qed.

Section Sums.
Variable (r : N) (keys : list nb).
Hypothesis ND : NoDup keys.
Definition SR (oq : amap (N * nb) Q) : Q := qsumf (oq_get oq r) keys.

Lemma SR_add_same oq x : In (fst x) keys -> SR (add_oq r oq x) == SR oq + snd x.
Proof. intros Hin. unfold SR.
  rewrite (qsumf_update nb_eq_dec (oq_get oq r) (oq_get (add_oq r oq x) r) keys (fst x) ND).
  - destruct (in_dec nb_eq_dec (fst x) keys) as [_|N']; [|contradiction]. rewrite oq_get_add_same. lra.
  - intros y Hy. apply oq_get_add_other. intro E. inversion E. contradiction. Qed.
Lemma SR_add_other r' oq x : r' <> r -> SR (add_oq r' oq x) == SR oq.
Proof. intros NE. unfold SR. apply qsumf_ext. intros y _. rewrite oq_get_add_other; [reflexivity|]. intro E. inversion E. apply NE. symmetry. assumption. Qed.
Lemma SR_fold_same xs oq : Forall (fun x => In (fst x) keys) xs -> SR (fold_left (add_oq r) xs oq) == SR oq + qsum (map snd xs).
Proof. revert oq. induction xs as [|x xs IH]; intros oq H; cbn [fold_left map qsum]; [lra|].
  inversion H as [|? ? Hx Hr]; subst. rewrite (IH _ Hr). rewrite (SR_add_same _ _ Hx). lra. Qed.
Lemma SR_fold_other r' xs oq : r' <> r -> SR (fold_left (add_oq r') xs oq) == SR oq.
Proof. intros NE. revert oq. induction xs as [|x xs IH]; intros oq; cbn [fold_left]; [reflexivity|]. rewrite IH. apply SR_add_other. exact NE. Qed.
End Sums.

(* ---- well-formedness of the rows handed to the step ---- *)
Record mwf (prods : list mprod) (rms : list mrm) : Prop := {
  wf_pid : NoDup (map p_id prods);
  wf_rid : NoDup (map r_id rms);
  wf_sup : forall rm, In rm rms -> NoDup (map s_nb (r_sups rm)) /\ r_sups rm <> [];
  wf_bom : forall pd, In pd prods -> NoDup (map fst (p_bom pd)) /\ forall rb, In rb (p_bom pd) -> exists rm, In rm rms /\ r_id rm = fst rb }.

Lemma find_rm_in rms rm : NoDup (map r_id rms) -> In rm rms -> find_rm rms (r_id rm) = Some rm.
Proof. unfold find_rm. induction rms as [|a l IH]; intros ND Hin; [destruct Hin|].
  cbn [find map] in *. inversion ND as [|? ? Hna Hr]; subst. destruct Hin as [E|Hin].
  - subst. rewrite N.eqb_refl. reflexivity.
  - destruct (N.eqb_spec (r_id a) (r_id rm)) as [E|NE].
    + exfalso. apply Hna. rewrite E. apply in_map. exact Hin.
    + apply IH; assumption. Qed.
Lemma find_rm_id rms r rm : find_rm rms r = Some rm -> r_id rm = r /\ In rm rms.
Proof. unfold find_rm. intros H. apply find_some in H. destruct H as [H1 H2]. apply N.eqb_eq in H2. split; assumption. Qed.

(* sum of the BOM numbers of raw material r in a BOM row list; equals the table lookup when keys are distinct *)
Definition bom_at (bom : list (N * Q)) (r : N) : Q := qsum (map (fun rb => if N.eq_dec (fst rb) r then snd rb else 0) bom).
Lemma bom_at_absent bom r : ~ In r (map fst bom) -> bom_at bom r == 0.
Proof. unfold bom_at. induction bom as [|a l IH]; intros H; cbn [map qsum]; [lra|].
  destruct (N.eq_dec (fst a) r) as [E|NE]; [exfalso; apply H; left; exact E|]. rewrite IH; [lra|]. intro I. apply H. right. exact I. Qed.
Lemma aget_absent (bom : list (N * Q)) r : ~ In r (map fst bom) -> aget N.eq_dec 0 bom r = 0.
Proof. induction bom as [|[k v] l IH]; intros H; cbn [aget]; [reflexivity|].
  destruct (N.eq_dec r k) as [E|NE]; [exfalso; apply H; left; symmetry; exact E|]. apply IH. intro I. apply H. right. exact I. Qed.
Lemma bom_at_lookup bom r : NoDup (map fst bom) -> bom_at bom r == aget N.eq_dec 0 bom r.
Proof. unfold bom_at. induction bom as [|[k v] l IH]; intros ND; cbn [map qsum aget fst snd]; [lra|].
  cbn [map fst] in ND. inversion ND as [|? ? Hna Hr]; subst.
  destruct (N.eq_dec k r) as [E|NE]; destruct (N.eq_dec r k) as [E'|NE']; try congruence.
  - subst. fold (bom_at l r). rewrite (bom_at_absent l r Hna). lra.
  - rewrite (IH Hr). lra. Qed.

Section Step.
Variables (prods : list mprod) (rms : list mrm).
Hypothesis WF : mwf prods rms.

(* placing the raw-material orders of one product: the total for raw material rm grows by q x (BOM number) *)
Lemma place_rm_total rm q bom oq : In rm rms ->
  (forall rb, In rb bom -> exists rm', In rm' rms /\ r_id rm' = fst rb) ->
  SR (r_id rm) (map s_nb (r_sups rm)) (fold_left (place_rm q rms) bom oq)
  == SR (r_id rm) (map s_nb (r_sups rm)) oq + q * bom_at bom (r_id rm).
Proof. intros Hrm. destruct (wf_sup _ _ WF rm Hrm) as [NDs NEs].
  revert oq. unfold bom_at. induction bom as [|rb l IH]; intros oq Hex; cbn [fold_left map qsum]; [lra|].
  rewrite IH by (intros x Hx; apply Hex; right; exact Hx).
  assert (Step : SR (r_id rm) (map s_nb (r_sups rm)) (place_rm q rms oq rb)
                 == SR (r_id rm) (map s_nb (r_sups rm)) oq + q * (if N.eq_dec (fst rb) (r_id rm) then snd rb else 0)).
  { unfold place_rm. destruct (N.eq_dec (fst rb) (r_id rm)) as [E|NE].
    - rewrite E. rewrite (find_rm_in rms rm (wf_rid _ _ WF) Hrm).
      rewrite (SR_fold_same (r_id rm) (map s_nb (r_sups rm)) NDs).
      + rewrite (split_order_sum _ _ NEs). lra.
      + apply Forall_forall. intros x Hx. rewrite <- (split_order_keys (q * snd rb) (r_sups rm)). apply in_map. exact Hx.
    - destruct (find_rm rms (fst rb)) as [rm'|] eqn:F; [|lra].
      rewrite (SR_fold_other (r_id rm) (map s_nb (r_sups rm)) (fst rb)) by exact NE. lra. }
  rewrite Step. lra. Qed.

(* the invariant of the loop over the products *)
Definition TOT (acc : amap (N * nb) Q * amap N Q) : Prop :=
  forall rm, In rm rms ->
    SR (r_id rm) (map s_nb (r_sups rm)) (fst acc) == qsumf (fun pd => nbom pd (r_id rm) * fg_get (snd acc) (p_id pd)) prods.

Lemma TOT_init : TOT ([], []).
Proof. intros rm _. cbn [fst snd]. unfold SR, qsumf.
  rewrite (qsum_map_ext (oq_get [] (r_id rm)) (fun _ => 0)) by (intros; reflexivity).
  rewrite (qsum_map_ext (fun pd => nbom pd (r_id rm) * fg_get [] (p_id pd)) (fun _ => 0)) by (intros; unfold fg_get; cbn [aget]; lra).
  assert (Z0 : forall A (l : list A), qsum (map (fun _ => 0) l) == 0) by (intros A l; induction l; cbn [map qsum]; lra).
  rewrite !Z0. reflexivity. Qed.

Lemma TOT_step acc pd : In pd prods -> TOT acc -> TOT (order_prod prods rms acc pd).
Proof. intros Hpd H rm Hrm. destruct acc as [oq oqfg]. unfold order_prod. cbn [fst snd] in *.
  set (q := fg_qty prods rms oq oqfg pd).
  destruct (wf_bom _ _ WF pd Hpd) as [NDb Hex].
  rewrite (place_rm_total rm q (p_bom pd) oq Hrm Hex). rewrite (H rm Hrm).
  rewrite (qsumf_key_update p_id (fun pd' => nbom pd' (r_id rm)) (fg_get oqfg) (fg_get (aset N.eq_dec oqfg (p_id pd) (fg_get oqfg (p_id pd) + q))) prods pd (wf_pid _ _ WF) Hpd).
  - rewrite fg_get_set_same. rewrite (bom_at_lookup _ _ NDb). unfold nbom. cbn [fst snd]. ring.
  - intros j Hj. apply fg_get_set_other. exact Hj. Qed.

Lemma TOT_upto done : incl done prods -> TOT (order_upto prods rms done).
Proof. intros Hi. unfold order_upto. apply fold_left_inv; [|exact TOT_init].
  intros a x Hx Ha. apply TOT_step; [apply Hi; exact Hx|exact Ha]. Qed.

(* C04, bill-of-materials clause: per raw material, the orders placed with its suppliers add up to NBOM x finished-goods orders *)
Theorem raw_material_orders_add_up paused rm : In rm rms ->
  let '(oq, oqfg) := order_step paused prods rms in
  qsumf (fun p => oq_get oq (r_id rm) p) (map s_nb (r_sups rm)) == qsumf (fun pd => nbom pd (r_id rm) * fg_get oqfg (p_id pd)) prods.
Proof. intros Hrm. unfold order_step. destruct paused.
  - exact (TOT_init rm Hrm).
  - pose proof (TOT_upto prods (incl_refl _) rm Hrm) as H. destruct (order_upto prods rms prods) as [oq oqfg]. exact H. Qed.

(* products processed later do not touch the finished-goods order of an earlier one *)
Lemma fg_untouched done acc k : ~ In k (map p_id done) -> fg_get (snd (fold_left (order_prod prods rms) done acc)) k = fg_get (snd acc) k.
Proof. revert acc. induction done as [|pd l IH]; intros acc Hn; cbn [fold_left]; [reflexivity|].
  rewrite IH by (intro I; apply Hn; right; exact I).
  destruct acc as [oq oqfg]. unfold order_prod. cbn [snd]. apply fg_get_set_other. intro E. apply Hn. left. symmetry. exact E. Qed.

(* C04, rule clause: each product's finished-goods order is min(capacity, rule(position observed when its turn comes)) *)
Theorem fg_order_follows_policy pre pd post : prods = pre ++ pd :: post ->
  let '(oq0, oqfg0) := order_upto prods rms pre in
  fg_get (snd (order_step false prods rms)) (p_id pd) == capq (p_cap pd) (rule (p_pol pd) (ip_of prods rms oq0 oqfg0 pd)).
Proof. intros E. pose proof (wf_pid _ _ WF) as ND. rewrite E in ND. rewrite map_app in ND. cbn [map] in ND.
  assert (U : order_upto prods rms (pre ++ pd :: post)
              = fold_left (order_prod prods rms) post (order_prod prods rms (order_upto prods rms pre) pd)).
  { unfold order_upto. rewrite fold_left_app. reflexivity. }
  rewrite <- E in U. unfold order_step. rewrite U. clear U.
  assert (Z : fg_get (snd (order_upto prods rms pre)) (p_id pd) = 0).
  { unfold order_upto. rewrite fg_untouched; [reflexivity|]. apply NoDup_remove_2 in ND. intro I. apply ND. apply in_or_app. left. exact I. }
  destruct (order_upto prods rms pre) as [oq0 oqfg0]. cbn [snd] in Z.
  rewrite fg_untouched.
  - unfold order_prod. cbn [snd]. rewrite fg_get_set_same. unfold fg_qty. rewrite Z. lra.
  - apply NoDup_remove_2 in ND. intro I. apply ND. apply in_or_app. right. exact I. Qed.

(* order-pausing disruption: nothing is ordered *)
Theorem paused_orders_nothing : forall k r p, fg_get (snd (order_step true prods rms)) k = 0 /\ oq_get (fst (order_step true prods rms)) r p = 0.
Proof. intros. split; reflexivity. Qed.
End Step.

(* the first supplier of a raw material receives the whole order, every further supplier nothing *)
Theorem first_supplier_gets_all q s rest : split_order q (s :: rest) = (s_nb s, q) :: split_order (q - q) rest /\
  Forall (fun x => snd x == 0) (split_order (q - q) rest).
Proof. split; [reflexivity|]. apply split_order_zero. lra. Qed.

(* Stage-1 form: one product, NBOM = 1, one supplier per raw material, nothing ordered yet in this step *)
Lemma earmark_single pd oqfg r pl : earmark [pd] oqfg (p_id pd) r pl = pl.
Proof. unfold earmark. cbn [fold_left]. rewrite N.eqb_refl. reflexivity. Qed.
Theorem single_product_position pd rms :
  NoDup (map r_id rms) ->
  p_bom pd = map (fun rm => (r_id rm, 1)) rms ->
  (forall rm, In rm rms -> exists s, r_sups rm = [s]) ->
  ip_of [pd] rms [] [] pd ==
  p_il pd + qmin_list (map (fun rm => r_inv rm + qsumf (fun s => s_oo s + s_idi s) (r_sups rm)) rms) - p_dem pd.
Proof. intros ND Hb H1. unfold ip_of. rewrite Hb. rewrite map_map.
  assert (E : forall l, incl l rms ->
            Forall2 Qeq (map (fun rm => units_of [pd] rms [] [] pd (r_id rm, 1)) l)
                        (map (fun rm => r_inv rm + qsumf (fun s => s_oo s + s_idi s) (r_sups rm)) l)).
  { induction l as [|rm l IH]; intros Hi; cbn [map]; constructor.
    - unfold units_of. cbn [fst snd]. rewrite (find_rm_in rms rm ND) by (apply Hi; left; reflexivity).
      rewrite earmark_single. unfold pipe_rm. destruct (H1 rm (Hi rm (or_introl eq_refl))) as [s Es]. rewrite Es.
      unfold qsumf, oq_get. cbn [map qsum aget]. field.
    - apply IH. intros x Hx. apply Hi. right. exact Hx. }
  specialize (E rms (incl_refl _)).
  assert (M : forall a b, Forall2 Qeq a b -> qmin_list a == qmin_list b).
  { induction 1 as [|x y l l' Hxy Hl IH]; [reflexivity|]. destruct Hl as [|x' y' l l' Hxy' Hl].
    - cbn [qmin_list]. exact Hxy.
    - change (qmin_list (x :: x' :: l)) with (qmin x (qmin_list (x' :: l))).
      change (qmin_list (y :: y' :: l')) with (qmin y (qmin_list (y' :: l'))).
      assert (IH' := IH). clear IH. qcases; lra. }
  rewrite (M _ _ E). reflexivity. Qed.
