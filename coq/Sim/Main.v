(* Final forms of the simulator theorems: statements about every end-of-period record [e] of every run of every
   well-formed network ([good]: decidable, see Sim/Wfb.v), for every horizon and every non-negative demand input. *)
From SV Require Import Sim.Model Sim.Obs Sim.StateLemmas Sim.Inv_base Sim.Inv_book Sim.Inv_pipe Sim.Inv_node Sim.Inv_rm
  Sim.Inv_init Sim.Inv_run Sim.Inv_bound Sim.Wfb Sim.Delay Sim.Policy_thms Sim.PerPeriod.

Definition good (NW : net) : Prop := inert NW /\ netb NW = true.

Section Main.
Variable (NW : net) (inputs : list ((N -> bool) * (N -> Q))).
Notation C := (cfg NW).
Hypothesis G : good NW.
Hypothesis D : dem_ok inputs.

Lemma good_wf : wf_net NW.  Proof. destruct G. apply wf_net_of_netb; assumption. Qed.
Lemma good_wg : wf_graph NW.  Proof. destruct G. apply wf_graph_of_netb; assumption. Qed.
Lemma good_wo : forall n, ~ In n (nodes NW) ->
  preds (C n) = [] /\ succs (C n) = [] /\ ext_sup (C n) = false /\ has_dem (C n) = false /\ il0 NW n == 0.
Proof. destruct G. apply outside; assumption. Qed.
Lemma good_vo : visit_ok NW.  Proof. destruct G. apply visit_ok_of_netb; assumption. Qed.

Lemma rec_all e : In e (run NW inputs) -> ALL NW e.
Proof. intros H. pose proof (ALL_run NW good_wf good_wg good_wo inputs D) as F. rewrite Forall_forall in F. apply F. exact H. Qed.
Lemma rec_clean e : In e (run NW inputs) -> clean NW e.
Proof. intros H. pose proof (clean_run NW good_wf good_wg good_wo good_vo inputs D) as F. rewrite Forall_forall in F. apply F. exact H. Qed.

Lemma qsumf_all_zero {A} (g : A -> Q) l : (forall x, In x l -> g x == 0) -> qsumf g l == 0.
Proof. unfold qsumf. induction l as [|a r IH]; intros H; cbn [map qsum]; [lra|].
  rewrite (H a) by (left; reflexivity). rewrite IH; [lra|]. intros x Hx. apply H. right. exact Hx. Qed.
Lemma pend_zero e n : In e (run NW inputs) -> gq e (fPEND, n, Ext) == 0.
Proof. intros H. pose proof (nd_pend NW e (a_nd NW e (rec_all e H)) n) as E. rewrite E. unfold SF.
  destruct (rec_clean e H) as [_ Z]. apply qsumf_all_zero. intros c Hc. apply Z. exact Hc. Qed.

(* ---- C01 ---- *)
Theorem inventory_balance e n : In e (run NW inputs) ->
  gq e (fIL, n, Ext) == il0 NW n + gq e (fCP, n, Ext) - gq e (fDC, n, Ext).
Proof. intros H. pose proof (rec_all e H) as A. pose proof (bk_il NW e (a_bk NW e A) n). pose proof (bk_dc NW e (a_bk NW e A) n). pose proof (pend_zero e n H). lra. Qed.
Theorem raw_material_balance e n p : In e (run NW inputs) -> In p (suppliers (C n)) ->
  gq e (fRM, n, p) == gq e (fcIS, n, p) - gq e (fCP, n, Ext) /\ 0 <= gq e (fRM, n, p).
Proof. intros H Hp. pose proof (rec_all e H) as A. pose proof (a_rm NW e A n p Hp). split; [lra|]. apply NN_q; [apply A|reflexivity]. Qed.
Theorem edge_conservation e n p : In e (run NW inputs) -> In p (preds (C n)) ->
  gq e (fcOS, p, Nd n) + sp0 NW n == gq e (fcIS, n, Nd p) + qsum (gl e (fSP, n, Nd p)) + gq e (fIDI, n, Nd p).
Proof. intros H Hp. apply (pc_edge NW e (a_pc NW e (rec_all e H))). exact Hp. Qed.
Theorem external_edge_conservation e n : In e (run NW inputs) -> ext_sup (C n) = true ->
  gq e (fcOQ, n, Ext) + (sp0 NW n + io0 NW n) == gq e (fcIS, n, Ext) + qsum (gl e (fSP, n, Ext)) + gq e (fIDI, n, Ext).
Proof. intros H He. apply (pc_ext NW e (a_pc NW e (rec_all e H))). exact He. Qed.
Theorem order_conservation e n c : In e (run NW inputs) -> In c (customers (C n)) ->
  gq e (fcIO, n, c) == gq e (fcOS, n, c) + gq e (fBO, n, c) + gq e (fODI, n, c).
Proof. intros H Hc. pose proof (bk_order NW e (a_bk NW e (rec_all e H)) n c) as E. destruct (rec_clean e H) as [_ Z]. rewrite (Z n c Hc) in E. lra. Qed.

(* ---- C02 ---- *)
Theorem backorders_eq_neg_il e n : In e (run NW inputs) ->
  qsumf (fun c => gq e (fBO, n, c)) (customers (C n)) == qmax 0 (- gq e (fIL, n, Ext)).
Proof. intros H. apply (nd_bo NW e (a_nd NW e (rec_all e H))). Qed.
Theorem counts_nonneg e n x : In e (run NW inputs) ->
  0 <= gq e (fOS, n, x) /\ 0 <= gq e (fIO, n, x) /\ 0 <= gq e (fOQ, n, x) /\ 0 <= gq e (fOQFG, n, Ext) /\ 0 <= gq e (fIS, n, x)
  /\ 0 <= gq e (fRM, n, x) /\ 0 <= gq e (fBO, n, x) /\ 0 <= gq e (fODI, n, x) /\ 0 <= gq e (fIDI, n, x) /\ 0 <= gq e (fDMFS, n, Ext)
  /\ Forall (fun v => 0 <= v) (gl e (fSP, n, x)) /\ Forall (fun v => 0 <= v) (gl e (fOP, n, x)).
Proof. intros H. pose proof (a_nn NW e (rec_all e H)) as A. repeat split; try (apply NN_q; [exact A|reflexivity]); apply NN_l; exact A. Qed.
Theorem on_order_nonneg e n p : In e (run NW inputs) -> In p (suppliers (C n)) -> 0 <= gq e (fOO, n, p).
Proof. intros H Hp. pose proof (rec_all e H) as A. destruct (on_order_general NW e A) as [O1 O2]. pose proof (a_nn NW e A) as NNe.
  destruct p as [|p'].
  - rewrite O2 by (apply (in_sup_ext NW); exact Hp). apply qsum_nonneg. apply NN_l. exact NNe.
  - rewrite O1 by (apply (in_sup_nd NW); exact Hp).
    pose proof (qsum_nonneg _ (NN_l e (fOP, p', Nd n) NNe)). pose proof (qsum_nonneg _ (NN_l e (fSP, n, Nd p') NNe)).
    pose proof (NN_q e fBO p' (Nd n) NNe eq_refl). pose proof (NN_q e fODI p' (Nd n) NNe eq_refl). pose proof (NN_q e fPIO p' (Nd n) NNe eq_refl). pose proof (NN_q e fLOST p' (Nd n) NNe eq_refl). lra. Qed.
Theorem demand_met_bounds e n : In e (run NW inputs) -> 0 <= gq e (fDMC, n, Ext) /\ gq e (fDMC, n, Ext) <= gq e (fDC, n, Ext).
Proof. intros H. destruct (demand_met_le_demand NW e n (rec_all e H)). split; assumption. Qed.
(* the shipping bound is a statement about one shipping action from any reachable intermediate state *)
Theorem shipping_bound (dis : N -> bool) (dem : N -> Q) s n : NN s -> ND NW s ->
  exists made, 0 <= made /\
    SF fOS (ships_action NW dis s n) n (customers (C n)) + SF fODI (ships_action NW dis s n) n (customers (C n)) - SF fODI s n (customers (C n))
      <= qmax 0 (gq s (fIL, n, Ext)) + made /\
    gq (ships_action NW dis s n) (fIL, n, Ext) == gq s (fIL, n, Ext) + made - SF fPIO s n (customers (C n)).
Proof. intros HN HD. destruct (ND_ships_action NW dis dem good_wf s n HN HD) as (_ & B & _). exact B. Qed.
Theorem fill_rate_spec dis s n : NN s -> ALL NW (ships_action NW dis s n) ->
  let e := ships_action NW dis s n in
  gq e (fFR, n, Ext) = (if qltb 0 (gq e (fDC, n, Ext)) then gq e (fDMC, n, Ext) / gq e (fDC, n, Ext) else 1)
  /\ 0 <= gq e (fFR, n, Ext) /\ gq e (fFR, n, Ext) <= 1.
Proof. intros HN HA. cbv zeta. rewrite (fill_rate_def NW dis s n). split; [reflexivity|].
  destruct (demand_met_le_demand NW _ n HA) as [H1 H2]. apply fill_rate_range; assumption. Qed.

(* ---- C03 ---- *)
Theorem on_order_exact e n p : In e (run NW inputs) -> In p (preds (C n)) ->
  gq e (fOO, n, Nd p) == qsum (gl e (fOP, p, Nd n)) + gq e (fBO, p, Nd n) + gq e (fODI, p, Nd n) + qsum (gl e (fSP, n, Nd p)).
Proof. intros H Hp. pose proof (rec_all e H) as A. destruct (on_order_general NW e A) as [O1 _]. rewrite (O1 n p Hp).
  destruct (rec_clean e H) as [L Z]. rewrite (L p (Nd n)). rewrite (Z p (Nd n)) by (apply (in_cus_nd NW); apply (wg_sym NW good_wg); exact Hp). lra. Qed.
Theorem on_order_exact_external e n : In e (run NW inputs) -> ext_sup (C n) = true ->
  gq e (fOO, n, Ext) == qsum (gl e (fSP, n, Ext)).
Proof. intros H He. destruct (on_order_general NW e (rec_all e H)) as [_ O2]. apply O2. exact He. Qed.
Theorem nothing_lost e n x : In e (run NW inputs) -> gq e (fLOST, n, x) == 0.
Proof. intros H. destruct (rec_clean e H) as [L _]. apply L. Qed.
Theorem pipeline_lengths e n : In e (run NW inputs) ->
  (forall p, In p (suppliers (C n)) -> length (gl e (fSP, n, p)) = (olt (C n) + slt (C n) + 1)%nat) /\
  (forall c, In c (succs (C n)) -> length (gl e (fOP, n, Nd c)) = (olt (C c) + 1)%nat).
Proof. intros H. pose proof (a_pl NW e (rec_all e H)) as [L1 L2]. split; [apply L1|apply L2]. Qed.
(* orders placed = still travelling + received by the supplier (cumulative form of "arrives one lead time later, never lost") *)
Theorem orders_in_transit e n p : In e (run NW inputs) -> In p (preds (C n)) ->
  gq e (fcOQ, n, Nd p) + io0 NW n == qsum (gl e (fOP, p, Nd n)) + gq e (fcIO, p, Nd n).
Proof. intros H Hp. pose proof (pc_ord NW e (a_pc NW e (rec_all e H)) n p Hp) as E. rewrite (nothing_lost e p (Nd n) H) in E. lra. Qed.
(* the order a node places with a predecessor in period t is the inbound order that predecessor receives from it in
   period t + (the node's order lead time); no hypothesis on the demands or disruptions is needed *)
Theorem order_arrives t n p : In p (preds (C n)) -> (t + olt (C n) < length inputs)%nat ->
  gq (nth (t + olt (C n)) (run NW inputs) empty_st) (fIO, p, Nd n) == gq (nth t (run NW inputs) empty_st) (fOQ, n, Nd p).
Proof. intros Hp Ht. apply (order_delay NW good_wf good_wg good_vo good_wo p n Hp inputs t Ht). Qed.
(* ---- C01, period by period: consecutive records a (period t) and e (period t+1) ---- *)
Lemma rec_in t : (t < length inputs)%nat -> In (nth t (run NW inputs) empty_st) (run NW inputs).
Proof. intros Ht. apply nth_In. unfold run. rewrite run_length. exact Ht. Qed.

Section PP.
Variable t : nat.
Hypothesis Ht : (S t < length inputs)%nat.
Let a := nth t (run NW inputs) empty_st.
Let e := nth (S t) (run NW inputs) empty_st.
Lemma a_in : In a (run NW inputs).  Proof. apply rec_in. lia. Qed.
Lemma e_in : In e (run NW inputs).  Proof. apply rec_in. exact Ht. Qed.

(* orders of a customer: this period's inbound order is shipped, or added to the backorders / held items *)
Theorem per_period_order_conservation m x : In x (customers (C m)) ->
  gq e (fBO, m, x) + gq e (fODI, m, x) + gq e (fOS, m, x) == gq a (fBO, m, x) + gq a (fODI, m, x) + gq e (fIO, m, x).
Proof. intros Hx. pose proof (cus_in_nodes NW good_wo m x Hx) as Hm.
  destruct (counters_advance NW inputs good_wf good_vo t Ht m Hm) as (A1 & A2 & _ & _). fold a e in A1, A2.
  pose proof (order_conservation e m x e_in Hx) as E1. pose proof (order_conservation a m x a_in Hx) as E2.
  rewrite (A1 x Hx), (A2 x Hx) in E1. lra. Qed.

(* inventory level: previous level + finished goods produced this period - orders received this period *)
Theorem per_period_inventory m : In m (nodes NW) ->
  gq e (fIL, m, Ext) == gq a (fIL, m, Ext) + (gq e (fCP, m, Ext) - gq a (fCP, m, Ext)) - qsumf (fun x => gq e (fIO, m, x)) (customers (C m)).
Proof. intros Hm. destruct (counters_advance NW inputs good_wf good_vo t Ht m Hm) as (_ & _ & _ & A4). fold a e in A4.
  pose proof (inventory_balance e m e_in) as E1. pose proof (inventory_balance a m a_in) as E2. lra. Qed.

(* raw material: previous stock + receipts of this period - what production consumed this period *)
Theorem per_period_raw_material m q : In q (suppliers (C m)) ->
  gq e (fRM, m, q) == gq a (fRM, m, q) + gq e (fIS, m, q) - (gq e (fCP, m, Ext) - gq a (fCP, m, Ext)).
Proof. intros Hq. pose proof (sup_in_nodes NW good_wo m q Hq) as Hm.
  destruct (counters_advance NW inputs good_wf good_vo t Ht m Hm) as (_ & _ & A3 & _). fold a e in A3.
  destruct (raw_material_balance e m q e_in Hq) as [E1 _]. destruct (raw_material_balance a m q a_in Hq) as [E2 _]. rewrite (A3 q Hq) in E1. lra. Qed.

(* an edge p -> n: what p shipped to n this period = what n received from p this period + the change of n's inbound
   pipeline content + the change of the items held at n's door *)
Theorem per_period_edge n p : In p (preds (C n)) ->
  gq e (fOS, p, Nd n) == gq e (fIS, n, Nd p) + (qsum (gl e (fSP, n, Nd p)) - qsum (gl a (fSP, n, Nd p))) + (gq e (fIDI, n, Nd p) - gq a (fIDI, n, Nd p)).
Proof. intros Hp.
  assert (Hs : In (Nd p) (suppliers (C n))) by (apply in_sup_nd; exact Hp).
  assert (Hc : In (Nd n) (customers (C p))) by (apply in_cus_nd; apply (wg_sym NW good_wg); exact Hp).
  destruct (counters_advance NW inputs good_wf good_vo t Ht n (sup_in_nodes NW good_wo n _ Hs)) as (_ & _ & A3 & _). fold a e in A3.
  destruct (counters_advance NW inputs good_wf good_vo t Ht p (cus_in_nodes NW good_wo p _ Hc)) as (_ & A2 & _ & _). fold a e in A2.
  pose proof (edge_conservation e n p e_in Hp) as E1. pose proof (edge_conservation a n p a_in Hp) as E2.
  rewrite (A3 _ Hs), (A2 _ Hc) in E1. lra. Qed.
End PP.
End Main.
