(* The Clark-Scarf pathwise theorems of CS_run.v for the concrete serial networks of Sim/Serial.v:
   [stages] = list of (index, local base-stock level, shipment lead time), upstream -> downstream;
   [NWloc h p order stages] the local base-stock network (node list [order] = the indices in any order). *)
From Coq Require Import Permutation.
From SV Require Import Sim.Model Sim.StateLemmas Sim.Inv_base Sim.Inv_book Sim.Inv_pipe Sim.Inv_node Sim.Inv_rm Sim.Inv_init Sim.Inv_run
  Sim.Inv_bound Sim.Single Sim.Policy_thms Sim.Delay Sim.PerPeriod Sim.Obs Sim.Wfb Sim.Serial Sim.ShipDelay.
From SV Require Import Sim.CS Sim.CS_math Sim.CS_graph Sim.CS_step Sim.CS_run Sim.CS_chain.

Section Concrete.
Variables (h p : N -> Q) (order : list N) (stages : list stage).
Hypothesis Hne : stages <> [].
Hypothesis ND : NoDup (map sidx stages).
Hypothesis Hperm : Permutation order (map sidx stages).
Hypothesis Hl : Forall (fun x => 0 <= slev x) stages.
Notation Bs := (base h p order stages).
Notation lvs := (lev stages).
Notation chs := (map sidx stages).
Notation NWl := (NWloc h p order stages).

Lemma c_sp u n v : chs = u ++ n :: v -> split_at n chs = Some (u, v).
Proof. intros E. rewrite E. apply split_at_spec. rewrite E in ND. apply (nodup_mid _ _ _ ND). Qed.
Lemma c_ndN : NoDup (nodes Bs).  Proof. cbn [nodes base]. apply (Permutation_NoDup (Permutation_sym Hperm) ND). Qed.
Lemma c_same n : In n (nodes Bs) <-> In n chs.
Proof. cbn [nodes base]. split; [apply (Permutation_in n Hperm)|apply (Permutation_in n (Permutation_sym Hperm))]. Qed.
Lemma c_ser : serial_cfg Bs chs.
Proof. intros u n v E. cbn [cfg base]. unfold base_cfg. rewrite (c_sp u n v E). cbn [preds succs ext_sup has_dem]. repeat split; reflexivity. Qed.
Lemma c_in n : In n chs -> olt (cfg Bs n) = 0%nat /\ cap (cfg Bs n) = None /\ init_il (cfg Bs n) = Some (lvs n)
                                     /\ init_orders (cfg Bs n) = 0 /\ init_ships (cfg Bs n) = 0.
Proof. intros Hn. destruct (in_split n _ Hn) as (u & v & E). cbn [cfg base]. unfold base_cfg. rewrite (c_sp u n v E).
  cbn [olt cap init_il init_orders init_ships]. repeat split; reflexivity. Qed.
Lemma c_out n : ~ In n chs -> cfg Bs n = dflt_cfg.
Proof. intros Hn. cbn [cfg base]. unfold base_cfg. rewrite (split_at_none n _ Hn). reflexivity. Qed.
Lemma c_lv n : 0 <= lvs n.
Proof. unfold lev. clear - Hl. induction stages as [|a r IH]; cbn [map tbl]; [lra|]. inversion Hl; subst.
  destruct (N.eqb n (sidx a)); [assumption|apply IH; assumption]. Qed.
Lemma c_lv0 n : ~ In n chs -> lvs n == 0.
Proof. intros Hn. unfold lev. rewrite tbl_outside; [reflexivity|]. rewrite map_map. cbn [fst]. exact Hn. Qed.
Lemma c_nonempty : chs <> [].
Proof. destruct stages; [congruence|discriminate]. Qed.
Lemma c_slt u n v : chs = u ++ n :: v -> slt (cfg Bs n) = lead stages n.
Proof. intros E. cbn [cfg base]. unfold base_cfg. rewrite (c_sp u n v E). reflexivity. Qed.

Variable inputs : list ((N -> bool) * (N -> Q)).
Hypothesis Hi : inputs_ok stages inputs.
Notation rec t := (nth t (run NWl inputs) empty_st).
Notation d := (dfn chs inputs).                                   (* d t = external demand (at the sink) in period t *)
Notation ILstart := (ILs Bs lvs inputs).                          (* ILstart n t = level of stage n at the start of period t *)
Notation EILstart := (eILs Bs lvs chs inputs).
Notation Sech := (ech lvs chs).                                   (* echelon base-stock level = local level + levels downstream *)

Theorem serial_head_pathwise n post t : chs = n :: post -> (t < length inputs)%nat ->
  gq (rec t) (fIL, n, Ext) == cs_head_closed (lvs n) (lead stages n) d t.
Proof. intros E Ht. rewrite <- (c_slt [] n post E).
  apply (head_pathwise Bs lvs chs c_ndN c_same ND c_ser c_in c_out c_lv c_lv0 c_nonempty inputs Hi n post t E Ht). Qed.

Theorem serial_edge_pathwise pre q n post t : chs = pre ++ q :: n :: post -> (t < length inputs)%nat ->
  gq (rec t) (fIL, n, Ext) == cs_edge_closed (lvs n) (lead stages n) (ILstart q) d t.
Proof. intros E Ht. rewrite <- (c_slt (pre ++ [q]) n post ltac:(rewrite snoc_cons; exact E)).
  apply (edge_pathwise Bs lvs chs c_ndN c_same ND c_ser c_in c_out c_lv c_lv0 c_nonempty inputs Hi pre q n post t E Ht). Qed.

Theorem serial_shipments_pathwise pre q n post t : chs = pre ++ q :: n :: post -> (t < length inputs)%nat ->
  gq (rec t) (fOS, q, Nd n) == ship (ILstart q) d t.
Proof. intros E Ht.
  apply (shipments_pathwise Bs lvs chs c_ndN c_same ND c_ser c_in c_out c_lv c_lv0 c_nonempty inputs Hi pre q n post t E Ht). Qed.

Theorem serial_head_echelon n post t : chs = n :: post -> (t < length inputs)%nat ->
  echelon_il NWl (rec t) n == Sech n - dwin d (lead stages n) t.
Proof. intros E Ht. rewrite <- (c_slt [] n post E).
  apply (head_echelon Bs lvs chs c_ndN c_same ND c_ser c_in c_out c_lv c_lv0 c_nonempty inputs Hi n post t E Ht). Qed.

Theorem serial_edge_echelon pre q n post t : chs = pre ++ q :: n :: post -> (t < length inputs)%nat ->
  echelon_il NWl (rec t) n == cs_edge_echelon (Sech n) (lead stages n) (EILstart q) d t.
Proof. intros E Ht. rewrite <- (c_slt (pre ++ [q]) n post ltac:(rewrite snoc_cons; exact E)).
  apply (edge_echelon_pathwise Bs lvs chs c_ndN c_same ND c_ser c_in c_out c_lv c_lv0 c_nonempty inputs Hi pre q n post t E Ht). Qed.

(* the Clark-Scarf recursion in the textbook shape *)
Theorem serial_clark_scarf pre q n post t : chs = pre ++ q :: n :: post -> (t < length inputs)%nat ->
  let L := lead stages n in
  ((L <= t)%nat -> echelon_il NWl (rec t) n == qmin (Sech n) (echelon_il NWl (rec (t - L)) q) - qsum_range d (S (t - L)) L) /\
  ((t < L)%nat -> echelon_il NWl (rec t) n == Sech n - qsum_range d 0 (S t)).
Proof. intros E Ht. cbv zeta. rewrite <- (c_slt (pre ++ [q]) n post ltac:(rewrite snoc_cons; exact E)). split; intros HL.
  - apply (edge_echelon_late Bs lvs chs c_ndN c_same ND c_ser c_in c_out c_lv c_lv0 c_nonempty inputs Hi pre q n post t E Ht HL).
  - apply (edge_echelon_early Bs lvs chs c_ndN c_same ND c_ser c_in c_out c_lv c_lv0 c_nonempty inputs Hi pre q n post t E Ht HL). Qed.
Theorem serial_clark_scarf_local pre q n post t : chs = pre ++ q :: n :: post -> (t < length inputs)%nat -> (lead stages n <= t)%nat ->
  gq (rec t) (fIL, n, Ext) == lvs n - qmax 0 (- gq (rec (t - lead stages n)) (fIL, q, Ext)) - qsum_range d (S (t - lead stages n)) (lead stages n).
Proof. intros E Ht. rewrite <- (c_slt (pre ++ [q]) n post ltac:(rewrite snoc_cons; exact E)). intros HL.
  apply (edge_local_late Bs lvs chs c_ndN c_same ND c_ser c_in c_out c_lv c_lv0 c_nonempty inputs Hi pre q n post t E Ht HL). Qed.
(* all stages at once: the local inventory-level trajectories are the executable reference [cs_serial] on the demands *)
Lemma lev_lead_in : forall y, In y stages -> lev stages (sidx y) = slev y /\ lead stages (sidx y) = sslt y.
Proof. clear - ND. unfold lev, lead. induction stages as [|a r IH]; intros y Hy; [destruct Hy|]. cbn [map tbl].
  destruct (N.eqb_spec (sidx y) (sidx a)) as [Es|NEs].
  - destruct Hy as [<-|Hy]; [split; reflexivity|]. exfalso. cbn [map] in ND. inversion ND as [|? ? Hna _]; subst. apply Hna. rewrite <- Es. apply in_map. exact Hy.
  - destruct Hy as [<-|Hy]; [congruence|]. apply IH; [cbn [map] in ND; inversion ND; assumption|exact Hy]. Qed.
Lemma stg_stages : map (stg Bs lvs) chs = map (fun x => (slev x, sslt x)) stages.
Proof. rewrite map_map. apply map_ext_in. intros y Hy. unfold stg.
  destruct (in_split (sidx y) chs (in_map sidx _ _ Hy)) as (u & v & E). rewrite (c_slt u _ v E).
  destruct (lev_lead_in y Hy) as [-> ->]. reflexivity. Qed.
Theorem serial_chain_reference pre n post t : chs = pre ++ n :: post -> (t < length inputs)%nat ->
  gq (rec t) (fIL, n, Ext) == nth (length pre) (cs_serial d (map (fun x => (slev x, sslt x)) stages)) (fun _ => 0) (S t).
Proof. intros E Ht. rewrite <- stg_stages.
  apply (chain_reference Bs lvs chs c_ndN c_same ND c_ser c_in c_out c_lv c_lv0 c_nonempty inputs Hi pre n post t E Ht). Qed.
End Concrete.

(* ---- non-vacuity on the 3-stage instance of Sim/Serial.v (7 -> 3 -> 5; lead times 1, 2, 1; demands 3 9 12 2 8 0 15 1):
   stage 7 is short toward stage 3 in periods 1, 2, 4, 6, so the min of the recursion is attained on both sides ---- *)
Definition ex_net := NWloc ex_h ex_p ex_order ex_stages.
Definition ex_rec (t : nat) := nth t (run ex_net ex_inputs) empty_st.
Example serial_cs_nonvacuous :
  ex_stages <> [] /\ NoDup (map sidx ex_stages) /\ Permutation ex_order (map sidx ex_stages) /\ Forall (fun x => 0 <= slev x) ex_stages /\ inputs_ok ex_stages ex_inputs /\
  map sidx ex_stages = [] ++ 7%N :: 3%N :: [5%N] /\
  (* echelon levels 15, 11, 5; echelon inventory level of stage 3 and of stage 7 along the run *)
  map (fun t => qobs (echelon_il ex_net (ex_rec t) 3%N)) (seq 0 8) = [(8, 1); (-1, 1); (-10, 1); (-8, 1); (-7, 1); (3, 1); (-8, 1); (-5, 1)]%Z /\
  map (fun t => qobs (echelon_il ex_net (ex_rec t) 7%N)) (seq 0 8) = [(12, 1); (6, 1); (3, 1); (13, 1); (7, 1); (15, 1); (0, 1); (14, 1)]%Z /\
  (* t = 3 (>= L = 2): the upstream echelon level 6 of period 1 binds (6 < 11);  t = 5: the own level 11 binds (13 > 11) *)
  qobs (qmin (ech (lev ex_stages) (map sidx ex_stages) 3%N) (echelon_il ex_net (ex_rec 1) 7%N) - qsum_range (dfn (map sidx ex_stages) ex_inputs) 2 2) = (-8, 1)%Z /\
  qobs (qmin (ech (lev ex_stages) (map sidx ex_stages) 3%N) (echelon_il ex_net (ex_rec 3) 7%N) - qsum_range (dfn (map sidx ex_stages) ex_inputs) 4 2) = (3, 1)%Z /\
  (* the reference recursion evaluated on the demand list reproduces the three local trajectories *)
  map (fun x => map (fun t => qobs (x (S t))) (seq 0 8)) (cs_serial (dfun ex_dems) [(4, 1%nat); (6, 2%nat); (5, 1%nat)])
  = map (fun n => map (fun t => qobs (gq (ex_rec t) (fIL, n, Ext))) (seq 0 8)) [7%N; 3%N; 5%N].
Proof.
  destruct serial_nonvacuous as (A1 & A2 & A3 & A4 & A5 & _).
  split; [exact A1|]. split; [exact A2|]. split; [exact A3|]. split; [exact A4|]. split; [exact A5|].
  split; [reflexivity|]. vm_compute. repeat split; reflexivity. Qed.

Print Assumptions serial_head_pathwise.
Print Assumptions serial_edge_pathwise.
Print Assumptions serial_shipments_pathwise.
Print Assumptions serial_head_echelon.
Print Assumptions serial_edge_echelon.
Print Assumptions serial_clark_scarf.
Print Assumptions serial_clark_scarf_local.
Print Assumptions serial_chain_reference.
Print Assumptions serial_cs_nonvacuous.
