(* Simulator invariants, part 6: raw-material balance  RM(n,p) = received from p - consumed by production. *)
From SV Require Import Sim.Model Sim.StateLemmas Sim.Inv_base Sim.Inv_book.

Section RM.
Variable (NW : net) (dis : N -> bool) (dem : N -> Q).
Notation C := (cfg NW).
Hypothesis WF : wf_net NW.

Definition RMB (s : st) : Prop :=
  forall n p, In p (suppliers (C n)) -> gq s (fRM, n, p) + gq s (fCP, n, Ext) == gq s (fcIS, n, p).

Lemma RMB_sq s f n x v : f <> fRM -> f <> fCP -> f <> fcIS -> RMB s -> RMB (sq s (f, n, x) v).
Proof. intros F1 F2 F3 H m p Hp. rewrite !gq_sq_other by (intro E; inversion E; subst; tauto). apply H. exact Hp. Qed.
Lemma RMB_addq s f n x v : f <> fRM -> f <> fCP -> f <> fcIS -> RMB s -> RMB (addq s (f, n, x) v).
Proof. intros. unfold addq. apply RMB_sq; assumption. Qed.
Lemma RMB_sl s k v : RMB s -> RMB (sl s k v).
Proof. intros H m p Hp. rewrite !gq_sl. apply H. exact Hp. Qed.
Ltac rmb := repeat first [apply RMB_sl | apply RMB_sq; [discriminate|discriminate|discriminate|] | apply RMB_addq; [discriminate|discriminate|discriminate|] | assumption].

Lemma RMB_orders_action s n : RMB s -> RMB (orders_action NW dis dem s n).
Proof. intros H. unfold orders_action, place_order.
  assert (H1 : RMB (recv_orders NW (gen_demand NW dem s n) n)).
  { unfold recv_orders. apply fold_left_inv; [intros a x _ Ha; unfold recv_order_one; rmb|]. unfold gen_demand. destruct (has_dem (C n)); rmb. }
  destruct (disk NW dis n dOP); [exact H1|].
  apply fold_left_inv; [intros a x _ Ha; unfold place_one; destruct x; rmb|]. rmb. Qed.

Lemma RMB_recv_ship_one n s p : RMB s -> RMB (recv_ship_one NW dis n s p).
Proof. intros H. unfold recv_ship_one. set (is_ := if disk NW dis n dRP then 0 else _).
  intros m q Hq. specialize (H m q Hq). kcase (fRM, m, q) (fRM, n, p).
  - gs. lra.
  - assert (HK : forall f : fld, (f, m, q) <> (f, n, p)) by (intros f E; inversion E; subst; apply KN; reflexivity).
    repeat first [gs1 | rewrite gq_sq_other by apply HK | rewrite gq_addq_other by apply HK]. exact H. Qed.

Lemma RMB_produce s n : RMB s -> RMB (fst (produce NW s n)).
Proof. intros H. unfold produce. cbn [fst]. set (made := qmin_list _).
  destruct (produce_fold n made (suppliers (C n)) s (wf_sup NW WF n)) as (F & U & L).
  set (s1 := fold_left _ _ s) in *.
  intros m q Hq. specialize (H m q Hq).
  rewrite gq_addq_other by discriminate. rewrite gq_addq_other by discriminate. rewrite gq_addq_other by discriminate.
  rewrite (gq_addq_other _ (fcIS, m, q)) by discriminate. rewrite (gq_addq_other _ (fcIS, m, q)) by discriminate. rewrite (gq_addq_other _ (fcIS, m, q)) by discriminate.
  rewrite (F (fcIS, m, q)) by (intros; discriminate).
  destruct (N.eq_dec m n) as [E|NE].
  - subst m. rewrite U by exact Hq. rewrite gq_addq_same. rewrite gq_addq_other by discriminate. rewrite gq_addq_other by discriminate.
    rewrite (F (fCP, n, Ext)) by (intros; discriminate). lra.
  - rewrite (F (fRM, m, q)) by (intros p _ E; inversion E; subst; apply NE; reflexivity).
    rewrite gq_addq_other by (intro E; inversion E; subst; apply NE; reflexivity).
    rewrite gq_addq_other by discriminate. rewrite gq_addq_other by discriminate.
    rewrite (F (fCP, m, Ext)) by (intros; discriminate). exact H. Qed.

Lemma RMB_ships_action s n : RMB s -> RMB (ships_action NW dis s n).
Proof. intros H. unfold ships_action.
  assert (H1 : RMB (recv_ship NW dis s n)) by (unfold recv_ship; apply fold_left_inv; [intros a x _ Ha; apply RMB_recv_ship_one; exact Ha|exact H]).
  pose proof (RMB_produce _ n H1) as H2. destruct (produce NW (recv_ship NW dis s n) n) as [s2 made]. cbn [fst] in H2.
  unfold fill_rate. rmb. unfold serve.
  apply (fold_left_inv (fun a => RMB (fst a))); [|cbn [fst]; rmb].
  intros [a oh] c _ Ha. cbn [fst] in Ha. unfold serve_one. set (o := serve_calc _ _ _ _ _). destruct c; cbn [fst]; rmb. Qed.

Lemma RMB_next_period s : RMB s -> RMB (next_period NW dis s).
Proof. intros H. unfold next_period. apply fold_left_inv; [|exact H]. intros a n _ Ha. unfold next_node. rmb.
  apply fold_left_inv; [intros b x _ Hb; rmb|]. apply fold_left_inv; [|exact Ha]. intros b x _ Hb. rmb. destruct (disk NW dis n dTP); rmb. Qed.

Lemma RMB_run_actions s : RMB s -> RMB (run_actions NW dis dem s).
Proof. intros H. unfold run_actions. apply fold_left_inv; [intros a x _ Ha; apply RMB_ships_action; exact Ha|].
  apply fold_left_inv; [intros a x _ Ha; apply RMB_orders_action; exact Ha|exact H]. Qed.
End RM.
