(* C15, serial systems: the pathwise Clark-Scarf recursion on the simulator model, for every run of the local
   base-stock serial network of Sim/Serial.v (any number of stages, any shipment lead times, any non-negative demand
   sequence, any horizon).  Notation: rec t = the end-of-period record of period t;  ILs n t = inventory level of stage n
   at the START of period t (its local base-stock level at t = 0, IL of rec (t-1) afterwards);  d t = external demand of
   period t;  L = shipment lead time of the stage;  D(t-L, t] = dwin d L t.
     head stage n:           IL_n(rec t) == lv n - D(t-L, t]
     edge p -> n:            IL_n(rec t) == lv n - (ILs p (t+1-L))^-  - D(t-L, t]
     echelon form:           echelon_il(rec t, n) == min(S_n, echelon level of p at the start of period t+1-L) - D(t-L, t]
   (t+1-L is truncated at 0, where the start-of-period level is the base-stock level: the recursion is exact for all t). *)
From Coq Require Import Permutation.
From SV Require Import Sim.Model Sim.StateLemmas Sim.Inv_base Sim.Inv_book Sim.Inv_pipe Sim.Inv_node Sim.Inv_rm Sim.Inv_init Sim.Inv_run
  Sim.Inv_bound Sim.Single Sim.Policy_thms Sim.Delay Sim.PerPeriod Sim.Obs Sim.Wfb Sim.Serial Sim.ShipDelay.
From SV Require Import Sim.CS Sim.CS_math Sim.CS_graph Sim.CS_step.

Lemma delay_shift L f k : delay L f (k + L)%nat = f k.
Proof. unfold delay. destruct (Nat.ltb_spec (k + L) L) as [H|H]; [lia|]. f_equal. lia. Qed.
Lemma delay_early L f u : (u < L)%nat -> delay L f u = 0.
Proof. intros H. unfold delay. destruct (Nat.ltb_spec u L) as [_|H']; [reflexivity|lia]. Qed.
Lemma leq_zeros a b : length a = length b -> Forall (fun x => x == 0) a -> Forall (fun x => x == 0) b -> leq a b.
Proof. revert b. induction a as [|x r IH]; intros [|y s] Hl Ha Hb; cbn [length] in Hl; try discriminate; [constructor|].
  inversion Ha; subst. inversion Hb; subst. constructor; [lra|]. apply IH; [lia|assumption|assumption]. Qed.
Lemma zeros_shift_sp l : Forall (fun x => x == 0) l -> Forall (fun x => x == 0) (shift_sp l).
Proof. destruct l as [|a [|b r]]; cbn [shift_sp]; intros H; try exact H. inversion H as [|? ? Ha H1]; subst. inversion H1 as [|? ? Hb Hr]; subst.
  constructor; [lra|]. apply Forall_app. split; [exact Hr|]. constructor; [reflexivity|constructor]. Qed.

Section Run.
Variables (B : net) (lv : N -> Q) (ch : list N).
Hypothesis HndN : NoDup (nodes B).
Hypothesis Hsame : forall n, In n (nodes B) <-> In n ch.
Hypothesis Hnd : NoDup ch.
Hypothesis Hser : serial_cfg B ch.
Hypothesis Hin : forall n, In n ch -> olt (cfg B n) = 0%nat /\ cap (cfg B n) = None /\ init_il (cfg B n) = Some (lv n)
                                     /\ init_orders (cfg B n) = 0 /\ init_ships (cfg B n) = 0.
Hypothesis Hout : forall n, ~ In n ch -> cfg B n = dflt_cfg.
Hypothesis Hlv : forall n, 0 <= lv n.
Hypothesis Hlv0 : forall n, ~ In n ch -> lv n == 0.
Hypothesis Hnonempty : ch <> [].
Notation NW := (repol B (fun n => BS (lv n))).
Notation Inv := (Inv B lv ch).
Notation LT n := (slt (cfg B n)).
Notation inp k inputs := (nth k inputs dflt_input).

Lemma inv_next dis dem s : input_ok ch (dis, dem) -> Inv s -> Inv (next_period NW dis (run_actions NW dis dem s)).
Proof. intros (H1 & H2 & H3) HI. cbn [fst snd] in *. apply (Inv_next B lv ch HndN Hsame Hnd Hser Hin Hout Hlv Hnonempty dis dem H1 H2 H3 s HI). Qed.

(* every record of a run is one period from a state satisfying the invariant, whose inventory levels are those of the previous record *)
Lemma run_from_nth_inv : forall inputs s, Inv s -> Forall (input_ok ch) inputs -> forall k, (k < length inputs)%nat ->
  exists sk, Inv sk /\ input_ok ch (inp k inputs) /\
    nth k (run_from NW s inputs) empty_st = run_actions NW (fst (inp k inputs)) (snd (inp k inputs)) sk /\
    (forall n, gq sk (fIL, n, Ext) = match k with O => gq s (fIL, n, Ext) | S j => gq (nth j (run_from NW s inputs) empty_st) (fIL, n, Ext) end).
Proof. induction inputs as [|[dis dem] r IH]; intros s HI Hok k Hk; [cbn [length] in Hk; lia|].
  pose proof (Forall_inv Hok) as Hi. pose proof (Forall_inv_tail Hok) as Hr. destruct k as [|k].
  - exists s. cbn [run_from nth fst snd]. split; [exact HI|]. split; [exact Hi|]. split; [reflexivity|]. intros n. reflexivity.
  - cbn [length] in Hk. destruct (IH _ (inv_next dis dem s Hi HI) Hr k ltac:(lia)) as (sk & A & A' & Bq & Cq). exists sk.
    split; [exact A|]. split; [exact A'|]. split; [exact Bq|].
    intros n. rewrite Cq. destruct k as [|j]; cbn [run_from nth]; [|reflexivity].
    apply (next_period_frame NW dis fIL (run_actions NW dis dem s)); discriminate. Qed.

(* ---- one stage along a run: the level follows the reference recursion fed with r ---- *)
Section Stage.
Variables (pre : list N) (n : N) (post : list N).
Hypothesis E : ch = pre ++ n :: post.
Variable fd : ((N -> bool) * (N -> Q)) -> st -> Q.          (* what enters the stage's inbound pipeline in a period *)
Hypothesis Hfd : forall dis dem s, input_ok ch (dis, dem) -> Inv s ->
  pipe_eff B lv dis dem s n (sup_of pre) (fd (dis, dem) (run_actions NW dis dem s)).
Variables (r d : nat -> Q) (x0 : Q).

Lemma stage_run_from : forall inputs s t0, Inv s -> Forall (input_ok ch) inputs ->
  (forall k, (k < length inputs)%nat -> snd (inp k inputs) (sink ch) == d (t0 + k)%nat) ->
  (forall k, (k < length inputs)%nat -> fd (inp k inputs) (nth k (run_from NW s inputs) empty_st) == r (t0 + k + LT n)%nat) ->
  gq s (fIL, n, Ext) == xrec x0 r d t0 ->
  leq (gl s (fSP, n, sup_of pre)) (shift_sp (0 :: map r (seq t0 (LT n)))) ->
  forall k, (k < length inputs)%nat -> gq (nth k (run_from NW s inputs) empty_st) (fIL, n, Ext) == xrec x0 r d (S (t0 + k)).
Proof. induction inputs as [|[dis dem] rest IH]; intros s t0 HI Hok Hd Hf Hx Hw k Hk; [cbn [length] in Hk; lia|].
  pose proof (Forall_inv Hok) as Hi. pose proof (Forall_inv_tail Hok) as Hr. pose proof Hi as (H1 & H2 & H3). cbn [fst snd] in H1, H2, H3.
  pose proof (Hd 0%nat ltac:(cbn [length]; lia)) as Hd0. cbn [nth snd] in Hd0. rewrite Nat.add_0_r in Hd0.
  pose proof (Hf 0%nat ltac:(cbn [length]; lia)) as Hf0. cbn [nth run_from] in Hf0. rewrite Nat.add_0_r in Hf0.
  destruct (stage_step B lv ch HndN Hsame Hnd Hser Hin Hout Hlv Hlv0 Hnonempty dis dem H1 H2 H3 s HI pre n post r t0 _ E (Hfd dis dem s Hi HI) Hf0 Hw)
    as (S1 & S2 & S3).
  destruct k as [|k].
  - cbn [run_from nth]. rewrite Nat.add_0_r. cbn [xrec]. rewrite S1, Hx, Hd0. reflexivity.
  - cbn [run_from nth]. cbn [length] in Hk. replace (t0 + S k)%nat with (S t0 + k)%nat by lia.
    apply (IH _ (S t0) (inv_next dis dem s Hi HI) Hr).
    + intros j Hj. specialize (Hd (S j) ltac:(cbn [length]; lia)). cbn [nth] in Hd. replace (S t0 + j)%nat with (t0 + S j)%nat by lia. exact Hd.
    + intros j Hj. specialize (Hf (S j) ltac:(cbn [length]; lia)). cbn [nth run_from] in Hf. replace (S t0 + j + LT n)%nat with (t0 + S j + LT n)%nat by lia. exact Hf.
    + rewrite S2, S1. cbn [xrec]. rewrite Hx, Hd0. reflexivity.
    + exact S3.
    + lia. Qed.
End Stage.

(* ---- the initial state ---- *)
Lemma init_stage pre n post : ch = pre ++ n :: post ->
  gq (init_state NW) (fIL, n, Ext) = lv n /\ gl (init_state NW) (fSP, n, sup_of pre) = repeat 0 (LT n) ++ [0].
Proof. intros E. destruct (stage_facts B lv ch Hsame Hser pre n post E) as (Hn & Hnn & Hs & Hc).
  destruct (init_Qn NW n Hnn) as (Q1 & Q2 & _). destruct (Hin n Hn) as (I1 & _ & I3 & I4 & I5). split.
  - rewrite Q1. unfold il0. cbn [cfg repol setpol init_il]. rewrite I3. reflexivity.
  - destruct (Q2 (sup_of pre)) as [_ Q2b]; [rewrite Hs; left; reflexivity|]. rewrite Q2b. unfold spinit. cbn [cfg repol setpol init_ships init_orders olt slt].
    rewrite I1, I5. cbn [repeat app]. reflexivity. Qed.
Lemma init_window pre n post f : ch = pre ++ n :: post ->
  leq (gl (init_state NW) (fSP, n, sup_of pre)) (shift_sp (0 :: map (delay (LT n) f) (seq 0 (LT n)))).
Proof. intros E. rewrite (proj2 (init_stage pre n post E)). apply leq_zeros.
  - rewrite length_shift_sp, app_length, repeat_length. cbn [length]. rewrite map_length, seq_length. lia.
  - apply Forall_app. split; [|constructor; [reflexivity|constructor]]. apply Forall_forall. intros x Hx. apply repeat_spec in Hx. subst. reflexivity.
  - apply zeros_shift_sp. constructor; [reflexivity|]. apply Forall_forall. intros x Hx. apply in_map_iff in Hx. destruct Hx as (u & <- & Hu).
    apply in_seq in Hu. rewrite delay_early by lia. reflexivity. Qed.

(* ================================================================================================ *)
Variable inputs : list ((N -> bool) * (N -> Q)).
Hypothesis Hok : Forall (input_ok ch) inputs.
Notation rec t := (nth t (run NW inputs) empty_st).
Definition dfn (t : nat) : Q := snd (inp t inputs) (sink ch).                                  (* demand of period t *)
Definition ILs (n : N) (t : nat) : Q := match t with O => lv n | S u => gq (rec u) (fIL, n, Ext) end.   (* level at the start of period t *)

Lemma rec_inv k : (k < length inputs)%nat ->
  exists sk, Inv sk /\ input_ok ch (inp k inputs) /\ rec k = run_actions NW (fst (inp k inputs)) (snd (inp k inputs)) sk /\
    (forall n pre post, ch = pre ++ n :: post -> gq sk (fIL, n, Ext) = ILs n k).
Proof. intros Hk. destruct (run_from_nth_inv inputs (init_state NW) (Inv_init B lv ch Hsame Hser Hin Hout Hlv Hlv0) Hok k Hk) as (sk & A & A' & Bq & Cq).
  exists sk. split; [exact A|]. split; [exact A'|]. split; [exact Bq|]. intros n pre post E. rewrite Cq. unfold ILs, run.
  destruct k; [apply (init_stage pre n post E)|reflexivity]. Qed.

Lemma dfn_nonneg u : 0 <= dfn u.
Proof. unfold dfn. destruct (Nat.lt_ge_cases u (length inputs)) as [H|H].
  - rewrite Forall_forall in Hok. destruct (Hok _ (nth_In inputs dflt_input H)) as (_ & H2 & _). apply H2.
  - rewrite nth_overflow by exact H. cbn. lra. Qed.

(* what a stage ships to its successor *)
Theorem shipments_pathwise pre p n post k : ch = pre ++ p :: n :: post -> (k < length inputs)%nat ->
  gq (rec k) (fOS, p, Nd n) == ship (ILs p) dfn k.
Proof. intros E Hk. destruct (rec_inv k Hk) as (sk & A & (H1 & H2 & H3) & Bq & Cq). rewrite Bq.
  rewrite (os_step B lv ch HndN Hsame Hnd Hser Hin Hout Hlv Hlv0 Hnonempty _ _ H1 H2 H3 sk A pre p n post E).
  rewrite (Cq p pre (n :: post) E). unfold ship, dfn. cbn [ILs]. rewrite Bq. reflexivity. Qed.

(* ---- the most upstream stage ---- *)
Theorem head_pathwise n post t : ch = n :: post -> (t < length inputs)%nat ->
  gq (rec t) (fIL, n, Ext) == cs_head_closed (lv n) (LT n) dfn t.
Proof. intros E Ht. assert (E0 : ch = [] ++ n :: post) by exact E.
  rewrite <- head_closed. unfold run.
  apply (stage_run_from [] n post E0 (fun i _ => snd i (sink ch))) with (t0 := 0%nat).
  - intros dis dem s (H1 & H2 & H3) HI. cbn [fst snd] in *.
    apply (pipe_head B lv ch HndN Hsame Hnd Hser Hin Hout Hlv Hlv0 Hnonempty dis dem H1 H2 H3 s HI n post E).
  - apply Inv_init; assumption.
  - exact Hok.
  - intros k _. reflexivity.
  - intros k _. cbn [Nat.add]. rewrite delay_shift. reflexivity.
  - cbn [xrec]. rewrite (proj1 (init_stage [] n post E0)). reflexivity.
  - apply (init_window [] n post dfn E0).
  - exact Ht. Qed.

(* ---- a stage n supplied by stage p: local form of the Clark-Scarf recursion ---- *)
Theorem edge_pathwise pre p n post t : ch = pre ++ p :: n :: post -> (t < length inputs)%nat ->
  gq (rec t) (fIL, n, Ext) == cs_edge_closed (lv n) (LT n) (ILs p) dfn t.
Proof. intros E Ht. assert (E2 : ch = (pre ++ [p]) ++ n :: post) by (rewrite snoc_cons; exact E).
  rewrite <- edge_closed by (cbn [ILs]; apply Hlv). unfold run.
  pose proof (stage_run_from (pre ++ [p]) n post E2 (fun _ e => gq e (fOS, p, Nd n))) as X. rewrite sup_of_snoc in X.
  apply X with (t0 := 0%nat).
  - intros dis dem s (H1 & H2 & H3) HI. cbn [fst snd] in *.
    apply (pipe_edge B lv ch HndN Hsame Hnd Hser Hin Hout Hlv Hlv0 Hnonempty dis dem H1 H2 H3 s HI pre p n post E).
  - apply Inv_init; assumption.
  - exact Hok.
  - intros k _. reflexivity.
  - intros k Hk. cbn [Nat.add]. rewrite delay_shift. apply (shipments_pathwise pre p n post k E Hk).
  - cbn [xrec]. rewrite (proj1 (init_stage _ n post E2)). reflexivity.
  - pose proof (init_window (pre ++ [p]) n post (ship (ILs p) dfn) E2) as W. rewrite sup_of_snoc in W. exact W.
  - exact Ht. Qed.

(* ---- echelon form ---- *)
Lemma K_rec t : (t < length inputs)%nat -> Kedges lv ch (rec t).
Proof. intros Ht. destruct (rec_inv t Ht) as (sk & A & Hi & Bq & _). pose proof (inv_next _ _ sk Hi A) as [HJ _].
  pose proof Hi as (H1 & _). rewrite <- Bq in HJ. intros pre p d post E.
  assert (E2 : ch = (pre ++ [p]) ++ d :: post) by (rewrite snoc_cons; exact E).
  pose proof (j_k B lv ch _ HJ pre p d post E) as K.
  destruct (next_eff B lv ch HndN Hsame Hser _ H1 (rec t) (pre ++ [p]) d post E2) as [Y _]. rewrite sup_of_snoc in Y.
  rewrite Y, qsum_shift_sp in K. rewrite !(next_period_frame NW _ fIL (rec t)) in K by discriminate. exact K. Qed.

Definition below (post : list N) : Q := qsumf lv post.                    (* local levels of the stages downstream *)
Lemma ech_split pre n post : ch = pre ++ n :: post -> ech lv ch n = lv n + below post.
Proof. intros E. unfold ech, below. f_equal. f_equal. rewrite E. apply after_split. rewrite E in Hnd. apply (nodup_mid pre n post Hnd). Qed.
Lemma echelon_rec pre n post t : ch = pre ++ n :: post -> (t < length inputs)%nat ->
  echelon_il NW (rec t) n == gq (rec t) (fIL, n, Ext) + below post.
Proof. intros E Ht. apply (echelon_il_chain NW ch HndN Hsame Hnd Hser (rec t) lv (K_rec t Ht) pre n post E). Qed.

(* echelon inventory level at the start of period t (the echelon base-stock level at t = 0) *)
Definition eILs (n : N) (t : nat) : Q := match t with O => ech lv ch n | S u => echelon_il NW (rec u) n end.

Theorem head_echelon n post t : ch = n :: post -> (t < length inputs)%nat ->
  echelon_il NW (rec t) n == ech lv ch n - dwin dfn (LT n) t.
Proof. intros E Ht. assert (E0 : ch = [] ++ n :: post) by exact E.
  rewrite (echelon_rec [] n post t E0 Ht), (head_pathwise n post t E Ht), (ech_split [] n post E0). unfold cs_head_closed. lra. Qed.

Theorem edge_echelon_pathwise pre p n post t : ch = pre ++ p :: n :: post -> (t < length inputs)%nat ->
  echelon_il NW (rec t) n == cs_edge_echelon (ech lv ch n) (LT n) (eILs p) dfn t.
Proof. intros E Ht. assert (E2 : ch = (pre ++ [p]) ++ n :: post) by (rewrite snoc_cons; exact E).
  rewrite (echelon_rec _ n post t E2 Ht), (edge_pathwise pre p n post t E Ht), (ech_split _ n post E2).
  rewrite edge_echelon. unfold cs_edge_echelon. apply Qplus_comp; [|reflexivity]. apply qmin_proper; [reflexivity|].
  destruct (S t - LT n)%nat as [|u] eqn:Eu; cbn [ILs eILs].
  - rewrite (ech_split pre p (n :: post) E). unfold below, qsumf. cbn [map qsum]. lra.
  - rewrite (echelon_rec pre p (n :: post) u E ltac:(lia)). unfold below, qsumf. cbn [map qsum]. lra. Qed.
(* the recursion in the textbook shape: after the warm-up (t >= L) the upstream echelon level of L periods ago enters;
   during the warm-up (t < L) the stage has only seen demand *)
Corollary edge_echelon_late pre p n post t : ch = pre ++ p :: n :: post -> (t < length inputs)%nat -> (LT n <= t)%nat ->
  echelon_il NW (rec t) n == qmin (ech lv ch n) (echelon_il NW (rec (t - LT n)) p) - qsum_range dfn (S (t - LT n)) (LT n).
Proof. intros E Ht HL. rewrite (edge_echelon_pathwise pre p n post t E Ht). unfold cs_edge_echelon.
  replace (S t - LT n)%nat with (S (t - LT n)) by lia. cbn [eILs]. rewrite dwin_range.
  replace (S t - LT n)%nat with (S (t - LT n)) by lia. replace (S t - S (t - LT n))%nat with (LT n) by lia. reflexivity. Qed.
Corollary edge_echelon_early pre p n post t : ch = pre ++ p :: n :: post -> (t < length inputs)%nat -> (t < LT n)%nat ->
  echelon_il NW (rec t) n == ech lv ch n - qsum_range dfn 0 (S t).
Proof. intros E Ht HL. assert (E2 : ch = (pre ++ [p]) ++ n :: post) by (rewrite snoc_cons; exact E).
  rewrite (edge_echelon_pathwise pre p n post t E Ht). unfold cs_edge_echelon.
  replace (S t - LT n)%nat with 0%nat by lia. cbn [eILs]. rewrite dwin_range.
  replace (S t - LT n)%nat with 0%nat by lia. rewrite Nat.sub_0_r.
  rewrite (ech_split pre p (n :: post) E), (ech_split _ n post E2). unfold below, qsumf. cbn [map qsum]. pose proof (Hlv p). qcases; lra. Qed.
Corollary edge_local_late pre p n post t : ch = pre ++ p :: n :: post -> (t < length inputs)%nat -> (LT n <= t)%nat ->
  gq (rec t) (fIL, n, Ext) == lv n - qmax 0 (- gq (rec (t - LT n)) (fIL, p, Ext)) - qsum_range dfn (S (t - LT n)) (LT n).
Proof. intros E Ht HL. rewrite (edge_pathwise pre p n post t E Ht). unfold cs_edge_closed, negp.
  replace (S t - LT n)%nat with (S (t - LT n)) by lia. cbn [ILs]. rewrite dwin_range.
  replace (S t - LT n)%nat with (S (t - LT n)) by lia. replace (S t - S (t - LT n))%nat with (LT n) by lia. reflexivity. Qed.
Corollary head_local n post t : ch = n :: post -> (t < length inputs)%nat ->
  gq (rec t) (fIL, n, Ext) == lv n - qsum_range dfn (S t - LT n) (S t - (S t - LT n)).
Proof. intros E Ht. rewrite (head_pathwise n post t E Ht). unfold cs_head_closed. rewrite dwin_range. reflexivity. Qed.
End Run.
