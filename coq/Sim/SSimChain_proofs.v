(* C15 / C13 bridge, part 2: CHAIN. The inventory position after ordering of the reference recursion (hence, by part 1, of the
   simulator model) follows the (s,S) rule for every lead time; on integers the offset S - position moves by [off_step], and
   [trans pmf n] of Alg/SS.v is exactly the law of [off_step n i D] when D has pmf [pmf]:
      sum_d p_d f(off_step n i d) == (trans f)(i)      for every f and every state i < n. *)
From SV Require Import Alg.SS_proofs Alg.SSErgo_proofs Alg.Gen_proofs.
From SV Require Import Sim.SSim Sim.SSim_proofs.

(* ---------- A. rationals: position after ordering ---------- *)
Lemma ss_next_proper s S a b d : a == b -> ss_next s S a d == ss_next s S b d.
Proof. intro H. unfold ss_next. destruct (qleb_spec (a - d) s) as [[A E]|[A E]], (qleb_spec (b - d) s) as [[A' E']|[A' E']]; rewrite E, E'; lra. Qed.

Lemma ref_step_pos s S il w d : rec_pos (ref_step s S il w d) == ss_next s S (il + qsum w) d.
Proof. unfold ref_step, rec_pos, ss_next, ss_order. rewrite qsum_tl, qsum_app. cbn [qsum].
  destruct (qleb_spec (il + qsum w - d) s) as [[A E]|[A E]]; rewrite E; lra. Qed.

(* the position after ordering follows the (s,S) rule, for every lead time (length of w) and every demand sequence *)
Theorem ref_run_positions s S : forall ds il w y, il + qsum w == y ->
  Forall2 (fun r y' => rec_pos r == y') (ref_run s S il w ds) (ss_path s S y ds).
Proof. induction ds as [|d r IH]; intros il w y Hy; cbn [ref_run ss_path]; [constructor|].
  pose proof (ref_step_pos s S il w d) as E. destruct (ref_step s S il w d) as [[il' w'] q] eqn:ER.
  assert (E' : il' + qsum w' == ss_next s S y d) by (unfold rec_pos in E; rewrite E; apply ss_next_proper; exact Hy).
  constructor; [exact E'|]. apply IH. exact E'. Qed.

(* an order is placed iff the position minus the demand is at or below s *)
Lemma ss_order_pos s S ip : s < S -> qltb 0 (ss_order s S ip) = qleb ip s.
Proof. intro H. unfold ss_order. destruct (qleb_spec ip s) as [[A E]|[A E]]; rewrite E.
  - destruct (qltb_spec 0 (S - ip)) as [[B F]|[B F]]; [exact F | lra].
  - reflexivity. Qed.

(* ---------- B. integers: offsets ---------- *)
Lemma inj_sub_q a b : inject_Z (a - b) == inject_Z a - inject_Z b.
Proof. unfold Zminus. rewrite inject_Z_plus, inject_Z_opp. lra. Qed.
Lemma qnat_inj_sub (S : Z) (i d : nat) : inject_Z S - qnat i - qnat d == inject_Z (S - Z.of_nat i - Z.of_nat d).
Proof. unfold qnat. unfold Zminus. rewrite !inject_Z_plus, !inject_Z_opp. lra. Qed.

Section Offsets.
Variables (s S : Z).
Hypothesis s_lt_S : (s < S)%Z.
Let n := Z.to_nat (S - s).

Lemma off_lt i d : (off_step n i d < n)%nat.
Proof. unfold off_step. destruct (Nat.ltb_spec (i + d) n); [assumption | unfold n; lia]. Qed.

Lemma trigger_iff (i d : nat) : (i < n)%nat ->
  qleb (inject_Z S - qnat i - qnat d) (inject_Z s) = negb (Nat.ltb (i + d) n).
Proof. intro Hi. rewrite qnat_inj_sub.
  destruct (qleb_spec (inject_Z (S - Z.of_nat i - Z.of_nat d)) (inject_Z s)) as [[A E]|[A E]]; rewrite E;
    [rewrite <- Zle_Qle in A | rewrite <- Zlt_Qlt in A]; destruct (Nat.ltb_spec (i + d) n) as [B|B]; cbn [negb]; try reflexivity; unfold n in *; lia. Qed.

Lemma ss_next_off (y : Q) (i d : nat) : (i < n)%nat -> y == inject_Z S - qnat i ->
  ss_next (inject_Z s) (inject_Z S) y (qnat d) == inject_Z S - qnat (off_step n i d).
Proof. intros Hi Hy. rewrite (ss_next_proper _ _ _ _ _ Hy). unfold ss_next, off_step. rewrite (trigger_iff i d Hi).
  destruct (Nat.ltb_spec (i + d) n) as [B|B]; cbn [negb].
  - rewrite qnat_add. lra.
  - change (qnat 0) with 0. lra. Qed.

(* a start at or below s (not a chain state): the first period orders up to S *)
Lemma ss_next_low (y : Q) (d : nat) : y <= inject_Z s -> ss_next (inject_Z s) (inject_Z S) y (qnat d) == inject_Z S.
Proof. intro Hy. unfold ss_next. pose proof (qnat_nonneg d).
  destruct (qleb_spec (y - qnat d) (inject_Z s)) as [[A E]|[A E]]; rewrite E; lra. Qed.

(* the reference recursion, any lead time: position after ordering and order flag, period by period *)
Definition pos_ok (r : Q * list Q * Q) (pr : nat * nat) : Prop :=
  rec_pos r == inject_Z S - qnat (off_step n (fst pr) (snd pr)) /\
  qltb 0 (snd r) = negb (Nat.ltb (fst pr + snd pr) n).

Theorem ref_run_offsets : forall ds il w i, (i < n)%nat -> il + qsum w == inject_Z S - qnat i ->
  Forall2 pos_ok (ref_run (inject_Z s) (inject_Z S) il w (map qnat ds)) (off_pairs n i ds).
Proof. induction ds as [|d r IH]; intros il w i Hi Hy; cbn [map ref_run off_pairs]; [constructor|].
  pose proof (ref_step_pos (inject_Z s) (inject_Z S) il w (qnat d)) as E.
  assert (Eq : snd (ref_step (inject_Z s) (inject_Z S) il w (qnat d)) = ss_order (inject_Z s) (inject_Z S) (il + qsum w - qnat d)) by reflexivity.
  destruct (ref_step (inject_Z s) (inject_Z S) il w (qnat d)) as [[il' w'] q] eqn:ER. cbn [snd] in Eq.
  assert (E' : il' + qsum w' == inject_Z S - qnat (off_step n i d)).
  { unfold rec_pos in E. rewrite E. apply ss_next_off; assumption. }
  constructor.
  - split; cbn [fst snd]; [exact E'|]. rewrite Eq, ss_order_pos by (rewrite <- Zlt_Qlt; exact s_lt_S).
    rewrite <- (trigger_iff i d Hi).
    destruct (qleb_spec (il + qsum w - qnat d) (inject_Z s)) as [[A F]|[A F]], (qleb_spec (inject_Z S - qnat i - qnat d) (inject_Z s)) as [[A' F']|[A' F']];
      rewrite F, F'; try reflexivity; lra.
  - apply IH; [apply off_lt | exact E']. Qed.

(* lead time 1 (the convention of ss.py): the end-of-period inventory level is (position after the previous ordering) - demand *)
Definition il1_ok (r : Q * list Q * Q) (pr : nat * nat) : Prop :=
  fst (fst r) == inject_Z S - qnat (fst pr) - qnat (snd pr) /\ qltb 0 (snd r) = negb (Nat.ltb (fst pr + snd pr) n).
Theorem ref_run_L1 : forall ds il q0 i, (i < n)%nat -> il + q0 == inject_Z S - qnat i ->
  Forall2 il1_ok (ref_run (inject_Z s) (inject_Z S) il [q0] (map qnat ds)) (off_pairs n i ds).
Proof. induction ds as [|d r IH]; intros il q0 i Hi Hy; cbn [map ref_run off_pairs]; [constructor|].
  assert (Hy' : il + qsum [q0] == inject_Z S - qnat i) by (cbn [qsum]; lra).
  pose proof (ref_run_offsets [d] il [q0] i Hi Hy') as F. cbn [map ref_run off_pairs] in F.
  unfold ref_step in *. cbn [app hd0 tl] in *. set (q := ss_order _ _ _) in *.
  inversion F as [|? ? ? ? [P1 P2] _]; subst. cbn [fst snd] in *.
  constructor.
  - split; cbn [fst snd]; [lra | exact P2].
  - apply IH; [apply off_lt|]. unfold rec_pos in P1. cbn [qsum] in P1. lra. Qed.

(* lead time 0: the end-of-period inventory level is the position after ordering *)
Definition il0_ok (r : Q * list Q * Q) (pr : nat * nat) : Prop :=
  fst (fst r) == inject_Z S - qnat (off_step n (fst pr) (snd pr)) /\ qltb 0 (snd r) = negb (Nat.ltb (fst pr + snd pr) n).
Theorem ref_run_L0 : forall ds il i, (i < n)%nat -> il == inject_Z S - qnat i ->
  Forall2 il0_ok (ref_run (inject_Z s) (inject_Z S) il [] (map qnat ds)) (off_pairs n i ds).
Proof. induction ds as [|d r IH]; intros il i Hi Hy; cbn [map ref_run off_pairs]; [constructor|].
  assert (Hy' : il + qsum [] == inject_Z S - qnat i) by (cbn [qsum]; lra).
  pose proof (ref_run_offsets [d] il [] i Hi Hy') as F. cbn [map ref_run off_pairs] in F.
  unfold ref_step in *. cbn [app hd0 tl] in *. set (q := ss_order _ _ _) in *.
  inversion F as [|? ? ? ? [P1 P2] _]; subst. cbn [fst snd] in *. unfold rec_pos in P1. cbn [qsum] in P1.
  constructor.
  - split; cbn [fst snd]; [lra | exact P2].
  - apply IH; [apply off_lt|]. lra. Qed.
End Offsets.

Lemma off_pairs_length n : forall ds i, length (off_pairs n i ds) = length ds.
Proof. induction ds as [|d r IH]; intro i; cbn [off_pairs length]; [reflexivity | rewrite IH; reflexivity]. Qed.
Lemma off_path_snoc n i ds d : off_path n i (ds ++ [d]) = off_step n (off_path n i ds) d.
Proof. unfold off_path. rewrite fold_left_app. reflexivity. Qed.
Lemma off_pairs_nth n : forall ds i t, (t < length ds)%nat ->
  nth t (off_pairs n i ds) (0%nat, 0%nat) = (off_path n i (firstn t ds), nth t ds 0%nat).
Proof. induction ds as [|d r IH]; intros i t Ht; cbn [length] in Ht; [lia|]. destruct t as [|t]; cbn [off_pairs nth firstn]; [reflexivity|].
  rewrite IH by lia. reflexivity. Qed.

(* ---------- C. [trans] is the law of [off_step] ---------- *)
Section Law.
Variable pmf : list Q.
Hypothesis p_nonneg : forall l, 0 <= pf pmf l.
Hypothesis p_sum1 : qsum pmf == 1.
Hypothesis p0_lt1 : pf pmf 0 < 1.

Lemma wsum_as_range (f : nat -> Q) : forall l k, wsum f k l == qsum_range (fun j => f (k + j)%nat * nth j l 0) 0 (length l).
Proof. induction l as [|x r IH]; intro k; cbn [wsum length]; [reflexivity|].
  rewrite qsum_range_first. cbn [nth]. rewrite Nat.add_0_r, IH.
  rewrite <- (SS_proofs.qsum_range_shift (fun j => f (k + j)%nat * nth j (x :: r) 0) 0 (length r)).
  apply Qplus_comp; [reflexivity|]. apply qsum_range_ext. intros j _. cbn [nth]. replace (S k + j)%nat with (k + S j)%nat by lia. reflexivity. Qed.

Lemma range_pad (g : nat -> Q) (l : list Q) m : (length l <= m)%nat ->
  qsum_range (fun j => g j * nth j l 0) 0 m == qsum_range (fun j => g j * nth j l 0) 0 (length l).
Proof. intro H. replace m with (length l + (m - length l))%nat by lia. rewrite qsum_range_split.
  rewrite (qsum_range_zero _ (0 + length l)); [lra|]. intros j Hj. rewrite nth_overflow by lia. lra. Qed.

Lemma nth_skipn_q : forall k (l : list Q) j, nth j (skipn k l) 0 = nth (k + j) l 0.
Proof. induction k as [|k IH]; intros l j; [reflexivity|]. destruct l as [|x r]; [destruct j; reflexivity|]. cbn [skipn Nat.add nth]. apply IH. Qed.
Lemma tailp_range k m : (length pmf <= k + m)%nat -> tailp pmf k == qsum_range (fun j => pf pmf (k + j)) 0 m.
Proof. intro H. unfold tailp. rewrite qsum_as_range.
  rewrite (qsum_range_ext _ (fun j => 1 * nth j (skipn k pmf) 0)) by (intros; lra).
  rewrite <- (range_pad (fun _ => 1) (skipn k pmf) m) by (rewrite skipn_length; lia).
  apply qsum_range_ext. intros j _. unfold pf. rewrite nth_skipn_q. lra. Qed.

(* E_D[f(off_step n i D)] = (P f)(i), P = trans pmf n *)
Theorem off_step_law n (f : nat -> Q) i : (i < n)%nat ->
  wsum (fun d => f (off_step n i d)) 0 pmf == Pf n (trans pmf n) f i.
Proof. intro Hi. rewrite (Pf_trans pmf n f i Hi). rewrite wsum_as_range. cbn [Nat.add].
  set (m := Nat.max (length pmf) (n - i)).
  rewrite <- (range_pad (fun d => f (off_step n i d)) pmf m) by (unfold m; lia).
  replace m with ((n - i) + (m - (n - i)))%nat by (unfold m; lia). rewrite qsum_range_split. cbn [Nat.add].
  apply Qplus_comp.
  - apply qsum_range_ext. intros l Hl. unfold off_step, pf. replace (Nat.ltb (i + l) n) with true by (symmetry; apply Nat.ltb_lt; lia). lra.
  - rewrite (tailp_range (n - i) (m - (n - i))) by (unfold m; lia).
    rewrite <- SSErgo_proofs.qsum_range_scale_r. rewrite <- (qsum_range_unshift (fun j => pf pmf (n - i + j) * f 0%nat) (m - (n - i)) (n - i)).
    apply qsum_range_ext. intros l Hl. unfold off_step, pf. replace (Nat.ltb (i + l) n) with false by (symmetry; apply Nat.ltb_ge; lia).
    replace (n - i + (l - (n - i)))%nat with l by lia. lra. Qed.

(* entrywise: trans n i j = P(off_step n i D = j) *)
Corollary trans_is_law n i j : (i < n)%nat -> (j < n)%nat ->
  trans pmf n i j == wsum (fun d => if Nat.eqb (off_step n i d) j then 1 else 0) 0 pmf.
Proof. intros Hi Hj. rewrite (off_step_law n (fun k => if Nat.eqb k j then 1 else 0) i Hi). unfold Pf.
  replace n with (j + S (n - S j))%nat at 2 by lia. rewrite qsum_range_split, qsum_range_first. cbn [Nat.add]. rewrite Nat.eqb_refl.
  rewrite !qsum_range_zero; [lra| |]; intros k Hk; replace (Nat.eqb k j) with false by (symmetry; apply Nat.eqb_neq; lia); lra. Qed.
End Law.
