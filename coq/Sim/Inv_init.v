(* Simulator invariants, part 5: the initial state satisfies every invariant. *)
From SV Require Import Sim.Model Sim.StateLemmas Sim.Inv_base Sim.Inv_book Sim.Inv_pipe Sim.Inv_node.

Lemma fold_establish {A} (eqd : forall a b : A, {a = b} + {a <> b}) (f : st -> A -> st) (Q : A -> st -> Prop) :
  (forall s a, Q a (f s a)) -> (forall s a b, a <> b -> Q a s -> Q a (f s b)) ->
  forall l s a, In a l -> Q a (fold_left f l s).
Proof. intros Hset Hkeep. induction l as [|b r IH]; intros s a Hin; [destruct Hin|]. cbn [fold_left].
  destruct (in_dec eqd a r) as [Hr|Hnr]; [apply IH; exact Hr|].
  destruct Hin as [E|Hr]; [subst b|contradiction].
  apply fold_left_inv; [|apply Hset]. intros s' x Hx Hq. apply Hkeep; [|exact Hq]. intro E. subst. contradiction. Qed.

Lemma qsum_repeat v k : qsum (repeat v k) == v * qnat k.
Proof. induction k as [|k IH]; cbn [repeat qsum]; [unfold qnat; cbn [Z.of_nat inject_Z]; field|]. rewrite IH. unfold qnat. rewrite Nat2Z.inj_succ. unfold Z.succ. rewrite inject_Z_plus. cbn [inject_Z]. field. Qed.

Section Init.
Variable (NW : net).
Notation C := (cfg NW).
Hypothesis WF : wf_net NW.
Hypothesis WG : wf_graph NW.
(* outside the node list the configuration is inert (the harness builds [cfg] from a table with an inert default) *)
Hypothesis WO : forall n, ~ In n (nodes NW) ->
  preds (C n) = [] /\ succs (C n) = [] /\ ext_sup (C n) = false /\ has_dem (C n) = false /\ il0 NW n == 0.

Definition spinit (n : N) (p : nb) : list Q :=
  repeat (init_ships (C n)) (slt (C n)) ++ repeat (match p with Ext => init_orders (C n) | Nd _ => 0 end) (olt (C n)) ++ [0].
Definition opinit (x : nb) : list Q :=
  match x with Nd x' => repeat (init_orders (C x')) (olt (C x')) ++ [0] | Ext => [0] end.

Definition node_of (k : key) : N := snd (fst k).

Lemma init_node_frame s n k : node_of k <> n -> gq (init_node NW s n) k = gq s k /\ gl (init_node NW s n) k = gl s k.
Proof. intros Hk. unfold init_node.
  assert (K : forall f x, k <> (f, n, x)) by (intros f x E; subst k; apply Hk; reflexivity).
  apply (fold_left_inv (fun a => gq a k = gq s k /\ gl a k = gl s k)).
  { intros a p _ [A1 A2]. rewrite gq_sq_other by apply K. rewrite gq_sl, gl_sq, gl_sl_other by apply K. split; assumption. }
  apply (fold_left_inv (fun a => gq a k = gq s k /\ gl a k = gl s k)).
  { intros a x _ [A1 A2]. destruct x; rewrite gq_sl, gl_sl_other by apply K; split; assumption. }
  rewrite gq_sq_other by apply K. rewrite gl_sq. split; reflexivity. Qed.

Definition Qn (n : N) (s : st) : Prop :=
  gq s (fIL, n, Ext) = il0 NW n /\
  (forall p, In p (suppliers (C n)) -> gq s (fOO, n, p) = oo0 NW n /\ gl s (fSP, n, p) = spinit n p) /\
  (forall x, In x (customers (C n)) -> gl s (fOP, n, x) = opinit x).

Lemma init_node_sets s n : Qn n (init_node NW s n).
Proof. unfold init_node.
  set (s1 := sq s (fIL, n, Ext) (match init_il (C n) with Some x => x | None => rule (pol (C n)) 0 end)).
  set (fc := fun s x => match x with
             | Nd x' => sl s (fOP, n, x) (repeat (init_orders (C x')) (olt (C x')) ++ [0])
             | Ext => sl s (fOP, n, x) [0] end).
  set (s2 := fold_left fc (customers (C n)) s1).
  set (fs := fun s p => sq (sl s (fSP, n, p) (repeat (init_ships (C n)) (slt (C n)) ++ repeat (match p with Ext => init_orders (C n) | Nd _ => 0 end) (olt (C n)) ++ [0]))
                           (fOO, n, p) (init_ships (C n) * qnat (slt (C n)) + init_orders (C n) * qnat (olt (C n)))).
  (* customers fold *)
  assert (C2 : forall x, In x (customers (C n)) -> gl s2 (fOP, n, x) = opinit x).
  { intros x Hx. unfold s2. apply (fold_establish nb_eq_dec fc (fun x s => gl s (fOP, n, x) = opinit x)); [| |exact Hx].
    - intros a [|y]; unfold fc; cbn [opinit]; apply gl_sl_same.
    - intros a y z Hne Hq. destruct z; unfold fc; (rewrite gl_sl_other; [exact Hq|]); intro E; inversion E; subst; apply Hne; reflexivity. }
  assert (I2 : gq s2 (fIL, n, Ext) = il0 NW n).
  { unfold s2. apply (fold_left_inv (fun a => gq a (fIL, n, Ext) = il0 NW n)).
    - intros a x _ Ha. destruct x; unfold fc; rewrite gq_sl; exact Ha.
    - unfold s1. rewrite gq_sq_same. reflexivity. }
  (* suppliers fold *)
  split; [|split].
  - apply (fold_left_inv (fun a => gq a (fIL, n, Ext) = il0 NW n)); [|exact I2].
    intros a p _ Ha. unfold fs. rewrite gq_sq_other by discriminate. rewrite gq_sl. exact Ha.
  - intros p Hp. apply (fold_establish nb_eq_dec fs (fun p s => gq s (fOO, n, p) = oo0 NW n /\ gl s (fSP, n, p) = spinit n p)); [| |exact Hp].
    + intros a q. unfold fs. rewrite gq_sq_same, gl_sq, gl_sl_same. split; reflexivity.
    + intros a q r Hne [Q1 Q2]. unfold fs. rewrite gq_sq_other by (intro E; inversion E; subst; apply Hne; reflexivity).
      rewrite gq_sl, gl_sq. rewrite gl_sl_other by (intro E; inversion E; subst; apply Hne; reflexivity). split; assumption.
  - intros x Hx. apply (fold_left_inv (fun a => gl a (fOP, n, x) = opinit x)); [|apply C2; exact Hx].
    intros a p _ Ha. unfold fs. rewrite gl_sq. rewrite gl_sl_other by discriminate. exact Ha. Qed.

Lemma Qn_keep s n m : n <> m -> Qn n s -> Qn n (init_node NW s m).
Proof. intros Hne (Q1 & Q2 & Q3). unfold Qn.
  rewrite (proj1 (init_node_frame s m (fIL, n, Ext) Hne)). split; [exact Q1|]. split.
  - intros p Hp. rewrite (proj1 (init_node_frame s m (fOO, n, p) Hne)), (proj2 (init_node_frame s m (fSP, n, p) Hne)). apply Q2. exact Hp.
  - intros x Hx. rewrite (proj2 (init_node_frame s m (fOP, n, x) Hne)). apply Q3. exact Hx. Qed.

Lemma init_Qn n : In n (nodes NW) -> Qn n (init_state NW).
Proof. intros Hn. unfold init_state. apply (fold_establish N.eq_dec (init_node NW) Qn); [apply init_node_sets|intros; apply Qn_keep; assumption|exact Hn]. Qed.

(* every rational field other than the inventory level and the on-order quantity starts at 0 *)
Lemma init_zero f n x : f <> fIL -> f <> fOO -> gq (init_state NW) (f, n, x) = 0.
Proof. intros F1 F2. unfold init_state. apply (fold_left_inv (fun a => gq a (f, n, x) = 0)); [|apply gq_empty].
  intros a m _ Ha. unfold init_node.
  apply (fold_left_inv (fun b => gq b (f, n, x) = 0)).
  { intros b p _ Hb. rewrite gq_sq_other by (intro E; inversion E; subst; contradiction). rewrite gq_sl. exact Hb. }
  apply (fold_left_inv (fun b => gq b (f, n, x) = 0)).
  { intros b y _ Hb. destruct y; rewrite gq_sl; exact Hb. }
  rewrite gq_sq_other by (intro E; inversion E; subst; contradiction). exact Ha. Qed.

Lemma init_outside k : ~ In (node_of k) (nodes NW) -> gq (init_state NW) k = 0 /\ gl (init_state NW) k = [].
Proof. intros Hk. unfold init_state. apply (fold_left_inv (fun a => gq a k = 0 /\ gl a k = [])); [|split; [apply gq_empty|apply gl_empty]].
  intros a m Hm [A1 A2]. destruct (init_node_frame a m k) as [F1 F2]; [intro E; apply Hk; rewrite E; exact Hm|]. rewrite F1, F2. split; assumption. Qed.

Lemma sup_in_nodes n p : In p (suppliers (C n)) -> In n (nodes NW).
Proof. intros Hp. destruct (in_dec N.eq_dec n (nodes NW)) as [H|H]; [exact H|]. destruct (WO n H) as (P & _ & E & _).
  unfold suppliers in Hp. rewrite P, E in Hp. destruct Hp. Qed.
Lemma cus_in_nodes n x : In x (customers (C n)) -> In n (nodes NW).
Proof. intros Hp. destruct (in_dec N.eq_dec n (nodes NW)) as [H|H]; [exact H|]. destruct (WO n H) as (_ & S & _ & D & _).
  unfold customers in Hp. rewrite S, D in Hp. destruct Hp. Qed.

Lemma init_il_eq n : gq (init_state NW) (fIL, n, Ext) == il0 NW n.
Proof. destruct (in_dec N.eq_dec n (nodes NW)) as [H|H].
  - rewrite (proj1 (init_Qn n H)). reflexivity.
  - rewrite (proj1 (init_outside (fIL, n, Ext) H)). destruct (WO n H) as (_ & _ & _ & _ & E). rewrite E. reflexivity. Qed.
Lemma il0_nonneg n : 0 <= il0 NW n.
Proof. unfold il0. destruct (wf_init NW WF n) as (_ & _ & H). destruct (init_il (C n)); [exact H|]. apply rule_nonneg. apply (wf_pol NW WF). Qed.

Theorem BK_init : BK NW (init_state NW).
Proof. constructor.
  - intros n c. rewrite !init_zero by discriminate. lra.
  - intros n. rewrite init_il_eq. rewrite !init_zero by discriminate. lra.
  - intros n. rewrite !init_zero by discriminate. lra.
  - intros n p Hp. destruct (init_Qn n (sup_in_nodes n p Hp)) as (_ & Q2 & _). rewrite (proj1 (Q2 p Hp)). rewrite !init_zero by discriminate. lra. Qed.

Theorem PL_init : PL NW (init_state NW).
Proof. constructor.
  - intros n p Hp. destruct (init_Qn n (sup_in_nodes n p Hp)) as (_ & Q2 & _). rewrite (proj2 (Q2 p Hp)). unfold spinit. rewrite !app_length, !repeat_length. cbn. lia.
  - intros n c Hc. assert (Hx : In (Nd c) (customers (C n))) by (apply in_cus_nd; exact Hc).
    destruct (init_Qn n (cus_in_nodes n _ Hx)) as (_ & _ & Q3). rewrite (Q3 _ Hx). cbn [opinit]. rewrite app_length, repeat_length. cbn. lia. Qed.

Theorem PC_init : PC NW (init_state NW).
Proof. constructor.
  - intros n p Hp. assert (Hs : In (Nd p) (suppliers (C n))) by (apply in_sup_nd; exact Hp).
    destruct (init_Qn n (sup_in_nodes n _ Hs)) as (_ & Q2 & _). rewrite (proj2 (Q2 _ Hs)). rewrite !init_zero by discriminate.
    unfold spinit, sp0. rewrite !qsum_app, !qsum_repeat. cbn [qsum]. lra.
  - intros n He. assert (Hs : In Ext (suppliers (C n))) by (apply in_sup_ext; exact He).
    destruct (init_Qn n (sup_in_nodes n _ Hs)) as (_ & Q2 & _). rewrite (proj2 (Q2 _ Hs)). rewrite !init_zero by discriminate.
    unfold spinit, sp0, io0. rewrite !qsum_app, !qsum_repeat. cbn [qsum]. lra.
  - intros n p Hp. assert (Hc : In n (succs (C p))) by (apply (wg_sym NW WG); exact Hp).
    assert (Hx : In (Nd n) (customers (C p))) by (apply in_cus_nd; exact Hc).
    destruct (init_Qn p (cus_in_nodes p _ Hx)) as (_ & _ & Q3). rewrite (Q3 _ Hx). rewrite !init_zero by discriminate.
    cbn [opinit]. unfold io0. rewrite qsum_app, qsum_repeat. cbn [qsum]. lra. Qed.

Theorem ND_init : ND NW (init_state NW).
Proof. assert (Z : forall f n l, f <> fIL -> f <> fOO -> SF f (init_state NW) n l == 0).
  { intros f n l F1 F2. unfold SF, qsumf. induction l as [|a r IH]; cbn [map qsum]; [lra|]. rewrite init_zero by assumption. rewrite IH. lra. }
  constructor; intros n.
  - rewrite Z by discriminate. rewrite init_il_eq. pose proof (il0_nonneg n). qcases; lra.
  - rewrite Z by discriminate. rewrite init_zero by discriminate. lra.
  - rewrite !Z by discriminate. rewrite !init_zero by discriminate. lra. Qed.
End Init.
