(* Pure arithmetic on the Clark-Scarf reference recursion of CS.v: the operational recursion (levels updated period by
   period through a delay line) has the Clark-Scarf closed form.  No simulator here. *)
From SV Require Import Base.Qx.
From SV Require Import Sim.CS.

Lemma negp_nonneg x : 0 <= negp x.
Proof. unfold negp. qcases; lra. Qed.
Lemma negp_of_nonneg x : 0 <= x -> negp x == 0.
Proof. unfold negp. intros H. qcases; lra. Qed.
Global Instance negp_proper : Proper (Qeq ==> Qeq) negp.
Proof. intros a b E. unfold negp. rewrite E. reflexivity. Qed.

Lemma xrec_ext lv lv' r r' d d' : lv == lv' -> forall t, (forall u, (u < t)%nat -> r u == r' u /\ d u == d' u) -> xrec lv r d t == xrec lv' r' d' t.
Proof. intros El. induction t as [|t IH]; intros H; cbn [xrec]; [exact El|].
  rewrite IH by (intros u Hu; apply H; lia). destruct (H t ltac:(lia)) as [E1 E2]. rewrite E1, E2. reflexivity. Qed.
Lemma dcum_ext f g : forall k, (forall u, (u < k)%nat -> f u == g u) -> dcum f k == dcum g k.
Proof. induction k as [|k IH]; intros H; cbn [dcum]; [reflexivity|]. rewrite IH by (intros u Hu; apply H; lia). rewrite (H k) by lia. reflexivity. Qed.

Lemma xrec_closed lv r d t : xrec lv r d t == lv + dcum r t - dcum d t.
Proof. induction t as [|t IH]; cbn [xrec dcum]; [lra|]. rewrite IH. lra. Qed.

Lemma dcum_delay L f : forall k, dcum (delay L f) k == dcum f (k - L).
Proof. induction k as [|k IH]; cbn [dcum]; [reflexivity|]. rewrite IH. unfold delay.
  destruct (Nat.ltb_spec k L) as [Hlt|Hge].
  - replace (S k - L)%nat with 0%nat by lia. replace (k - L)%nat with 0%nat by lia. cbn [dcum]. lra.
  - replace (S k - L)%nat with (S (k - L)) by lia. cbn [dcum]. lra. Qed.

Lemma dcum_ship xp d : forall k, dcum (ship xp d) k == negp (xp 0%nat) + dcum d k - negp (xp k).
Proof. induction k as [|k IH]; cbn [dcum]; [lra|]. rewrite IH. unfold ship. lra. Qed.

Lemma dcum_nonneg d : (forall u, 0 <= d u) -> forall k, 0 <= dcum d k.
Proof. intros H. induction k as [|k IH]; cbn [dcum]; [lra|]. specialize (H k). lra. Qed.
Lemma dcum_mono d : (forall u, 0 <= d u) -> forall j k, (j <= k)%nat -> dcum d j <= dcum d k.
Proof. intros H j k Hjk. induction Hjk as [|k Hjk IH]; [lra|]. cbn [dcum]. specialize (H k). lra. Qed.
Lemma dwin_nonneg d L t : (forall u, 0 <= d u) -> 0 <= dwin d L t.
Proof. intros H. unfold dwin. pose proof (dcum_mono d H (S t - L) (S t) ltac:(lia)). lra. Qed.
(* D(t-L, t] as a sum over the window *)
Lemma dwin_range d L t : dwin d L t == qsum_range d (S t - L) (S t - (S t - L)).
Proof. unfold dwin.
  assert (G : forall a n, dcum d (a + n) == dcum d a + qsum_range d a n).
  { intros a n. revert a. induction n as [|n IH]; intros a; cbn [qsum_range].
    - rewrite Nat.add_0_r. lra.
    - replace (a + S n)%nat with (S a + n)%nat by lia. rewrite IH. cbn [dcum]. lra. }
  pose proof (G (S t - L)%nat (S t - (S t - L))%nat) as E.
  replace (S t - L + (S t - (S t - L)))%nat with (S t) in E by lia. rewrite E. lra. Qed.

(* the most upstream stage: the external supplier ships the demand *)
Theorem head_closed lv L d t : xrec lv (delay L d) d (S t) == cs_head_closed lv L d t.
Proof. rewrite xrec_closed, dcum_delay. unfold cs_head_closed, dwin. lra. Qed.

(* a stage fed by an upstream stage with start-of-period levels xp (xp 0 >= 0: it starts with no backorders) *)
Theorem edge_closed lv L xp d t : 0 <= xp 0%nat -> xrec lv (delay L (ship xp d)) d (S t) == cs_edge_closed lv L xp d t.
Proof. intros H0. rewrite xrec_closed, dcum_delay, dcum_ship. rewrite (negp_of_nonneg _ H0). unfold cs_edge_closed, dwin. lra. Qed.

(* echelon form: add the local levels of everything downstream *)
Lemma echelon_min Se x : Se - negp x == qmin Se (x + Se).
Proof. unfold negp. qcases; lra. Qed.
Theorem edge_echelon lv L xp d t below : cs_edge_closed lv L xp d t + below == cs_edge_echelon (lv + below) L (fun k => xp k + (lv + below)) d t.
Proof. unfold cs_edge_closed, cs_edge_echelon. cbv beta. rewrite <- echelon_min. lra. Qed.

(* windows of a function of time (the content of a pipeline at the start of period t: what will arrive in t, t+1, ...) *)
Lemma seq_snoc t L : seq t (S L) = seq t L ++ [(t + L)%nat].
Proof. revert t. induction L as [|L IH]; intros t; [cbn; rewrite Nat.add_0_r; reflexivity|].
  change (seq t (S (S L))) with (t :: seq (S t) (S L)). rewrite IH. cbn [seq app]. rewrite Nat.add_succ_r. reflexivity. Qed.
