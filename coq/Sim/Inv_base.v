(* Simulator invariants, part 1: the per-successor shipping arithmetic, well-formedness hypotheses,
   non-negativity of every physical count (C02), pipeline lengths. *)
From SV Require Import Sim.Model Sim.StateLemmas.

(* ---------- arithmetic of serving one successor (sim._process_outbound_shipments) ---------- *)
Lemma serve_calc_spec oh bo io odi sp : 0 <= oh -> 0 <= bo -> 0 <= io -> 0 <= odi ->
  let o := serve_calc oh bo io odi sp in
  let rts := qmin oh (bo + io) in
  o_oh o == oh - rts /\ 0 <= o_oh o /\ o_bo o == bo + io - rts /\ 0 <= o_bo o /\ 0 <= o_os o /\ 0 <= o_odi o
  /\ o_bo o + o_odi o + o_os o == bo + odi + io /\ o_dmfs o <= o_os o /\ 0 <= o_dmfs o
  /\ (0 < o_oh o -> o_bo o == 0)
  /\ (sp = true -> o_os o == 0 /\ o_odi o == odi + rts)
  /\ (sp = false -> o_os o == rts + odi /\ o_odi o == 0).
Proof.
  intros Hoh Hb Hi Hd. unfold serve_calc. destruct sp; cbn [o_os o_bo o_odi o_dmfs o_oh];
  qcases; repeat split; intros; try discriminate; try lra.
Qed.

(* ---------- hypotheses on the configuration and on one period's inputs ---------- *)
Definition pol_ok (c : ncfg) : Prop :=
  match pol c with SS rp lv => rp <= lv | RQ _ q => 0 <= q | FQ q => 0 <= q | _ => True end
  /\ match cap c with Some k => 0 <= k | None => True end.
Record wf_net (NW : net) : Prop := {
  wf_sup : forall n, NoDup (suppliers (cfg NW n));
  wf_cus : forall n, NoDup (customers (cfg NW n));
  wf_pol : forall n, pol_ok (cfg NW n);
  wf_init : forall n, 0 <= init_orders (cfg NW n) /\ 0 <= init_ships (cfg NW n)
                      /\ match init_il (cfg NW n) with Some x => 0 <= x | None => True end }.

Lemma rule_nonneg c ip : pol_ok c -> 0 <= rule (pol c) ip.
Proof. intros [H _]. destruct (pol c) as [lv|rp lv|rp q|q|lv]; cbn [rule] in *.
  - qcases; lra.
  - destruct (qleb_spec ip rp) as [[? E]|[? E]]; rewrite E; lra.
  - destruct (qleb_spec ip rp) as [[? E]|[? E]]; rewrite E; lra.
  - exact H.
  - qcases; lra. Qed.
Lemma BIG_pos : 0 <= BIG.
Proof. unfold BIG. apply Qle_bool_iff. vm_compute. reflexivity. Qed.
Lemma capped_nonneg c oq : pol_ok c -> 0 <= oq -> 0 <= capped c oq.
Proof. intros [_ H] Hq. unfold capped. pose proof BIG_pos. destruct (cap c); qcases; lra. Qed.
Lemma order_qty_nonneg NW s n : pol_ok (cfg NW n) -> 0 <= order_qty NW s n.
Proof. intros H. unfold order_qty. rewrite Qred_correct. apply capped_nonneg; [exact H|]. apply rule_nonneg. exact H. Qed.

(* ---------- non-negativity ---------- *)
Definition nnf (f : fld) : bool :=
  match f with
  | fBO | fODI | fIDI | fRM | fDC | fDMC | fIO | fOS | fIS | fOQ | fOQFG | fDMFS | fFR
  | fPIO | fcIO | fcOS | fcIS | fcOQ | fCP | fSRV | fLOST => true
  | _ => false end.
Definition nonneg_l (l : list Q) : Prop := Forall (fun x => 0 <= x) l.
Definition NN (s : st) : Prop :=
  (forall f n x, nnf f = true -> 0 <= gq s (f, n, x)) /\ (forall k, nonneg_l (gl s k)).

Lemma NN_sq s f n x v : NN s -> (nnf f = true -> 0 <= v) -> NN (sq s (f, n, x) v).
Proof. intros [H1 H2] Hv. split.
  - intros f' n' x' Hf. kcase (f', n', x') (f, n, x); [gs; auto | rewrite gq_sq_other by assumption; auto].
  - intros k. gs. apply H2. Qed.
Lemma NN_addq s f n x v : NN s -> (nnf f = true -> 0 <= gq s (f, n, x) + v) -> NN (addq s (f, n, x) v).
Proof. intros H Hv. unfold addq. apply NN_sq; assumption. Qed.
Lemma NN_addq_pos s f n x v : NN s -> 0 <= v -> NN (addq s (f, n, x) v).
Proof. intros H Hv. apply NN_addq; [exact H|]. intros Hf. destruct H as [H1 _]. specialize (H1 f n x Hf). lra. Qed.
Lemma NN_sl s k v : NN s -> nonneg_l v -> NN (sl s k v).
Proof. intros [H1 H2] Hv. split.
  - intros f n x Hf. gs. auto.
  - intros k'. kcase k' k; [gs; exact Hv | rewrite gl_sl_other by assumption; apply H2]. Qed.
Lemma NN_q s f n x : NN s -> nnf f = true -> 0 <= gq s (f, n, x).
Proof. intros [H _]. apply H. Qed.
Lemma NN_l s k : NN s -> nonneg_l (gl s k).
Proof. intros [_ H]. apply H. Qed.

Section Pres.
Variable (NW : net) (dis : N -> bool) (dem : N -> Q).
Hypothesis WF : wf_net NW.
Hypothesis dem_pos : forall n, 0 <= dem n.
Notation C := (cfg NW).

Lemma NN_gen_demand s n : NN s -> NN (gen_demand NW dem s n).
Proof. intros H. unfold gen_demand. destruct (has_dem (C n)); [|exact H]. apply NN_sl; [exact H|]. constructor; [apply dem_pos|constructor]. Qed.

Lemma NN_recv_order_one n s c : NN s -> NN (recv_order_one n s c).
Proof. intros H. unfold recv_order_one.
  assert (Hx : 0 <= hd0 (gl s (fOP, n, c))) by (apply hd0_nonneg, NN_l, H).
  apply NN_addq_pos; [|exact Hx]. apply NN_addq_pos; [|exact Hx]. apply NN_addq_pos; [|exact Hx]. apply NN_addq_pos; [|exact Hx].
  apply NN_sl; [|apply Forall_nonneg_zero0, NN_l, H]. apply NN_sq; [exact H|intros _; exact Hx]. Qed.
Lemma NN_recv_orders s n : NN s -> NN (recv_orders NW s n).
Proof. intros H. unfold recv_orders. apply fold_left_inv; [|exact H]. intros a x _ Ha. apply NN_recv_order_one. exact Ha. Qed.

Lemma NN_place_one n oq s p : 0 <= oq -> NN s -> NN (place_one NW n oq s p).
Proof. intros Hq H. unfold place_one. apply NN_addq_pos; [|exact Hq]. apply NN_addq; [|intros Hf; discriminate]. apply NN_addq_pos; [|exact Hq].
  destruct p as [|p']; apply NN_sl; try exact H; apply Forall_nonneg_add_at; try exact Hq; apply NN_l, H. Qed.
Lemma NN_place_order s n : NN s -> NN (place_order NW dis s n).
Proof. intros H. unfold place_order. destruct (disk NW dis n dOP); [exact H|].
  pose proof (order_qty_nonneg NW s n (wf_pol NW WF n)) as Hq.
  apply fold_left_inv; [intros a x _ Ha; apply NN_place_one; assumption|].
  apply NN_addq; [|intros Hf; discriminate]. apply NN_addq_pos; assumption. Qed.
Lemma NN_orders_action s n : NN s -> NN (orders_action NW dis dem s n).
Proof. intros H. unfold orders_action. apply NN_place_order, NN_recv_orders, NN_gen_demand, H. Qed.

Lemma NN_recv_ship_one n s p : NN s -> NN (recv_ship_one NW dis n s p).
Proof. intros H. unfold recv_ship_one.
  assert (Hr : 0 <= hd0 (gl s (fSP, n, p))) by (apply hd0_nonneg, NN_l, H).
  assert (Hi : 0 <= gq s (fIDI, n, p)) by (apply NN_q; [exact H|reflexivity]).
  set (rp := disk NW dis n dRP).
  assert (His : 0 <= (if rp then 0 else hd0 (gl s (fSP, n, p)) + gq s (fIDI, n, p))) by (destruct rp; lra).
  apply NN_addq_pos; [|exact His]. apply NN_sq; [|intros _; destruct rp; lra].
  apply NN_addq; [|intros Hf; discriminate]. apply NN_addq_pos; [|exact His].
  apply NN_sl; [|apply Forall_nonneg_zero0, NN_l, H]. apply NN_sq; [exact H|intros _; exact His]. Qed.
Lemma NN_recv_ship s n : NN s -> NN (recv_ship NW dis s n).
Proof. intros H. unfold recv_ship. apply fold_left_inv; [|exact H]. intros a x _ Ha. apply NN_recv_ship_one. exact Ha. Qed.

(* subtracting [made] from the raw material of every supplier of a duplicate-free supplier list *)
Lemma produce_fold n made : forall l s, NoDup l ->
  let s' := fold_left (fun s p => addq s (fRM, n, p) (- made)) l s in
  (forall k, (forall p, In p l -> k <> (fRM, n, p)) -> gq s' k = gq s k) /\
  (forall p, In p l -> gq s' (fRM, n, p) = gq s (fRM, n, p) + - made) /\
  (forall k, gl s' k = gl s k).
Proof.
  induction l as [|a r IH]; intros s ND; cbn [fold_left].
  - split; [reflexivity|]. split; [intros p []|reflexivity].
  - inversion ND as [|? ? Hna Hr]; subst. destruct (IH (addq s (fRM, n, a) (- made)) Hr) as (F & U & L). split; [|split].
    + intros k Hk. rewrite F by (intros p Hp; apply Hk; right; exact Hp). apply gq_addq_other. apply Hk. left. reflexivity.
    + intros p [E|Hp].
      * subst. rewrite F; [apply gq_addq_same|]. intros q Hq E. inversion E; subst. contradiction.
      * rewrite U by exact Hp. rewrite gq_addq_other; [reflexivity|]. intro E. inversion E; subst. contradiction.
    + intros k. rewrite L. reflexivity.
Qed.

Lemma NN_produce s n : NN s -> NN (fst (produce NW s n)) /\ 0 <= snd (produce NW s n).
Proof.
  intros H. unfold produce. cbn [fst snd].
  set (sup := suppliers (C n)). set (made := qmin_list (map (fun p => gq s (fRM, n, p)) sup)).
  assert (Hm : 0 <= made).
  { apply qmin_list_nonneg. apply Forall_forall. intros x Hx. apply in_map_iff in Hx. destruct Hx as (p & E & _). subst. apply NN_q; [exact H|reflexivity]. }
  split; [|exact Hm].
  destruct (produce_fold n made sup s (wf_sup NW WF n)) as (F & U & L).
  set (s1 := fold_left (fun s p => addq s (fRM, n, p) (- made)) sup s) in *.
  assert (H1 : NN s1).
  { split.
    - intros f n' x Hf. destruct (key_eq_dec (f, n', x) (fRM, n, x)) as [E|NE].
      + inversion E; subst. destruct (in_dec nb_eq_dec x sup) as [Hin|Hout].
        * rewrite U by exact Hin. assert (made <= gq s (fRM, n, x)) by (apply qmin_list_le, in_map_iff; exists x; split; [reflexivity|exact Hin]). lra.
        * rewrite F; [apply NN_q; assumption|]. intros p Hp E'. inversion E'; subst. contradiction.
      + rewrite F; [apply NN_q; assumption|]. intros p Hp E'. inversion E'; subst. apply NE. reflexivity.
    - intros k. rewrite L. apply NN_l, H. }
  apply NN_addq_pos; [|exact Hm]. apply NN_addq; [|intros Hf; discriminate]. apply NN_addq; [exact H1|intros Hf; discriminate].
Qed.

Lemma NN_serve_one n acc c : NN (fst acc) -> 0 <= snd acc -> NN (fst (serve_one NW dis n acc c)) /\ 0 <= snd (serve_one NW dis n acc c).
Proof.
  destruct acc as [s oh]. cbn [fst snd]. intros H Hoh. unfold serve_one.
  set (sp := match c with Nd c' => disk NW dis c' dSP | Ext => false end).
  assert (Hb : 0 <= gq s (fBO, n, c)) by (apply NN_q; [exact H|reflexivity]).
  assert (Hi : 0 <= gq s (fPIO, n, c)) by (apply NN_q; [exact H|reflexivity]).
  assert (Hd : 0 <= gq s (fODI, n, c)) by (apply NN_q; [exact H|reflexivity]).
  pose proof (serve_calc_spec oh _ _ _ sp Hoh Hb Hi Hd) as S. cbv zeta in S.
  set (o := serve_calc oh (gq s (fBO, n, c)) (gq s (fPIO, n, c)) (gq s (fODI, n, c)) sp) in *.
  destruct S as (_ & Poh & _ & Pbo & Pos & Podi & _ & _ & Pdm & _).
  assert (HN : NN (addq (addq (addq (sq (sq (sq (addq (addq (addq (sq s (fOS, n, c) (o_os o)) (fDMFS, n, Ext) (o_dmfs o)) (fDMC, n, Ext) (o_dmfs o))
             (fIL, n, Ext) (- gq s (fPIO, n, c))) (fBO, n, c) (o_bo o)) (fODI, n, c) (o_odi o)) (fPIO, n, c) 0)
             (fPEND, n, Ext) (- gq s (fPIO, n, c))) (fSRV, n, Ext) (gq s (fPIO, n, c))) (fcOS, n, c) (o_os o))).
  { apply NN_addq_pos; [|exact Pos]. apply NN_addq_pos; [|exact Hi]. apply NN_addq; [|intros Hf; discriminate].
    apply NN_sq; [|intros _; lra]. apply NN_sq; [|intros _; exact Podi]. apply NN_sq; [|intros _; exact Pbo].
    apply NN_addq; [|intros Hf; discriminate]. apply NN_addq_pos; [|exact Pdm]. apply NN_addq_pos; [|exact Pdm].
    apply NN_sq; [exact H|intros _; exact Pos]. }
  destruct c as [|c']; cbn [fst snd]; (split; [|exact Poh]); [exact HN|].
  apply NN_sl; [exact HN|]. apply Forall_nonneg_add_at; [exact Pos|]. apply NN_l, HN.
Qed.

Lemma NN_serve_fold n : forall l acc, NN (fst acc) -> 0 <= snd acc ->
  NN (fst (fold_left (serve_one NW dis n) l acc)) /\ 0 <= snd (fold_left (serve_one NW dis n) l acc).
Proof. induction l as [|c r IH]; intros acc H Hoh; cbn [fold_left]; [split; assumption|].
  destruct (NN_serve_one n acc c H Hoh) as [H1 H2]. apply IH; assumption. Qed.

Lemma NN_serve s n il0 made : NN s -> 0 <= made -> NN (serve NW dis s n il0 made).
Proof. intros H Hm. unfold serve. apply NN_serve_fold; cbn [fst snd].
  - apply NN_sq; [exact H|intros _; lra].
  - qcases; lra. Qed.

Lemma NN_fill_rate s n : NN s -> NN (fill_rate s n).
Proof. intros H. unfold fill_rate. apply NN_sq; [exact H|]. intros _.
  destruct (qltb_spec 0 (gq s (fDC, n, Ext))) as [[Hp E]|[Hp E]]; rewrite E; [|lra].
  assert (0 <= gq s (fDMC, n, Ext)) by (apply NN_q; [exact H|reflexivity]).
  unfold Qdiv. apply Qmult_le_0_compat; [assumption|]. apply Qlt_le_weak, Qinv_lt_0_compat. exact Hp. Qed.

Lemma NN_ships_action s n : NN s -> NN (ships_action NW dis s n).
Proof. intros H. unfold ships_action.
  pose proof (NN_produce (recv_ship NW dis s n) n (NN_recv_ship s n H)) as [H1 H2].
  destruct (produce NW (recv_ship NW dis s n) n) as [s1 made]. cbn [fst snd] in *.
  apply NN_fill_rate, NN_serve; assumption. Qed.

Lemma NN_next_node s n : NN s -> NN (next_node NW dis s n).
Proof. intros H. unfold next_node.
  apply NN_sq; [|intros _; lra]. apply NN_sq; [|intros _; lra]. apply NN_sq; [|intros _; lra].
  apply fold_left_inv.
  { intros a x _ Ha. apply NN_sq; [|intros _; lra]. apply NN_sq; [|intros _; lra].
    apply NN_sl; [|apply Forall_nonneg_shift_op, NN_l; apply NN_addq_pos; [exact Ha|apply hd0_nonneg, NN_l, Ha]].
    apply NN_addq_pos; [exact Ha|apply hd0_nonneg, NN_l, Ha]. }
  apply fold_left_inv; [|exact H].
  intros a x _ Ha. apply NN_sq; [|intros _; lra]. apply NN_sq; [|intros _; lra].
  destruct (disk NW dis n dTP); [exact Ha|]. apply NN_sl; [exact Ha|]. apply Forall_nonneg_shift_sp, NN_l, Ha. Qed.

Lemma NN_next_period s : NN s -> NN (next_period NW dis s).
Proof. intros H. unfold next_period. apply fold_left_inv; [|exact H]. intros a x _ Ha. apply NN_next_node. exact Ha. Qed.

Lemma NN_run_actions s : NN s -> NN (run_actions NW dis dem s).
Proof. intros H. unfold run_actions. apply fold_left_inv; [intros a x _ Ha; apply NN_ships_action; exact Ha|].
  apply fold_left_inv; [intros a x _ Ha; apply NN_orders_action; exact Ha|exact H]. Qed.
End Pres.

(* initial state *)
Lemma nonneg_repeat v k : 0 <= v -> nonneg_l (repeat v k).
Proof. intros H. induction k; cbn [repeat]; constructor; assumption. Qed.
Lemma NN_init NW : wf_net NW -> NN (init_state NW).
Proof. intros WF. unfold init_state. apply fold_left_inv.
  2:{ split; [intros; rewrite gq_empty; lra|intros; rewrite gl_empty; constructor]. }
  intros s n _ H. unfold init_node. destruct (wf_init NW WF n) as (Ho & Hs & Hil).
  apply fold_left_inv.
  { intros a p _ Ha. apply NN_sq; [|intros Hf; discriminate]. apply NN_sl; [exact Ha|].
    apply Forall_app; split; [apply nonneg_repeat; exact Hs|]. apply Forall_app; split; [|constructor; [lra|constructor]].
    destruct p; apply nonneg_repeat; [exact Ho|lra]. }
  apply fold_left_inv.
  { intros a x _ Ha. destruct x as [|x']; apply NN_sl; try exact Ha; [constructor; [lra|constructor]|].
    apply Forall_app; split; [apply nonneg_repeat; apply (wf_init NW WF x')|constructor; [lra|constructor]]. }
  apply NN_sq; [exact H|intros Hf; discriminate]. Qed.

(* every reachable end-of-period state *)
Theorem NN_run NW inputs : wf_net NW -> Forall (fun i => forall n, 0 <= snd i n) inputs ->
  Forall NN (run NW inputs).
Proof. intros WF. unfold run. generalize (init_state NW) (NN_init NW WF). induction inputs as [|[dis dem] r IH]; intros s Hs Hin; cbn [run_from]; [constructor|].
  inversion Hin as [|? ? Hd Hr]; subst. cbn [snd] in Hd.
  assert (He : NN (run_actions NW dis dem s)) by (apply NN_run_actions; assumption).
  constructor; [exact He|]. apply IH; [|exact Hr]. apply NN_next_period; assumption. Qed.
