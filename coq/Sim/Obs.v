(* Observable form of a run of the simulator model, for the correspondence with the implementation. *)
From SV Require Import Sim.Model.

Definition obs_node (NW : net) (e : st) (n : N) : list (list (Z * Z)) :=
  let c := cfg NW n in
  let k := node_costs NW e n in
  map qobs [gq e (fIL, n, Ext); gq e (fOQFG, n, Ext); gq e (fPFG, n, Ext); gq e (fDMFS, n, Ext); gq e (fDC, n, Ext);
            gq e (fDMC, n, Ext); gq e (fFR, n, Ext); c_hc k; c_sc k; c_ithc k; c_rev k; c_tc k]
  :: map (fun x => map qobs ([gq e (fIO, n, x); gq e (fOS, n, x); gq e (fBO, n, x); gq e (fODI, n, x)] ++ gl e (fOP, n, x))) (customers c)
  ++ map (fun p => map qobs ([gq e (fIS, n, p); gq e (fIDI, n, p); gq e (fRM, n, p); gq e (fOO, n, p); gq e (fOQ, n, p)] ++ gl e (fSP, n, p))) (suppliers c).

Definition obs_run (NW : net) (inputs : list ((N -> bool) * (N -> Q))) : list (list (list (list (Z * Z)))) * (Z * Z) :=
  let recs := run NW inputs in
  (map (fun e => map (obs_node NW e) (nodes NW)) recs, qobs (total_cost NW recs)).

(* lookup tables written by the harness: association list -> total function *)
Fixpoint tbl {A} (d : A) (l : list (N * A)) (n : N) : A :=
  match l with [] => d | (k, v) :: r => if N.eqb n k then v else tbl d r n end.
Definition dflt_cfg : ncfg :=
  {| preds := []; succs := []; ext_sup := false; has_dem := false; slt := 0; olt := 0; pol := BS 0; cap := None;
     init_il := None; hc := 0; pc := 0; ith := None; rev := 0; dtype := None; init_orders := 0; init_ships := 0 |}.
